import Bch.Model.MerkleHeap
import Bch.Proofs.Merkle
import Bch.Proofs.MerkleSelect
/-!
Frame, ownership and refinement lemmas for the heap-level model of the merkle-block code
(`Bch/Model/MerkleHeap.lean`).  Used by `Bch/Props/C12Heap.lean` (decoder) and `Bch/Props/C11Heap.lean` (builders).
-/
set_option linter.unusedSectionVars false

namespace Bch.Proofs.MerkleHeap
open Bch Bch.Model.Merkle Bch.Model.MerkleSelect Bch.Model.MerkleHeap

/-! ## lists of arrays / objects: "everything that was there is still there, unchanged" -/

section Keeps
variable {α : Type}

/-- every element of `l0` is still at its index in `l`, unchanged (`l0` is a prefix of `l`) -/
def Keeps (l0 l : List α) : Prop := ∀ (i : Nat) (a : α), l0[i]? = some a → l[i]? = some a

theorem Keeps.refl (l : List α) : Keeps l l := fun _ _ e => e
theorem Keeps.trans {l0 l1 l2 : List α} (p : Keeps l0 l1) (q : Keeps l1 l2) : Keeps l0 l2 :=
  fun i a e => q i a (p i a e)

theorem Keeps.length_le {l0 l : List α} (p : Keeps l0 l) : l0.length ≤ l.length := by
  rcases Nat.lt_or_ge l.length l0.length with hlt | hge
  · have e : l0[l.length]? = some l0[l.length] := List.getElem?_eq_getElem hlt
    have := p _ _ e
    simp at this
  · exact hge

theorem Keeps.getElem? {l0 l : List α} (p : Keeps l0 l) {i : Nat} (hi : i < l0.length) : l[i]? = l0[i]? := by
  have e : l0[i]? = some l0[i] := List.getElem?_eq_getElem hi
  rw [p _ _ e, e]

theorem Keeps.getD {l0 l : List α} (p : Keeps l0 l) {i : Nat} (hi : i < l0.length) (d : α) :
    l.getD i d = l0.getD i d := by
  simp only [List.getD_eq_getElem?_getD, p.getElem? hi]

theorem keeps_append (l t : List α) : Keeps l (l ++ t) := by
  intro i a e
  have hi : i < l.length := by
    rcases Nat.lt_or_ge i l.length with hlt | hge
    · exact hlt
    · simp [List.getElem?_eq_none hge] at e
  rw [List.getElem?_append_left hi]; exact e

theorem Keeps.append {l0 l : List α} (p : Keeps l0 l) (t : List α) : Keeps l0 (l ++ t) :=
  p.trans (keeps_append l t)

theorem getElem?_modify' (l : List α) (f : α → α) (b i : Nat) :
    (l.modify b f)[i]? = if b = i then l[i]?.map f else l[i]? := by
  rw [List.getElem?_modify]; split <;> simp_all

theorem Keeps.modify_ge {l0 l : List α} (p : Keeps l0 l) {b : Nat} (hb : l0.length ≤ b) (f : α → α) :
    Keeps l0 (l.modify b f) := by
  intro i a e
  have hi : i < l0.length := by
    rcases Nat.lt_or_ge i l0.length with hlt | hge
    · exact hlt
    · simp [List.getElem?_eq_none hge] at e
  rw [getElem?_modify', if_neg (by omega)]
  exact p i a e

theorem Keeps.set_ge {l0 l : List α} (p : Keeps l0 l) {b : Nat} (hb : l0.length ≤ b) (x : α) :
    Keeps l0 (l.set b x) := by
  intro i a e
  have hi : i < l0.length := by
    rcases Nat.lt_or_ge i l0.length with hlt | hge
    · exact hlt
    · simp [List.getElem?_eq_none hge] at e
  rw [List.getElem?_set_ne (by omega)]
  exact p i a e

/-- `Keeps` is the prefix relation -/
theorem keeps_iff_prefix (l0 l : List α) : Keeps l0 l ↔ l0 <+: l := by
  constructor
  · intro p
    refine ⟨l.drop l0.length, ?_⟩
    apply List.ext_getElem?
    intro i
    by_cases hi : i < l0.length
    · rw [List.getElem?_append_left hi, p.getElem? hi]
    · rw [List.getElem?_append_right (by omega), List.getElem?_drop]
      congr 1; omega
  · rintro ⟨t, rfl⟩
    exact keeps_append l0 t

theorem Keeps.take_eq {l0 l : List α} (p : Keeps l0 l) : l.take l0.length = l0 := by
  obtain ⟨t, rfl⟩ := (keeps_iff_prefix l0 l).1 p
  simp

end Keeps

/-! ## arrays: `writeAt`, validity and ownership of slices, `makeA`, `appendA` -/

section Arrays
variable {α : Type}

theorem length_writeAt (a : List α) (pos : Nat) (xs : List α) : (writeAt a pos xs).length = a.length := by
  induction xs generalizing a pos with
  | nil => rfl
  | cons x xs ih => simp [writeAt, ih]

theorem getElem?_writeAt (a : List α) (pos : Nat) (xs : List α) (i : Nat) :
    (writeAt a pos xs)[i]? =
      if pos ≤ i ∧ i < pos + xs.length ∧ i < a.length then xs[i - pos]? else a[i]? := by
  induction xs generalizing a pos with
  | nil => simp only [writeAt, List.length_nil, Nat.add_zero]; rw [if_neg (by omega)]
  | cons x xs ih =>
    simp only [writeAt]
    rw [ih]
    simp only [List.length_set, List.length_cons, List.getElem?_set]
    by_cases h1 : pos = i
    · subst h1
      by_cases h2 : pos < a.length
      · rw [if_neg (by omega), if_pos rfl, if_pos (by omega)]; simp [h2]
      · rw [if_neg (by omega), if_pos rfl, if_neg (by omega)]; simp at h2; simp [h2]
    · by_cases h2 : pos + 1 ≤ i ∧ i < pos + 1 + xs.length ∧ i < a.length
      · have h3 : pos ≤ i ∧ i < pos + (xs.length + 1) ∧ i < a.length := by omega
        rw [if_pos h2, if_pos h3]
        obtain ⟨k, hk⟩ : ∃ k, i - pos = k + 1 := ⟨i - pos - 1, by omega⟩
        rw [hk, List.getElem?_cons_succ]
        congr 1; omega
      · have h3 : ¬(pos ≤ i ∧ i < pos + (xs.length + 1) ∧ i < a.length) := by omega
        rw [if_neg h2, if_neg h3, if_neg h1]

/-- the slice lies inside its backing array (true of every slice a Go program can hold) -/
def ValidA (arrs : List (List α)) (s : Slice) : Prop :=
  s.len ≤ s.cap ∧ s.off + s.cap ≤ (arrs.getD s.arr []).length

/-- the slice has no capacity (nil / `make(…, 0)`) or lives in an array with index `≥ n0` (allocated later than the
first `n0` arrays) -/
def OwnedA (n0 : Nat) (s : Slice) : Prop := s.cap = 0 ∨ n0 ≤ s.arr

theorem valid_nil (arrs : List (List α)) : ValidA arrs Slice.nil := by simp [ValidA, Slice.nil]
theorem owned_nil (n0 : Nat) : OwnedA n0 Slice.nil := Or.inl rfl

theorem OwnedA.mono {n0 n1 : Nat} {s : Slice} (o : OwnedA n1 s) (h : n0 ≤ n1) : OwnedA n0 s := by
  rcases o with o | o
  · exact Or.inl o
  · exact Or.inr (by omega)

theorem length_readA {arrs : List (List α)} {s : Slice} (w : ValidA arrs s) : (readA arrs s).length = s.len := by
  simp only [readA, window, List.length_take, List.length_drop]
  have := w.1; have := w.2; omega

theorem getElem?_readA (arrs : List (List α)) (s : Slice) (i : Nat) :
    (readA arrs s)[i]? = if i < s.len then (arrs.getD s.arr [])[s.off + i]? else none := by
  simp [readA, window, List.getElem?_take, List.getElem?_drop]

/-- reading through a slice whose array is among the kept ones gives the same elements -/
theorem Keeps.readA {l0 l : List (List α)} (p : Keeps l0 l) {s : Slice} (hs : s.arr < l0.length) :
    readA l s = readA l0 s := by
  simp only [Bch.Model.MerkleHeap.readA, p.getD hs]

theorem Keeps.validA {l0 l : List (List α)} (p : Keeps l0 l) {s : Slice} (hs : s.arr < l0.length)
    (w : ValidA l0 s) : ValidA l s := by
  simpa only [ValidA, p.getD hs] using w

/-- the same for a slice that is merely valid (a slice of a non-existing array is empty) -/
theorem Keeps.readA_of_valid {l0 l : List (List α)} (p : Keeps l0 l) {s : Slice} (w : ValidA l0 s) :
    Bch.Model.MerkleHeap.readA l s = Bch.Model.MerkleHeap.readA l0 s := by
  by_cases hs : s.arr < l0.length
  · exact p.readA hs
  · have h0 : l0.getD s.arr [] = [] := by
      rw [List.getD_eq_getElem?_getD, List.getElem?_eq_none (by omega)]; rfl
    have hw := w.2
    rw [h0] at hw
    have hl : s.len = 0 := by have := w.1; simp at hw; omega
    simp [Bch.Model.MerkleHeap.readA, window, hl]

/-! ### `makeA` -/

theorem makeA_keeps (z : α) (arrs : List (List α)) (n c : Nat) : Keeps arrs (makeA z arrs n c).1 :=
  keeps_append _ _

theorem makeA_valid (z : α) (arrs : List (List α)) {n c : Nat} (h : n ≤ c) :
    ValidA (makeA z arrs n c).1 (makeA z arrs n c).2 := by
  simp [ValidA, makeA, h]

theorem makeA_arr (z : α) (arrs : List (List α)) (n c : Nat) : (makeA z arrs n c).2.arr = arrs.length := rfl

theorem makeA_owned (z : α) {n0 : Nat} {arrs : List (List α)} (h : n0 ≤ arrs.length) (n c : Nat) :
    OwnedA n0 (makeA z arrs n c).2 := Or.inr h

theorem makeA_read0 (z : α) (arrs : List (List α)) (c : Nat) :
    readA (makeA z arrs 0 c).1 (makeA z arrs 0 c).2 = [] := by
  simp [readA, window, makeA]

theorem makeA_length (z : α) (arrs : List (List α)) (n c : Nat) :
    (makeA z arrs n c).1.length = arrs.length + 1 := by simp [makeA]

/-! ### `appendA` -/

theorem appendA_length_le (g : Nat → Nat → Nat) (z : α) (arrs : List (List α)) (s : Slice) (xs : List α) :
    arrs.length ≤ (appendA g z arrs s xs).1.length := by
  unfold appendA; split <;> simp

/-- appending through an owned slice keeps the first `l0.length` arrays -/
theorem appendA_keeps (g : Nat → Nat → Nat) (z : α) {l0 arrs : List (List α)} (p : Keeps l0 arrs) {s : Slice}
    (o : OwnedA l0.length s) (xs : List α) : Keeps l0 (appendA g z arrs s xs).1 := by
  unfold appendA
  split
  · rename_i hfit
    rcases o with o | o
    · have : xs = [] := List.eq_nil_of_length_eq_zero (by omega)
      subst this
      intro i a e
      rw [getElem?_modify']
      split
      · rw [p i a e]; simp [writeAt]
      · exact p i a e
    · exact p.modify_ge o _
  · exact p.append _

/-- **Frame of `appendA`, any slice**: every array keeps its index and length; the elements outside the
spare-capacity window `[off+len, off+cap)` of the array of `s` keep their value -/
theorem appendA_frame (g : Nat → Nat → Nat) (z : α) (arrs : List (List α)) (s : Slice) (xs : List α) (b : Nat)
    (a : List α) (hb : arrs[b]? = some a) :
    ∃ a', (appendA g z arrs s xs).1[b]? = some a' ∧ a'.length = a.length ∧
      ∀ i, ¬(b = s.arr ∧ s.off + s.len ≤ i ∧ i < s.off + s.cap) → a'[i]? = a[i]? := by
  unfold appendA
  split
  · rename_i hfit
    simp only [getElem?_modify', hb]
    by_cases hsb : s.arr = b
    · subst hsb
      refine ⟨writeAt a (s.off + s.len) xs, by simp, length_writeAt _ _ _, ?_⟩
      intro i hi
      rw [getElem?_writeAt, if_neg]
      omega
    · exact ⟨a, by simp [hsb], rfl, fun _ _ => rfl⟩
  · exact ⟨a, keeps_append arrs _ b a hb, rfl, fun _ _ => rfl⟩

theorem appendA_owned (g : Nat → Nat → Nat) (z : α) {n0 : Nat} {arrs : List (List α)} (hn : n0 ≤ arrs.length)
    {s : Slice} (o : OwnedA n0 s) (xs : List α) : OwnedA n0 (appendA g z arrs s xs).2 := by
  unfold appendA
  split
  · exact o
  · exact Or.inr hn

theorem appendA_fresh (g : Nat → Nat → Nat) (z : α) {n0 : Nat} {arrs : List (List α)} (hn : n0 ≤ arrs.length)
    {s : Slice} (o : n0 ≤ s.arr) (xs : List α) : n0 ≤ (appendA g z arrs s xs).2.arr := by
  unfold appendA
  split
  · exact o
  · exact hn

theorem appendA_arr_lt (g : Nat → Nat → Nat) (z : α) {arrs : List (List α)} {s : Slice} (o : s.arr < arrs.length)
    (xs : List α) : (appendA g z arrs s xs).2.arr < (appendA g z arrs s xs).1.length := by
  unfold appendA
  split
  · simpa using o
  · simp

theorem appendA_len_le_cap (g : Nat → Nat → Nat) (z : α) (arrs : List (List α)) (s : Slice) (xs : List α) :
    (appendA g z arrs s xs).2.len ≤ (appendA g z arrs s xs).2.cap := by
  unfold appendA
  split
  · rename_i h; exact h
  · simp

theorem appendA_exists (g : Nat → Nat → Nat) (z : α) {arrs : List (List α)} {s : Slice}
    (o : s.cap = 0 ∨ s.arr < arrs.length) (xs : List α) :
    (appendA g z arrs s xs).2.cap = 0 ∨ (appendA g z arrs s xs).2.arr < (appendA g z arrs s xs).1.length := by
  unfold appendA
  split
  · rcases o with o | o
    · exact Or.inl o
    · exact Or.inr (by simpa using o)
  · exact Or.inr (by simp)

theorem length_getD_modify (arrs : List (List α)) (k : Nat) (f : List α → List α)
    (hf : ∀ a, (f a).length = a.length) (b : Nat) :
    ((arrs.modify k f).getD b []).length = (arrs.getD b []).length := by
  simp only [List.getD_eq_getElem?_getD, getElem?_modify']
  split
  · cases arrs[b]? <;> simp [hf]
  · rfl

theorem appendA_valid (g : Nat → Nat → Nat) (z : α) {arrs : List (List α)} {s : Slice} (w : ValidA arrs s)
    (xs : List α) : ValidA (appendA g z arrs s xs).1 (appendA g z arrs s xs).2 := by
  unfold appendA
  split
  · rename_i hfit
    refine ⟨hfit, ?_⟩
    simp only []
    rw [length_getD_modify _ _ _ (fun a => length_writeAt a _ _)]
    exact w.2
  · have hl := length_readA w
    simp [ValidA, hl]; omega

/-- **Content of `appendA`**: the returned slice holds the old elements followed by `xs` -/
theorem appendA_read (g : Nat → Nat → Nat) (z : α) {arrs : List (List α)} {s : Slice} (w : ValidA arrs s)
    (xs : List α) : readA (appendA g z arrs s xs).1 (appendA g z arrs s xs).2 = readA arrs s ++ xs := by
  have hl := length_readA w
  unfold appendA
  split
  · rename_i hfit
    apply List.ext_getElem?
    intro i
    rw [getElem?_readA, List.getElem?_append, hl, getElem?_readA]
    simp only [List.getD_eq_getElem?_getD, getElem?_modify', if_true]
    have hw := w.2
    simp only [List.getD_eq_getElem?_getD] at hw
    cases hab : arrs[s.arr]? with
    | none =>
      simp [hab] at hw
      have : xs = [] := List.eq_nil_of_length_eq_zero (by omega)
      subst this
      simp
    | some a =>
      simp only [hab, Option.map_some, Option.getD_some] at hw ⊢
      rw [getElem?_writeAt]
      by_cases h1 : i < s.len
      · have : ¬(s.off + s.len ≤ s.off + i ∧ s.off + i < s.off + s.len + xs.length ∧ s.off + i < a.length) := by
          omega
        rw [if_neg this, if_pos h1, if_pos (by omega), if_pos h1]
      · rw [if_neg h1]
        by_cases h2 : i < s.len + xs.length
        · rw [if_pos h2, if_pos (by omega)]
          congr 1; omega
        · rw [if_neg h2]
          symm; apply List.getElem?_eq_none; omega
  · have e : readA (arrs ++ [readA arrs s ++ xs ++ List.replicate (g s.cap (s.len + xs.length)) z])
        ⟨arrs.length, 0, s.len + xs.length, s.len + xs.length + g s.cap (s.len + xs.length)⟩
        = (readA arrs s ++ xs ++ List.replicate (g s.cap (s.len + xs.length)) z).take (s.len + xs.length) := by
      simp [readA, window]
    simp only []
    rw [e, List.append_assoc, ← List.append_assoc, List.take_append_of_le_length (by simp [hl])]
    exact List.take_of_length_le (by simp [hl])

theorem appendA_len (g : Nat → Nat → Nat) (z : α) (arrs : List (List α)) (s : Slice) (xs : List α) :
    (appendA g z arrs s xs).2.len = s.len + xs.length := by
  unfold appendA; split <;> rfl

end Arrays


/-! ## the heap: what a call keeps -/

section HeapLevel
variable {H : Type}

/-- the `Tx` wrappers are the same objects with the same transaction ids; a memo that was filled is unchanged, a memo
that was empty is still empty or points at a hash object allocated after `h0` that holds the transaction's id -/
def MemoOnly (h0 h : Heap H) : Prop :=
  h.txs.length = h0.txs.length ∧
  ∀ (t : Nat) (tx : TxObj H), h0.txs[t]? = some tx → ∃ tx' : TxObj H, h.txs[t]? = some tx' ∧ tx'.id = tx.id ∧
    (∀ p, tx.memo = some p → tx'.memo = some p) ∧
    (∀ p, tx'.memo = some p → tx.memo = some p ∨ (h0.hashes.length ≤ p ∧ h.hashes[p]? = some tx.id))

/-- **nothing that existed in `h0` has been written**: every hash object, every pointer / byte / uint32 array of `h0`
is still there with the same contents (whole arrays: spare capacity included); the `Tx` wrappers changed at most by
filling empty hash memos -/
structure HKeeps (h0 h : Heap H) : Prop where
  hashes : Keeps h0.hashes h.hashes
  ptrs : Keeps h0.ptrs h.ptrs
  bytes : Keeps h0.bytes h.bytes
  u32s : Keeps h0.u32s h.u32s
  txs : MemoOnly h0 h

theorem MemoOnly.refl (h : Heap H) : MemoOnly h h :=
  ⟨rfl, fun _ tx e => ⟨tx, e, rfl, fun _ e => e, fun _ e => Or.inl e⟩⟩

theorem HKeeps.refl (h : Heap H) : HKeeps h h :=
  ⟨Keeps.refl _, Keeps.refl _, Keeps.refl _, Keeps.refl _, MemoOnly.refl h⟩

theorem HKeeps.trans {h0 h1 h2 : Heap H} (a : HKeeps h0 h1) (b : HKeeps h1 h2) : HKeeps h0 h2 := by
  refine ⟨a.hashes.trans b.hashes, a.ptrs.trans b.ptrs, a.bytes.trans b.bytes, a.u32s.trans b.u32s, ?_⟩
  refine ⟨b.txs.1.trans a.txs.1, ?_⟩
  intro t tx e
  obtain ⟨tx1, e1, i1, m1, f1⟩ := a.txs.2 t tx e
  obtain ⟨tx2, e2, i2, m2, f2⟩ := b.txs.2 t tx1 e1
  refine ⟨tx2, e2, i2.trans i1, fun p hp => m2 p (m1 p hp), ?_⟩
  intro p hp
  rcases f2 p hp with f | ⟨f, g⟩
  · rcases f1 p f with f | ⟨f, g⟩
    · exact Or.inl f
    · exact Or.inr ⟨f, b.hashes _ _ g⟩
  · exact Or.inr ⟨Nat.le_trans a.hashes.length_le f, i1 ▸ g⟩

/-- only the hash store grew -/
theorem HKeeps.of_hashes {h0 h : Heap H} (k : HKeeps h0 h) (hs : List H) :
    HKeeps h0 { h with hashes := h.hashes ++ hs } := by
  refine ⟨k.hashes.append _, k.ptrs, k.bytes, k.u32s, k.txs.1, ?_⟩
  intro t tx e
  obtain ⟨tx1, e1, i1, m1, f1⟩ := k.txs.2 t tx e
  refine ⟨tx1, e1, i1, m1, ?_⟩
  intro p hp
  rcases f1 p hp with f | ⟨f, g⟩
  · exact Or.inl f
  · exact Or.inr ⟨f, keeps_append _ _ _ _ g⟩

theorem HKeeps.allocHash {h0 h : Heap H} (k : HKeeps h0 h) (x : H) : HKeeps h0 (allocHash h x).1 :=
  k.of_hashes [x]

theorem HKeeps.of_ptrs {h0 h : Heap H} (k : HKeeps h0 h) {l : List (List Nat)} (p : Keeps h0.ptrs l) :
    HKeeps h0 { h with ptrs := l } := ⟨k.hashes, p, k.bytes, k.u32s, k.txs⟩
theorem HKeeps.of_bytes {h0 h : Heap H} (k : HKeeps h0 h) {l : List (List UInt8)} (p : Keeps h0.bytes l) :
    HKeeps h0 { h with bytes := l } := ⟨k.hashes, k.ptrs, p, k.u32s, k.txs⟩
theorem HKeeps.of_u32s {h0 h : Heap H} (k : HKeeps h0 h) {l : List (List Nat)} (p : Keeps h0.u32s l) :
    HKeeps h0 { h with u32s := l } := ⟨k.hashes, k.ptrs, k.bytes, p, k.txs⟩

theorem HKeeps.makePtr {h0 h : Heap H} (k : HKeeps h0 h) (n c : Nat) : HKeeps h0 (makePtr h n c).1 :=
  k.of_ptrs (k.ptrs.append _)
theorem HKeeps.makeByte {h0 h : Heap H} (k : HKeeps h0 h) (n c : Nat) : HKeeps h0 (makeByte h n c).1 :=
  k.of_bytes (k.bytes.append _)
theorem HKeeps.makeU32 {h0 h : Heap H} (k : HKeeps h0 h) (n c : Nat) : HKeeps h0 (makeU32 h n c).1 :=
  k.of_u32s (k.u32s.append _)

theorem HKeeps.appendPtr (G : Growth) {h0 h : Heap H} (k : HKeeps h0 h) {s : Slice}
    (o : OwnedA h0.ptrs.length s) (xs : List Nat) : HKeeps h0 (appendPtr G h s xs).1 :=
  k.of_ptrs (appendA_keeps _ _ k.ptrs o xs)
theorem HKeeps.appendByte (G : Growth) {h0 h : Heap H} (k : HKeeps h0 h) {s : Slice}
    (o : OwnedA h0.bytes.length s) (xs : List UInt8) : HKeeps h0 (appendByte G h s xs).1 :=
  k.of_bytes (appendA_keeps _ _ k.bytes o xs)
theorem HKeeps.appendU32 (G : Growth) {h0 h : Heap H} (k : HKeeps h0 h) {s : Slice}
    (o : OwnedA h0.u32s.length s) (xs : List Nat) : HKeeps h0 (appendU32 G h s xs).1 :=
  k.of_u32s (appendA_keeps _ _ k.u32s o xs)

theorem deref_keeps (zero : H) {h0 h : Heap H} (k : Keeps h0.hashes h.hashes) {p : Nat}
    (hp : p < h0.hashes.length) : deref zero h p = deref zero h0 p := k.getD hp zero

theorem deref_alloc (zero : H) (h : Heap H) (x : H) : deref zero (allocHash h x).1 (allocHash h x).2 = x := by
  simp [deref, allocHash]

theorem allocHash_lt (h : Heap H) (x : H) : (allocHash h x).2 < (allocHash h x).1.hashes.length := by
  simp [allocHash]

theorem allocHash_keeps_hashes (h : Heap H) (x : H) : Keeps h.hashes (allocHash h x).1.hashes :=
  keeps_append _ _

end HeapLevel


/-! ## the decoder: `traverseH` refines `traverse` and writes fresh memory only -/

section Decoder
variable {H : Type} [DecidableEq H]

theorem toArray_getD_bool (l : List Bool) (i : Nat) : l.toArray.getD i false = l.getD i false := by
  simp [Array.getD, List.getD_eq_getElem?_getD]
  split <;> simp_all

theorem take_add_one_getElem {α : Type} (l : List α) (k : Nat) (x : α) (h : l[k]? = some x) :
    l.take (k+1) = l.take k ++ [x] := by
  rw [List.take_add_one, h]; rfl

theorem bitByte_eq_one (b : Bool) : (bitByte b == 1) = b := by cases b <;> decide
theorem bitByte_eq_zero (b : Bool) : (bitByte b == 0) = !b := by cases b <;> decide

/-- static facts about the heap `h0` an extraction starts in: the slices `finalHashes` (`fh`) and `bits` (`bs`) of the
`PartialBlock` lie in arrays of `h0`, hold the pointers `fhP` resp. the bytes of the bit list `bitsL`, and no pointer
dangles -/
structure Ctx (h0 : Heap H) (fh bs : Slice) (fhP : List Nat) (bitsL : List Bool) : Prop where
  fh_arr : fh.arr < h0.ptrs.length
  fh_read : readPtrs h0 fh = fhP
  fh_len : fh.len = fhP.length
  fh_ok : ∀ p ∈ fhP, p < h0.hashes.length
  bs_arr : bs.arr < h0.bytes.length
  bs_read : readBytes h0 bs = bitsL.map bitByte
  bs_len : bs.len = bitsL.length

/-- the simulation invariant between the heap state `(hp, m)` and the value-level cursor state `st` -/
structure Inv (zero : H) (h0 : Heap H) (fh bs : Slice) (n : Nat) (fhP : List Nat)
    (hp : Heap H) (m : PB) (st : Ext H) : Prop where
  keeps : HKeeps h0 hp
  txs_eq : hp.txs = h0.txs
  bytes_eq : hp.bytes = h0.bytes
  numTx : m.numTx = n
  fhs : m.finalHashes = fh
  bts : m.bits = bs
  bu : m.bitsUsed = st.bitsUsed
  hu : m.hashesUsed = st.hashesUsed
  bad : m.bad = st.bad
  mhV : ValidA hp.ptrs m.matchedHashes
  mhO : OwnedA h0.ptrs.length m.matchedHashes
  miV : ValidA hp.u32s m.matchedItems
  miO : OwnedA h0.u32s.length m.matchedItems
  mhA : m.matchedHashes.arr < hp.ptrs.length
  miA : m.matchedItems.arr < hp.u32s.length
  mh : (readPtrs hp m.matchedHashes).map (deref zero h0) = st.matchedHashes
  mi : readU32 hp m.matchedItems = st.matchedItems
  sub : (readPtrs hp m.matchedHashes).Sublist (fhP.take m.hashesUsed)

variable {zero : H} {h0 : Heap H} {fh bs : Slice} {n : Nat} {fhP : List Nat} {bitsL : List Bool}

theorem Inv.setBad {hp : Heap H} {m : PB} {st : Ext H} (I : Inv zero h0 fh bs n fhP hp m st) :
    Inv zero h0 fh bs n fhP hp { m with bad := true } { st with bad := true } :=
  { I with bad := rfl }

theorem Inv.alloc {hp : Heap H} {m : PB} {st : Ext H} (I : Inv zero h0 fh bs n fhP hp m st) (x : H) :
    Inv zero h0 fh bs n fhP (allocHash hp x).1 m st :=
  { I with keeps := I.keeps.allocHash x }

theorem Inv.advanceBit {hp : Heap H} {m : PB} {st : Ext H} (I : Inv zero h0 fh bs n fhP hp m st) :
    Inv zero h0 fh bs n fhP hp { m with bitsUsed := m.bitsUsed + 1 } { st with bitsUsed := st.bitsUsed + 1 } :=
  { I with bu := by simp [I.bu] }

/-- what a traversal step guarantees: the invariant again, the returned pointer denotes the value-level hash, exists,
the hash store only grew, and the pointer is either a NEW object or the message's pointer at the entry cursor -/
def Post (zero : H) (h0 : Heap H) (fh bs : Slice) (n : Nat) (fhP : List Nat) (hp : Heap H) (hu : Nat)
    (R : Nat × Heap H × PB) (V : H × Ext H) : Prop :=
  Inv zero h0 fh bs n fhP R.2.1 R.2.2 V.2 ∧ deref zero R.2.1 R.1 = V.1 ∧ R.1 < R.2.1.hashes.length ∧
  Keeps hp.hashes R.2.1.hashes ∧ (h0.hashes.length ≤ R.1 ∨ fhP[hu]? = some R.1)

theorem failH_post {hp : Heap H} {m : PB} {st : Ext H} (I : Inv zero h0 fh bs n fhP hp m st) (hu : Nat) :
    Post zero h0 fh bs n fhP hp hu (failH zero hp m) (zero, { st with bad := true }) := by
  refine ⟨(I.alloc zero).setBad, deref_alloc zero hp zero, allocHash_lt hp zero, allocHash_keeps_hashes hp zero,
    Or.inl ?_⟩
  exact I.keeps.hashes.length_le

/-- value-level twin of `takeHash` -/
def takeV (zero : H) (hashes : List H) (isMatch : Bool) (pos : Nat) (st : Ext H) : H × Ext H :=
  if hashes.length ≤ st.hashesUsed then (zero, { st with bad := true })
  else
    (hashes.getD st.hashesUsed zero,
      if isMatch then
        { st with hashesUsed := st.hashesUsed + 1,
                  matchedHashes := st.matchedHashes ++ [hashes.getD st.hashesUsed zero],
                  matchedItems := st.matchedItems ++ [pos] }
      else { st with hashesUsed := st.hashesUsed + 1 })

theorem takeHash_post (G : Growth) (C : Ctx h0 fh bs fhP bitsL) {hp : Heap H} {m : PB} {st : Ext H}
    (I : Inv zero h0 fh bs n fhP hp m st) (isMatch : Bool) (pos : Nat) :
    Post zero h0 fh bs n fhP hp st.hashesUsed (takeHash G zero isMatch pos hp m)
      (takeV zero (fhP.map (deref zero h0)) isMatch pos st) := by
  obtain ⟨mn, mfh, mbs, mbad, mbu, mhu, mmh, mmi⟩ := m
  obtain ⟨sbu, shu, sbad, smh, smi⟩ := st
  have e1 : mfh = fh := I.fhs
  have e2 : mhu = shu := I.hu
  subst e1 e2
  unfold takeHash takeV
  dsimp only
  rw [C.fh_len, List.length_map]
  by_cases hk : fhP.length ≤ mhu
  · rw [if_pos hk, if_pos hk]; exact failH_post I _
  · rw [if_neg hk, if_neg hk]
    have hk' : mhu < fhP.length := Nat.lt_of_not_le hk
    have hread : readPtrs hp mfh = fhP := by
      unfold readPtrs; rw [I.keeps.ptrs.readA C.fh_arr]; exact C.fh_read
    have hget : (readPtrs hp mfh)[mhu]? = some fhP[mhu] := by
      rw [hread]; exact List.getElem?_eq_getElem hk'
    have hp0 : fhP[mhu] < h0.hashes.length := C.fh_ok _ (List.getElem_mem hk')
    have hval : (fhP.map (deref zero h0)).getD mhu zero = deref zero h0 fhP[mhu] := by
      simp [List.getD_eq_getElem?_getD, hk']
    rw [hget, hval]
    dsimp only
    have hlen := I.keeps.hashes.length_le
    have hsub1 : fhP.take (mhu + 1) = fhP.take mhu ++ [fhP[mhu]] :=
      take_add_one_getElem _ _ _ (List.getElem?_eq_getElem hk')
    have hsub : (readPtrs hp mmh).Sublist (fhP.take mhu) := I.sub
    cases isMatch with
    | false =>
      simp only [Bool.false_eq_true, if_false]
      refine ⟨{ I with hu := rfl, sub := ?_ }, deref_keeps zero I.keeps.hashes hp0,
        Nat.lt_of_lt_of_le hp0 hlen, Keeps.refl _, Or.inr (List.getElem?_eq_getElem hk')⟩
      dsimp only
      rw [hsub1]
      exact hsub.trans (List.sublist_append_left _ _)
    | true =>
      simp only [if_true]
      have hlp := I.keeps.ptrs.length_le
      have hlu := I.keeps.u32s.length_le
      refine ⟨?_, deref_keeps zero I.keeps.hashes hp0, Nat.lt_of_lt_of_le hp0 hlen, Keeps.refl _,
        Or.inr (List.getElem?_eq_getElem hk')⟩
      have hrd : readPtrs (appendU32 G (appendPtr G hp mmh [fhP[mhu]]).1 mmi [pos]).1
          (appendPtr G hp mmh [fhP[mhu]]).2 = readPtrs hp mmh ++ [fhP[mhu]] := appendA_read _ _ I.mhV _
      have hru : readU32 (appendU32 G (appendPtr G hp mmh [fhP[mhu]]).1 mmi [pos]).1
          (appendU32 G (appendPtr G hp mmh [fhP[mhu]]).1 mmi [pos]).2 = readU32 hp mmi ++ [pos] :=
        appendA_read _ _ I.miV _
      have hmh : (readPtrs hp mmh).map (deref zero h0) = smh := I.mh
      have hmi : readU32 hp mmi = smi := I.mi
      exact
        { keeps := (I.keeps.appendPtr G I.mhO _).appendU32 G I.miO _
          txs_eq := I.txs_eq
          bytes_eq := I.bytes_eq
          numTx := I.numTx
          fhs := rfl
          bts := I.bts
          bu := I.bu
          hu := rfl
          bad := I.bad
          mhV := appendA_valid _ _ I.mhV _
          mhO := appendA_owned _ _ hlp I.mhO _
          miV := appendA_valid _ _ I.miV _
          miO := appendA_owned _ _ hlu I.miO _
          mhA := appendA_arr_lt _ _ I.mhA _
          miA := appendA_arr_lt _ _ I.miA _
          mh := by rw [hrd, List.map_append, hmh]; rfl
          mi := by rw [hru, hmi]
          sub := by rw [hrd, hsub1]; exact hsub.append (List.Sublist.refl _) }


/-! ### equations for `traverseH` -/

theorem traverseH_oob (G : Growth) (comb : H → H → H) (zero : H) (height pos : Nat) (hp : Heap H) (m : PB)
    (hb : m.bits.len ≤ m.bitsUsed) :
    traverseH G comb zero height pos (hp, m) = failH zero hp m := by
  rw [traverseH]; simp [hb]

theorem traverseH_zero (G : Growth) (comb : H → H → H) (zero : H) (pos : Nat) (hp : Heap H) (m : PB)
    (hb : m.bitsUsed < m.bits.len) :
    traverseH G comb zero 0 pos (hp, m) =
      takeHash G zero ((readBytes hp m.bits).getD m.bitsUsed 0 == 1) pos hp { m with bitsUsed := m.bitsUsed + 1 } := by
  rw [traverseH]; simp [Nat.not_le.2 hb]

theorem traverseH_succ_false (G : Growth) (comb : H → H → H) (zero : H) (height pos : Nat) (hp : Heap H) (m : PB)
    (hb : m.bitsUsed < m.bits.len) (hz : ((readBytes hp m.bits).getD m.bitsUsed 0 == 0) = true) :
    traverseH G comb zero (height+1) pos (hp, m) =
      takeHash G zero false pos hp { m with bitsUsed := m.bitsUsed + 1 } := by
  rw [traverseH, if_neg (Nat.not_le.2 hb)]
  dsimp only
  rw [if_pos hz]

theorem traverseH_succ_true (G : Growth) (comb : H → H → H) (zero : H) (height pos : Nat) (hp : Heap H) (m : PB)
    (hb : m.bitsUsed < m.bits.len) (hz : ((readBytes hp m.bits).getD m.bitsUsed 0 == 0) = false) :
    traverseH G comb zero (height+1) pos (hp, m) =
      (let l := traverseH G comb zero height (pos*2) (hp, { m with bitsUsed := m.bitsUsed + 1 })
       if pos*2+1 < width l.2.2.numTx height then
         let r := traverseH G comb zero height (pos*2+1) l.2
         let m2 : PB :=
           if deref zero r.2.1 r.1 = deref zero r.2.1 l.1 then { r.2.2 with bad := true } else r.2.2
         let a := allocHash r.2.1 (comb (deref zero r.2.1 l.1) (deref zero r.2.1 r.1))
         (a.2, a.1, m2)
       else
         let a := allocHash l.2.1 (comb (deref zero l.2.1 l.1) (deref zero l.2.1 l.1))
         (a.2, a.1, l.2.2)) := by
  rw [traverseH, if_neg (Nat.not_le.2 hb)]
  dsimp only
  rw [if_neg (by rw [hz]; exact Bool.false_ne_true)]

theorem traverse_zero' (comb : H → H → H) (zero : H) (n : Nat) (bits : List Bool) (hashes : List H)
    (pos : Nat) (st : Ext H) (hb : st.bitsUsed < bits.length) :
    traverse comb zero n bits.toArray hashes.toArray 0 pos st =
      takeV zero hashes (bits.getD st.bitsUsed false) pos { st with bitsUsed := st.bitsUsed + 1 } := by
  rw [Bch.Proofs.Merkle.traverse_zero comb zero n _ _ pos st (by simpa using hb)]
  unfold takeV
  simp only [List.size_toArray, toArray_getD_bool]
  split
  · rfl
  · have : ∀ i, hashes.toArray.getD i zero = hashes.getD i zero := by
      intro i; simp [Array.getD, List.getD_eq_getElem?_getD]; split <;> simp_all
    simp only [this]

theorem traverse_succ_false' (comb : H → H → H) (zero : H) (n : Nat) (bits : List Bool) (hashes : List H)
    (h pos : Nat) (st : Ext H) (hb : st.bitsUsed < bits.length) (hp : bits.getD st.bitsUsed false = false) :
    traverse comb zero n bits.toArray hashes.toArray (h+1) pos st =
      takeV zero hashes false pos { st with bitsUsed := st.bitsUsed + 1 } := by
  rw [Bch.Proofs.Merkle.traverse_succ_false comb zero n _ _ h pos st (by simpa using hb)
    (by rw [toArray_getD_bool]; exact hp)]
  unfold takeV
  simp only [List.size_toArray]
  split
  · rfl
  · have : ∀ i, hashes.toArray.getD i zero = hashes.getD i zero := by
      intro i; simp [Array.getD, List.getD_eq_getElem?_getD]; split <;> simp_all
    simp only [this]
    rfl


/-- the bit the heap traversal reads at an in-range cursor -/
theorem parent_byte (C : Ctx h0 fh bs fhP bitsL) {hp : Heap H} {m : PB} {st : Ext H}
    (I : Inv zero h0 fh bs n fhP hp m st) (hb : st.bitsUsed < bitsL.length) :
    (readBytes hp m.bits).getD m.bitsUsed 0 = bitByte (bitsL.getD st.bitsUsed false) := by
  have : readBytes hp m.bits = bitsL.map bitByte := by
    unfold readBytes; rw [I.bts, I.bytes_eq]; exact C.bs_read
  rw [this, I.bu]
  simp [List.getD_eq_getElem?_getD, hb]

/-- **the heap traversal simulates the value-level traversal and writes fresh memory only** -/
theorem traverseH_post (G : Growth) (comb : H → H → H) (C : Ctx h0 fh bs fhP bitsL) :
    ∀ (height pos : Nat) (hp : Heap H) (m : PB) (st : Ext H), Inv zero h0 fh bs n fhP hp m st →
      Post zero h0 fh bs n fhP hp st.hashesUsed (traverseH G comb zero height pos (hp, m))
        (traverse comb zero n bitsL.toArray (fhP.map (deref zero h0)).toArray height pos st) := by
  intro height
  induction height with
  | zero =>
    intro pos hp m st I
    by_cases hb : st.bitsUsed < bitsL.length
    · have hb' : m.bitsUsed < m.bits.len := by rw [I.bts, C.bs_len, I.bu]; exact hb
      rw [traverseH_zero G comb zero pos hp m hb', traverse_zero' comb zero n bitsL _ pos st hb,
        parent_byte C I hb, bitByte_eq_one]
      exact takeHash_post G C I.advanceBit _ pos
    · have hb' : m.bits.len ≤ m.bitsUsed := by rw [I.bts, C.bs_len, I.bu]; omega
      rw [traverseH_oob G comb zero 0 pos hp m hb',
        Bch.Proofs.Merkle.traverse_oob comb zero n _ _ 0 pos st (by simp; omega)]
      exact failH_post I _
  | succ height ih =>
    intro pos hp m st I
    by_cases hb : st.bitsUsed < bitsL.length
    · have hb' : m.bitsUsed < m.bits.len := by rw [I.bts, C.bs_len, I.bu]; exact hb
      have hpar := parent_byte C I hb
      cases hbit : bitsL.getD st.bitsUsed false with
      | false =>
        rw [traverseH_succ_false G comb zero height pos hp m hb' (by rw [hpar, hbit]; rfl),
          traverse_succ_false' comb zero n bitsL _ height pos st hb hbit]
        exact takeHash_post G C I.advanceBit false pos
      | true =>
        rw [traverseH_succ_true G comb zero height pos hp m hb' (by rw [hpar, hbit]; rfl),
          Bch.Proofs.Merkle.traverse_succ_true comb zero n _ _ height pos st (by simpa using hb)
            (by rw [toArray_getD_bool]; exact hbit)]
        have L := ih (pos*2) hp _ _ I.advanceBit
        rw [Nat.mul_comm pos 2] at L ⊢
        generalize traverseH G comb zero height (2*pos) (hp, { m with bitsUsed := m.bitsUsed + 1 }) = RL at L ⊢
        generalize traverse comb zero n bitsL.toArray (fhP.map (deref zero h0)).toArray height (2*pos)
          { st with bitsUsed := st.bitsUsed + 1 } = VL at L ⊢
        obtain ⟨pl, hl, ml⟩ := RL
        obtain ⟨xl, sl⟩ := VL
        obtain ⟨IL, dL, ltL, kL, -⟩ := L
        dsimp only at IL dL ltL kL ⊢
        rw [IL.numTx]
        by_cases hw : 2*pos+1 < width n height
        · rw [if_pos hw, if_pos hw]
          have R := ih (2*pos+1) hl ml sl IL
          generalize traverseH G comb zero height (2*pos+1) (hl, ml) = RR at R ⊢
          generalize traverse comb zero n bitsL.toArray (fhP.map (deref zero h0)).toArray height (2*pos+1) sl
            = VR at R ⊢
          obtain ⟨pr, hr, mr⟩ := RR
          obtain ⟨xr, sr⟩ := VR
          obtain ⟨IR, dR, ltR, kR, -⟩ := R
          dsimp only at IR dR ltR kR ⊢
          have dL' : deref zero hr pl = xl := by
            rw [← dL]; exact kR.getD ltL zero
          rw [dL', dR]
          refine ⟨?_, deref_alloc zero hr _, allocHash_lt hr _,
            (kL.trans kR).trans (allocHash_keeps_hashes hr _), Or.inl ?_⟩
          · by_cases heq : xr = xl
            · rw [if_pos heq, if_pos heq]; exact (IR.alloc _).setBad
            · rw [if_neg heq, if_neg heq]; exact IR.alloc _
          · exact IR.keeps.hashes.length_le
        · rw [if_neg hw, if_neg hw]
          rw [dL]
          exact ⟨IL.alloc _, deref_alloc zero hl _, allocHash_lt hl _,
            kL.trans (allocHash_keeps_hashes hl _), Or.inl IL.keeps.hashes.length_le⟩
    · have hb' : m.bits.len ≤ m.bitsUsed := by rw [I.bts, C.bs_len, I.bu]; omega
      rw [traverseH_oob G comb zero _ pos hp m hb',
        Bch.Proofs.Merkle.traverse_oob comb zero n _ _ _ pos st (by simp; omega)]
      exact failH_post I _


/-! ### the frame of the decoder, for ANY heap and ANY `PartialBlock` (no well-formedness needed) -/

/-- the two result slices live in arrays allocated after `h0` and nothing of `h0` has been written -/
structure FInv (h0 hp : Heap H) (m : PB) : Prop where
  keeps : HKeeps h0 hp
  mhF : h0.ptrs.length ≤ m.matchedHashes.arr
  miF : h0.u32s.length ≤ m.matchedItems.arr

/-- what a traversal step keeps: freshness, the frame, and — exactly — the `Tx` store, all byte arrays and the three
constant fields of the object -/
def FPost (h0 hp : Heap H) (m : PB) (R : Nat × Heap H × PB) : Prop :=
  FInv h0 R.2.1 R.2.2 ∧ R.2.1.txs = hp.txs ∧ R.2.1.bytes = hp.bytes ∧ R.2.2.finalHashes = m.finalHashes ∧
  R.2.2.bits = m.bits ∧ R.2.2.numTx = m.numTx

theorem failH_fpost {h0 hp : Heap H} {m : PB} (I : FInv h0 hp m) (zero : H) : FPost h0 hp m (failH zero hp m) :=
  ⟨⟨I.keeps.allocHash zero, I.mhF, I.miF⟩, rfl, rfl, rfl, rfl, rfl⟩

theorem takeHash_fpost (G : Growth) (zero : H) {h0 hp : Heap H} {m : PB} (I : FInv h0 hp m) (isMatch : Bool)
    (pos : Nat) : FPost h0 hp m (takeHash G zero isMatch pos hp m) := by
  unfold takeHash
  split
  · exact failH_fpost I zero
  · split
    · exact failH_fpost I zero
    · dsimp only
      split
      · exact ⟨⟨(I.keeps.appendPtr G (Or.inr I.mhF) _).appendU32 G (Or.inr I.miF) _,
          appendA_fresh _ _ I.keeps.ptrs.length_le I.mhF _,
          appendA_fresh _ _ I.keeps.u32s.length_le I.miF _⟩, rfl, rfl, rfl, rfl, rfl⟩
      · exact ⟨⟨I.keeps, I.mhF, I.miF⟩, rfl, rfl, rfl, rfl, rfl⟩

theorem FInv.advanceBit {h0 hp : Heap H} {m : PB} (I : FInv h0 hp m) :
    FInv h0 hp { m with bitsUsed := m.bitsUsed + 1 } := ⟨I.keeps, I.mhF, I.miF⟩

theorem traverseH_fpost (G : Growth) (comb : H → H → H) (zero : H) (h0 : Heap H) :
    ∀ (height pos : Nat) (hp : Heap H) (m : PB), FInv h0 hp m →
      FPost h0 hp m (traverseH G comb zero height pos (hp, m)) := by
  intro height
  induction height with
  | zero =>
    intro pos hp m I
    by_cases hb : m.bitsUsed < m.bits.len
    · rw [traverseH_zero G comb zero pos hp m hb]
      exact takeHash_fpost G zero I.advanceBit _ pos
    · rw [traverseH_oob G comb zero 0 pos hp m (Nat.le_of_not_lt hb)]
      exact failH_fpost I zero
  | succ height ih =>
    intro pos hp m I
    by_cases hb : m.bitsUsed < m.bits.len
    · cases hz : ((readBytes hp m.bits).getD m.bitsUsed 0 == 0) with
      | true =>
        rw [traverseH_succ_false G comb zero height pos hp m hb hz]
        exact takeHash_fpost G zero I.advanceBit false pos
      | false =>
        rw [traverseH_succ_true G comb zero height pos hp m hb hz]
        have L := ih (pos*2) hp _ I.advanceBit
        generalize traverseH G comb zero height (pos*2) (hp, { m with bitsUsed := m.bitsUsed + 1 }) = RL at L ⊢
        obtain ⟨pl, hl, ml⟩ := RL
        obtain ⟨IL, t1, b1, f1, s1, n1⟩ := L
        dsimp only at IL t1 b1 f1 s1 n1 ⊢
        split
        · have R := ih (pos*2+1) hl ml IL
          generalize traverseH G comb zero height (pos*2+1) (hl, ml) = RR at R ⊢
          obtain ⟨pr, hr, mr⟩ := RR
          obtain ⟨IR, t2, b2, f2, s2, n2⟩ := R
          dsimp only at IR t2 b2 f2 s2 n2 ⊢
          refine ⟨⟨IR.keeps.allocHash _, ?_, ?_⟩, t2.trans t1, b2.trans b1, ?_, ?_, ?_⟩
          · split
            · exact IR.mhF
            · exact IR.mhF
          · split
            · exact IR.miF
            · exact IR.miF
          · split
            · exact f2.trans f1
            · exact f2.trans f1
          · split
            · exact s2.trans s1
            · exact s2.trans s1
          · split
            · exact n2.trans n1
            · exact n2.trans n1
        · exact ⟨⟨IL.keeps.allocHash _, IL.mhF, IL.miF⟩, t1, b1, f1, s1, n1⟩
    · rw [traverseH_oob G comb zero _ pos hp m (Nat.le_of_not_lt hb)]
      exact failH_fpost I zero

/-! ### `NewMerkleBlockFromMsg`, `ExtractMatches` -/

/-- result of `extractBody`: frame, freshness, constant fields -/
theorem extractBody_frame (G : Growth) (comb : H → H → H) (zero : H) {h0 hp : Heap H} {m : PB} (I : FInv h0 hp m) :
    let R := extractBody G comb zero hp m
    FInv h0 R.2.1 R.2.2 ∧ R.2.1.txs = hp.txs ∧ R.2.1.bytes = hp.bytes ∧ R.2.2.finalHashes = m.finalHashes ∧
    R.2.2.bits = m.bits ∧ R.2.2.numTx = m.numTx := by
  unfold extractBody
  dsimp only
  split
  · exact ⟨I, rfl, rfl, rfl, rfl, rfl⟩
  · split
    · exact ⟨I, rfl, rfl, rfl, rfl, rfl⟩
    · split
      · exact ⟨I, rfl, rfl, rfl, rfl, rfl⟩
      · split
        · exact ⟨I, rfl, rfl, rfl, rfl, rfl⟩
        · exact traverseH_fpost G comb zero h0 _ 0 hp m I

/-- **frame of `ExtractMatches`, any heap, any object**: nothing that existed is written; the `Tx` store and all byte
arrays are exactly as before; the two result slices live in arrays allocated by the call; `finalHashes`, `bits`,
`numTx` of the object are unchanged -/
theorem extractMatchesH_frame (G : Growth) (comb : H → H → H) (zero : H) (hp : Heap H) (m : PB) :
    let R := extractMatchesH G comb zero hp m
    HKeeps hp R.2.1 ∧ R.2.1.txs = hp.txs ∧ R.2.1.bytes = hp.bytes ∧
    hp.ptrs.length ≤ R.2.2.matchedHashes.arr ∧ hp.u32s.length ≤ R.2.2.matchedItems.arr ∧
    R.2.2.finalHashes = m.finalHashes ∧ R.2.2.bits = m.bits ∧ R.2.2.numTx = m.numTx := by
  have I : FInv hp (makeU32 (makePtr hp 0 0).1 0 0).1
      { m with bad := false, bitsUsed := 0, hashesUsed := 0, matchedHashes := (makePtr hp 0 0).2,
               matchedItems := (makeU32 (makePtr hp 0 0).1 0 0).2 } :=
    ⟨((HKeeps.refl hp).makePtr 0 0).makeU32 0 0, Nat.le_refl _, Nat.le_refl _⟩
  obtain ⟨F, t, b, f, s, nn⟩ := extractBody_frame G comb zero I
  exact ⟨F.keeps, t, b, F.mhF, F.miF, f, s, nn⟩

/-- **frame of `NewMerkleBlockFromMsg`, any heap, any message object** -/
theorem newFromMsg_frame (hp : Heap H) (msg : MsgObj) :
    HKeeps hp (newFromMsg hp msg).1 ∧ (newFromMsg hp msg).1.txs = hp.txs ∧
    (newFromMsg hp msg).1.hashes = hp.hashes ∧
    (newFromMsg hp msg).2.finalHashes = msg.hashes ∧ (newFromMsg hp msg).2.numTx = msg.transactions ∧
    (newFromMsg hp msg).2.bits.arr = hp.bytes.length ∧
    hp.ptrs.length ≤ (newFromMsg hp msg).2.matchedHashes.arr ∧
    hp.u32s.length ≤ (newFromMsg hp msg).2.matchedItems.arr := by
  refine ⟨?_, rfl, rfl, rfl, rfl, rfl, Nat.le_refl _, Nat.le_refl _⟩
  unfold newFromMsg
  dsimp only
  refine HKeeps.makeU32 (HKeeps.makePtr ?_ 0 0) 0 0
  have k1 : HKeeps hp (makeByte hp (msg.flags.len * 8) (msg.flags.len * 8)).1 := (HKeeps.refl hp).makeByte _ _
  exact k1.of_bytes (k1.bytes.modify_ge (Nat.le_refl _) _)


/-! ### refinement: reading the heap results back gives `Model.Merkle.extractMsg` -/

theorem writeAt_full {α : Type} (a xs : List α) (h : xs.length = a.length) : writeAt a 0 xs = xs := by
  apply List.ext_getElem?
  intro i
  rw [getElem?_writeAt]
  by_cases hi : i < a.length
  · rw [if_pos (by omega)]; simp
  · rw [if_neg (by omega), List.getElem?_eq_none (by omega), List.getElem?_eq_none (by omega)]

/-- the message object is well formed in the heap: both slices lie inside existing arrays and no hash pointer dangles
(true of every message a Go program can hold) -/
structure MsgWF (h : Heap H) (msg : MsgObj) : Prop where
  hashes_arr : msg.hashes.arr < h.ptrs.length
  hashes_valid : ValidA h.ptrs msg.hashes
  hashes_ok : ∀ p ∈ readPtrs h msg.hashes, p < h.hashes.length
  flags_arr : msg.flags.arr < h.bytes.length
  flags_valid : ValidA h.bytes msg.flags

/-- `pb` is a `PartialBlock` made from `msg` (as it was in `h0`), living in a later heap `hp` in which nothing of `h0`
has been written -/
structure PBFor (h0 : Heap H) (msg : MsgObj) (hp : Heap H) (pb : PB) : Prop where
  keeps : HKeeps h0 hp
  numTx : pb.numTx = msg.transactions
  fhs : pb.finalHashes = msg.hashes
  bits_arr : pb.bits.arr < hp.bytes.length
  bits_read : readBytes hp pb.bits = bitBytes (readBytes h0 msg.flags)
  bits_len : pb.bits.len = (bitBytes (readBytes h0 msg.flags)).length

theorem newFromMsg_pbfor {h0 hp : Heap H} {msg : MsgObj} (W : MsgWF h0 msg) (k : HKeeps h0 hp) :
    PBFor h0 msg (newFromMsg hp msg).1 (newFromMsg hp msg).2 := by
  have hfl : readBytes hp msg.flags = readBytes h0 msg.flags := k.bytes.readA W.flags_arr
  have hlen : (bitBytes (readBytes h0 msg.flags)).length = msg.flags.len * 8 := by
    unfold bitBytes
    rw [List.length_map, Bch.Proofs.Merkle.unpackFlags_length]
    have : (readBytes h0 msg.flags).length = msg.flags.len := length_readA W.flags_valid
    rw [this]; omega
  refine ⟨k.trans (newFromMsg_frame hp msg).1, rfl, rfl, ?_, ?_, ?_⟩
  · simp [newFromMsg, makeU32, makePtr, makeByte, makeA]
  · unfold newFromMsg
    dsimp only
    rw [hfl]
    generalize bitBytes (readBytes h0 msg.flags) = bb at hlen ⊢
    dsimp only [makeU32, makePtr, makeByte, makeA, readBytes, readA, window]
    rw [List.take_of_length_le (l := bb) (by rw [hlen]; exact Nat.le_refl _)]
    simp only [List.getD_eq_getElem?_getD, getElem?_modify', if_true, List.getElem?_concat_length,
      Option.map_some, Option.getD_some, List.drop_zero]
    rw [writeAt_full _ _ (by rw [hlen, List.length_replicate])]
    exact List.take_of_length_le (by rw [hlen]; exact Nat.le_refl _)
  · rw [hlen]; rfl

/-- what the invariant says about the results, read in the current heap -/
theorem Inv.results {hb : Heap H} (C : Ctx hb fh bs fhP bitsL) {hp : Heap H} {m : PB} {st : Ext H}
    (I : Inv zero hb fh bs n fhP hp m st) :
    readHashes zero hp m.matchedHashes = st.matchedHashes ∧ readU32 hp m.matchedItems = st.matchedItems ∧
    (readPtrs hp m.matchedHashes).Sublist fhP := by
  have hs : (readPtrs hp m.matchedHashes).Sublist fhP := I.sub.trans (List.take_sublist _ _)
  refine ⟨?_, I.mi, hs⟩
  rw [← I.mh]
  unfold readHashes
  apply List.map_congr_left
  intro p hp'
  exact deref_keeps zero I.keeps.hashes (C.fh_ok p (hs.subset hp'))

/-- **`ExtractMatches` refines the value-level `extractMsg`** and says where its results live -/
theorem extractMatchesH_spec (G : Growth) (comb : H → H → H) (zero : H) {h0 hp : Heap H} {msg : MsgObj} {pb : PB}
    (W : MsgWF h0 msg) (P : PBFor h0 msg hp pb) :
    let R := extractMatchesH G comb zero hp pb
    PBFor h0 msg R.2.1 R.2.2 ∧
    absExtracted zero R = extractMsg comb zero (absMsg zero h0 msg) ∧
    (∀ p, R.1 = some p → p < R.2.1.hashes.length ∧
      (hp.hashes.length ≤ p ∨ (readPtrs h0 msg.hashes)[0]? = some p)) ∧
    (readPtrs R.2.1 (getMatches R.2.2)).Sublist (readPtrs h0 msg.hashes) ∧
    (getMatches R.2.2).arr < R.2.1.ptrs.length ∧ (getItems R.2.2).arr < R.2.1.u32s.length := by
  obtain ⟨pn, pfh, pbits, pbad, pbu, phu, pmh, pmi⟩ := pb
  have e1 : pn = msg.transactions := P.numTx
  have e2 : pfh = msg.hashes := P.fhs
  subst e1 e2
  -- static context, relative to the heap `hp` of the call
  have hlp := P.keeps.ptrs.length_le
  have hlh := P.keeps.hashes.length_le
  have hfl : (readPtrs h0 msg.hashes).length = msg.hashes.len := length_readA W.hashes_valid
  have C : Ctx hp msg.hashes pbits (readPtrs h0 msg.hashes) (unpackFlags (readBytes h0 msg.flags)) :=
    { fh_arr := Nat.lt_of_lt_of_le W.hashes_arr hlp
      fh_read := P.keeps.ptrs.readA W.hashes_arr
      fh_len := hfl.symm
      fh_ok := fun p hp' => Nat.lt_of_lt_of_le (W.hashes_ok p hp') hlh
      bs_arr := P.bits_arr
      bs_read := P.bits_read
      bs_len := by rw [P.bits_len]; simp [bitBytes] }
  have hmap : (readPtrs h0 msg.hashes).map (deref zero hp) = readHashes zero h0 msg.hashes :=
    List.map_congr_left (fun p hp' => deref_keeps zero P.keeps.hashes (W.hashes_ok p hp'))
  have hbl : pbits.len = (unpackFlags (readBytes h0 msg.flags)).length := by rw [P.bits_len]; simp [bitBytes]
  -- the state after the reset
  have I0 : Inv zero hp msg.hashes pbits msg.transactions (readPtrs h0 msg.hashes)
      (makeU32 (makePtr hp 0 0).1 0 0).1
      (⟨msg.transactions, msg.hashes, pbits, false, 0, 0, (makePtr hp 0 0).2, (makeU32 (makePtr hp 0 0).1 0 0).2⟩ : PB) {} :=
    { keeps := ((HKeeps.refl hp).makePtr 0 0).makeU32 0 0
      txs_eq := rfl
      bytes_eq := rfl
      numTx := rfl
      fhs := rfl
      bts := rfl
      bu := rfl
      hu := rfl
      bad := rfl
      mhV := makeA_valid 0 hp.ptrs (Nat.le_refl 0)
      mhO := Or.inr (Nat.le_refl _)
      miV := makeA_valid 0 hp.u32s (Nat.le_refl 0)
      miO := Or.inr (Nat.le_refl _)
      mhA := by simp [makeU32, makePtr, makeA]
      miA := by simp [makeU32, makePtr, makeA]
      mh := by
        have : readPtrs (makeU32 (makePtr hp 0 0).1 0 0).1 (makePtr hp 0 0).2 = [] := makeA_read0 0 hp.ptrs 0
        dsimp only; rw [this]; rfl
      mi := makeA_read0 0 hp.u32s 0
      sub := by
        have : readPtrs (makeU32 (makePtr hp 0 0).1 0 0).1 (makePtr hp 0 0).2 = [] := makeA_read0 0 hp.ptrs 0
        dsimp only; rw [this]; exact List.nil_sublist _ }
  have PB0 : ∀ (hq : Heap H) (mq : PB) (sq : Ext H),
      Inv zero hp msg.hashes pbits msg.transactions (readPtrs h0 msg.hashes) hq mq sq →
      PBFor h0 msg hq mq := by
    intro hq mq sq I
    exact { keeps := P.keeps.trans I.keeps, numTx := I.numTx, fhs := I.fhs
            bits_arr := by rw [I.bts, I.bytes_eq]; exact P.bits_arr
            bits_read := by rw [I.bts]; unfold readBytes; rw [I.bytes_eq]; exact P.bits_read
            bits_len := by rw [I.bts]; exact P.bits_len }
  obtain ⟨r0h, r0u, r0s⟩ := I0.results C
  -- a failed pre-check returns the reset state
  have hfail : let R0 : Option Nat × Heap H × PB := (none, (makeU32 (makePtr hp 0 0).1 0 0).1,
        (⟨msg.transactions, msg.hashes, pbits, false, 0, 0, (makePtr hp 0 0).2, (makeU32 (makePtr hp 0 0).1 0 0).2⟩ : PB))
      PBFor h0 msg R0.2.1 R0.2.2 ∧ absExtracted zero R0 = (⟨none, [], [], false⟩ : Extracted H) ∧
      (∀ p, R0.1 = some p → p < R0.2.1.hashes.length ∧
        (hp.hashes.length ≤ p ∨ (readPtrs h0 msg.hashes)[0]? = some p)) ∧
      (readPtrs R0.2.1 (getMatches R0.2.2)).Sublist (readPtrs h0 msg.hashes) ∧
      (getMatches R0.2.2).arr < R0.2.1.ptrs.length ∧ (getItems R0.2.2).arr < R0.2.1.u32s.length := by
    refine ⟨PB0 _ _ _ I0, ?_, ?_, r0s, I0.mhA, I0.miA⟩
    · simp only [absExtracted, getMatches, getItems, Option.map_none]
      rw [r0h, r0u]
    · intro p hp'
      have : (none : Option Nat) = some p := hp'
      cases this
  unfold extractMatchesH extractBody extractMsg
  dsimp only [absMsg]
  simp only [List.size_toArray]
  rw [hbl]
  have hl2 : (readHashes zero h0 msg.hashes).length = msg.hashes.len := by
    unfold readHashes; rw [List.length_map]; exact hfl
  rw [hl2]
  by_cases c1 : msg.transactions = 0
  · rw [if_pos c1, if_pos c1]; exact hfail
  rw [if_neg c1, if_neg c1]
  by_cases c2 : msg.transactions > maxTxnCount
  · rw [if_pos c2, if_pos c2]; exact hfail
  rw [if_neg c2, if_neg c2]
  by_cases c3 : msg.hashes.len > msg.transactions
  · rw [if_pos c3, if_pos c3]; exact hfail
  rw [if_neg c3, if_neg c3]
  by_cases c4 : (unpackFlags (readBytes h0 msg.flags)).length < msg.hashes.len
  · rw [if_pos c4, if_pos c4]; exact hfail
  rw [if_neg c4, if_neg c4]
  -- the traversal
  have T := traverseH_post (zero := zero) G comb C (height msg.transactions) 0 _ _ _ I0
  rw [hmap] at T
  generalize traverseH G comb zero (height msg.transactions) 0 _ = RT at T ⊢
  generalize traverse comb zero msg.transactions (unpackFlags (readBytes h0 msg.flags)).toArray
    (readHashes zero h0 msg.hashes).toArray (height msg.transactions) 0 {} = VT at T ⊢
  obtain ⟨pt, ht, mt⟩ := RT
  obtain ⟨xt, stt⟩ := VT
  obtain ⟨IT, dT, ltT, kT, frT⟩ := T
  dsimp only at IT dT ltT kT frT ⊢
  obtain ⟨rh, ru, rs⟩ := IT.results C
  rw [IT.bad, IT.bu, IT.hu, IT.bts, IT.fhs, hbl]
  refine ⟨PB0 _ _ _ IT, ?_, ?_, rs, IT.mhA, IT.miA⟩
  · simp only [absExtracted, getMatches, getItems]
    rw [rh, ru, IT.bad]
    congr 1
    split
    · simp [dT]
    · rfl
  · intro p hp'
    split at hp'
    · cases hp'
      refine ⟨ltT, ?_⟩
      rcases frT with f | f
      · exact Or.inl f
      · exact Or.inr f
    · cases hp'


theorem extractTimes_pbfor (G : Growth) (comb : H → H → H) (zero : H) {h0 : Heap H} {msg : MsgObj}
    (W : MsgWF h0 msg) : ∀ (k : Nat) (hp : Heap H) (pb : PB), PBFor h0 msg hp pb →
      PBFor h0 msg (extractTimes G comb zero k (hp, pb)).1 (extractTimes G comb zero k (hp, pb)).2 := by
  intro k
  induction k with
  | zero => intro hp pb P; exact P
  | succ k ih =>
    intro hp pb P
    exact ih _ _ (extractMatchesH_spec G comb zero W P).1

/-- a well-formed message denotes the same value in every later heap in which nothing old was written -/
theorem absMsg_keeps (zero : H) {h0 hp : Heap H} {msg : MsgObj} (W : MsgWF h0 msg) (k : HKeeps h0 hp) :
    absMsg zero hp msg = absMsg zero h0 msg := by
  have h1 : readPtrs hp msg.hashes = readPtrs h0 msg.hashes := k.ptrs.readA W.hashes_arr
  have h2 : readBytes hp msg.flags = readBytes h0 msg.flags := k.bytes.readA W.flags_arr
  simp only [absMsg, readHashes, h1, h2]
  congr 1
  exact List.map_congr_left (fun p hp' => deref_keeps zero k.hashes (W.hashes_ok p hp'))

theorem MsgWF.keeps {h0 hp : Heap H} {msg : MsgObj} (W : MsgWF h0 msg) (k : HKeeps h0 hp) : MsgWF hp msg := by
  have h1 : readPtrs hp msg.hashes = readPtrs h0 msg.hashes := k.ptrs.readA W.hashes_arr
  exact
    { hashes_arr := Nat.lt_of_lt_of_le W.hashes_arr k.ptrs.length_le
      hashes_valid := k.ptrs.validA W.hashes_arr W.hashes_valid
      hashes_ok := fun p hp' => Nat.lt_of_lt_of_le (W.hashes_ok p (h1 ▸ hp')) k.hashes.length_le
      flags_arr := Nat.lt_of_lt_of_le W.flags_arr k.bytes.length_le
      flags_valid := k.bytes.validA W.flags_arr W.flags_valid }

end Decoder

/-! ## the builders: frame for ANY heap, ANY block, ANY condition -/

section BuilderFrame
variable {H : Type}

/-- `tx.Hash()` writes nothing that existed except the wrapper's empty memo; arrays are untouched -/
theorem txHashH_keeps (zero : H) (hp : Heap H) (t : Nat) :
    HKeeps hp (txHashH zero hp t).1 ∧ (txHashH zero hp t).1.ptrs = hp.ptrs ∧
    (txHashH zero hp t).1.bytes = hp.bytes ∧ (txHashH zero hp t).1.u32s = hp.u32s := by
  unfold txHashH
  cases ht : hp.txs[t]? with
  | none => exact ⟨(HKeeps.refl hp).allocHash zero, rfl, rfl, rfl⟩
  | some tx =>
    dsimp only
    cases hm : tx.memo with
    | some p => exact ⟨HKeeps.refl hp, rfl, rfl, rfl⟩
    | none =>
      refine ⟨⟨keeps_append _ _, Keeps.refl _, Keeps.refl _, Keeps.refl _, ?_⟩, rfl, rfl, rfl⟩
      refine ⟨by simp [allocHash], ?_⟩
      intro t' tx' e
      simp only [allocHash, List.getElem?_set]
      by_cases htt : t = t'
      · subst htt
        rw [ht] at e; cases e
        have hlt : t < hp.txs.length := (List.getElem?_eq_some_iff.1 ht).1
        refine ⟨{ tx with memo := some hp.hashes.length }, by simp [hlt], rfl, ?_, ?_⟩
        · intro p hp'; rw [hm] at hp'; cases hp'
        · intro p hp'
          cases hp'
          exact Or.inr ⟨Nat.le_refl _, by simp⟩
      · exact ⟨tx', by simp [htt, e], rfl, fun _ h => h, fun _ h => Or.inl h⟩

/-- frame invariant of the builder's working struct: nothing of `h0` written, all four working slices owned -/
structure BInv (h0 hp : Heap H) (m : MBH) : Prop where
  keeps : HKeeps h0 hp
  ahO : OwnedA h0.ptrs.length m.allHashes
  fhO : OwnedA h0.ptrs.length m.finalHashes
  mbO : OwnedA h0.bytes.length m.matchedBits
  bitsO : OwnedA h0.bytes.length m.bits

theorem fillLoopH_frame (G : Growth) (zero : H) (callsHash : Bool) (sel : Heap H → Nat → Nat → Bool) (h0 : Heap H) :
    ∀ (l : List (Nat × Nat)) (hp : Heap H) (m : MBH) (mi : Slice), BInv h0 hp m → OwnedA h0.u32s.length mi →
      (mi.cap = 0 ∨ mi.arr < hp.u32s.length) → mi.len ≤ mi.cap →
      let R := fillLoopH G zero callsHash sel l (hp, m, mi)
      BInv h0 R.1 R.2.1 ∧ OwnedA h0.u32s.length R.2.2 ∧ (R.2.2.cap = 0 ∨ R.2.2.arr < R.1.u32s.length) ∧
      R.2.2.len ≤ R.2.2.cap ∧
      R.2.1.numTx = m.numTx ∧ R.2.1.finalHashes = m.finalHashes ∧ R.2.1.bits = m.bits := by
  intro l
  induction l with
  | nil => intro hp m mi I o e lc; exact ⟨I, o, e, lc, rfl, rfl, rfl⟩
  | cons e l ih =>
    intro hp m mi I o ex lc
    obtain ⟨t, txIndex⟩ := e
    unfold fillLoopH
    dsimp only
    -- the heap after the (optional) first `tx.Hash()`
    have ha : HKeeps h0 (if callsHash then txHashH zero hp t else (hp, 0)).1 ∧
        (if callsHash then txHashH zero hp t else (hp, 0)).1.u32s = hp.u32s := by
      cases callsHash with
      | true => obtain ⟨k, -, -, c⟩ := txHashH_keeps zero hp t; exact ⟨I.keeps.trans k, c⟩
      | false => exact ⟨I.keeps, rfl⟩
    generalize (if callsHash then txHashH zero hp t else (hp, 0)) = A at ha ⊢
    obtain ⟨ka, ua⟩ := ha
    split
    · -- matched
      have kb := ka.appendByte G I.mbO [0x01]
      have ob : OwnedA h0.bytes.length (appendByte G A.1 m.matchedBits [0x01]).2 :=
        appendA_owned _ _ ka.bytes.length_le I.mbO _
      have ub : (appendByte G A.1 m.matchedBits [0x01]).1.u32s = A.1.u32s := rfl
      generalize appendByte G A.1 m.matchedBits [0x01] = B at kb ob ub ⊢
      have kc := kb.appendU32 G o [txIndex]
      have oc : OwnedA h0.u32s.length (appendU32 G B.1 mi [txIndex]).2 := appendA_owned _ _ kb.u32s.length_le o _
      have xc : (appendU32 G B.1 mi [txIndex]).2.cap = 0 ∨
          (appendU32 G B.1 mi [txIndex]).2.arr < (appendU32 G B.1 mi [txIndex]).1.u32s.length :=
        appendA_exists _ _ (by rw [ub, ua]; exact ex) _
      have lcc : (appendU32 G B.1 mi [txIndex]).2.len ≤ (appendU32 G B.1 mi [txIndex]).2.cap :=
        appendA_len_le_cap _ _ _ _ _
      generalize appendU32 G B.1 mi [txIndex] = C at kc oc xc lcc ⊢
      obtain ⟨kd0, -, -, ud⟩ := txHashH_keeps zero C.1 t
      have kd := kc.trans kd0
      generalize txHashH zero C.1 t = D at kd ud ⊢
      have ke := kd.appendPtr G I.ahO [D.2]
      have oe : OwnedA h0.ptrs.length (appendPtr G D.1 m.allHashes [D.2]).2 :=
        appendA_owned _ _ kd.ptrs.length_le I.ahO _
      have ue : (appendPtr G D.1 m.allHashes [D.2]).1.u32s = D.1.u32s := rfl
      generalize appendPtr G D.1 m.allHashes [D.2] = E at ke oe ue ⊢
      exact ih E.1 { m with matchedBits := B.2, allHashes := E.2 } C.2 ⟨ke, oe, I.fhO, ob, I.bitsO⟩ oc
        (by rw [ue, ud]; exact xc) lcc
    · have kb := ka.appendByte G I.mbO [0x00]
      have ob : OwnedA h0.bytes.length (appendByte G A.1 m.matchedBits [0x00]).2 :=
        appendA_owned _ _ ka.bytes.length_le I.mbO _
      have ub : (appendByte G A.1 m.matchedBits [0x00]).1.u32s = A.1.u32s := rfl
      generalize appendByte G A.1 m.matchedBits [0x00] = B at kb ob ub ⊢
      obtain ⟨kd0, -, -, ud⟩ := txHashH_keeps zero B.1 t
      have kd := kb.trans kd0
      generalize txHashH zero B.1 t = D at kd ud ⊢
      have ke := kd.appendPtr G I.ahO [D.2]
      have oe : OwnedA h0.ptrs.length (appendPtr G D.1 m.allHashes [D.2]).2 :=
        appendA_owned _ _ kd.ptrs.length_le I.ahO _
      have ue : (appendPtr G D.1 m.allHashes [D.2]).1.u32s = D.1.u32s := rfl
      generalize appendPtr G D.1 m.allHashes [D.2] = E at ke oe ue ⊢
      exact ih E.1 { m with matchedBits := B.2, allHashes := E.2 } mi ⟨ke, oe, I.fhO, ob, I.bitsO⟩ o
        (by rw [ue, ud, ub, ua]; exact ex) lc

/-- only the hash store grew -/
structure OnlyHashes (hp hp' : Heap H) : Prop where
  ptrs : hp'.ptrs = hp.ptrs
  bytes : hp'.bytes = hp.bytes
  u32s : hp'.u32s = hp.u32s
  txs : hp'.txs = hp.txs
  hashes : Keeps hp.hashes hp'.hashes

theorem OnlyHashes.refl (hp : Heap H) : OnlyHashes hp hp := ⟨rfl, rfl, rfl, rfl, Keeps.refl _⟩
theorem OnlyHashes.trans {a b c : Heap H} (x : OnlyHashes a b) (y : OnlyHashes b c) : OnlyHashes a c :=
  ⟨y.ptrs.trans x.ptrs, y.bytes.trans x.bytes, y.u32s.trans x.u32s, y.txs.trans x.txs, x.hashes.trans y.hashes⟩
theorem OnlyHashes.alloc (hp : Heap H) (x : H) : OnlyHashes hp (allocHash hp x).1 :=
  ⟨rfl, rfl, rfl, rfl, keeps_append _ _⟩

theorem HKeeps.onlyHashes {h0 hp hp' : Heap H} (k : HKeeps h0 hp) (o : OnlyHashes hp hp') : HKeeps h0 hp' := by
  refine ⟨k.hashes.trans o.hashes, o.ptrs ▸ k.ptrs, o.bytes ▸ k.bytes, o.u32s ▸ k.u32s, ?_⟩
  refine ⟨by rw [o.txs]; exact k.txs.1, ?_⟩
  intro t tx e
  obtain ⟨tx1, e1, i1, m1, f1⟩ := k.txs.2 t tx e
  refine ⟨tx1, by rw [o.txs]; exact e1, i1, m1, ?_⟩
  intro p hp'
  rcases f1 p hp' with f | ⟨f, g⟩
  · exact Or.inl f
  · exact Or.inr ⟨f, o.hashes _ _ g⟩

theorem calcHashH_onlyHashes (comb : H → H → H) (zero : H) (m : MBH) :
    ∀ (height pos : Nat) (hp : Heap H), OnlyHashes hp (calcHashH comb zero m height pos hp).1 := by
  intro height
  induction height with
  | zero =>
    intro pos hp
    unfold calcHashH
    split
    · exact OnlyHashes.refl hp
    · exact OnlyHashes.alloc hp zero
  | succ height ih =>
    intro pos hp
    unfold calcHashH
    dsimp only
    split
    · exact ((ih (pos*2) hp).trans (ih (pos*2+1) _)).trans (OnlyHashes.alloc _ _)
    · exact (ih (pos*2) hp).trans (OnlyHashes.alloc _ _)

theorem traverseAndBuildH_frame (G : Growth) (comb : H → H → H) (zero : H) (h0 : Heap H) :
    ∀ (height pos : Nat) (hp : Heap H) (m : MBH), BInv h0 hp m →
      let R := traverseAndBuildH G comb zero height pos (hp, m)
      BInv h0 R.1 R.2 ∧ R.2.numTx = m.numTx ∧ R.2.allHashes = m.allHashes ∧ R.2.matchedBits = m.matchedBits ∧
      R.1.txs = hp.txs ∧ R.1.u32s = hp.u32s := by
  intro height
  have leaf : ∀ (height pos : Nat) (hp : Heap H) (m : MBH), BInv h0 hp m →
      let a := appendByte G hp m.bits [isParentH hp m height pos]
      let m1 : MBH := { m with bits := a.2 }
      let c := calcHashH comb zero m1 height pos a.1
      let b := appendPtr G c.1 m1.finalHashes [c.2]
      BInv h0 b.1 { m1 with finalHashes := b.2 } ∧ b.1.txs = hp.txs ∧ b.1.u32s = hp.u32s := by
    intro height pos hp m I
    dsimp only
    have ka := I.keeps.appendByte G I.bitsO [isParentH hp m height pos]
    have oc := calcHashH_onlyHashes comb zero
      { m with bits := (appendByte G hp m.bits [isParentH hp m height pos]).2 } height pos
      (appendByte G hp m.bits [isParentH hp m height pos]).1
    have kc := ka.onlyHashes oc
    refine ⟨⟨kc.appendPtr G I.fhO _, I.ahO, appendA_owned _ _ kc.ptrs.length_le I.fhO _, I.mbO,
      appendA_owned _ _ I.keeps.bytes.length_le I.bitsO _⟩, ?_, ?_⟩
    · exact oc.txs
    · exact oc.u32s
  induction height with
  | zero =>
    intro pos hp m I
    unfold traverseAndBuildH
    obtain ⟨a, b, c⟩ := leaf 0 pos hp m I
    exact ⟨a, rfl, rfl, rfl, b, c⟩
  | succ height ih =>
    intro pos hp m I
    unfold traverseAndBuildH
    dsimp only
    split
    · obtain ⟨a, b, c⟩ := leaf (height+1) pos hp m I
      exact ⟨a, rfl, rfl, rfl, b, c⟩
    · have ka := I.keeps.appendByte G I.bitsO [isParentH hp m (height+1) pos]
      have I1 : BInv h0 (appendByte G hp m.bits [isParentH hp m (height+1) pos]).1
          { m with bits := (appendByte G hp m.bits [isParentH hp m (height+1) pos]).2 } :=
        ⟨ka, I.ahO, I.fhO, I.mbO, appendA_owned _ _ I.keeps.bytes.length_le I.bitsO _⟩
      obtain ⟨IL, n1, a1, b1, t1, u1⟩ := ih (pos*2) _ _ I1
      split
      · obtain ⟨IR, n2, a2, b2, t2, u2⟩ := ih (pos*2+1) _ _ IL
        exact ⟨IR, n2.trans n1, a2.trans a1, b2.trans b1, t2.trans t1, u2.trans u1⟩
      · exact ⟨IL, n1, a1, b1, t1, u1⟩

theorem addTxHashes_frame (G : Growth) (h0 : Heap H) : ∀ (ps : List Nat) (hp : Heap H) (s : Slice),
    HKeeps h0 hp → h0.ptrs.length ≤ s.arr → s.arr < hp.ptrs.length →
      let R := addTxHashes G hp s ps
      HKeeps h0 R.1 ∧ h0.ptrs.length ≤ R.2.arr ∧ R.2.arr < R.1.ptrs.length ∧ R.1.txs = hp.txs ∧ R.1.bytes = hp.bytes ∧
      R.1.u32s = hp.u32s ∧ R.1.hashes = hp.hashes := by
  intro ps
  induction ps with
  | nil => intro hp s k f a; exact ⟨k, f, a, rfl, rfl, rfl, rfl⟩
  | cons p ps ih =>
    intro hp s k f a
    unfold addTxHashes
    exact ih _ _ (k.appendPtr G (Or.inr f) [p]) (appendA_fresh _ _ k.ptrs.length_le f _) (appendA_arr_lt _ _ a _)

theorem flagLoopH_frame (h0 : Heap H) (flags bits : Slice) (hf : h0.bytes.length ≤ flags.arr) :
    ∀ (l : List Nat) (hp : Heap H), HKeeps h0 hp →
      let R := l.foldl (fun h i => ({ h with bytes := (h.bytes.modify flags.arr
        (fun a => a.modify (flags.off + i/8) (fun b => b ||| ((readBytes h bits).getD i 0 <<< UInt8.ofNat (i % 8))))) } : Heap H)) hp
      HKeeps h0 R ∧ R.txs = hp.txs ∧ R.ptrs = hp.ptrs ∧ R.u32s = hp.u32s ∧ R.hashes = hp.hashes ∧
      R.bytes.length = hp.bytes.length := by
  intro l
  induction l with
  | nil => intro hp k; exact ⟨k, rfl, rfl, rfl, rfl, rfl⟩
  | cons i l ih =>
    intro hp k
    rw [List.foldl_cons]
    obtain ⟨a, b, c, d, e, f⟩ := ih _ (k.of_bytes (k.bytes.modify_ge hf _))
    exact ⟨a, b, c, d, e, by rw [f]; simp⟩

/-- frame of `calcBlock` -/
theorem calcBlockH_frame (G : Growth) (comb : H → H → H) (zero : H) {h0 hp : Heap H} {m : MBH} (I : BInv h0 hp m) :
    let R := calcBlockH G comb zero hp m
    HKeeps h0 R.1 ∧ h0.ptrs.length ≤ R.2.hashes.arr ∧ R.2.hashes.arr < R.1.ptrs.length ∧
    h0.bytes.length ≤ R.2.flags.arr ∧ R.2.flags.arr < R.1.bytes.length ∧ R.1.txs = hp.txs ∧ R.1.u32s = hp.u32s ∧
    R.2.transactions = m.numTx := by
  unfold calcBlockH
  dsimp only
  generalize (⟨m.numTx, [], [], [], []⟩ : MB H).heightLoop 33 0 = height
  obtain ⟨IT, n1, -, -, t1, u1⟩ := traverseAndBuildH_frame G comb zero h0 height 0 hp m I
  generalize traverseAndBuildH G comb zero height 0 (hp, m) = T at IT n1 t1 u1 ⊢
  obtain ⟨ht, mt⟩ := T
  dsimp only at IT n1 t1 u1 ⊢
  have ka := IT.keeps.makePtr 0 mt.finalHashes.len
  have kb := ka.makeByte ((mt.bits.len + 7) / 8) ((mt.bits.len + 7) / 8)
  obtain ⟨kc, f1, f2, t2, b2, u2, -⟩ := addTxHashes_frame G h0
    (readPtrs (makeByte (makePtr ht 0 mt.finalHashes.len).1 ((mt.bits.len + 7) / 8) ((mt.bits.len + 7) / 8)).1 mt.finalHashes)
    (makeByte (makePtr ht 0 mt.finalHashes.len).1 ((mt.bits.len + 7) / 8) ((mt.bits.len + 7) / 8)).1
    (makePtr ht 0 mt.finalHashes.len).2 kb IT.keeps.ptrs.length_le (by simp [makeByte, makePtr, makeA])
  have hfl : h0.bytes.length ≤ (makeByte (makePtr ht 0 mt.finalHashes.len).1 ((mt.bits.len + 7) / 8)
      ((mt.bits.len + 7) / 8)).2.arr := IT.keeps.bytes.length_le
  obtain ⟨kd, t3, p3, u3, -, l3⟩ := flagLoopH_frame h0 _ mt.bits hfl (List.range mt.bits.len) _ kc
  refine ⟨kd, f1, ?_, hfl, ?_, ?_, ?_, n1⟩
  · unfold flagLoopH; rw [p3]; exact f2
  · unfold flagLoopH; rw [l3, b2]; simp [makeByte, makePtr, makeA]
  · unfold flagLoopH; rw [t3, t2]; exact t1
  · unfold flagLoopH; rw [u3, u2]; exact u1

/-- **frame of the three builders, unconditionally**: nothing that existed is written except empty hash memos of
`Tx` wrappers; the message's `Hashes` and `Flags` arrays are new; `matchedIndices` is nil or a new array -/
theorem buildH_frame (G : Growth) (comb : H → H → H) (zero : H) (callsHash : Bool) (sel : Heap H → Nat → Nat → Bool)
    (h : Heap H) (block : List Nat) :
    let R := buildH G comb zero callsHash sel h block
    HKeeps h R.1 ∧ h.ptrs.length ≤ R.2.1.hashes.arr ∧ R.2.1.hashes.arr < R.1.ptrs.length ∧
    h.bytes.length ≤ R.2.1.flags.arr ∧ R.2.1.flags.arr < R.1.bytes.length ∧
    OwnedA h.u32s.length R.2.2 ∧ (R.2.2.cap = 0 ∨ R.2.2.arr < R.1.u32s.length) ∧ R.2.2.len ≤ R.2.2.cap ∧
    R.2.1.transactions = block.length := by
  unfold buildH
  dsimp only
  have I0 : BInv h (makeByte (makePtr h 0 block.length).1 0 block.length).1
      { numTx := block.length, allHashes := (makePtr h 0 block.length).2, finalHashes := Slice.nil,
        matchedBits := (makeByte (makePtr h 0 block.length).1 0 block.length).2, bits := Slice.nil } :=
    ⟨((HKeeps.refl h).makePtr _ _).makeByte _ _, Or.inr (Nat.le_refl _), owned_nil _, Or.inr (Nat.le_refl _),
      owned_nil _⟩
  obtain ⟨IF, om, xm, lm, nf, -, -⟩ := fillLoopH_frame G zero callsHash sel h block.zipIdx _ _ Slice.nil I0 (owned_nil _)
    (Or.inl rfl) (Nat.le_refl _)
  obtain ⟨k, a, b, c, d, -, u, n⟩ := calcBlockH_frame G comb zero IF
  exact ⟨k, a, b, c, d, om, by rw [u]; exact xm, lm, n.trans nf⟩

end BuilderFrame

/-! ## the builders: refinement of `buildMsg` -/

section BuilderRefine
variable {H : Type} [DecidableEq H]
open Bch.Proofs.MerkleSelect (bit)

/-- every filled hash memo points at an existing hash object that holds the transaction's id (tx.go: the memo is only
ever set to `&hash` with `hash := msgTx.TxHash()`) -/
def TxWF (hp : Heap H) : Prop :=
  ∀ (t : Nat) (tx : TxObj H), hp.txs[t]? = some tx → ∀ p, tx.memo = some p → hp.hashes[p]? = some tx.id

theorem txId_keeps (zero : H) {h0 hp : Heap H} (k : HKeeps h0 hp) (t : Nat) : txId zero hp t = txId zero h0 t := by
  unfold txId
  cases e : h0.txs[t]? with
  | some tx =>
    obtain ⟨tx', e', i, -, -⟩ := k.txs.2 t tx e
    rw [e']; exact i
  | none =>
    have : hp.txs[t]? = none := by
      rw [List.getElem?_eq_none_iff] at e ⊢
      rw [k.txs.1]; exact e
    rw [this]

/-- static classification of a hash pointer relative to the heap `h0` the builder started in: allocated by the call,
or the memo some wrapper of the block already had -/
def Cl (h0 : Heap H) (block : List Nat) (p : Nat) : Prop :=
  h0.hashes.length ≤ p ∨ ∃ t ∈ block, ∃ tx : TxObj H, h0.txs[t]? = some tx ∧ tx.memo = some p

theorem txHashH_spec (zero : H) {h0 hp : Heap H} (k : HKeeps h0 hp) (wf : TxWF hp) (block : List Nat) {t : Nat}
    (ht : t ∈ block) :
    TxWF (txHashH zero hp t).1 ∧ deref zero (txHashH zero hp t).1 (txHashH zero hp t).2 = txId zero hp t ∧
    (txHashH zero hp t).2 < (txHashH zero hp t).1.hashes.length ∧ Cl h0 block (txHashH zero hp t).2 := by
  unfold txHashH txId
  cases e : hp.txs[t]? with
  | none =>
    refine ⟨?_, deref_alloc zero hp zero, allocHash_lt hp zero, Or.inl k.hashes.length_le⟩
    intro t' tx' e' p hp'
    exact keeps_append _ _ _ _ (wf t' tx' e' p hp')
  | some tx =>
    dsimp only
    cases hm : tx.memo with
    | some p =>
      dsimp only
      have hv := wf t tx e p hm
      refine ⟨wf, ?_, (List.getElem?_eq_some_iff.1 hv).1, ?_⟩
      · simp [deref, List.getD_eq_getElem?_getD, hv]
      · -- the wrapper existed in `h0` (same number of wrappers); its memo was `p` already, or `p` is new
        have hlt : t < h0.txs.length := by rw [← k.txs.1]; exact (List.getElem?_eq_some_iff.1 e).1
        obtain ⟨tx1, e1, -, -, f1⟩ := k.txs.2 t h0.txs[t] (List.getElem?_eq_getElem hlt)
        rw [e] at e1; cases e1
        rcases f1 p hm with f | ⟨f, -⟩
        · exact Or.inr ⟨t, ht, h0.txs[t], List.getElem?_eq_getElem hlt, f⟩
        · exact Or.inl f
    | none =>
      dsimp only
      refine ⟨?_, ?_, ?_, Or.inl k.hashes.length_le⟩
      · intro t' tx' e' p hp'
        simp only [allocHash, List.getElem?_set] at e'
        by_cases htt : t = t'
        · subst htt
          have hlt : t < hp.txs.length := (List.getElem?_eq_some_iff.1 e).1
          simp [hlt] at e'
          subst e'
          cases hp'
          simp [allocHash]
        · simp [htt] at e'
          exact keeps_append _ _ _ _ (wf t' tx' e' p hp')
      · simp [deref, allocHash]
      · simp [allocHash]

/-- reading hashes through a slice is stable when the pointer array is the same, no pointer dangles and the hash store
only grew -/
theorem readHashes_stable (zero : H) {hp hp' : Heap H} (s : Slice) (hptrs : hp'.ptrs = hp.ptrs)
    (hk : Keeps hp.hashes hp'.hashes) (ok : ∀ p ∈ readPtrs hp s, p < hp.hashes.length) :
    readHashes zero hp' s = readHashes zero hp s := by
  unfold readHashes readPtrs
  rw [hptrs]
  exact List.map_congr_left (fun p hp0 => deref_keeps zero hk (ok p hp0))

/-- `mBlock.allHashes = append(mBlock.allHashes, tx.Hash())` -/
theorem pushHash_spec (G : Growth) (zero : H) {h0 hp : Heap H} (k : HKeeps h0 hp) (wf : TxWF hp) (block : List Nat)
    {t : Nat} (ht : t ∈ block) {s : Slice} (sV : ValidA hp.ptrs s) (sO : OwnedA h0.ptrs.length s)
    (ok : ∀ p ∈ readPtrs hp s, p < hp.hashes.length ∧ Cl h0 block p) :
    let d := txHashH zero hp t
    let e := appendPtr G d.1 s [d.2]
    HKeeps h0 e.1 ∧ TxWF e.1 ∧ ValidA e.1.ptrs e.2 ∧ OwnedA h0.ptrs.length e.2 ∧
    (∀ p ∈ readPtrs e.1 e.2, p < e.1.hashes.length ∧ Cl h0 block p) ∧
    readHashes zero e.1 e.2 = readHashes zero hp s ++ [txId zero h0 t] ∧ e.1.bytes = hp.bytes ∧ e.1.u32s = hp.u32s ∧
    Keeps hp.hashes e.1.hashes := by
  dsimp only
  obtain ⟨kd, pd, bd, ud⟩ := txHashH_keeps zero hp t
  obtain ⟨wd, dd, ld, cd⟩ := txHashH_spec zero k wf block ht
  have k1 := k.trans kd
  have sV' : ValidA (txHashH zero hp t).1.ptrs s := by rw [pd]; exact sV
  have hrd : readPtrs (appendPtr G (txHashH zero hp t).1 s [(txHashH zero hp t).2]).1
      (appendPtr G (txHashH zero hp t).1 s [(txHashH zero hp t).2]).2 = readPtrs hp s ++ [(txHashH zero hp t).2] := by
    have := appendA_read G.ptr 0 sV' [(txHashH zero hp t).2]
    unfold readPtrs appendPtr
    dsimp only
    rw [this, pd]
  refine ⟨k1.appendPtr G sO _, wd, appendA_valid _ _ sV' _, appendA_owned _ _ k1.ptrs.length_le sO _, ?_, ?_, bd, ud,
    kd.hashes⟩
  · intro p hp'
    rw [hrd, List.mem_append, List.mem_singleton] at hp'
    rcases hp' with hp' | rfl
    · exact ⟨Nat.lt_of_lt_of_le (ok p hp').1 kd.hashes.length_le, (ok p hp').2⟩
    · exact ⟨ld, cd⟩
  · unfold readHashes
    rw [hrd, List.map_append, List.map_cons, List.map_nil]
    congr 1
    · exact List.map_congr_left (fun p hp0 => deref_keeps zero kd.hashes (ok p hp0).1)
    · have : deref zero (appendPtr G (txHashH zero hp t).1 s [(txHashH zero hp t).2]).1 (txHashH zero hp t).2 =
          deref zero (txHashH zero hp t).1 (txHashH zero hp t).2 := rfl
      rw [this, dd, txId_keeps zero k]


/-- invariant of the loop over the block's transactions -/
structure FillInv (h0 : Heap H) (block : List Nat) (hp : Heap H) (m : MBH) (mi : Slice) : Prop where
  keeps : HKeeps h0 hp
  wf : TxWF hp
  mbV : ValidA hp.bytes m.matchedBits
  mbO : OwnedA h0.bytes.length m.matchedBits
  ahV : ValidA hp.ptrs m.allHashes
  ahO : OwnedA h0.ptrs.length m.allHashes
  miV : ValidA hp.u32s mi
  miO : OwnedA h0.u32s.length mi
  ahok : ∀ p ∈ readPtrs hp m.allHashes, p < hp.hashes.length ∧ Cl h0 block p

/-- the (optional) first `tx.Hash()` of an iteration changes nothing the loop looks at -/
theorem firstHash_spec (zero : H) (callsHash : Bool) {h0 hp : Heap H} {block : List Nat} {m : MBH} {mi : Slice}
    (I : FillInv h0 block hp m mi) (t : Nat) (ht : t ∈ block) :
    let A := if callsHash then txHashH zero hp t else (hp, 0)
    FillInv h0 block A.1 m mi ∧ A.1.bytes = hp.bytes ∧ A.1.u32s = hp.u32s ∧
    readHashes zero A.1 m.allHashes = readHashes zero hp m.allHashes := by
  cases callsHash with
  | false => exact ⟨I, rfl, rfl, rfl⟩
  | true =>
    dsimp only
    rw [if_pos rfl]
    obtain ⟨kd, pd, bd, ud⟩ := txHashH_keeps zero hp t
    obtain ⟨wd, -, -, -⟩ := txHashH_spec zero I.keeps I.wf block ht
    have hr : readPtrs (txHashH zero hp t).1 m.allHashes = readPtrs hp m.allHashes := by
      unfold readPtrs; rw [pd]
    refine ⟨⟨I.keeps.trans kd, wd, bd ▸ I.mbV, I.mbO, pd ▸ I.ahV, I.ahO, ud ▸ I.miV, I.miO, ?_⟩, bd, ud,
      readHashes_stable zero _ pd kd.hashes (fun p hp' => (I.ahok p hp').1)⟩
    intro p hp'
    rw [hr] at hp'
    exact ⟨Nat.lt_of_lt_of_le (I.ahok p hp').1 kd.hashes.length_le, (I.ahok p hp').2⟩

/-- **the loop over the block's transactions, in closed form**: `sel` agrees with the value-level condition `selV`
(transaction pointer, index) whenever it is evaluated -/
theorem fillLoopH_spec (G : Growth) (zero : H) (callsHash : Bool) (sel : Heap H → Nat → Nat → Bool)
    (selV : Nat → Nat → Bool) (h0 : Heap H) (block : List Nat)
    (hsel : ∀ (hp : Heap H) (t i : Nat), HKeeps h0 hp → TxWF hp → t ∈ block →
      sel (if callsHash then txHashH zero hp t else (hp, 0)).1 (if callsHash then txHashH zero hp t else (hp, 0)).2 i
        = selV t i) :
    ∀ (l : List (Nat × Nat)) (hp : Heap H) (m : MBH) (mi : Slice), FillInv h0 block hp m mi →
      (∀ e ∈ l, e.1 ∈ block) →
      let R := fillLoopH G zero callsHash sel l (hp, m, mi)
      FillInv h0 block R.1 R.2.1 R.2.2 ∧
      readBytes R.1 R.2.1.matchedBits = readBytes hp m.matchedBits ++ l.map (fun e => bit (selV e.1 e.2)) ∧
      readHashes zero R.1 R.2.1.allHashes = readHashes zero hp m.allHashes ++ l.map (fun e => txId zero h0 e.1) ∧
      readU32 R.1 R.2.2 = readU32 hp mi ++ (l.filter (fun e => selV e.1 e.2)).map Prod.snd ∧
      R.2.1.numTx = m.numTx ∧ R.2.1.finalHashes = m.finalHashes ∧ R.2.1.bits = m.bits := by
  intro l
  induction l with
  | nil => intro hp m mi I _; simp [fillLoopH]; exact I
  | cons e l ih =>
    intro hp m mi I hl
    obtain ⟨t, txIndex⟩ := e
    have ht : t ∈ block := hl (t, txIndex) (List.mem_cons_self)
    have hl' : ∀ e ∈ l, e.1 ∈ block := fun e he => hl e (List.mem_cons_of_mem _ he)
    unfold fillLoopH
    dsimp only
    rw [hsel hp t txIndex I.keeps I.wf ht]
    obtain ⟨IA, bA, uA, rA⟩ := firstHash_spec zero callsHash I t ht
    generalize (if callsHash then txHashH zero hp t else (hp, 0)) = A at IA bA uA rA ⊢
    have rbA : readBytes A.1 m.matchedBits = readBytes hp m.matchedBits := by unfold readBytes; rw [bA]
    have ruA : readU32 A.1 mi = readU32 hp mi := by unfold readU32; rw [uA]
    cases hs : selV t txIndex with
    | true =>
      rw [if_pos rfl]
      -- b: matchedBits = append(matchedBits, 0x01)
      have kb := IA.keeps.appendByte G IA.mbO [0x01]
      have rb : readBytes (appendByte G A.1 m.matchedBits [0x01]).1 (appendByte G A.1 m.matchedBits [0x01]).2 =
          readBytes A.1 m.matchedBits ++ [0x01] := appendA_read _ _ IA.mbV _
      have vb : ValidA (appendByte G A.1 m.matchedBits [0x01]).1.bytes (appendByte G A.1 m.matchedBits [0x01]).2 :=
        appendA_valid _ _ IA.mbV _
      have ob : OwnedA h0.bytes.length (appendByte G A.1 m.matchedBits [0x01]).2 :=
        appendA_owned _ _ IA.keeps.bytes.length_le IA.mbO _
      have wb : TxWF (appendByte G A.1 m.matchedBits [0x01]).1 := IA.wf
      have pb : (appendByte G A.1 m.matchedBits [0x01]).1.ptrs = A.1.ptrs := rfl
      have ub : (appendByte G A.1 m.matchedBits [0x01]).1.u32s = A.1.u32s := rfl
      have hb : (appendByte G A.1 m.matchedBits [0x01]).1.hashes = A.1.hashes := rfl
      generalize appendByte G A.1 m.matchedBits [0x01] = B at kb rb vb ob wb pb ub hb ⊢
      -- c: matchedIndices = append(matchedIndices, txIndex)
      have miVB : ValidA B.1.u32s mi := by rw [ub]; exact IA.miV
      have kc := kb.appendU32 G IA.miO [txIndex]
      have rc : readU32 (appendU32 G B.1 mi [txIndex]).1 (appendU32 G B.1 mi [txIndex]).2 = readU32 B.1 mi ++ [txIndex] :=
        appendA_read _ _ miVB _
      have vc : ValidA (appendU32 G B.1 mi [txIndex]).1.u32s (appendU32 G B.1 mi [txIndex]).2 :=
        appendA_valid _ _ miVB _
      have oc : OwnedA h0.u32s.length (appendU32 G B.1 mi [txIndex]).2 :=
        appendA_owned _ _ kb.u32s.length_le IA.miO _
      have wc : TxWF (appendU32 G B.1 mi [txIndex]).1 := wb
      have pc : (appendU32 G B.1 mi [txIndex]).1.ptrs = B.1.ptrs := rfl
      have bc : (appendU32 G B.1 mi [txIndex]).1.bytes = B.1.bytes := rfl
      have hc : (appendU32 G B.1 mi [txIndex]).1.hashes = B.1.hashes := rfl
      generalize appendU32 G B.1 mi [txIndex] = C at kc rc vc oc wc pc bc hc ⊢
      -- d, e: allHashes = append(allHashes, tx.Hash())
      have ahVC : ValidA C.1.ptrs m.allHashes := by rw [pc, pb]; exact IA.ahV
      have ahokC : ∀ p ∈ readPtrs C.1 m.allHashes, p < C.1.hashes.length ∧ Cl h0 block p := by
        intro p hp'
        have : readPtrs C.1 m.allHashes = readPtrs A.1 m.allHashes := by unfold readPtrs; rw [pc, pb]
        rw [this] at hp'
        rw [hc, hb]; exact IA.ahok p hp'
      have rhC : readHashes zero C.1 m.allHashes = readHashes zero A.1 m.allHashes := by
        unfold readHashes readPtrs deref; rw [pc, pb, hc, hb]
      obtain ⟨ke, we, eV, eO, eok, re, be, ue, -⟩ := pushHash_spec G zero kc wc block ht ahVC IA.ahO ahokC
      generalize appendPtr G (txHashH zero C.1 t).1 m.allHashes [(txHashH zero C.1 t).2] = E
        at ke we eV eO eok re be ue ⊢
      have IE : FillInv h0 block E.1 { m with matchedBits := B.2, allHashes := E.2 } C.2 :=
        { keeps := ke
          wf := we
          mbV := by rw [be, bc]; exact vb
          mbO := ob
          ahV := eV
          ahO := eO
          miV := by rw [ue]; exact vc
          miO := oc
          ahok := eok }
      obtain ⟨IR, r1, r2, r3, r4, r5, r6⟩ := ih _ _ _ IE hl'
      refine ⟨IR, ?_, ?_, ?_, r4, r5, r6⟩
      · rw [r1]
        have : readBytes E.1 B.2 = readBytes B.1 B.2 := by unfold readBytes; rw [be, bc]
        dsimp only
        rw [this, rb, rbA, List.map_cons, hs, List.append_assoc]
        rfl
      · rw [r2]
        dsimp only
        rw [re, rhC, rA, List.map_cons, List.append_assoc]
        rfl
      · rw [r3]
        have : readU32 E.1 C.2 = readU32 C.1 C.2 := by unfold readU32; rw [ue]
        have h2 : readU32 B.1 mi = readU32 A.1 mi := by unfold readU32; rw [ub]
        rw [this, rc, h2, ruA, List.filter_cons_of_pos (by simpa using hs), List.map_cons, List.append_assoc]
        rfl
    | false =>
      rw [if_neg (by simp)]
      have kb := IA.keeps.appendByte G IA.mbO [0x00]
      have rb : readBytes (appendByte G A.1 m.matchedBits [0x00]).1 (appendByte G A.1 m.matchedBits [0x00]).2 =
          readBytes A.1 m.matchedBits ++ [0x00] := appendA_read _ _ IA.mbV _
      have vb : ValidA (appendByte G A.1 m.matchedBits [0x00]).1.bytes (appendByte G A.1 m.matchedBits [0x00]).2 :=
        appendA_valid _ _ IA.mbV _
      have ob : OwnedA h0.bytes.length (appendByte G A.1 m.matchedBits [0x00]).2 :=
        appendA_owned _ _ IA.keeps.bytes.length_le IA.mbO _
      have wb : TxWF (appendByte G A.1 m.matchedBits [0x00]).1 := IA.wf
      have pb : (appendByte G A.1 m.matchedBits [0x00]).1.ptrs = A.1.ptrs := rfl
      have ub : (appendByte G A.1 m.matchedBits [0x00]).1.u32s = A.1.u32s := rfl
      have hb : (appendByte G A.1 m.matchedBits [0x00]).1.hashes = A.1.hashes := rfl
      generalize appendByte G A.1 m.matchedBits [0x00] = B at kb rb vb ob wb pb ub hb ⊢
      have ahVC : ValidA B.1.ptrs m.allHashes := by rw [pb]; exact IA.ahV
      have ahokC : ∀ p ∈ readPtrs B.1 m.allHashes, p < B.1.hashes.length ∧ Cl h0 block p := by
        intro p hp'
        have : readPtrs B.1 m.allHashes = readPtrs A.1 m.allHashes := by unfold readPtrs; rw [pb]
        rw [this] at hp'
        rw [hb]; exact IA.ahok p hp'
      have rhC : readHashes zero B.1 m.allHashes = readHashes zero A.1 m.allHashes := by
        unfold readHashes readPtrs deref; rw [pb, hb]
      obtain ⟨ke, we, eV, eO, eok, re, be, ue, -⟩ := pushHash_spec G zero kb wb block ht ahVC IA.ahO ahokC
      generalize appendPtr G (txHashH zero B.1 t).1 m.allHashes [(txHashH zero B.1 t).2] = E
        at ke we eV eO eok re be ue ⊢
      have IE : FillInv h0 block E.1 { m with matchedBits := B.2, allHashes := E.2 } mi :=
        { keeps := ke
          wf := we
          mbV := by rw [be]; exact vb
          mbO := ob
          ahV := eV
          ahO := eO
          miV := by rw [ue, ub]; exact IA.miV
          miO := IA.miO
          ahok := eok }
      obtain ⟨IR, r1, r2, r3, r4, r5, r6⟩ := ih _ _ _ IE hl'
      refine ⟨IR, ?_, ?_, ?_, r4, r5, r6⟩
      · rw [r1]
        have : readBytes E.1 B.2 = readBytes B.1 B.2 := by unfold readBytes; rw [be]
        dsimp only
        rw [this, rb, rbA, List.map_cons, hs, List.append_assoc]
        rfl
      · rw [r2]
        dsimp only
        rw [re, rhC, rA, List.map_cons, List.append_assoc]
        rfl
      · rw [r3]
        have : readU32 E.1 mi = readU32 A.1 mi := by unfold readU32; rw [ue, ub]
        rw [this, ruA, List.filter_cons_of_neg (by simp [hs])]


/-! ### `calcHash`, `traverseAndBuild` -/

/-- static facts for the traversal, relative to the heap `h1` it starts in: `allHashes` (`ah`) and `matchedBits` (`mbs`)
lie in arrays of `h1`, no pointer dangles, `matchedBits` encodes the subset `sel` -/
structure TCtx (h1 : Heap H) (ah mbs : Slice) (n : Nat) (sel : Nat → Bool) : Prop where
  ah_v : ValidA h1.ptrs ah
  ah_ok : ∀ p ∈ readPtrs h1 ah, p < h1.hashes.length
  mb_v : ValidA h1.bytes mbs
  tied : ∀ j, j < n → (readBytes h1 mbs).getD j 0 = bit (sel j)

/-- the leaves function the value-level `build` / `calcHash` see -/
def leavesOf (zero : H) (h1 : Heap H) (ah : Slice) : Nat → H := fun i => (readHashes zero h1 ah).getD i zero

theorem calcHashH_spec (comb : H → H → H) (zero : H) {h1 : Heap H} {ah mbs : Slice} {n : Nat} {sel : Nat → Bool}
    (C : TCtx h1 ah mbs n sel) (m : MBH) (hn : m.numTx = n) (ha : m.allHashes = ah) :
    ∀ (height pos : Nat) (hp : Heap H), HKeeps h1 hp →
      deref zero (calcHashH comb zero m height pos hp).1 (calcHashH comb zero m height pos hp).2 =
        calcHash comb (leavesOf zero h1 ah) n height pos ∧
      (calcHashH comb zero m height pos hp).2 < (calcHashH comb zero m height pos hp).1.hashes.length ∧
      ((calcHashH comb zero m height pos hp).2 ∈ readPtrs h1 ah ∨
        hp.hashes.length ≤ (calcHashH comb zero m height pos hp).2) := by
  intro height
  induction height with
  | zero =>
    intro pos hp k
    have hr : readPtrs hp ah = readPtrs h1 ah := k.ptrs.readA_of_valid C.ah_v
    unfold calcHashH calcHash leavesOf readHashes
    rw [ha, hr]
    cases e : (readPtrs h1 ah)[pos]? with
    | some p =>
      dsimp only
      have hmem : p ∈ readPtrs h1 ah := List.mem_of_getElem? e
      have hlt := C.ah_ok p hmem
      refine ⟨?_, Nat.lt_of_lt_of_le hlt k.hashes.length_le, Or.inl hmem⟩
      rw [deref_keeps zero k.hashes hlt]
      simp [List.getD_eq_getElem?_getD, e]
    | none =>
      dsimp only
      refine ⟨?_, allocHash_lt hp zero, Or.inr (Nat.le_refl _)⟩
      rw [deref_alloc]
      simp [List.getD_eq_getElem?_getD, e]
  | succ height ih =>
    intro pos hp k
    unfold calcHashH
    dsimp only
    rw [calcHash, Bch.Proofs.MerkleSelect.calcTreeWidth_eq, Nat.mul_comm pos 2]
    dsimp only
    rw [hn]
    obtain ⟨dl, ll, -⟩ := ih (2*pos) hp k
    have ol := calcHashH_onlyHashes comb zero m height (2*pos) hp
    by_cases hw : 2*pos+1 < width n height
    · rw [if_pos hw, if_pos hw]
      obtain ⟨dr, lr, -⟩ := ih (2*pos+1) _ (k.onlyHashes ol)
      have or_ := calcHashH_onlyHashes comb zero m height (2*pos+1) (calcHashH comb zero m height (2*pos) hp).1
      have dl' : deref zero (calcHashH comb zero m height (2*pos+1) (calcHashH comb zero m height (2*pos) hp).1).1
          (calcHashH comb zero m height (2*pos) hp).2 = calcHash comb (leavesOf zero h1 ah) n height (2*pos) := by
        rw [← dl]; exact or_.hashes.getD ll zero
      refine ⟨?_, allocHash_lt _ _, Or.inr ?_⟩
      · rw [deref_alloc, dl', dr]
      · exact Nat.le_trans ol.hashes.length_le or_.hashes.length_le
    · rw [if_neg hw, if_neg hw]
      refine ⟨?_, allocHash_lt _ _, Or.inr ol.hashes.length_le⟩
      rw [deref_alloc, dl]

/-- invariant of `traverseAndBuild` -/
structure TInv (h1 : Heap H) (ah mbs : Slice) (n : Nat) (hp : Heap H) (m : MBH) : Prop where
  keeps : HKeeps h1 hp
  numTx : m.numTx = n
  ahs : m.allHashes = ah
  mbe : m.matchedBits = mbs
  bitsV : ValidA hp.bytes m.bits
  bitsO : OwnedA h1.bytes.length m.bits
  fhV : ValidA hp.ptrs m.finalHashes
  fhO : OwnedA h1.ptrs.length m.finalHashes
  fhcl : ∀ p ∈ readPtrs hp m.finalHashes, p < hp.hashes.length ∧ (p ∈ readPtrs h1 ah ∨ h1.hashes.length ≤ p)

theorem isParentH_eq {h1 : Heap H} {ah mbs : Slice} {n : Nat} {sel : Nat → Bool} (C : TCtx h1 ah mbs n sel)
    {hp : Heap H} {m : MBH} (I : TInv h1 ah mbs n hp m) (height pos : Nat) :
    isParentH hp m height pos = bit (isParentGo sel n height pos) := by
  unfold isParentH
  have hr : readBytes hp m.matchedBits = readBytes h1 mbs := by rw [I.mbe]; exact I.keeps.bytes.readA_of_valid C.mb_v
  rw [hr, I.numTx]
  exact Bch.Proofs.MerkleSelect.isParent_eq (⟨n, [], [], readBytes h1 mbs, []⟩ : MB H) sel C.tied height pos

/-- the two appends of a node that is not descended into (leaf, or not a parent of a match) -/
theorem emitLeaf_spec (G : Growth) (comb : H → H → H) (zero : H) {h1 : Heap H} {ah mbs : Slice} {n : Nat}
    {sel : Nat → Bool} (C : TCtx h1 ah mbs n sel) {hp : Heap H} {m : MBH} (I : TInv h1 ah mbs n hp m) (v : UInt8)
    (height pos : Nat) :
    let a := appendByte G hp m.bits [v]
    let m1 : MBH := { m with bits := a.2 }
    let c := calcHashH comb zero m1 height pos a.1
    let b := appendPtr G c.1 m1.finalHashes [c.2]
    TInv h1 ah mbs n b.1 { m1 with finalHashes := b.2 } ∧
    readBytes b.1 a.2 = readBytes hp m.bits ++ [v] ∧
    readHashes zero b.1 b.2 = readHashes zero hp m.finalHashes ++ [calcHash comb (leavesOf zero h1 ah) n height pos] ∧
    Keeps hp.hashes b.1.hashes := by
  dsimp only
  have ka := I.keeps.appendByte G I.bitsO [v]
  have ra : readBytes (appendByte G hp m.bits [v]).1 (appendByte G hp m.bits [v]).2 = readBytes hp m.bits ++ [v] :=
    appendA_read _ _ I.bitsV _
  have va : ValidA (appendByte G hp m.bits [v]).1.bytes (appendByte G hp m.bits [v]).2 := appendA_valid _ _ I.bitsV _
  have oa : OwnedA h1.bytes.length (appendByte G hp m.bits [v]).2 :=
    appendA_owned _ _ I.keeps.bytes.length_le I.bitsO _
  have pa : (appendByte G hp m.bits [v]).1.ptrs = hp.ptrs := rfl
  have ha : (appendByte G hp m.bits [v]).1.hashes = hp.hashes := rfl
  generalize appendByte G hp m.bits [v] = A at ka ra va oa pa ha ⊢
  obtain ⟨dc, lc, cc⟩ := calcHashH_spec comb zero C { m with bits := A.2 } I.numTx I.ahs height pos A.1 ka
  have oc := calcHashH_onlyHashes comb zero { m with bits := A.2 } height pos A.1
  have kc := ka.onlyHashes oc
  generalize calcHashH comb zero { m with bits := A.2 } height pos A.1 = Cc at dc lc cc oc kc ⊢
  have fhVC : ValidA Cc.1.ptrs m.finalHashes := by rw [oc.ptrs, pa]; exact I.fhV
  have hrp : readPtrs Cc.1 m.finalHashes = readPtrs hp m.finalHashes := by unfold readPtrs; rw [oc.ptrs, pa]
  have hrd : readPtrs (appendPtr G Cc.1 m.finalHashes [Cc.2]).1 (appendPtr G Cc.1 m.finalHashes [Cc.2]).2 =
      readPtrs hp m.finalHashes ++ [Cc.2] := by
    have := appendA_read G.ptr 0 fhVC [Cc.2]
    unfold readPtrs appendPtr at *
    dsimp only
    rw [this, hrp]
  have hk : Keeps hp.hashes Cc.1.hashes := ha ▸ oc.hashes
  refine ⟨?_, ?_, ?_, hk⟩
  · exact
      { keeps := kc.appendPtr G I.fhO _
        numTx := I.numTx
        ahs := I.ahs
        mbe := I.mbe
        bitsV := by
          have : (appendPtr G Cc.1 m.finalHashes [Cc.2]).1.bytes = A.1.bytes := oc.bytes
          rw [this]; exact va
        bitsO := oa
        fhV := appendA_valid _ _ fhVC _
        fhO := appendA_owned _ _ kc.ptrs.length_le I.fhO _
        fhcl := by
          intro p hp'
          rw [hrd, List.mem_append, List.mem_singleton] at hp'
          rcases hp' with hp' | rfl
          · exact ⟨Nat.lt_of_lt_of_le (I.fhcl p hp').1 hk.length_le, (I.fhcl p hp').2⟩
          · refine ⟨lc, ?_⟩
            rcases cc with c1 | c1
            · exact Or.inl c1
            · exact Or.inr (Nat.le_trans ka.hashes.length_le c1) }
  · have : readBytes (appendPtr G Cc.1 m.finalHashes [Cc.2]).1 A.2 = readBytes A.1 A.2 := by
      unfold readBytes
      have : (appendPtr G Cc.1 m.finalHashes [Cc.2]).1.bytes = A.1.bytes := oc.bytes
      rw [this]
    rw [this, ra]
  · unfold readHashes
    rw [hrd, List.map_append, List.map_cons, List.map_nil]
    congr 1
    · exact List.map_congr_left (fun p hp0 => deref_keeps zero hk (I.fhcl p hp0).1)
    · congr 1

/-- **`traverseAndBuild` on the heap emits exactly the bits and hashes of the value-level `build`** -/
theorem traverseAndBuildH_spec (G : Growth) (comb : H → H → H) (zero : H) {h1 : Heap H} {ah mbs : Slice} {n : Nat}
    {sel : Nat → Bool} (C : TCtx h1 ah mbs n sel) :
    ∀ (height pos : Nat) (hp : Heap H) (m : MBH), TInv h1 ah mbs n hp m →
      let R := traverseAndBuildH G comb zero height pos (hp, m)
      TInv h1 ah mbs n R.1 R.2 ∧
      readBytes R.1 R.2.bits = readBytes hp m.bits ++ (build comb (leavesOf zero h1 ah) sel n height pos).1.map bit ∧
      readHashes zero R.1 R.2.finalHashes =
        readHashes zero hp m.finalHashes ++ (build comb (leavesOf zero h1 ah) sel n height pos).2 ∧
      Keeps hp.hashes R.1.hashes := by
  intro height
  induction height with
  | zero =>
    intro pos hp m I
    unfold traverseAndBuildH
    obtain ⟨a, b, c, d⟩ := emitLeaf_spec G comb zero C I (isParentH hp m 0 pos) 0 pos
    refine ⟨a, ?_, ?_, d⟩
    · dsimp only at b ⊢; rw [b, isParentH_eq C I]; simp [build]
    · dsimp only at c ⊢; rw [c]; simp [build, calcHash]
  | succ height ih =>
    intro pos hp m I
    unfold traverseAndBuildH
    dsimp only
    rw [isParentH_eq C I, Bch.Proofs.MerkleSelect.bit_eq_zero, Bch.Proofs.Merkle.build_succ]
    cases hpar : isParentGo sel n (height+1) pos with
    | false =>
      simp only [Bool.not_false, if_true, Bool.false_eq_true, if_false]
      obtain ⟨a, b, c, d⟩ := emitLeaf_spec G comb zero C I (bit false) (height+1) pos
      refine ⟨a, ?_, ?_, d⟩
      · dsimp only at b ⊢; rw [b]; rfl
      · dsimp only at c ⊢; rw [c]
    | true =>
      simp only [Bool.not_true, Bool.false_eq_true, if_false, if_true]
      -- the bit of this node
      have ka := I.keeps.appendByte G I.bitsO [bit true]
      have ra : readBytes (appendByte G hp m.bits [bit true]).1 (appendByte G hp m.bits [bit true]).2 =
          readBytes hp m.bits ++ [bit true] := appendA_read _ _ I.bitsV _
      have IA : TInv h1 ah mbs n (appendByte G hp m.bits [bit true]).1
          { m with bits := (appendByte G hp m.bits [bit true]).2 } :=
        { keeps := ka, numTx := I.numTx, ahs := I.ahs, mbe := I.mbe
          bitsV := appendA_valid _ _ I.bitsV _
          bitsO := appendA_owned _ _ I.keeps.bytes.length_le I.bitsO _
          fhV := I.fhV, fhO := I.fhO, fhcl := I.fhcl }
      have rfa : readHashes zero (appendByte G hp m.bits [bit true]).1 m.finalHashes = readHashes zero hp m.finalHashes :=
        rfl
      have hha : (appendByte G hp m.bits [bit true]).1.hashes = hp.hashes := rfl
      generalize appendByte G hp m.bits [bit true] = A at ka ra IA rfa hha ⊢
      obtain ⟨IL, bl, fl, kl⟩ := ih (pos*2) A.1 { m with bits := A.2 } IA
      rw [Nat.mul_comm pos 2] at IL bl fl kl ⊢
      generalize traverseAndBuildH G comb zero height (2*pos) (A.1, { m with bits := A.2 }) = L at IL bl fl kl ⊢
      dsimp only at bl fl
      rw [Bch.Proofs.MerkleSelect.calcTreeWidth_eq]
      dsimp only
      rw [IL.numTx]
      by_cases hw : 2*pos+1 < width n height
      · rw [if_pos hw, if_pos hw]
        obtain ⟨IR, br, fr, kr⟩ := ih (2*pos+1) L.1 L.2 IL
        refine ⟨IR, ?_, ?_, (hha ▸ kl).trans kr⟩
        · rw [br, bl, ra]; simp [List.append_assoc]
        · rw [fr, fl, rfa]; simp [List.append_assoc]
      · rw [if_neg hw, if_neg hw]
        refine ⟨IL, ?_, ?_, hha ▸ kl⟩
        · rw [bl, ra]; simp [List.append_assoc]
        · rw [fl, rfa]


/-! ### `calcBlock`: the message object -/

theorem readA_append_of_valid {α : Type} {arrs : List (List α)} {s : Slice} (w : ValidA arrs s) (t : List (List α)) :
    readA (arrs ++ t) s = readA arrs s := by
  by_cases hs : s.arr < arrs.length
  · exact (keeps_append arrs t).readA hs
  · have h0 : arrs.getD s.arr [] = [] := by
      rw [List.getD_eq_getElem?_getD, List.getElem?_eq_none (by omega)]; rfl
    have hw := w.2
    rw [h0] at hw
    have hl : s.len = 0 := by have := w.1; simp at hw; omega
    simp [readA, window, hl]

theorem addTxHashes_spec (G : Growth) : ∀ (ps : List Nat) (hp : Heap H) (s : Slice), ValidA hp.ptrs s →
    readPtrs (addTxHashes G hp s ps).1 (addTxHashes G hp s ps).2 = readPtrs hp s ++ ps := by
  intro ps
  induction ps with
  | nil => intro hp s _; simp [addTxHashes]
  | cons p ps ih =>
    intro hp s v
    unfold addTxHashes
    dsimp only
    rw [ih _ _ (appendA_valid _ _ v _)]
    have : readPtrs (appendPtr G hp s [p]).1 (appendPtr G hp s [p]).2 = readPtrs hp s ++ [p] := appendA_read _ _ v _
    rw [this, List.append_assoc]; rfl

/-- the flag loop writes the array of `flags` (the last byte array) only, and computes the value-level fold -/
theorem flagFold_spec (bits : Slice) (pre : List (List UInt8)) (hb : ValidA pre bits) :
    ∀ (l : List Nat) (hp : Heap H) (farr : List UInt8), hp.bytes = pre ++ [farr] →
      (l.foldl (fun h i => ({ h with bytes := (h.bytes.modify pre.length
        (fun a => a.modify (0 + i/8) (fun b => b ||| ((readBytes h bits).getD i 0 <<< UInt8.ofNat (i % 8))))) } : Heap H))
        hp).bytes =
      pre ++ [l.foldl (fun flags i => flags.modify (i/8)
        (fun b => b ||| ((readA pre bits).getD i 0 <<< UInt8.ofNat (i % 8)))) farr] := by
  intro l
  induction l with
  | nil => intro hp farr e; simpa using e
  | cons i l ih =>
    intro hp farr e
    rw [List.foldl_cons, List.foldl_cons]
    apply ih
    have hr : readBytes hp bits = readA pre bits := by
      unfold readBytes; rw [e]; exact readA_append_of_valid hb _
    dsimp only
    rw [e, hr, Nat.zero_add]
    have := Bch.Proofs.MerkleSelect.modify_append_right
      (fun a : List UInt8 => a.modify (i/8) (fun b => b ||| ((readA pre bits).getD i 0 <<< UInt8.ofNat (i % 8))))
      pre [farr] 0
    rw [Nat.add_zero] at this
    rw [this]
    rfl


/-- **`calcBlock` on the heap produces the value-level message** `⟨n, hashes of build, packFlags (bits of build)⟩` -/
theorem calcBlockH_spec (G : Growth) (comb : H → H → H) (zero : H) {h1 : Heap H} {ah mbs : Slice} {n : Nat}
    {sel : Nat → Bool} (C : TCtx h1 ah mbs n sel) {m : MBH} (I : TInv h1 ah mbs n h1 m)
    (hb0 : readBytes h1 m.bits = []) (hf0 : readHashes zero h1 m.finalHashes = []) :
    let R := calcBlockH G comb zero h1 m
    absMsg zero R.1 R.2 =
      ⟨n, (build comb (leavesOf zero h1 ah) sel n (height n) 0).2,
        packFlags (build comb (leavesOf zero h1 ah) sel n (height n) 0).1⟩ ∧
    Keeps h1.hashes R.1.hashes ∧
    (∀ p ∈ readPtrs R.1 R.2.hashes, p < R.1.hashes.length ∧ (p ∈ readPtrs h1 ah ∨ h1.hashes.length ≤ p)) := by
  unfold calcBlockH
  dsimp only
  have hh : (⟨m.numTx, [], [], [], []⟩ : MB H).heightLoop 33 0 = height n := by
    rw [Bch.Proofs.MerkleSelect.heightLoop_eq]; dsimp only; rw [I.numTx]; rfl
  rw [hh]
  obtain ⟨IT, bT, fT, kT⟩ := traverseAndBuildH_spec G comb zero C (height n) 0 h1 m I
  rw [hb0, List.nil_append] at bT
  rw [hf0, List.nil_append] at fT
  generalize traverseAndBuildH G comb zero (height n) 0 (h1, m) = T at IT bT fT kT ⊢
  generalize (build comb (leavesOf zero h1 ah) sel n (height n) 0) = B at bT fT ⊢
  obtain ⟨ht, mt⟩ := T
  dsimp only at IT bT fT kT ⊢
  -- the two `make`s
  have kb : HKeeps h1 (makeByte (makePtr ht 0 mt.finalHashes.len).1 ((mt.bits.len + 7) / 8) ((mt.bits.len + 7) / 8)).1 :=
    (IT.keeps.makePtr _ _).makeByte _ _
  have hps : readPtrs (makeByte (makePtr ht 0 mt.finalHashes.len).1 ((mt.bits.len + 7) / 8) ((mt.bits.len + 7) / 8)).1
      mt.finalHashes = readPtrs ht mt.finalHashes := readA_append_of_valid IT.fhV _
  rw [hps]
  have va : ValidA (makeByte (makePtr ht 0 mt.finalHashes.len).1 ((mt.bits.len + 7) / 8) ((mt.bits.len + 7) / 8)).1.ptrs
      (makePtr ht 0 mt.finalHashes.len).2 := makeA_valid 0 ht.ptrs (Nat.zero_le _)
  have rc := addTxHashes_spec G (readPtrs ht mt.finalHashes) _ _ va
  have r0 : readPtrs (makeByte (makePtr ht 0 mt.finalHashes.len).1 ((mt.bits.len + 7) / 8) ((mt.bits.len + 7) / 8)).1
      (makePtr ht 0 mt.finalHashes.len).2 = [] := makeA_read0 0 ht.ptrs _
  rw [r0, List.nil_append] at rc
  obtain ⟨kc, -, -, tc, bc, uc, hc⟩ := addTxHashes_frame G h1 (readPtrs ht mt.finalHashes) _
    (makePtr ht 0 mt.finalHashes.len).2 kb IT.keeps.ptrs.length_le (by simp [makeByte, makePtr, makeA])
  generalize addTxHashes G (makeByte (makePtr ht 0 mt.finalHashes.len).1 ((mt.bits.len + 7) / 8)
    ((mt.bits.len + 7) / 8)).1 (makePtr ht 0 mt.finalHashes.len).2 (readPtrs ht mt.finalHashes) = Cc
    at rc kc tc bc uc hc ⊢
  have bc' : Cc.1.bytes = ht.bytes ++ [List.replicate ((mt.bits.len + 7) / 8) 0] := bc
  have hc' : Cc.1.hashes = ht.hashes := hc
  -- the flag loop
  have hfl := flagFold_spec (H := H) mt.bits ht.bytes IT.bitsV (List.range mt.bits.len) Cc.1 _ bc'
  have hlen : mt.bits.len = (B.1.map bit).length := by
    rw [← bT]; exact (length_readA IT.bitsV).symm
  have hfold : (List.range mt.bits.len).foldl (fun flags i => flags.modify (i/8)
      (fun b => b ||| ((readA ht.bytes mt.bits).getD i 0 <<< UInt8.ofNat (i % 8))))
      (List.replicate ((mt.bits.len + 7) / 8) 0) = packFlags B.1 := by
    have e : readA ht.bytes mt.bits = B.1.map bit := bT
    rw [e, hlen, ← Bch.Proofs.MerkleSelect.flagLoop_eq]
    rfl
  rw [hfold] at hfl
  obtain ⟨-, -, pd, -, hd, -⟩ := flagLoopH_frame h1
    (makeByte (makePtr ht 0 mt.finalHashes.len).1 ((mt.bits.len + 7) / 8) ((mt.bits.len + 7) / 8)).2 mt.bits
    IT.keeps.bytes.length_le (List.range mt.bits.len) Cc.1 kc
  have hfl' : (flagLoopH Cc.1 (makeByte (makePtr ht 0 mt.finalHashes.len).1 ((mt.bits.len + 7) / 8)
      ((mt.bits.len + 7) / 8)).2 mt.bits).bytes = ht.bytes ++ [packFlags B.1] := hfl
  have pd' : (flagLoopH Cc.1 (makeByte (makePtr ht 0 mt.finalHashes.len).1 ((mt.bits.len + 7) / 8)
      ((mt.bits.len + 7) / 8)).2 mt.bits).ptrs = Cc.1.ptrs := pd
  have hd' : (flagLoopH Cc.1 (makeByte (makePtr ht 0 mt.finalHashes.len).1 ((mt.bits.len + 7) / 8)
      ((mt.bits.len + 7) / 8)).2 mt.bits).hashes = Cc.1.hashes := hd
  generalize flagLoopH Cc.1 (makeByte (makePtr ht 0 mt.finalHashes.len).1 ((mt.bits.len + 7) / 8)
      ((mt.bits.len + 7) / 8)).2 mt.bits = D at hfl' pd' hd' ⊢
  have hrp : readPtrs D Cc.2 = readPtrs ht mt.finalHashes := by unfold readPtrs; rw [pd']; exact rc
  refine ⟨?_, ?_, ?_⟩
  · simp only [absMsg, IT.numTx]
    congr 1
    · unfold readHashes deref
      rw [hrp, hd', hc', ← fT]
      rfl
    · have hk : (mt.bits.len + 7) / 8 = (packFlags B.1).length := by
        rw [Bch.Proofs.MerkleSelect.packFlags_length', hlen, List.length_map]
      simp only [readBytes, readA, window, makeByte, makePtr, makeA, hfl', List.getD_eq_getElem?_getD,
        List.getElem?_concat_length, Option.getD_some, List.drop_zero]
      rw [hk]; exact List.take_length
  · rw [hd', hc']; exact kT
  · intro p hp'
    rw [hrp] at hp'
    rw [hd', hc']
    exact IT.fhcl p hp'


/-! ### the builders -/

/-- the chosen subset as a predicate on transaction indices -/
def selIdx (block : List Nat) (selV : Nat → Nat → Bool) : Nat → Bool :=
  fun j => match block[j]? with
    | some t => selV t j
    | none => false

theorem zipIdx_filter_snd (block : List Nat) (selV : Nat → Nat → Bool) :
    (block.zipIdx.filter (fun e => selV e.1 e.2)).map Prod.snd =
      (List.range block.length).filter (selIdx block selV) := by
  have h1 : block.zipIdx.filter (fun e => selV e.1 e.2) =
      block.zipIdx.filter (fun e => selIdx block selV e.2) := by
    apply List.filter_congr
    intro e he
    obtain ⟨t, j⟩ := e
    have := List.mem_zipIdx he
    simp only [Nat.zero_add] at this
    obtain ⟨-, hj, ht⟩ := this
    simp only [selIdx]
    have : block[j]? = some t := by
      rw [List.getElem?_eq_getElem hj]; simp at ht; rw [ht]
    rw [this]
  rw [h1, List.range_eq_range', ← List.zipIdx_map_snd 0 block, List.filter_map]
  rfl

/-- **the builders refine the value-level `buildMsg`**: for every heap with well-formed hash memos, every block and
every condition `sel` that agrees with a value-level `selV`, reading the returned message and index slice back gives
`buildMsg` on the block's transaction ids; every hash pointer of the message exists and is new or a memo the block
already had -/
theorem buildH_spec (G : Growth) (comb : H → H → H) (zero : H) (callsHash : Bool) (sel : Heap H → Nat → Nat → Bool)
    (selV : Nat → Nat → Bool) (h0 : Heap H) (block : List Nat) (wf : TxWF h0)
    (hsel : ∀ (hp : Heap H) (t i : Nat), HKeeps h0 hp → TxWF hp → t ∈ block →
      sel (if callsHash then txHashH zero hp t else (hp, 0)).1 (if callsHash then txHashH zero hp t else (hp, 0)).2 i
        = selV t i) :
    let R := buildH G comb zero callsHash sel h0 block
    absMsg zero R.1 R.2.1 = (buildMsg comb (block.map (txId zero h0)) (selIdx block selV) zero).1 ∧
    readU32 R.1 R.2.2 = (buildMsg comb (block.map (txId zero h0)) (selIdx block selV) zero).2 ∧
    (∀ p ∈ readPtrs R.1 R.2.1.hashes, p < R.1.hashes.length ∧ Cl h0 block p) ∧ TxWF R.1 := by
  unfold buildH
  dsimp only
  -- the state before the loop
  have I0 : FillInv h0 block (makeByte (makePtr h0 0 block.length).1 0 block.length).1
      { numTx := block.length, allHashes := (makePtr h0 0 block.length).2, finalHashes := Slice.nil,
        matchedBits := (makeByte (makePtr h0 0 block.length).1 0 block.length).2, bits := Slice.nil } Slice.nil :=
    { keeps := ((HKeeps.refl h0).makePtr _ _).makeByte _ _
      wf := wf
      mbV := makeA_valid 0 _ (Nat.zero_le _)
      mbO := Or.inr (Nat.le_refl _)
      ahV := makeA_valid 0 h0.ptrs (Nat.zero_le _)
      ahO := Or.inr (Nat.le_refl _)
      miV := valid_nil _
      miO := owned_nil _
      ahok := by
        intro p hp'
        have : readPtrs (makeByte (makePtr h0 0 block.length).1 0 block.length).1 (makePtr h0 0 block.length).2 = [] :=
          makeA_read0 0 h0.ptrs _
        rw [this] at hp'; cases hp' }
  have hmem : ∀ e ∈ block.zipIdx, e.1 ∈ block := by
    intro e he
    obtain ⟨t, j⟩ := e
    have := List.mem_zipIdx he
    obtain ⟨-, hj, ht⟩ := this
    simp at ht
    rw [ht]; exact List.getElem_mem _
  obtain ⟨IF, r1, r2, r3, r4, r5, r6⟩ := fillLoopH_spec G zero callsHash sel selV h0 block hsel block.zipIdx _ _ _ I0 hmem
  have e1 : readBytes (makeByte (makePtr h0 0 block.length).1 0 block.length).1
      (makeByte (makePtr h0 0 block.length).1 0 block.length).2 = [] := makeA_read0 0 _ _
  have e2 : readHashes zero (makeByte (makePtr h0 0 block.length).1 0 block.length).1
      (makePtr h0 0 block.length).2 = [] := by
    unfold readHashes
    have : readPtrs (makeByte (makePtr h0 0 block.length).1 0 block.length).1 (makePtr h0 0 block.length).2 = [] :=
      makeA_read0 0 h0.ptrs _
    rw [this]; rfl
  have e3 : readU32 (makeByte (makePtr h0 0 block.length).1 0 block.length).1 Slice.nil = [] := by
    simp [readU32, readA, window, Slice.nil]
  dsimp only at r1 r2 r3 r4 r5 r6
  rw [e1, List.nil_append] at r1
  rw [e2, List.nil_append] at r2
  rw [e3, List.nil_append, zipIdx_filter_snd] at r3
  generalize fillLoopH G zero callsHash sel block.zipIdx _ = F at IF r1 r2 r3 r4 r5 r6 ⊢
  obtain ⟨h1, mf, mi⟩ := F
  dsimp only at IF r1 r2 r3 r4 r5 r6 ⊢
  have r2' : readHashes zero h1 mf.allHashes = block.map (txId zero h0) := by
    rw [r2]
    have : (fun e : Nat × Nat => txId zero h0 e.1) = txId zero h0 ∘ Prod.fst := rfl
    rw [this, ← List.map_map, List.zipIdx_map_fst]
  -- the traversal context
  have C : TCtx h1 mf.allHashes mf.matchedBits block.length (selIdx block selV) :=
    { ah_v := IF.ahV
      ah_ok := fun p hp' => (IF.ahok p hp').1
      mb_v := IF.mbV
      tied := by
        intro j hj
        rw [r1]
        have hz : block.zipIdx[j]? = some (block[j], j) := by simp [hj]
        simp only [List.getD_eq_getElem?_getD, List.getElem?_map, hz, Option.map_some, Option.getD_some, selIdx,
          List.getElem?_eq_getElem hj] }
  have IT : TInv h1 mf.allHashes mf.matchedBits block.length h1 mf :=
    { keeps := HKeeps.refl h1
      numTx := r4
      ahs := rfl
      mbe := rfl
      bitsV := by rw [r6]; exact valid_nil _
      bitsO := by rw [r6]; exact owned_nil _
      fhV := by rw [r5]; exact valid_nil _
      fhO := by rw [r5]; exact owned_nil _
      fhcl := by
        intro p hp'
        rw [r5] at hp'
        simp [readPtrs, readA, window, Slice.nil] at hp' }
  have hb0 : readBytes h1 mf.bits = [] := by rw [r6]; simp [readBytes, readA, window, Slice.nil]
  have hf0 : readHashes zero h1 mf.finalHashes = [] := by
    rw [r5]; simp [readHashes, readPtrs, readA, window, Slice.nil]
  obtain ⟨ma, kh, cl⟩ := calcBlockH_spec G comb zero C IT hb0 hf0
  have BI : BInv h0 h1 mf := ⟨IF.keeps, IF.ahO, by rw [r5]; exact owned_nil _, IF.mbO, by rw [r6]; exact owned_nil _⟩
  obtain ⟨-, -, -, -, -, tq, uq, -⟩ := calcBlockH_frame G comb zero BI
  have hl : leavesOf zero h1 mf.allHashes = fun i => (block.map (txId zero h0)).getD i zero := by
    unfold leavesOf; rw [r2']
  rw [hl] at ma
  refine ⟨?_, ?_, ?_, ?_⟩
  · rw [ma]; simp [buildMsg]
  · have : readU32 (calcBlockH G comb zero h1 mf).1 mi = readU32 h1 mi := by unfold readU32; rw [uq]
    rw [this, r3]; simp [buildMsg]
  · intro p hp'
    obtain ⟨c1, c2⟩ := cl p hp'
    refine ⟨c1, ?_⟩
    rcases c2 with c2 | c2
    · exact (IF.ahok p c2).2
    · exact Or.inl (Nat.le_trans IF.keeps.hashes.length_le c2)
  · intro t tx e p hp'
    rw [tq] at e
    exact kh _ _ (IF.wf t tx e p hp')


/-! ### `NewMerkleBlockWithTxnSet` -/

theorem txInSetH_eq (zero : H) (hp : Heap H) (tx : Nat) : ∀ (set : List Nat),
    txInSetH zero hp tx set = TxInSet (deref zero hp tx) (set.map (deref zero hp)) := by
  intro set
  induction set with
  | nil => rfl
  | cons a set ih => simp only [txInSetH, TxInSet, List.map_cons, ih]

/-- the caller's `txnSet` slice lies inside an array of the heap and none of its pointers dangles -/
structure SetWF (h : Heap H) (txnSet : Slice) : Prop where
  valid : ValidA h.ptrs txnSet
  ok : ∀ p ∈ readPtrs h txnSet, p < h.hashes.length

theorem selIdx_txnSet (zero : H) (h0 : Heap H) (block : List Nat) (set : List H) :
    selIdx block (fun t _ => TxInSet (txId zero h0 t) set) = selectBySet (block.map (txId zero h0)) set := by
  funext j
  unfold selIdx selectBySet
  rw [List.getElem?_map]
  cases block[j]? <;> rfl

/-- **`NewMerkleBlockWithTxnSet` refines the value-level `buildWithTxnSet`** -/
theorem newWithTxnSetH_spec (G : Growth) (comb : H → H → H) (zero : H) (h0 : Heap H) (block : List Nat)
    (txnSet : Slice) (wf : TxWF h0) (S : SetWF h0 txnSet) :
    let R := newWithTxnSetH G comb zero h0 block txnSet
    absMsg zero R.1 R.2.1 =
      (buildWithTxnSet comb (block.map (txId zero h0)) (readHashes zero h0 txnSet) zero).1 ∧
    readU32 R.1 R.2.2 =
      (buildWithTxnSet comb (block.map (txId zero h0)) (readHashes zero h0 txnSet) zero).2 ∧
    (∀ p ∈ readPtrs R.1 R.2.1.hashes, p < R.1.hashes.length ∧ Cl h0 block p) ∧ TxWF R.1 := by
  have := buildH_spec G comb zero true (fun h p _ => txInSetH zero h p (readPtrs h txnSet))
    (fun t _ => TxInSet (txId zero h0 t) (readHashes zero h0 txnSet)) h0 block wf (by
      intro hp t i k w ht
      rw [if_pos rfl]
      obtain ⟨kd, -, -, -⟩ := txHashH_keeps zero hp t
      obtain ⟨-, dd, -, -⟩ := txHashH_spec zero k w block ht
      have k1 := k.trans kd
      have hr : readPtrs (txHashH zero hp t).1 txnSet = readPtrs h0 txnSet := k1.ptrs.readA_of_valid S.valid
      rw [txInSetH_eq, dd, txId_keeps zero k, hr]
      congr 1
      exact List.map_congr_left (fun p hp' => deref_keeps zero k1.hashes (S.ok p hp')))
  rw [selIdx_txnSet] at this
  exact this

/-- a message object whose arrays exist and whose hash pointers do not dangle denotes the same value in every later
heap in which nothing old was written -/
theorem absMsg_keeps' (zero : H) {h0 hp : Heap H} {msg : MsgObj} (k : HKeeps h0 hp)
    (ha : msg.hashes.arr < h0.ptrs.length) (hf : msg.flags.arr < h0.bytes.length)
    (ok : ∀ p ∈ readPtrs h0 msg.hashes, p < h0.hashes.length) :
    absMsg zero hp msg = absMsg zero h0 msg := by
  have h1 : readPtrs hp msg.hashes = readPtrs h0 msg.hashes := k.ptrs.readA ha
  have h2 : readBytes hp msg.flags = readBytes h0 msg.flags := k.bytes.readA hf
  simp only [absMsg, readHashes, h1, h2]
  congr 1
  exact List.map_congr_left (fun p hp' => deref_keeps zero k.hashes (ok p hp'))

end BuilderRefine

/-- what `HKeeps` means, element by element -/
theorem HKeeps.meaning {H : Type} {h0 h : Heap H} (k : HKeeps h0 h) :
    (∀ p, p < h0.hashes.length → h.hashes[p]? = h0.hashes[p]?) ∧
    (∀ b, b < h0.ptrs.length → h.ptrs[b]? = h0.ptrs[b]?) ∧
    (∀ b, b < h0.bytes.length → h.bytes[b]? = h0.bytes[b]?) ∧
    (∀ b, b < h0.u32s.length → h.u32s[b]? = h0.u32s[b]?) ∧
    (∀ (s : Slice), s.arr < h0.ptrs.length → readPtrs h s = readPtrs h0 s) ∧
    (∀ (s : Slice), s.arr < h0.bytes.length → readBytes h s = readBytes h0 s) ∧
    (∀ (s : Slice), s.arr < h0.u32s.length → readU32 h s = readU32 h0 s) ∧
    (∀ (zero : H) p, p < h0.hashes.length → deref zero h p = deref zero h0 p) :=
  ⟨fun _ hp => k.hashes.getElem? hp, fun _ hb => k.ptrs.getElem? hb, fun _ hb => k.bytes.getElem? hb,
   fun _ hb => k.u32s.getElem? hb, fun _ hs => k.ptrs.readA hs, fun _ hs => k.bytes.readA hs,
   fun _ hs => k.u32s.readA hs, fun zero _ hp => deref_keeps zero k.hashes hp⟩

end Bch.Proofs.MerkleHeap
