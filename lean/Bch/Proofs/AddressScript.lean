import Bch.Proofs.Address
/-
The script-taking address constructors of /repo/address.go

    NewAddressScriptHash(script, net)        = newAddressScriptHashFromHash(Hash160(script), net)
    NewAddressScriptHash32(script, net)      = newAddressScriptHash32FromHash(Hash256(script), net)
    NewLegacyAddressScriptHash(script, net)  = newLegacyAddressScriptHashFromHash(Hash160(script),
                                                                                  net.LegacyScriptHashAddrID)

(`Hash160 = RIPEMD160 ∘ SHA256`, `Hash256 = SHA256 ∘ SHA256`, /repo/hash160.go, /repo/hash256.go; there is no
script-taking SLP constructor). The model `Bch.Model.Address` has the hash-taking constructors only; the
compositions below are literally what the harness driver computes for the kinds `shs`, `sh32s`, `lshs`
(`Bch.Drive.C01.construct`): the hashes are the fields `hash160` / `hash256` of the external pack.
-/
namespace Bch.Proofs.AddressScript
open Bch Bch.Model Bch.Model.Address

/-- `NewAddressScriptHash` (driver kind `shs`) -/
def newShFromScript (X : Ext) (script : Bytes) (net : Net) : Except Err Addr :=
  newSh (X.hash160 script) net.cashPrefix

/-- `NewAddressScriptHash32` (driver kind `sh32s`) -/
def newSh32FromScript (X : Ext) (script : Bytes) (net : Net) : Except Err Addr :=
  newSh32 (X.hash256 script) net.cashPrefix

/-- `NewLegacyAddressScriptHash` (driver kind `lshs`) -/
def newLegacyShFromScript (X : Ext) (script : Bytes) (net : Net) : Except Err Addr :=
  newLegacySh (X.hash160 script) net.shID

variable (X : Ext)

/-- each constructor either refuses (hash of the wrong length) or returns the address of the hash -/
theorem newShFromScript_eq (script : Bytes) (net : Net) :
    newShFromScript X script net =
      if (X.hash160 script).length = 20 then .ok (.sh (X.hash160 script) net.cashPrefix) else .error .other := by
  unfold newShFromScript newSh
  by_cases h : (X.hash160 script).length = 20 <;> simp [h]

theorem newSh32FromScript_eq (script : Bytes) (net : Net) :
    newSh32FromScript X script net =
      if (X.hash256 script).length = 32 then .ok (.sh32 (X.hash256 script) net.cashPrefix) else .error .other := by
  unfold newSh32FromScript newSh32
  by_cases h : (X.hash256 script).length = 32 <;> simp [h]

theorem newLegacyShFromScript_eq (script : Bytes) (net : Net) :
    newLegacyShFromScript X script net =
      if (X.hash160 script).length = 20 then .ok (.legacySh (X.hash160 script) net.shID) else .error .other := by
  unfold newLegacyShFromScript newLegacySh
  by_cases h : (X.hash160 script).length = 20 <;> simp [h]

/-- a toy pack whose hashes depend on the script (zero-padded / truncated script) and have the right lengths -/
def Xpad : Ext where
  sha256d := fun x => (x ++ List.replicate 32 0).take 32
  hash160 := fun x => (x ++ List.replicate 20 0).take 20
  hash256 := fun x => (x ++ List.replicate 32 0).take 32
  parsePub := fun _ => none
  serPub := fun _ pt => pt

theorem Xpad_hash160_len (s : Bytes) : (Xpad.hash160 s).length = 20 := by simp [Xpad]
theorem Xpad_hash256_len (s : Bytes) : (Xpad.hash256 s).length = 32 := by simp [Xpad]
theorem Xpad_sha256d_len (s : Bytes) : 4 ≤ (Xpad.sha256d s).length := by simp [Xpad]

end Bch.Proofs.AddressScript
