import Bch.Proofs.HDHeap
/-
What every operation of the heap model (`Bch/Model/HDHeap.lean`) does when it is applied to a key
that has been zeroed (`zeroH h i`). Used by the `C15_zeroed_*` theorems of `Bch/Props/C15.lean`.

The view of a zeroed key is `zeroV v` (`viewAt_zeroH_same`): empty key, zero-filled chain code and
fingerprint of the old lengths, depth 0, child number 0, empty version, `isPrivate = false`. All
statements below follow from what the value-level functions of `Bch/Model/HDKey.lean` do on `zeroV v`.
-/
namespace Bch.Proofs.HDHeap
open Bch Bch.Model Bch.Model.HDKey Bch.Model.HDHeap

section
variable {Pt : Type} (X : HDExt Pt)

/-! ### value level -/

/-- The error that `Child` returns on a zeroed key whose (zero-filled) chain code has `ccLen` bytes:
hardened indices fail the "hardened child of a public key" guard; for a non-hardened index the HMAC
is computed over 33 zero bytes (the empty public key copied into the 33-byte slot) followed by the
index, keyed with the zero-filled chain code, and then either `IL` is out of range / `IL·G` is the
point at infinity (`invalidChild`), or parsing the empty parent public key fails (`other`). -/
def zeroedChildErr (ccLen idx : Nat) : Err :=
  if idx ≥ hardenedKeyStart then .deriveHardFromPublic
  else
    let ilNum := Bytes.toNatBE
      ((X.hmac512 (List.replicate ccLen 0) (List.replicate 33 0 ++ Bytes.ofNatBE 4 idx)).take 32)
    if ilNum ≥ X.n ∨ ilNum = 0 then .invalidChild
    else match X.mulG ilNum with
      | none => .invalidChild
      | some _ => .other

theorem zeroedChildErr_cases (ccLen idx : Nat) :
    (hardenedKeyStart ≤ idx → zeroedChildErr X ccLen idx = .deriveHardFromPublic) ∧
    (idx < hardenedKeyStart →
      zeroedChildErr X ccLen idx = .invalidChild ∨ zeroedChildErr X ccLen idx = .other) := by
  unfold zeroedChildErr
  constructor
  · intro hh; simp [hh]
  · intro hh
    rw [if_neg (by omega)]
    simp only
    split
    · exact .inl rfl
    · split
      · exact .inl rfl
      · exact .inr rfl

theorem copyInto_zero_nil : copyInto 33 0 [] = List.replicate 33 0 := by decide

theorem pubKeyBytes_zeroV (v : XKey) : pubKeyBytes X (zeroV v) = [] := by
  simp [pubKeyBytes, zeroV]

/-- `Child` of a zeroed key always fails, with exactly the error `zeroedChildErr`, provided the
public-key parser rejects the empty byte string. -/
theorem Child_zeroV (hparse : X.parse [] = none) (v : XKey) (idx : Nat) :
    Child X (zeroV v) idx = .error (zeroedChildErr X v.chainCode.length idx) := by
  unfold Child zeroedChildErr
  rw [pubKeyBytes_zeroV]
  simp only [zeroV, copyInto_zero_nil]
  rw [if_neg (by decide)]
  by_cases hh : idx ≥ hardenedKeyStart
  · simp [hh]
  · simp only [hh, Bool.not_false, and_false, Bool.false_eq_true, if_false, hparse]
    split
    · rfl
    · cases X.mulG _ <;> rfl

/-- without any assumption on the parser: `Child` of a zeroed key can only succeed for a
non-hardened index and only if the parser accepts the empty byte string as a public key -/
theorem Child_zeroV_ok {v c : XKey} {idx : Nat} (e : Child X (zeroV v) idx = .ok c) :
    idx < hardenedKeyStart ∧ (X.parse []).isSome := by
  cases hp : X.parse [] with
  | none => rw [Child_zeroV X hp] at e; cases e
  | some p =>
    refine ⟨?_, rfl⟩
    by_cases hh : idx ≥ hardenedKeyStart
    · have : Child X (zeroV v) idx = .error .deriveHardFromPublic := by
        unfold Child; simp [zeroV, hh]
      rw [this] at e; cases e
    · omega

/-- `Neuter` of a zeroed key is the documented "already public" case: it returns the key itself -/
theorem Neuter_zeroV (v : XKey) : Neuter X (zeroV v) = .ok (zeroV v) := by
  simp [Neuter, zeroV]

/-- the byte fields of a zeroed view hold no non-zero byte -/
theorem zeroV_bytes (v : XKey) :
    (zeroV v).key = [] ∧ (zeroV v).version = [] ∧ (zeroV v).isPrivate = false ∧
    (zeroV v).depth = 0 ∧ (zeroV v).childNum = 0 ∧
    (∀ b ∈ (zeroV v).chainCode, b = 0) ∧ (∀ b ∈ (zeroV v).parentFP, b = 0) := by
  simp [zeroV]

/-- the string of a zeroed key contains a blank, which is not a Base58 digit: it decodes to nothing -/
theorem decode_zeroedString : Base58.Decode zeroedString = [] := by decide +kernel

/-- ... so `NewKeyFromString` rejects it with `ErrInvalidKeyLen`, whatever the external primitives -/
theorem NewKeyFromString_zeroedString : NewKeyFromString X zeroedString = .error .invalidKeyLen := by
  unfold NewKeyFromString
  simp [decode_zeroedString]

/-! ### heap level -/

/-- the key stored at handle `i` by `Zero` -/
def zeroedKey (k : HKey) : HKey :=
  { k with version := [], key := Ref.nil, depth := 0, childNum := 0, isPrivate := false }

theorem zeroH_key' {h : Heap} {i : Nat} {k : HKey} (hk : h.keys[i]? = some k) :
    (zeroH h i).keys[i]? = some (zeroedKey k) := zeroH_key hk

theorem view_zeroH_same {h : Heap} {i : Nat} {k : HKey} (hk : h.keys[i]? = some k) :
    view (zeroH h i) (zeroedKey k) = zeroV (view h k) := by
  have e := viewAt_zeroH_same hk
  unfold viewAt at e
  rw [zeroH_key' hk] at e
  exact Option.some.inj e

/-- `pubKeyBytes()` of a zeroed key: the empty byte string, nothing memoised, heap unchanged -/
theorem pubKeyBytesH_zeroH {h : Heap} {i : Nat} {k : HKey} (hk : h.keys[i]? = some k) :
    pubKeyBytesH X (zeroH h i) i = (zeroH h i, []) := by
  rw [pubKeyBytesH_eq]
  simp only [zeroH_key' hk]
  simp [zeroedKey, read_nil]

theorem childH_zeroH (hparse : X.parse [] = none) {h : Heap} {i : Nat} {k : HKey}
    (hk : h.keys[i]? = some k) (idx : Nat) :
    childH X (zeroH h i) i idx =
      (zeroH h i, .err (zeroedChildErr X (h.read k.chainCode).length idx)) := by
  rw [childH_eq]
  simp only [zeroH_key' hk]
  rw [view_zeroH_same hk, Child_zeroV X hparse, pubKeyBytesH_zeroH X hk]
  simp [view]

theorem neuterH_zeroH {h : Heap} {i : Nat} {k : HKey} (hk : h.keys[i]? = some k) :
    neuterH X (zeroH h i) i = (zeroH h i, .key i) :=
  neuterH_public X (zeroH_key' hk) rfl

theorem parseH_zeroH {h : Heap} {i : Nat} {k : HKey} (hk : h.keys[i]? = some k) :
    step X (zeroH h i) (.parse i) = (zeroH h i, .err .invalidKeyLen) := by
  simp only [step]
  rw [stringH_zeroH X hk, newKeyFromStringH_eq, NewKeyFromString_zeroedString]

end
end Bch.Proofs.HDHeap
