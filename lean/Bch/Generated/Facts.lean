namespace Bch.Generated
end Bch.Generated
