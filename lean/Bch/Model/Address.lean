import Bch.Model.CashAddr
import Bch.Model.Base58
/-
Model of the address types and `DecodeAddress` of /repo/address.go (after the fix commits).
External code is a parameter pack `Ext`: hashes and the public-key parser/serialiser of bchec.
A parsed public key is represented by its 64 bytes x||y.
-/
namespace Bch.Model.Address
open Bch Bch.Model

structure Net where
  name : String
  cashPrefix : Bytes
  slpPrefix : Bytes
  pkhID : UInt8
  shID : UInt8
  wifID : UInt8
  hdPriv : Bytes
  hdPub : Bytes
  deriving Repr, DecidableEq

def mkNet (name cash slp : String) (pkh sh wif : Nat) (hdPriv hdPub : Nat) : Net :=
  { name, cashPrefix := Bytes.ofString cash, slpPrefix := Bytes.ofString slp,
    pkhID := UInt8.ofNat pkh, shID := UInt8.ofNat sh, wifID := UInt8.ofNat wif,
    hdPriv := Bytes.ofNatBE 4 hdPriv, hdPub := Bytes.ofNatBE 4 hdPub }

def mainNet := mkNet "mainnet" "bitcoincash" "simpleledger" 0 5 128 0x0488ade4 0x0488b21e
def testNet3 := mkNet "testnet3" "bchtest" "slptest" 111 196 239 0x04358394 0x043587cf
def testNet4 := mkNet "testnet4" "bchtest" "slptest" 111 196 239 0x04358394 0x043587cf
def chipNet := mkNet "chipnet" "bchtest" "slptest" 111 196 239 0x04358394 0x043587cf
def regTest := mkNet "regtest" "bchreg" "slpreg" 111 196 239 0x04358394 0x043587cf
def simNet := mkNet "simnet" "bchsim" "" 63 123 100 0x0420b900 0x0420bd3a

def nets : List Net := [mainNet, testNet3, testNet4, chipNet, regTest, simNet]

/-- `chaincfg.IsPubKeyHashAddrID` / `IsScriptHashAddrID` of the registered networks -/
def pkhIDs : List UInt8 := [0, 63, 111]
def shIDs : List UInt8 := [5, 123, 196]

structure Ext where
  sha256d : Bytes → Bytes
  hash160 : Bytes → Bytes
  hash256 : Bytes → Bytes
  /-- `bchec.ParsePubKey`: the point as x||y (64 bytes) -/
  parsePub : Bytes → Option Bytes
  /-- 0 uncompressed, 1 compressed, 2 hybrid -/
  serPub : Nat → Bytes → Bytes

inductive Addr
  | pkh (hash pre : Bytes)
  | sh (hash pre : Bytes)
  | sh32 (hash pre : Bytes)
  | legacyPkh (hash : Bytes) (netID : UInt8)
  | legacySh (hash : Bytes) (netID : UInt8)
  | pubKey (fmt : Nat) (pt : Bytes) (netID : UInt8)
  deriving DecidableEq, Repr

inductive Err | checksumMismatch | unknownAddressType | addressCollision | unknownFormat | other
  deriving DecidableEq, Repr

def hexEnc (b : Bytes) : Bytes := Bytes.ofString (Bytes.toHex b)
def hexDec (s : Bytes) : Option Bytes := Bytes.ofHexChars (s.map fun c => Char.ofNat c.toNat)

section
variable (X : Ext)

def newPkh (h : Bytes) (pre : Bytes) : Except Err Addr :=
  if h.length ≠ 20 then .error .other else .ok (.pkh h pre)
def newSh (h : Bytes) (pre : Bytes) : Except Err Addr :=
  if h.length ≠ 20 then .error .other else .ok (.sh h pre)
def newSh32 (h : Bytes) (pre : Bytes) : Except Err Addr :=
  if h.length ≠ 32 then .error .other else .ok (.sh32 h pre)
def newLegacyPkh (h : Bytes) (id : UInt8) : Except Err Addr :=
  if h.length ≠ 20 then .error .other else .ok (.legacyPkh h id)
def newLegacySh (h : Bytes) (id : UInt8) : Except Err Addr :=
  if h.length ≠ 20 then .error .other else .ok (.legacySh h id)

def newPubKey (ser : Bytes) (net : Net) : Except Err Addr :=
  match X.parsePub ser with
  | none => .error .other
  | some pt =>
    let b := ser.headD 0
    if b = 2 ∨ b = 3 then .ok (.pubKey 1 pt net.pkhID)
    else if b = 4 then .ok (.pubKey 0 pt net.pkhID)
    else if b = 6 ∨ b = 7 then .ok (.pubKey 2 pt net.pkhID)
    else .error .other

def serialize : Addr → Bytes
  | .pubKey fmt pt _ => X.serPub fmt pt
  | _ => []

def EncodeAddress : Addr → Bytes
  | .pkh h pre => CashAddr.checkEncodeCashAddress (h.take 20) pre 0
  | .sh h pre => CashAddr.checkEncodeCashAddress (h.take 20) pre 1
  | .sh32 h pre => CashAddr.checkEncodeCashAddress h pre 1
  | .legacyPkh h id => Base58.CheckEncode X.sha256d (h.take 20) id
  | .legacySh h id => Base58.CheckEncode X.sha256d (h.take 20) id
  | a@(.pubKey _ _ id) => Base58.CheckEncode X.sha256d ((X.hash160 (serialize X a)).take 20) id

def String : Addr → Bytes
  | a@(.pubKey ..) => hexEnc (serialize X a)
  | a => EncodeAddress X a

def ScriptAddress : Addr → Bytes
  | .pkh h _ | .sh h _ | .sh32 h _ | .legacyPkh h _ | .legacySh h _ => h
  | a@(.pubKey ..) => serialize X a

def IsForNet (a : Addr) (net : Net) : Bool :=
  match a with
  | .pkh _ pre | .sh _ pre | .sh32 _ pre => pre = net.cashPrefix
  | .legacyPkh _ id => id = net.pkhID
  | .legacySh _ id => id = net.shID
  | .pubKey _ _ id => id = net.pkhID

/-- `ConvertSlpToCashAddress` / `ConvertCashToSlpAddress`: only the two 20-byte cash kinds are convertible -/
def ConvertSlpToCash (a : Addr) (net : Net) : Except Err Addr :=
  match a with
  | .pkh h _ => newPkh h net.cashPrefix
  | .sh h _ => newSh h net.cashPrefix
  | _ => .error .other

def ConvertCashToSlp (a : Addr) (net : Net) : Except Err Addr :=
  match a with
  | .pkh h _ => newPkh h net.slpPrefix
  | .sh h _ => newSh h net.slpPrefix
  | _ => .error .other

/-- `paramsFromNetID`: the cash prefix chosen for a legacy id (first match in the Go switch; testnet3 shadows
    regtest/testnet4/chipnet, which share its ids; anything unknown is mainnet) -/
def prefixFromNetID (id : UInt8) : Bytes :=
  if id = testNet3.pkhID then testNet3.cashPrefix
  else if id = simNet.pkhID then simNet.cashPrefix
  else if id = testNet3.shID then testNet3.cashPrefix
  else if id = simNet.shID then simNet.cashPrefix
  else mainNet.cashPrefix

/-- `(*AddressPubKey).AddressPubKeyHash` -/
def AddressPubKeyHash : Addr → Option Addr
  | a@(.pubKey _ _ id) => some (.pkh ((X.hash160 (serialize X a) ++ List.replicate 20 0).take 20) (prefixFromNetID id))
  | _ => none

def lowerASCII (s : Bytes) : Bytes := s.map fun c => if 65 ≤ c ∧ c ≤ 90 then c + 32 else c

/-- `strings.EqualFold(a, b)` for an ASCII `b` of the same byte length as `a`
    (multi-byte runes make the rune counts differ, so only ASCII folding can succeed) -/
def equalFoldASCII (a b : Bytes) : Bool := a.all (· < 128) && lowerASCII a = lowerASCII b

def hasPrefixFold (addr pre : Bytes) : Bool :=
  equalFoldASCII (addr.take (pre.length + 1)) (pre ++ [58])

/-- dispatch on the decoded payload; `slp` selects the SLP constructors (which set the SLP prefix) -/
def fromCash (net : Net) (slp : Bool) (decoded : Bytes) (typ : Nat) : Except Err Addr :=
  let pre := if slp then net.slpPrefix else net.cashPrefix
  if decoded.length = 20 then
    if typ = 0 then newPkh decoded pre
    else if typ = 1 then newSh decoded pre
    else .error .unknownAddressType
  else if decoded.length = 32 then
    if typ = 2 then newSh32 decoded pre else .error .unknownAddressType
  else .error .other

def isChecksumMismatch : Except CashAddr.CErr α → Bool
  | .error (.decode .checksumMismatch) => true
  | _ => false

def DecodeAddress (addr : Bytes) (net : Net) : Except Err Addr :=
  let bch := net.cashPrefix
  let slp := net.slpPrefix
  if addr.length < bch.length + 2 ∨ addr.length < slp.length + 2 then .error .other
  else
    let hasPre := hasPrefixFold addr bch || hasPrefixFold addr slp
    let w1 := if hasPre then addr else bch ++ [58] ++ lowerASCII addr
    let (pre1, r1) := CashAddr.checkDecodeCashAddress w1
    -- first attempt succeeded with a non-SLP prefix: return from here
    let first : Option (Except Err Addr) := match r1 with
      | .ok (decoded, typ) => if pre1 ≠ slp then some (fromCash net false decoded typ) else none
      | .error _ => none
    match first with
    | some r => r
    | none =>
      -- else-if branch: checksum mismatch or SLP prefix
      let second : Option (Except Err Addr) × Bool :=
        if isChecksumMismatch r1 || pre1 = slp then
          let w2 := if hasPre then addr else slp ++ [58] ++ lowerASCII addr
          let (_, r2) := CashAddr.checkDecodeCashAddress w2
          match r2 with
          | .ok (decoded, typ) => (some (fromCash net true decoded typ), false)
          | e => (none, isChecksumMismatch e)
        else (none, false)
      match second with
      | (some r, _) => r
      | (none, cashaddrErr) =>
        if addr.length = 130 ∨ addr.length = 66 then
          match hexDec addr with
          | none => .error .other
          | some ser => newPubKey X ser net
        else
          match Base58.CheckDecode X.sha256d addr with
          | .error .checksum => .error .checksumMismatch
          | .error .invalidFormat => if cashaddrErr then .error .checksumMismatch else .error .unknownFormat
          | .ok (decoded, netID) =>
            if decoded.length = 20 then
              let isP2PKH := pkhIDs.contains netID
              let isP2SH := shIDs.contains netID
              if isP2PKH ∧ isP2SH then .error .addressCollision
              else if isP2PKH then newLegacyPkh decoded netID
              else if isP2SH then newLegacySh decoded netID
              else .error .unknownAddressType
            else .error .other
end
end Bch.Model.Address
