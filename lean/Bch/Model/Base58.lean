import Bch.Prim.Bytes
/-
Model of /repo/base58/base58.go and base58check.go.
`big.Int` is `Nat`; strings are byte lists. The double-SHA256 is a parameter `H`.
-/
namespace Bch.Model.Base58
open Bch

def alphabet : Bytes := Bytes.ofString "123456789ABCDEFGHJKLMNPQRSTUVWXYZabcdefghijkmnopqrstuvwxyz"

/-- `b58[c]`: index of `c` in the alphabet, `none` for the 255 entries of the Go table. -/
def b58 (c : UInt8) : Option Nat :=
  let i := alphabet.idxOf c
  if i < 58 then some i else none

/-- the `for i := len(b)-1 … ` accumulation: value of the digit string, `none` when a foreign byte occurs -/
def decodeNat : Bytes → Option Nat
  | s => s.foldl (fun acc c => match acc, b58 c with
      | some a, some d => some (a * 58 + d)
      | _, _ => none) (some 0)

def leadingOnes : Bytes → Nat
  | [] => 0
  | c :: cs => if c = 49 then leadingOnes cs + 1 else 0

def Decode (s : Bytes) : Bytes :=
  match decodeNat s with
  | none => []
  | some n => List.replicate (leadingOnes s) 0 ++ Bytes.ofNatMin n

/-- the `for x > 0 { x, mod = DivMod(x, 58) … }` loop: least significant digit first -/
def digitsLE (x : Nat) : List Nat :=
  if _h : x = 0 then [] else (x % 58) :: digitsLE (x / 58)
termination_by x
decreasing_by omega

def leadingZeros : Bytes → Nat
  | [] => 0
  | b :: bs => if b = 0 then leadingZeros bs + 1 else 0

def alphaAt (d : Nat) : UInt8 := alphabet.getD d 0

def Encode (b : Bytes) : Bytes :=
  let ds := (digitsLE (Bytes.toNatBE b)).map alphaAt
  (ds ++ List.replicate (leadingZeros b) 49).reverse

section Check
variable (H : Bytes → Bytes)   -- double SHA-256 (32 bytes)

def checksum (input : Bytes) : Bytes := (H input).take 4

def CheckEncode (input : Bytes) (version : UInt8) : Bytes :=
  let b := version :: input
  Encode (b ++ checksum H b)

inductive CheckErr | invalidFormat | checksum
  deriving DecidableEq, Repr

def CheckDecode (s : Bytes) : Except CheckErr (Bytes × UInt8) :=
  let decoded := Decode s
  if decoded.length < 5 then .error .invalidFormat
  else
    let body := decoded.take (decoded.length - 4)
    let ck := decoded.drop (decoded.length - 4)
    if checksum H body ≠ ck then .error .checksum
    else .ok (body.drop 1, decoded.headD 0)

end Check
end Bch.Model.Base58
