import Bch.Model.Gcs
/-
Model of /repo/gcs/builder/builder.go: the builder chain with its error latch, de-duplication,
and the basic block filter.
-/
namespace Bch.Model.GcsBuilder
open Bch Bch.Model

inductive Err | pTooBig | pUnset | mUnset | gcs (e : Gcs.BuildErr) deriving DecidableEq, Repr

structure Builder where
  p : Nat := 0
  m : Nat := 0
  key : Bytes := List.replicate 16 0
  data : List Bytes := []       -- a set: no duplicates, order irrelevant for the result
  err : Option Err := none
  deriving Repr

inductive Op | setKey (k : Bytes) | setP (p : Nat) | setM (m : Nat) | addEntry (d : Bytes)
  deriving Repr

def step (b : Builder) (op : Op) : Builder :=
  if b.err.isSome then b else
  match op with
  | .setKey k => { b with key := (k ++ List.replicate 16 0).take 16 }
  | .setP p => if p > 32 then { b with err := some .pTooBig } else { b with p := p }
  | .setM m => if m > 0xffffffff then { b with err := some .pTooBig } else { b with m := m }
  | .addEntry d => if b.data.contains d then b else { b with data := b.data ++ [d] }

def Build (sip : Bytes → Bytes → UInt64) (b : Builder) : Except Err Gcs.Filter :=
  match b.err with
  | some e => .error e
  | none =>
    if b.p = 0 then .error .pUnset
    else if b.m = 0 then .error .mUnset
    else match Gcs.BuildGCSFilter (sip b.key) b.p (UInt64.ofNat b.m) b.data with
      | .ok f => .ok f
      | .error e => .error (.gcs e)

def withKeyPM (key : Bytes) (p m : Nat) : Builder :=
  [Op.setKey key, .setP p, .setM m].foldl step {}

/-- abstract transaction for the basic filter: input outpoints (hash, index) and output scripts -/
structure Tx where
  ins : List (Bytes × Nat)
  outs : List Bytes

def basicEntries (block : List Tx) : List Bytes :=
  (block.zipIdx.flatMap fun (tx, i) =>
    (if i = 0 then [] else tx.ins.map fun (h, ix) => h ++ Bytes.ofNatLE 4 ix) ++
    tx.outs.filter (!·.isEmpty))

def buildBasicFilterWithKey (sip : Bytes → Bytes → UInt64) (block : List Tx) (keyHash : Bytes) : Except Err Gcs.Filter :=
  Build sip ((basicEntries block).foldl (fun b d => step b (.addEntry d)) (withKeyPM (keyHash.take 16) 19 784931))

def BuildMempoolFilter (sip : Bytes → Bytes → UInt64) (txs : List Tx) : Except Err Gcs.Filter :=
  buildBasicFilterWithKey sip (⟨[], []⟩ :: txs) (List.replicate 32 0)

section
variable (sha256d : Bytes → Bytes)
def GetFilterHash (f : Gcs.Filter) : Bytes := sha256d (Gcs.NBytes f)
def MakeHeaderForFilter (f : Gcs.Filter) (prev : Bytes) : Bytes :=
  sha256d (GetFilterHash sha256d f ++ (prev ++ List.replicate 32 0).take 32)
end

end Bch.Model.GcsBuilder
