import Bch.Model.TxSort
/-
Heap-level model of /repo/txsort/txsort.go: WHICH MEMORY `Sort`, `InPlaceSort` and `IsSorted` write.
The value-level model (`Model/TxSort.lean`) says what the sorted lists are; this file says through which
arrays and objects the Go code gets there.

* A `wire.MsgTx` holds `TxIn []*wire.TxIn` and `TxOut []*wire.TxOut`: two slice headers into backing arrays of
  *pointers*; the `wire.TxIn` / `wire.TxOut` objects live elsewhere on the heap.  The heap is: the store of
  `TxIn` objects, the store of `TxOut` objects (a pointer is an index into the store) and the two kinds of
  pointer arrays (an array id is an index).  Objects and arrays are never freed, arrays never change length.
* `sort.Sort(data)` touches `data` only through `Len`, `Less(i, j)` and `Swap(i, j)` with `i, j < Len()` (the
  documented contract of package `sort`; the only assumption about it).  `Swap` is `s[i], s[j] = s[j], s[i]` on the
  pointer slice.  `Less` reads: the input comparison copies the two `[32]byte` hashes into local arrays
  (`ihash := s[i].PreviousOutPoint.Hash` is an array *value* copy) and reverses the locals; the output comparison
  calls `bytes.Compare`.  Neither writes to the heap.  An in-place sort is therefore modelled as an **arbitrary
  finite list of in-range swaps** on the slice (whichever algorithm chose them, inspecting the heap as it likes).
* `tx.Copy()` is `wire.MsgTx.Copy` of the bchd dependency (external, assumed): it allocates a new `MsgTx`, new pointer
  arrays with `len = cap = ` the old length, a new `TxIn` / `TxOut` object per element and copies all script bytes
  into fresh memory — a deep copy of everything this model has.  Modelled as allocation of fresh objects holding the
  same values.  Two things of the real `wire.TxOut` are NOT in the model: it also carries `TokenData` (CashTokens), and
  `Copy` shares the `TokenData.Commitment` byte slice with the original (msgtx.go: `Commitment: oldTxOut.TokenData.
  Commitment`).  txsort neither reads nor writes token data, so the frame theorems are unaffected, but "no write through
  the result reaches the original" is claimed for pointer arrays, objects and scripts only — not for commitments.
-/
namespace Bch.Model.TxSortHeap
open Bch Bch.Model.TxSort

/-- a slice header `(array, offset, len, cap)` of a pointer slice -/
structure Slice where
  arr : Nat
  off : Nat
  len : Nat
  cap : Nat
  deriving DecidableEq, Repr

structure Heap where
  ins : List TxIn                -- the `wire.TxIn` objects, by pointer
  outs : List TxOut              -- the `wire.TxOut` objects, by pointer
  inArrs : List (List Nat)       -- backing arrays of `[]*wire.TxIn`
  outArrs : List (List Nat)      -- backing arrays of `[]*wire.TxOut`
  deriving DecidableEq, Repr

/-- a `wire.MsgTx` object: its two slice headers (version and lock time are plain values, never written here) -/
structure MsgTx where
  tin : Slice
  tout : Slice
  deriving DecidableEq, Repr

/-- `a[i], a[j] = a[j], a[i]` on a backing array (absolute positions) -/
def swapArr (a : List Nat) (i j : Nat) : List Nat :=
  (a.set i (a.getD j 0)).set j (a.getD i 0)

/-- the elements `s[0:len(s)]` of a pointer array -/
def window (a : List Nat) (s : Slice) : List Nat := (a.drop s.off).take s.len

/-- `sortableInputSlice(s).Swap(i, j)` -/
def swapIn (h : Heap) (s : Slice) (ij : Nat × Nat) : Heap :=
  { h with inArrs := h.inArrs.modify s.arr (fun a => swapArr a (s.off + ij.1) (s.off + ij.2)) }

/-- `sortableOutputSlice(s).Swap(i, j)` -/
def swapOut (h : Heap) (s : Slice) (ij : Nat × Nat) : Heap :=
  { h with outArrs := h.outArrs.modify s.arr (fun a => swapArr a (s.off + ij.1) (s.off + ij.2)) }

/-- every swap of the list is within the slice (`sort.Sort` only calls `Swap(i, j)` with `i, j < Len()`) -/
def InRange (s : Slice) (sw : List (Nat × Nat)) : Prop := ∀ ij ∈ sw, ij.1 < s.len ∧ ij.2 < s.len

instance (s : Slice) (sw : List (Nat × Nat)) : Decidable (InRange s sw) := by unfold InRange; infer_instance

/-- the values of the inputs the slice points at, in slice order -/
def readIns (h : Heap) (s : Slice) : List TxIn :=
  (window (h.inArrs.getD s.arr []) s).map (fun p => h.ins.getD p ⟨[], 0, 0⟩)

/-- the values of the outputs the slice points at, in slice order -/
def readOuts (h : Heap) (s : Slice) : List TxOut :=
  (window (h.outArrs.getD s.arr []) s).map (fun p => h.outs.getD p ⟨0, []⟩)

/-- the value-level transaction a `MsgTx` denotes -/
def readTx (h : Heap) (tx : MsgTx) : Tx := ⟨readIns h tx.tin, readOuts h tx.tout⟩

/-- the slice header is valid for the heap: its array exists and `off + len ≤ off + cap ≤` the array's length -/
def Slice.ValidIn (s : Slice) (arrs : List (List Nat)) : Prop :=
  s.arr < arrs.length ∧ s.len ≤ s.cap ∧ s.off + s.cap ≤ (arrs.getD s.arr []).length

/-- every pointer stored in an array points at an existing object (Go has no dangling pointers) -/
def Heap.WF (h : Heap) : Prop :=
  (∀ a ∈ h.inArrs, ∀ p ∈ a, p < h.ins.length) ∧ (∀ a ∈ h.outArrs, ∀ p ∈ a, p < h.outs.length)

/-- `InPlaceSort(tx)`: `sort.Sort` on the input slice, then on the output slice — any in-range swaps -/
def inPlaceSort (h : Heap) (tx : MsgTx) (swI swO : List (Nat × Nat)) : Heap :=
  swO.foldl (fun h ij => swapOut h tx.tout ij) (swI.foldl (fun h ij => swapIn h tx.tin ij) h)

/-- `tx.Copy()` (wire.MsgTx.Copy): fresh objects with the same values, fresh pointer arrays with `len = cap` -/
def copyTx (h : Heap) (tx : MsgTx) : Heap × MsgTx :=
  let vi := readIns h tx.tin
  let vo := readOuts h tx.tout
  ({ ins := h.ins ++ vi, outs := h.outs ++ vo,
     inArrs := h.inArrs ++ [List.range' h.ins.length vi.length],
     outArrs := h.outArrs ++ [List.range' h.outs.length vo.length] },
   { tin := ⟨h.inArrs.length, 0, vi.length, vi.length⟩, tout := ⟨h.outArrs.length, 0, vo.length, vo.length⟩ })

/-- `Sort(tx)`: copy, sort the copy in place, return it -/
def sortH (h : Heap) (tx : MsgTx) (swI swO : List (Nat × Nat)) : Heap × MsgTx :=
  let c := copyTx h tx
  (inPlaceSort c.1 c.2 swI swO, c.2)

/-- a **shallow** copy (`txCopy := *tx`): the struct is copied, the slices still point into the caller's arrays.
    NOT what the code does — the negative witness for `C18_sort_leaves_original_untouched`. -/
def sortShallow (h : Heap) (tx : MsgTx) (swI swO : List (Nat × Nat)) : Heap × MsgTx :=
  (inPlaceSort h tx swI swO, tx)

/-- `IsSorted(tx)`: reads only -/
def isSorted (h : Heap) (tx : MsgTx) : Heap × Bool := (h, IsSorted (readTx h tx))

/-! ### Go's insertion sort as a swap schedule (what `sort.Sort` runs for n ≤ 12), computed from the values -/

/-- the inner loop `for j := i; j > lo && less(j, j-1); j-- { swap(j, j-1) }` on a value list: the swaps performed
    and the resulting list. `pre` is the already sorted prefix **reversed** (nearest element first), `x` the element
    being inserted, sitting at position `pre.length`. -/
def insertSwaps (less : α → α → Bool) (x : α) : List α → List (Nat × Nat)
  | [] => []
  | y :: pre => if less x y then (pre.length + 1, pre.length) :: insertSwaps less x pre else []

/-- the list (reversed prefix) after that inner loop, `x` included -/
def insertRev (less : α → α → Bool) (x : α) : List α → List α
  | [] => [x]
  | y :: pre => if less x y then y :: insertRev less x pre else x :: y :: pre

/-- the whole insertion sort: swaps performed on `l`, scanning left to right. `pre` as above. -/
def sortSwapsAux (less : α → α → Bool) : List α → List α → List (Nat × Nat)
  | _, [] => []
  | pre, x :: rest => insertSwaps less x pre ++ sortSwapsAux less (insertRev less x pre) rest

def sortSwaps (less : α → α → Bool) (l : List α) : List (Nat × Nat) := sortSwapsAux less [] l

/-- `InPlaceSort` as Go runs it for short slices: the insertion-sort schedule computed from the heap's values -/
def inPlaceSortGo (h : Heap) (tx : MsgTx) : Heap :=
  let h1 := (sortSwaps lessIn (readIns h tx.tin)).foldl (fun h ij => swapIn h tx.tin ij) h
  (sortSwaps lessOut (readOuts h1 tx.tout)).foldl (fun h ij => swapOut h tx.tout ij) h1

end Bch.Model.TxSortHeap
