import Bch.Prim.Bytes
/-
Model of the CashAddr part of /repo/address.go (polyMod … packAddressData, checkEncode/checkDecode),
for the tree after the `fix:` commits bf315b1, 1d8a005, 662835b.
`uint64`/`uint` values are `Nat`; every value here stays below 2^45, so no wrap-around can occur.
-/
namespace Bch.Model.CashAddr
open Bch

def charset : Bytes := Bytes.ofString "qpzry9x8gf2tvdw0s3jn54khce6mua7l"

/-- `CharsetRev[c]` with -1 as `none` (also for c > 127) -/
def charsetRev (c : UInt8) : Option UInt8 :=
  if c > 127 then none else
  let l := if 65 ≤ c ∧ c ≤ 90 then c + 32 else c
  let i := charset.idxOf l
  if i < 32 then some (UInt8.ofNat i) else none

def polyModStep (c : Nat) (d : UInt8) : Nat :=
  let c0 := c >>> 35
  let c := ((c &&& 0x07ffffffff) <<< 5) ^^^ d.toNat
  let c := if c0 &&& 0x01 > 0 then c ^^^ 0x98f2bc8e61 else c
  let c := if c0 &&& 0x02 > 0 then c ^^^ 0x79b76d99e2 else c
  let c := if c0 &&& 0x04 > 0 then c ^^^ 0xf33e5fb3c4 else c
  let c := if c0 &&& 0x08 > 0 then c ^^^ 0xae2eabe2a8 else c
  let c := if c0 &&& 0x10 > 0 then c ^^^ 0x1e4f43e470 else c
  c

def polyMod (v : Bytes) : Nat := (v.foldl polyModStep 1) ^^^ 1

def expandPrefix (pre : Bytes) : Bytes := pre.map (· &&& 0x1f) ++ [0]

def verifyChecksum (pre payload : Bytes) : Bool := polyMod (expandPrefix pre ++ payload) = 0

def createChecksum (pre payload : Bytes) : Bytes :=
  let m := polyMod (expandPrefix pre ++ payload ++ [0,0,0,0,0,0,0,0])
  (List.range 8).map fun i => UInt8.ofNat ((m >>> (5 * (7 - i))) &&& 0x1f)

/-- `Charset[c]`; `none` models the index-out-of-range panic for c ≥ 32 -/
def charAt (c : UInt8) : Option UInt8 := if c.toNat < 32 then some (charset.getD c.toNat 0) else none

def encode (pre payload : Bytes) : Option Bytes :=
  (payload ++ createChecksum pre payload).mapM charAt

inductive DErr | numberInPrefix | separator | unexpectedChar | noPrefix | mixedCase | invalidChar
  | checksumMismatch | tooShort
  deriving DecidableEq, Repr

structure Scan where
  lower : Bool := false
  upper : Bool := false
  prefixSize : Nat := 0

/-- the first `for` loop of `DecodeCashAddress` (index `i` threaded explicitly) -/
def scan : Bytes → Nat → Scan → Except DErr Scan
  | [], _, st => .ok st
  | c :: cs, i, st =>
    if 97 ≤ c ∧ c ≤ 122 then scan cs (i+1) { st with lower := true }
    else if 65 ≤ c ∧ c ≤ 90 then scan cs (i+1) { st with upper := true }
    else if 48 ≤ c ∧ c ≤ 57 then
      if st.prefixSize = 0 then .error .numberInPrefix else scan cs (i+1) st
    else if c = 58 then
      if i = 0 ∨ st.prefixSize ≠ 0 then .error .separator else scan cs (i+1) { st with prefixSize := i }
    else .error .unexpectedChar

def DecodeCashAddress (str : Bytes) : Except DErr (Bytes × Bytes) := do
  let st ← scan str 0 {}
  if st.prefixSize = 0 then throw .noPrefix
  if st.upper ∧ st.lower then throw .mixedCase
  let pre := (str.take st.prefixSize).map (· ||| 0x20)
  let body := str.drop (st.prefixSize + 1)
  let values ← match body.mapM charsetRev with
    | some v => pure v
    | none => throw .invalidChar
  if !verifyChecksum pre values then throw .checksumMismatch
  if values.length < 8 then throw .tooShort
  pure (pre, values.take (values.length - 8))

/-- the `acc/bits` loop of `convertBits` -/
structure CB where
  acc : Nat := 0
  bits : Nat := 0
  ret : List Nat := []

def cbEmit (to maxv : Nat) : (fuel : Nat) → CB → CB
  | 0, st => st
  | fuel+1, st =>
    if st.bits ≥ to then
      let bits := st.bits - to
      cbEmit to maxv fuel { st with bits := bits, ret := st.ret ++ [(st.acc >>> bits) &&& maxv] }
    else st

def convertBits (data : Bytes) (fromBits toBits : Nat) (pad : Bool) : Option Bytes :=
  let maxv := (1 <<< toBits) - 1
  let maxAcc := (1 <<< (fromBits + toBits - 1)) - 1
  let st := data.foldl (fun st v =>
      let acc := ((st.acc <<< fromBits) ||| v.toNat) &&& maxAcc
      cbEmit toBits maxv (fromBits + toBits) { st with acc := acc, bits := st.bits + fromBits }) ({} : CB)
  if pad then
    let ret := if st.bits > 0 then st.ret ++ [(st.acc <<< (toBits - st.bits)) &&& maxv] else st.ret
    some (ret.map UInt8.ofNat)
  else if st.bits ≥ fromBits ∨ ((st.acc <<< (toBits - st.bits)) &&& maxv) ≠ 0 then none
  else some (st.ret.map UInt8.ofNat)

/-- address types: 0 = P2PKH, 1 = P2SH, 2 = P2SH32 -/
abbrev AddrType := Nat

def packAddressData (t : AddrType) (hash : Bytes) : Option Bytes :=
  if t ≠ 0 ∧ t ≠ 1 then none
  else
    -- Go: (uint(len)-20)/4 wraps for len < 20; (len-20)%4 is the signed remainder
    let n := hash.length
    let encodedSize := if n ≥ 20 then (n - 20) / 4 else (2^64 + n - 20) / 4
    let remOk := if n ≥ 20 then (n - 20) % 4 = 0 else (20 - n) % 4 = 0
    if !remOk then none
    else if encodedSize > 8 then none
    else
      let versionByte := (t <<< 3) ||| encodedSize
      convertBits (UInt8.ofNat versionByte :: hash) 8 5 true

/-- `""` (the empty string) on a packing error, like the Go code -/
def checkEncodeCashAddress (input pre : Bytes) (t : AddrType) : Bytes :=
  match packAddressData t input with
  | none => []
  | some k => (encode pre k).getD []

inductive CErr | decode (e : DErr) | padding | length | unknownType
  deriving DecidableEq, Repr

/-- returns (prefix, result); the prefix is "" when `DecodeCashAddress` itself failed and the
    decoded prefix otherwise (the caller looks at it even when there is an error) -/
def checkDecodeCashAddress (input : Bytes) : Bytes × Except CErr (Bytes × AddrType) :=
  match DecodeCashAddress input with
  | .error e => ([], .error (.decode e))
  | .ok (pre, data5) =>
    (pre,
    match convertBits data5 5 8 false with
    | none => .error .padding
    | some data =>
      if data.length = 33 then
        if data.headD 0 ≠ 0x0b then .error .unknownType
        else .ok (data.drop 1, 2)
      else if data.length ≠ 21 then .error .length
      else match data.headD 0 with
        | 0x00 => .ok (data.drop 1, 0)
        | 0x08 => .ok (data.drop 1, 1)
        | _ => .error .unknownType)

end Bch.Model.CashAddr
