import Bch.Prim.Bytes
/-
Model of /repo/bech32/bech32.go. Go `int` values are `Nat` (no operation here can overflow 63 bits:
chk < 2^30 after masking and shifting, v < 256).
-/
namespace Bch.Model.Bech32
open Bch

def charset : Bytes := Bytes.ofString "qpzry9x8gf2tvdw0s3jn54khce6mua7l"

def gen : List Nat := [0x3b6a57b2, 0x26508e6d, 0x1ea119fa, 0x3d4233dd, 0x2a1462b3]

def polymodStep (chk v : Nat) : Nat :=
  let b := chk >>> 25
  let c := ((chk &&& 0x1ffffff) <<< 5) ^^^ v
  (List.range 5).foldl (fun c i => if (b >>> i) &&& 1 = 1 then c ^^^ gen.getD i 0 else c) c

def polymod (values : List Nat) : Nat := values.foldl polymodStep 1

def hrpExpand (hrp : Bytes) : List Nat :=
  hrp.map (fun (c : UInt8) => c.toNat >>> 5) ++ [0] ++ hrp.map (fun (c : UInt8) => c.toNat &&& 31)

def checksum (hrp data : Bytes) : Bytes :=
  let values := hrpExpand hrp ++ data.map (·.toNat) ++ [0,0,0,0,0,0]
  let pm := polymod values ^^^ 1
  (List.range 6).map fun i => UInt8.ofNat ((pm >>> (5 * (5 - i))) &&& 31)

def verifyChecksum (hrp data : Bytes) : Bool :=
  polymod (hrpExpand hrp ++ data.map (·.toNat)) = 1

def toChars : Bytes → Option Bytes
  | [] => some []
  | b :: bs => if b.toNat ≥ 32 then none else (toChars bs).map (charset.getD b.toNat 0 :: ·)

def toBytes : Bytes → Option Bytes
  | [] => some []
  | c :: cs =>
    let i := charset.idxOf c
    if i < 32 then (toBytes cs).map (UInt8.ofNat i :: ·) else none

/-- `Encode`; `none` = the "unable to convert data bytes" error -/
def Encode (hrp data : Bytes) : Option Bytes :=
  (toChars (data ++ checksum hrp data)).map fun cs => hrp ++ [49] ++ cs

def toLower (c : UInt8) : UInt8 := if 65 ≤ c ∧ c ≤ 90 then c + 32 else c
def toUpper (c : UInt8) : UInt8 := if 97 ≤ c ∧ c ≤ 122 then c - 32 else c

inductive Err | length | char | mixedCase | sep | charset | checksum
  deriving DecidableEq, Repr

def lastIndexOf (c : UInt8) (s : Bytes) : Option Nat :=
  let r := s.reverse.idxOf c
  if r < s.length then some (s.length - 1 - r) else none

def Decode (bech : Bytes) : Except Err (Bytes × Bytes) :=
  if bech.length < 8 ∨ bech.length > 90 then .error .length
  else if bech.any (fun c => c < 33 ∨ c > 126) then .error .char
  else
    let lower := bech.map toLower
    let upper := bech.map toUpper
    if bech ≠ lower ∧ bech ≠ upper then .error .mixedCase
    else
      match lastIndexOf 49 lower with
      | none => .error .sep
      | some one =>
        if one < 1 ∨ one + 7 > lower.length then .error .sep
        else
          let hrp := lower.take one
          let data := lower.drop (one + 1)
          match toBytes data with
          | none => .error .charset
          | some decoded =>
            if !verifyChecksum hrp decoded then .error .checksum
            else .ok (hrp, decoded.take (decoded.length - 6))

/-- state of the regrouping loop -/
structure CB where
  out : Bytes
  nextByte : UInt8
  filled : Nat

/-- the inner `for remFromBits > 0` loop for one input byte `b` (already shifted left by 8-fromBits) -/
def cbInner (toBits : Nat) : (fuel : Nat) → (rem : Nat) → (b : UInt8) → CB → CB
  | 0, _, _, st => st
  | fuel+1, rem, b, st =>
    if rem = 0 then st else
    let remTo := toBits - st.filled
    let ex := if remTo < rem then remTo else rem
    let nb := (st.nextByte <<< UInt8.ofNat ex) ||| (b >>> UInt8.ofNat (8 - ex))
    let b' := b <<< UInt8.ofNat ex
    let filled := st.filled + ex
    let st' : CB := if filled = toBits then ⟨st.out ++ [nb], 0, 0⟩ else ⟨st.out, nb, filled⟩
    cbInner toBits fuel (rem - ex) b' st'

inductive CBErr | groups | incomplete deriving DecidableEq, Repr

def ConvertBits (data : Bytes) (fromBits toBits : Nat) (pad : Bool) : Except CBErr Bytes :=
  if fromBits < 1 ∨ fromBits > 8 ∨ toBits < 1 ∨ toBits > 8 then .error .groups
  else
    let st := data.foldl (fun st b => cbInner toBits 8 fromBits (b <<< UInt8.ofNat (8 - fromBits)) st) ⟨[], 0, 0⟩
    let st := if pad ∧ st.filled > 0 then
        (⟨st.out ++ [st.nextByte <<< UInt8.ofNat (toBits - st.filled)], 0, 0⟩ : CB) else st
    if st.filled > 0 ∧ (st.filled > 4 ∨ st.nextByte ≠ 0) then .error .incomplete
    else .ok st.out

end Bch.Model.Bech32
