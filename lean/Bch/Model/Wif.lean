import Bch.Model.Base58
/-
Model of /repo/wif.go. `bchec.PrivateKey.D` is a `Nat` (PrivKeyFromBytes does not reduce it);
the double SHA-256 is the parameter `H`; the public point serialisation is a parameter of the caller.
-/
namespace Bch.Model.Wif
open Bch Bch.Model

structure WIF where
  d : Nat
  compress : Bool
  netID : UInt8
  deriving DecidableEq, Repr

inductive Err | malformed | checksum deriving DecidableEq, Repr

/-- `paddedAppend(size, dst, src)` -/
def paddedAppend (size : Nat) (dst src : Bytes) : Bytes :=
  dst ++ List.replicate (size - src.length) 0 ++ src

variable (H : Bytes → Bytes)

def String (w : WIF) : Bytes :=
  let a := paddedAppend 32 [w.netID] (Bytes.ofNatMin w.d)
  let a := if w.compress then a ++ [1] else a
  Base58.Encode (a ++ (H a).take 4)

def DecodeWIF (s : Bytes) : Except Err WIF :=
  let decoded := Base58.Decode s
  let n := decoded.length
  if n = 38 then
    if decoded.getD 33 0 ≠ 1 then .error .malformed
    else
      let tosum := decoded.take 34
      if (H tosum).take 4 ≠ decoded.drop (n - 4) then .error .checksum
      else .ok ⟨Bytes.toNatBE ((decoded.drop 1).take 32), true, decoded.headD 0⟩
  else if n = 37 then
    let tosum := decoded.take 33
    if (H tosum).take 4 ≠ decoded.drop (n - 4) then .error .checksum
    else .ok ⟨Bytes.toNatBE ((decoded.drop 1).take 32), false, decoded.headD 0⟩
  else .error .malformed

end Bch.Model.Wif
