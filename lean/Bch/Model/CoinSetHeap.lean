import Bch.Model.CoinSet
import Bch.Model.TxSortHeap
/-
Heap-level model of /repo/coinset/coins.go: WHICH MEMORY the four selectors and the `CoinSet` object read and write.
The value-level model (`Model/CoinSet.lean`) says which coins are selected; this file says through which arrays and
objects the Go code gets there.

* A `Coin` is an interface value; every implementation the package offers (`*SimpleCoin`) is a pointer to a caller
  object.  The heap holds the store of coin objects (a coin pointer is an index into it), the backing arrays of
  `[]Coin` slices (an array id is an index; a cell holds a coin pointer) and the store of `CoinSet` objects (a
  `*CoinSet` is an index).  Objects and arrays are never freed, arrays never change length.  The three stores are
  disjoint kinds of memory: a `[]Coin` cannot alias a `CoinSet` or a coin object (Go's typing).
* The methods `Value()` / `ValueAge()` of the caller's coins are assumed to be readers (as `SimpleCoin`'s are): they
  return the value / confirmations × value of the object and write nothing.  (A caller who implements `Coin` with
  methods that write memory can of course have anything changed; that is outside this package.)
* A `CoinSet` object holds `coinList *list.List` and the two totals.  The `container/list` (external, standard library)
  is private to the set: `list.New()` allocates it, `PushBack` allocates one element node holding the interface value,
  `Remove` unlinks a node; no other code holds a pointer to the list or to a node (`coinList` is unexported and never
  handed out).  It is modelled as the list of coin pointers it holds, front to back, stored in the set object.
* `sort.Sort(data)` touches `data` only through `Len`, `Less(i, j)`, `Swap(i, j)` with `i, j < Len()`; `Swap` is
  `a[i], a[j] = a[j], a[i]` on the `[]Coin`; `Less` calls `Value()` / `ValueAge()` (readers).  As in `TxSortHeap` an
  in-place sort is an ARBITRARY finite list of swaps — here supplied by an oracle `sched` that may inspect the whole
  heap, the slice and the comparator (so: whichever algorithm `sort.Sort` runs, on every call).
* Loops that index a slice while pushing into a set (`coins[n]` in the min-index scan, `possibleCoins[n]` in the
  extension loop, `range` loops) read the window once up front: `PushCoin` / `PopCoin` write set objects only, never an
  array, so the cells read are the same.  Failed attempts of the min-priority selector leave their garbage (sets,
  arrays) allocated: the heap is threaded through every call.
* `append(s, xs...)` stores in place behind `s` when `len(s)+len(xs) ≤ cap(s)` (visible to every other slice header of
  that array) and otherwise allocates; the growth policy `g` is a parameter (as in `SliceHeap`).
-/
namespace Bch.Model.CoinSetHeap
open Bch Bch.Model.CoinSet
open Bch.Model.TxSortHeap (Slice swapArr window InRange sortSwaps)

/-- a `CoinSet` object: the contents of its `container/list` (coin pointers, front to back) and the cached totals -/
structure SetObj where
  list : List Nat
  totalValue : Int
  totalValueAge : Int
  deriving DecidableEq, Repr

structure Heap where
  coins : List Coin            -- the caller's coin objects, by pointer
  arrs : List (List Nat)       -- backing arrays of `[]Coin`
  sets : List SetObj           -- the `CoinSet` objects, by pointer
  deriving DecidableEq, Repr

/-- the coin object behind a pointer (what `c.Value()`, `c.ValueAge()` read) -/
def coinAt (h : Heap) (p : Nat) : Coin := h.coins.getD p ⟨0, 0, 0⟩

def setAt (h : Heap) (cs : Nat) : SetObj := h.sets.getD cs ⟨[], 0, 0⟩

/-- the pointers `s[0:len(s)]` -/
def readPtrs (h : Heap) (s : Slice) : List Nat := window (h.arrs.getD s.arr []) s

/-- the values of the coins a slice offers, in slice order -/
def readCoins (h : Heap) (s : Slice) : List Coin := (readPtrs h s).map (coinAt h)

/-- the value-level coin set a `*CoinSet` denotes -/
def readSet (h : Heap) (cs : Nat) : CS :=
  ⟨(setAt h cs).list.map (coinAt h), (setAt h cs).totalValue, (setAt h cs).totalValueAge⟩

/-- `s[lo:hi]` -/
def sub (s : Slice) (lo hi : Nat) : Slice := ⟨s.arr, s.off + lo, hi - lo, s.cap - lo⟩

/-! ### slices: `make`, `append`, `Swap` -/

/-- store `xs` at positions `pos, pos+1, …` of an array (stores outside the array panic in Go; no-ops here) -/
def writeAt : List Nat → Nat → List Nat → List Nat
  | a, _, [] => a
  | a, pos, x :: xs => writeAt (a.set pos x) (pos + 1) xs

/-- `make([]Coin, n, c)`: a fresh array of `c` nil cells (never read before being written) -/
def make (h : Heap) (n c : Nat) : Heap × Slice :=
  ({ h with arrs := h.arrs ++ [List.replicate c 0] }, ⟨h.arrs.length, 0, n, c⟩)

/-- `append(s, xs...)` with growth policy `g` (extra capacity as a function of the needed length); the elements `xs`
    have been read before the call -/
def append (g : Nat → Nat) (h : Heap) (s : Slice) (xs : List Nat) : Heap × Slice :=
  if s.len + xs.length ≤ s.cap then
    ({ h with arrs := h.arrs.modify s.arr (fun a => writeAt a (s.off + s.len) xs) },
     { s with len := s.len + xs.length })
  else
    let n := s.len + xs.length
    ({ h with arrs := h.arrs ++ [readPtrs h s ++ xs ++ List.replicate (g n) 0] }, ⟨h.arrs.length, 0, n, n + g n⟩)

/-- `byAmount(s).Swap(i, j)` / `byValueAge(s).Swap(i, j)`: `a[i], a[j] = a[j], a[i]` on the pointer slice -/
def swapH (h : Heap) (s : Slice) (ij : Nat × Nat) : Heap :=
  { h with arrs := h.arrs.modify s.arr (fun a => swapArr a (s.off + ij.1) (s.off + ij.2)) }

/-- the three `sort.Interface`s of the file -/
inductive Key
  | valueDesc       -- `sort.Reverse(byAmount(·))`
  | valueAgeDesc    -- `sort.Reverse(byValueAge(·))`
  | valueAgeAsc     -- `byValueAge(·)`
  deriving DecidableEq, Repr

/-- the swaps `sort.Sort` performs when called with this comparator on this slice in this heap -/
abbrev Sched := Key → Heap → Slice → List (Nat × Nat)

/-- `sort.Sort(…(s))`: the oracle's swaps, in place -/
def sortH (sched : Sched) (k : Key) (h : Heap) (s : Slice) : Heap :=
  (sched k h s).foldl (fun h ij => swapH h s ij) h

/-- the Go `Less` of the three comparators, on coin values -/
def Key.less : Key → Coin → Coin → Bool
  | .valueDesc, a, b => decide (b.value < a.value)
  | .valueAgeDesc, a, b => decide (b.valueAge < a.valueAge)
  | .valueAgeAsc, a, b => decide (a.valueAge < b.valueAge)

/-- the schedule Go's insertion sort runs (what `sort.Sort` does for at most 12 elements), computed from the heap -/
def goSched : Sched := fun k h s => sortSwaps k.less (readCoins h s)

/-- `sortedCoins := make([]Coin, 0, len(coins)); sortedCoins = append(sortedCoins, coins...)` -/
def copySlice (g : Nat → Nat) (h : Heap) (s : Slice) : Heap × Slice :=
  let m := make h 0 s.len
  append g m.1 m.2 (readPtrs h s)

/-! ### the `CoinSet` object -/

/-- `NewCoinSet(nil)`: `&CoinSet{coinList: list.New()}` -/
def newEmptySet (h : Heap) : Heap × Nat :=
  ({ h with sets := h.sets ++ [⟨[], 0, 0⟩] }, h.sets.length)

/-- `cs.PushCoin(c)`: `PushBack`, totals updated from `c.Value()`, `c.ValueAge()` -/
def pushCoin (h : Heap) (cs p : Nat) : Heap :=
  { h with sets := h.sets.modify cs (fun o =>
      ⟨o.list ++ [p], o.totalValue + (coinAt h p).value, o.totalValueAge + (coinAt h p).valueAge⟩) }

/-- `cs.PopCoin()`: `nil` on the empty set, else `removeElement(Back())` -/
def popCoin (h : Heap) (cs : Nat) : Heap × Option Nat :=
  match (setAt h cs).list.getLast? with
  | none => (h, none)
  | some p =>
    ({ h with sets := h.sets.modify cs (fun o =>
        ⟨o.list.dropLast, o.totalValue - (coinAt h p).value, o.totalValueAge - (coinAt h p).valueAge⟩) }, some p)

/-- `cs.ShiftCoin()`: `nil` on the empty set, else `removeElement(Front())` -/
def shiftCoin (h : Heap) (cs : Nat) : Heap × Option Nat :=
  match (setAt h cs).list with
  | [] => (h, none)
  | p :: _ =>
    ({ h with sets := h.sets.modify cs (fun o =>
        ⟨o.list.tail, o.totalValue - (coinAt h p).value, o.totalValueAge - (coinAt h p).valueAge⟩) }, some p)

/-- `cs.Coins()`: `make([]Coin, Len())` filled from the list — a fresh array with `len = cap` -/
def coinsOf (h : Heap) (cs : Nat) : Heap × Slice :=
  let l := (setAt h cs).list
  ({ h with arrs := h.arrs ++ [l] }, ⟨h.arrs.length, 0, l.length, l.length⟩)

/-- `for _, coin := range ps { cs.PushCoin(coin) }` (the slice `ps` has been read: `range` evaluates it once, and
    `PushCoin` writes no array) -/
def pushAll (cs : Nat) : List Nat → Heap → Heap
  | [], h => h
  | p :: ps, h => pushAll cs ps (pushCoin h cs p)

/-- `NewCoinSet(coins)` -/
def newCoinSet (h : Heap) (s : Slice) : Heap × Nat :=
  let e := newEmptySet h
  (pushAll e.2 (readPtrs h s) e.1, e.2)

/-! ### the selectors -/

/-- what `CoinSelect` returns: the heap afterwards and the `*CoinSet` (`none` = `nil, ErrCoinsNoSelectionAvailable`) -/
abbrev Res := Heap × Option Nat

/-- the loop of `MinIndexCoinSelector.CoinSelect` (`k` = inputs still allowed, the list = `coins[n:]`) -/
def minIndexLoopH (target minChange : Int) (cs : Nat) : Nat → List Nat → Heap → Res
  | 0, _, h => (h, none)
  | _, [], h => (h, none)
  | k+1, p :: ps, h =>
    let h := pushCoin h cs p
    if satisfiesTargetValue target minChange (setAt h cs).totalValue then (h, some cs)
    else minIndexLoopH target minChange cs k ps h

/-- `MinIndexCoinSelector.CoinSelect` -/
def minIndexH (maxInputs minChange target : Int) (h : Heap) (s : Slice) : Res :=
  let e := newEmptySet h
  minIndexLoopH target minChange e.2 maxInputs.toNat (readPtrs h s) e.1

/-- `MinNumberCoinSelector.CoinSelect` / `MaxValueAgeCoinSelector.CoinSelect`: copy, sort the copy, delegate -/
def sortedSelectH (k : Key) (g : Nat → Nat) (sched : Sched) (maxInputs minChange target : Int) (h : Heap)
    (s : Slice) : Res :=
  let c := copySlice g h s
  minIndexH maxInputs minChange target (sortH sched k c.1 c.2) c.2

def minNumberH := sortedSelectH .valueDesc
def maxValueAgeH := sortedSelectH .valueAgeDesc

/-- the extension loop of the success branch (`for n := 0; n < cutoffIndex; n++`), `ps` = `possibleCoins[n:cutoff]` -/
def extendH (maxInputs minChange minAvg target : Int) (ext : Nat) : List Nat → Heap → Heap
  | [], h => h
  | p :: ps, h =>
    if ((setAt h ext).list.length : Int) ≥ maxInputs then h
    else if (coinAt h p).valueAge = 0 then extendH maxInputs minChange minAvg target ext ps h
    else
      let h1 := pushCoin h ext p
      if Int.tdiv (setAt h1 ext).totalValueAge ((setAt h1 ext).list.length : Int) < minAvg ||
         !satisfiesTargetValue target minChange (setAt h1 ext).totalValue
      then extendH maxInputs minChange minAvg target ext ps (popCoin h1 ext).1
      else extendH maxInputs minChange minAvg target ext ps h1

/-- a `CoinSelect` on the heap (the recursive call) -/
abbrev RecH := (maxInputs minChange minAvg target : Int) → Heap → Slice → Res

/-- the recursive call of the top-up loop with its parameters computed from `allHigh` (the set object `H`):
    `newMaxInputs`, `newMinAvgValueAge` (rounded up), `newTargetValue` -/
def lowCall (rec : RecH) (minChange minAvg target : Int) (H : SetObj) (numLow : Nat) : Heap → Slice → Res :=
  let newTarget := target - H.totalValue
  let n := H.list.length
  let newMaxInputs : Nat := if n + numLow > numLow then numLow else n + numLow
  let needed := minAvg * ((n + numLow : Nat) : Int) - H.totalValueAge
  let q := Int.tdiv needed numLow
  let newMinAvg := if needed > 0 ∧ Int.tmod needed numLow ≠ 0 then q + 1 else q
  rec (newMaxInputs : Int) minChange newMinAvg newTarget

/-- the `for numLow := 1; …` top-up loop (fuel `m`) for a fixed `i`; `P` is `possibleCoins` -/
def loopLowH (rec : RecH) (maxInputs minChange minAvg target : Int) (P : Slice) (cutoff i : Nat) :
    Nat → Nat → Heap → Res
  | 0, _, h => (h, none)
  | m+1, numLow, h =>
    if !(numLow ≤ cutoff ∧ (numLow : Int) + ((i : Int) - cutoff) + 1 ≤ maxInputs) then (h, none) else
    let a := newCoinSet h (sub P cutoff (i + 1))          -- allHigh
    let r := lowCall rec minChange minAvg target (setAt a.1 a.2) numLow a.1 (sub P 0 cutoff)
    match r.2 with
    | some ls =>
      let c := coinsOf r.1 ls                              -- lowSelect.Coins()
      (pushAll a.2 (readPtrs c.1 c.2) c.1, some a.2)
    | none => loopLowH rec maxInputs minChange minAvg target P cutoff i m (numLow + 1) r.1

/-- the `for i := cutoffIndex; i < len(possibleCoins); i++` loop (fuel `k`) -/
def loopIH (g : Nat → Nat) (sched : Sched) (rec : RecH) (maxInputs minChange minAvg target : Int) (P : Slice)
    (cutoff : Nat) : Nat → Nat → Heap → Res
  | 0, _, h => (h, none)
  | k+1, i, h =>
    if i ≥ P.len then (h, none) else
    let r := minNumberH g sched maxInputs minChange target h (sub P cutoff (i + 1))
    match r.2 with
    | some hs =>
      let c := coinsOf r.1 hs                              -- highSelect.Coins()
      let e := newCoinSet c.1 c.2                          -- extendedCoins
      (extendH maxInputs minChange minAvg target e.2 (readPtrs e.1 (sub P 0 cutoff)) e.1, some e.2)
    | none =>
      let l := loopLowH rec maxInputs minChange minAvg target P cutoff i (cutoff + 1) 1 r.1
      match l.2 with
      | some x => (l.1, some x)
      | none => loopIH g sched rec maxInputs minChange minAvg target P cutoff k (i + 1) l.1

/-- one level of `MinPriorityCoinSelector.CoinSelect` -/
def minPriorityBodyH (g : Nat → Nat) (sched : Sched) (rec : RecH) : RecH :=
  fun maxInputs minChange minAvg target h s =>
    let c := copySlice g h s
    let h1 := sortH sched .valueAgeAsc c.1 c.2
    match (readCoins h1 c.2).findIdx? (fun c => c.valueAge ≥ minAvg) with
    | none => (h1, none)
    | some cutoff => loopIH g sched rec maxInputs minChange minAvg target c.2 cutoff (c.2.len + 1) cutoff h1

/-- `MinPriorityCoinSelector.CoinSelect`; `fuel` bounds the recursion depth as in the value-level model (each level
    works on the strictly shorter slice `possibleCoins[0:cutoffIndex]`, so `len(coins) + 1` always suffices) -/
def minPriorityH (g : Nat → Nat) (sched : Sched) : (fuel : Nat) → RecH
  | 0 => fun _ _ _ _ h _ => (h, none)
  | fuel+1 => minPriorityBodyH g sched (minPriorityH g sched fuel)

/-! ### variants the code does NOT use (negative witnesses) -/

/-- `sortedCoins := append(coins[:0], coins...)` instead of the copy: `coins[:0]` has the caller's array and capacity,
    so the `append` stores in place and the sort runs on the caller's array -/
def sortedSelectAliasing (k : Key) (g : Nat → Nat) (sched : Sched) (maxInputs minChange target : Int) (h : Heap)
    (s : Slice) : Res :=
  let c := append g h (sub s 0 0) (readPtrs h s)
  minIndexH maxInputs minChange target (sortH sched k c.1 c.2) c.2

/-- the top-up result built as `append(possibleCoins[cutoff:i+1], low...)` over a backing array `P` (a slice
    expression keeps the capacity of `P`, so the low coins are stored in place behind position `i`): returns the heap
    and the resulting slice -/
def topUpAliasing (g : Nat → Nat) (h : Heap) (P : Slice) (cutoff i : Nat) (low : List Nat) : Heap × Slice :=
  append g h (sub P cutoff (i + 1)) low

/-- a `PushCoin` that skips a coin object already in the list (pointer comparison): NOT what the code does -/
def pushCoinUnlessPresent (h : Heap) (cs p : Nat) : Heap :=
  if p ∈ (setAt h cs).list then h else pushCoin h cs p

end Bch.Model.CoinSetHeap
