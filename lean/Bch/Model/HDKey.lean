import Bch.Model.Base58
import Bch.Model.Wif
/-
Value-level model of /repo/hdkeychain/extendedkey.go (after fix ce84569).
External code is the parameter pack `HDExt Pt`: HMAC-SHA512, Hash160, double SHA-256 and the curve.
The point at infinity is `none` in `mulG`/`add` results (bchec represents it as (0,0)).
-/
namespace Bch.Model.HDKey
open Bch Bch.Model

structure HDExt (Pt : Type) where
  hmac512 : Bytes → Bytes → Bytes
  hash160 : Bytes → Bytes
  sha256d : Bytes → Bytes
  n : Nat
  mulG : Nat → Option Pt
  add : Pt → Pt → Option Pt
  /-- `bchec.ParsePubKey` on 33 bytes -/
  parse : Bytes → Option Pt
  serC : Pt → Bytes
  /-- what `SerializeCompressed` yields for the (0,0) stand-in of infinity -/
  serInf : Bytes

structure XKey where
  key : Bytes
  chainCode : Bytes
  depth : Nat
  parentFP : Bytes
  childNum : Nat
  version : Bytes
  isPrivate : Bool
  deriving DecidableEq, Repr

inductive Err
  | deriveHardFromPublic | deriveBeyondMaxDepth | notPrivExtKey | invalidChild | unusableSeed
  | invalidSeedLen | badChecksum | invalidKeyLen | other
  deriving DecidableEq, Repr

def hardenedKeyStart : Nat := 0x80000000
def masterKey : Bytes := Bytes.ofString "Bitcoin seed"

/-- registered `HDPrivateKeyToPublicKeyID` pairs -/
def hdPairs : List (Bytes × Bytes) :=
  [([0x04,0x88,0xad,0xe4], [0x04,0x88,0xb2,0x1e]),
   ([0x04,0x35,0x83,0x94], [0x04,0x35,0x87,0xcf]),
   ([0x04,0x20,0xb9,0x00], [0x04,0x20,0xbd,0x3a])]

section
variable {Pt : Type} (X : HDExt Pt)

def serOpt : Option Pt → Bytes
  | some p => X.serC p
  | none => X.serInf

def pubKeyBytes (k : XKey) : Bytes :=
  if !k.isPrivate then k.key else serOpt X (X.mulG (Bytes.toNatBE k.key))

/-- `copy(dst[off:], src)` into a zeroed buffer of `n` bytes -/
def copyInto (n off : Nat) (src : Bytes) : Bytes :=
  (List.replicate off 0 ++ src ++ List.replicate n 0).take n

def Child (k : XKey) (i : Nat) : Except Err XKey :=
  if k.depth = 255 then .error .deriveBeyondMaxDepth
  else
    let hardened := i ≥ hardenedKeyStart
    if !k.isPrivate ∧ hardened then .error .deriveHardFromPublic
    else
      let data33 := if hardened then copyInto 33 1 k.key else copyInto 33 0 (pubKeyBytes X k)
      let data := data33 ++ Bytes.ofNatBE 4 i
      let ilr := X.hmac512 k.chainCode data
      let il := ilr.take 32
      let cc := ilr.drop 32
      let ilNum := Bytes.toNatBE il
      if ilNum ≥ X.n ∨ ilNum = 0 then .error .invalidChild
      else
        let childKey : Except Err Bytes :=
          if k.isPrivate then
            let c := Bytes.ofNatMin ((ilNum + Bytes.toNatBE k.key) % X.n)
            .ok (List.replicate (32 - c.length) 0 ++ c)
          else
            match X.mulG ilNum with
            | none => .error .invalidChild
            | some ilp =>
              match X.parse k.key with
              | none => .error .other
              | some pk => .ok (serOpt X (X.add ilp pk))
        match childKey with
        | .error e => .error e
        | .ok ck =>
          .ok { key := ck, chainCode := cc, depth := k.depth + 1,
                parentFP := (X.hash160 (pubKeyBytes X k)).take 4, childNum := i,
                version := k.version, isPrivate := k.isPrivate }

def Neuter (k : XKey) : Except Err XKey :=
  if !k.isPrivate then .ok k
  else match hdPairs.lookup k.version with
    | none => .error .other
    | some v => .ok { k with key := pubKeyBytes X k, version := v, isPrivate := false }

def zeroedString : Bytes := Bytes.ofString "zeroed extended key"

def String (k : XKey) : Bytes :=
  if k.key.isEmpty then zeroedString
  else
    let s := k.version ++ [UInt8.ofNat k.depth] ++ k.parentFP ++ Bytes.ofNatBE 4 k.childNum ++ k.chainCode
    let s := if k.isPrivate then Wif.paddedAppend 32 (s ++ [0]) k.key else s ++ pubKeyBytes X k
    Base58.Encode (s ++ (X.sha256d s).take 4)

def NewMaster (seed : Bytes) (hdPriv : Bytes) : Except Err XKey :=
  if seed.length < 16 ∨ seed.length > 64 then .error .invalidSeedLen
  else
    let lr := X.hmac512 masterKey seed
    let sk := lr.take 32
    let num := Bytes.toNatBE sk
    if num ≥ X.n ∨ num = 0 then .error .unusableSeed
    else .ok { key := sk, chainCode := lr.drop 32, depth := 0, parentFP := [0,0,0,0], childNum := 0,
               version := hdPriv, isPrivate := true }

def NewKeyFromString (s : Bytes) : Except Err XKey :=
  let decoded := Base58.Decode s
  if decoded.length ≠ 82 then .error .invalidKeyLen
  else
    let payload := decoded.take 78
    if decoded.drop 78 ≠ (X.sha256d payload).take 4 then .error .badChecksum
    else
      let version := payload.take 4
      let depth := (payload.getD 4 0).toNat
      let parentFP := (payload.drop 5).take 4
      let childNum := Bytes.toNatBE ((payload.drop 9).take 4)
      let chainCode := (payload.drop 13).take 32
      let keyData := payload.drop 45
      if keyData.headD 1 = 0 then
        let kd := keyData.drop 1
        let num := Bytes.toNatBE kd
        if num ≥ X.n ∨ num = 0 then .error .unusableSeed
        else .ok ⟨kd, chainCode, depth, parentFP, childNum, version, true⟩
      else match X.parse keyData with
        | none => .error .other
        | some _ => .ok ⟨keyData, chainCode, depth, parentFP, childNum, version, false⟩

end
end Bch.Model.HDKey
