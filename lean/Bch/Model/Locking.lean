/-
Lock-discipline model for /repo/bloom/filter.go (C20). A method body is abstracted to the sequence of
actions relevant to the shared state: mutex operations, accesses to the shared message (directly or through
an unexported worker), and returns. The skeletons of the real methods are NOT written by hand: they are
extracted from the Go source on every run (Bch/Generated/Facts.lean) and checked by `Bch.Tie`.
-/
namespace Bch.Model.Locking

inductive Act
  | lock
  | unlock
  /-- a read or write of the shared `msgFilterLoad` (directly, or inside a called unexported worker) -/
  | access
  /-- a call that does not touch the shared state -/
  | skip
  | ret
  /-- control flow the extractor does not understand (mutex operation or return inside a branch/loop,
      call of an exported method while possibly holding the lock, …) -/
  | opaque
  deriving DecidableEq, Repr

/-- every access happens while the lock is held, the lock is never taken twice, never released when not
    held, and every return (and the end of the body) happens with the lock released -/
def wellBracketedFrom : Bool → List Act → Bool
  | held, [] => !held
  | held, .lock :: rest => !held && wellBracketedFrom true rest
  | held, .unlock :: rest => held && wellBracketedFrom false rest
  | held, .access :: rest => held && wellBracketedFrom held rest
  | held, .skip :: rest => wellBracketedFrom held rest
  | held, .ret :: _ => !held
  | _, .opaque :: _ => false

def wellBracketed (m : List Act) : Bool := wellBracketedFrom false m

end Bch.Model.Locking
