import Bch.Prim.Bytes
/-
Model of the memoising wrappers in /repo/block.go and tx.go (after fix e199915).
`wire` is external: its results for the wrapped message are the record `Wire`.
Object identity is modelled by handles (fresh natural numbers), so "repeated calls return the same object"
is a statement about handles.
-/
namespace Bch.Model.BlockCache
open Bch

structure Wire where
  ser : Bytes
  hash : Bytes
  txHashes : List Bytes
  txLocs : List (Nat × Nat)
  deriving Repr

/-- one wrapped transaction: its own handle and the handle of its cached hash (if computed) -/
structure TxW where
  handle : Nat
  hashHandle : Option Nat := none
  index : Int
  deriving Repr

structure St where
  /-- cached serialisation: (bytes, handle) -/
  serialized : Option (Bytes × Nat) := none
  blockHash : Option Nat := none
  /-- `nil`/empty slice = `none`; otherwise one slot per transaction -/
  txs : Option (List (Option TxW)) := none
  txnsGenerated : Bool := false
  next : Nat := 0
  deriving Repr

inductive Call | tx (i : Int) | transactions | txHash (i : Int) | hash | bytes | txLoc
  deriving Repr

inductive Res
  | tx (hash : Bytes) (index : Int) (handle : Nat)
  | outOfRange
  | txs (l : List (Bytes × Int × Nat))
  | hash (h : Bytes) (handle : Nat)
  | bytes (b : Bytes) (handle : Nat)
  | locs (l : List (Nat × Nat))
  deriving Repr

def numTx (W : Wire) : Nat := W.txHashes.length

/-- `Tx(txNum)` worker: returns the new state and the wrapper, or `none` when out of range -/
def getTx (W : Wire) (s : St) (i : Int) : St × Option TxW :=
  if i < 0 ∨ i.toNat ≥ numTx W then (s, none)
  else
    let k := i.toNat
    let slots := match s.txs with
      | some l => if l.isEmpty then List.replicate (numTx W) none else l
      | none => List.replicate (numTx W) none
    match slots.getD k none with
    | some w => ({ s with txs := some slots }, some w)
    | none =>
      let w : TxW := { handle := s.next, index := i }
      ({ s with txs := some (slots.set k (some w)), next := s.next + 1 }, some w)

/-- `tx.Hash()` on slot k -/
def hashOfTx (W : Wire) (s : St) (k : Nat) (w : TxW) : St × Bytes × Nat :=
  let v := W.txHashes.getD k []
  match w.hashHandle with
  | some h => (s, v, h)
  | none =>
    let w' := { w with hashHandle := some s.next }
    ({ s with txs := s.txs.map (·.set k (some w')), next := s.next + 1 }, v, s.next)

def fillAll (W : Wire) (s : St) : St :=
  let slots := match s.txs with
    | some l => if l.isEmpty then List.replicate (numTx W) none else l
    | none => List.replicate (numTx W) none
  let (slots, next) := slots.zipIdx.foldl (fun (acc : List (Option TxW) × Nat) (slot, i) =>
      match slot with
      | some w => (acc.1 ++ [some w], acc.2)
      | none => (acc.1 ++ [some { handle := acc.2, index := (i : Int) }], acc.2 + 1)) ([], s.next)
  { s with txs := some slots, next := next, txnsGenerated := true }

def getBytes (W : Wire) (s : St) : St × Bytes × Nat :=
  match s.serialized with
  | some (b, h) => if b.length ≠ 0 then (s, b, h) else ({ s with serialized := some (W.ser, s.next), next := s.next + 1 }, W.ser, s.next)
  | none => ({ s with serialized := some (W.ser, s.next), next := s.next + 1 }, W.ser, s.next)

def step (W : Wire) (s : St) : Call → St × Res
  | .tx i =>
    match getTx W s i with
    | (s, none) => (s, .outOfRange)
    | (s, some w) => (s, .tx (W.txHashes.getD i.toNat []) w.index w.handle)
  | .transactions =>
    let s := if s.txnsGenerated then s else fillAll W s
    let l := (s.txs.getD []).zipIdx.filterMap fun (slot, i) => slot.map fun w => (W.txHashes.getD i [], w.index, w.handle)
    (s, .txs l)
  | .txHash i =>
    match getTx W s i with
    | (s, none) => (s, .outOfRange)
    | (s, some w) =>
      let (s, v, h) := hashOfTx W s i.toNat w
      (s, .hash v h)
  | .hash =>
    match s.blockHash with
    | some h => (s, .hash W.hash h)
    | none => ({ s with blockHash := some s.next, next := s.next + 1 }, .hash W.hash s.next)
  | .bytes =>
    let (s, b, h) := getBytes W s
    (s, .bytes b h)
  | .txLoc =>
    let (s, _, _) := getBytes W s
    (s, .locs W.txLocs)

/-- constructors: which caches start populated -/
def initMsg : St := {}
def initBytes (consumedPrefix : Bytes) : St := { serialized := some (consumedPrefix, 0), next := 1 }

end Bch.Model.BlockCache
