import Bch.Model.Bech32
import Bch.Model.Base58
/-
A minimal Go slice / heap semantics, and the buffer-building paths of the codecs of
/repo/bech32/bech32.go, /repo/base58/base58.go and /repo/base58/base58check.go transcribed at that level
(which arrays are allocated, which are written, through which slice headers).  Used only for the purity
clause of C07 ("none of these functions modifies memory reachable from its arguments"); all *contents*
are computed by the value-level models `Model/Bech32.lean`, `Model/Base58.lean`.

* The heap is the list of all `[]byte` backing arrays allocated so far; arrays are never freed or moved
  and their length never changes.
* A slice header is (array index, offset, len, cap) as in Go; `s[len:cap]` is the spare capacity.
* `append(s, xs...)`: when `len(s)+len(xs) ≤ cap(s)` the elements are stored in place behind the slice
  (into memory that other slice headers of the same array can see) and the extended header is returned;
  otherwise a new array is allocated, holding the old elements, `xs`, and an unspecified amount of extra
  capacity.  The Go specification leaves the growth policy open; here it is a parameter `g` (extra
  capacity as a function of the needed length) and every theorem quantifies over it.
-/
namespace Bch.Model.SliceHeap
open Bch

abbrev Heap := List (List UInt8)

structure Slice where
  buf : Nat
  off : Nat
  len : Nat
  cap : Nat
  deriving DecidableEq, Repr

/-- the nil slice (`var s []byte`): no backing array is ever touched through it because `cap = 0` -/
def Slice.nil : Slice := ⟨0, 0, 0, 0⟩

/-- the backing array of index `b` (`[]` if there is none) -/
def arr (h : Heap) (b : Nat) : List UInt8 := h.getD b []

/-- the elements `s[0:len(s)]` -/
def read (h : Heap) (s : Slice) : List UInt8 := ((arr h s.buf).drop s.off).take s.len

/-- store `xs` at positions `pos, pos+1, …` of an array (stores outside the array do not happen in Go —
they panic — and are no-ops here, so an array never changes its length) -/
def writeAt : List UInt8 → Nat → List UInt8 → List UInt8
  | a, _, [] => a
  | a, pos, x :: xs => writeAt (a.set pos x) (pos + 1) xs

/-- `make([]byte, n, c)`: a fresh zeroed array of `c` bytes -/
def make (h : Heap) (n c : Nat) : Heap × Slice :=
  (h ++ [List.replicate c 0], ⟨h.length, 0, n, c⟩)

/-- `append(s, xs...)` with growth policy `g`. The elements `xs` have been read before the call
(Go's `append` has `memmove` semantics when source and destination overlap). -/
def append (g : Nat → Nat) (h : Heap) (s : Slice) (xs : List UInt8) : Heap × Slice :=
  if s.len + xs.length ≤ s.cap then
    (h.modify s.buf (fun a => writeAt a (s.off + s.len) xs), { s with len := s.len + xs.length })
  else
    let n := s.len + xs.length
    (h ++ [read h s ++ xs ++ List.replicate (g n) 0], ⟨h.length, 0, n, n + g n⟩)

/-- `for _, x := range xs { s = append(s, x) }` -/
def appendEach (g : Nat → Nat) (h : Heap) (s : Slice) : List UInt8 → Heap × Slice
  | [] => (h, s)
  | x :: xs => let r := append g h s [x]; appendEach g r.1 r.2 xs

/-- `s[i], s[j] = s[j], s[i]` (indices relative to the slice, both `< len(s)`) -/
def swap (h : Heap) (s : Slice) (i j : Nat) : Heap :=
  let vi := (read h s).getD i 0
  let vj := (read h s).getD j 0
  h.modify s.buf (fun a => (a.set (s.off + i) vj).set (s.off + j) vi)

/-! ## bech32 -/

/-- `bech32Checksum`: `var res []byte; for i := 0; i < 6; i++ { res = append(res, …) }`.
(`integers`, `values` are `[]int` temporaries built from copies of `data`; they cannot alias a `[]byte`.) -/
def checksumBuf (g : Nat → Nat) (h : Heap) (hrp : Bytes) (data : Slice) : Heap × Slice :=
  appendEach g h Slice.nil (Bech32.checksum hrp (read h data))

/-- the loop of `toChars`; on an invalid byte the function returns early with the error (`none`) -/
def toCharsGo (g : Nat → Nat) (h : Heap) (res : Slice) : List UInt8 → Heap × Option Slice
  | [] => (h, some res)
  | b :: bs =>
    if b.toNat ≥ 32 then (h, none)
    else let r := append g h res [Bech32.charset.getD b.toNat 0]; toCharsGo g r.1 r.2 bs

/-- `toChars`: `result := make([]byte, 0, len(data)); for _, b := range data { … result = append(result, charset[b]) }` -/
def toCharsBuf (g : Nat → Nat) (h : Heap) (data : Slice) : Heap × Option Slice :=
  let r := make h 0 data.len
  toCharsGo g r.1 r.2 (read h data)

/-- The repaired `bech32.Encode` (commit 6c4af82) up to and including `toChars(combined)`:
```
checksum := bech32Checksum(hrp, data)
combined := make([]byte, 0, len(data)+len(checksum))
combined = append(combined, data...)
combined = append(combined, checksum...)
dataChars, err := toChars(combined)
```
Returns the final heap, the slice `combined` and the slice `result` of `toChars` (`none` = error); the
returned Go string is `hrp + "1" + string(result)` (string conversion and concatenation copy). -/
def EncodeFixed (g : Nat → Nat) (h : Heap) (hrp : Bytes) (data : Slice) : Heap × Slice × Option Slice :=
  let c := checksumBuf g h hrp data
  let m := make c.1 0 (data.len + c.2.len)
  let a1 := append g m.1 m.2 (read m.1 data)
  let a2 := append g a1.1 a1.2 (read a1.1 c.2)
  let t := toCharsBuf g a2.1 a2.2
  (t.1, a2.2, t.2)

/-- `bech32.Encode` before commit 6c4af82: `combined := append(data, checksum...)`. -/
def EncodeAliasing (g : Nat → Nat) (h : Heap) (hrp : Bytes) (data : Slice) : Heap × Slice × Option Slice :=
  let c := checksumBuf g h hrp data
  let a := append g c.1 data (read c.1 c.2)
  let t := toCharsBuf g a.1 a.2
  (t.1, a.2, t.2)

/-- state of the `ConvertBits` loop with the output slice `regrouped` on the heap -/
structure CBH where
  h : Heap
  out : Slice
  nextByte : UInt8
  filled : Nat

/-- `Bech32.cbInner` with `regrouped = append(regrouped, nextByte)` done on the heap -/
def cbInnerH (g : Nat → Nat) (toBits : Nat) : (fuel : Nat) → (rem : Nat) → (b : UInt8) → CBH → CBH
  | 0, _, _, st => st
  | fuel+1, rem, b, st =>
    if rem = 0 then st else
    let remTo := toBits - st.filled
    let ex := if remTo < rem then remTo else rem
    let nb := (st.nextByte <<< UInt8.ofNat ex) ||| (b >>> UInt8.ofNat (8 - ex))
    let b' := b <<< UInt8.ofNat ex
    let filled := st.filled + ex
    let st' : CBH :=
      if filled = toBits then let r := append g st.h st.out [nb]; ⟨r.1, r.2, 0, 0⟩
      else ⟨st.h, st.out, nb, filled⟩
    cbInnerH g toBits fuel (rem - ex) b' st'

/-- `ConvertBits` with `var regrouped []byte` (the nil slice) grown by `append` on the heap; the input
slice `data` is only read (`for _, b := range data` evaluates `data` once, `b` is a copy). -/
def ConvertBitsH (g : Nat → Nat) (h : Heap) (data : Slice) (fromBits toBits : Nat) (pad : Bool) :
    Heap × Except Bech32.CBErr Slice :=
  if fromBits < 1 ∨ fromBits > 8 ∨ toBits < 1 ∨ toBits > 8 then (h, .error .groups)
  else
    let st := (read h data).foldl
      (fun st b => cbInnerH g toBits 8 fromBits (b <<< UInt8.ofNat (8 - fromBits)) st) ⟨h, Slice.nil, 0, 0⟩
    let st := if pad ∧ st.filled > 0 then
        (let r := append g st.h st.out [st.nextByte <<< UInt8.ofNat (toBits - st.filled)]; ⟨r.1, r.2, 0, 0⟩ : CBH)
      else st
    if st.filled > 0 ∧ (st.filled > 4 ∨ st.nextByte ≠ 0) then (st.h, .error .incomplete)
    else (st.h, .ok st.out)

/-! ## Base58 / Base58Check -/

/-- the in-place reversal loop `for i := 0; i < alen/2; i++ { answer[i], answer[alen-1-i] = answer[alen-1-i], answer[i] }` -/
def reverseLoop (h : Heap) (s : Slice) : Heap :=
  (List.range (s.len / 2)).foldl (fun h i => swap h s i (s.len - 1 - i)) h

/-- `base58.Encode`'s buffer: `answer := make([]byte, 0, len(b)*136/100)`, one `append` per digit (least
significant first), one per leading zero byte of `b`, then the in-place reversal of `answer`.
`x.SetBytes(b)` copies `b` into the big integer's own words. Returns the heap and `answer`. -/
def Base58EncodeBuf (g : Nat → Nat) (h : Heap) (b : Slice) : Heap × Slice :=
  let bs := read h b
  let m := make h 0 (b.len * 136 / 100)
  let a1 := appendEach g m.1 m.2 ((Base58.digitsLE (Bytes.toNatBE bs)).map Base58.alphaAt)
  let a2 := appendEach g a1.1 a1.2 (List.replicate (Base58.leadingZeros bs) 49)
  (reverseLoop a2.1 a2.2, a2.2)

section
variable (H : Bytes → Bytes)   -- double SHA-256

/-- `CheckEncode`:
```
b := make([]byte, 0, 1+len(input)+4)
b = append(b, version)
b = append(b, input[:]...)
cksum := checksum(b)          // a [4]byte value
b = append(b, cksum[:]...)
return Encode(b)
```
Returns the final heap, the slice `b` and `Encode`'s slice `answer`. -/
def CheckEncodeBuf (g : Nat → Nat) (h : Heap) (input : Slice) (version : UInt8) : Heap × Slice × Slice :=
  let m := make h 0 (1 + input.len + 4)
  let a1 := append g m.1 m.2 [version]
  let a2 := append g a1.1 a1.2 (read a1.1 input)
  let a3 := append g a2.1 a2.2 (Base58.checksum H (read a2.1 a2.2))
  let e := Base58EncodeBuf g a3.1 a3.2
  (e.1, a3.2, e.2)

end
end Bch.Model.SliceHeap
