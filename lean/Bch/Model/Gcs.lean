import Bch.Prim.Bytes
/-
Model of /repo/gcs/gcs.go (after fixes 8237c21, ccc0aee) and of the kkdai/bstream bit stream it uses.
The bit stream is an MSB-first `List Bool`; see DESIGN C13 for why this is exact for the byte-straddling
ReadByte/WriteOneByte paths. `uint64` arithmetic is `UInt64`. SipHash is the parameter `sip`.
-/
namespace Bch.Model.Gcs
open Bch

def fastReduction (v nHi nLo : UInt64) : UInt64 :=
  let m32 : UInt64 := 0xffffffff
  let vhi : UInt64 := v >>> 32
  let vlo : UInt64 := v &&& m32
  let vnphi : UInt64 := vhi * nHi
  let vnpmid : UInt64 := vhi * nLo
  let npvmid : UInt64 := nHi * vlo
  let vnplo : UInt64 := vlo * nLo
  let carry : UInt64 := ((vnpmid &&& m32) + (npvmid &&& m32) + (vnplo >>> 32)) >>> 32
  vnphi + (vnpmid >>> 32) + (npvmid >>> 32) + carry

def hashToRange (sip : Bytes → UInt64) (modulusNP : UInt64) (d : Bytes) : UInt64 :=
  fastReduction (sip d) (modulusNP >>> 32) (modulusNP &&& 0xffffffff)

structure Filter where
  n : Nat
  p : Nat
  modulusNP : UInt64
  data : Bytes
  deriving DecidableEq, Repr

/-- the `count` low bits of `x`, most significant first (`WriteBits`) -/
def bitsOf : Nat → Nat → List Bool
  | 0, _ => []
  | c+1, x => Nat.testBit x c :: bitsOf c x

/-- unary quotient, a zero, `p`-bit remainder -/
def encodeDelta (p : Nat) (delta : UInt64) : List Bool :=
  let rem := delta &&& (((1 : UInt64) <<< UInt64.ofNat p) - 1)
  let q := (delta - rem) >>> UInt64.ofNat p
  List.replicate q.toNat true ++ false :: bitsOf p rem.toNat

def encodeSorted (p : Nat) : UInt64 → List UInt64 → List Bool
  | _, [] => []
  | last, v :: vs => encodeDelta p (v - last) ++ encodeSorted p v vs

def byteOfBits (bs : List Bool) : UInt8 :=
  (bs ++ List.replicate 8 false).take 8 |>.foldl (fun acc b => acc * 2 + (if b then 1 else 0)) 0

/-- `bstream.Bytes()`: zero padded to a whole byte -/
def packBits : List Bool → Bytes
  | [] => []
  | b :: bs => byteOfBits (b :: bs.take 7) :: packBits (bs.drop 7)
termination_by l => l.length
decreasing_by simp only [List.length_drop, List.length_cons]; omega

def unpackBits (bytes : Bytes) : List Bool :=
  bytes.flatMap fun b => (List.range 8).map fun i => b.toNat.testBit (7 - i)

inductive BuildErr | nTooBig | pTooBig deriving DecidableEq, Repr

def sortU64 (l : List UInt64) : List UInt64 := l.mergeSort (fun a b => a ≤ b)

def BuildGCSFilter (sip : Bytes → UInt64) (P : Nat) (M : UInt64) (data : List Bytes) : Except BuildErr Filter :=
  if data.length ≥ 2^32 then .error .nTooBig
  else if P > 32 then .error .pTooBig
  else
    let n := data.length
    let modNP := UInt64.ofNat n * M
    if n = 0 then .ok ⟨0, P, modNP, []⟩
    else
      let values := sortU64 (data.map (hashToRange sip modNP))
      .ok ⟨n, P, modNP, packBits (encodeSorted P 0 values)⟩

def FromBytes (N : Nat) (P : Nat) (M : UInt64) (d : Bytes) : Except BuildErr Filter :=
  if P > 32 then .error .pTooBig else .ok ⟨N, P, UInt64.ofNat N * M, d⟩

/-- `ReadBits(count)`: `none` = EOF -/
def readBits : Nat → List Bool → UInt64 → Option (UInt64 × List Bool)
  | 0, bs, acc => some (acc, bs)
  | _+1, [], _ => none
  | c+1, b :: bs, acc => readBits c bs (acc * 2 + (if b then 1 else 0))

/-- the unary part: number of leading ones, then the terminating zero is consumed -/
def readUnary : List Bool → UInt64 → Option (UInt64 × List Bool)
  | [], _ => none
  | false :: bs, q => some (q, bs)
  | true :: bs, q => readUnary bs (q + 1)

/-- `readFullUint64`: `none` = io.EOF -/
def readFull (p : Nat) (bs : List Bool) : Option (UInt64 × List Bool) :=
  match readUnary bs 0 with
  | none => none
  | some (q, bs) =>
    match readBits p bs 0 with
    | none => none
    | some (r, bs) => some ((q <<< UInt64.ofNat p) + r, bs)

/-- the `for i < N` loop of `Match` -/
def matchLoop (p : Nat) (term : UInt64) : Nat → List Bool → UInt64 → Bool
  | 0, _, _ => false
  | n+1, bs, value =>
    match readFull p bs with
    | none => false
    | some (delta, bs) =>
      let value := value + delta
      if value = term then true
      else if value > term then false
      else matchLoop p term n bs value

def Match (sip : Bytes → UInt64) (f : Filter) (d : Bytes) : Bool :=
  matchLoop f.p (hashToRange sip f.modulusNP d) f.n (unpackBits f.data) 0

/-- inner `for` of `ZipMatchAny`: advance the query cursor; `some true/false` = return, `none` = continue out -/
def zipAdvance (value : UInt64) : List UInt64 → Option Bool × List UInt64
  | [] => (some false, [])
  | q :: qs =>
    if q = value then (some true, q :: qs)
    else if q > value then (none, q :: qs)
    else zipAdvance value qs

def zipLoop (p : Nat) : Nat → List Bool → UInt64 → List UInt64 → Bool
  | 0, _, _, _ => false
  | n+1, bs, value, qs =>
    match readFull p bs with
    | none => false
    | some (delta, bs) =>
      let value := value + delta
      match zipAdvance value qs with
      | (some r, _) => r
      | (none, qs) => zipLoop p n bs value qs

def ZipMatchAny (sip : Bytes → UInt64) (f : Filter) (data : List Bytes) : Bool :=
  if data.isEmpty then false
  else zipLoop f.p f.n (unpackBits f.data) 0 (sortU64 (data.map (hashToRange sip f.modulusNP)))

/-- decode until EOF (fuel = number of bits + 1: every value consumes at least one bit) -/
def decodeAll (p : Nat) : Nat → List Bool → UInt64 → List UInt64
  | 0, _, _ => []
  | fuel+1, bs, last =>
    match readFull p bs with
    | none => []
    | some (delta, bs) => (last + delta) :: decodeAll p fuel bs (last + delta)

def HashMatchAny (sip : Bytes → UInt64) (f : Filter) (data : List Bytes) : Bool :=
  if data.isEmpty then false
  else
    let bits := unpackBits f.data
    let values := decodeAll f.p (bits.length + 1) bits 0
    data.any fun d => values.contains (hashToRange sip f.modulusNP d)

def MatchAny (sip : Bytes → UInt64) (f : Filter) (data : List Bytes) : Bool :=
  if data.length ≥ f.n / 2 then HashMatchAny sip f data else ZipMatchAny sip f data

/-- wire.WriteVarInt (CompactSize) -/
def writeVarInt (v : Nat) : Bytes :=
  if v < 0xfd then [UInt8.ofNat v]
  else if v ≤ 0xffff then 0xfd :: Bytes.ofNatLE 2 v
  else if v ≤ 0xffffffff then 0xfe :: Bytes.ofNatLE 4 v
  else 0xff :: Bytes.ofNatLE 8 v

/-- wire.ReadVarInt incl. the canonical-encoding check; `none` = error -/
def readVarInt : Bytes → Option (Nat × Bytes)
  | [] => none
  | d :: rest =>
    if d = 0xff then
      if rest.length < 8 then none else
      let v := Bytes.toNatLE (rest.take 8)
      if v < 0x100000000 then none else some (v, rest.drop 8)
    else if d = 0xfe then
      if rest.length < 4 then none else
      let v := Bytes.toNatLE (rest.take 4)
      if v < 0x10000 then none else some (v, rest.drop 4)
    else if d = 0xfd then
      if rest.length < 2 then none else
      let v := Bytes.toNatLE (rest.take 2)
      if v < 0xfd then none else some (v, rest.drop 2)
    else some (d.toNat, rest)

inductive FromErr | varint | nTooBig | pTooBig deriving DecidableEq, Repr

def FromNBytes (P : Nat) (M : UInt64) (d : Bytes) : Except FromErr Filter :=
  match readVarInt d with
  | none => .error .varint
  | some (N, rest) =>
    if N ≥ 2^32 then .error .nTooBig
    else match FromBytes N P M rest with
      | .ok f => .ok f
      | .error _ => .error .pTooBig

def NBytes (f : Filter) : Bytes := writeVarInt f.n ++ f.data
def PBytes (f : Filter) : Bytes := UInt8.ofNat f.p :: f.data
def NPBytes (f : Filter) : Bytes := writeVarInt f.n ++ UInt8.ofNat f.p :: f.data

end Bch.Model.Gcs
