import Bch.Prim.Bytes
/-
Model of /repo/bloom/murmurhash3.go and the filter core of /repo/bloom/filter.go (after fix e6b8a4b).
`uint32` arithmetic is `UInt32` (wrap-around is part of the behaviour).
-/
namespace Bch.Model.Bloom
open Bch

def rotl32 (x : UInt32) (r : UInt32) : UInt32 := (x <<< r) ||| (x >>> (32 - r))

def le32 (a b c d : UInt8) : UInt32 :=
  a.toUInt32 ||| (b.toUInt32 <<< 8) ||| (c.toUInt32 <<< 16) ||| (d.toUInt32 <<< 24)

def mixK (k : UInt32) : UInt32 := rotl32 (k * 0xcc9e2d51) 15 * 0x1b873593

/-- block loop + tail; returns the hash before finalisation -/
def murmurBody : UInt32 → Bytes → UInt32
  | h, a :: b :: c :: d :: rest =>
    let h := h ^^^ mixK (le32 a b c d)
    let h := rotl32 h 13
    murmurBody (h * 5 + 0xe6546b64) rest
  | h, [a, b, c] => h ^^^ mixK ((c.toUInt32 <<< 16) ^^^ (b.toUInt32 <<< 8) ^^^ a.toUInt32)
  | h, [a, b] => h ^^^ mixK ((b.toUInt32 <<< 8) ^^^ a.toUInt32)
  | h, [a] => h ^^^ mixK a.toUInt32
  | h, [] => h

def fmix (h : UInt32) : UInt32 :=
  let h := h ^^^ (h >>> 16)
  let h := h * 0x85ebca6b
  let h := h ^^^ (h >>> 13)
  let h := h * 0xc2b2ae35
  h ^^^ (h >>> 16)

def MurmurHash3 (seed : UInt32) (data : Bytes) : UInt32 :=
  fmix (murmurBody seed data ^^^ UInt32.ofNat data.length)

structure Msg where
  bits : Bytes
  nHash : Nat
  tweak : UInt32
  flags : Nat
  deriving DecidableEq, Repr

/-- `nil` message = unloaded -/
abbrev Filter := Option Msg

def hashIdx (m : Msg) (i : Nat) (data : Bytes) : Nat :=
  let mm := MurmurHash3 (UInt32.ofNat i * 0xfba4c795 + m.tweak) data
  (mm % (UInt32.ofNat m.bits.length <<< 3)).toNat

def testBit (bits : Bytes) (idx : Nat) : Bool :=
  (bits.getD (idx >>> 3) 0) &&& ((1 : UInt8) <<< UInt8.ofNat (idx &&& 7)) ≠ 0

def setBit (bits : Bytes) (idx : Nat) : Bytes :=
  bits.modify (idx >>> 3) (· ||| ((1 : UInt8) <<< UInt8.ofNat (idx &&& 7)))

def matchesMsg (m : Msg) (data : Bytes) : Bool :=
  if m.bits.isEmpty then true
  else (List.range m.nHash).all fun i => testBit m.bits (hashIdx m i data)

def Matches (f : Filter) (data : Bytes) : Bool :=
  match f with
  | none => false
  | some m => matchesMsg m data

def addMsg (m : Msg) (data : Bytes) : Msg :=
  if m.bits.isEmpty then m
  else { m with bits := (List.range m.nHash).foldl (fun bits i => setBit bits (hashIdx m i data)) m.bits }

def add (f : Filter) (data : Bytes) : Filter := f.map (addMsg · data)

def outPointBytes (hash : Bytes) (idx : Nat) : Bytes := hash ++ Bytes.ofNatLE 4 idx

def matchesOutPoint (f : Filter) (hash : Bytes) (idx : Nat) : Bool := Matches f (outPointBytes hash idx)
def addOutPoint (f : Filter) (hash : Bytes) (idx : Nat) : Filter := add f (outPointBytes hash idx)

/-- operations of the public API that the histories of C09 range over -/
inductive Op
  | add (d : Bytes) | addHash (h : Bytes) | addOutPoint (h : Bytes) (i : Nat)
  | query (d : Bytes) | queryOutPoint (h : Bytes) (i : Nat)
  | reload (m : Msg) | unload | isLoaded
  deriving Repr

/-- one step: new state and the answer (for queries) -/
def step (f : Filter) : Op → Filter × Option Bool
  | .add d => (add f d, none)
  | .addHash h => (add f h, none)
  | .addOutPoint h i => (addOutPoint f h i, none)
  | .query d => (f, some (Matches f d))
  | .queryOutPoint h i => (f, some (matchesOutPoint f h i))
  | .reload m => (some m, none)
  | .unload => (none, none)
  | .isLoaded => (f, some f.isSome)

/-- the two clamps of `NewFilter` given the raw float→uint32 conversion results -/
def sizing (dataLenRaw hashFuncsRaw : Nat) : Nat × Nat :=
  (min dataLenRaw (36000 * 8) / 8, min hashFuncsRaw 50)

end Bch.Model.Bloom
