import Bch.Prim.F64
/-
Model of /repo/amount.go (after fixes cdab29b, 07f67e3). float64 values are their bit patterns;
arithmetic is the exact-then-round-once IEEE-754 binary64 of Prim/F64 (no FMA: true of amd64).
`math.Round`, `math.Pow10` and `strconv.FormatFloat` are external; Prim/F64 mirrors them.
-/
namespace Bch.Model.Amount
open Bch.Prim

/-- Go's float64→int64 conversion; amd64 yields the "integer indefinite" value for NaN / out of range -/
def toInt64 (f : UInt64) : Int :=
  match F64.truncToInt f with
  | none => -(2^63 : Int)
  | some v => if v < -(2^63 : Int) ∨ v ≥ (2^63 : Int) then -(2^63 : Int) else v

def round (f : UInt64) : Int := toInt64 (F64.roundHalfAway f)

def satoshiPerBitcoin : UInt64 := F64.ofInt 100000000

def NewAmount (f : UInt64) : Option Int :=
  if F64.isNaN f || F64.isInf f then none
  else some (round (F64.mul f satoshiPerBitcoin))

def ToUnit (a : Int) (u : Int) : UInt64 :=
  let exp := u + 8
  if exp < 0 then F64.mul (F64.ofInt a) (F64.pow10 (-exp))
  else F64.div (F64.ofInt a) (F64.pow10 exp)

def ToBCH (a : Int) : UInt64 := ToUnit a 0

def unitString (u : Int) : String :=
  if u = 6 then "MBCH" else if u = 3 then "kBCH" else if u = 0 then "BCH"
  else if u = -3 then "mBCH" else if u = -6 then "μBCH" else if u = -8 then "Satoshi"
  else "1e" ++ toString u ++ " BCH"

def Format (a : Int) (u : Int) : String :=
  F64.formatF (ToUnit a u) (-(u + 8)) ++ " " ++ unitString u

def MulF64 (a : Int) (f : UInt64) : Int := round (F64.mul (F64.ofInt a) f)

end Bch.Model.Amount
