import Bch.Prim.Bytes
/-
Model of /repo/txsort/txsort.go. `sort.Sort` is a parameter in the theorems (contract: permutation,
sorted w.r.t. the strict weak order); the driver uses Go's stable insertion sort (what sort.Sort does for
n ≤ 12; for larger n the harness only generates pairwise distinct keys, where every correct sort agrees).
-/
namespace Bch.Model.TxSort
open Bch

structure TxIn where
  hash : Bytes
  index : Nat
  tag : Nat          -- stands for the remaining fields (signature script, sequence)
  deriving DecidableEq, Repr

structure TxOut where
  value : Int
  script : Bytes
  deriving DecidableEq, Repr

/-- `bytes.Compare(a, b) < 0`: byte-wise lexicographic, a proper prefix is smaller -/
def bytesLt : Bytes → Bytes → Bool
  | [], [] => false
  | [], _ :: _ => true
  | _ :: _, [] => false
  | a :: as, b :: bs => if a < b then true else if a > b then false else bytesLt as bs

def lessIn (a b : TxIn) : Bool :=
  if a.hash = b.hash then a.index < b.index
  else bytesLt a.hash.reverse b.hash.reverse

def lessOut (a b : TxOut) : Bool :=
  if a.value = b.value then bytesLt a.script b.script else a.value < b.value

/-- Go `insertionSort`: insert x into an already sorted prefix, moving left while `less x y` -/
def insertBy (less : α → α → Bool) (x : α) : List α → List α
  | [] => [x]
  | y :: ys => if less x y then x :: y :: ys else y :: insertBy less x ys

/-- Go's insertion sort: elements are taken left to right and inserted into the sorted prefix behind every
    element that is not greater (so equal keys keep their order: stable) -/
def sortBy (less : α → α → Bool) (l : List α) : List α :=
  l.foldl (fun acc x => insertBy less x acc) []

/-- `sort.IsSorted`: no adjacent inversion -/
def isSortedBy (less : α → α → Bool) : List α → Bool
  | [] => true
  | [_] => true
  | a :: b :: rest => !less b a && isSortedBy less (b :: rest)

structure Tx where
  ins : List TxIn
  outs : List TxOut
  deriving DecidableEq, Repr

def SortTx (tx : Tx) : Tx := ⟨sortBy lessIn tx.ins, sortBy lessOut tx.outs⟩
def IsSorted (tx : Tx) : Bool := isSortedBy lessIn tx.ins && isSortedBy lessOut tx.outs

/-! `Sort` works on a deep copy and returns it; `InPlaceSort` sorts the transaction it is given. With the caller's
transaction as the state: -/

/-- `Sort(tx)`: the caller's transaction stays what it was, the sorted copy is returned -/
def sortCopy (caller : Tx) : Tx × Tx := (caller, SortTx caller)

/-- `InPlaceSort(tx)`: the caller's transaction becomes the sorted one -/
def InPlaceSort (caller : Tx) : Tx := SortTx caller

end Bch.Model.TxSort
