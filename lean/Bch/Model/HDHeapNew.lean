import Bch.Model.HDHeap
/-
Extension of the heap-level model `Model/HDHeap.lean` by the raw exported constructor

    NewExtendedKey(version, key, chainCode, parentFP []byte, depth uint8, childNum uint32, isPrivate bool)

of /repo/hdkeychain/extendedkey.go:124-138, which stores the caller's four slices AS THEY ARE (no copy),
and by the caller as an actor that owns buffers and may write through them.

What the Go code does with a raw-constructed key afterwards (read off the source, lines 148-476):
* `pubKeyBytes()` of a PRIVATE key memoises into `k.pubKey` a buffer freshly allocated by
  `SerializeCompressed` — library-owned memory, exactly `HDHeap.pubKeyBytesH`; for a PUBLIC key it
  returns `k.key` (the caller's buffer) to read-only internal users.
* `Child` reads `k.key`/`k.chainCode` (HMAC key, `copy` into a fresh `data`), and builds the child from a
  fresh HMAC output, a fresh key and a fresh Hash160 output — exactly `HDHeap.childH` — BUT it passes
  `k.version` on BY REFERENCE: the child's version slice is the parent's version slice, i.e. the caller's
  buffer. The library never writes through a version slice (`Zero` sets it to nil, `SetNet` replaces it,
  `String` copies it), so this sharing is invisible in `HDHeap` (versions by value) — but a caller who
  overwrites the version buffer it passed changes the serialisation of every `Child`-descendant that has
  not been `SetNet`-ed. This model tracks it: `NState.vers`.
* `Neuter` (after fix ce84569) copies pubKey, chainCode and parentFP and takes the version from a global
  table — exactly `HDHeap.neuterH`; on a public key it returns the same object.
* `Zero` writes zeros through `k.key`, `k.pubKey`, `k.chainCode`, `k.parentFP` — for a raw-constructed
  key these are the caller's buffers — and keeps the (zero-filled) `chainCode`/`parentFP` slices.

Not modelled (as in `HDHeap`): `NewMaster` and `SetNet` store `net.HDPrivateKeyID[:]`, a slice of the array
inside the caller's `*chaincfg.Params`; versions set this way are treated as immutable global tables.

`depth`/`childNum` are `Nat` here (the Go types `uint8`/`uint32` bound them; the value-level model does
not depend on the bounds).
-/
namespace Bch.Model.HDHeapNew
open Bch Bch.Model Bch.Model.HDKey Bch.Model.HDHeap

/-- `copy(b[r.off : r.off+r.len], data)` on one buffer: positions of the slice that exist in `b` and for
which `data` has a byte are overwritten -/
def writeBuf (r : Ref) (data b : Bytes) : Bytes :=
  b.zipIdx.map fun (x, n) => if r.off ≤ n ∧ n < r.off + r.len then data.getD (n - r.off) x else x

/-- the caller writes `data` through its slice `r` (`copy(r, data)`) -/
def writeH (h : Heap) (r : Ref) (data : Bytes) : Heap :=
  { h with bufs := h.bufs.modify r.buf (writeBuf r data) }

/-- `NewExtendedKey`: nothing is allocated, nothing is copied; the three writable fields of the new key
ARE the slices passed in, `pubKey` is nil. (The version slice is shared too; `HKey` holds versions by
value, the alias is recorded in `NState.vers` by `newExtendedKeyN`.) -/
def newExtendedKeyH (h : Heap) (version key chainCode parentFP : Ref) (depth childNum : Nat)
    (isPrivate : Bool) : Heap × Nat :=
  h.addKey ⟨key, Ref.nil, chainCode, parentFP, h.read version, depth, childNum, isPrivate⟩

/-- heap + what the caller holds -/
structure NState where
  heap : Heap := {}
  /-- buffers allocated by the caller (the caller can slice them as it likes) -/
  cbufs : List Nat := []
  /-- handles of the keys made by `NewExtendedKey` -/
  raw : List Nat := []
  /-- `(j, r)`: the version field of key `j` IS the caller's slice `r` -/
  vers : List (Nat × Ref) := []
  deriving Repr

/-- the caller's slice that key `j`'s version field is, if any -/
def aliasOf (vers : List (Nat × Ref)) (j : Nat) : Option Ref := (vers.find? (·.1 == j)).map (·.2)

def resyncKey (h : Heap) (vers : List (Nat × Ref)) (j : Nat) (k : HKey) : HKey :=
  match aliasOf vers j with
  | some r => { k with version := h.read r }
  | none => k

/-- versions are held by value in `HKey`; after every step the value of an aliased version field is
re-read from the caller's slice it is -/
def resync (s : NState) : NState :=
  { s with heap := { s.heap with keys := s.heap.keys.zipIdx.map fun (k, j) => resyncKey s.heap s.vers j k } }

/-- what a library call does to the version aliases -/
inductive VerEffect
  | inherit (parent : Nat)   -- `Child`: the new key gets the parent's version slice
  | drop (i : Nat)           -- `SetNet`, `Zero`: the version slice of key `i` is replaced
  | keep

/-- lift a library call (its result on the heap) to `NState` -/
def libN (s : NState) (r : Heap × OpRes) (e : VerEffect) : NState :=
  resync { s with
    heap := r.1
    vers := match e, r.2 with
      | .inherit i, .key j =>
        match aliasOf s.vers i with
        | some v => (j, v) :: s.vers
        | none => s.vers
      | .drop i, _ => s.vers.filter (·.1 != i)
      | _, _ => s.vers }

section
variable {Pt : Type} (X : HDExt Pt)

def newMasterN (s : NState) (seed hdPriv : Bytes) : NState := libN s (newMasterH X s.heap seed hdPriv) .keep
def parseN (s : NState) (i : Nat) : NState :=
  libN s (newKeyFromStringH X s.heap (stringH X s.heap i)) .keep
def childN (s : NState) (i idx : Nat) : NState := libN s (childH X s.heap i idx) (.inherit i)
def neuterN (s : NState) (i : Nat) : NState := libN s (neuterH X s.heap i) .keep
def pubKeyBytesN (s : NState) (i : Nat) : NState := libN s ((pubKeyBytesH X s.heap i).1, .unit) .keep

end

def setNetN (s : NState) (i : Nat) (hdPriv hdPub : Bytes) : NState :=
  libN s (setNetH s.heap i hdPriv hdPub, .unit) (.drop i)
def zeroN (s : NState) (i : Nat) : NState := libN s (zeroH s.heap i, .unit) (.drop i)

/-- the caller allocates a buffer -/
def callerAllocN (s : NState) (b : Bytes) : NState :=
  resync { s with heap := (s.heap.alloc b).1, cbufs := s.heap.bufs.length :: s.cbufs }

/-- the caller calls `NewExtendedKey` with four of its slices -/
def newExtendedKeyN (s : NState) (version key chainCode parentFP : Ref) (depth childNum : Nat)
    (isPrivate : Bool) : NState :=
  resync { s with
    heap := (newExtendedKeyH s.heap version key chainCode parentFP depth childNum isPrivate).1
    raw := s.heap.keys.length :: s.raw
    vers := (s.heap.keys.length, version) :: s.vers }

/-- the caller writes through one of its slices -/
def callerWriteN (s : NState) (r : Ref) (data : Bytes) : NState :=
  resync { s with heap := writeH s.heap r data }

/-- a slice the caller can form without pointer tricks: within a buffer it allocated itself (the library hands
out no slice of its own memory: no accessor of `ExtendedKey` returns one) -/
def ownedRef (s : NState) (r : Ref) : Bool :=
  (r.len = 0 || s.cbufs.contains r.buf) && r.off + r.len ≤ (s.heap.bufs.getD r.buf []).length

end Bch.Model.HDHeapNew
