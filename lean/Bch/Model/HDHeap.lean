import Bch.Model.HDKey
/-
Heap-level model of /repo/hdkeychain/extendedkey.go (after fix ce84569): which buffers each function
allocates, shares and writes. A key's byte fields are slice references `(buf, off, len)` into a heap of
buffers; `view` reads them back into the value-level `XKey` of `Model/HDKey.lean`, whose functions compute
all contents. Version slices alias global network tables that are never written; they are kept by value.
-/
namespace Bch.Model.HDHeap
open Bch Bch.Model Bch.Model.HDKey

structure Ref where
  buf : Nat
  off : Nat
  len : Nat
  deriving DecidableEq, Repr

/-- the nil slice -/
def Ref.nil : Ref := ⟨0, 0, 0⟩

structure HKey where
  key : Ref
  pubKey : Ref
  chainCode : Ref
  parentFP : Ref
  version : Bytes
  depth : Nat
  childNum : Nat
  isPrivate : Bool
  deriving DecidableEq, Repr

structure Heap where
  bufs : List Bytes := []
  keys : List HKey := []
  deriving Repr

def Heap.alloc (h : Heap) (b : Bytes) : Heap × Nat := ({ h with bufs := h.bufs ++ [b] }, h.bufs.length)

def Heap.read (h : Heap) (r : Ref) : Bytes := ((h.bufs.getD r.buf []).drop r.off).take r.len

/-- write zeros through a slice -/
def Heap.zero (h : Heap) (r : Ref) : Heap :=
  { h with bufs := h.bufs.modify r.buf fun b => b.take r.off ++ List.replicate (min r.len (b.length - r.off)) 0 ++ b.drop (r.off + r.len) }

def view (h : Heap) (k : HKey) : XKey :=
  { key := h.read k.key, chainCode := h.read k.chainCode, depth := k.depth, parentFP := h.read k.parentFP,
    childNum := k.childNum, version := k.version, isPrivate := k.isPrivate }

def Heap.setKey (h : Heap) (i : Nat) (k : HKey) : Heap := { h with keys := h.keys.set i k }
def Heap.addKey (h : Heap) (k : HKey) : Heap × Nat := ({ h with keys := h.keys ++ [k] }, h.keys.length)

section
variable {Pt : Type} (X : HDExt Pt)

/-- `pubKeyBytes()`: for a private key the compressed public key is computed once and memoised in a fresh buffer -/
def pubKeyBytesH (h : Heap) (i : Nat) : Heap × Bytes :=
  match h.keys[i]? with
  | none => (h, [])
  | some k =>
    if !k.isPrivate then (h, h.read k.key)
    else if k.pubKey.len = 0 then
      let pk := pubKeyBytes X (view h k)
      let (h, b) := h.alloc pk
      (h.setKey i { k with pubKey := ⟨b, 0, pk.length⟩ }, pk)
    else (h, h.read k.pubKey)

inductive OpRes | key (i : Nat) | err (e : Err) | unit
  deriving Repr

def newMasterH (h : Heap) (seed : Bytes) (hdPriv : Bytes) : Heap × OpRes :=
  match NewMaster X seed hdPriv with
  | .error e => (h, .err e)
  | .ok xk =>
    let (h, b) := h.alloc (xk.key ++ xk.chainCode)          -- one 64-byte HMAC output, split in two halves
    let (h, f) := h.alloc [0, 0, 0, 0]
    let (h, i) := h.addKey ⟨⟨b, 0, 32⟩, Ref.nil, ⟨b, 32, 32⟩, ⟨f, 0, 4⟩, xk.version, 0, 0, true⟩
    (h, .key i)

def newKeyFromStringH (h : Heap) (s : Bytes) : Heap × OpRes :=
  match NewKeyFromString X s with
  | .error e => (h, .err e)
  | .ok xk =>
    -- five sub-slices of the one decoded 82-byte buffer
    let decoded := Base58.Decode s
    let (h, b) := h.alloc decoded
    let keyRef : Ref := if xk.isPrivate then ⟨b, 46, 32⟩ else ⟨b, 45, 33⟩
    let (h, i) := h.addKey ⟨keyRef, Ref.nil, ⟨b, 13, 32⟩, ⟨b, 5, 4⟩, xk.version, xk.depth, xk.childNum, xk.isPrivate⟩
    (h, .key i)

def childH (h : Heap) (i : Nat) (idx : Nat) : Heap × OpRes :=
  match h.keys[i]? with
  | none => (h, .unit)
  | some k =>
    match Child X (view h k) idx with
    | .error e =>
      -- the non-hardened path memoises the parent's public key before any later failure
      let memo := k.depth ≠ 255 ∧ ¬(!k.isPrivate ∧ idx ≥ hardenedKeyStart) ∧ idx < hardenedKeyStart
      ((if memo then (pubKeyBytesH X h i).1 else h), .err e)
    | .ok c =>
      let (h, _) := pubKeyBytesH X h i                        -- fingerprint (and non-hardened data) memoise it
      let (h, b) := h.alloc (List.replicate 32 0 ++ c.chainCode) -- HMAC output; IL half is not retained
      let (h, kb) := h.alloc c.key
      let (h, f) := h.alloc (c.parentFP ++ List.replicate 16 0)  -- Hash160 output sliced [:4]
      let (h, j) := h.addKey ⟨⟨kb, 0, c.key.length⟩, Ref.nil, ⟨b, 32, 32⟩, ⟨f, 0, 4⟩, c.version, c.depth, c.childNum, c.isPrivate⟩
      (h, .key j)

def neuterH (h : Heap) (i : Nat) : Heap × OpRes :=
  match h.keys[i]? with
  | none => (h, .unit)
  | some k =>
    if !k.isPrivate then (h, .key i)                          -- documented: returns the same key
    else match Neuter X (view h k) with
      | .error e => (h, .err e)
      | .ok p =>
        let (h, pk) := pubKeyBytesH X h i
        let (h, a) := h.alloc pk
        let (h, c) := h.alloc p.chainCode
        let (h, f) := h.alloc p.parentFP
        let (h, j) := h.addKey ⟨⟨a, 0, pk.length⟩, Ref.nil, ⟨c, 0, p.chainCode.length⟩, ⟨f, 0, p.parentFP.length⟩, p.version, p.depth, p.childNum, false⟩
        (h, .key j)

def setNetH (h : Heap) (i : Nat) (hdPriv hdPub : Bytes) : Heap :=
  match h.keys[i]? with
  | none => h
  | some k => h.setKey i { k with version := if k.isPrivate then hdPriv else hdPub }

def zeroH (h : Heap) (i : Nat) : Heap :=
  match h.keys[i]? with
  | none => h
  | some k =>
    let h := ((h.zero k.key).zero k.pubKey |>.zero k.chainCode).zero k.parentFP
    h.setKey i { k with version := [], key := Ref.nil, depth := 0, childNum := 0, isPrivate := false }

/-- `String()` needs the public key bytes only for public keys (which are the key itself), so it never memoises -/
def stringH (h : Heap) (i : Nat) : Bytes :=
  match h.keys[i]? with
  | none => []
  | some k => String X (view h k)

end

/-- writable ranges of a key: key, pubKey, chainCode, parentFP -/
def ranges (k : HKey) : List (Nat × Ref) :=
  [(0, k.key), (1, k.pubKey), (2, k.chainCode), (3, k.parentFP)].filter (·.2.len > 0)

def overlap (a b : Ref) : Bool := a.buf = b.buf && a.off < b.off + b.len && b.off < a.off + a.len

/-- all overlapping (key index, field) pairs, lexicographically ordered -/
def overlaps (h : Heap) : List ((Nat × Nat) × (Nat × Nat)) :=
  let all := h.keys.zipIdx.flatMap fun (k, i) => (ranges k).map fun (f, r) => ((i, f), r)
  all.flatMap fun (p, r) => all.filterMap fun (q, s) =>
    if (p.1 < q.1 || (p.1 = q.1 && p.2 < q.2)) && overlap r s then some (p, q) else none

end Bch.Model.HDHeap
