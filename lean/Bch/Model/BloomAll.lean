import Bch.Model.BloomTx
/-
Sequential model of ALL TEN exported methods of `bloom.Filter` (/repo/bloom/filter.go) that are
documented "safe for concurrent access": the eight operations of `Bch.Model.Bloom.Op` plus
`MatchTxAndUpdate` and `MsgFilterLoad`.

Nothing is re-implemented: `step` only dispatches to the functions of `Bch/Model/Bloom.lean`
(`add`, `addOutPoint`, `Matches`, `matchesOutPoint`) and to
`Bch.Model.BloomTx.matchTxAndUpdate` instantiated with the real filter `bloomOps`
(`Bch/Model/BloomTx.lean`) — the models that are tied to the Go code by differential testing.
`step` is what a method does between its `Lock` and its `Unlock` (property C20 shows that any
interleaving of the methods is a sequential composition of such steps in lock order).
-/
namespace Bch.Model.BloomAll
open Bch Bch.Model.Bloom

deriving instance DecidableEq for BloomTx.TxOut, BloomTx.TxIn, BloomTx.Tx

/-- the ten exported methods of `bloom.Filter` (Go name in the comment) with their arguments -/
inductive Op
  /-- `IsLoaded()` -/
  | isLoaded
  /-- `Reload(msg)` -/
  | reload (m : Msg)
  /-- `Unload()` -/
  | unload
  /-- `Add(data)` -/
  | add (d : Bytes)
  /-- `AddHash(hash)` -/
  | addHash (h : Bytes)
  /-- `AddOutPoint(outpoint)`, outpoint = (hash, index) -/
  | addOutPoint (h : Bytes) (i : Nat)
  /-- `Matches(data)` -/
  | query (d : Bytes)
  /-- `MatchesOutPoint(outpoint)` -/
  | queryOutPoint (h : Bytes) (i : Nat)
  /-- `MatchTxAndUpdate(tx)` -/
  | matchTx (tx : BloomTx.Tx)
  /-- `MsgFilterLoad()` -/
  | msgFilterLoad
  deriving DecidableEq, Repr

/-- what a method returns: nothing, a `bool`, or (for `MsgFilterLoad`) the loaded message as it is
    at that moment (`none` = nil pointer) -/
inductive Result
  | unit
  | bool (b : Bool)
  | msg (m : Filter)
  deriving DecidableEq, Repr

/-- Go name of the method an operation stands for (the names of the extracted lock skeletons,
    `Bch.Generated.bloomSkeletons`) -/
def methodName : Op → String
  | .isLoaded => "IsLoaded"
  | .reload _ => "Reload"
  | .unload => "Unload"
  | .add _ => "Add"
  | .addHash _ => "AddHash"
  | .addOutPoint _ _ => "AddOutPoint"
  | .query _ => "Matches"
  | .queryOutPoint _ _ => "MatchesOutPoint"
  | .matchTx _ => "MatchTxAndUpdate"
  | .msgFilterLoad => "MsgFilterLoad"

/-- one call, sequentially: new state and the returned value -/
def step (f : Filter) : Op → Filter × Result
  | .isLoaded => (f, .bool f.isSome)
  | .reload m => (some m, .unit)
  | .unload => (none, .unit)
  | .add d => (add f d, .unit)
  | .addHash h => (add f h, .unit)
  | .addOutPoint h i => (addOutPoint f h i, .unit)
  | .query d => (f, .bool (Matches f d))
  | .queryOutPoint h i => (f, .bool (matchesOutPoint f h i))
  | .matchTx tx =>
    let r := BloomTx.matchTxAndUpdate BloomTx.bloomOps f tx
    (r.1, .bool r.2)
  | .msgFilterLoad => (f, .msg f)

/-- the eight operations of the C09 model as operations of this one -/
def ofBloom : Bloom.Op → Op
  | .add d => .add d
  | .addHash h => .addHash h
  | .addOutPoint h i => .addOutPoint h i
  | .query d => .query d
  | .queryOutPoint h i => .queryOutPoint h i
  | .reload m => .reload m
  | .unload => .unload
  | .isLoaded => .isLoaded

/-- result of the C09 model (`none` = no return value) as a `Result` -/
def ofAnswer : Option Bool → Result
  | none => .unit
  | some b => .bool b

end Bch.Model.BloomAll
