import Bch.Model.TxSort
/-
Model of /repo/coinset/coins.go (after fixes 6ea7013, cb1014b, ee10dd3). Amounts and value-ages are `Int`
(no int64 overflow at the sizes the property quantifies over). `sort.Sort` = stable insertion sort (n ≤ 12).
-/
namespace Bch.Model.CoinSet
open Bch.Model.TxSort (sortBy)

structure Coin where
  id : Nat
  value : Int
  confs : Int
  deriving DecidableEq, Repr

def Coin.valueAge (c : Coin) : Int := c.confs * c.value

/-- a coin set: contents plus the two running totals the Go struct keeps -/
structure CS where
  coins : List Coin := []
  totalValue : Int := 0
  totalValueAge : Int := 0
  deriving DecidableEq, Repr

def CS.push (s : CS) (c : Coin) : CS :=
  ⟨s.coins ++ [c], s.totalValue + c.value, s.totalValueAge + c.valueAge⟩

def CS.pop (s : CS) : CS × Option Coin :=
  match s.coins.getLast? with
  | none => (s, none)
  | some c => (⟨s.coins.dropLast, s.totalValue - c.value, s.totalValueAge - c.valueAge⟩, some c)

def CS.shift (s : CS) : CS × Option Coin :=
  match s.coins with
  | [] => (s, none)
  | c :: rest => (⟨rest, s.totalValue - c.value, s.totalValueAge - c.valueAge⟩, some c)

def CS.ofList (l : List Coin) : CS := l.foldl CS.push {}

/-- `NewMsgTxWithInputCoins`: one input per coin of the set, in the order of the set, spending that coin's outpoint
(a coin's outpoint is identified with the coin's `id`); no signature script, final sequence number -/
def CS.txInputs (s : CS) : List Nat := s.coins.map (·.id)

def satisfiesTargetValue (target minChange total : Int) : Bool :=
  total == target || total ≥ target + minChange

/-- `MinIndexCoinSelector.CoinSelect` -/
def minIndexGo (target minChange : Int) : Nat → List Coin → CS → Option CS
  | 0, _, _ => none
  | _, [], _ => none
  | k+1, c :: cs, acc =>
    let acc := acc.push c
    if satisfiesTargetValue target minChange acc.totalValue then some acc
    else minIndexGo target minChange k cs acc

def minIndex (maxInputs : Int) (minChange target : Int) (coins : List Coin) : Option CS :=
  minIndexGo target minChange maxInputs.toNat coins {}

/-- `sort.Sort(sort.Reverse(byAmount))` -/
def sortByValueDesc (l : List Coin) : List Coin := sortBy (fun a b => b.value < a.value) l
def sortByValueAgeDesc (l : List Coin) : List Coin := sortBy (fun a b => b.valueAge < a.valueAge) l
def sortByValueAgeAsc (l : List Coin) : List Coin := sortBy (fun a b => a.valueAge < b.valueAge) l

def minNumber (maxInputs minChange target : Int) (coins : List Coin) : Option CS :=
  minIndex maxInputs minChange target (sortByValueDesc coins)

def maxValueAge (maxInputs minChange target : Int) (coins : List Coin) : Option CS :=
  minIndex maxInputs minChange target (sortByValueAgeDesc coins)

/-- extension loop of the success branch -/
def extend (maxInputs minChange minAvg target : Int) : List Coin → CS → CS
  | [], e => e
  | c :: cs, e =>
    if (e.coins.length : Int) ≥ maxInputs then e
    else if c.valueAge = 0 then extend maxInputs minChange minAvg target cs e
    else
      let e' := e.push c
      if Int.tdiv e'.totalValueAge (e'.coins.length : Int) < minAvg ||
         !satisfiesTargetValue target minChange e'.totalValue
      then extend maxInputs minChange minAvg target cs e
      else extend maxInputs minChange minAvg target cs e'

/-- the recursive call `(&MinPriorityCoinSelector{…}).CoinSelect(newTarget, lows)` -/
abbrev Rec := (maxInputs minChange minAvg target : Int) → List Coin → Option CS

/-- the `for numLow := 1; …` top-up loop (fuel `m`) for a fixed `i` -/
def loopLow (rec : Rec) (maxInputs minChange minAvg target : Int) (cutoff i : Nat) (lows highs : List Coin) :
    Nat → Nat → Option CS
  | 0, _ => none
  | m+1, numLow =>
    if !(numLow ≤ cutoff ∧ (numLow : Int) + ((i : Int) - cutoff) + 1 ≤ maxInputs) then none else
    let allHigh := CS.ofList highs
    let newTarget := target - allHigh.totalValue
    let needed := minAvg * ((allHigh.coins.length + numLow : Nat) : Int) - allHigh.totalValueAge
    let q := Int.tdiv needed numLow
    let newMinAvg := if needed > 0 ∧ Int.tmod needed numLow ≠ 0 then q + 1 else q
    match rec numLow minChange newMinAvg newTarget lows with
    | some ls => some (ls.coins.foldl CS.push allHigh)
    | none => loopLow rec maxInputs minChange minAvg target cutoff i lows highs m (numLow + 1)

/-- the `for i := cutoffIndex; i < len(possibleCoins); i++` loop (fuel `k`) -/
def loopI (rec : Rec) (maxInputs minChange minAvg target : Int) (possible : List Coin) (cutoff : Nat) :
    Nat → Nat → Option CS
  | 0, _ => none
  | k+1, i =>
    if i ≥ possible.length then none else
    let lows := possible.take cutoff
    let highs := (possible.drop cutoff).take (i + 1 - cutoff)
    match minNumber maxInputs minChange target highs with
    | some hs => some (extend maxInputs minChange minAvg target lows (CS.ofList hs.coins))
    | none =>
      match loopLow rec maxInputs minChange minAvg target cutoff i lows highs (cutoff + 1) 1 with
      | some r => some r
      | none => loopI rec maxInputs minChange minAvg target possible cutoff k (i + 1)

def minPriorityBody (rec : Rec) (maxInputs minChange minAvg target : Int) (coins : List Coin) : Option CS :=
  let possible := sortByValueAgeAsc coins
  match possible.findIdx? (fun c => c.valueAge ≥ minAvg) with
  | none => none
  | some cutoff => loopI rec maxInputs minChange minAvg target possible cutoff (possible.length + 1) cutoff

/-- `MinPriorityCoinSelector.CoinSelect`; `fuel` bounds the recursion (each level works on the strictly shorter
    low-priority prefix, so `coins.length + 1` always suffices) -/
def minPriority : (fuel : Nat) → Rec
  | 0 => fun _ _ _ _ _ => none
  | fuel+1 => minPriorityBody (minPriority fuel)

inductive Op | push (c : Coin) | pop | shift deriving Repr

def stepOp (s : CS) : Op → CS × Option (Option Coin)
  | .push c => (s.push c, none)
  | .pop => let (s, c) := s.pop; (s, some c)
  | .shift => let (s, c) := s.shift; (s, some c)

end Bch.Model.CoinSet
