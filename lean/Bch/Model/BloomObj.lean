import Bch.Model.Bloom
/-
The bloom filter at the level of message *objects* (/repo/bloom/filter.go): `Filter.msgFilterLoad` is a POINTER to a
`wire.MsgFilterLoad` that the caller handed to `LoadFilter` / `Reload` and keeps; insertions set bits in that object's
array in place; `Reload(m)` makes the filter point at `m` (it neither copies `m` nor writes to the object it pointed at
before); `Unload` drops the pointer; `MsgFilterLoad()` hands the pointer out.  So a message that is loaded again later
still holds everything that was inserted while it was loaded before.

State: the message objects created so far (by index) and which one the filter points at.  The value-level model
`Model/Bloom.lean` (`Filter = Option Msg`) is the view "the object currently pointed at" — `view_stepObj`.
-/
namespace Bch.Model.BloomObj
open Bch Bch.Model.Bloom

structure State where
  objs : List Msg
  cur : Option Nat
  deriving Repr

inductive Op
  | base (op : Bloom.Op)        -- insertions, queries, `IsLoaded`, `Unload`; `reload m` = `Reload` of a NEW object holding `m`
  | reloadObj (k : Nat)         -- `Reload(msgs[k])`: an object of this history again
  | getMsg                      -- `MsgFilterLoad()`
  deriving Repr

/-- the value-level filter: the object pointed at -/
def view (s : State) : Bloom.Filter := s.cur.bind fun k => s.objs[k]?

/-- answers: `none` for operations without a result, otherwise the printed answer -/
def stepObj (s : State) : Op → State × Option String
  | .base (.reload m) => ({ objs := s.objs ++ [m], cur := some s.objs.length }, none)
  | .base .unload => ({ s with cur := none }, none)
  | .base op =>
    let r := Bloom.step (view s) op
    let objs := match s.cur, r.1 with
      | some k, some m' => s.objs.set k m'
      | _, _ => s.objs
    ({ s with objs := objs }, r.2.map fun b => if b then "1" else "0")
  | .reloadObj k => if k < s.objs.length then ({ s with cur := some k }, none) else (s, none)
  | .getMsg => (s, some (match s.cur with | none => "n" | some k => toString k))

/-- the value-level operation an object-level one amounts to -/
def toBase (s : State) : Op → Option Bloom.Op
  | .base op => some op
  | .reloadObj k => s.objs[k]?.map .reload
  | .getMsg => none

end Bch.Model.BloomObj
