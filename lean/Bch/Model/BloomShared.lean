import Bch.Model.Bloom
/-
The bloom filter over message objects that may SHARE their bit arrays (/repo/bloom/filter.go, bchd wire.MsgFilterLoad).

`Model/BloomObj.lean` gives every message object its own bit array.  In Go a `wire.MsgFilterLoad` holds a *slice*
(`Filter []byte`): two message values can point at one backing array (`m2 := *m1`; `wire.NewMsgFilterLoad(m1.Filter, …)`
stores the slice as given), and `Filter.add` sets bits through whichever message is loaded
(`bf.msgFilterLoad.Filter[idx>>3] |= …`, filter.go).  Here the bit arrays live in their own store and a message object
is a header (array index, hash-function count, tweak, flags).

Operations: those of `Bloom.Op` on the loaded object (`reload m` = `Reload` of a NEW object with a NEW array holding
`m`), `reloadShare j …` = `Reload` of a new object whose `Filter` slice IS object `j`'s array, `reloadObj k` = `Reload` of
an earlier object.  The library itself never creates sharing; the caller does.
-/
namespace Bch.Model.BloomShared
open Bch Bch.Model.Bloom

structure Hdr where
  arr : Nat
  nHash : Nat
  tweak : UInt32
  flags : Nat
  deriving Repr, DecidableEq

structure State where
  arrs : List Bytes
  objs : List Hdr
  cur : Option Nat
  deriving Repr

inductive Op
  | base (op : Bloom.Op)
  | reloadShare (j : Nat) (nHash : Nat) (tweak : UInt32) (flags : Nat)
  | reloadObj (k : Nat)
  deriving Repr

/-- the message value object `k` denotes -/
def msgAt (s : State) (k : Nat) : Option Msg :=
  (s.objs[k]?).bind fun h => (s.arrs[h.arr]?).map fun b => ⟨b, h.nHash, h.tweak, h.flags⟩

/-- the value-level filter: the object pointed at -/
def view (s : State) : Bloom.Filter := s.cur.bind (msgAt s)

def step (s : State) : Op → State × Option Bool
  | .base (.reload m) =>
    ({ arrs := s.arrs ++ [m.bits], objs := s.objs ++ [⟨s.arrs.length, m.nHash, m.tweak, m.flags⟩],
       cur := some s.objs.length }, none)
  | .base .unload => ({ s with cur := none }, none)
  | .base op =>
    let r := Bloom.step (view s) op
    let arrs := match s.cur.bind (s.objs[·]?), r.1 with
      | some h, some m' => s.arrs.set h.arr m'.bits
      | _, _ => s.arrs
    ({ s with arrs := arrs }, r.2)
  | .reloadShare j n t f =>
    match s.objs[j]? with
    | some hj => ({ s with objs := s.objs ++ [⟨hj.arr, n, t, f⟩], cur := some s.objs.length }, none)
    | none => (s, none)
  | .reloadObj k => if k < s.objs.length then ({ s with cur := some k }, none) else (s, none)

/-- the items inserted so far THROUGH each object (parallel to `objs`) -/
def insStep (s : State) (ins : List (List Bytes)) : Op → List (List Bytes)
  | .base (.reload _) => ins ++ [[]]
  | .base (.add d) => match s.cur with | some k => ins.modify k (d :: ·) | none => ins
  | .base (.addHash d) => match s.cur with | some k => ins.modify k (d :: ·) | none => ins
  | .base (.addOutPoint h i) => match s.cur with | some k => ins.modify k (outPointBytes h i :: ·) | none => ins
  | .reloadShare j _ _ _ => if j < s.objs.length then ins ++ [[]] else ins
  | _ => ins

def run : State → List (List Bytes) → List Op → State × List (List Bytes)
  | s, ins, [] => (s, ins)
  | s, ins, op :: ops => run (step s op).1 (insStep s ins op) ops

end Bch.Model.BloomShared
