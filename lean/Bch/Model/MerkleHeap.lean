import Bch.Model.Merkle
import Bch.Model.MerkleSelect
/-
Heap-level model of the merkle-block code: WHICH MEMORY /repo/merkleblock/decode.go
(`NewMerkleBlockFromMsg`, `ExtractMatches`, `traverseAndExtract`, `GetMatches`, `GetItems`) and
/repo/merkleblock/encode.go (`NewMerkleBlockWithTxnSet`, `NewMerkleBlockWithFilter`, `TxInSet`, `traverseAndBuild`,
`calcHash`, `calcBlock`; bloom/merkleblock.go `NewMerkleBlock` has literally the same body) read and write.
The value-level models (`Model/Merkle.lean`, `Model/MerkleSelect.lean`) say what the results ARE; this file says
through which arrays and objects the Go code gets there, in the style of `Model/SliceHeap.lean`,
`Model/GcsHeap.lean`, `Model/TxSortHeap.lean`.

* A `chainhash.Hash` is a `[32]byte` array value; the code only ever handles `*chainhash.Hash`.  The heap holds the
  store of hash objects (a pointer is an index into the store).  Objects are never freed.  No function of the
  three Go files stores through a `*chainhash.Hash`; the model has no operation that does (negative variants
  below write *pointer arrays*, which is what the seeded defects did).
* `[]*chainhash.Hash`, `[]byte`, `[]uint32` are slice headers `(array, off, len, cap)` into three kinds of backing
  arrays; arrays are never freed or moved and never change their length.
* `make([]T, n, c)` allocates a zeroed array.  `append(s, x)`: when `len(s)+1 ≤ cap(s)` the element is stored in
  place behind the slice (into memory every other header of the same array can see); otherwise a new array is
  allocated holding the old elements, `x` and an unspecified amount of spare capacity.  The growth policy is a
  parameter (`Growth`: spare capacity as a function of the old capacity and the needed length, per element type)
  and every theorem quantifies over it.
* `&chainhash.Hash{}` and `blockchain.HashMerkleBranches(l, r)` (bchd, external: `newHash := DoubleHashH(..);
  return &newHash`) allocate a new hash object; `HashMerkleBranches` and `(*Hash).IsEqual` read their arguments.
* A `wire.MsgMerkleBlock` is `{Header, Transactions uint32, Hashes []*chainhash.Hash, Flags []byte}`: a count and two
  slice headers (the header is a plain value, copied, never looked at).  `NewMerkleBlockFromMsg(msg wire.MsgMerkleBlock)`
  receives the struct BY VALUE — the slice headers are copied, the arrays are the caller's.
* A `PartialBlock` is only reachable through the pointer `NewMerkleBlockFromMsg` returns and its fields are
  unexported: it is modelled as a value threaded through the calls.
* A `bchutil.Tx` wrapper memoises its hash: `tx.Hash()` returns the cached `*chainhash.Hash` or computes
  `msgTx.TxHash()`, stores it in a NEW hash object, stores that pointer in the wrapper and returns it (tx.go:39-49).
  The heap has the store of `Tx` wrappers (`id` = the value `msgTx.TxHash()`, `memo` = `txHash`).
  `block.Transactions()` is the block's slice of wrapper pointers (block.go:122; on a block whose wrappers were not
  generated yet the first call creates them — the block's private lazily-filled cache, see `Model/BlockCache.lean`
  — the model starts after that).
* Go panics (index out of range, nil dereference) are totalised the way the value-level models do: a read outside a
  slice yields a pointer to a fresh all-zero hash object resp. byte 0.  On the paths taken by the Go code every index
  is guarded (see the comments at the definitions) with THREE exceptions, where Go panics and the theorems below speak
  about the totalised value only: a block with ZERO transactions in the builders (`allHashes[0]`, proved to fault in
  `Props/C08Builders.lean: builder_empty_block_faults` — the C11 property is stated for blocks of at least one
  transaction), and nil entries in a caller-built `msg.Hashes` / `txnSet` (nil pointers are not representable here).
* Tree arithmetic is on `Nat` as in `Model/Merkle.lean`.
Core Lean only.
-/
namespace Bch.Model.MerkleHeap
open Bch Bch.Model.Merkle Bch.Model.MerkleSelect

/-- a slice header `(array, offset, len, cap)`; `s[len:cap]` is the spare capacity -/
structure Slice where
  arr : Nat
  off : Nat
  len : Nat
  cap : Nat
  deriving DecidableEq, Repr

/-- the nil slice (`var s []T`, the zero value of a slice field): `cap = 0`, so nothing is ever stored through it -/
def Slice.nil : Slice := ⟨0, 0, 0, 0⟩

/-- `s[:0]`: same array, same capacity, length 0 -/
def Slice.reset (s : Slice) : Slice := { s with len := 0 }

/-! ## backing arrays of any element type -/

section Arrays
variable {α : Type}

/-- the elements `a[off : off+len]` -/
def window (a : List α) (s : Slice) : List α := (a.drop s.off).take s.len

/-- the elements `s[0:len(s)]` (`[]` if the array does not exist) -/
def readA (arrs : List (List α)) (s : Slice) : List α := window (arrs.getD s.arr []) s

/-- store `xs` at positions `pos, pos+1, …` of an array (a store outside the array panics in Go and is a no-op
here: an array never changes its length) -/
def writeAt : List α → Nat → List α → List α
  | a, _, [] => a
  | a, pos, x :: xs => writeAt (a.set pos x) (pos + 1) xs

/-- `make([]T, n, c)`: a fresh array of `c` zero values `z` -/
def makeA (z : α) (arrs : List (List α)) (n c : Nat) : List (List α) × Slice :=
  (arrs ++ [List.replicate c z], ⟨arrs.length, 0, n, c⟩)

/-- `append(s, xs...)` with growth policy `g` (spare capacity from old capacity and needed length) -/
def appendA (g : Nat → Nat → Nat) (z : α) (arrs : List (List α)) (s : Slice) (xs : List α) :
    List (List α) × Slice :=
  if s.len + xs.length ≤ s.cap then
    (arrs.modify s.arr (fun a => writeAt a (s.off + s.len) xs), { s with len := s.len + xs.length })
  else
    let n := s.len + xs.length
    (arrs ++ [readA arrs s ++ xs ++ List.replicate (g s.cap n) z], ⟨arrs.length, 0, n, n + g s.cap n⟩)

/-- `s[i] = x` (index relative to the slice) -/
def storeA (arrs : List (List α)) (s : Slice) (i : Nat) (x : α) : List (List α) :=
  arrs.modify s.arr (fun a => a.set (s.off + i) x)

end Arrays

/-! ## the heap -/

/-- a `bchutil.Tx` wrapper: the value `msgTx.TxHash()` and the memo field `txHash *chainhash.Hash` (`none` = nil) -/
structure TxObj (H : Type) where
  id : H
  memo : Option Nat
  deriving DecidableEq, Repr

structure Heap (H : Type) where
  /-- the `chainhash.Hash` objects, by pointer -/
  hashes : List H
  /-- backing arrays of `[]*chainhash.Hash` -/
  ptrs : List (List Nat)
  /-- backing arrays of `[]byte` -/
  bytes : List (List UInt8)
  /-- backing arrays of `[]uint32` -/
  u32s : List (List Nat)
  /-- the `bchutil.Tx` wrapper objects, by pointer -/
  txs : List (TxObj H)
  deriving DecidableEq, Repr

/-- growth policies of `append`, one per element type -/
structure Growth where
  ptr : Nat → Nat → Nat
  byte : Nat → Nat → Nat
  u32 : Nat → Nat → Nat

variable {H : Type}

/-- `*p` (the zero hash for a pointer that does not exist — Go has no dangling pointers) -/
def deref (zero : H) (h : Heap H) (p : Nat) : H := h.hashes.getD p zero

/-- a new hash object holding `x` -/
def allocHash (h : Heap H) (x : H) : Heap H × Nat :=
  ({ h with hashes := h.hashes ++ [x] }, h.hashes.length)

def readPtrs (h : Heap H) (s : Slice) : List Nat := readA h.ptrs s
def readBytes (h : Heap H) (s : Slice) : List UInt8 := readA h.bytes s
def readU32 (h : Heap H) (s : Slice) : List Nat := readA h.u32s s

/-- the hash values a `[]*chainhash.Hash` denotes -/
def readHashes (zero : H) (h : Heap H) (s : Slice) : List H := (readPtrs h s).map (deref zero h)

def makePtr (h : Heap H) (n c : Nat) : Heap H × Slice :=
  let r := makeA 0 h.ptrs n c; ({ h with ptrs := r.1 }, r.2)
def makeByte (h : Heap H) (n c : Nat) : Heap H × Slice :=
  let r := makeA 0 h.bytes n c; ({ h with bytes := r.1 }, r.2)
def makeU32 (h : Heap H) (n c : Nat) : Heap H × Slice :=
  let r := makeA 0 h.u32s n c; ({ h with u32s := r.1 }, r.2)

def appendPtr (G : Growth) (h : Heap H) (s : Slice) (xs : List Nat) : Heap H × Slice :=
  let r := appendA G.ptr 0 h.ptrs s xs; ({ h with ptrs := r.1 }, r.2)
def appendByte (G : Growth) (h : Heap H) (s : Slice) (xs : List UInt8) : Heap H × Slice :=
  let r := appendA G.byte 0 h.bytes s xs; ({ h with bytes := r.1 }, r.2)
def appendU32 (G : Growth) (h : Heap H) (s : Slice) (xs : List Nat) : Heap H × Slice :=
  let r := appendA G.u32 0 h.u32s s xs; ({ h with u32s := r.1 }, r.2)

/-- a `wire.MsgMerkleBlock` object: `Transactions`, `Hashes`, `Flags` -/
structure MsgObj where
  transactions : Nat
  hashes : Slice
  flags : Slice
  deriving DecidableEq, Repr

/-- the value-level message an object denotes in a heap -/
def absMsg (zero : H) (h : Heap H) (msg : MsgObj) : Msg H :=
  ⟨msg.transactions, readHashes zero h msg.hashes, readBytes h msg.flags⟩

/-! ## the decoder: merkleblock/decode.go -/

/-- `type PartialBlock struct` (decode.go:31-41) -/
structure PB where
  numTx : Nat
  finalHashes : Slice
  bits : Slice
  bad : Bool
  bitsUsed : Nat
  hashesUsed : Nat
  matchedHashes : Slice
  matchedItems : Slice
  deriving DecidableEq, Repr

/-- Go: `byte(1)` / `byte(0)` -/
def bitByte (b : Bool) : UInt8 := if b then 1 else 0

/-- the bytes the loop of `NewMerkleBlockFromMsg` stores into `bits` -/
def bitBytes (flags : List UInt8) : List UInt8 := (unpackFlags flags).map bitByte

/-- `NewMerkleBlockFromMsg(msg)` (decode.go:51-84):
```
bits := make([]byte, len(msg.Flags)*8)
for i := … { bits[i] = byte(0) or byte(1) }           // reads msg.Flags[i/8], stores through `bits` only
mBlock := &PartialBlock{numTx: msg.Transactions, finalHashes: msg.Hashes, bits: bits, …,
    matchedHashes: make([]*chainhash.Hash, 0), matchedItems: make([]uint32, 0)}
```
`finalHashes: msg.Hashes` copies the slice HEADER: the object keeps the caller's pointer array. -/
def newFromMsg (h : Heap H) (msg : MsgObj) : Heap H × PB :=
  let a := makeByte h (msg.flags.len * 8) (msg.flags.len * 8)
  let h1 : Heap H :=
    { a.1 with bytes := (a.1.bytes.modify a.2.arr
        (fun arr => writeAt arr a.2.off ((bitBytes (readBytes h msg.flags)).take a.2.len))) }
  let b := makePtr h1 0 0
  let c := makeU32 b.1 0 0
  (c.1, { numTx := msg.transactions, finalHashes := msg.hashes, bits := a.2, bad := false, bitsUsed := 0,
          hashesUsed := 0, matchedHashes := b.2, matchedItems := c.2 })

/-- `m.bad = true; return &chainhash.Hash{}` -/
def failH (zero : H) (h : Heap H) (m : PB) : Nat × Heap H × PB :=
  let a := allocHash h zero
  (a.2, a.1, { m with bad := true })

/-- the leaf / not-descended branch of `traverseAndExtract` (decode.go:158-176), `m.bitsUsed` already advanced:
```
if m.hashesUsed >= uint32(len(m.finalHashes)) { m.bad = true; return &chainhash.Hash{} }
hash := m.finalHashes[m.hashesUsed]                  // a POINTER out of the message's array
m.hashesUsed++
if height == 0 && parent == byte(1) {
    m.matchedHashes = append(m.matchedHashes, hash)  // the pointer is stored, the object is shared
    m.matchedItems = append(m.matchedItems, pos)
}
return hash
```
(the index is guarded, so the `none` case of the read cannot happen for a slice inside its array) -/
def takeHash (G : Growth) (zero : H) (isMatch : Bool) (pos : Nat) (h : Heap H) (m : PB) : Nat × Heap H × PB :=
  if m.hashesUsed ≥ m.finalHashes.len then failH zero h m
  else
    match (readPtrs h m.finalHashes)[m.hashesUsed]? with
    | none => failH zero h m
    | some hash =>
      let m := { m with hashesUsed := m.hashesUsed + 1 }
      if isMatch then
        let a := appendPtr G h m.matchedHashes [hash]
        let b := appendU32 G a.1 m.matchedItems [pos]
        (hash, b.1, { m with matchedHashes := a.2, matchedItems := b.2 })
      else (hash, h, m)

/-- `traverseAndExtract(height, pos)` (decode.go:144-194) on the heap; returns the `*chainhash.Hash`.
`right.IsEqual(left)` compares the two objects' values (both pointers are non-nil); `HashMerkleBranches` allocates. -/
def traverseH [DecidableEq H] (G : Growth) (comb : H → H → H) (zero : H) :
    Nat → Nat → Heap H × PB → Nat × Heap H × PB
  | height, pos, (h, m) =>
    if m.bitsUsed ≥ m.bits.len then failH zero h m
    else
      let parent := (readBytes h m.bits).getD m.bitsUsed 0
      let m := { m with bitsUsed := m.bitsUsed + 1 }
      match height with
      | 0 => takeHash G zero (parent == 1) pos h m
      | height'+1 =>
        if parent == 0 then takeHash G zero false pos h m
        else
          let l := traverseH G comb zero height' (pos*2) (h, m)
          if pos*2+1 < width l.2.2.numTx height' then
            let r := traverseH G comb zero height' (pos*2+1) l.2
            let m2 : PB :=
              if deref zero r.2.1 r.1 = deref zero r.2.1 l.1 then { r.2.2 with bad := true } else r.2.2
            let a := allocHash r.2.1 (comb (deref zero r.2.1 l.1) (deref zero r.2.1 r.1))
            (a.2, a.1, m2)
          else
            let a := allocHash l.2.1 (comb (deref zero l.2.1 l.1) (deref zero l.2.1 l.1))
            (a.2, a.1, l.2.2)

/-- the body of `ExtractMatches` after the reset (decode.go:99-141); `none` = `nil` -/
def extractBody [DecidableEq H] (G : Growth) (comb : H → H → H) (zero : H) (h : Heap H) (m : PB) :
    Option Nat × Heap H × PB :=
  if m.numTx = 0 then (none, h, m)
  else if m.numTx > maxTxnCount then (none, h, m)
  else if m.finalHashes.len > m.numTx then (none, h, m)
  else if m.bits.len < m.finalHashes.len then (none, h, m)
  else
    let t := traverseH G comb zero (height m.numTx) 0 (h, m)
    let m' := t.2.2
    let ok := !m'.bad && (m'.bitsUsed + 7) / 8 == (m'.bits.len + 7) / 8 && m'.hashesUsed == m'.finalHashes.len
    (if ok then some t.1 else none, t.2.1, m')

/-- `(*PartialBlock).ExtractMatches` (after fix 35d217e):
```
m.bad = false; m.bitsUsed = 0; m.hashesUsed = 0
m.matchedHashes = make([]*chainhash.Hash, 0)
m.matchedItems = make([]uint32, 0)
```
both result slices are RE-MADE on every call; `finalHashes` and `bits` are kept. -/
def extractMatchesH [DecidableEq H] (G : Growth) (comb : H → H → H) (zero : H) (h : Heap H) (m : PB) :
    Option Nat × Heap H × PB :=
  let a := makePtr h 0 0
  let b := makeU32 a.1 0 0
  extractBody G comb zero b.1
    { m with bad := false, bitsUsed := 0, hashesUsed := 0, matchedHashes := a.2, matchedItems := b.2 }

/-- `GetMatches()`: the object's own slice header is handed out -/
def getMatches (m : PB) : Slice := m.matchedHashes
/-- `GetItems()` -/
def getItems (m : PB) : Slice := m.matchedItems

/-- **negative variant** (a seeded defect): `m.matchedHashes = m.finalHashes[:0]` instead of `make(…, 0)` — the
matched pointers are collected in the message's own array -/
def extractMatchesReuse [DecidableEq H] (G : Growth) (comb : H → H → H) (zero : H) (h : Heap H) (m : PB) :
    Option Nat × Heap H × PB :=
  let b := makeU32 h 0 0
  extractBody G comb zero b.1
    { m with bad := false, bitsUsed := 0, hashesUsed := 0, matchedHashes := m.finalHashes.reset,
             matchedItems := b.2 }

/-- what a caller sees of an extraction: root value (`nil` = `none`), `GetMatches()` (values), `GetItems()`,
`BadTree()` — the shape of the value-level `Extracted` -/
def absExtracted (zero : H) (r : Option Nat × Heap H × PB) : Extracted H :=
  ⟨r.1.map (deref zero r.2.1), readHashes zero r.2.1 (getMatches r.2.2), readU32 r.2.1 (getItems r.2.2), r.2.2.bad⟩

/-- `k` calls of `ExtractMatches` on the same object, one after the other -/
def extractTimes [DecidableEq H] (G : Growth) (comb : H → H → H) (zero : H) : Nat → Heap H × PB → Heap H × PB
  | 0, s => s
  | k+1, s => extractTimes G comb zero k (extractMatchesH G comb zero s.1 s.2).2

/-! ## the builders: merkleblock/encode.go (and bloom/merkleblock.go) -/

/-- `tx.Hash()` (tx.go:39-49) for the wrapper at pointer `t`; fills the memo with a NEW hash object when empty.
(A wrapper pointer that does not exist — a nil dereference in Go — yields a fresh zero hash object.) -/
def txHashH (zero : H) (h : Heap H) (t : Nat) : Heap H × Nat :=
  match h.txs[t]? with
  | none => allocHash h zero
  | some tx =>
    match tx.memo with
    | some p => (h, p)
    | none =>
      let a := allocHash h tx.id
      ({ a.1 with txs := a.1.txs.set t { tx with memo := some a.2 } }, a.2)

/-- the value `tx.Hash()` denotes -/
def txId (zero : H) (h : Heap H) (t : Nat) : H :=
  match h.txs[t]? with
  | none => zero
  | some tx => tx.id

/-- `TxInSet(tx, set)`: `for _, next := range set { if *tx == *next { return true } }` — reads only;
`set` here is the list of pointers the range loop walks over -/
def txInSetH [DecidableEq H] (zero : H) (h : Heap H) (tx : Nat) : List Nat → Bool
  | [] => false
  | next :: set => if deref zero h tx = deref zero h next then true else txInSetH zero h tx set

/-- `type MerkleBlock struct` (encode.go:17-23) / `type merkleBlock struct` (bloom/merkleblock.go:18-24) -/
structure MBH where
  numTx : Nat
  allHashes : Slice
  finalHashes : Slice
  matchedBits : Slice
  bits : Slice
  deriving DecidableEq, Repr

/-- the value-level struct an `MBH` denotes -/
def absMB (zero : H) (h : Heap H) (m : MBH) : MB H :=
  { numTx := m.numTx, allHashes := readHashes zero h m.allHashes, finalHashes := readHashes zero h m.finalHashes,
    matchedBits := readBytes h m.matchedBits, bits := readBytes h m.bits }

/-- the loop over `block.Transactions()` of `NewMerkleBlockWithTxnSet` / `NewMerkleBlockWithFilter` / `NewMerkleBlock`:
```
for txIndex, tx := range block.Transactions() {
    if <sel> {                       // TxInSet(tx.Hash(), txnSet)   resp.   matchedMap[txIndex]
        mBlock.matchedBits = append(mBlock.matchedBits, 0x01)
        matchedIndices = append(matchedIndices, uint32(txIndex))
    } else {
        mBlock.matchedBits = append(mBlock.matchedBits, 0x00)
    }
    mBlock.allHashes = append(mBlock.allHashes, tx.Hash())
}
```
`sel heap hashPointer txIndex` is the condition (a function: it cannot write); `tx.Hash()` is called for the
condition (`callsHash`, only the txn-set builder does) and again for the `append`. -/
def fillLoopH (G : Growth) (zero : H) (callsHash : Bool) (sel : Heap H → Nat → Nat → Bool) :
    List (Nat × Nat) → Heap H × MBH × Slice → Heap H × MBH × Slice
  | [], acc => acc
  | (t, txIndex) :: rest, (h, m, mi) =>
    let a := if callsHash then txHashH zero h t else (h, 0)
    if sel a.1 a.2 txIndex then
      let b := appendByte G a.1 m.matchedBits [0x01]
      let c := appendU32 G b.1 mi [txIndex]
      let d := txHashH zero c.1 t
      let e := appendPtr G d.1 m.allHashes [d.2]
      fillLoopH G zero callsHash sel rest (e.1, { m with matchedBits := b.2, allHashes := e.2 }, c.2)
    else
      let b := appendByte G a.1 m.matchedBits [0x00]
      let d := txHashH zero b.1 t
      let e := appendPtr G d.1 m.allHashes [d.2]
      fillLoopH G zero callsHash sel rest (e.1, { m with matchedBits := b.2, allHashes := e.2 }, mi)

/-- `calcHash(height, pos)` (encode.go:33-47): a leaf is the POINTER `m.allHashes[pos]` (the transaction's cached hash
object), an inner node a new object from `HashMerkleBranches`.  (`pos` is always inside `allHashes`.) -/
def calcHashH (comb : H → H → H) (zero : H) (m : MBH) : Nat → Nat → Heap H → Heap H × Nat
  | 0, pos, h =>
    match (readPtrs h m.allHashes)[pos]? with
    | some p => (h, p)
    | none => allocHash h zero
  | height+1, pos, h =>
    let l := calcHashH comb zero m height (pos*2) h
    let r := if pos*2+1 < (⟨m.numTx, [], [], [], []⟩ : MB H).calcTreeWidth height
             then calcHashH comb zero m height (pos*2+1) l.1 else l
    allocHash r.1 (comb (deref zero r.1 l.2) (deref zero r.1 r.2))

/-- the `isParent` loop of `traverseAndBuild`: reads `m.matchedBits[i]` (value delegated to `MB.isParent`) -/
def isParentH (h : Heap H) (m : MBH) (height pos : Nat) : UInt8 :=
  (⟨m.numTx, [], [], readBytes h m.matchedBits, []⟩ : MB H).isParent height pos

/-- `traverseAndBuild(height, pos)` (encode.go:53-80): `m.bits = append(m.bits, isParent)`,
`m.finalHashes = append(m.finalHashes, m.calcHash(height, pos))` -/
def traverseAndBuildH (G : Growth) (comb : H → H → H) (zero : H) : Nat → Nat → Heap H × MBH → Heap H × MBH
  | 0, pos, (h, m) =>
    let isParent := isParentH h m 0 pos
    let a := appendByte G h m.bits [isParent]
    let m := { m with bits := a.2 }
    let c := calcHashH comb zero m 0 pos a.1
    let b := appendPtr G c.1 m.finalHashes [c.2]
    (b.1, { m with finalHashes := b.2 })
  | height+1, pos, (h, m) =>
    let isParent := isParentH h m (height+1) pos
    let a := appendByte G h m.bits [isParent]
    let m := { m with bits := a.2 }
    if isParent == 0x00 then
      let c := calcHashH comb zero m (height+1) pos a.1
      let b := appendPtr G c.1 m.finalHashes [c.2]
      (b.1, { m with finalHashes := b.2 })
    else
      let s := traverseAndBuildH G comb zero height (pos*2) (a.1, m)
      if pos*2+1 < (⟨s.2.numTx, [], [], [], []⟩ : MB H).calcTreeWidth height
      then traverseAndBuildH G comb zero height (pos*2+1) s else s

/-- `for _, hash := range m.finalHashes { msgMerkleBlock.AddTxHash(hash) }`: `msg.Hashes = append(msg.Hashes, hash)`
per element.  (`AddTxHash` refuses beyond `maxTxPerBlock` and the builder drops its error; the bound cannot be reached
by the hashes of a block that fits the block size — as in the value-level model the check is not represented.) -/
def addTxHashes (G : Growth) (h : Heap H) (s : Slice) : List Nat → Heap H × Slice
  | [] => (h, s)
  | p :: ps => let a := appendPtr G h s [p]; addTxHashes G a.1 a.2 ps

/-- `for i := uint32(0); i < uint32(len(m.bits)); i++ { msg.Flags[i/8] |= m.bits[i] << (i % 8) }` -/
def flagLoopH (h : Heap H) (flags bits : Slice) : Heap H :=
  (List.range bits.len).foldl
    (fun h i => { h with bytes := (h.bytes.modify flags.arr
        (fun a => a.modify (flags.off + i/8) (fun b => b ||| ((readBytes h bits).getD i 0 <<< UInt8.ofNat (i % 8))))) })
    h

/-- `calcBlock(block)` (encode.go:148-173) / the tail of `bloom.NewMerkleBlock`: height loop, traversal, then
```
msgMerkleBlock := wire.MsgMerkleBlock{Header: …, Transactions: m.numTx,
    Hashes: make([]*chainhash.Hash, 0, len(m.finalHashes)), Flags: make([]byte, (len(m.bits)+7)/8)}
```
and the two loops. -/
def calcBlockH (G : Growth) (comb : H → H → H) (zero : H) (h : Heap H) (m : MBH) : Heap H × MsgObj :=
  let height := (⟨m.numTx, [], [], [], []⟩ : MB H).heightLoop 33 0
  let t := traverseAndBuildH G comb zero height 0 (h, m)
  let a := makePtr t.1 0 t.2.finalHashes.len
  let b := makeByte a.1 ((t.2.bits.len + 7) / 8) ((t.2.bits.len + 7) / 8)
  let c := addTxHashes G b.1 a.2 (readPtrs b.1 t.2.finalHashes)
  (flagLoopH c.1 b.2 t.2.bits, ⟨t.2.numTx, c.2, b.2⟩)

/-- the common shape of the three builders: `block` is the slice `block.Transactions()` (wrapper pointers) -/
def buildH (G : Growth) (comb : H → H → H) (zero : H) (callsHash : Bool) (sel : Heap H → Nat → Nat → Bool)
    (h : Heap H) (block : List Nat) : Heap H × MsgObj × Slice :=
  let numTx := block.length
  let a := makePtr h 0 numTx
  let b := makeByte a.1 0 numTx
  let m : MBH := { numTx := numTx, allHashes := a.2, finalHashes := Slice.nil, matchedBits := b.2, bits := Slice.nil }
  let f := fillLoopH G zero callsHash sel block.zipIdx (b.1, m, Slice.nil)
  let c := calcBlockH G comb zero f.1 f.2.1
  (c.1, c.2, f.2.2)

/-- `NewMerkleBlockWithTxnSet(block, txnSet)` (encode.go:119-143): the condition is `TxInSet(tx.Hash(), txnSet)`;
returns the message object and the slice `matchedIndices` -/
def newWithTxnSetH [DecidableEq H] (G : Growth) (comb : H → H → H) (zero : H) (h : Heap H) (block : List Nat)
    (txnSet : Slice) : Heap H × MsgObj × Slice :=
  buildH G comb zero true (fun h p _ => txInSetH zero h p (readPtrs h txnSet)) h block

/-- `NewMerkleBlockWithFilter(block, filter)` / `bloom.NewMerkleBlock(block, filter)` after the scan
(`matched i = matchedMap[i]`; the scan itself touches the filter only, see `Model/BloomTx.lean`) -/
def newWithFilterH (G : Growth) (comb : H → H → H) (zero : H) (h : Heap H) (block : List Nat)
    (matched : Nat → Bool) : Heap H × MsgObj × Slice :=
  buildH G comb zero false (fun _ _ i => matched i) h block

/-! ### negative variant: the swap-remove `TxInSet` (a seeded defect) -/

/-- `txSetIndex(tx, set)`: position of the first equal hash -/
def txSetIndexH [DecidableEq H] (zero : H) (h : Heap H) (tx : Nat) : List Nat → Option Nat
  | [] => none
  | next :: set =>
    if deref zero h tx = deref zero h next then some 0 else (txSetIndexH zero h tx set).map (· + 1)

/-- the loop of the defective `NewMerkleBlockWithTxnSet`:
```
remaining := txnSet
… if i := txSetIndex(tx.Hash(), remaining); i >= 0 {
      last := len(remaining) - 1
      remaining[i] = remaining[last]      // a store into the CALLER's array
      remaining = remaining[:last]
```
-/
def fillLoopSwapRemove [DecidableEq H] (G : Growth) (zero : H) :
    List (Nat × Nat) → Heap H × MBH × Slice × Slice → Heap H × MBH × Slice × Slice
  | [], acc => acc
  | (t, txIndex) :: rest, (h, m, mi, remaining) =>
    let a := txHashH zero h t
    match txSetIndexH zero a.1 a.2 (readPtrs a.1 remaining) with
    | some i =>
      let last := remaining.len - 1
      let h1 : Heap H := { a.1 with ptrs := storeA a.1.ptrs remaining i ((readPtrs a.1 remaining).getD last 0) }
      let remaining := { remaining with len := last }
      let b := appendByte G h1 m.matchedBits [0x01]
      let c := appendU32 G b.1 mi [txIndex]
      let d := txHashH zero c.1 t
      let e := appendPtr G d.1 m.allHashes [d.2]
      fillLoopSwapRemove G zero rest (e.1, { m with matchedBits := b.2, allHashes := e.2 }, c.2, remaining)
    | none =>
      let b := appendByte G a.1 m.matchedBits [0x00]
      let d := txHashH zero b.1 t
      let e := appendPtr G d.1 m.allHashes [d.2]
      fillLoopSwapRemove G zero rest (e.1, { m with matchedBits := b.2, allHashes := e.2 }, mi, remaining)

def newWithTxnSetSwapRemove [DecidableEq H] (G : Growth) (comb : H → H → H) (zero : H) (h : Heap H)
    (block : List Nat) (txnSet : Slice) : Heap H × MsgObj × Slice :=
  let numTx := block.length
  let a := makePtr h 0 numTx
  let b := makeByte a.1 0 numTx
  let m : MBH := { numTx := numTx, allHashes := a.2, finalHashes := Slice.nil, matchedBits := b.2, bits := Slice.nil }
  let f := fillLoopSwapRemove G zero block.zipIdx (b.1, m, Slice.nil, txnSet)
  let c := calcBlockH G comb zero f.1 f.2.1
  (c.1, c.2, f.2.2.1)

end Bch.Model.MerkleHeap
