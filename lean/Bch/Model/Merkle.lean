import Bch.Prim.Bytes
/-
Model of the partial-merkle-tree code: merkleblock/encode.go, bloom/merkleblock.go (builders) and
merkleblock/decode.go (extraction). Generic in the hash type `H` and the node combiner `comb`
(`blockchain.HashMerkleBranches`). Tree arithmetic is on `Nat`; the Go code uses `uint32`, which agrees
as long as `n + 2^h - 1 < 2^32`, i.e. for every `n ≤ MaxTxnCount` (the decoder's guard) — see `Props/C11`.
-/
namespace Bch.Model.Merkle

variable {H : Type} [DecidableEq H]

/-- `calcTreeWidth(height)` -/
def width (n h : Nat) : Nat := (n + 2^h - 1) / 2^h

/-- the `for calcTreeWidth(height) > 1 { height++ }` loop (fuel: 32 suffices for uint32 counts) -/
def heightLoop (n : Nat) : Nat → Nat → Nat
  | 0, h => h
  | fuel+1, h => if width n h > 1 then heightLoop n fuel (h+1) else h

def height (n : Nat) : Nat := heightLoop n 33 0

def calcHash (comb : H → H → H) (leaves : Nat → H) (n : Nat) : Nat → Nat → H
  | 0, pos => leaves pos
  | h+1, pos =>
    let l := calcHash comb leaves n h (2*pos)
    let r := if 2*pos+1 < width n h then calcHash comb leaves n h (2*pos+1) else l
    comb l r

/-- Go: `for i := pos<<height; i < (pos+1)<<height && i < numTx; i++ { isParent |= matchedBits[i] }` -/
def isParentGo (m : Nat → Bool) (n h pos : Nat) : Bool :=
  (List.range' (pos * 2^h) (min ((pos+1) * 2^h) n - pos * 2^h)).any m

/-- `traverseAndBuild`: emitted (bits, hashes) -/
def build (comb : H → H → H) (leaves : Nat → H) (m : Nat → Bool) (n : Nat) :
    Nat → Nat → List Bool × List H
  | 0, pos => ([isParentGo m n 0 pos], [leaves pos])
  | h+1, pos =>
    if isParentGo m n (h+1) pos then
      let (b1, h1) := build comb leaves m n h (2*pos)
      if 2*pos+1 < width n h then
        let (b2, h2) := build comb leaves m n h (2*pos+1)
        (true :: (b1 ++ b2), h1 ++ h2)
      else (true :: b1, h1)
    else ([false], [calcHash comb leaves n (h+1) pos])

/-- `Flags[i/8] |= bits[i] << (i%8)` -/
def packByte (bs : List Bool) : UInt8 :=
  (bs.zipIdx.foldl (fun acc (b, i) => if b then acc ||| ((1 : UInt8) <<< UInt8.ofNat i) else acc) 0)

def packFlags : List Bool → List UInt8
  | [] => []
  | b :: bs => packByte ((b :: bs).take 8) :: packFlags (bs.drop 7)
termination_by l => l.length
decreasing_by simp only [List.length_drop, List.length_cons]; omega

/-- `NewMerkleBlockFromMsg`: bit i = Flags[i/8] & (1 << (i%8)) -/
def unpackFlags (flags : List UInt8) : List Bool :=
  flags.flatMap fun b => (List.range 8).map fun i => b &&& ((1 : UInt8) <<< UInt8.ofNat i) ≠ 0

structure Msg (H : Type) where
  numTx : Nat
  hashes : List H
  flags : List UInt8

/-- a builder run: message and matched index list -/
def buildMsg (comb : H → H → H) (leaves : List H) (m : Nat → Bool) (dflt : H) : Msg H × List Nat :=
  let n := leaves.length
  let (bits, hs) := build comb (fun i => leaves.getD i dflt) m n (height n) 0
  (⟨n, hs, packFlags bits⟩, (List.range n).filter m)

/-- state of `traverseAndExtract` -/
structure Ext (H : Type) where
  bitsUsed : Nat := 0
  hashesUsed : Nat := 0
  bad : Bool := false
  matchedHashes : List H := []
  matchedItems : List Nat := []

/-- `traverseAndExtract` exactly as written: keeps traversing after `bad` is latched, returning `zero` -/
def traverse (comb : H → H → H) (zero : H) (n : Nat) (bits : Array Bool) (hashes : Array H) :
    Nat → Nat → Ext H → H × Ext H
  | h, pos, st =>
    if st.bitsUsed ≥ bits.size then (zero, { st with bad := true })
    else
      let parent := bits.getD st.bitsUsed false
      let st := { st with bitsUsed := st.bitsUsed + 1 }
      match h with
      | 0 =>
        if st.hashesUsed ≥ hashes.size then (zero, { st with bad := true })
        else
          let x := hashes.getD st.hashesUsed zero
          let st := { st with hashesUsed := st.hashesUsed + 1 }
          (x, if parent then { st with matchedHashes := st.matchedHashes ++ [x], matchedItems := st.matchedItems ++ [pos] } else st)
      | h'+1 =>
        if !parent then
          if st.hashesUsed ≥ hashes.size then (zero, { st with bad := true })
          else (hashes.getD st.hashesUsed zero, { st with hashesUsed := st.hashesUsed + 1 })
        else
          let (l, st) := traverse comb zero n bits hashes h' (2*pos) st
          if 2*pos+1 < width n h' then
            let (r, st) := traverse comb zero n bits hashes h' (2*pos+1) st
            let st := if r = l then { st with bad := true } else st
            (comb l r, st)
          else (comb l l, st)

/-- `wire.MaxBlockPayload() / 61` with the default 128 MB excessive block size (tied by `Bch.Tie`) -/
def maxTxnCount : Nat := 128000000 / 61

structure Extracted (H : Type) where
  root : Option H
  matches_ : List H
  items : List Nat
  bad : Bool

/-- `NewMerkleBlockFromMsg` + `ExtractMatches` + the three accessors -/
def extractMsg (comb : H → H → H) (zero : H) (msg : Msg H) : Extracted H :=
  let bits := (unpackFlags msg.flags).toArray
  let hashes := msg.hashes.toArray
  let fail : Extracted H := ⟨none, [], [], false⟩
  if msg.numTx = 0 then fail
  else if msg.numTx > maxTxnCount then fail
  else if hashes.size > msg.numTx then fail
  else if bits.size < hashes.size then fail
  else
    let (root, st) := traverse comb zero msg.numTx bits hashes (height msg.numTx) 0 {}
    let ok := !st.bad && (st.bitsUsed + 7) / 8 == (bits.size + 7) / 8 && st.hashesUsed == hashes.size
    ⟨if ok then some root else none, st.matchedHashes, st.matchedItems, st.bad⟩

/-! ### the `PartialBlock` object: the traversal cursors are fields and survive between calls -/

structure PartialBlock (H : Type) where
  msg : Msg H
  st : Ext H := {}

/-- result of `ExtractMatches` from the cursor state `st0` (the checks and the traversal of the method body) -/
def extractFrom (comb : H → H → H) (zero : H) (msg : Msg H) (st0 : Ext H) : Option H × Ext H :=
  let bits := (unpackFlags msg.flags).toArray
  let hashes := msg.hashes.toArray
  if msg.numTx = 0 then (none, st0)
  else if msg.numTx > maxTxnCount then (none, st0)
  else if hashes.size > msg.numTx then (none, st0)
  else if bits.size < hashes.size then (none, st0)
  else
    let (root, st) := traverse comb zero msg.numTx bits hashes (height msg.numTx) 0 st0
    let ok := !st.bad && (st.bitsUsed + 7) / 8 == (bits.size + 7) / 8 && st.hashesUsed == hashes.size
    (if ok then some root else none, st)

/-- `(*PartialBlock).ExtractMatches` after fix 35d217e: the cursors are reset first -/
def PartialBlock.ExtractMatches (comb : H → H → H) (zero : H) (pb : PartialBlock H) : Option H × PartialBlock H :=
  let (r, st) := extractFrom comb zero pb.msg {}
  (r, { pb with st := st })

/-- the method as it was before the fix: continues from the cursors the previous call left (negative witness) -/
def PartialBlock.ExtractMatchesNoReset (comb : H → H → H) (zero : H) (pb : PartialBlock H) : Option H × PartialBlock H :=
  let (r, st) := extractFrom comb zero pb.msg pb.st
  (r, { pb with st := st })

end Bch.Model.Merkle
