import Bch.Model.SliceHeap
import Bch.Model.Gcs
/-
Which memory a `gcs.Filter` object of /repo/gcs/gcs.go holds and hands out, on the Go slice/heap
semantics of `Model/SliceHeap.lean` (heap = list of `[]byte` backing arrays, slice headers
`(buf, off, len, cap)`, `make`, `writeAt`).  All *contents* are computed by the value-level model
`Model/Gcs.lean`; this file only says which arrays are allocated, which are written, and which slice
header ends up in the object or in the caller's hands.

* `Filter{n, p, modulusNP, filterData []byte}`: three scalars kept by value and one slice header.
* `FromBytes`: `f.filterData = make([]byte, len(d)); copy(f.filterData, d)` — a fresh array.
* `FromNBytes`: `bytes.NewBuffer(d)` wraps the caller's slice (no copy); after `ReadVarInt`,
  `buffer.Bytes()` is the sub-slice `d[k:]` of the caller's array; `FromBytes` then copies it.
* `BuildGCSFilter`: `b := bstream.NewBStreamWriter(0)` is a private `[]byte` grown by `append`;
  `f.filterData = b.Bytes()` is that buffer, to which nothing else holds a reference (`b` is local).
* `Bytes`, `PBytes`: `make` of the exact size + `copy`.  `NBytes`, `NPBytes`: a local `bytes.Buffer`
  grown once (`Grow`), filled, and its contents `buffer.Bytes()` returned; the amount of spare capacity
  the buffer leaves behind the data is implementation dependent — a parameter `g` over which every
  theorem quantifies (as for `append` in `SliceHeap.lean`).
* `Match`, `ZipMatchAny`, `HashMatchAny`, `MatchAny`: `filterData, _ := f.Bytes()` — a fresh copy —
  and a `bstream` reader over that copy (kkdai/bstream v1.0.0 readers only re-slice their own header,
  they store nothing); the query arguments are only read.
-/
namespace Bch.Model.GcsHeap
open Bch Bch.Model Bch.Model.SliceHeap

/-- a `gcs.Filter` object: `n`, `p`, `modulusNP` by value, `filterData` as a slice header -/
structure FilterObj where
  n : Nat
  p : Nat
  modulusNP : UInt64
  filterData : Slice
  deriving DecidableEq, Repr

/-- the value-level filter an object stands for in a heap -/
def abs (h : Heap) (f : FilterObj) : Gcs.Filter := ⟨f.n, f.p, f.modulusNP, read h f.filterData⟩

/-- `copy(dst, src)`: stores `min(len(dst), len(src))` elements through `dst` -/
def copyTo (h : Heap) (dst : Slice) (src : List UInt8) : Heap :=
  h.modify dst.buf (fun a => writeAt a dst.off (src.take dst.len))

/-- `s := make([]byte, len(xs), len(xs)+spare); copy(s, xs)`: a fresh array holding `xs` -/
def fresh (h : Heap) (xs : List UInt8) (spare : Nat) : Heap × Slice :=
  let mk := make h xs.length (xs.length + spare)
  (copyTo mk.1 mk.2 xs, mk.2)

/-- any sequence of later stores by anybody: each entry `(b, fn)` rewrites the array of index `b`
(`fn = (writeAt · pos xs)` for a store through a slice, but `fn` may be any function) -/
def stores (h : Heap) (ws : List (Nat × (List UInt8 → List UInt8))) : Heap :=
  ws.foldl (fun hh w => hh.modify w.1 w.2) h

/-! ## constructors -/

/-- `FromBytes(N, P, M, d)`: `filterData` is a fresh array holding a copy of the bytes of `d`
(for a slice inside its array `len(read h d) = len(d)`, so this is `make([]byte, len(d))` + `copy`). -/
def fromBytes (h : Heap) (n p : Nat) (m : UInt64) (d : Slice) : Heap × Except Gcs.BuildErr FilterObj :=
  if p > 32 then (h, .error .pTooBig)
  else
    let c := fresh h (read h d) 0
    (c.1, .ok ⟨n, p, UInt64.ofNat n * m, c.2⟩)

/-- **negative witness** — what a seeded defect did: `f.filterData = d`, the caller's slice itself -/
def fromBytesAliasing (h : Heap) (n p : Nat) (m : UInt64) (d : Slice) :
    Heap × Except Gcs.BuildErr FilterObj :=
  if p > 32 then (h, .error .pTooBig)
  else (h, .ok ⟨n, p, UInt64.ofNat n * m, d⟩)

/-- `d[k:]` -/
def sliceFrom (d : Slice) (k : Nat) : Slice := ⟨d.buf, d.off + k, d.len - k, d.cap - k⟩

/-- `FromNBytes(P, M, d)`: the CompactSize is read from the caller's slice, the rest `d[k:]`
(`k` = number of bytes consumed) is still the caller's memory and is handed to `FromBytes`. -/
def fromNBytes (h : Heap) (p : Nat) (m : UInt64) (d : Slice) : Heap × Except Gcs.FromErr FilterObj :=
  match Gcs.readVarInt (read h d) with
  | none => (h, .error .varint)
  | some (N, rest) =>
    if N ≥ 2^32 then (h, .error .nTooBig)
    else
      let r := fromBytes h N p m (sliceFrom d ((read h d).length - rest.length))
      match r.2 with
      | .ok f => (r.1, .ok f)
      | .error _ => (r.1, .error .pTooBig)

/-- `BuildGCSFilter(P, M, key, data)`: the elements of `data` are only read; the bit stream is a
private buffer (`var`-like empty slice with capacity 0, one `append` per byte, growth policy `g`)
which becomes `filterData`.  For `N = 0` the function returns before creating the stream and
`filterData` stays the nil slice. -/
def build (sip : Bytes → UInt64) (g : Nat → Nat) (h : Heap) (P : Nat) (M : UInt64) (data : List Slice) :
    Heap × Except Gcs.BuildErr FilterObj :=
  match Gcs.BuildGCSFilter sip P M (data.map (read h)) with
  | .error e => (h, .error e)
  | .ok v =>
    let a := appendEach g h Slice.nil v.data
    (a.1, .ok ⟨v.n, v.p, v.modulusNP, a.2⟩)

/-! ## serialising accessors: each returns a freshly allocated slice -/

/-- `Bytes()`: `make([]byte, len(f.filterData))` + `copy` -/
def bytes (h : Heap) (f : FilterObj) : Heap × Slice := fresh h (abs h f).data 0

/-- `PBytes()`: `make([]byte, len(f.filterData)+1)`, `[0] = p`, `copy([1:], f.filterData)` -/
def pBytes (h : Heap) (f : FilterObj) : Heap × Slice := fresh h (Gcs.PBytes (abs h f)) 0

/-- `NBytes()`: the contents of a local `bytes.Buffer` (spare capacity `g total`) -/
def nBytes (g : Nat → Nat) (h : Heap) (f : FilterObj) : Heap × Slice :=
  fresh h (Gcs.NBytes (abs h f)) (g (Gcs.NBytes (abs h f)).length)

/-- `NPBytes()`: the contents of a local `bytes.Buffer` (spare capacity `g total`) -/
def nPBytes (g : Nat → Nat) (h : Heap) (f : FilterObj) : Heap × Slice :=
  fresh h (Gcs.NPBytes (abs h f)) (g (Gcs.NPBytes (abs h f)).length)

/-! ## queries: a fresh copy of `filterData` is decoded, the arguments are read -/

/-- the filter value the query decodes: the receiver's scalars and the bytes of the copy `c` -/
def viaCopy (h : Heap) (f : FilterObj) (c : Slice) : Gcs.Filter := ⟨f.n, f.p, f.modulusNP, read h c⟩

def matchH (sip : Bytes → UInt64) (h : Heap) (f : FilterObj) (d : Slice) : Heap × Bool :=
  let c := bytes h f
  (c.1, Gcs.Match sip (viaCopy c.1 f c.2) (read c.1 d))

/-- `ZipMatchAny` returns before `f.Bytes()` when `len(data) == 0` -/
def zipMatchAnyH (sip : Bytes → UInt64) (h : Heap) (f : FilterObj) (data : List Slice) : Heap × Bool :=
  if data.isEmpty then (h, false)
  else
    let c := bytes h f
    (c.1, Gcs.ZipMatchAny sip (viaCopy c.1 f c.2) (data.map (read c.1)))

/-- `HashMatchAny` returns before `f.Bytes()` when `len(data) == 0` -/
def hashMatchAnyH (sip : Bytes → UInt64) (h : Heap) (f : FilterObj) (data : List Slice) : Heap × Bool :=
  if data.isEmpty then (h, false)
  else
    let c := bytes h f
    (c.1, Gcs.HashMatchAny sip (viaCopy c.1 f c.2) (data.map (read c.1)))

def matchAnyH (sip : Bytes → UInt64) (h : Heap) (f : FilterObj) (data : List Slice) : Heap × Bool :=
  if data.length ≥ f.n / 2 then hashMatchAnyH sip h f data else zipMatchAnyH sip h f data

end Bch.Model.GcsHeap
