import Bch.Model.BlockCache
/-
Model of the STANDALONE transaction wrapper of /repo/tx.go (`NewTx`, `NewTxFromBytes`, `NewTxFromReader`,
`MsgTx`, `Hash` with its memo, `Index`, `SetIndex`, `TxIndexUnknown`) and of the height bookkeeping and the
message+bytes constructor of /repo/block.go (`Height`, `SetHeight`, `BlockHeightUnknown`,
`NewBlockFromBlockAndBytes`).  Same style as `Bch/Model/BlockCache.lean`:

* `wire` is external.  Its results for the wrapped message are the parameter record `Wire` (the
  transaction hash `msgTx.TxHash()`); `wire.MsgTx.Deserialize` on a byte stream is the parameter
  `Decoder` (error, or a message together with the number of bytes it was decoded from).
* Object identity is modelled by handles (natural numbers).  A wrapper allocates fresh handles from its
  counter `next`; the handle of the wrapped message is given by the constructor.
* The model describes what the code does NOW (tx.go was never changed by a fix commit; the only fix in
  this area, e199915, concerns `NewBlockFromBytes`): `NewTxFromBytes` = `NewTxFromReader` on a reader over
  the input, the wrapper keeps only the decoded message (no bytes are cached, trailing input is ignored),
  the hash memo starts empty, the index starts at `TxIndexUnknown`.

Out of scope (as in `BlockCache`): the caller mutating the `wire.MsgTx` reached through `MsgTx()` after
`Hash()` was memoised; `Wire` is fixed for the lifetime of the wrapper.
-/
namespace Bch.Model.TxCache
open Bch

/-- `const TxIndexUnknown = -1` (tx.go:18) -/
def txIndexUnknown : Int := -1

/-- results of `wire` for the wrapped transaction message -/
structure Wire where
  /-- `msgTx.TxHash()` -/
  hash : Bytes
  deriving Repr, DecidableEq

/-- `wire.MsgTx.Deserialize` reading from a byte stream: `none` = error, `some (W, n)` = a message with
wire results `W` was decoded from the first `n` bytes of the stream -/
abbrev Decoder := Bytes → Option (Wire × Nat)

/-- `type Tx struct { msgTx; txHash; txIndex }` plus the fresh-handle counter -/
structure St where
  /-- handle of the wrapped `*wire.MsgTx` -/
  msg : Nat
  /-- `txHash *chainhash.Hash`: the memoised hash (value, handle of the hash object); `nil` = `none` -/
  txHash : Option (Bytes × Nat) := none
  /-- `txIndex int` (any Go `int` is an `Int`) -/
  index : Int := txIndexUnknown
  next : Nat
  deriving Repr

inductive Call | hash | index | setIndex (i : Int) | msgTx
  deriving Repr, DecidableEq

inductive Res
  | hash (v : Bytes) (handle : Nat)
  | index (i : Int)
  | unit
  | msg (handle : Nat)
  deriving Repr, DecidableEq

def step (W : Wire) (s : St) : Call → St × Res
  | .hash =>
    match s.txHash with
    | some (v, h) => (s, .hash v h)
    | none => ({ s with txHash := some (W.hash, s.next), next := s.next + 1 }, .hash W.hash s.next)
  | .index => (s, .index s.index)
  | .setIndex i => ({ s with index := i }, .unit)
  | .msgTx => (s, .msg s.msg)

/-- `NewTx(msgTx)`: wraps the caller's message object `m` itself; fresh handles lie above it -/
def newTx (m : Nat) : St := { msg := m, next := m + 1 }

/-- `NewTxFromReader(r)`: decode; on success the wrapper holds the freshly decoded message (handle 0, the
first object of this wrapper) and the reader is left at the first unread byte -/
def newTxFromReader (deser : Decoder) (input : Bytes) : Option (Wire × St × Bytes) :=
  match deser input with
  | none => none
  | some (W, n) => some (W, { msg := 0, next := 1 }, input.drop n)

/-- `NewTxFromBytes(b)` = `NewTxFromReader(bytes.NewReader(b))`; what is left in the reader is dropped -/
def newTxFromBytes (deser : Decoder) (input : Bytes) : Option (Wire × St) :=
  (newTxFromReader deser input).map fun x => (x.1, x.2.1)

end Bch.Model.TxCache

/-! ## `Block.Height / SetHeight` and the constructors of block.go, on top of the cache model -/
namespace Bch.Model.BlockHeight
open Bch

/-- `const BlockHeightUnknown = int32(-1)` (block.go:23) -/
def blockHeightUnknown : Int := -1

/-- the whole `Block` struct: the memoising part (`BlockCache.St`) and `blockHeight int32` -/
structure St where
  cache : BlockCache.St := {}
  height : Int := blockHeightUnknown
  deriving Repr

inductive Call | cache (c : BlockCache.Call) | height | setHeight (h : Int)
  deriving Repr

inductive Res | cache (r : BlockCache.Res) | height (h : Int) | unit
  deriving Repr

def step (W : BlockCache.Wire) (s : St) : Call → St × Res
  | .cache c => ({ s with cache := (BlockCache.step W s.cache c).1 }, .cache (BlockCache.step W s.cache c).2)
  | .height => (s, .height s.height)
  | .setHeight h => ({ s with height := h }, .unit)

/-- `NewBlock(msg)` / `NewBlockFromReader(r)` -/
def newBlock : St := { cache := BlockCache.initMsg }

/-- `NewBlockFromBytes(b)` after fix e199915: `consumed` = the prefix of `b` the decoder read -/
def newBlockFromBytes (consumed : Bytes) : St := { cache := BlockCache.initBytes consumed }

/-- `NewBlockFromBlockAndBytes(msg, bytes)`: the caller's bytes are stored unchecked -/
def newBlockFromBlockAndBytes (bytes : Bytes) : St := { cache := BlockCache.initBytes bytes }

end Bch.Model.BlockHeight
