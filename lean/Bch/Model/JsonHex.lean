import Bch.Prim.Bytes
/-
Model of `convertHex` in /repo/jsonpb/jsonpb.go (after fix 5b940ce) over an inductive JSON value.
Go type assertions are checked primitives: a failing `x.(string)` is the fault `badAssert`.
The per-string conversion (chainhash / hex / base64) is the external parameter `conv`.
-/
namespace Bch.Model.JsonHex
open Bch

inductive J where
  | null
  | bool (b : Bool)
  | num (n : Int)
  | str (s : Bytes)
  | arr (l : List J)
  | obj (l : List (Bytes × J))

inductive Fault | badAssert deriving DecidableEq, Repr

variable (conv : Bytes → Bytes)

mutual
/-- `convertHex(data)`: returns the (in Go: in-place) converted value -/
def convertHex : J → J
  | .obj kvs => .obj (convObj kvs)
  | .arr l =>
    match l with
    | [] => .arr []
    | .str s :: rest => .arr (convStrs (.str s :: rest))
    | .obj o :: rest => .arr (convAll (.obj o :: rest))
    | .arr a :: rest => .arr (convAll (.arr a :: rest))
    | other => .arr other
  | j => j
/-- map entries: strings converted, containers recursed into, nulls deleted -/
def convObj : List (Bytes × J) → List (Bytes × J)
  | [] => []
  | (k, .str s) :: rest => (k, .str (conv s)) :: convObj rest
  | (k, .obj o) :: rest => (k, .obj (convObj o)) :: convObj rest
  | (k, .arr a) :: rest => (k, convertHex (.arr a)) :: convObj rest
  | (_, .null) :: rest => convObj rest
  | kv :: rest => kv :: convObj rest
/-- array whose first element is a string: every string element converted, everything else skipped -/
def convStrs : List J → List J
  | [] => []
  | .str s :: rest => .str (conv s) :: convStrs rest
  | j :: rest => j :: convStrs rest
/-- array whose first element is a container: `convertHex` on every element -/
def convAll : List J → List J
  | [] => []
  | j :: rest => convertHex j :: convAll rest
end

/-- the loop as written before the fix: `s.(string)` on every element once the first one is a string -/
def convStrsUnchecked : List J → Except Fault (List J)
  | [] => .ok []
  | .str s :: rest => (convStrsUnchecked rest).map (.str (conv s) :: ·)
  | _ :: _ => .error .badAssert

end Bch.Model.JsonHex
