import Bch.Model.Wif
import Bch.Prim.Secp256k1
/-
Model of `(*WIF).SerializePubKey` of /repo/wif.go:
```
pk := (*bchec.PublicKey)(&w.PrivKey.PublicKey)
if w.CompressPubKey { return pk.SerializeCompressed() }
return pk.SerializeUncompressed()
```
`w.PrivKey.PublicKey` is the point `d•G` computed by `bchec.PrivKeyFromBytes`. The curve arithmetic and the two
point serialisations are a parameter pack `Curve`; `secp` is the instance used by the differential driver
(`Bch/Drive/C06.lean`, `pubSer`), built from the executable stand-in `Bch/Prim/Secp256k1.lean`.
-/
namespace Bch.Model.Wif
open Bch

structure Curve (Pt : Type) where
  /-- `k ↦ k•G` (`ScalarBaseMult`) -/
  mulG : Nat → Pt
  /-- `SerializeCompressed` -/
  serC : Pt → Bytes
  /-- `SerializeUncompressed` -/
  serU : Pt → Bytes

def SerializePubKey {Pt : Type} (C : Curve Pt) (w : WIF) : Bytes :=
  if w.compress then C.serC (C.mulG w.d) else C.serU (C.mulG w.d)

/-- secp256k1 as bchec presents it: the point at infinity is the pair (0,0) -/
def secp : Curve Prim.Secp.Point where
  mulG d := match Prim.Secp.mulG d with | .inf => .aff 0 0 | q => q
  serC := Prim.Secp.serCompressed
  serU := Prim.Secp.serUncompressed

end Bch.Model.Wif
