import Bch.Model.Bloom
/-
Model of matchTxAndUpdate (bloom/filter.go) and GetMatchedIndices (bloom/merkleblock.go).
Generic in the filter type: only `test` (= matches), `add` and the update flag are used, so the theorems of C10
hold for every filter with `add_matches` / `add_mono`; the driver instantiates the real bloom filter.
Transactions are abstract: `txscript.PushedData` / `GetScriptClass` and the transaction hash are
external and their results are part of the transaction record.
-/
namespace Bch.Model.BloomTx
open Bch

structure TxOut where
  /-- `txscript.PushedData(pkScript)`: `none` = parse error -/
  pushes : Option (List Bytes)
  /-- `GetScriptClass ∈ {PubKeyTy, MultiSigTy}` -/
  isPubKeyOrMultisig : Bool
  deriving Repr

structure TxIn where
  prevHash : Bytes
  prevIdx : Nat
  pushes : Option (List Bytes)
  deriving Repr

structure Tx where
  id : Bytes
  outs : List TxOut
  ins : List TxIn
  deriving Repr

/-- what the scan needs from a filter -/
structure FilterOps (F : Type) where
  test : F → Bytes → Bool
  add : F → Bytes → F
  /-- 0 = BloomUpdateNone, 1 = BloomUpdateAll, 2 = BloomUpdateP2PubkeyOnly -/
  flags : F → Nat

def outPointBytes (hash : Bytes) (idx : Nat) : Bytes := hash ++ Bytes.ofNatLE 4 idx

section
variable {F : Type} (O : FilterOps F)

def maybeAddOutpoint (f : F) (out : TxOut) (id : Bytes) (idx : Nat) : F :=
  match O.flags f with
  | 1 => O.add f (outPointBytes id idx)
  | 2 => if out.isPubKeyOrMultisig then O.add f (outPointBytes id idx) else f
  | _ => f

/-- the loop over outputs: (filter, matched) threaded; `idx` is the output index -/
def scanOuts (id : Bytes) : List TxOut → Nat → F → Bool → F × Bool
  | [], _, f, m => (f, m)
  | o :: os, idx, f, m =>
    match o.pushes with
    | none => scanOuts id os (idx+1) f m
    | some ps =>
      if ps.any (O.test f) then scanOuts id os (idx+1) (maybeAddOutpoint O f o id idx) true
      else scanOuts id os (idx+1) f m

def inputMatches (f : F) (i : TxIn) : Bool :=
  O.test f (outPointBytes i.prevHash i.prevIdx) ||
  (match i.pushes with | none => false | some ps => ps.any (O.test f))

def matchTxAndUpdate (f : F) (tx : Tx) : F × Bool :=
  let m0 := O.test f tx.id
  let (f', m) := scanOuts O tx.id tx.outs 0 f m0
  if m then (f', true) else (f', tx.ins.any (inputMatches O f'))

/-- state of the block scan -/
structure Scan (F : Type) where
  filter : F
  matched : List Nat          -- indices with matchedIndices[i] = true (as a set)
  steps : Nat := 0            -- ghost: number of matchTxAndUpdate evaluations
  outOfFuel : Bool := false
  /-- number of times the filter changed so far (Go: `version`) -/
  version : Nat := 0
  /-- `checkedAt[txIndex]` -/
  checkedAt : List (Nat × Nat) := []

/-- `inputs[hash]`: (transaction, index) registered so far, one entry per input -/
abbrev Inputs := List (Bytes × Nat)

def dependants (block : Array Tx) (inputs : Inputs) (id : Bytes) : List Nat :=
  (inputs.filter (·.1 = id)).map (·.2) |>.filter (· < block.size)

/-- reference semantics = the scan as originally written (re-check every dependant on every match);
    exponential in the worst case, kept as the specification the repaired scan is compared with -/
def checkFilterTxRef (block : Array Tx) (inputs : Inputs) : Nat → Nat → Scan F → Scan F
  | 0, _, s => { s with outOfFuel := true }
  | fuel+1, txIndex, s =>
    match block[txIndex]? with
    | none => s
    | some tx =>
      let (f', m) := matchTxAndUpdate O s.filter tx
      let s := { s with filter := f', steps := s.steps + 1 }
      if m then
        let s := { s with matched := if s.matched.contains txIndex then s.matched else txIndex :: s.matched }
        (dependants block inputs tx.id).foldl (fun s d => checkFilterTxRef block inputs fuel d s) s
      else s

/-- `checkFilterTx` after fix: skip a transaction already checked against the current filter version.
    `same f f'` is the harness-visible "bit array unchanged" test (`bytes.Equal`). -/
def checkFilterTx (same : F → F → Bool) (block : Array Tx) (inputs : Inputs) : Nat → Nat → Scan F → Scan F
  | 0, _, s => { s with outOfFuel := true }
  | fuel+1, txIndex, s =>
    match block[txIndex]? with
    | none => s
    | some tx =>
      if s.checkedAt.lookup txIndex = some s.version then s
      else
        let s := { s with checkedAt := (txIndex, s.version) :: s.checkedAt.filter (·.1 ≠ txIndex) }
        let (f', m) := matchTxAndUpdate O s.filter tx
        let s := { s with filter := f', steps := s.steps + 1,
                          version := if same s.filter f' then s.version else s.version + 1 }
        if m then
          let s := { s with matched := if s.matched.contains txIndex then s.matched else txIndex :: s.matched }
          (dependants block inputs tx.id).foldl (fun s d => checkFilterTx same block inputs fuel d s) s
        else s

/-- the outer loop of `GetMatchedIndices`, parameterised by the per-transaction check -/
def scanLoop (check : Inputs → Nat → Scan F → Scan F) (block : Array Tx) : Nat → Nat → Inputs → Scan F → Scan F
  | _, 0, _, s => s
  | i, n+1, inputs, s =>
    match block[i]? with
    | none => s
    | some tx =>
      let inputs := inputs ++ tx.ins.map (fun inp => (inp.prevHash, i))
      scanLoop check block (i+1) n inputs (check inputs i s)

def GetMatchedIndices (same : F → F → Bool) (fuel : Nat) (block : Array Tx) (f : F) : Scan F :=
  scanLoop (fun inputs i s => checkFilterTx O same block inputs fuel i s) block 0 block.size [] { filter := f, matched := [] }

def GetMatchedIndicesRef (fuel : Nat) (block : Array Tx) (f : F) : Scan F :=
  scanLoop (fun inputs i s => checkFilterTxRef O block inputs fuel i s) block 0 block.size [] { filter := f, matched := [] }

end

/-- the real bloom filter as an instance -/
def bloomSame (a b : Bloom.Filter) : Bool :=
  (match a with | some m => m.bits | none => []) == (match b with | some m => m.bits | none => [])

def bloomOps : FilterOps Bloom.Filter where
  test := Bloom.Matches
  add := Bloom.add
  flags := fun f => match f with | some m => m.flags | none => 0

end Bch.Model.BloomTx
