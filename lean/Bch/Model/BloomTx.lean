import Bch.Model.Bloom
/-
Model of matchTxAndUpdate (bloom/filter.go) and GetMatchedIndices (bloom/merkleblock.go).
Generic in the filter type: only `test` (= matches), `add` and the update flag are used, so the theorems of C10
hold for every filter with `add_matches` / `add_mono`; the driver instantiates the real bloom filter.
Transactions are abstract: `txscript.PushedData` / `GetScriptClass` and the transaction hash are
external and their results are part of the transaction record.
-/
namespace Bch.Model.BloomTx
open Bch

structure TxOut where
  /-- `txscript.PushedData(pkScript)`: `none` = parse error -/
  pushes : Option (List Bytes)
  /-- `GetScriptClass ∈ {PubKeyTy, MultiSigTy}` -/
  isPubKeyOrMultisig : Bool
  deriving Repr

structure TxIn where
  prevHash : Bytes
  prevIdx : Nat
  pushes : Option (List Bytes)
  deriving Repr

structure Tx where
  id : Bytes
  outs : List TxOut
  ins : List TxIn
  deriving Repr

/-- what the scan needs from a filter -/
structure FilterOps (F : Type) where
  test : F → Bytes → Bool
  add : F → Bytes → F
  /-- 0 = BloomUpdateNone, 1 = BloomUpdateAll, 2 = BloomUpdateP2PubkeyOnly -/
  flags : F → Nat

def outPointBytes (hash : Bytes) (idx : Nat) : Bytes := hash ++ Bytes.ofNatLE 4 idx

section
variable {F : Type} (O : FilterOps F)

def maybeAddOutpoint (f : F) (out : TxOut) (id : Bytes) (idx : Nat) : F :=
  match O.flags f with
  | 1 => O.add f (outPointBytes id idx)
  | 2 => if out.isPubKeyOrMultisig then O.add f (outPointBytes id idx) else f
  | _ => f

/-- the loop over outputs: (filter, matched) threaded; `idx` is the output index -/
def scanOuts (id : Bytes) : List TxOut → Nat → F → Bool → F × Bool
  | [], _, f, m => (f, m)
  | o :: os, idx, f, m =>
    match o.pushes with
    | none => scanOuts id os (idx+1) f m
    | some ps =>
      if ps.any (O.test f) then scanOuts id os (idx+1) (maybeAddOutpoint O f o id idx) true
      else scanOuts id os (idx+1) f m

def inputMatches (f : F) (i : TxIn) : Bool :=
  O.test f (outPointBytes i.prevHash i.prevIdx) ||
  (match i.pushes with | none => false | some ps => ps.any (O.test f))

def matchTxAndUpdate (f : F) (tx : Tx) : F × Bool :=
  let m0 := O.test f tx.id
  let (f', m) := scanOuts O tx.id tx.outs 0 f m0
  if m then (f', true) else (f', tx.ins.any (inputMatches O f'))

/-- state of the block scan -/
structure Scan (F : Type) where
  filter : F
  matched : List Nat          -- indices with matchedIndices[i] = true (as a set)
  steps : Nat := 0            -- ghost: number of matchTxAndUpdate evaluations
  outOfFuel : Bool := false

/-- `inputs[hash]`: (transaction, index) registered so far, one entry per input -/
abbrev Inputs := List (Bytes × Nat)

def dependants (block : Array Tx) (inputs : Inputs) (id : Bytes) : List Nat :=
  (inputs.filter (·.1 = id)).map (·.2) |>.filter (· < block.size)

/-- `checkFilterTx`; fuel-bounded because the Go recursion is not structurally terminating -/
def checkFilterTx (block : Array Tx) (inputs : Inputs) : Nat → Nat → Scan F → Scan F
  | 0, _, s => { s with outOfFuel := true }
  | fuel+1, txIndex, s =>
    match block[txIndex]? with
    | none => s
    | some tx =>
      let (f', m) := matchTxAndUpdate O s.filter tx
      let s := { s with filter := f', steps := s.steps + 1 }
      if m then
        let s := { s with matched := if s.matched.contains txIndex then s.matched else txIndex :: s.matched }
        (dependants block inputs tx.id).foldl (fun s d => checkFilterTx block inputs fuel d s) s
      else s

def GetMatchedIndices (fuel : Nat) (block : Array Tx) (f : F) : Scan F :=
  let rec go (i : Nat) (n : Nat) (inputs : Inputs) (s : Scan F) : Scan F :=
    match n with
    | 0 => s
    | n+1 =>
      match block[i]? with
      | none => s
      | some tx =>
        let inputs := inputs ++ tx.ins.map (fun inp => (inp.prevHash, i))
        go (i+1) n inputs (checkFilterTx O block inputs fuel i s)
  go 0 block.size [] { filter := f, matched := [] }

end

/-- the real bloom filter as an instance -/
def bloomOps : FilterOps Bloom.Filter where
  test := Bloom.Matches
  add := Bloom.add
  flags := fun f => match f with | some m => m.flags | none => 0

end Bch.Model.BloomTx
