import Bch.Model.Merkle
import Bch.Model.BloomTx
/-
How the merkle-block builders obtain the subset, and the second builder.

* `merkleblock.NewMerkleBlockWithTxnSet(block, txnSet)` (merkleblock/encode.go) marks transaction `i` iff
  `TxInSet(tx.Hash(), txnSet)`: `selectBySet`, `buildWithTxnSet`.
* `merkleblock.NewMerkleBlockWithFilter(block, filter)` (merkleblock/encode.go) and
  `bloom.NewMerkleBlock(block, filter)` (bloom/merkleblock.go) mark transaction `i` iff
  `bloom.GetMatchedIndices(block, filter)[i]`: `selectByScan`, `buildWithFilter` (first builder),
  `newMerkleBlockBloom` (second builder).
* The traversal code of bloom/merkleblock.go (`calcTreeWidth`, `calcHash`, `traverseAndBuild`, height loop,
  flag loop) is textually identical to that of merkleblock/encode.go (only the receiver type is renamed and
  `calcBlock` is inlined).  `Bch.Model.Merkle.buildMsg` is the functional rendering of that code.  Here the same
  code is transcribed a second time, *statement by statement* (`MB`, `buildMsgBloom`): the struct with its
  append-only slices is threaded through the recursion, flag bits are bytes 0/1 combined with `|=`, the subset is the
  byte slice `matchedBits`, shifts are shifts, and the flag bytes are produced by the in-place loop
  `Flags[i/8] |= bits[i] << (i%8)` over a zeroed slice of `(len(bits)+7)/8` bytes.
  `Bch.Props.C11.C11_builders_agree` proves the two renderings equal for all inputs.

Tree arithmetic is on `Nat` as in `Bch.Model.Merkle` (Go: `uint32`; the two agree while
`numTx + 2^height - 1 < 2^32`, in particular for every `numTx ≤ MaxTxnCount`).
Core Lean only.
-/
namespace Bch.Model.MerkleSelect
open Bch Bch.Model.Merkle Bch.Model.BloomTx

variable {H : Type} [DecidableEq H]

/-! ### the subset given as a set of hashes -/

/-- `TxInSet(tx, set)`: linear search, comparing hash values -/
def TxInSet (tx : H) : List H → Bool
  | [] => false
  | next :: set => if tx = next then true else TxInSet tx set

/-- `matchedBits[i]` of `NewMerkleBlockWithTxnSet`: transaction `i` exists and its hash is in the set -/
def selectBySet (leaves set : List H) : Nat → Bool :=
  fun i => match leaves[i]? with
    | some h => TxInSet h set
    | none => false

/-- `NewMerkleBlockWithTxnSet(block, txnSet)` where `leaves` = the transaction hashes of the block, in block order -/
def buildWithTxnSet (comb : H → H → H) (leaves set : List H) (dflt : H) : Msg H × List Nat :=
  buildMsg comb leaves (selectBySet leaves set) dflt

/-! ### the subset induced by a bloom filter -/

section Filter
variable {F : Type}

/-- `matchedMap[txIndex]` for the map returned by `bloom.GetMatchedIndices` -/
def selectByScan (s : Scan F) : Nat → Bool := fun i => s.matched.contains i

/-- the transaction hashes (`tx.Hash()`) of a block, in block order -/
def blockHashes (block : Array Tx) : List Bytes := block.toList.map (·.id)

/-- `merkleblock.NewMerkleBlockWithFilter(block, filter)`: message, matched index list, and the filter as the scan
left it (the Go filter is updated in place). `same`/`fuel` are the parameters of the scan model. -/
def buildWithFilter (O : FilterOps F) (same : F → F → Bool) (fuel : Nat) (comb : Bytes → Bytes → Bytes)
    (block : Array Tx) (f : F) (dflt : Bytes) : Msg Bytes × List Nat × F :=
  let s := GetMatchedIndices O same fuel block f
  let (msg, idx) := buildMsg comb (blockHashes block) (selectByScan s) dflt
  (msg, idx, s.filter)

end Filter

/-! ### second transcription: bloom/merkleblock.go statement by statement -/

/-- `type merkleBlock struct` -/
structure MB (H : Type) where
  numTx : Nat
  allHashes : List H := []
  finalHashes : List H := []
  matchedBits : List UInt8 := []
  bits : List UInt8 := []

/-- `return (m.numTx + (1 << height) - 1) >> height` -/
def MB.calcTreeWidth (m : MB H) (height : Nat) : Nat :=
  (m.numTx + (1 <<< height) - 1) >>> height

/-- `calcHash(height, pos)`; `allHashes[pos]` is always in range in the Go code (`dflt` is never used) -/
def MB.calcHash (comb : H → H → H) (dflt : H) (m : MB H) : Nat → Nat → H
  | 0, pos => m.allHashes.getD pos dflt
  | height+1, pos =>
    let left := m.calcHash comb dflt height (pos*2)
    let right := if pos*2+1 < m.calcTreeWidth height then m.calcHash comb dflt height (pos*2+1) else left
    comb left right

/-- `for i := …; i < stop && i < m.numTx; i++ { isParent |= m.matchedBits[i] }` (fuel: the body runs at most
`numTx` times) -/
def MB.isParentLoop (m : MB H) (stop : Nat) : Nat → Nat → UInt8 → UInt8
  | 0, _, isParent => isParent
  | fuel+1, i, isParent =>
    if i < stop ∧ i < m.numTx then
      m.isParentLoop stop fuel (i+1) (isParent ||| m.matchedBits.getD i 0)
    else isParent

/-- the first three statements of `traverseAndBuild`: compute `isParent`, append it to `m.bits` -/
def MB.isParent (m : MB H) (height pos : Nat) : UInt8 :=
  m.isParentLoop ((pos+1) <<< height) m.numTx (pos <<< height) 0

/-- `traverseAndBuild(height, pos)` on the struct -/
def MB.traverseAndBuild (comb : H → H → H) (dflt : H) : Nat → Nat → MB H → MB H
  | 0, pos, m =>
    let isParent := m.isParent 0 pos
    let m := { m with bits := m.bits ++ [isParent] }
    { m with finalHashes := m.finalHashes ++ [m.calcHash comb dflt 0 pos] }
  | height+1, pos, m =>
    let isParent := m.isParent (height+1) pos
    let m := { m with bits := m.bits ++ [isParent] }
    if isParent == 0x00 then
      { m with finalHashes := m.finalHashes ++ [m.calcHash comb dflt (height+1) pos] }
    else
      let m := MB.traverseAndBuild comb dflt height (pos*2) m
      if pos*2+1 < m.calcTreeWidth height then MB.traverseAndBuild comb dflt height (pos*2+1) m else m

/-- `height := 0; for calcTreeWidth(height) > 1 { height++ }` -/
def MB.heightLoop (m : MB H) : Nat → Nat → Nat
  | 0, height => height
  | fuel+1, height => if m.calcTreeWidth height > 1 then m.heightLoop fuel (height+1) else height

/-- `Flags: make([]byte, (len(bits)+7)/8)` and `for i … { Flags[i/8] |= bits[i] << (i % 8) }` -/
def flagLoop (bits : List UInt8) : List UInt8 :=
  (List.range bits.length).foldl
    (fun flags i => flags.modify (i/8) (fun b => b ||| (bits.getD i 0 <<< UInt8.ofNat (i % 8))))
    (List.replicate ((bits.length + 7) / 8) 0)

/-- the loop over the block's transactions in `NewMerkleBlock`: `matched i` is `matchedMap[i]` -/
def fillLoop (matched : Nat → Bool) : List (H × Nat) → MB H × List Nat → MB H × List Nat
  | [], acc => acc
  | (hash, txIndex) :: rest, (mBlock, matchedIndices) =>
    if matched txIndex then
      fillLoop matched rest
        ({ mBlock with matchedBits := mBlock.matchedBits ++ [0x01], allHashes := mBlock.allHashes ++ [hash] },
          matchedIndices ++ [txIndex])
    else
      fillLoop matched rest
        ({ mBlock with matchedBits := mBlock.matchedBits ++ [0x00], allHashes := mBlock.allHashes ++ [hash] },
          matchedIndices)

/-- body of `bloom.NewMerkleBlock` after the scan: `leaves` are the `tx.Hash()` in block order,
`matched i = matchedMap[i]` -/
def buildMsgBloom (comb : H → H → H) (leaves : List H) (matched : Nat → Bool) (dflt : H) : Msg H × List Nat :=
  let numTx := leaves.length
  let (mBlock, matchedIndices) := fillLoop matched leaves.zipIdx ({ numTx := numTx }, [])
  let height := mBlock.heightLoop 33 0
  let mBlock := mBlock.traverseAndBuild comb dflt height 0
  (⟨mBlock.numTx, mBlock.finalHashes, flagLoop mBlock.bits⟩, matchedIndices)

/-- `bloom.NewMerkleBlock(block, filter)` -/
def newMerkleBlockBloom {F : Type} (O : FilterOps F) (same : F → F → Bool) (fuel : Nat)
    (comb : Bytes → Bytes → Bytes) (block : Array Tx) (f : F) (dflt : Bytes) : Msg Bytes × List Nat × F :=
  let s := GetMatchedIndices O same fuel block f
  let (msg, idx) := buildMsgBloom comb (blockHashes block) (selectByScan s) dflt
  (msg, idx, s.filter)

end Bch.Model.MerkleSelect
