import Bch.Proofs.HDKeyAddr
/-!
# C04 (continued) — the derived P2PKH address and the accessors `ECPubKey` / `ECPrivKey`

Property C04 also demands that the *derived P2PKH address* of every key on a path equals the one BIP32
(plus the CashAddr format) defines, i.e. the P2PKH address of `hash160(ser_P(K))` for the public point
`K` of the key. `Bch/Props/C04.lean` covers string, key material, chain code, depth, child number and
fingerprint; this file adds the address clause and the two accessors.

Ground truth: the Go methods `Address`, `ECPubKey`, `ECPrivKey` (and `pubKeyBytes`) of
/repo/hdkeychain/extendedkey.go. `pubKeyBytes` is part of the differentially tested model
`Bch/Model/HDKey.lean`; the three methods are one-line compositions of `pubKeyBytes` with external
code and are transcribed in `Bch/Proofs/HDKeyAddr.lean`:

* `addressOf X k net = Address.newPkh (X.hash160 (pubKeyBytes X k)) net.cashPrefix`
  (`NewAddressPubKeyHash(Hash160(k.pubKeyBytes()), net)`), `addressString` its `EncodeAddress`;
  `C04_address_string_driver` shows that this string is literally the expression the harness driver
  (`Bch/Drive/C04.lean`, `addrOf`) evaluates and compares with the implementation on every key of every walk;
* `ecPubKeyOf X k = X.parse (pubKeyBytes X k)` (`ParsePubKey(k.pubKeyBytes())`);
* `ecPrivKeyOf X k` = `ErrNotPrivExtKey` for public keys, else the pair (scalar `SetBytes(k.key)`,
  embedded public key `ScalarBaseMult(k.key)`) of `bchec.PrivKeyFromBytes`.

Hypotheses on the external pack: `GroupLaws X` only (of which `hash160_len`, `parse_serC`, and for the
path/neuter statements the group laws, are used). Non-vacuity: the toy instance `Toy.X` (ℤ/7).
-/
namespace Bch.Props.C04
open Bch Bch.Model Bch.Model.HDKey Bch.Spec.BIP32 Bch.Proofs.HDKey Bch.Proofs.HDKeyAddr Bytes

variable {Pt : Type} {X : HDExt Pt}

/-- the specification-level address: P2PKH of `hash160(ser_P(K))` with the network's cash prefix -/
example (K : Pt) (net : Address.Net) :
    specAddress X K net = Address.Addr.pkh (X.hash160 (X.serC K)) net.cashPrefix := rfl

/-! ### `Address` -/

/-- **`Address` never fails** (for *every* key, well-formed or not): it is the P2PKH address on
`Hash160(pubKeyBytes)`. (The only error of `NewAddressPubKeyHash` is a hash that is not 20 bytes long.) -/
theorem C04_address_total (L : GroupLaws X) (k : XKey) (net : Address.Net) :
    addressOf X k net = .ok (.pkh (X.hash160 (pubKeyBytes X k)) net.cashPrefix) :=
  addressOf_ok L k net

example : GroupLaws Toy.X := Toy.laws

/-- **The derived address is the one BIP32 defines.** For every well-formed key `k` denoting the BIP32 key
`s` (private or public — the same relation `abs` as in `C04_refines_priv` / `C04_refines_pub`), `Address`
succeeds and returns the P2PKH address of `hash160(ser_P(K))`, `K = s.pub` the specification's public
point. It depends on nothing but `K` and the network prefix. -/
theorem C04_address (L : GroupLaws X) {k : XKey} (hwf : WF X k) {s : SKey Pt} (habs : abs X k = some s)
    (net : Address.Net) :
    addressOf X k net = .ok (specAddress X s.pub net) :=
  addressOf_abs L hwf habs net

example : WF Toy.X Toy.kPriv ∧ abs Toy.X Toy.kPriv = some Toy.sPriv := ⟨Toy.wf_kPriv, Toy.abs_kPriv⟩
example : WF Toy.X Toy.kPub ∧ abs Toy.X Toy.kPub = some Toy.sPub := ⟨Toy.wf_kPub, Toy.abs_kPub⟩

-- concretely: the private key 3 and the public key 3·G of the toy instance have the same, explicit address
example : addressOf Toy.X Toy.kPriv Address.mainNet =
      .ok (.pkh (2 :: List.replicate 19 0) (Bytes.ofString "bitcoincash")) ∧
    addressOf Toy.X Toy.kPub Address.mainNet = addressOf Toy.X Toy.kPriv Address.mainNet := by
  rw [C04_address Toy.laws Toy.wf_kPriv Toy.abs_kPriv, C04_address Toy.laws Toy.wf_kPub Toy.abs_kPub]
  exact ⟨by rw [specAddress, ToyAddr.hash_sPub]; rfl, rfl⟩

/-- Two keys denoting spec keys with the same public point have the same address (private key, its
neutered version, the public child of the neutered parent, …). -/
theorem C04_address_same_pub (L : GroupLaws X) {k₁ k₂ : XKey} (hwf₁ : WF X k₁) (hwf₂ : WF X k₂)
    {s₁ s₂ : SKey Pt} (h₁ : abs X k₁ = some s₁) (h₂ : abs X k₂ = some s₂) (hpub : s₁.pub = s₂.pub)
    (net : Address.Net) : addressOf X k₁ net = addressOf X k₂ net := by
  rw [C04_address L hwf₁ h₁, C04_address L hwf₂ h₂, hpub]

example : WF Toy.X Toy.kPriv ∧ WF Toy.X Toy.kPub ∧ abs Toy.X Toy.kPriv = some Toy.sPriv ∧
    abs Toy.X Toy.kPub = some Toy.sPub ∧ Toy.sPriv.pub = Toy.sPub.pub :=
  ⟨Toy.wf_kPriv, Toy.wf_kPub, Toy.abs_kPriv, Toy.abs_kPub, rfl⟩

/-- **`Address (Neuter k) = Address k`**, for every key for which `Neuter` succeeds — no hypothesis on the
external code, none on the key (`Neuter` stores `pubKeyBytes` as the new key). -/
theorem C04_address_neuter {k nk : XKey} (hn : Neuter X k = .ok nk) (net : Address.Net) :
    addressOf X nk net = addressOf X k net :=
  addressOf_neuter hn net

example : ∃ nk, Neuter Toy.X Toy.kPriv = .ok nk := Toy.neuter_kPriv
example : Neuter Toy.X Toy.kPub = .ok Toy.kPub := rfl

/-- **One derivation step.** If `Child` succeeds on a key denoting `s` and the step is not degenerate (the
hypothesis of `C04_refines_priv` / `C04_refines_pub`), the child's address is the P2PKH address of the
public point of BIP32's child `CKD(s, i)`. -/
theorem C04_address_child (L : GroupLaws X) {k : XKey} (hwf : WF X k) {s : SKey Pt} (habs : abs X k = some s)
    {i : Nat} {k' : XKey} (hc : Child X k i = .ok k') (hnd : NonDegenerate X s i) (net : Address.Net) :
    ∃ s', child X s i = some s' ∧ addressOf X k' net = .ok (specAddress X s'.pub net) := by
  obtain ⟨s', h1, h2, h3⟩ := refines_step L hwf habs hc hnd
  exact ⟨s', h1, C04_address L h3 h2 net⟩

example : ∃ k', WF Toy.X Toy.kPriv ∧ abs Toy.X Toy.kPriv = some Toy.sPriv ∧
    Child Toy.X Toy.kPriv (2 ^ 31) = .ok k' ∧ NonDegenerate Toy.X Toy.sPriv (2 ^ 31) :=
  Toy.child_kPriv_hard.elim fun c h => ⟨c, Toy.wf_kPriv, Toy.abs_kPriv, h, Toy.nondeg_sPriv_hard⟩
example : ∃ k', WF Toy.X Toy.kPub ∧ abs Toy.X Toy.kPub = some Toy.sPub ∧
    Child Toy.X Toy.kPub 0 = .ok k' ∧ NonDegenerate Toy.X Toy.sPub 0 :=
  Toy.child_kPub_0.elim fun c h => ⟨c, Toy.wf_kPub, Toy.abs_kPub, h, Toy.nondeg_sPub_0⟩

/-- **The public child of the neutered parent has the address of the private child** (`i < 2^31`).
Hypotheses as in `C04_neuter_commutes`; no non-degeneracy needed. -/
theorem C04_address_neuter_child (L : GroupLaws X) {k : XKey} (hp : k.isPrivate = true)
    (hnz : toNatBE k.key % X.n ≠ 0) {i : Nat} (hi : i < 2 ^ 31) {c : XKey} (hc : Child X k i = .ok c)
    {nk : XKey} (hn : Neuter X k = .ok nk) (net : Address.Net) :
    ∃ nc, Child X nk i = .ok nc ∧ addressOf X nc net = addressOf X c net := by
  obtain ⟨nc, h1, h2⟩ := neuter_commutes L hp hnz hi hc hn
  exact ⟨nc, h2, C04_address_neuter h1 net⟩

example : ∃ c nk, Toy.kPriv.isPrivate = true ∧ toNatBE Toy.kPriv.key % Toy.X.n ≠ 0 ∧ 0 < 2 ^ 31 ∧
    Child Toy.X Toy.kPriv 0 = .ok c ∧ Neuter Toy.X Toy.kPriv = .ok nk :=
  Toy.child_kPriv_0.elim fun c h => Toy.neuter_kPriv.elim fun nk h' =>
    ⟨c, nk, rfl, by rw [Toy.key_kPriv]; decide, by decide, h, h'⟩

/-- **Along a path** (via `C04_path`): the address of the key derived along `p` is the P2PKH address of the
public point of BIP32's key derived along `p`. -/
theorem C04_address_path (L : GroupLaws X) (p : List Nat) {k : XKey} (hwf : WF X k)
    {s : SKey Pt} (habs : abs X k = some s) {k' : XKey} (hc : derivePath X k p = .ok k')
    (hnd : NonDegPath X s p) (net : Address.Net) :
    ∃ s', specPath X s p = some s' ∧ addressOf X k' net = .ok (specAddress X s'.pub net) := by
  obtain ⟨s', h1, h2, h3⟩ := refines_path L p hwf habs hc hnd
  exact ⟨s', h1, C04_address L h3 h2 net⟩

/-- From a seed: master key, then path, then address. -/
theorem C04_address_seed_path (L : GroupLaws X) {seed v : Bytes} (hv : v.length = 4) (p : List Nat)
    {m k' : XKey} (hm : NewMaster X seed v = .ok m) (hc : derivePath X m p = .ok k')
    (hnd : ∀ s, master X seed = some s → NonDegPath X s p) (net : Address.Net) :
    ∃ s s', master X seed = some s ∧ specPath X s p = some s' ∧
      addressOf X k' net = .ok (specAddress X s'.pub net) := by
  obtain ⟨s, hs, ha⟩ := master_refines L hm
  obtain ⟨s', h1, h2⟩ := C04_address_path L p (wf_newMaster L hv hm).1 ha hc (hnd s hs) net
  exact ⟨s, s', hs, h1, h2⟩

example : ∃ k', WF Toy.X Toy.kPriv ∧ abs Toy.X Toy.kPriv = some Toy.sPriv ∧
    derivePath Toy.X Toy.kPriv [0] = .ok k' ∧ NonDegPath Toy.X Toy.sPriv [0] :=
  Toy.child_kPriv_0.elim fun c h =>
    ⟨c, Toy.wf_kPriv, Toy.abs_kPriv, by simp only [derivePath, h], Toy.nondeg_sPriv_0, fun _ _ => trivial⟩
example : ∃ m, Toy.xprv.length = 4 ∧ NewMaster Toy.X Toy.seed Toy.xprv = .ok m ∧
    derivePath Toy.X m [] = .ok m ∧ ∀ s, master Toy.X Toy.seed = some s → NonDegPath Toy.X s [] :=
  Toy.master_seed.elim fun m h => ⟨m, rfl, h, rfl, fun _ _ => trivial⟩

/-- **Neutering commutes with a whole non-hardened path**: deriving `p` (all indices `< 2^31`) from
`Neuter k` succeeds and yields `Neuter` of the key derived privately along `p` (same key bytes, chain code,
depth, fingerprint, child number, version). -/
theorem C04_neuter_path (L : GroupLaws X) (p : List Nat) (hp31 : ∀ i ∈ p, i < 2 ^ 31) {k : XKey} (hwf : WF X k)
    (hp : k.isPrivate = true) {s : SKey Pt} (habs : abs X k = some s) {k' : XKey}
    (hc : derivePath X k p = .ok k') (hnd : NonDegPath X s p) {nk : XKey} (hn : Neuter X k = .ok nk) :
    ∃ nk', derivePath X nk p = .ok nk' ∧ Neuter X k' = .ok nk' :=
  neuter_path L p hp31 hwf hp habs hc hnd hn

/-- … hence the public derivation along `p` from the neutered key gives the **same address** as the private
derivation along `p`, namely that of BIP32's key derived along `p`. -/
theorem C04_address_neuter_path (L : GroupLaws X) (p : List Nat) (hp31 : ∀ i ∈ p, i < 2 ^ 31) {k : XKey}
    (hwf : WF X k) (hp : k.isPrivate = true) {s : SKey Pt} (habs : abs X k = some s) {k' : XKey}
    (hc : derivePath X k p = .ok k') (hnd : NonDegPath X s p) {nk : XKey} (hn : Neuter X k = .ok nk)
    (net : Address.Net) :
    ∃ nk' s', derivePath X nk p = .ok nk' ∧ specPath X s p = some s' ∧
      addressOf X nk' net = addressOf X k' net ∧ addressOf X k' net = .ok (specAddress X s'.pub net) := by
  obtain ⟨nk', h1, h2⟩ := neuter_path L p hp31 hwf hp habs hc hnd hn
  obtain ⟨s', h3, h4⟩ := C04_address_path L p hwf habs hc hnd net
  exact ⟨nk', s', h1, h3, C04_address_neuter h2 net, h4⟩

example : ∃ k' nk, (∀ i ∈ [0], i < 2 ^ 31) ∧ WF Toy.X Toy.kPriv ∧ Toy.kPriv.isPrivate = true ∧
    abs Toy.X Toy.kPriv = some Toy.sPriv ∧ derivePath Toy.X Toy.kPriv [0] = .ok k' ∧
    NonDegPath Toy.X Toy.sPriv [0] ∧ Neuter Toy.X Toy.kPriv = .ok nk :=
  Toy.child_kPriv_0.elim fun c h => Toy.neuter_kPriv.elim fun nk h' =>
    ⟨c, nk, by decide, Toy.wf_kPriv, rfl, Toy.abs_kPriv, by simp only [derivePath, h],
      ⟨Toy.nondeg_sPriv_0, fun _ _ => trivial⟩, h'⟩

/-! ### `ECPubKey` / `ECPrivKey` -/

/-- **`ECPubKey` returns the specification's public point** `K` (`ParsePubKey` of `pubKeyBytes = ser_P(K)`),
for private and public keys alike. -/
theorem C04_ecpubkey (L : GroupLaws X) {k : XKey} (hwf : WF X k) {s : SKey Pt} (habs : abs X k = some s) :
    ecPubKeyOf X k = .ok s.pub ∧ X.parse (pubKeyBytes X k) = some s.pub ∧ pubKeyBytes X k = X.serC s.pub := by
  have h := pubKeyBytes_abs hwf habs
  exact ⟨ecPubKeyOf_abs L hwf habs, by rw [h, L.parse_serC], h⟩

/-- `ECPubKey (Neuter k) = ECPubKey k` (unconditionally). -/
theorem C04_ecpubkey_neuter {k nk : XKey} (hn : Neuter X k = .ok nk) : ecPubKeyOf X nk = ecPubKeyOf X k :=
  ecPubKeyOf_neuter hn

example : ecPubKeyOf Toy.X Toy.kPriv = .ok 3 ∧ ecPubKeyOf Toy.X Toy.kPub = .ok 3 :=
  ⟨(C04_ecpubkey Toy.laws Toy.wf_kPriv Toy.abs_kPriv).1, (C04_ecpubkey Toy.laws Toy.wf_kPub Toy.abs_kPub).1⟩

/-- **`ECPrivKey`**: for a private key denoting `s` it returns the specification's private scalar `k`
(`s.priv = some k`) with the embedded public key `k·G = s.pub`; for a public key it returns
`ErrNotPrivExtKey` (whatever the key). No hypothesis on the external code. -/
theorem C04_ecprivkey {k : XKey} :
    (k.isPrivate = true → ∀ s : SKey Pt, abs X k = some s →
        ∃ d, s.priv = some d ∧ d = toNatBE k.key ∧ ecPrivKeyOf X k = .ok (d, some s.pub)) ∧
    (k.isPrivate = false → ecPrivKeyOf X k = .error .notPrivExtKey) :=
  ⟨fun hp _ habs => ⟨_, (ecPrivKeyOf_priv hp habs).1, rfl, (ecPrivKeyOf_priv hp habs).2⟩, ecPrivKeyOf_pub⟩

example : ecPrivKeyOf Toy.X Toy.kPriv = .ok (3, some 3) := by
  obtain ⟨d, h1, _, h3⟩ := (C04_ecprivkey (X := Toy.X)).1 rfl _ Toy.abs_kPriv
  cases h1; exact h3
example : ecPrivKeyOf Toy.X Toy.kPub = .error .notPrivExtKey := (C04_ecprivkey (X := Toy.X)).2 rfl

/-- `ECPrivKey` of a privately derived child returns BIP32's child scalar `(parse256(I_L) + k_par) mod n` and
the matching public point (hypotheses of `C04_refines_priv`). -/
theorem C04_ecprivkey_child (L : GroupLaws X) {k : XKey} (hwf : WF X k) (hp : k.isPrivate = true)
    {s : SKey Pt} (habs : abs X k = some s) {i : Nat} {k' : XKey} (hc : Child X k i = .ok k')
    (hnd : (specIL X s i + toNatBE k.key) % X.n ≠ 0) :
    ∃ s', child X s i = some s' ∧
      ecPrivKeyOf X k' = .ok ((specIL X s i + toNatBE k.key) % X.n, some s'.pub) ∧
      ecPubKeyOf X k' = .ok s'.pub := by
  obtain ⟨K, _, hs⟩ := abs_priv hp habs
  obtain ⟨s', h1, h2, h3, h4, _⟩ := refines_priv L hwf hp habs hc ((nondeg_priv (by rw [hs]) i).2 hnd)
  have hp' : k'.isPrivate = true := by rw [child_isPrivate L hwf hc]; exact hp
  obtain ⟨d, hd, _, he⟩ := (C04_ecprivkey (X := X)).1 hp' s' h2
  rw [h4] at hd; cases hd
  exact ⟨s', h1, he, (C04_ecpubkey L h3 h2).1⟩

example : ∃ k', WF Toy.X Toy.kPriv ∧ Toy.kPriv.isPrivate = true ∧ abs Toy.X Toy.kPriv = some Toy.sPriv ∧
    Child Toy.X Toy.kPriv (2 ^ 31) = .ok k' ∧
    (specIL Toy.X Toy.sPriv (2 ^ 31) + toNatBE Toy.kPriv.key) % Toy.X.n ≠ 0 :=
  Toy.child_kPriv_hard.elim fun c h =>
    ⟨c, Toy.wf_kPriv, rfl, Toy.abs_kPriv, h, by rw [Toy.specIL_sPriv_hard, Toy.key_kPriv]; decide⟩

/-! ### the address string -/

/-- For *every* key the address string is exactly the expression the harness driver evaluates
(`Bch.Drive.C04.addrOf`, there with the real secp256k1/SHA/RIPEMD pack) and compares with
`k.Address(net).EncodeAddress()` of the implementation. -/
theorem C04_address_string_driver (L : GroupLaws X) (A : Address.Ext) (k : XKey) (net : Address.Net) :
    addressString X A k net =
      CashAddr.checkEncodeCashAddress ((X.hash160 (pubKeyBytes X k)).take 20) net.cashPrefix 0 :=
  addressString_eq_driver L A k net

/-- **String form.** The address `a` of a key denoting `s` is rendered (`EncodeAddress`, `String`) as
`checkEncodeCashAddress(hash160(ser_P(K)), net.cashPrefix, P2PKH)`, i.e. (CashAddr specification, cf.
`C01_cash_string_form`) version byte 0x00 ‖ hash regrouped into 5-bit symbols, followed by the 8-symbol BCH
checksum over the prefix, mapped through the charset. -/
theorem C04_address_string (L : GroupLaws X) (A : Address.Ext) {k : XKey} (hwf : WF X k) {s : SKey Pt}
    (habs : abs X k = some s) (net : Address.Net) :
    ∃ a, addressOf X k net = .ok a ∧ a = specAddress X s.pub net ∧
      addressString X A k net = Address.EncodeAddress A a ∧ Address.String A a = Address.EncodeAddress A a ∧
      Address.ScriptAddress A a = X.hash160 (X.serC s.pub) ∧
      Address.EncodeAddress A a =
        CashAddr.checkEncodeCashAddress (X.hash160 (X.serC s.pub)) net.cashPrefix 0 ∧
      ∃ pl, CashAddr.convertBits (0x00 :: X.hash160 (X.serC s.pub)) 8 5 true = some pl ∧
        Address.EncodeAddress A a =
          (pl ++ CashAddr.createChecksum net.cashPrefix pl).map Bch.Proofs.CashAddr.chOf := by
  have hl : (X.hash160 (X.serC s.pub)).length = 20 := L.hash160_len _
  refine ⟨_, C04_address L hwf habs net, rfl, ?_, rfl, rfl, ?_, ?_⟩
  · unfold addressString; rw [C04_address L hwf habs net]
  · change CashAddr.checkEncodeCashAddress ((X.hash160 (X.serC s.pub)).take 20) _ _ = _
    rw [List.take_of_length_le (by omega)]
  · obtain ⟨pl, h1, _, _, _, _, h6⟩ :=
      Bch.Proofs.Address.encodeAddress_cash A 0 0 (X.hash160 (X.serC s.pub)) net.cashPrefix (Or.inl ⟨rfl, rfl, hl⟩)
    exact ⟨pl, h1, h6⟩

example (A : Address.Ext) : ∃ a, addressOf Toy.X Toy.kPub Address.testNet3 = .ok a ∧
    Address.EncodeAddress A a =
      CashAddr.checkEncodeCashAddress (2 :: List.replicate 19 0) (Bytes.ofString "bchtest") 0 := by
  obtain ⟨a, h1, _, _, _, _, h2, _⟩ := C04_address_string Toy.laws A Toy.wf_kPub Toy.abs_kPub Address.testNet3
  refine ⟨a, h1, ?_⟩
  rw [h2]; exact congrArg (fun h => CashAddr.checkEncodeCashAddress h _ 0) ToyAddr.hash_sPub

/-- **Round trip** (with C01's `C01_cash_roundtrip`): on every registered network, each rendering of the
derived address's string (as is, upper-cased, with prefix, with prefix and upper-cased) is decoded by
`DecodeAddress` to the very same address value; it is for that network and carries the hash. -/
theorem C04_address_roundtrip (L : GroupLaws X) (A : Address.Ext) {k : XKey} (hwf : WF X k) {s : SKey Pt}
    (habs : abs X k = some s) {net : Address.Net} (hnet : net ∈ Address.nets) :
    ∃ a, addressOf X k net = .ok a ∧ Address.IsForNet a net = true ∧
      ∀ r ∈ Bch.Proofs.Address.renderings net.cashPrefix (addressString X A k net),
        Address.DecodeAddress A r net = .ok a := by
  refine ⟨_, C04_address L hwf habs net, by simp [specAddress, Address.IsForNet], ?_⟩
  have : addressString X A k net = Address.EncodeAddress A (specAddress X s.pub net) := by
    unfold addressString; rw [C04_address L hwf habs net]
  rw [this]
  exact pkh_roundtrip A hnet _ (L.hash160_len _)

example : WF Toy.X Toy.kPriv ∧ abs Toy.X Toy.kPriv = some Toy.sPriv ∧ Address.regTest ∈ Address.nets :=
  ⟨Toy.wf_kPriv, Toy.abs_kPriv, by decide +kernel⟩

end Bch.Props.C04
