import Bch.Proofs.CheckedGcs
/-
C08, GCS part 2 — the remaining GCS entry points that take untrusted input, at the byte level.

`Bch/Props/C08.lean` §6 covers `ZipMatchAny` over the model's bit list and treats `Match`/`HashMatchAny` as
"no panicking operation". Here the two libraries underneath are opened up (`Bch/Proofs/CheckedGcs.lean`):
`kkdai/bstream` (`b.stream[0]`, `b.stream[1:]`, the byte-straddling `ReadByte`) and `wire.ReadVarInt` over a
`bytes.Buffer` (`Borrow()[:k]`, `io.ReadFull`, `buf[0]`, `binary.LittleEndian.UintNN`, `buffer.Bytes()`), and

* `FromBytesC`, `FromNBytesC`, `MatchC`, `HashMatchAnyC`, `ZipMatchAnyC`, `MatchAnyC` are transcriptions of
  gcs.go with every index, slice, `make` and division checked; unbounded loops take a fuel computed from
  `len(filterData)` and report exhaustion as a fault;
* `…_no_fault` holds for ALL inputs (every `N`, `P`, `M`, byte string, query list incl. the empty one);
* `…_eq_model` says the model is what the checked code computes. For the two parsers there is no hypothesis.
  For the queries the hypothesis is `f.p < 64`: Go's `quotient << f.p` is 0 from 64 on, the model's `<<<`
  reduces the count mod 64 (`gcs_shift_hypothesis_needed`). Every constructor rejects `P > 32`, so for every
  filter that comes out of `FromBytesC`/`FromNBytesC` the hypothesis is discharged: `gcs_parsed_eq_model`,
  `gcs_parsed_eq_model'` have none;
* `C08_gcs_match_steps`, `C08_gcs_hash_alloc`: resource bounds of the transcriptions themselves (a ghost
  counter of `ReadBit`/`ReadByte` calls; the map size hint and the number of insertions), all in terms of
  `len(filterData)` only — `N` does not occur;
* negative witnesses: the two repaired `HashMatchAny` defects (ccc0aee, 8237c21), `ReadBit` without its
  second emptiness test, fuel one unit short.

Names are prefixed `gcs_` where `C08.lean` already has a theorem of that name for the bit-list version.
-/
namespace Bch.Props.C08
open Bch Bch.Model Bch.Proofs.CheckedGcs
open Bch.Proofs.Checked (Fault mod?)

/-! ## 10. `kkdai/bstream` and `readFullUint64` -/

/-- The byte-level Golomb-Rice reader (checked `b.stream[0]`, `b.stream[1:]` in `ReadBit`/`ReadByte`/`ReadBits`,
the unary loop on fuel `8·len(stream)+1`) never faults and refines the bit-list decoder: same EOF verdict, same
value, corresponding rest, and its `ReadBit`/`ReadByte` calls are paid for by consumed bits (`Sim`).
Hypothesis `b.WF` (`rCount ≤ 8`): holds of `NewBStreamReader(data)` and is preserved (part of `Sim`). -/
theorem gcs_readFullC_refines (p : Nat) (b : BS) (hw : b.WF) :
    ∃ res, readFullC p b = .ok res ∧ Sim b res (readFullS p b.bits) := readFullC_spec p b hw

/-- … in particular from a fresh reader over any byte string, for any `p`; its bits are the model's `unpackBits` -/
theorem gcs_readFullC_fresh (p : Nat) (data : Bytes) :
    (newReader data).WF ∧ (newReader data).bits = Gcs.unpackBits data ∧
    ∃ res, readFullC p (newReader data) = .ok res ∧ Sim (newReader data) res (readFullS p (Gcs.unpackBits data)) := by
  refine ⟨newReader_WF data, newReader_bits data, ?_⟩
  have := readFullC_spec p (newReader data) (newReader_WF data)
  rwa [newReader_bits] at this

/-- the Go-shift decoder is the model's decoder for `p < 64` -/
theorem gcs_readFullS_eq_model (p : Nat) (hp : p < 64) : readFullS p = Gcs.readFull p := readFullS_eq_model p hp

/-- NEGATIVE: … and not beyond: at `p = 64` Go computes `1 << 64 = 0`, the model `1 <<< 0 = 1` -/
theorem gcs_shift_hypothesis_needed :
    readFullS 64 (true :: false :: List.replicate 64 false) = some (0, []) ∧
    Gcs.readFull 64 (true :: false :: List.replicate 64 false) = some (1, []) := readFullS_ne_model_64

-- non-vacuity of `b.WF` and of `p < 64`; a run that crosses a byte boundary in `ReadByte`
-- (P = 11: unary "10", then 11 remainder bits = one straddling byte + three single bits)
example : (newReader [0x80, 0x2a, 0xff]).WF := newReader_WF _
example : readFullC 11 (newReader [0x80, 0x2a, 0xff]) = .ok (some 2053, ⟨[0x2a, 0xff], 3, 6⟩) := by
  decide +kernel
example : Gcs.readFull 11 (Gcs.unpackBits [0x80, 0x2a, 0xff])
    = some (2053, [false, true, false] ++ Gcs.unpackBits [0xff]) := by decide +kernel

/-- NEGATIVE (bstream.go:91): `ReadBit` without its second `len(b.stream) == 0` test indexes an empty slice
once the last byte is used up; with it: `io.EOF` -/
theorem gcs_readBit_noGuard_witness :
    readBitG false ⟨[0], 0, 8⟩ = .error .indexOOB ∧ readBitG true ⟨[0], 0, 8⟩ = .ok (none, ⟨[], 0, 9⟩) :=
  ⟨readBit_noGuard_fault, readBit_guard_eof⟩

/-- NEGATIVE (termination is really proved): with fuel 8 instead of `8·1+1` the unary loop over `ff` is cut
off — reported as a fault — while `readFullC` (fuel `8·len+1`) ends in `io.EOF` after 9 `ReadBit`s -/
theorem gcs_fuel_witness :
    unaryLoopC 8 true (newReader [0xff]) 0 = .error .indexOOB ∧
    readFullC 3 (newReader [0xff]) = .ok (none, ⟨[], 0, 9⟩) := unaryLoop_fuel_needed

/-! ## 11. `FromBytes`, `FromNBytes` -/

/-- `make([]byte, len(d))` + `copy`. Every `N`, `P` (also > 255), `M`, `d`. No hypothesis. -/
theorem gcs_FromBytesC_no_fault (N P : Nat) (M : UInt64) (d : Bytes) : ∃ r, FromBytesC N P M d = .ok r :=
  FromBytesC_no_fault N P M d

theorem gcs_FromBytesC_eq_model (N P : Nat) (M : UInt64) (d : Bytes) :
    FromBytesC N P M d = .ok (Gcs.FromBytes N P M d) := FromBytesC_eq_model N P M d

/-- `wire.ReadVarInt` on `bytes.NewBuffer(d)`: `Borrow()[:1|2|4|8]`, `b.buf[b.off:]` in `Buffer.Read`,
`buf[0]`, `_ = b[7]; b[0] | b[1]<<8 | …`, then `buffer.Bytes()` and `FromBytes`. Every `P`, `M` and byte string
(empty, truncated after the discriminant, non-canonical, N ≥ 2^32 …). No hypothesis. -/
theorem gcs_FromNBytesC_no_fault (P : Nat) (M : UInt64) (d : Bytes) : ∃ r, FromNBytesC P M d = .ok r :=
  FromNBytesC_no_fault P M d

theorem gcs_FromNBytesC_eq_model (P : Nat) (M : UInt64) (d : Bytes) :
    FromNBytesC P M d = .ok (Gcs.FromNBytes P M d) := FromNBytesC_eq_model P M d

/-- the CompactSize reader alone: verdict and value of the model, and the buffer's unread part is the model's rest -/
theorem gcs_readVarIntC_refines (d : Bytes) :
    ∃ res, readVarIntC ⟨d, 0⟩ = .ok res ∧
      match Gcs.readVarInt d with
      | none => res.1 = none
      | some (v, rest) => res.1 = some v ∧ res.2.buf = d ∧ res.2.off ≤ d.length ∧ d.drop res.2.off = rest :=
  readVarIntC_spec d

-- every branch of the parser is exercised by a concrete input (all without fault)
example : FromNBytesC 19 1 [] = .ok (.error .varint) := by decide +kernel                     -- empty
example : FromNBytesC 19 1 [0xfd, 0x01] = .ok (.error .varint) := by decide +kernel           -- truncated
example : FromNBytesC 19 1 [0xfd, 0x01, 0x00] = .ok (.error .varint) := by decide +kernel     -- non-canonical
example : FromNBytesC 19 1 [0xff, 0, 0, 0, 0, 1, 0, 0, 0, 7] = .ok (.error .nTooBig) := by decide +kernel
example : FromNBytesC 33 1 [2, 7] = .ok (.error .pTooBig) := by decide +kernel
example : FromNBytesC 19 1 [0xfd, 0x00, 0x01, 7, 8] = .ok (.ok ⟨256, 19, 256, [7, 8]⟩) := by decide +kernel

/-! ## 12. `Match`, `HashMatchAny`, `ZipMatchAny`, `MatchAny` over the byte-level reader -/

/-- `Match`: `f.Bytes()` (`make`+`copy`), the bit reader, the `for i < N` loop. Every filter value — any `n`
(also ≥ 2^32), any `p`, any bytes — and every query. No hypothesis. -/
theorem gcs_MatchC_no_fault (sip : Bytes → UInt64) (f : Gcs.Filter) (d : Bytes) : ∃ r, MatchC sip f d = .ok r :=
  MatchC_no_fault sip f d

/-- Hypothesis `f.p < 64`: see the header (`gcs_shift_hypothesis_needed`); discharged for parsed filters in
`gcs_parsed_eq_model`. -/
theorem gcs_MatchC_eq_model (sip : Bytes → UInt64) (f : Gcs.Filter) (d : Bytes) (hp : f.p < 64) :
    MatchC sip f d = .ok (Gcs.Match sip f d) := MatchC_eq_model sip f d hp

/-- `HashMatchAny`: the decode-until-EOF loop `for {…}` on fuel `8·len(filterData)+1`. Every filter, every
query list incl. the empty one. No hypothesis. -/
theorem gcs_HashMatchAnyC_no_fault (sip : Bytes → UInt64) (f : Gcs.Filter) (data : List Bytes) :
    ∃ r, HashMatchAnyC sip f data = .ok r := HashMatchAnyC_no_fault sip f data

theorem gcs_HashMatchAnyC_eq_model (sip : Bytes → UInt64) (f : Gcs.Filter) (data : List Bytes) (hp : f.p < 64) :
    HashMatchAnyC sip f data = .ok (Gcs.HashMatchAny sip f data) := HashMatchAnyC_eq_model sip f data hp

/-- `ZipMatchAny` with the byte-level reader (and the checked `values[queryIndex]` of `C08.lean` §6) -/
theorem gcs_ZipMatchAnyC_no_fault (sip : Bytes → UInt64) (f : Gcs.Filter) (data : List Bytes) :
    ∃ r, ZipMatchAnyC sip f data = .ok r := ZipMatchAnyC_no_fault sip f data

theorem gcs_ZipMatchAnyC_eq_model (sip : Bytes → UInt64) (f : Gcs.Filter) (data : List Bytes) (hp : f.p < 64) :
    ZipMatchAnyC sip f data = .ok (Gcs.ZipMatchAny sip f data) := ZipMatchAnyC_eq_model sip f data hp

/-- `MatchAny`: `f.N()/2` is a checked division (by the constant 2), then one of the two above -/
theorem gcs_MatchAnyC_no_fault (sip : Bytes → UInt64) (f : Gcs.Filter) (data : List Bytes) :
    ∃ r, MatchAnyC sip f data = .ok r := MatchAnyC_no_fault sip f data

theorem gcs_MatchAnyC_eq_model (sip : Bytes → UInt64) (f : Gcs.Filter) (data : List Bytes) (hp : f.p < 64) :
    MatchAnyC sip f data = .ok (Gcs.MatchAny sip f data) := MatchAnyC_eq_model sip f data hp

-- non-vacuity of `f.p < 64`: the toy filter; and a filter violating it still does not fault
example : (⟨3, 3, 15, [129, 136]⟩ : Gcs.Filter).p < 64 := by decide
example : MatchC toySip ⟨1, 200, 15, [0xc0, 0, 0]⟩ [1] = .ok false := by decide +kernel

/-- FROM THE WIRE, NO HYPOTHESIS. Whatever `FromNBytes` makes of an arbitrary byte string (any `P`, `M`), the
filter has `p ≤ 32`, `n < 2^32`, and all four queries on it run without fault and return the model's answer. -/
theorem gcs_parsed_eq_model (P : Nat) (M : UInt64) (d : Bytes) (f : Gcs.Filter)
    (h : FromNBytesC P M d = .ok (.ok f)) (sip : Bytes → UInt64) (q : Bytes) (qs : List Bytes) :
    f.p ≤ 32 ∧ f.n < 2 ^ 32 ∧
    MatchC sip f q = .ok (Gcs.Match sip f q) ∧
    HashMatchAnyC sip f qs = .ok (Gcs.HashMatchAny sip f qs) ∧
    ZipMatchAnyC sip f qs = .ok (Gcs.ZipMatchAny sip f qs) ∧
    MatchAnyC sip f qs = .ok (Gcs.MatchAny sip f qs) := parsed_queries_eq_model P M d f h sip q qs

/-- the same for `FromBytes` (every `N`) -/
theorem gcs_parsed_eq_model' (N P : Nat) (M : UInt64) (d : Bytes) (f : Gcs.Filter)
    (h : FromBytesC N P M d = .ok (.ok f)) (sip : Bytes → UInt64) (q : Bytes) (qs : List Bytes) :
    f.p ≤ 32 ∧
    MatchC sip f q = .ok (Gcs.Match sip f q) ∧
    HashMatchAnyC sip f qs = .ok (Gcs.HashMatchAny sip f qs) ∧
    ZipMatchAnyC sip f qs = .ok (Gcs.ZipMatchAny sip f qs) ∧
    MatchAnyC sip f qs = .ok (Gcs.MatchAny sip f qs) := parsed_queries_eq_model' N P M d f h sip q qs

-- the hypothesis `FromNBytesC … = .ok (.ok f)` is satisfiable (and by the degenerate input of the defect report)
example : FromNBytesC 19 784931 bomb = .ok (.ok bombFilter) := bomb_parses

/-! ## 13. resource bounds -/

/-- STEP BOUND. `ticks` counts the `ReadBit`/`ReadByte` calls of a run. Every iteration of every loop involved —
`for i < N` (gcs.go:308, 404), `for {…}` (gcs.go:481), the unary loop `for c {…}` (gcs.go:532), the two loops
of `ReadBits` (bstream.go:149, 159) — makes one such call, a successful call consumes at least one bit, and
the first unsuccessful one ends the run. Hence at most `8·len(filterData) + 1` calls, i.e. iterations in
total, for `Match`, `HashMatchAny` and `ZipMatchAny` alike — whatever `N` claims (`f.n` does not occur) and
for every `p`: a unary run cannot be longer than the data. -/
theorem C08_gcs_match_steps (sip : Bytes → UInt64) (f : Gcs.Filter) (d : Bytes) (qs : List Bytes) :
    (∃ r b, MatchRun sip f d = .ok (r, b) ∧ b.ticks ≤ 8 * f.data.length + 1) ∧
    (∃ r, HashMatchAnyRun sip f qs = .ok r ∧ r.ticks ≤ 8 * f.data.length + 1) ∧
    (∃ r b, ZipMatchAnyRun sip f qs = .ok (r, b) ∧ b.ticks ≤ 8 * f.data.length + 1) := by
  obtain ⟨⟨r1, b1⟩, e1, _, h1⟩ := MatchRun_spec sip f d
  obtain ⟨r2, e2, _, _, _, h2⟩ := HashMatchAnyRun_spec sip f qs
  obtain ⟨⟨r3, b3⟩, e3, _, h3⟩ := ZipMatchAnyRun_spec sip f qs
  exact ⟨⟨r1, b1, e1, h1⟩, ⟨r2, e2, h2⟩, ⟨r3, b3, e3, h3⟩⟩

/-- the bound is attained: 16 bits, 17 calls (the last one is the EOF) -/
example : HashMatchAnyRun toySip ⟨3, 3, 15, [129, 136]⟩ [[5], [7, 7]] = .ok ⟨true, 3, 3, 17⟩ := toy_pipeline.2.2.1

/-- ALLOCATION. In a run of `HashMatchAny` the size hint passed to `make(map[uint64]struct{}, ·)`
(fix ccc0aee) and the number of map insertions are both at most `8·len(filterData)`, independently of the
declared `N`. -/
theorem C08_gcs_hash_alloc (sip : Bytes → UInt64) (f : Gcs.Filter) (qs : List Bytes) :
    ∃ r, HashMatchAnyRun sip f qs = .ok r ∧ r.hint ≤ 8 * f.data.length ∧ r.stored ≤ 8 * f.data.length := by
  obtain ⟨r, e, _, h1, h2, _⟩ := HashMatchAnyRun_spec sip f qs
  exact ⟨r, e, h1, h2⟩

/-- NEGATIVE (fix ccc0aee): the six bytes `fe ff ff ff ff 00` parse (`N = 2^32-1`, one filter byte); sizing the
table from `N` asks for 4294967295 entries, the fixed code for 8; nothing is ever stored -/
theorem gcs_hash_prefix_alloc_witness :
    bomb.length = 6 ∧ FromNBytesC 19 784931 bomb = .ok (.ok bombFilter) ∧
    HashMatchAnyG false true toySip bombFilter [[1]] = .ok ⟨false, 4294967295, 0, 2⟩ ∧
    HashMatchAnyG true true toySip bombFilter [[1]] = .ok ⟨false, 8, 0, 2⟩ :=
  ⟨rfl, bomb_parses, HashMatchAny_prefix_alloc, HashMatchAny_fixed_alloc⟩

/-- NEGATIVE (fix 8237c21): with `uint32` map keys a query hashing to 5 "matches" the member `2^32 + 5`;
the fixed transcription, the model and `MatchC` say no -/
theorem gcs_hash_prefix_key32_witness :
    FromBytesC 1 32 0x8000000000000000 [0x80, 0, 0, 0x01, 0x40] = .ok (.ok wideFilter) ∧
    Gcs.decodeAll 32 41 (Gcs.unpackBits wideFilter.data) 0 = [4294967301] ∧
    Gcs.hashToRange tenSip wideFilter.modulusNP [] = 5 ∧
    (HashMatchAnyG true false tenSip wideFilter [[]]).map (·.answer) = .ok true ∧
    HashMatchAnyC tenSip wideFilter [[]] = .ok false ∧
    Gcs.HashMatchAny tenSip wideFilter [[]] = false ∧
    MatchC tenSip wideFilter [] = .ok false := HashMatchAny_prefix_key32

/-- There is NO division or modulo by a `P`- or `N`-derived quantity in gcs.go (so no `divZero` witness of
that kind exists): the range reduction is the multiply-shift `fastReduction` (gcs.go:54-74), the Golomb code
uses `<<`, `>>`, `&` only, and the single division is `f.N()/2` (gcs.go:348, checked in `MatchAnyC`).
For contrast: the textbook reduction `v % (N·M)` would divide by zero on the `N = 0` filter that `FromNBytes`
accepts from the one-byte input `00`; `fastReduction` maps everything to 0 there. -/
theorem gcs_no_division (M : UInt64) (v : UInt64) (sip : Bytes → UInt64) (d : Bytes) :
    mod? v.toNat (UInt64.ofNat 0 * M).toNat = .error .divZero ∧
    Gcs.hashToRange sip (UInt64.ofNat 0 * M) d = 0 ∧
    FromNBytesC 19 M [0] = .ok (.ok ⟨0, 19, UInt64.ofNat 0 * M, []⟩) := no_division_contrast M v sip d

/-! ## 14. non-vacuity: build → serialise → parse → query -/

/-- A filter built by the model (`BuildGCSFilter`, three items, `P = 3`, `M = 5`), serialised with `NBytes`,
parsed by `FromNBytesC` and queried by `HashMatchAnyC` (a member among the queries: true; a non-member: false),
`MatchC` and `MatchAnyC` — no fault, right answers. -/
example : ∃ f bytes,
    Gcs.BuildGCSFilter toySip 3 5 [[1, 2, 3], [0xff], [7, 7]] = .ok f ∧
    Gcs.NBytes f = bytes ∧ bytes = [3, 129, 136] ∧
    FromNBytesC 3 5 bytes = .ok (.ok f) ∧
    HashMatchAnyC toySip f [[5], [7, 7]] = .ok true ∧
    HashMatchAnyC toySip f [[5]] = .ok false ∧
    MatchC toySip f [0xff] = .ok true ∧
    MatchAnyC toySip f [[5], [7, 7]] = .ok true := by
  refine ⟨⟨3, 3, 15, [129, 136]⟩, [3, 129, 136], toy_build, toy_pipeline.1, rfl, toy_pipeline.2.1, ?_,
    toy_pipeline.2.2.2.1, toy_pipeline.2.2.2.2.1, toy_pipeline.2.2.2.2.2⟩
  have := toy_pipeline.2.2.1
  unfold HashMatchAnyC
  rw [this]; rfl

/-! ## 15. all GCS entry points -/

/-- No GCS entry point panics or runs away, for any input: parsers, the four queries (every filter value,
every query list), with the step and allocation bounds. -/
theorem C08_gcs_all :
    (∀ N P M d, ∃ r, FromBytesC N P M d = .ok r) ∧
    (∀ P M d, ∃ r, FromNBytesC P M d = .ok r) ∧
    (∀ sip f d, ∃ r, MatchC sip f d = .ok r) ∧
    (∀ sip f qs, ∃ r, HashMatchAnyC sip f qs = .ok r) ∧
    (∀ sip f qs, ∃ r, ZipMatchAnyC sip f qs = .ok r) ∧
    (∀ sip f qs, ∃ r, MatchAnyC sip f qs = .ok r) ∧
    (∀ sip f qs, ∃ r, HashMatchAnyRun sip f qs = .ok r ∧ r.hint ≤ 8 * f.data.length ∧
      r.stored ≤ 8 * f.data.length ∧ r.ticks ≤ 8 * f.data.length + 1) :=
  ⟨FromBytesC_no_fault, FromNBytesC_no_fault, MatchC_no_fault, HashMatchAnyC_no_fault, ZipMatchAnyC_no_fault,
   MatchAnyC_no_fault, fun sip f qs => by
     obtain ⟨r, e, _, h1, h2, h3⟩ := HashMatchAnyRun_spec sip f qs
     exact ⟨r, e, h1, h2, h3⟩⟩

end Bch.Props.C08
