import Bch.Proofs.AddressScript
import Bch.Props.C01
/-!
# C01 — the script-taking constructors

`NewAddressScriptHash(script, net)`, `NewAddressScriptHash32(script, net)` and
`NewLegacyAddressScriptHash(script, net)` of /repo/address.go hash the script (`Hash160` resp. `Hash256`) and
hand the hash to the hash-taking constructor. `Bch.Proofs.AddressScript` defines the three compositions
`newShFromScript`, `newSh32FromScript`, `newLegacyShFromScript` over the model constructors and the fields
`hash160` / `hash256` of the external pack `X : Ext` — exactly what the harness driver evaluates for the kinds
`shs`, `sh32s`, `lshs`. (Go has no script-taking SLP constructor.)

The round trips are corollaries of `C01_cash_roundtrip(_observables)` / `C01_legacy_roundtrip`, which hold
for *every* hash of the right length. The only thing assumed of the hash functions is the output length, and
only at the script in question.
-/
namespace Bch.Props.C01
open Bch Bch.Model Bch.Model.CashAddr Bch.Model.Address
open Bch.Proofs.CashAddr Bch.Proofs.Address Bch.Proofs.AddressScript

/-- **C01_script_payload** (full, no hypothesis). Whatever a script-taking constructor returns is the
address of the right kind whose script payload IS the hash of the script (`Hash160` for P2SH and legacy
P2SH, `Hash256` for P2SH32), carrying the cash prefix resp. the legacy script-hash id of the network asked
for. -/
theorem C01_script_payload (X : Ext) (script : Bytes) (net : Net) (a : Addr) :
    (newShFromScript X script net = .ok a →
      a = .sh (X.hash160 script) net.cashPrefix ∧ ScriptAddress X a = X.hash160 script) ∧
    (newSh32FromScript X script net = .ok a →
      a = .sh32 (X.hash256 script) net.cashPrefix ∧ ScriptAddress X a = X.hash256 script) ∧
    (newLegacyShFromScript X script net = .ok a →
      a = .legacySh (X.hash160 script) net.shID ∧ ScriptAddress X a = X.hash160 script) := by
  refine ⟨fun h => ?_, fun h => ?_, fun h => ?_⟩
  · rw [newShFromScript_eq] at h; split at h
    · cases h; exact ⟨rfl, rfl⟩
    · cases h
  · rw [newSh32FromScript_eq] at h; split at h
    · cases h; exact ⟨rfl, rfl⟩
    · cases h
  · rw [newLegacyShFromScript_eq] at h; split at h
    · cases h; exact ⟨rfl, rfl⟩
    · cases h

/-- The constructors succeed exactly when the hash has the length of the address kind (always, for the
real hashes); otherwise they return the constructor error of the hash-taking constructor. -/
theorem C01_script_ctor (X : Ext) (script : Bytes) (net : Net) :
    ((X.hash160 script).length = 20 →
      newShFromScript X script net = .ok (.sh (X.hash160 script) net.cashPrefix) ∧
      newLegacyShFromScript X script net = .ok (.legacySh (X.hash160 script) net.shID)) ∧
    ((X.hash256 script).length = 32 →
      newSh32FromScript X script net = .ok (.sh32 (X.hash256 script) net.cashPrefix)) ∧
    ((X.hash160 script).length ≠ 20 →
      newShFromScript X script net = .error .other ∧ newLegacyShFromScript X script net = .error .other) ∧
    ((X.hash256 script).length ≠ 32 → newSh32FromScript X script net = .error .other) := by
  refine ⟨fun h => ⟨?_, ?_⟩, fun h => ?_, fun h => ⟨?_, ?_⟩, fun h => ?_⟩
  · rw [newShFromScript_eq, if_pos h]
  · rw [newLegacyShFromScript_eq, if_pos h]
  · rw [newSh32FromScript_eq, if_pos h]
  · rw [newShFromScript_eq, if_neg h]
  · rw [newLegacyShFromScript_eq, if_neg h]
  · rw [newSh32FromScript_eq, if_neg h]

/-- **C01_script_roundtrip** (full). For every registered network and every script:

* if `Hash160(script)` has 20 bytes, `NewAddressScriptHash` returns an address `a` and each of the four
  renderings of its string (as is, upper-cased, `prefix:`-qualified, qualified and upper-cased) decodes to the
  same value `a` — same kind, script payload `Hash160(script)`, identical re-encoding and string, member of
  the network asked for;
* if `Hash256(script)` has 32 bytes, the same for `NewAddressScriptHash32` with payload `Hash256(script)`;
* if `Hash160(script)` has 20 bytes (and the double SHA-256 of the Base58Check checksum has ≥ 4 bytes),
  `NewLegacyAddressScriptHash` returns an address whose Base58Check string decodes to the same value, with
  payload `Hash160(script)`, string = encoding, member of the network asked for. -/
theorem C01_script_roundtrip (X : Ext) : ∀ net ∈ nets, ∀ script : Bytes,
    ((X.hash160 script).length = 20 →
      ∃ a, newShFromScript X script net = .ok a ∧
        ∀ r ∈ renderings net.cashPrefix (EncodeAddress X a), ∃ a', DecodeAddress X r net = .ok a' ∧ a' = a ∧
          ScriptAddress X a' = X.hash160 script ∧ EncodeAddress X a' = EncodeAddress X a ∧
          Address.String X a' = EncodeAddress X a ∧ IsForNet a' net = true) ∧
    ((X.hash256 script).length = 32 →
      ∃ a, newSh32FromScript X script net = .ok a ∧
        ∀ r ∈ renderings net.cashPrefix (EncodeAddress X a), ∃ a', DecodeAddress X r net = .ok a' ∧ a' = a ∧
          ScriptAddress X a' = X.hash256 script ∧ EncodeAddress X a' = EncodeAddress X a ∧
          Address.String X a' = EncodeAddress X a ∧ IsForNet a' net = true) ∧
    ((X.hash160 script).length = 20 → (∀ x, 4 ≤ (X.sha256d x).length) →
      ∃ a, newLegacyShFromScript X script net = .ok a ∧
        DecodeAddress X (EncodeAddress X a) net = .ok a ∧ Address.String X a = EncodeAddress X a ∧
        ScriptAddress X a = X.hash160 script ∧ IsForNet a net = true) := by
  intro net hnet script
  refine ⟨fun hl => ?_, fun hl => ?_, fun hl hsha => ?_⟩
  · have hc := ((C01_script_ctor X script net).1 hl).1
    exact ⟨_, hc, C01_cash_roundtrip_observables X net hnet _ _ (Or.inr (Or.inl hc))⟩
  · have hc := (C01_script_ctor X script net).2.1 hl
    exact ⟨_, hc, C01_cash_roundtrip_observables X net hnet _ _ (Or.inr (Or.inr hc))⟩
  · have hc := ((C01_script_ctor X script net).1 hl).2
    exact ⟨_, hc, C01_legacy_roundtrip X hsha net hnet _ _ (Or.inr hc)⟩

/-! ### non-vacuity (toy pack `Xpad`: the hashes are the zero-padded / truncated script) -/

-- the length hypotheses hold for every script
example : (∀ s, (Xpad.hash160 s).length = 20) ∧ (∀ s, (Xpad.hash256 s).length = 32) ∧
    (∀ s, 4 ≤ (Xpad.sha256d s).length) := ⟨Xpad_hash160_len, Xpad_hash256_len, Xpad_sha256d_len⟩
-- a concrete script: the payload is its hash, different scripts give different addresses
example : newShFromScript Xpad [0x51, 0x87] mainNet
      = .ok (.sh ([0x51, 0x87] ++ List.replicate 18 0) mainNet.cashPrefix) ∧
    newSh32FromScript Xpad [0x51, 0x87] testNet3
      = .ok (.sh32 ([0x51, 0x87] ++ List.replicate 30 0) testNet3.cashPrefix) ∧
    newLegacyShFromScript Xpad [0x52] simNet = .ok (.legacySh (0x52 :: List.replicate 19 0) 123) := by
  decide +kernel
-- the round trip through the real decoder on one of them (a test of the statement, not the claim)
example : DecodeAddress Xpad (EncodeAddress Xpad (.sh ([0x51, 0x87] ++ List.replicate 18 0) mainNet.cashPrefix))
    mainNet = .ok (.sh ([0x51, 0x87] ++ List.replicate 18 0) mainNet.cashPrefix) :=
  (((C01_script_roundtrip Xpad mainNet (by decide +kernel) [0x51, 0x87]).1 (Xpad_hash160_len _)).elim
    fun a ⟨ha, hr⟩ => by
      have ha' : a = .sh ([0x51, 0x87] ++ List.replicate 18 0) mainNet.cashPrefix := by
        have := ((C01_script_payload Xpad [0x51, 0x87] mainNet a).1 ha).1
        rw [this]; decide +kernel
      subst ha'
      obtain ⟨a', h1, h2, _⟩ := hr _ (List.mem_cons_self ..)
      rw [h1, h2])
-- a pack with a wrong-length hash makes the constructors fail (the error branch is reachable in the model)
example : newShFromScript { Xpad with hash160 := fun _ => [] } [1] mainNet = .error .other := by decide +kernel

end Bch.Props.C01
