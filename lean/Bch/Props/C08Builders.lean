import Bch.Proofs.CheckedBuilders
/-
C08, merkle part 2 — the merkle-block BUILDERS: `bloom.NewMerkleBlock` (/repo/bloom/merkleblock.go),
`merkleblock.NewMerkleBlockWithFilter` and `merkleblock.NewMerkleBlockWithTxnSet` (/repo/merkleblock/encode.go).
(`Bch/Props/C08.lean` §5 covers the decoder `ExtractMatches`, `C08BloomTx.lean` §14 the block scan.)

`Bch/Proofs/CheckedBuilders.lean` transcribes the code shared by the three entry points — `calcTreeWidth`,
`calcHash`, `traverseAndBuild`, the height loop, `make([]byte, (len(bits)+7)/8)`, the flag loop — ONCE
(`builderC`): lines 26-80 of the two Go files differ only in the name of the receiver type, and `calcBlock` of
encode.go is the tail of `bloom.NewMerkleBlock`. The parameter is the predicate "transaction i is matched", as
in `Model/MerkleSelect.lean`. Checked operations: `m.allHashes[pos]` (:36), `m.matchedBits[i]` (:57), the
`make` (:193), `mBlock.bits[i]` and the read and write of `Flags[i/8]` (:199). The arithmetic is `uint32`
arithmetic (wrapping `+ - * <<`), not `Nat` arithmetic.

RESULT. The builders panic on a block WITHOUT transactions, and only there:

* `builder_empty_block_faults`: for `n = 0` the transcription faults with an index fault — the height loop ends
  at height 0 (`calcTreeWidth(0) = (0 + 1 - 1) >> 0 = 0`, not `> 1`), `traverseAndBuild(0, 0)` runs its loop
  zero times, appends the flag byte 0 and, because `height == 0`, evaluates `m.calcHash(0, 0)`, which returns
  `m.allHashes[pos]` with `pos = 0` on the empty slice: `index out of range [0] with length 0`
  (bloom/merkleblock.go:36 and merkleblock/encode.go:36, reached from line 65 of either file). This is the
  panic observed when running the real code. `bloom.GetMatchedIndices` on the same block returns normally
  (`builder_scan_empty_block_ok`), so for `bloom.NewMerkleBlock` / `NewMerkleBlockWithFilter` the panic comes
  after the scan (`builder_NewMerkleBlock_empty_block_faults`).
* `builder_no_fault`: for every block with `1 ≤ n ≤ 2^31 - 16` transactions and EVERY predicate (every subset)
  the transcription returns a value. The upper bound is where `uint32` stops agreeing with the integers:
  the tree arithmetic is exact for `n ≤ 2^31` (`builder_tree_arith`; `builder_width_wraps`: at `2^31 + 1`
  the width at height 31 is computed as 0), the flag loop runs to `uint32(len(bits))` and we know
  `len(bits) ≤ 2n + 30`. The wire limit on the transaction count is 2 098 360 (`Merkle.maxTxnCount`).
* ONE step of the Go code is not in the transcription: the message's `Hashes` are filled through
  `msgMerkleBlock.AddTxHash`, which REFUSES (its error is dropped by the builders) once the message holds
  `wire`'s `maxTxPerBlock()` hashes — `ebs/10 + 1` = 12 800 001 with the default block size setting, a mutable
  process-wide value (`wire.SetLimits`). The transcription returns `finalHashes` as they are. So the `*_eq_model` /
  `builder_alloc` statements describe the Go result for blocks of at most `maxTxPerBlock()` matched-tree hashes — which
  covers every block within the wire limit of 2 098 360 transactions under the default setting; above that (or after
  `SetLimits` with a small size) Go silently truncates `Hashes`. `builder_no_fault` is unaffected.
* `builder_eq_model`, `builder_eq_buildMsg`, `builder_txnset_eq_model`, `builder_NewMerkleBlock_eq_model`: the
  returned value is that of the value-level models, so the C11 theorems speak about what the code returns; the
  default hash with which the models are totalised is never used (the statements hold for every `dflt`).
* `builder_steps`, `builder_alloc`: at most `2n + 30` invocations of `calcHash`, at most `2n + 30`
  invocations of `traverseAndBuild` (= flag bits), at most `n` hashes and `n` indices, `ceil(bits/8)` flag bytes.
  `builder_height_loop_terminates`: the height loop stops for every `uint32` count.
-/
namespace Bch.Props.C08
open Bch Bch.Model Bch.Proofs.Checked Bch.Proofs.CheckedBuilders
open Bch.Model.Merkle (Msg buildMsg height width build packFlags)
open Bch.Model.MerkleSelect (MB buildMsgBloom buildWithTxnSet selectBySet selectByScan blockHashes
  newMerkleBlockBloom)

section Builders
variable {H : Type} [DecidableEq H]

/-! ## 15. the builders -/

/-- NO FAULT. For every block of `n` transactions with `1 ≤ n ≤ 2^31 - 16` (`leaves` = their hashes, any
values), every combiner and every predicate `matched` — i.e. every subset of the transactions, also the empty
and the full one — the builder core returns a value. -/
theorem builder_no_fault (comb : H → H → H) (leaves : List H) (matched : Nat → Bool)
    (h1 : 1 ≤ leaves.length) (hn : leaves.length ≤ maxBuilderTx) :
    ∃ r, builderC comb leaves matched = .ok r := by
  cases leaves with
  | nil => simp at h1
  | cons x xs => exact ⟨_, builderC_eq comb (x :: xs) matched x h1 hn⟩

/-- the same for a subset given as a list of bits of length `n` (the Go slice `matchedBits`) -/
theorem builder_no_fault_bits (comb : H → H → H) (leaves : List H) (bits : List Bool)
    (_hb : bits.length = leaves.length) (h1 : 1 ≤ leaves.length) (hn : leaves.length ≤ maxBuilderTx) :
    ∃ r, builderC comb leaves (fun i => bits.getD i false) = .ok r :=
  builder_no_fault comb leaves _ h1 hn

example : maxBuilderTx = 2147483632 ∧ Merkle.maxTxnCount ≤ maxBuilderTx := by decide

/-- EQUALS THE MODEL. What the transcription returns is the statement-level model `buildMsgBloom` of
bloom/merkleblock.go — message and index list — for EVERY default hash `dflt` (the model is totalised with it;
the code never reads out of range, so it does not matter); the third component is the number of invocations
of `calcHash`. -/
theorem builder_eq_model (comb : H → H → H) (leaves : List H) (matched : Nat → Bool) (dflt : H)
    (h1 : 1 ≤ leaves.length) (hn : leaves.length ≤ maxBuilderTx) :
    builderC comb leaves matched = .ok (buildMsgBloom comb leaves matched dflt,
      buildHashCalls matched leaves.length (height leaves.length) 0) :=
  builderC_eq comb leaves matched dflt h1 hn

/-- … and the functional model `Merkle.buildMsg` of merkleblock/encode.go about which C11 is stated -/
theorem builder_eq_buildMsg (comb : H → H → H) (leaves : List H) (matched : Nat → Bool) (dflt : H)
    (h1 : 1 ≤ leaves.length) (hn : leaves.length ≤ maxBuilderTx) :
    builderC comb leaves matched = .ok (buildMsg comb leaves matched dflt,
      buildHashCalls matched leaves.length (height leaves.length) 0) := by
  rw [builderC_eq comb leaves matched dflt h1 hn, Proofs.MerkleSelect.buildMsgBloom_eq]

/-- `merkleblock.NewMerkleBlockWithTxnSet(block, txnSet)`: for every block (1 ≤ n ≤ 2^31-16) and every set -/
theorem builder_txnset_eq_model (comb : H → H → H) (leaves set : List H) (dflt : H)
    (h1 : 1 ≤ leaves.length) (hn : leaves.length ≤ maxBuilderTx) :
    NewMerkleBlockWithTxnSetC comb leaves set = .ok (buildWithTxnSet comb leaves set dflt,
      buildHashCalls (selectBySet leaves set) leaves.length (height leaves.length) 0) :=
  builder_eq_buildMsg comb leaves _ dflt h1 hn

/-- THE EMPTY BLOCK PANICS. For a block without transactions the builder core faults with an index fault,
whatever the combiner and the predicate are. -/
theorem builder_empty_block_faults (comb : H → H → H) (matched : Nat → Bool) :
    builderC comb ([] : List H) matched = .error .indexOOB :=
  builderC_empty comb matched

/-- `NewMerkleBlockWithTxnSet` on the empty block, for every set -/
theorem builder_txnset_empty_block_faults (comb : H → H → H) (set : List H) :
    NewMerkleBlockWithTxnSetC comb ([] : List H) set = .error .indexOOB :=
  builderC_empty comb _

/-- WHERE. On the empty block the height loop returns height 0 (the computed width is 0); the loop of
`traverseAndBuild(0, 0)` and its `append` go through; the faulting operation is `m.allHashes[pos]` in
`calcHash` (line 36 of both files), evaluated for `height == 0`, on a struct whose `allHashes` is empty —
whatever `pos` is. -/
theorem builder_empty_block_fault_site (comb : H → H → H) (m : MB H) (he : m.allHashes = []) (pos : Nat) :
    calcTreeWidthC 0 0 = 0 ∧ heightLoopC 0 33 0 = 0 ∧
    isParentC ({ numTx := 0 } : MB H) 0 0 = .ok 0 ∧
    calcHashC comb m 0 pos = .error .indexOOB :=
  ⟨by decide +kernel, by decide +kernel, rfl, calcHashC_empty comb m he pos⟩

end Builders

/-- `bloom.GetMatchedIndices` on a block without transactions returns (nothing matched, the filter unchanged),
for every filter, loaded or not, and every fuel; for all blocks: `bloomtx_scan_no_fault` in `C08BloomTx.lean` -/
theorem builder_scan_empty_block_ok (fuel : Nat) (f : Bloom.Filter) :
    Proofs.CheckedBloomTx.GetMatchedIndicesC fuel #[] f = .ok { sc := { filter := f, matched := [] } } :=
  GetMatchedIndicesC_empty fuel f

/-- `bloom.NewMerkleBlock(block, filter)` and `merkleblock.NewMerkleBlockWithFilter(block, filter)` (checked
scan, then the core) on the empty block: index fault, for every filter -/
theorem builder_NewMerkleBlock_empty_block_faults (comb : Bytes → Bytes → Bytes) (fuel : Nat) (f : Bloom.Filter) :
    NewMerkleBlockC comb fuel #[] f = .error .indexOOB :=
  NewMerkleBlockC_empty comb fuel f

/-- … and no fault on every block of `1 ≤ n ≤ 2^31-16` records (ANY records: no typing hypothesis) and every
filter within the wire limit on the bit array -/
theorem builder_NewMerkleBlock_no_fault (comb : Bytes → Bytes → Bytes) (fuel : Nat) (block : Array BloomTx.Tx)
    (f : Bloom.Filter) (hl : ∀ m, f = some m → m.bits.length ≤ 36000)
    (h1 : 1 ≤ block.size) (hn : block.size ≤ maxBuilderTx) :
    ∃ r, NewMerkleBlockC comb fuel block f = .ok r :=
  NewMerkleBlockC_no_fault comb fuel block f hl h1 hn

/-- … where, on well-typed records (32-byte hashes), it returns the model `newMerkleBlockBloom` of
`bloom.NewMerkleBlock` (= `buildWithFilter`, `C11_builders_agree_filter`): message, index list, filter -/
theorem builder_NewMerkleBlock_eq_model (comb : Bytes → Bytes → Bytes) (fuel : Nat) (block : Array BloomTx.Tx)
    (C N : Nat) (hb : Proofs.CheckedBloomTx.BlockOK block C N) (f : Bloom.Filter)
    (hl : ∀ m, f = some m → m.bits.length ≤ 36000) (h1 : 1 ≤ block.size) (hn : block.size ≤ maxBuilderTx)
    (dflt : Bytes) :
    ∃ c, NewMerkleBlockC comb fuel block f =
        .ok ((((newMerkleBlockBloom BloomTx.bloomOps BloomTx.bloomSame fuel comb block f dflt).1,
               (newMerkleBlockBloom BloomTx.bloomOps BloomTx.bloomSame fuel comb block f dflt).2.1), c),
             (newMerkleBlockBloom BloomTx.bloomOps BloomTx.bloomSame fuel comb block f dflt).2.2) ∧
      c ≤ 2 * block.size + 30 :=
  NewMerkleBlockC_eq comb fuel block C N hb f hl h1 hn dflt

/-! ## 16. `uint32`: where the bound comes from -/

/-- Inside the tree of a block of `1 ≤ n ≤ 2^31` transactions the `uint32` computations are exact:
`n + 2^height ≤ 2^32` at the root (so at every node), the computed width is the true width at every height up
to the root, and the height loop finds the model's height. -/
theorem builder_tree_arith (n : Nat) (h1 : 1 ≤ n) (hn : n ≤ 2^31) :
    n + 2^(height n) ≤ 2^32 ∧ (∀ h, h ≤ height n → calcTreeWidthC n h = width n h) ∧
      heightLoopC n 33 0 = height n := by
  obtain ⟨hb, _⟩ := tree_bound h1 hn
  refine ⟨hb, ?_, heightLoopC_eq n h1 hn 33 0 (by omega) (by intro k hk; omega)⟩
  intro h hh
  have : 2^h ≤ 2^(height n) := Nat.pow_le_pow_right (by decide) hh
  exact calcTreeWidthC_eq h1 (by omega)

/-- the bound matters: with one transaction more than 2^31 the width at height 31 is computed as 0 (true
value 2), so the height loop stops at 31 instead of 32 — no panic, but a tree without the last transaction -/
theorem builder_width_wraps :
    calcTreeWidthC (2^31+1) 31 = 0 ∧ width (2^31+1) 31 = 2 ∧ heightLoopC (2^31+1) 33 0 = 31 := by
  refine ⟨by decide +kernel, by decide +kernel, by decide +kernel⟩

/-- NO HANG in the height loop, for every count (no bound): `1 << 32` and `x >> 32` are 0 on `uint32`, so the
test fails at height 32 at the latest; the fuel 33 of the transcription is never used up. -/
theorem builder_height_loop_terminates (n : Nat) :
    heightLoopC n 33 0 ≤ 32 ∧ calcTreeWidthC n (heightLoopC n 33 0) ≤ 1 :=
  heightLoopC_terminates n

/-! ## 17. steps and allocation -/

section Steps
variable {H : Type} [DecidableEq H]

/-- STEP BOUND (on the tree, `1 ≤ n ≤ 2^31`, every predicate): `calcHash` is invoked at most `2n + 30` times in
total and `traverseAndBuild` at most `2n + 30` times (each invocation appends one flag bit). Both are bounded by
the number of nodes of the tree, `≤ 2n - 1 + height`. The recursion depth of either is `height + 1 ≤ 32`. -/
theorem builder_steps (comb : H → H → H) (L : Nat → H) (matched : Nat → Bool) (n : Nat)
    (h1 : 1 ≤ n) (hn : n ≤ 2^31) :
    buildHashCalls matched n (height n) 0 ≤ 2 * n + 30 ∧
    (build comb L matched n (height n) 0).1.length ≤ 2 * n + 30 ∧
    (build comb L matched n (height n) 0).2.length ≤ n ∧
    height n ≤ 31 := by
  obtain ⟨a, b⟩ := root_counts_le comb L matched h1 hn
  obtain ⟨hb, hle⟩ := tree_bound h1 hn
  refine ⟨a, b, ?_, ?_⟩
  · have := Proofs.Merkle.build_hashes_le_leaves comb L matched n (height n) 0 (by omega)
    simp only [Nat.zero_mul, Nat.sub_zero] at this
    omega
  · have : 2^(height n) < 2^32 := by omega
    have := (Nat.pow_lt_pow_iff_right (a := 2) (by decide)).mp this
    omega

/-- a sub-tree: `calcHash(h, pos)` makes at most `2·leaves - 1 + h` invocations, `2·leaves - 1` when the
sub-tree is complete -/
theorem builder_calcHash_steps (n h pos : Nat) (hp : pos * 2^h < n) :
    calcHashCalls n h pos + 1 ≤ 2 * span n h pos + h ∧
      ((pos+1) * 2^h ≤ n → calcHashCalls n h pos + 1 ≤ 2 * span n h pos) :=
  calcHashCalls_le n h pos hp

/-- ALLOCATION of the value the transcription returns (`1 ≤ n ≤ 2^31 - 16`): `calls ≤ 2n + 30`; at most `n`
hashes and `n` matched indices; the flag bytes are exactly `ceil(bits/8)` for the `bits ≤ 2n + 30` flag bits
emitted, hence at most `(2n + 37)/8` bytes; `Transactions = n`. -/
theorem builder_alloc (comb : H → H → H) (leaves : List H) (matched : Nat → Bool)
    (h1 : 1 ≤ leaves.length) (hn : leaves.length ≤ maxBuilderTx)
    (msg : Msg H) (idx : List Nat) (calls : Nat) (hr : builderC comb leaves matched = .ok ((msg, idx), calls)) :
    calls ≤ 2 * leaves.length + 30 ∧ msg.numTx = leaves.length ∧ msg.hashes.length ≤ leaves.length ∧
    idx.length ≤ leaves.length ∧
    (∃ bits : List Bool, bits.length ≤ 2 * leaves.length + 30 ∧ msg.flags = packFlags bits ∧
      msg.flags.length = (bits.length + 7) / 8) ∧
    msg.flags.length ≤ (2 * leaves.length + 37) / 8 := by
  have hn31 : leaves.length ≤ 2^31 := by unfold maxBuilderTx at hn; omega
  cases leaves with
  | nil => simp at h1
  | cons x xs =>
    rw [builder_eq_buildMsg comb (x :: xs) matched x h1 hn] at hr
    have h := Except.ok.inj hr
    have hmi := congrArg Prod.fst h
    have hc := congrArg Prod.snd h
    have hm := congrArg Prod.fst hmi
    have hi := congrArg Prod.snd hmi
    simp only at hc hm hi
    obtain ⟨s1, s2, s3, _⟩ := builder_steps comb (fun i => (x :: xs).getD i x) matched (x :: xs).length h1 hn31
    subst hm hi hc
    have hfl := Proofs.MerkleSelect.packFlags_length'
      (build comb (fun i => (x :: xs).getD i x) matched (x :: xs).length (height (x :: xs).length) 0).1
    refine ⟨s1, rfl, s3, ?_, ⟨_, s2, rfl, hfl⟩, ?_⟩
    · show ((List.range (x :: xs).length).filter matched).length ≤ _
      exact Nat.le_trans (List.length_filter_le _ _) (by simp)
    · show (packFlags _).length ≤ _
      rw [hfl]
      omega

end Steps

/-! ## non-vacuity -/
section examples

-- n = 1: the tree is the single leaf; one flag bit (matched or not), one hash, one call of `calcHash`
example : builderView (builderC (fun a b => 10 * a + b) [7] (fun _ => true)) = .ok (1, [7], [1], [0], 1) := by
  decide +kernel
example : builderView (builderC (fun a b => 10 * a + b) [7] (fun _ => false)) = .ok (1, [7], [0], [], 1) := by
  decide +kernel
-- n = 3, subset {1}: bits 1 1 0 1 0 (root, left inner node, leaf 0, leaf 1, right inner node), hashes
-- leaf 0, leaf 1 and the right inner node 33 = comb 3 3 (the last leaf paired with itself): 4 calls of `calcHash`
example : builderView (builderC (fun a b => 10 * a + b) [1, 2, 3] (fun i => i == 1))
    = .ok (3, [1, 2, 33], [0x0b], [1], 4) := by decide +kernel
-- n = 3, empty subset: one bit, the root hash, computed by 6 invocations of `calcHash`; full subset: 6 bits
example : builderView (builderC (fun a b => 10 * a + b) [1, 2, 3] (fun _ => false))
    = .ok (3, [153], [0], [], 6) := by decide +kernel
example : builderView (builderC (fun a b => 10 * a + b) [1, 2, 3] (fun _ => true))
    = .ok (3, [1, 2, 3], [0x3f], [0, 1, 2], 3) := by decide +kernel
-- the model agrees (for any default, here 0 and 99)
example : (buildMsgBloom (fun a b => 10 * a + b) [1, 2, 3] (fun i => i == 1) 0).1.hashes = [1, 2, 33] ∧
    (buildMsgBloom (fun a b => 10 * a + b) [1, 2, 3] (fun i => i == 1) 99).1.flags = [0x0b] := by decide +kernel
-- through a set of hashes: the transaction with hash 2 is selected
example : builderView (NewMerkleBlockWithTxnSetC (fun a b => 10 * a + b) [1, 2, 3] [5, 2])
    = .ok (3, [1, 2, 33], [0x0b], [1], 4) := by decide +kernel
-- n = 0: the fault, through the core, through the set builder and through the filter builders
example : builderView (builderC (fun a b => 10 * a + b) [] (fun _ => true)) = .error .indexOOB := by decide +kernel
example : builderView (NewMerkleBlockWithTxnSetC (fun a b => 10 * a + b) [] [5, 2]) = .error .indexOOB := by
  decide +kernel
example : (NewMerkleBlockC (fun a b => a ++ b) 5 #[] none).toOption.isNone = true := by
  rw [builder_NewMerkleBlock_empty_block_faults]; rfl
-- the hypotheses of the theorems are satisfiable
example : 1 ≤ [1, 2, 3].length ∧ [1, 2, 3].length ≤ maxBuilderTx := by decide +kernel
-- the step bound is not far off: 7 leaves, nothing matched: 14 = 2·7 - 1 + (3 - 2) invocations of `calcHash`
example : buildHashCalls (fun _ => false) 7 (height 7) 0 = 14 ∧ calcHashCalls 7 (height 7) 0 = 14 := by decide +kernel

end examples

end Bch.Props.C08
