import Bch.Proofs.CheckedBloomTx
/-
C08, bloom part 2 — "… bloom filter-load messages within the wire limits AND THE DATA OR TRANSACTIONS MATCHED
AGAINST THEM": the transaction entry points of /repo/bloom/filter.go and the per-transaction step of the block
scan of /repo/bloom/merkleblock.go (`Bch/Props/C08.lean` §4 covers `hash`/`matches`/`add` on byte strings).

`Bch/Proofs/CheckedBloomTx.lean` transcribes `matchesOutPoint`, `addOutPoint`, `AddHash`, `maybeAddOutpoint`,
`matchTxAndUpdate`, `checkFilterTx`, `GetMatchedIndices` with every slice of the 36-byte outpoint buffer,
`binary.LittleEndian.PutUint32` (`_ = b[3]` and the four stores), the un-guarded `bf.msgFilterLoad.Flags`
dereference and every call into the checked `matches`/`add` as a checked operation. The transaction is the
abstract record of `Bch/Model/BloomTx.lean` (`txscript.PushedData` result or error, script class, hashes are
inputs). The filter state carries two ghost counters: `ticks` (evaluations of `matches`/`add`) and `alloc`
(bytes of buffers the code allocates).

* `…_no_fault`: for ALL records — any number of outputs/inputs/pushes, any push length, hashes of any length,
  any index — and every filter whose bit array is within `MaxFilterLoadFilterSize` (no condition on
  `HashFuncs`, `Tweak`, `Flags`), and for the unloaded filter.
* `…_eq_model`: the value is that of `BloomTx.matchTxAndUpdate bloomOps` (the model C10 reasons about).
  Hypothesis `WellTyped tx`: the hashes have 32 bytes, which is Go's type `chainhash.Hash = [32]byte`; for other
  records the code (Go's `copy`) truncates / zero-pads, `bloomtx_outpoint_any_length`.
* `bloomtx_steps`, `bloomtx_hash_evals`, `bloomtx_alloc`: resources, linear in the size of the record.
* negative witnesses: the outpoint array too short; `maybeAddOutpoint` on an unloaded filter.

Hypothesis style as in `C08.lean`: `∀ m, f = some m → m.bits.length ≤ 36000` (= `Bch.Proofs.Bloom.Lim f`).
-/
namespace Bch.Props.C08
open Bch Bch.Model Bch.Proofs.Checked Bch.Proofs.CheckedBloomTx
open Bch.Model.BloomTx (TxOut TxIn Tx bloomOps bloomSame)

/-! ## 11. outpoints: `MatchesOutPoint`, `AddOutPoint`, `AddHash` -/

/-- The serialisation `var buf [36]byte; copy(buf[:], hash[:]); PutUint32(buf[32:], index); buf[:]` never
faults, whatever the length of `hash` and the value of `index`; the result has exactly 36 bytes: the hash
truncated / zero-padded to 32 bytes, then the index mod 2^32 little-endian. -/
theorem bloomtx_outpoint_any_length (s : FS) (hash : Bytes) (index : Nat) :
    outPointBufC s hash index
      = .ok (fix32 hash ++ Bytes.ofNatLE 4 index, { s with alloc := s.alloc + 36 }) ∧
    (fix32 hash ++ Bytes.ofNatLE 4 index).length = 36 :=
  ⟨outPointBufC_eq s hash index, (outPointBufC_length s hash index _ (outPointBufC_eq s hash index)).1⟩

/-- … and for a 32-byte hash it is the model's `outPointBytes` -/
theorem bloomtx_outpoint_eq_model (s : FS) (hash : Bytes) (hh : hash.length = 32) (index : Nat) :
    outPointBufC s hash index
      = .ok (BloomTx.outPointBytes hash index, { s with alloc := s.alloc + 36 }) := by
  have := outPointBufC_eq s hash index
  rwa [fix32_of_length hh] at this

/-- NEGATIVE: the size of the array matters. With 32 bytes `buf[32:]` is the empty slice and `PutUint32`'s
bounds check `_ = b[3]` panics (`indexOOB`); with fewer the slice expression `buf[32:]` itself panics
(`sliceOOB`). Both for every input. -/
theorem bloomtx_outpoint_buffer_short_fault (s : FS) (hash : Bytes) (index : Nat) :
    outPointBufG 32 s hash index = .error .indexOOB ∧
    (∀ size, size < 32 → outPointBufG size s hash index = .error .sliceOOB) :=
  ⟨outPointBufG_32_fault s hash index, fun size h => outPointBufG_short_fault size h s hash index⟩

example : outPointBufG 31 ⟨none, 0, 0⟩ (List.replicate 32 0xA) 1 = .error .sliceOOB := by decide +kernel
example : outPointBufG 32 ⟨none, 0, 0⟩ (List.replicate 32 0xA) 1 = .error .indexOOB := by decide +kernel
example : outPointBufC ⟨none, 0, 0⟩ [1, 2, 3] 0x01020304
    = .ok ([1, 2, 3] ++ List.replicate 29 0 ++ [4, 3, 2, 1], ⟨none, 0, 36⟩) := by decide +kernel

theorem bloomtx_matchesOutPointC_no_fault (s : FS) (h : ∀ m, s.f = some m → m.bits.length ≤ 36000)
    (hash : Bytes) (index : Nat) : ∃ r, matchesOutPointC s hash index = .ok r :=
  ⟨_, matchesOutPointC_eq s h hash index⟩

theorem bloomtx_matchesOutPointC_eq_model (s : FS) (h : ∀ m, s.f = some m → m.bits.length ≤ 36000)
    (hash : Bytes) (hh : hash.length = 32) (index : Nat) :
    matchesOutPointC s hash index
      = .ok (Bloom.matchesOutPoint s.f hash index, { s with ticks := s.ticks + 1, alloc := s.alloc + 36 }) := by
  have := matchesOutPointC_eq s h hash index
  rwa [fix32_of_length hh] at this

theorem bloomtx_addOutPointC_no_fault (s : FS) (h : ∀ m, s.f = some m → m.bits.length ≤ 36000)
    (hash : Bytes) (index : Nat) : ∃ r, addOutPointC s hash index = .ok r :=
  ⟨_, addOutPointC_eq s h hash index⟩

theorem bloomtx_addOutPointC_eq_model (s : FS) (h : ∀ m, s.f = some m → m.bits.length ≤ 36000)
    (hash : Bytes) (hh : hash.length = 32) (index : Nat) :
    addOutPointC s hash index
      = .ok { f := Bloom.addOutPoint s.f hash index, ticks := s.ticks + 1, alloc := s.alloc + 36 } := by
  have := addOutPointC_eq s h hash index
  rwa [fix32_of_length hh] at this

/-- `AddHash`: one `add`, no buffer -/
theorem bloomtx_addHashC_eq_model (s : FS) (h : ∀ m, s.f = some m → m.bits.length ≤ 36000) (hash : Bytes) :
    addHashC s hash = .ok { s with f := Bloom.add s.f hash, ticks := s.ticks + 1 } :=
  addHashC_eq s h hash

theorem bloomtx_addHashC_no_fault (s : FS) (h : ∀ m, s.f = some m → m.bits.length ≤ 36000) (hash : Bytes) :
    ∃ r, addHashC s hash = .ok r := ⟨_, addHashC_eq s h hash⟩

/-! ## 12. `maybeAddOutpoint` -/

/-- On a loaded filter within the limit: no fault, the model's filter, at most one `add` and one buffer. -/
theorem bloomtx_maybeAddOutpointC_eq_model (s : FS) (m : Bloom.Msg) (hm : s.f = some m)
    (h : m.bits.length ≤ 36000) (o : TxOut) (id : Bytes) (hid : id.length = 32) (idx : Nat) :
    ∃ k a, maybeAddOutpointC s o id idx
        = .ok { f := BloomTx.maybeAddOutpoint bloomOps s.f o id idx, ticks := s.ticks + k, alloc := s.alloc + a } ∧
      k ≤ 1 ∧ a ≤ 36 := by
  have := maybeAddOutpointC_eq s m hm (by rw [hm]; exact Bch.Proofs.Bloom.Lim_some.mpr h) o id idx
  rwa [fix32_of_length hid] at this

theorem bloomtx_maybeAddOutpointC_no_fault (s : FS) (m : Bloom.Msg) (hm : s.f = some m)
    (h : m.bits.length ≤ 36000) (o : TxOut) (id : Bytes) (idx : Nat) :
    ∃ r, maybeAddOutpointC s o id idx = .ok r := by
  obtain ⟨k, a, e, _⟩ := maybeAddOutpointC_eq s m hm (by rw [hm]; exact Bch.Proofs.Bloom.Lim_some.mpr h) o id idx
  exact ⟨_, e⟩

/-- NEGATIVE: `maybeAddOutpoint` reads `bf.msgFilterLoad.Flags` without a nil test: on an unloaded filter it
panics for every argument. `matchTxAndUpdate` is nevertheless safe on the unloaded filter
(`bloomtx_unloaded`) because the call sits behind a successful `matches`, which an unloaded filter never gives. -/
theorem bloomtx_maybeAddOutpoint_unloaded_fault (t a : Nat) (o : TxOut) (id : Bytes) (idx : Nat) :
    maybeAddOutpointC ⟨none, t, a⟩ o id idx = .error .nilDeref :=
  maybeAddOutpointC_unloaded t a o id idx

/-! ## 13. `MatchTxAndUpdate` -/

/-- **No fault**: every transaction record, every filter within the wire limit on the bit array, or unloaded. -/
theorem bloomtx_matchTxAndUpdateC_no_fault (s : FS) (h : ∀ m, s.f = some m → m.bits.length ≤ 36000) (tx : Tx) :
    ∃ r, matchTxAndUpdateC s tx = .ok r := by
  obtain ⟨k, a, e, _⟩ := matchTxAndUpdateC_spec s h tx
  exact ⟨_, e⟩

/-- … spelled out for a loaded message -/
theorem bloomtx_matchTxAndUpdateC_no_fault_loaded (m : Bloom.Msg) (h : m.bits.length ≤ 36000) (t a : Nat)
    (tx : Tx) : ∃ r, matchTxAndUpdateC ⟨some m, t, a⟩ tx = .ok r :=
  bloomtx_matchTxAndUpdateC_no_fault ⟨some m, t, a⟩ (Bch.Proofs.Bloom.Lim_some.mpr h) tx

/-- … and for the unloaded filter: no fault, no match, still unloaded -/
theorem bloomtx_unloaded (t a : Nat) (tx : Tx) :
    ∃ k b, matchTxAndUpdateC ⟨none, t, a⟩ tx = .ok (⟨none, t + k, a + b⟩, false) := by
  obtain ⟨k, b, e, _⟩ := matchTxAndUpdateC_spec ⟨none, t, a⟩ Bch.Proofs.Bloom.Lim_none tx
  rw [matchTxV_none] at e
  exact ⟨k, b, e⟩

/-- **The model is what the code computes**: filter after the call and verdict are those of
`BloomTx.matchTxAndUpdate` on the real bloom operations. -/
theorem bloomtx_matchTxAndUpdateC_eq_model (s : FS) (h : ∀ m, s.f = some m → m.bits.length ≤ 36000) (tx : Tx)
    (hw : WellTyped tx) :
    ∃ k a, matchTxAndUpdateC s tx
      = .ok ({ f := (BloomTx.matchTxAndUpdate bloomOps s.f tx).1, ticks := s.ticks + k, alloc := s.alloc + a },
             (BloomTx.matchTxAndUpdate bloomOps s.f tx).2) := by
  obtain ⟨k, a, e, _⟩ := matchTxAndUpdateC_spec s h tx
  rw [matchTxV_eq_model _ _ hw] at e
  exact ⟨k, a, e⟩

/-- **Steps**: the number of `matches`/`add` evaluations of one `MatchTxAndUpdate` is at most
`1 + Σ_outputs (pushes + 1) + Σ_inputs (1 + pushes)` — linear in the size of the transaction; an output or
input whose script does not parse (`PushedData` error) counts with 0 pushes. For every record. -/
theorem bloomtx_steps (s : FS) (h : ∀ m, s.f = some m → m.bits.length ≤ 36000) (tx : Tx) :
    ∃ r, matchTxAndUpdateC s tx = .ok r ∧
      r.1.ticks - s.ticks ≤ 1 + (tx.outs.map fun o => pushCount o.pushes + 1).sum
                              + (tx.ins.map fun i => 1 + pushCount i.pushes).sum ∧
      s.ticks ≤ r.1.ticks := by
  obtain ⟨k, a, e, hk, _⟩ := matchTxAndUpdateC_spec s h tx
  refine ⟨_, e, ?_, ?_⟩
  · simp only [txCost, outsCost, insCost] at hk; simp only; omega
  · simp only; omega

/-- **Hash evaluations**: each evaluation runs the loop of `matches`/`add` on the fuel `HashFuncs`, one `hash`
per iteration; `HashFuncs` is not changed by the scan (nor are the length of the bit array, the tweak, the
flags); so with `HashFuncs ≤ MaxFilterLoadHashFuncs = 50` one `MatchTxAndUpdate` costs at most `50 · txCost`
hash evaluations. -/
theorem bloomtx_hash_evals (m : Bloom.Msg) (h : m.bits.length ≤ 36000) (hn : m.nHash ≤ 50) (t a : Nat) (tx : Tx) :
    (∀ d, matchesMsgC m d = (if m.bits.isEmpty then pure true else matchesLoopC m d m.nHash 0)) ∧
    (∀ d, addMsgC m d = (if m.bits.isEmpty then pure m else do
        let bits ← addLoopC m.tweak d m.nHash 0 m.bits
        pure { m with bits := bits })) ∧
    ∃ m' k b v, matchTxAndUpdateC ⟨some m, t, a⟩ tx = .ok (⟨some m', t + k, a + b⟩, v) ∧
      m'.nHash = m.nHash ∧ m'.bits.length = m.bits.length ∧ m'.tweak = m.tweak ∧ m'.flags = m.flags ∧
      k * m.nHash ≤ 50 * txCost tx := by
  refine ⟨fun d => (eval_fuel m d).1, fun d => (eval_fuel m d).2, ?_⟩
  obtain ⟨k, b, e, hk, _⟩ := matchTxAndUpdateC_spec ⟨some m, t, a⟩ (Bch.Proofs.Bloom.Lim_some.mpr h) tx
  have hs := shape_matchTxV (some m) tx
  cases hf : (matchTxV (some m) tx).1 with
  | none => rw [hf] at hs; simp [shape] at hs
  | some m' =>
    rw [hf] at hs e
    simp only [shape, Option.map_some, Option.some.injEq, Prod.mk.injEq] at hs
    refine ⟨m', k, b, _, e, hs.2.1, hs.1, hs.2.2.1, hs.2.2.2, ?_⟩
    calc k * m.nHash ≤ txCost tx * 50 := Nat.mul_le_mul hk hn
      _ = 50 * txCost tx := Nat.mul_comm _ _

/-- **Allocation**: the only buffers are the 36-byte outpoint arrays — at most one per output (the `add` after a
match) and one per input (the `matches` on the previous outpoint); none of their sizes depends on a length in
the input (`bloomtx_outpoint_any_length`), and the bit array keeps its length. For every record. -/
theorem bloomtx_alloc (s : FS) (h : ∀ m, s.f = some m → m.bits.length ≤ 36000) (tx : Tx) :
    ∃ r, matchTxAndUpdateC s tx = .ok r ∧
      r.1.alloc - s.alloc ≤ 36 * (tx.outs.length + tx.ins.length) ∧ s.alloc ≤ r.1.alloc ∧
      shape r.1.f = shape s.f := by
  obtain ⟨k, a, e, _, ha, _⟩ := matchTxAndUpdateC_spec s h tx
  refine ⟨_, e, ?_, ?_, shape_matchTxV s.f tx⟩
  · simp only; omega
  · simp only; omega

/-! ## 14. the block scan (`GetMatchedIndices` / `checkFilterTx`) -/

/-- No record, in no block, with no fuel makes the transcribed scan fault. -/
theorem bloomtx_scan_no_fault (fuel : Nat) (block : Array Tx) (f : Bloom.Filter)
    (h : ∀ m, f = some m → m.bits.length ≤ 36000) : ∃ r, GetMatchedIndicesC fuel block f = .ok r :=
  GetMatchedIndicesC_no_fault fuel block f h

/-- On a block of well-typed records the transcribed scan returns the model's `Scan` (the one C10 is about),
having spent at most `steps · C` evaluations and `steps · (72000 + 36·N)` bytes (two copies of the bit array by
`filterBits` plus the outpoint buffers per `MatchTxAndUpdate`), where `steps` is the model's count of
`MatchTxAndUpdate` evaluations (C10: `steps ≤ block.size · (Σ outputs + 1)`), `C` bounds `txCost` and `N` the
number of outputs + inputs of the records of the block. -/
theorem bloomtx_scan_eq_model (fuel : Nat) (block : Array Tx) (C N : Nat) (hb : BlockOK block C N)
    (f : Bloom.Filter) (h : ∀ m, f = some m → m.bits.length ≤ 36000) :
    ∃ k a, GetMatchedIndicesC fuel block f
        = .ok ⟨BloomTx.GetMatchedIndices bloomOps bloomSame fuel block f, k, a⟩ ∧
      k ≤ (BloomTx.GetMatchedIndices bloomOps bloomSame fuel block f).steps * C ∧
      a ≤ (BloomTx.GetMatchedIndices bloomOps bloomSame fuel block f).steps * (72000 + 36 * N) :=
  GetMatchedIndicesC_eq fuel block C N hb f h

/-! ## non-vacuity: an 8-byte filter (2 hash functions, tweak 5, `BloomUpdateAll`) watching the datum `[7]` -/
section examples
open Bch.Proofs.CheckedBloomTx.Toy

example : bloomtxF0 = some { bits := [1, 0, 0, 0, 2, 0, 0, 0], nHash := 2, tweak := 5, flags := 1 } := by
  decide +kernel
example : ∀ m, bloomtxF0 = some m → m.bits.length ≤ 36000 := by
  intro m hm; cases hm; decide +kernel
example : WellTyped bloomtxT1 ∧ WellTyped bloomtxT2 ∧ WellTyped bloomtxT3 := by
  refine ⟨⟨by decide, ?_⟩, ⟨by decide, ?_⟩, ⟨by decide, ?_⟩⟩ <;>
    (intro i hi; simp only [bloomtxT1, bloomtxT2, bloomtxT3, List.mem_singleton] at hi; subst hi; decide)

-- the transaction hash misses, `[9]` misses, `[7]` hits, outpoint (T1, 0) is inserted through one 36-byte
-- buffer; the unparsable output is skipped; the inputs are not looked at: 4 evaluations (bound: 7)
example : matchTxAndUpdateC ⟨bloomtxF0, 0, 0⟩ bloomtxT1
    = .ok (⟨some { bits := [1, 4, 0, 0, 2, 64, 0, 0], nHash := 2, tweak := 5, flags := 1 }, 4, 36⟩, true) := by
  decide +kernel
example : BloomTx.matchTxAndUpdate bloomOps bloomtxF0 bloomtxT1
    = (some { bits := [1, 4, 0, 0, 2, 64, 0, 0], nHash := 2, tweak := 5, flags := 1 }, true) := by
  decide +kernel
example : txCost bloomtxT1 = 7 ∧ txCost bloomtxT2 = 6 ∧ txCost bloomtxT3 = 7 := by decide

-- on the updated filter the spender of (T1, 0) matches through its input (3 evaluations, one buffer),
-- the spender of (T1, 1) runs through everything and does not (5 evaluations, one buffer)
example : matchTxAndUpdateC ⟨some { bits := [1, 4, 0, 0, 2, 64, 0, 0], nHash := 2, tweak := 5, flags := 1 }, 0, 0⟩
    bloomtxT2 = .ok (⟨some { bits := [1, 4, 0, 0, 2, 64, 0, 0], nHash := 2, tweak := 5, flags := 1 }, 3, 36⟩, true) := by
  decide +kernel
example : matchTxAndUpdateC ⟨some { bits := [1, 4, 0, 0, 2, 64, 0, 0], nHash := 2, tweak := 5, flags := 1 }, 0, 0⟩
    bloomtxT3 = .ok (⟨some { bits := [1, 4, 0, 0, 2, 64, 0, 0], nHash := 2, tweak := 5, flags := 1 }, 5, 36⟩, false) := by
  decide +kernel

-- the unloaded filter: every `matches` is evaluated (and answers false), nothing is inserted
example : matchTxAndUpdateC ⟨none, 0, 0⟩ bloomtxT1 = .ok (⟨none, 5, 36⟩, false) := by decide +kernel

-- the block scan with the spender listed before its parent: indices 0 and 1 are reported, 5 evaluations of
-- `MatchTxAndUpdate`, 20 of `matches`/`add`
example : BlockOK #[bloomtxT2, bloomtxT1, bloomtxT3] 7 3 := by
  have hmem : ∀ (i : Nat) (tx : Tx), #[bloomtxT2, bloomtxT1, bloomtxT3][i]? = some tx →
      tx = bloomtxT2 ∨ tx = bloomtxT1 ∨ tx = bloomtxT3 := by
    intro i tx h
    match i, h with
    | 0, h => left; simpa using h.symm
    | 1, h => right; left; simpa using h.symm
    | 2, h => right; right; simpa using h.symm
    | n+3, h => simp at h
  have hwt : WellTyped bloomtxT1 ∧ WellTyped bloomtxT2 ∧ WellTyped bloomtxT3 := by
    refine ⟨⟨by decide, ?_⟩, ⟨by decide, ?_⟩, ⟨by decide, ?_⟩⟩ <;>
      (intro i hi; simp only [bloomtxT1, bloomtxT2, bloomtxT3, List.mem_singleton] at hi; subst hi; decide)
  refine ⟨fun i tx h => ?_, fun i tx h => ?_, fun i tx h => ?_⟩ <;>
    rcases hmem i tx h with rfl | rfl | rfl
  · exact hwt.2.1
  · exact hwt.1
  · exact hwt.2.2
  all_goals decide

example : (match GetMatchedIndicesC 5 #[bloomtxT2, bloomtxT1, bloomtxT3] bloomtxF0 with
    | .ok r => (r.sc.matched, r.sc.steps, r.sc.outOfFuel, r.ticks, r.alloc)
    | .error _ => ([], 0, true, 0, 0)) = ([0, 1], 5, false, 20, 260) := by decide +kernel

end examples

end Bch.Props.C08
