import Bch.Tie.Locking
import Bch.Tie.Gcs
namespace Bch.Props.C20
open Bch.Model.Locking

/-- every exported method of bloom.Filter (skeletons regenerated from the source) is well bracketed -/
theorem wellBracketed_all :
    ∀ m ∈ Bch.Generated.bloomSkeletons, wellBracketed m.2 = true := by
  have h := Bch.Tie.Locking.tie_bloom_lock_discipline
  simpa [List.all_eq_true] using h

/-- gcs.Filter methods never write receiver state -/
theorem C20_gcs_immutable : ∀ m ∈ Bch.Generated.gcsWrites, m.2 = 0 := by
  have h := Bch.Tie.Gcs.tie_gcs_immutable
  simpa [List.all_eq_true] using h

end Bch.Props.C20
