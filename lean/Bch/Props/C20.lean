import Bch.Tie.Locking
import Bch.Tie.GcsImmutable
import Bch.Proofs.Locking
import Bch.Props.C09
/-
Property C20 — a bloom filter may be used from many goroutines at once; GCS filters are immutable.

The interleaving semantics (`stepT`, `Reach`, `init`, traces of `Event`s) and all lemmas are in
`Bch/Proofs/Locking.lean`; read its header for the modelling choices (effect of an invocation at
its first `access`, implicit `ret` at the end of a body, no rule for `opaque`).  Vocabulary:
* `WB P`            every skeleton of program `P` is `wellBracketed`;
* `OS P`            every skeleton is "one-section": `skip* lock skip* access (access|skip)* unlock
                    skip* (ret|end)` — the shape of ALL extracted skeletons (`real_skeletons_oneSection`);
* `effInvs tr`      (thread, index, op) of the invocations in the order of their effects;
* `lockInvs tr`     (thread, index, op) of the `lock` events of the trace, in order;
* `Gov tr l p`      `l` is the position of the last `lock` event before position `p`, and it belongs
                    to the same invocation as the event at `p`;
* `seqRun step s0 l` sequential execution of the invocations `l`: final state and result log.
-/
namespace Bch.Props.C20
open Bch.Model.Locking Bch.Proofs.Locking

/-- every exported method of bloom.Filter (skeletons regenerated from the source) is well bracketed -/
theorem wellBracketed_all :
    ∀ m ∈ Bch.Generated.bloomSkeletons, wellBracketed m.2 = true := by
  have h := Bch.Tie.Locking.tie_bloom_lock_discipline
  simpa [List.all_eq_true] using h

/-- gcs.Filter methods never write receiver state -/
theorem C20_gcs_immutable : ∀ m ∈ Bch.Generated.gcsWrites, m.2 = 0 := by
  have h := Bch.Tie.GcsImmutable.tie_gcs_immutable
  simpa [List.all_eq_true] using h

section Generic
variable {σ Op Res : Type} (step : σ → Op → σ × Res)

/-- **Mutual exclusion.** In every reachable configuration of every program (`k` threads, any
skeletons) the threads inside a critical section (last mutex event is a `lock`) are exactly the
mutex holder — so at most one.  For well-bracketed programs every `access` event at any trace
position is performed by the thread that holds the mutex and is inside its critical section at
that moment.  (Every prefix of an execution is itself reachable, so this covers all executions.) -/
theorem C20_mutual_exclusion (P : List (List (Invoc Op))) (s0 : σ) (c : Config σ Op Res)
    (h : Reach step (init P s0) c) :
    (∀ t t', inCS t c.tr = true → inCS t' c.tr = true → t = t') ∧
    (∀ t, inCS t c.tr = true ↔ c.holder = some t) ∧
    (WB P → ∀ (p : Nat) (e : Event Op), c.tr[p]? = some e → e.act = .access →
      e.holder = some e.tid ∧ inCS e.tid (c.tr.take p) = true) := by
  obtain ⟨h1, h2, h3⟩ := mutual_exclusion h
  refine ⟨h1, h2, ?_⟩
  intro hP p e hp hacc
  have := access_by_holder hP h e (List.mem_of_getElem? hp) hacc
  exact ⟨this, (h3 p e hp e.tid).mpr this⟩

/-- **Data-race freedom (headline).** In any execution of a well-bracketed program, two `access`
events of different threads at trace positions `p < p'` are separated by an `unlock` of the earlier
thread at `u` and a `lock` of the later thread at `l`, `p < u < l < p'`: they are ordered by the
mutex's happens-before edge of the Go memory model. -/
theorem C20_drf (P : List (List (Invoc Op))) (s0 : σ) (c : Config σ Op Res) (hP : WB P)
    (h : Reach step (init P s0) c) :
    ∀ (p p' : Nat) (a a' : Event Op), p < p' → c.tr[p]? = some a → c.tr[p']? = some a' →
      a.act = .access → a'.act = .access → a.tid ≠ a'.tid →
      ∃ (u l : Nat) (b d : Event Op), p < u ∧ u < l ∧ l < p' ∧
        c.tr[u]? = some b ∧ b.act = .unlock ∧ b.tid = a.tid ∧
        c.tr[l]? = some d ∧ d.act = .lock ∧ d.tid = a'.tid :=
  drf hP h

/-- **Linearizability (headline), well-bracketed programs.** For every reachable configuration:
1. the shared state and the recorded results are those of the sequential run of the invocations in
   the order of their effects; in particular the invocation at any place of that order got the
   result the sequential run gives it there;
2. the effects are effects of invocations of the program, and in a complete execution every thread
   has performed exactly its effectful invocations, once each, in program order;
3. that order is the order of the `lock` events: every effect is governed by the last `lock` event
   before it, which belongs to the same invocation, and of two effects `p < p'` the governing
   `lock` of the later lies after the earlier effect (`l < p < l' < p'`). -/
theorem C20_linearizable (P : List (List (Invoc Op))) (s0 : σ) (c : Config σ Op Res) (hP : WB P)
    (h : Reach step (init P s0) c) :
    ((c.st, c.res) = seqRun step s0 (effInvs c.tr) ∧
     c.st = ((effInvs c.tr).map (·.2.2)).foldl (fun s op => (step s op).1) s0 ∧
     ∀ pre x post, effInvs c.tr = pre ++ x :: post →
       (x.1, x.2.1, (step ((pre.map (·.2.2)).foldl (fun s op => (step s op).1) s0) x.2.2).2)
         ∈ c.res) ∧
    ((∀ t i op, (t, i, op) ∈ effInvs c.tr →
        ∃ inv, (P.getD t [])[i]? = some inv ∧ inv.op = op ∧ effectful inv.sk = true) ∧
     (Complete c → ∀ t, effOf t c.tr = expected 0 (P.getD t []))) ∧
    ((∀ (p : Nat) (a : Event Op), c.tr[p]? = some a → a.eff = true → ∃ l, Gov c.tr l p) ∧
     (∀ (p p' l l' : Nat) (a a' : Event Op), p < p' → c.tr[p]? = some a → c.tr[p']? = some a' →
        a.eff = true → a'.eff = true → Gov c.tr l p → Gov c.tr l' p' →
        l < p ∧ p < l' ∧ l' < p')) := by
  have hs : (c.st, c.res) = seqRun step s0 (effInvs c.tr) := (reach_all h).seq
  have h1 : c.st = (seqRun step s0 (effInvs c.tr)).1 := by rw [← hs]
  have h2 : c.res = (seqRun step s0 (effInvs c.tr)).2 := by rw [← hs]
  refine ⟨⟨hs, by rw [h1, seqRun_fst], ?_⟩, ⟨fun t i op hm => effInvs_faithful h hm,
    complete_effects h⟩, lock_order hP h⟩
  intro pre x post hsplit
  rw [h2, hsplit, ← seqRun_fst]
  exact seqRun_mem s0 pre post x

/-- **Linearizability in lock order, list form** (one-section programs — all real methods): in a
complete execution the list of `lock` events IS the effect order, so the final state is the fold of
`step` over the invocations in the order of their `lock` events, the recorded results are those of
that sequential run, and every invocation of every thread occurs in it exactly once. -/
theorem C20_linearizable_lock_list (P : List (List (Invoc Op))) (s0 : σ) (c : Config σ Op Res)
    (hP : OS P) (h : Reach step (init P s0) c) (hc : Complete c) :
    lockInvs c.tr = effInvs c.tr ∧
    (c.st, c.res) = seqRun step s0 (lockInvs c.tr) ∧
    c.st = ((lockInvs c.tr).map (·.2.2)).foldl (fun s op => (step s op).1) s0 ∧
    (∀ t, effOf t c.tr = ((P.getD t []).zipIdx).map fun x => (x.2, x.1.op)) := by
  have hl := lock_list_complete hP h hc
  have hs : (c.st, c.res) = seqRun step s0 (effInvs c.tr) := (reach_all h).seq
  refine ⟨hl, by rw [hl]; exact hs, ?_, ?_⟩
  · rw [hl, ← seqRun_fst, ← hs]
  · intro t
    rw [complete_effects h hc t]
    apply expected_all
    intro i hi
    have hmem : ∀ i ∈ P.getD t [], oneSection false false i.sk = true := by
      intro i hi
      rw [List.getD_eq_getElem?_getD] at hi
      cases hg : P[t]? with
      | none => rw [hg] at hi; simp at hi
      | some th => rw [hg] at hi; exact hP th (List.mem_of_getElem? hg) i hi
    simpa using oneSection_effectful _ _ _ (hmem i hi)

end Generic

/-! ## the bloom filter: `σ := Filter`, `step := Model.Bloom.step` (the sequential model of C09/C10) -/

section Bloom
open Bch.Model.Bloom
open Bch.Proofs.Bloom (run inserts queries resets WithinLimits inserted WithinLimits_append)

/-- **(b), linearisation form** (any program): if in the effect order (= lock order, by
`C20_linearizable`) an insertion of `x` into a loaded filter precedes a query of `x` with no
`reload`/`unload` in between, the result recorded for the query is `some true`. -/
theorem C20_query_after_insert (P : List (List (Invoc Op))) (m0 : Msg)
    (c : Config Filter Op (Option Bool)) (h : Reach Model.Bloom.step (init P (some m0)) c)
    (pre mid post : List (Nat × Nat × Op)) (t i t' i' : Nat) (ins q : Op) (x : Bytes)
    (hsplit : effInvs c.tr = pre ++ (t, i, ins) :: mid ++ (t', i', q) :: post)
    (h0 : m0.bits.length ≤ 36000) (hlim : WithinLimits (pre.map (·.2.2)) = true)
    (hloaded : (run (some m0) (pre.map (·.2.2))).isSome = true)
    (hins : inserts ins = some x) (hmid : ∀ y ∈ mid, resets y.2.2 = false)
    (hq : queries q = some x) :
    (t', i', some true) ∈ c.res := by
  have hs : (c.st, c.res) = seqRun Model.Bloom.step (some m0) (effInvs c.tr) := (reach_all h).seq
  have h2 : c.res = (seqRun Model.Bloom.step (some m0) (effInvs c.tr)).2 := by rw [← hs]
  have hsplit' : effInvs c.tr = (pre ++ (t, i, ins) :: mid) ++ (t', i', q) :: post := hsplit
  have hm := seqRun_mem (step := Model.Bloom.step) (some m0) (pre ++ (t, i, ins) :: mid) post (t', i', q)
  rw [← hsplit', ← h2, seqRun_fst] at hm
  have hrun : (List.map (·.2.2) (pre ++ (t, i, ins) :: mid)).foldl
      (fun s op => (Model.Bloom.step s op).1) (some m0)
      = run (some m0) (pre.map (·.2.2) ++ ins :: mid.map (·.2.2)) := by
    simp [run]
  rw [hrun] at hm
  have := Bch.Props.C09.C09_no_false_negatives_positional m0 (pre.map (·.2.2)) (mid.map (·.2.2))
    ins q x h0 hlim hloaded hins
    (by intro op hop
        obtain ⟨y, hy, rfl⟩ := List.mem_map.mp hop
        exact hmid y hy) hq
  simp only at hm
  rw [this] at hm
  exact hm

/-- **(b), trace form** (one-section programs — all real methods): a membership test for `x`
whose `lock` event (position `l`, governing its effect at `p'`) follows the `unlock` event
(position `u`) of an insertion of `x` into a loaded filter, with no `reload`/`unload` taking effect
between the insertion's effect and the test's effect, records `some true`. -/
theorem C20_query_after_unlock (P : List (List (Invoc Op))) (m0 : Msg)
    (c : Config Filter Op (Option Bool)) (hP : OS P) (h : Reach Model.Bloom.step (init P (some m0)) c)
    (u l p' : Nat) (b a' : Event Op) (x : Bytes)
    (hu : c.tr[u]? = some b) (hb : b.act = .unlock) (hins : inserts b.op = some x)
    (hp' : c.tr[p']? = some a') (ha' : a'.eff = true) (hq : queries a'.op = some x)
    (hgov : Gov c.tr l p') (hul : u < l)
    (h0 : m0.bits.length ≤ 36000)
    (hlim : WithinLimits ((effInvs c.tr).map (·.2.2)) = true)
    (hloaded : ∀ (p : Nat) (a : Event Op), c.tr[p]? = some a → a.eff = true → a.tid = b.tid →
      a.inv = b.inv → (run (some m0) ((effInvs (c.tr.take p)).map (·.2.2))).isSome = true)
    (hmid : ∀ (p : Nat) (a : Event Op), c.tr[p]? = some a → a.eff = true → a.tid = b.tid →
      a.inv = b.inv → ∀ y ∈ effInvs ((c.tr.drop (p + 1)).take (p' - (p + 1))), resets y.2.2 = false) :
    (a'.tid, a'.inv, some true) ∈ c.res := by
  obtain ⟨p, a, hpu, hp, he, ht, hi, hop⟩ := unlock_after_effect hP h u b hu hb
  obtain ⟨_, _, hlp', _⟩ := hgov
  have hlt : p < p' := by omega
  have hsplit := effInvs_split hlt hp hp' he ha'
  have hlim' : WithinLimits ((effInvs (c.tr.take p)).map (·.2.2)) = true := by
    rw [hsplit, List.map_append, WithinLimits_append, List.map_append, WithinLimits_append] at hlim
    simp only [Bool.and_eq_true] at hlim
    exact hlim.1.1
  exact C20_query_after_insert P m0 c h _ _ _ a.tid a.inv a'.tid a'.inv a.op a'.op x hsplit h0 hlim'
    (hloaded p a hp he ht hi) (by rw [hop]; exact hins) (hmid p a hp he ht hi) hq

/-- **(a) no insertion is lost** (one-section programs — all real methods): in a complete execution
the final filter is the sequential `run` of ALL invocations of all threads (each exactly once, per
thread in program order) in the order of their `lock` events; hence — start state and reloaded
messages within the wire limit — every item inserted while loaded since the last `reload`/`unload`
of that order is matched by the final filter (C09). -/
theorem C20_no_insertion_lost (P : List (List (Invoc Op))) (f0 : Filter)
    (c : Config Filter Op (Option Bool)) (hP : OS P) (h : Reach Model.Bloom.step (init P f0) c)
    (hc : Complete c) :
    c.st = run f0 ((lockInvs c.tr).map (·.2.2)) ∧
    (∀ t, effOf t c.tr = ((P.getD t []).zipIdx).map fun x => (x.2, x.1.op)) ∧
    lockInvs c.tr = effInvs c.tr ∧
    ((∀ m, f0 = some m → m.bits.length ≤ 36000) →
      WithinLimits ((lockInvs c.tr).map (·.2.2)) = true →
      ∀ x ∈ inserted f0 ((lockInvs c.tr).map (·.2.2)), Matches c.st x = true) := by
  obtain ⟨h1, _, h3, h4⟩ := C20_linearizable_lock_list Model.Bloom.step P f0 c hP h hc
  have hst : c.st = run f0 ((lockInvs c.tr).map (·.2.2)) := h3
  refine ⟨hst, h4, h1, ?_⟩
  intro hf0 hlim x hx
  rw [hst]
  exact Bch.Props.C09.C09_no_false_negatives_any_start f0 _ hf0 hlim x hx

end Bloom

/-! ## the real methods -/

/-- a program over the real methods of bloom.Filter: the skeleton of every invocation is one of
the skeletons extracted from /repo/bloom/filter.go (`Bch.Generated.bloomSkeletons`) -/
def RealProgram {Op : Type} (P : List (List (Invoc Op))) : Prop :=
  ∀ th ∈ P, ∀ i ∈ th, ∃ name, (name, i.sk) ∈ Bch.Generated.bloomSkeletons

/-- every extracted skeleton has the one-section shape (kernel evaluation on the generated facts,
like `wellBracketed_all`; it fails to check if a regenerated skeleton loses that shape) -/
theorem real_skeletons_oneSection :
    ∀ m ∈ Bch.Generated.bloomSkeletons, oneSection false false m.2 = true := by decide

/-- programs over the real methods are well bracketed (by `wellBracketed_all`) and one-section -/
theorem real_program_wb_os {Op : Type} (P : List (List (Invoc Op))) (hP : RealProgram P) :
    WB P ∧ OS P := by
  constructor
  · intro th hth i hi
    obtain ⟨name, hm⟩ := hP th hth i hi
    exact wellBracketed_all (name, i.sk) hm
  · intro th hth i hi
    obtain ⟨name, hm⟩ := hP th hth i hi
    exact real_skeletons_oneSection (name, i.sk) hm

/-- **The theorems apply to every program over the real methods** (any number of threads, any
sequences of calls of the ten exported methods with any arguments, any shared-state model `step`):
every reachable configuration satisfies mutual exclusion, every `access` is by the holder, any two
`access` events of different threads are separated by `unlock`→`lock`, state and results are those
of the sequential run in effect order, the `lock` events list that order (followed by the holder
that has not yet performed its effect), and in a complete execution the final state is the fold of
`step` over all invocations in the order of their `lock` events. -/
theorem C20_real_methods {σ Op Res : Type} (step : σ → Op → σ × Res) (P : List (List (Invoc Op)))
    (s0 : σ) (c : Config σ Op Res) (hP : RealProgram P) (h : Reach step (init P s0) c) :
    (∀ t t', inCS t c.tr = true → inCS t' c.tr = true → t = t') ∧
    (∀ (p : Nat) (e : Event Op), c.tr[p]? = some e → e.act = .access →
      e.holder = some e.tid ∧ inCS e.tid (c.tr.take p) = true) ∧
    (∀ (p p' : Nat) (a a' : Event Op), p < p' → c.tr[p]? = some a → c.tr[p']? = some a' →
      a.act = .access → a'.act = .access → a.tid ≠ a'.tid →
      ∃ (u l : Nat) (b d : Event Op), p < u ∧ u < l ∧ l < p' ∧
        c.tr[u]? = some b ∧ b.act = .unlock ∧ b.tid = a.tid ∧
        c.tr[l]? = some d ∧ d.act = .lock ∧ d.tid = a'.tid) ∧
    (c.st, c.res) = seqRun step s0 (effInvs c.tr) ∧
    lockInvs c.tr = effInvs c.tr ++ pendingLock c ∧
    (Complete c →
      lockInvs c.tr = effInvs c.tr ∧
      c.st = ((lockInvs c.tr).map (·.2.2)).foldl (fun s op => (step s op).1) s0 ∧
      ∀ t, effOf t c.tr = ((P.getD t []).zipIdx).map fun x => (x.2, x.1.op)) := by
  obtain ⟨hwb, hos⟩ := real_program_wb_os P hP
  obtain ⟨m1, _, m3⟩ := C20_mutual_exclusion step P s0 c h
  refine ⟨m1, m3 hwb, C20_drf step P s0 c hwb h, (C20_linearizable step P s0 c hwb h).1.1,
    lock_list hos h, ?_⟩
  intro hc
  obtain ⟨l1, _, l3, l4⟩ := C20_linearizable_lock_list step P s0 c hos h hc
  exact ⟨l1, l3, l4⟩

/-! ## GCS filters -/

/-- a call of a gcs.Filter method, modelled as a function of the filter: its name, the number of
statements of the method that write receiver state (the fact extracted into
`Bch.Generated.gcsWrites`), what such writes would do, and the answer as a function of the filter -/
structure GcsCall (F R : Type) where
  name : String
  writes : Nat
  mutate : F → F
  query : F → R

/-- a method without receiver writes leaves the filter unchanged -/
def gcsStep {F R : Type} (f : F) (m : GcsCall F R) : F × R :=
  (if m.writes = 0 then f else m.mutate f, m.query f)

/-- all calls are calls of analysed gcs.Filter methods with their extracted write counts -/
def GcsProgram {F R : Type} (P : List (List (Invoc (GcsCall F R)))) : Prop :=
  ∀ th ∈ P, ∀ i ∈ th, (i.op.name, i.op.writes) ∈ Bch.Generated.gcsWrites

/-- **GCS: no interference.** Any interleaving of any number of threads calling gcs.Filter methods
— with ANY skeletons, no mutex needed — never changes the filter, and every call returns what it
returns alone on the original filter.  Uses `C20_gcs_immutable` (all extracted write sets empty). -/
theorem C20_gcs_no_interference {F R : Type} (P : List (List (Invoc (GcsCall F R)))) (f0 : F)
    (c : Config F (GcsCall F R) R) (hP : GcsProgram P) (h : Reach gcsStep (init P f0) c) :
    c.st = f0 ∧
    c.res = (effInvs c.tr).map (fun x => (x.1, x.2.1, x.2.2.query f0)) ∧
    (∀ t i r, (t, i, r) ∈ c.res →
      ∃ inv, (P.getD t [])[i]? = some inv ∧ r = inv.op.query f0) := by
  have hro : ∀ x ∈ effInvs c.tr, (gcsStep f0 x.2.2).1 = f0 := by
    intro x hx
    obtain ⟨inv, h1, h2, _⟩ := effInvs_faithful (t := x.1) (i := x.2.1) (op := x.2.2) h hx
    have hmem : inv ∈ P.getD x.1 [] := List.mem_of_getElem? h1
    rw [List.getD_eq_getElem?_getD] at hmem
    cases hg : P[x.1]? with
    | none => rw [hg] at hmem; simp at hmem
    | some th =>
      rw [hg] at hmem
      have hw := C20_gcs_immutable _ (hP th (List.mem_of_getElem? hg) inv hmem)
      simp only at hw
      rw [← h2]
      simp [gcsStep, hw]
  have hs : (c.st, c.res) = seqRun gcsStep f0 (effInvs c.tr) := (reach_all h).seq
  rw [seqRun_readonly f0 _ hro] at hs
  have h1 : c.st = f0 := congrArg Prod.fst hs
  have h2 : c.res = (effInvs c.tr).map (fun x => (x.1, x.2.1, x.2.2.query f0)) :=
    congrArg Prod.snd hs
  refine ⟨h1, h2, ?_⟩
  intro t i r hr
  rw [h2] at hr
  obtain ⟨x, hx, hxe⟩ := List.mem_map.mp hr
  simp only [Prod.mk.injEq] at hxe
  obtain ⟨e1, e2, e3⟩ := hxe
  obtain ⟨inv, g1, g2, _⟩ := effInvs_faithful (t := x.1) (i := x.2.1) (op := x.2.2) h hx
  exact ⟨inv, by rw [← e1, ← e2]; exact g1, by rw [g2, e3]⟩

/-! ## non-vacuity -/

section Examples
open Bch.Model.Bloom
open Bch.Proofs.Bloom (run answers)

/-- skeleton of an exported method, looked up in the extracted facts -/
def skOf (name : String) : List Act := (Bch.Generated.bloomSkeletons.lookup name).getD []

example : skOf "Add" = [.lock, .access, .unlock, .ret] ∧ skOf "Matches" = skOf "Add" := by decide

def exItem : Bytes := [1, 2, 3]

/-- thread 0: `Add x`; thread 1: `Matches x`; on the 2-byte filter of C09's examples -/
def exProg : List (List (Invoc Op)) :=
  [[⟨skOf "Add", .add exItem⟩], [⟨skOf "Matches", .query exItem⟩]]

def exInit : Config Filter Op (Option Bool) := init exProg (some Bch.Props.C09.exMsg)

/-- what we observe of a run: the recorded results and the invocations (thread, index) in the
    order of their `lock` events -/
def observe (s : List Nat) : Option (List (Nat × Nat × Option Bool) × List (Nat × Nat)) :=
  (runSched Model.Bloom.step exInit s).map fun c =>
    (c.res, (lockInvs c.tr).map (fun x => (x.1, x.2.1)))

/-- … the final filter and whether both threads have finished -/
def observeSt (s : List Nat) : Option (Filter × Bool) :=
  (runSched Model.Bloom.step exInit s).map fun c =>
    (c.st, (c.thr 0).pend.isEmpty && (c.thr 1).pend.isEmpty)

-- the hypotheses of the theorems hold for this program
example : RealProgram exProg := by
  intro th hth i hi
  simp only [exProg, List.mem_cons, List.not_mem_nil, or_false] at hth
  rcases hth with rfl | rfl <;> simp only [List.mem_singleton] at hi <;> subst hi
  · exact ⟨"Add", by decide⟩
  · exact ⟨"Matches", by decide⟩

-- interleaving A: `Add` takes the mutex first — the test answers `true` = sequential [add, query]
example : observe [0, 0, 0, 0, 1, 1, 1, 1] =
    some ([(0, 0, none), (1, 0, some true)], [(0, 0), (1, 0)]) := by decide
example : observeSt [0, 0, 0, 0, 1, 1, 1, 1] =
    some (run (some Bch.Props.C09.exMsg) [.add exItem, .query exItem], true) := by decide
example : answers (some Bch.Props.C09.exMsg) [.add exItem, .query exItem] = [none, some true] := by
  decide
-- interleaving B: `Matches` takes the mutex first — it answers `false` = sequential [query, add]
example : observe [1, 1, 1, 1, 0, 0, 0, 0] =
    some ([(1, 0, some false), (0, 0, none)], [(1, 0), (0, 0)]) := by decide
example : observeSt [1, 1, 1, 1, 0, 0, 0, 0] =
    some (run (some Bch.Props.C09.exMsg) [.query exItem, .add exItem], true) := by decide
example : answers (some Bch.Props.C09.exMsg) [.query exItem, .add exItem] = [some false, none] := by
  decide
-- interleaving C: the returns overlap with the other thread's critical section; lock order decides
example : observe [1, 1, 1, 0, 1, 0, 0, 0] =
    some ([(1, 0, some false), (0, 0, none)], [(1, 0), (0, 0)]) := by decide
example : observeSt [1, 1, 1, 0, 1, 0, 0, 0] =
    some (run (some Bch.Props.C09.exMsg) [.query exItem, .add exItem], true) := by decide
-- the insertion is never lost: the final filter is the same in all three
example : run (some Bch.Props.C09.exMsg) [.query exItem, .add exItem] = some ⟨[24, 32], 3, 5, 0⟩ ∧
    run (some Bch.Props.C09.exMsg) [.add exItem, .query exItem] = some ⟨[24, 32], 3, 5, 0⟩ := by
  decide
-- the mutex rule: thread 1 cannot take the lock while thread 0 is between `lock` and `unlock`
example : observe [0, 1] = none ∧ observe [0, 0, 1] = none ∧ (observe [0, 0, 0, 1]).isSome = true := by
  decide

/-- the configuration reached by interleaving A -/
def exA : Config Filter Op (Option Bool) :=
  (runSched Model.Bloom.step exInit [0, 0, 0, 0, 1, 1, 1, 1]).getD exInit

theorem exA_reach : Reach Model.Bloom.step exInit exA :=
  runSched_reach Model.Bloom.step Reach.refl [0, 0, 0, 0, 1, 1, 1, 1] exA rfl

example : exA.tr.map (fun e => (e.tid, e.act, e.holder, e.eff)) =
    [(0, .lock, none, false), (0, .access, some 0, true), (0, .unlock, some 0, false),
     (0, .ret, none, false), (1, .lock, none, false), (1, .access, some 1, true),
     (1, .unlock, some 1, false), (1, .ret, none, false)] := by decide

-- the hypotheses of `C20_query_after_insert` are satisfiable: it explains interleaving A
example : (1, 0, some true) ∈ exA.res :=
  C20_query_after_insert exProg Bch.Props.C09.exMsg exA exA_reach [] [] [] 0 0 1 0
    (.add exItem) (.query exItem) exItem rfl (by decide) (by decide) (by decide) rfl
    (by intro y hy; cases hy) rfl

-- … and so are those of `C20_query_after_unlock`: `Add`'s unlock is event 2, `Matches`' lock is
-- event 4 and governs its effect, event 5
example : (1, 0, some true) ∈ exA.res := by
  have hos : OS exProg := by
    intro th hth i hi
    simp only [exProg, List.mem_cons, List.not_mem_nil, or_false] at hth
    rcases hth with rfl | rfl <;> simp only [List.mem_singleton] at hi <;> subst hi <;> decide
  have hlen : exA.tr.length = 8 := by decide
  have hl : ∀ p, p < 8 → (run (some Bch.Props.C09.exMsg)
      ((effInvs (exA.tr.take p)).map (·.2.2))).isSome = true := by decide
  have hm : ∀ p, p < 8 → (effInvs ((exA.tr.drop (p + 1)).take (5 - (p + 1)))).all
      (fun y => !Bch.Proofs.Bloom.resets y.2.2) = true := by decide
  have h2 : 2 < exA.tr.length := by rw [hlen]; decide
  have h4 : 4 < exA.tr.length := by rw [hlen]; decide
  have h5 : 5 < exA.tr.length := by rw [hlen]; decide
  refine C20_query_after_unlock exProg Bch.Props.C09.exMsg exA hos exA_reach 2 4 5
    (exA.tr[2]'h2) (exA.tr[5]'h5) exItem (List.getElem?_eq_getElem h2) rfl rfl
    (List.getElem?_eq_getElem h5) rfl rfl ?_ (by decide) (by decide) (by decide) ?_ ?_
  · exact ⟨exA.tr[4]'h4, exA.tr[5]'h5, by decide, List.getElem?_eq_getElem h4,
      List.getElem?_eq_getElem h5, rfl, rfl, rfl, fun q x h1 h2 => by omega⟩
  · intro p a hp _ _ _
    exact hl p (by have := get_lt hp; omega)
  · intro p a hp _ _ _ y hy
    have := List.all_eq_true.mp (hm p (by have := get_lt hp; omega)) y hy
    simpa using this

-- interleaving A is a complete execution of a one-section program: the hypotheses of
-- `C20_linearizable_lock_list` / `C20_no_insertion_lost` are satisfiable
theorem exA_complete : Complete exA := by
  intro t
  match t with
  | 0 => rfl
  | 1 => rfl
  | n + 2 => rfl

example : exA.st = run (some Bch.Props.C09.exMsg) ((lockInvs exA.tr).map (·.2.2)) := by
  have hos : OS exProg := (real_program_wb_os exProg (by
    intro th hth i hi
    simp only [exProg, List.mem_cons, List.not_mem_nil, or_false] at hth
    rcases hth with rfl | rfl <;> simp only [List.mem_singleton] at hi <;> subst hi
    · exact ⟨"Add", by decide⟩
    · exact ⟨"Matches", by decide⟩)).2
  exact (C20_no_insertion_lost exProg _ exA hos exA_reach exA_complete).1

/-- NEGATIVE: an `Add` that forgets the lock -/
def badSk : List Act := [.access, .ret]

example : wellBracketed badSk = false := by decide

def badProg : List (List (Invoc Unit)) := [[⟨badSk, ()⟩], [⟨badSk, ()⟩]]
def badStep (s : Nat) (_ : Unit) : Nat × Nat := (s + 1, s)
def badRun : Config Nat Unit Nat := (runSched badStep (init badProg 0) [0, 1]).getD (init badProg 0)

/-- the unlocked skeleton has an execution with two `access` events of different threads that are
not separated by `unlock`→`lock` (the conclusion of `C20_drf` fails): a data race -/
example : Reach badStep (init badProg 0) badRun ∧
    ∃ (a a' : Event Unit), badRun.tr[0]? = some a ∧ badRun.tr[1]? = some a' ∧
      a.act = .access ∧ a'.act = .access ∧ a.tid ≠ a'.tid ∧
      ¬ ∃ (u l : Nat) (b d : Event Unit), 0 < u ∧ u < l ∧ l < 1 ∧
        badRun.tr[u]? = some b ∧ b.act = .unlock ∧ b.tid = a.tid ∧
        badRun.tr[l]? = some d ∧ d.act = .lock ∧ d.tid = a'.tid := by
  refine ⟨runSched_reach badStep Reach.refl [0, 1] badRun rfl, _, _, rfl, rfl, rfl, rfl, by decide, ?_⟩
  rintro ⟨u, l, _, _, h1, h2, h3, _⟩
  omega
-- … and the `access` events are not performed by a mutex holder
example : badRun.tr.map (fun e => (e.tid, e.act, e.holder)) =
    [(0, .access, none), (1, .access, none)] := by decide

/-- GCS: two threads query an (abstract) immutable filter without any lock -/
def gcsProg : List (List (Invoc (GcsCall (List Nat) Bool))) :=
  [[⟨[.access, .ret], ⟨"Match", 0, id, fun f => f.contains 7⟩⟩],
   [⟨[.access, .ret], ⟨"MatchAny", 0, id, fun f => f.contains 9⟩⟩]]

example : GcsProgram gcsProg := by
  intro th hth i hi
  simp only [gcsProg, List.mem_cons, List.not_mem_nil, or_false] at hth
  rcases hth with rfl | rfl <;> simp only [List.mem_singleton] at hi <;> subst hi <;> decide

example : ((runSched gcsStep (init gcsProg [7, 8]) [1, 0, 0, 1]).map fun c => (c.st, c.res)) =
    some ([7, 8], [(1, 0, false), (0, 0, true)]) := by decide

end Examples

end Bch.Props.C20
