import Bch.Proofs.TxSortHeap
import Bch.Props.C18
/-
C18, the memory clause: "the original transaction is left untouched; sorting in place yields the same order".

Heap-level model: `Bch.Model.TxSortHeap` (which arrays and objects `/repo/txsort/txsort.go` writes).  An in-place sort
is an arbitrary list of in-range `Swap(i, j)` calls (the contract of package `sort`: the data is touched only through
`Len`/`Less`/`Swap`); `Less` reads only; `MsgTx.Copy` (bchd, external) is a deep copy.  The theorems hold for every
heap, every transaction object and every swap schedule — so for whichever algorithm `sort.Sort` runs.
-/
namespace Bch.Props.C18
open Bch Bch.Model.TxSort Bch.Model.TxSortHeap Bch.Proofs.TxSortHeap Bch.Proofs.TxSort

/-- the footprint of an in-place sort on one slice, see `SwapsSpec`: same number of arrays, every other array
    unchanged, the array itself keeps its length, its window `[off, off+len)` is permuted and every element outside the
    window (a prefix before `off`, the spare capacity behind `len`) is unchanged -/
abbrev Footprint := @SwapsSpec

/-- **`InPlaceSort` writes only the transaction's own two pointer windows.**  For every heap, every `MsgTx` with valid
    slice headers and every schedule of in-range swaps: all `TxIn` / `TxOut` *objects* keep their contents, every
    other pointer array is unchanged, and in the two arrays of `tx` only the windows `tx.TxIn[0:len]`, `tx.TxOut[0:len]`
    change — into permutations of themselves. -/
theorem C18_inplace_writes_only_own_arrays (h : Heap) (tx : MsgTx) (swI swO : List (Nat × Nat))
    (hvI : tx.tin.ValidIn h.inArrs) (hvO : tx.tout.ValidIn h.outArrs)
    (hrI : InRange tx.tin swI) (hrO : InRange tx.tout swO) :
    let h' := inPlaceSort h tx swI swO
    h'.ins = h.ins ∧ h'.outs = h.outs ∧
    Footprint h.inArrs h'.inArrs tx.tin ∧ Footprint h.outArrs h'.outArrs tx.tout := by
  have a := foldl_swapIn tx.tin swI h hvI hrI
  have b := foldl_swapOut tx.tout swO _ (a.2.2.1 ▸ hvO) hrO
  simp only [inPlaceSort]
  refine ⟨b.1.trans a.1, b.2.1.trans a.2.1, b.2.2.1 ▸ a.2.2.2, ?_⟩
  have := b.2.2.2
  rw [a.2.2.1] at this
  exact this

/-- **"exactly the same inputs and outputs and otherwise identical fields"** at the heap level: after any in-place
    sort the transaction denotes a permutation of the inputs and of the outputs it denoted before (whole records). -/
theorem C18_inplace_permutes (h : Heap) (tx : MsgTx) (swI swO : List (Nat × Nat))
    (hvI : tx.tin.ValidIn h.inArrs) (hvO : tx.tout.ValidIn h.outArrs)
    (hrI : InRange tx.tin swI) (hrO : InRange tx.tout swO) :
    (readTx (inPlaceSort h tx swI swO) tx).ins.Perm (readTx h tx).ins ∧
    (readTx (inPlaceSort h tx swI swO) tx).outs.Perm (readTx h tx).outs := by
  obtain ⟨e1, e2, f1, f2⟩ := C18_inplace_writes_only_own_arrays h tx swI swO hvI hvO hrI hrO
  simp only [readTx, readIns, readOuts, e1, e2]
  exact ⟨f1.perm.map _, f2.perm.map _⟩

/-- a transaction object whose slices live in other arrays than `tx`'s denotes the same transaction afterwards -/
theorem C18_inplace_other_tx_untouched (h : Heap) (tx other : MsgTx) (swI swO : List (Nat × Nat))
    (hvI : tx.tin.ValidIn h.inArrs) (hvO : tx.tout.ValidIn h.outArrs)
    (hrI : InRange tx.tin swI) (hrO : InRange tx.tout swO)
    (dI : other.tin.arr ≠ tx.tin.arr) (dO : other.tout.arr ≠ tx.tout.arr) :
    readTx (inPlaceSort h tx swI swO) other = readTx h other := by
  obtain ⟨e1, e2, f1, f2⟩ := C18_inplace_writes_only_own_arrays h tx swI swO hvI hvO hrI hrO
  simp only [readTx, readIns, readOuts, e1, e2, List.getD_eq_getElem?_getD, f1.others _ dI, f2.others _ dO]

/-- **`Sort` leaves the original untouched.**  For every heap, transaction and swap schedule on the copy: every
    object and every pointer array that existed before the call is unchanged (the old heap is a prefix of the new
    one), so *every* transaction object of the old heap — the argument included — denotes what it denoted before; the
    returned transaction lives entirely in memory allocated by the call (array ids and object pointers beyond the old
    heap), so no later write through the result's pointer arrays, objects or scripts can reach the original either
    (token commitments, which `MsgTx.Copy` shares, are outside the model: see `Model/TxSortHeap.lean`). -/
theorem C18_sort_leaves_original_untouched (h : Heap) (tx : MsgTx) (swI swO : List (Nat × Nat))
    (hrI : InRange (copyTx h tx).2.tin swI) (hrO : InRange (copyTx h tx).2.tout swO) :
    let r := sortH h tx swI swO
    -- the old heap is preserved
    r.1.ins.take h.ins.length = h.ins ∧ r.1.outs.take h.outs.length = h.outs ∧
    (∀ b, b < h.inArrs.length → r.1.inArrs[b]? = h.inArrs[b]?) ∧
    (∀ b, b < h.outArrs.length → r.1.outArrs[b]? = h.outArrs[b]?) ∧
    -- the result is fresh
    r.2.tin.arr = h.inArrs.length ∧ r.2.tout.arr = h.outArrs.length ∧
    (∀ p ∈ window (r.1.inArrs.getD r.2.tin.arr []) r.2.tin, h.ins.length ≤ p) ∧
    (∀ p ∈ window (r.1.outArrs.getD r.2.tout.arr []) r.2.tout, h.outs.length ≤ p) := by
  have hvI : (copyTx h tx).2.tin.ValidIn (copyTx h tx).1.inArrs := by
    simp [copyTx, Slice.ValidIn, List.getD_eq_getElem?_getD]
  have hvO : (copyTx h tx).2.tout.ValidIn (copyTx h tx).1.outArrs := by
    simp [copyTx, Slice.ValidIn, List.getD_eq_getElem?_getD]
  obtain ⟨e1, e2, f1, f2⟩ :=
    C18_inplace_writes_only_own_arrays (copyTx h tx).1 (copyTx h tx).2 swI swO hvI hvO hrI hrO
  simp only [sortH]
  refine ⟨?_, ?_, ?_, ?_, rfl, rfl, ?_, ?_⟩
  · rw [e1]; simp [copyTx]
  · rw [e2]; simp [copyTx]
  · intro b hb
    rw [f1.others b (by simp only [copyTx]; omega)]
    simp only [copyTx, List.getElem?_append_left hb]
  · intro b hb
    rw [f2.others b (by simp only [copyTx]; omega)]
    simp only [copyTx, List.getElem?_append_left hb]
  · intro p hp
    have := (f1.perm.mem_iff).1 hp
    simp [copyTx, window, List.getD_eq_getElem?_getD, List.mem_range'_1] at this
    exact this.1
  · intro p hp
    have := (f2.perm.mem_iff).1 hp
    simp [copyTx, window, List.getD_eq_getElem?_getD, List.mem_range'_1] at this
    exact this.1


private theorem map_getD_range' {α : Type} (l v : List α) (d : α) :
    (List.range' l.length v.length).map (fun p => (l ++ v).getD p d) = v := by
  apply List.ext_getElem?
  intro k
  simp only [List.getElem?_map, List.getD_eq_getElem?_getD]
  by_cases hk : k < v.length
  · simp [hk]
  · simp [hk]

private theorem readIns_fresh (ins : List TxIn) (outs : List TxOut) (ia oa : List (List Nat))
    (vi : List TxIn) :
    readIns ⟨ins ++ vi, outs, ia ++ [List.range' ins.length vi.length], oa⟩ ⟨ia.length, 0, vi.length, vi.length⟩
      = vi := by
  simp only [readIns, window, List.getD_eq_getElem?_getD, List.getElem?_concat_length,
    Option.getD_some, List.drop_zero]
  rw [List.take_of_length_le (by simp)]
  simpa [List.getD_eq_getElem?_getD] using map_getD_range' ins vi ⟨[], 0, 0⟩

private theorem readOuts_fresh (ins : List TxIn) (outs : List TxOut) (ia oa : List (List Nat))
    (vo : List TxOut) :
    readOuts ⟨ins, outs ++ vo, ia, oa ++ [List.range' outs.length vo.length]⟩ ⟨oa.length, 0, vo.length, vo.length⟩
      = vo := by
  simp only [readOuts, window, List.getD_eq_getElem?_getD, List.getElem?_concat_length,
    Option.getD_some, List.drop_zero]
  rw [List.take_of_length_le (by simp)]
  simpa [List.getD_eq_getElem?_getD] using map_getD_range' outs vo ⟨0, []⟩

/-- the copy denotes the same transaction as the original (before any swap) -/
theorem C18_copy_denotes_same (h : Heap) (tx : MsgTx) :
    readTx (copyTx h tx).1 (copyTx h tx).2 = readTx h tx := by
  simp only [readTx, Tx.mk.injEq, copyTx]
  exact ⟨readIns_fresh _ _ _ _ _, readOuts_fresh _ _ _ _ _⟩

/-- **the sorted copy has exactly the inputs and outputs of the original** (whole records), whatever the schedule -/
theorem C18_sort_result_permutes (h : Heap) (tx : MsgTx) (swI swO : List (Nat × Nat))
    (hrI : InRange (copyTx h tx).2.tin swI) (hrO : InRange (copyTx h tx).2.tout swO) :
    (readTx (sortH h tx swI swO).1 (sortH h tx swI swO).2).ins.Perm (readTx h tx).ins ∧
    (readTx (sortH h tx swI swO).1 (sortH h tx swI swO).2).outs.Perm (readTx h tx).outs := by
  have hvI : (copyTx h tx).2.tin.ValidIn (copyTx h tx).1.inArrs := by
    simp [copyTx, Slice.ValidIn, List.getD_eq_getElem?_getD]
  have hvO : (copyTx h tx).2.tout.ValidIn (copyTx h tx).1.outArrs := by
    simp [copyTx, Slice.ValidIn, List.getD_eq_getElem?_getD]
  have := C18_inplace_permutes (copyTx h tx).1 (copyTx h tx).2 swI swO hvI hvO hrI hrO
  rw [C18_copy_denotes_same] at this
  exact this

/-- **every transaction object of the old heap — the argument of `Sort` included — denotes after the call what it
    denoted before**, in a well-formed heap (no dangling pointers), for every swap schedule on the copy -/
theorem C18_sort_old_tx_unchanged (h : Heap) (tx old : MsgTx) (swI swO : List (Nat × Nat)) (wf : h.WF)
    (hrI : InRange (copyTx h tx).2.tin swI) (hrO : InRange (copyTx h tx).2.tout swO)
    (hoI : old.tin.arr < h.inArrs.length) (hoO : old.tout.arr < h.outArrs.length) :
    readTx (sortH h tx swI swO).1 old = readTx h old := by
  obtain ⟨t1, t2, a1, a2, -⟩ := C18_sort_leaves_original_untouched h tx swI swO hrI hrO
  simp only [readTx, Tx.mk.injEq, readIns, readOuts, List.getD_eq_getElem?_getD, a1 _ hoI, a2 _ hoO]
  constructor
  · apply List.map_congr_left
    intro p hp
    have hmem : (h.inArrs[old.tin.arr]?.getD []) ∈ h.inArrs := by
      rw [List.getElem?_eq_getElem hoI]; exact List.getElem_mem hoI
    have hp' : p < h.ins.length :=
      wf.1 _ hmem p (List.mem_of_mem_drop (List.mem_of_mem_take hp))
    rw [← t1, List.getElem?_take]; simp [hp']
  · apply List.map_congr_left
    intro p hp
    have hmem : (h.outArrs[old.tout.arr]?.getD []) ∈ h.outArrs := by
      rw [List.getElem?_eq_getElem hoO]; exact List.getElem_mem hoO
    have hp' : p < h.outs.length :=
      wf.2 _ hmem p (List.mem_of_mem_drop (List.mem_of_mem_take hp))
    rw [← t2, List.getElem?_take]; simp [hp']

/-- `IsSorted` writes nothing -/
theorem C18_isSorted_reads_only (h : Heap) (tx : MsgTx) :
    (isSorted h tx).1 = h ∧ (isSorted h tx).2 = IsSorted (readTx h tx) := ⟨rfl, rfl⟩


/-- **"sorting in place yields the same order".**  Whatever algorithm `sort.Sort` runs: if it meets its contract on the
    heap (the windows end up sorted w.r.t. `Less`), the transaction `InPlaceSort` leaves behind and the one `Sort`
    returns have the same (txid, index) sequence as the value-level model's `SortTx`, and their outputs are equal to it
    — so the two functions yield the same order as each other, on any schedules. -/
theorem C18_inplace_same_order_as_sort (h : Heap) (tx : MsgTx) (sI sO cI cO : List (Nat × Nat))
    (hvI : tx.tin.ValidIn h.inArrs) (hvO : tx.tout.ValidIn h.outArrs)
    (hrI : InRange tx.tin sI) (hrO : InRange tx.tout sO)
    (hcI : InRange (copyTx h tx).2.tin cI) (hcO : InRange (copyTx h tx).2.tout cO)
    (s1 : Sorted lessIn (readTx (inPlaceSort h tx sI sO) tx).ins)
    (s2 : Sorted lessOut (readTx (inPlaceSort h tx sI sO) tx).outs)
    (s3 : Sorted lessIn (readTx (sortH h tx cI cO).1 (sortH h tx cI cO).2).ins)
    (s4 : Sorted lessOut (readTx (sortH h tx cI cO).1 (sortH h tx cI cO).2).outs) :
    let a := readTx (inPlaceSort h tx sI sO) tx
    let b := readTx (sortH h tx cI cO).1 (sortH h tx cI cO).2
    let m := SortTx (readTx h tx)
    a.ins.map (fun i => (i.hash, i.index)) = m.ins.map (fun i => (i.hash, i.index)) ∧ a.outs = m.outs ∧
    b.ins.map (fun i => (i.hash, i.index)) = m.ins.map (fun i => (i.hash, i.index)) ∧ b.outs = m.outs := by
  obtain ⟨p1, p2⟩ := C18_inplace_permutes h tx sI sO hvI hvO hrI hrO
  obtain ⟨p3, p4⟩ := C18_sort_result_permutes h tx cI cO hcI hcO
  obtain ⟨uI, uO⟩ := C18_sort_unique_keys
  have mI := Bch.Proofs.TxSort.sortBy_perm lessIn (readTx h tx).ins
  have mO := Bch.Proofs.TxSort.sortBy_perm lessOut (readTx h tx).outs
  have sI' := sortBy_pairwise strictWeak_lessIn (readTx h tx).ins
  have sO' := sortBy_pairwise strictWeak_lessOut (readTx h tx).outs
  exact ⟨uI _ _ (p1.trans mI.symm) s1 sI', uO _ _ (p2.trans mO.symm) s2 sO',
         uI _ _ (p3.trans mI.symm) s3 sI', uO _ _ (p4.trans mO.symm) s4 sO'⟩


/-- **`InPlaceSort` run with the insertion-sort schedule (what `sort.Sort` executes for slices of at most 12 elements;
    for longer ones Go runs pdqsort, whose result is covered by `C18_inplace_same_order_as_sort`) yields exactly the
    value-level model's sorted transaction** — the heap-level execution refines `Model.TxSort.SortTx`; all ordering
    theorems of `Props/C18.lean` (`C18_sort`, `C18_sort_be`, `C18_idempotent`, …) therefore hold of the heap run. -/
theorem C18_inplace_go_refines (h : Heap) (tx : MsgTx)
    (hvI : tx.tin.ValidIn h.inArrs) (hvO : tx.tout.ValidIn h.outArrs) :
    readTx (inPlaceSortGo h tx) tx = SortTx (readTx h tx) := by
  have rI := sortSwaps_inRange lessIn (readIns h tx.tin) tx.tin (readIns_length h _ hvI)
  have a := foldl_swapIn tx.tin _ h hvI rI
  have hvO' : tx.tout.ValidIn
      ((sortSwaps lessIn (readIns h tx.tin)).foldl (fun h ij => swapIn h tx.tin ij) h).outArrs := a.2.2.1 ▸ hvO
  have rO := sortSwaps_inRange lessOut (readOuts _ tx.tout) tx.tout (readOuts_length _ _ hvO')
  have b := foldl_swapOut tx.tout _ _ hvO' rO
  have e1 := readIns_foldl_swapIn tx.tin _ h hvI rI
  have e2 := readOuts_foldl_swapOut tx.tout _ _ hvO' rO
  have kI : ∀ (hA hB : Heap) (s : Slice), hA.ins = hB.ins → hA.inArrs = hB.inArrs → readIns hA s = readIns hB s := by
    intro hA hB s x y; simp only [readIns, x, y]
  have kO : ∀ (hA hB : Heap) (s : Slice), hA.outs = hB.outs → hA.outArrs = hB.outArrs →
      readOuts hA s = readOuts hB s := by
    intro hA hB s x y; simp only [readOuts, x, y]
  have o1 := kO _ h tx.tout a.2.1 a.2.2.1
  simp only [readTx, inPlaceSortGo, SortTx, Tx.mk.injEq]
  exact ⟨by rw [kI _ _ tx.tin b.1 b.2.2.1, e1, applySwaps_sortSwaps strictWeak_lessIn],
         by rw [e2, o1, applySwaps_sortSwaps strictWeak_lessOut]⟩

/-! ### non-vacuity and negative witnesses (kernel evaluation on concrete heaps) -/

/-- two inputs out of order (the second txid is smaller as a big-endian number), two outputs out of order -/
def exHeap : Heap :=
  { ins := [⟨[0, 1], 0, 7⟩, ⟨[1, 0], 0, 8⟩], outs := [⟨5, [1]⟩, ⟨2, []⟩], inArrs := [[0, 1]], outArrs := [[0, 1]] }
def exTxH : MsgTx := ⟨⟨0, 0, 2, 2⟩, ⟨0, 0, 2, 2⟩⟩

example : exTxH.tin.ValidIn exHeap.inArrs ∧ exTxH.tout.ValidIn exHeap.outArrs ∧ exHeap.WF := by
  simp [exTxH, exHeap, Slice.ValidIn, Heap.WF]
example : InRange exTxH.tin [(1, 0)] ∧ InRange (copyTx exHeap exTxH).2.tin [(1, 0)] := by decide

-- the schedule Go's insertion sort runs on this transaction, and its effect
example : sortSwaps lessIn (readIns exHeap exTxH.tin) = [(1, 0)] := by decide
example : readTx (inPlaceSortGo exHeap exTxH) exTxH =
    ⟨[⟨[1, 0], 0, 8⟩, ⟨[0, 1], 0, 7⟩], [⟨2, []⟩, ⟨5, [1]⟩]⟩ := by decide
-- … `InPlaceSort` changed what the caller's transaction denotes (it is *meant* to), objects untouched:
example : readTx (inPlaceSortGo exHeap exTxH) exTxH ≠ readTx exHeap exTxH ∧
    (inPlaceSortGo exHeap exTxH).ins = exHeap.ins ∧ (inPlaceSortGo exHeap exTxH).outs = exHeap.outs := by decide

-- `Sort` (deep copy): the caller's transaction denotes what it did, the result is sorted
example : readTx (sortH exHeap exTxH [(1, 0)] [(1, 0)]).1 exTxH = readTx exHeap exTxH ∧
    IsSorted (readTx (sortH exHeap exTxH [(1, 0)] [(1, 0)]).1 (sortH exHeap exTxH [(1, 0)] [(1, 0)]).2) = true := by
  decide

-- **negative witness**: a `Sort` that copies the struct but not the arrays reorders the caller's transaction —
-- `C18_sort_old_tx_unchanged` fails for it, so the theorem is not vacuous and the model can exhibit the defect
example : readTx (sortShallow exHeap exTxH [(1, 0)] [(1, 0)]).1 exTxH ≠ readTx exHeap exTxH := by decide

-- **the footprint of `InPlaceSort` is tight**: a second transaction object whose input slice is another window of
-- the *same* backing array (`other.TxIn = tx.TxIn[1:2]`) denotes something else afterwards
example : readTx (inPlaceSortGo exHeap exTxH) ⟨⟨0, 1, 1, 1⟩, ⟨0, 0, 0, 0⟩⟩ ≠
    readTx exHeap ⟨⟨0, 1, 1, 1⟩, ⟨0, 0, 0, 0⟩⟩ := by decide

-- a `Swap` that exchanged the *objects' contents* instead of the pointers would write the object store; the model's
-- `Swap` does not: see `C18_inplace_writes_only_own_arrays` (`h'.ins = h.ins`, `h'.outs = h.outs`).

end Bch.Props.C18
