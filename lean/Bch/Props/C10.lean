namespace Bch.Props.C10
theorem placeholder : True := trivial
end Bch.Props.C10
