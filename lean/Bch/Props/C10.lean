import Bch.Proofs.BloomTxInst
/-
C10 — transaction filtering finds every relevant transaction, in any block order.

Model: `Bch/Model/BloomTx.lean`.  All theorems are for an abstract filter `O : FilterOps F` with the
laws `L : LawfulOn O G` (see `Bch/Proofs/BloomTx.lean`):
  `add_mono  : O.test f y = true → O.test (O.add f x) y = true`,
  `add_flags : O.flags (O.add f x) = O.flags f`,
  `add_test  : G f → O.test (O.add f x) x = true` and `good_add : G f → G (O.add f x)`
where `G` is a set of "good" filter states (`LawfulFilter O` is the case `G` = everything, and
`LawfulFilter.on` converts).  The theorems that use `add_test` carry `G f` for the loaded filter.
The relativisation is what makes the real filter an instance: C09 proves `bloom_add_mono` for every
filter but `bloom_add_matches` only for a loaded filter of at most 36000 bytes (an unloaded filter
matches nothing even after `add`).  `bloom_lawful : LawfulOn bloomOps bloomGood`
(`Bch/Proofs/BloomTxInst.lean`, from the C09 lemmas) is that instance; the section "the real bloom
filter" below instantiates the main theorems.  The toy filter at the end shows non-vacuity.

Notation: `Le O f f'` is `∀ x, O.test f x = true → O.test f' x = true`;
`addAll O f xs = xs.foldl O.add f`.
-/
namespace Bch.Props.C10
open Bch Bch.Model.BloomTx Bch.Proofs.BloomTx

variable {F : Type} {O : FilterOps F} {G : F → Prop}

/-! ### Monotonicity -/

/-- `matchTxAndUpdate` only grows the filter. -/
theorem C10_match_mono (L : LawfulOn O G) (f : F) (tx : Tx) :
    ∀ x, O.test f x = true → O.test (matchTxAndUpdate O f tx).1 x = true :=
  matchTx_le L f tx

/-- The repaired block scan only grows the filter (any fuel, any `same`), and never changes the flag. -/
theorem C10_scan_mono (L : LawfulOn O G) (same : F → F → Bool) (fuel : Nat) (block : Array Tx) (f : F) :
    (∀ x, O.test f x = true → O.test (GetMatchedIndices O same fuel block f).filter x = true) ∧
      O.flags (GetMatchedIndices O same fuel block f).filter = O.flags f :=
  ⟨(scan_ext L same fuel block f).filter, (scan_ext L same fuel block f).flags⟩

/-- The reference block scan only grows the filter. -/
theorem C10_scanRef_mono (L : LawfulOn O G) (fuel : Nat) (block : Array Tx) (f : F) :
    (∀ x, O.test f x = true → O.test (GetMatchedIndicesRef O fuel block f).filter x = true) ∧
      O.flags (GetMatchedIndicesRef O fuel block f).filter = O.flags f :=
  ⟨(scanRef_ext L fuel block f).filter, (scanRef_ext L fuel block f).flags⟩

/-! ### One transaction -/

/-- **C10_match_iff** (full): the verdict is exactly BIP37 relevance against the filter *as loaded*:
    txid, or a data push of a parsable output script, or a spent outpoint, or a data push of a
    parsable input script.  The evolving filter does not change the verdict: the first output that
    matches the evolving filter matches the unmodified one (nothing was inserted before it), later
    outputs can only turn an already-true verdict true again, and inputs are examined only when
    nothing matched, hence nothing was inserted.  (The feared corner — an output that matches only
    because an earlier output's outpoint was inserted — cannot falsify the iff: that earlier output
    matched `f` itself, so the right-hand side already holds.) -/
theorem C10_match_iff (L : LawfulOn O G) (f : F) (tx : Tx) :
    (matchTxAndUpdate O f tx).2 = true ↔
      (O.test f tx.id = true ∨
       (∃ out ∈ tx.outs, ∃ ps, out.pushes = some ps ∧ ∃ d ∈ ps, O.test f d = true) ∨
       (∃ inp ∈ tx.ins, O.test f (outPointBytes inp.prevHash inp.prevIdx) = true ∨
          ∃ ps, inp.pushes = some ps ∧ ∃ d ∈ ps, O.test f d = true)) :=
  matchTx_iff L f tx

/-- `Relevant O f tx` (used below) is by definition the right-hand side of `C10_match_iff`. -/
theorem C10_relevant_def (f : F) (tx : Tx) :
    Relevant O f tx ↔
      (O.test f tx.id = true ∨
       (∃ out ∈ tx.outs, ∃ ps, out.pushes = some ps ∧ ∃ d ∈ ps, O.test f d = true) ∨
       (∃ inp ∈ tx.ins, O.test f (outPointBytes inp.prevHash inp.prevIdx) = true ∨
          ∃ ps, inp.pushes = some ps ∧ ∃ d ∈ ps, O.test f d = true)) :=
  Iff.rfl

/-- Relevance is monotone in the filter. -/
theorem C10_relevant_mono {f f' : F} (h : ∀ x, O.test f x = true → O.test f' x = true) (tx : Tx) :
    Relevant O f tx → Relevant O f' tx :=
  Relevant.mono h

/-- **C10_update** (full), fold form: the resulting filter is `f` plus, in output order, the
    outpoints `(tx.id, i)` for `i ∈ updIdxs O f tx`. -/
theorem C10_update (f : F) (tx : Tx) :
    (matchTxAndUpdate O f tx).1 = ((updIdxs O f tx).map (outPointBytes tx.id)).foldl O.add f :=
  matchTx_filter O f tx

/-- **C10_update**, which outputs: `i ∈ updIdxs O f tx` exactly when output `i` exists, is eligible
    under the update flag of the loaded filter (`eligible flags o = (flags == 1 || (flags == 2 &&
    o.isPubKeyOrMultisig))`: 1 all, 2 only pay-to-pubkey/multisig, otherwise none) and has a data
    push matching the filter *at its turn* (`filterAt O f tx i` = state after the first `i` outputs). -/
theorem C10_update_mem (L : LawfulOn O G) (f : F) (tx : Tx) (i : Nat) :
    i ∈ updIdxs O f tx ↔
      ∃ o, tx.outs[i]? = some o ∧
        (O.flags f = 1 ∨ (O.flags f = 2 ∧ o.isPubKeyOrMultisig = true)) ∧
        ∃ ps, o.pushes = some ps ∧ ∃ d ∈ ps, O.test (filterAt O f tx i) d = true := by
  rw [mem_updIdxs L]
  constructor
  · rintro ⟨o, ho, he, hp⟩
    refine ⟨o, ho, ?_, (pushHit_iff O _ _).1 hp⟩
    simpa [eligible] using he
  · rintro ⟨o, ho, he, hp⟩
    refine ⟨o, ho, ?_, (pushHit_iff O _ _).2 hp⟩
    simpa [eligible] using he

/-- the filter at output `i`'s turn is the loaded filter plus the outpoints inserted for earlier
    outputs of the same transaction (and nothing else) -/
theorem C10_filterAt (f : F) (tx : Tx) (i : Nat) :
    filterAt O f tx i =
      ((updIdxs O f { tx with outs := tx.outs.take i }).map (outPointBytes tx.id)).foldl O.add f := by
  unfold filterAt updIdxs
  rw [scanOuts_fst]; rfl

/-- **C10_update**, in particular: every eligible output with a push matching the *loaded* filter has
    its outpoint inserted, and the resulting filter matches that outpoint. -/
theorem C10_update_loaded (L : LawfulOn O G) (f : F) (hG : G f) (tx : Tx) (i : Nat) (o : TxOut)
    (ho : tx.outs[i]? = some o)
    (he : O.flags f = 1 ∨ (O.flags f = 2 ∧ o.isPubKeyOrMultisig = true))
    (ps : List Bytes) (hps : o.pushes = some ps) (d : Bytes) (hd : d ∈ ps) (ht : O.test f d = true) :
    i ∈ updIdxs O f tx ∧ O.test (matchTxAndUpdate O f tx).1 (outPointBytes tx.id i) = true := by
  have hi : i ∈ updIdxs O f tx :=
    (C10_update_mem L f tx i).2 ⟨o, ho, he, ps, hps, d, hd, le_filterAt L f tx i d ht⟩
  refine ⟨hi, ?_⟩
  rw [matchTx_filter]
  exact test_addAll_of_mem L _ hG _ _ (List.mem_map_of_mem hi)

/-- **C10_update**, flag "none" (anything but 1 and 2): the filter is returned unchanged. -/
theorem C10_update_none (L : LawfulOn O G) (f : F) (tx : Tx) (h1 : O.flags f ≠ 1) (h2 : O.flags f ≠ 2) :
    (matchTxAndUpdate O f tx).1 = f := by
  have : updIdxs O f tx = [] := by
    apply List.eq_nil_iff_forall_not_mem.2
    intro i hi
    obtain ⟨o, _, he, _⟩ := (C10_update_mem L f tx i).1 hi
    rcases he with he | ⟨he, _⟩
    · exact h1 he
    · exact h2 he
  rw [matchTx_filter, this]; rfl

/-- A verdict `false` inserts nothing. -/
theorem C10_update_unmatched (L : LawfulOn O G) (f : F) (tx : Tx)
    (h : (matchTxAndUpdate O f tx).2 = false) : (matchTxAndUpdate O f tx).1 = f :=
  matchTx_false_filter L f tx h

/-! ### Block scan: soundness and completeness -/

/-- **C10_block_sound** (full; holds for every fuel, even when the scan ran out of fuel, and for
    every `same`): every reported index is a transaction of the block that is relevant (in the
    sense of `C10_match_iff`) to the *final* filter. -/
theorem C10_block_sound (L : LawfulOn O G) (same : F → F → Bool) (fuel : Nat) (block : Array Tx) (f : F)
    (i : Nat) (hi : i ∈ (GetMatchedIndices O same fuel block f).matched) :
    i < block.size ∧ ∃ tx, block[i]? = some tx ∧
      Relevant O (GetMatchedIndices O same fuel block f).filter tx := by
  obtain ⟨tx, hb, hr⟩ := scan_sound L same fuel block f i hi
  refine ⟨?_, tx, hb, hr⟩
  rcases Nat.lt_or_ge i block.size with h | h
  · exact h
  · rw [Array.getElem?_eq_none h] at hb; cases hb

/-- The same for the reference scan. -/
theorem C10_blockRef_sound (L : LawfulOn O G) (fuel : Nat) (block : Array Tx) (f : F)
    (i : Nat) (hi : i ∈ (GetMatchedIndicesRef O fuel block f).matched) :
    i < block.size ∧ ∃ tx, block[i]? = some tx ∧
      Relevant O (GetMatchedIndicesRef O fuel block f).filter tx := by
  obtain ⟨tx, hb, hr⟩ := scanRef_sound L fuel block f i hi
  refine ⟨?_, tx, hb, hr⟩
  rcases Nat.lt_or_ge i block.size with h | h
  · exact h
  · rw [Array.getElem?_eq_none h] at hb; cases hb

/-- **C10_block_complete (a)** (full): every transaction relevant to the *loaded* filter is reported,
    whatever its position.  Needs only one unit of fuel (weaker than `outOfFuel = false`: with fuel
    0 every check fails immediately) and no assumption on `same`: a transaction is never skipped at
    its own turn because it has no `checkedAt` entry yet. -/
theorem C10_block_complete_a (L : LawfulOn O G) (same : F → F → Bool) (fuel : Nat) (hfuel : 0 < fuel)
    (block : Array Tx) (f : F) (i : Nat) (tx : Tx) (hb : block[i]? = some tx) (hr : Relevant O f tx) :
    i ∈ (GetMatchedIndices O same fuel block f).matched := by
  obtain ⟨fuel, rfl⟩ : ∃ k, fuel = k + 1 := ⟨fuel - 1, by omega⟩
  exact scan_complete_a L same fuel block f i tx hb hr

/-- **C10_block_complete (a)** under the uniform hypothesis `outOfFuel = false`. -/
theorem C10_block_complete_a' (L : LawfulOn O G) (same : F → F → Bool) (fuel : Nat)
    (block : Array Tx) (f : F) (hf : (GetMatchedIndices O same fuel block f).outOfFuel = false)
    (i : Nat) (tx : Tx) (hb : block[i]? = some tx) (hr : Relevant O f tx) :
    i ∈ (GetMatchedIndices O same fuel block f).matched := by
  refine C10_block_complete_a L same fuel ?_ block f i tx hb hr
  rcases Nat.eq_zero_or_pos fuel with h0 | h0
  · subst h0
    obtain ⟨_, h⟩ := scanLoop_inv block
      (fun inputs i s => checkFilterTx O same block inputs 0 i s)
      (fun n _ s => n = 0 ∨ s.outOfFuel = true)
      (fun _ _ _ _ _ _ => Or.inr rfl)
      block.size 0 [] { filter := f, matched := [] } (by omega) (Or.inl rfl)
    have hi : i < block.size := by
      rcases Nat.lt_or_ge i block.size with h | h
      · exact h
      · rw [Array.getElem?_eq_none h] at hb; cases hb
    rcases h with h | h
    · omega
    · have h' : (GetMatchedIndices O same 0 block f).outOfFuel = true := h
      rw [h'] at hf; cases hf
  · exact h0

/-- **C10_block_order**: sound/complete hold for *every* block, hence for every permutation of a
    block: whatever the order `block'` in which the transactions of `block` are listed, each
    transaction relevant to the loaded filter is reported at its position in `block'`.
    (Full permutation-*invariance* of the reported set is false, see the `txX` example below.) -/
theorem C10_block_order (L : LawfulOn O G) (same : F → F → Bool) (fuel : Nat) (hfuel : 0 < fuel)
    (block block' : Array Tx) (hperm : block'.toList.Perm block.toList) (f : F)
    (tx : Tx) (htx : tx ∈ block.toList) (hr : Relevant O f tx) :
    ∃ i, block'[i]? = some tx ∧ i ∈ (GetMatchedIndices O same fuel block' f).matched := by
  have h1 : tx ∈ block'.toList := hperm.mem_iff.2 htx
  obtain ⟨i, hi, hget⟩ := List.getElem_of_mem h1
  have hb : block'[i]? = some tx := by
    rw [← Array.getElem?_toList, List.getElem?_eq_getElem hi, hget]
  exact ⟨i, hb, C10_block_complete_a L same fuel hfuel block' f i tx hb hr⟩

/-- **C10_block_complete (b)** (full, given that the scan did not run out of fuel and that `same`
    is sound): "every outpoint inserted at any moment of the scan has all its in-block spenders
    reported, whatever their position".  The final filter is the loaded filter plus a list `ins` of
    outpoints `(id, idx)` — the insertions in the order they happened — such that
    * each inserted outpoint belongs to an eligible output, with a push matching the final filter,
      of a *reported* transaction of the block;
    * **every transaction of the block with an input spending an inserted outpoint is reported**;
    * the list contains the outpoint of every eligible output, with a push matching the *loaded*
      filter, of every reported transaction. -/
theorem C10_block_complete_b (L : LawfulOn O G) (same : F → F → Bool) (hs : SameSound O same)
    (fuel : Nat) (block : Array Tx) (f : F) (hG : G f)
    (hf : (GetMatchedIndices O same fuel block f).outOfFuel = false) :
    ∃ ins : List (Bytes × Nat),
      (GetMatchedIndices O same fuel block f).filter
        = (ins.map (fun e => outPointBytes e.1 e.2)).foldl O.add f ∧
      (∀ e ∈ ins,
        (∃ j t, j ∈ (GetMatchedIndices O same fuel block f).matched ∧ block[j]? = some t ∧ t.id = e.1 ∧
          ∃ o, t.outs[e.2]? = some o ∧
            (O.flags f = 1 ∨ (O.flags f = 2 ∧ o.isPubKeyOrMultisig = true)) ∧
            ∃ ps, o.pushes = some ps ∧
              ∃ d ∈ ps, O.test (GetMatchedIndices O same fuel block f).filter d = true) ∧
        (∀ k u, block[k]? = some u → (∃ inp ∈ u.ins, inp.prevHash = e.1 ∧ inp.prevIdx = e.2) →
          k ∈ (GetMatchedIndices O same fuel block f).matched)) ∧
      (∀ j ∈ (GetMatchedIndices O same fuel block f).matched, ∀ t i o, block[j]? = some t →
        t.outs[i]? = some o → (O.flags f = 1 ∨ (O.flags f = 2 ∧ o.isPubKeyOrMultisig = true)) →
        (∃ ps, o.pushes = some ps ∧ ∃ d ∈ ps, O.test f d = true) → (t.id, i) ∈ ins) := by
  obtain ⟨ins, e, p, c⟩ := scan_complete_b L hs fuel block f hG hf
  have hflags := (scan_ext L same fuel block f).flags
  refine ⟨ins, e, ?_, ?_⟩
  · intro x hx
    obtain ⟨⟨j, t, hj, hb, hid, o, ho, he, hp⟩, hobl⟩ := p x hx
    refine ⟨⟨j, t, hj, hb, hid, o, ho, ?_, (pushHit_iff O _ _).1 hp⟩, ?_⟩
    · rw [hflags] at he; simpa [eligible] using he
    · intro k u hu hsp
      have hk : k < block.size := by
        rcases Nat.lt_or_ge k block.size with h | h
        · exact h
        · rw [Array.getElem?_eq_none h] at hu; cases hu
      exact hobl k hk u hu hsp
  · intro j hj t i o hb ho he hp
    rcases c j hj with h | h
    · cases h
    · refine h t i o hb ho ?_ ((pushHit_iff O _ _).2 hp)
      rw [hflags]; simpa [eligible] using he

/-- **C10_block_complete (b)**, the CTOR corollary: if a reported transaction `t` has an eligible
    output `i` with a push matching the loaded filter, then every transaction of the block that
    spends `(t.id, i)` is reported — before or after `t` in the block. -/
theorem C10_block_complete_spenders (L : LawfulOn O G) (same : F → F → Bool) (hs : SameSound O same)
    (fuel : Nat) (block : Array Tx) (f : F) (hG : G f)
    (hf : (GetMatchedIndices O same fuel block f).outOfFuel = false)
    (j : Nat) (hj : j ∈ (GetMatchedIndices O same fuel block f).matched) (t : Tx) (hb : block[j]? = some t)
    (i : Nat) (o : TxOut) (ho : t.outs[i]? = some o)
    (he : O.flags f = 1 ∨ (O.flags f = 2 ∧ o.isPubKeyOrMultisig = true))
    (hp : ∃ ps, o.pushes = some ps ∧ ∃ d ∈ ps, O.test f d = true)
    (k : Nat) (u : Tx) (hu : block[k]? = some u)
    (hsp : ∃ inp ∈ u.ins, inp.prevHash = t.id ∧ inp.prevIdx = i) :
    k ∈ (GetMatchedIndices O same fuel block f).matched := by
  obtain ⟨ins, _, p, c⟩ := C10_block_complete_b L same hs fuel block f hG hf
  exact (p _ (c j hj t i o hb ho he hp)).2 k u hu hsp

/-- Fuel: for a block whose spend graph is acyclic (`Acyclic block rank bound`: a rank on ids that
    increases from spent to spender and is below `bound`; `bound = block.size` is always possible for
    an acyclic block) fuel `bound` suffices, for the repaired and for the reference scan. -/
theorem C10_fuel_suffices (same : F → F → Bool) (block : Array Tx) (rank : Bytes → Nat) (bound : Nat)
    (hA : Acyclic block rank bound) (fuel : Nat) (hfuel : bound ≤ fuel) (f : F) :
    (GetMatchedIndices O same fuel block f).outOfFuel = false ∧
      (GetMatchedIndicesRef O fuel block f).outOfFuel = false :=
  ⟨scan_fuel_ok O same block rank bound hA fuel hfuel f, scanRef_fuel_ok O block rank bound hA fuel hfuel f⟩

/-! ### The repaired scan against the reference scan -/

/-- `recheck_noop`: evaluating a transaction again on a filter its first evaluation left unchanged
    returns the same verdict and filter. -/
theorem C10_recheck_noop (f : F) (tx : Tx) (h : (matchTxAndUpdate O f tx).1 = f) :
    matchTxAndUpdate O (matchTxAndUpdate O f tx).1 tx = matchTxAndUpdate O f tx := by
  rw [h]

/-- The skip in `checkFilterTx` is a no-op of the reference semantics: in any state `s` reached by the
    repaired scan (`VInv`), with `Closed … s P` (every matching transaction checked at the current
    version, except those on the call stack `P`, has all its dependants checked at the current
    version), re-running the *reference* check on a transaction `k` whose `checkedAt` entry is the
    current version changes neither the filter nor the matched list — provided it does not run out
    of fuel. -/
theorem C10_skip_noop (L : LawfulOn O G) (block : Array Tx) (inputs : Inputs)
    (s : Scan F) (hv : VInv O block s) (P : List Nat) (hQ : Closed O block inputs s P)
    (fuel k : Nat) (r : Scan F) (hfilter : r.filter = s.filter) (hmatched : r.matched = s.matched)
    (hcur : s.checkedAt.lookup k = some s.version)
    (hP : ∀ p ∈ P, ReachPlus O block inputs s.filter p k)
    (hf : (checkFilterTxRef O block inputs fuel k r).outOfFuel = false) :
    (checkFilterTxRef O block inputs fuel k r).filter = s.filter ∧
      (checkFilterTxRef O block inputs fuel k r).matched = s.matched := by
  have := ref_noop L block inputs s hv P hQ fuel k r ⟨hfilter, hmatched⟩ hcur hP hf
  exact ⟨this.filter, this.matched⟩

/-- **C10_scan_refines_ref** (full): on every block and loaded filter for which the reference scan
    (re-check every dependant on every match) does not run out of fuel, the repaired scan with the
    same fuel does not run out of fuel either and returns *the same final filter and the same
    matched list*.  Hypotheses: the filter laws, and `SameSound O same`
    (`same f f' = true` after insertions implies `f' = f`; implied by `∀ f f', same f f' = true → f' = f`).
    No acyclicity assumption: if a skipped transaction were on the call stack, the reference scan
    would be on a matching spend cycle and run out of fuel (`cycle_oof`). -/
theorem C10_scan_refines_ref (L : LawfulOn O G) (same : F → F → Bool) (hs : SameSound O same)
    (block : Array Tx) (fuel : Nat) (f : F)
    (hf : (GetMatchedIndicesRef O fuel block f).outOfFuel = false) :
    (GetMatchedIndices O same fuel block f).filter = (GetMatchedIndicesRef O fuel block f).filter ∧
    (GetMatchedIndices O same fuel block f).matched = (GetMatchedIndicesRef O fuel block f).matched ∧
    (GetMatchedIndices O same fuel block f).outOfFuel = false := by
  obtain ⟨h, h'⟩ := scan_refines L hs block fuel f hf
  exact ⟨h.filter.symm, h.matched.symm, h'⟩

/-- A reference scan caught on a matching spend cycle never terminates, whatever the fuel. -/
theorem C10_ref_cycle_diverges (L : LawfulOn O G) (block : Array Tx) (inputs : Inputs) (g : F) (x : Nat)
    (hx : ReachPlus O block inputs g x x) (fuel : Nat) (r : Scan F)
    (hg : ∀ y, O.test g y = true → O.test r.filter y = true) :
    (checkFilterTxRef O block inputs fuel x r).outOfFuel = true :=
  cycle_oof L block inputs g x hx fuel r hg

/-- **C10_scan_steps** (full, no hypothesis at all): the repaired scan evaluates each transaction at
    most once per filter version. -/
theorem C10_scan_steps (same : F → F → Bool) (fuel : Nat) (block : Array Tx) (f : F) :
    (GetMatchedIndices O same fuel block f).steps ≤
      block.size * ((GetMatchedIndices O same fuel block f).version + 1) :=
  scan_steps same fuel block f

/-- **C10_scan_version**: if re-inserting an element the filter already matches changes nothing
    (true of a bloom filter: all its bits are set) and `same` recognises an unchanged filter, the
    final version is at most the total number of outputs in the block. -/
theorem C10_scan_version (L : LawfulOn O G) (hidem : ∀ f x, O.test f x = true → O.add f x = f)
    (same : F → F → Bool) (hrefl : ∀ f, same f f = true) (fuel : Nat) (block : Array Tx) (f : F) (hG : G f) :
    (GetMatchedIndices O same fuel block f).version ≤ (block.toList.map (fun t => t.outs.length)).sum :=
  scan_version L hidem same hrefl fuel block f hG

/-- **C10_scan_steps**, polynomial form: at most `block.size * (number of outputs + 1)` evaluations. -/
theorem C10_scan_steps_poly (L : LawfulOn O G) (hidem : ∀ f x, O.test f x = true → O.add f x = f)
    (same : F → F → Bool) (hrefl : ∀ f, same f f = true) (fuel : Nat) (block : Array Tx) (f : F) (hG : G f) :
    (GetMatchedIndices O same fuel block f).steps ≤
      block.size * ((block.toList.map (fun t => t.outs.length)).sum + 1) :=
  Nat.le_trans (scan_steps same fuel block f)
    (Nat.mul_le_mul_left _ (Nat.succ_le_succ (scan_version L hidem same hrefl fuel block f hG)))

/-! ### The real bloom filter
`bloomOps` is the model of gcash/bchutil's `bloom.Filter` (`Bch/Model/Bloom.lean`, property C09),
`bloomSame` the `bytes.Equal` test of `checkFilterTx`.  `bloomGood f` = loaded and at most 36000
bytes (`MaxFilterLoadFilterSize`, enforced by the wire decoder). -/

/-- the filter laws for the real bloom filter, from C09 (`bloom_add_matches`, `bloom_add_mono`) -/
theorem C10_bloom_lawful : LawfulOn bloomOps bloomGood := bloom_lawful

/-- `bytes.Equal` on the bit arrays is a sound change detector, it recognises an unchanged filter,
    and re-inserting a matched element leaves the real filter unchanged -/
theorem C10_bloom_same : SameSound bloomOps bloomSame ∧ (∀ f, bloomSame f f = true) ∧
    (∀ f x, bloomOps.test f x = true → bloomOps.add f x = f) :=
  ⟨bloom_sameSound, bloomSame_refl, bloom_add_idem⟩

/-- `C10_match_iff` for the real filter — every filter state, loaded or not, any size -/
theorem C10_bloom_match_iff (f : Bch.Model.Bloom.Filter) (tx : Tx) :
    (matchTxAndUpdate bloomOps f tx).2 = true ↔ Relevant bloomOps f tx :=
  matchTx_iff bloom_lawful f tx

/-- soundness and completeness (a) of the block scan for the real filter — every filter state -/
theorem C10_bloom_block_sound_complete (fuel : Nat) (hfuel : 0 < fuel) (block : Array Tx)
    (f : Bch.Model.Bloom.Filter) :
    (∀ i ∈ (GetMatchedIndices bloomOps bloomSame fuel block f).matched, i < block.size ∧
      ∃ tx, block[i]? = some tx ∧
        Relevant bloomOps (GetMatchedIndices bloomOps bloomSame fuel block f).filter tx) ∧
    (∀ i tx, block[i]? = some tx → Relevant bloomOps f tx →
      i ∈ (GetMatchedIndices bloomOps bloomSame fuel block f).matched) :=
  ⟨fun i hi => C10_block_sound bloom_lawful bloomSame fuel block f i hi,
   fun i tx hb hr => C10_block_complete_a bloom_lawful bloomSame fuel hfuel block f i tx hb hr⟩

/-- completeness (b) for a loaded real filter within the wire limit: spenders of an eligible output,
    with a push matching the loaded filter, of a reported transaction are reported, wherever they
    stand in the block -/
theorem C10_bloom_block_complete_spenders (m : Bch.Model.Bloom.Msg) (hm : m.bits.length ≤ 36000)
    (fuel : Nat) (block : Array Tx)
    (hf : (GetMatchedIndices bloomOps bloomSame fuel block (some m)).outOfFuel = false)
    (j : Nat) (hj : j ∈ (GetMatchedIndices bloomOps bloomSame fuel block (some m)).matched)
    (t : Tx) (hb : block[j]? = some t) (i : Nat) (o : TxOut) (ho : t.outs[i]? = some o)
    (he : m.flags = 1 ∨ (m.flags = 2 ∧ o.isPubKeyOrMultisig = true))
    (hp : ∃ ps, o.pushes = some ps ∧ ∃ d ∈ ps, Bch.Model.Bloom.Matches (some m) d = true)
    (k : Nat) (u : Tx) (hu : block[k]? = some u)
    (hsp : ∃ inp ∈ u.ins, inp.prevHash = t.id ∧ inp.prevIdx = i) :
    k ∈ (GetMatchedIndices bloomOps bloomSame fuel block (some m)).matched :=
  C10_block_complete_spenders bloom_lawful bloomSame bloom_sameSound fuel block (some m)
    (bloomGood_some m hm) hf j hj t hb i o ho he hp k u hu hsp

/-- the repaired scan refines the reference scan for the real filter — every filter state -/
theorem C10_bloom_scan_refines_ref (block : Array Tx) (fuel : Nat) (f : Bch.Model.Bloom.Filter)
    (hf : (GetMatchedIndicesRef bloomOps fuel block f).outOfFuel = false) :
    (GetMatchedIndices bloomOps bloomSame fuel block f).filter = (GetMatchedIndicesRef bloomOps fuel block f).filter ∧
    (GetMatchedIndices bloomOps bloomSame fuel block f).matched = (GetMatchedIndicesRef bloomOps fuel block f).matched ∧
    (GetMatchedIndices bloomOps bloomSame fuel block f).outOfFuel = false :=
  C10_scan_refines_ref bloom_lawful bloomSame bloom_sameSound block fuel f hf

/-- polynomial step bound for a loaded real filter within the wire limit -/
theorem C10_bloom_scan_steps_poly (m : Bch.Model.Bloom.Msg) (hm : m.bits.length ≤ 36000)
    (fuel : Nat) (block : Array Tx) :
    (GetMatchedIndices bloomOps bloomSame fuel block (some m)).steps ≤
      block.size * ((block.toList.map (fun t => t.outs.length)).sum + 1) :=
  C10_scan_steps_poly bloom_lawful bloom_add_idem bloomSame bloomSame_refl fuel block (some m)
    (bloomGood_some m hm)

/-! ### Non-vacuity: a toy filter (exact list membership) and small blocks
`toyOps`: `F := List Bytes`, `test f x := f.contains x`, `add f x := x :: f`, flag 1;
`toySetOps`: the same with insert-if-absent; `toyP2Ops`: flag 2.  `blk = #[txB, txA, txC]` where the
child `txB` (spends `(txA, 0)`) is listed *before* its parent `txA`. -/
section examples
open Bch.Proofs.BloomTx.Toy

-- the hypotheses are satisfiable
example : LawfulFilter toyOps := toy_lawful
example : LawfulOn toyOps (fun _ => True) := toy_lawful.on
example : LawfulFilter toySetOps ∧ (∀ f x, toySetOps.test f x = true → toySetOps.add f x = f) ∧
    (∀ f, toySame f f = true) := ⟨toySet_lawful, toySet_idem, toySame_refl⟩
example : SameSound toyOps toySame := toy_sameSound _

-- `blk` is acyclic with bound 3, so fuel 3 suffices
example : (GetMatchedIndices toyOps toySame 3 blk [[7]]).outOfFuel = false :=
  (C10_fuel_suffices toySame blk blkRank 3 toy_blk_acyclic 3 (Nat.le_refl _) _).1

-- the child placed before its parent does not match the loaded filter …
example : (matchTxAndUpdate toyOps [[7]] txB).2 = false := by decide
-- … is not found when scanned on its own …
example : (GetMatchedIndices toyOps toySame 5 #[txB] [[7]]).matched = [] := by decide
-- … the parent matches and inserts its outpoint …
example : matchTxAndUpdate toyOps [[7]] txA = ([[0xA, 0, 0, 0, 0], [7]], true) := by decide
-- … and the block scan reports the child (index 0) through the re-check, and not the unrelated `txC`
example : (GetMatchedIndices toyOps toySame 5 blk [[7]]).matched = [0, 1] := by decide
example : (GetMatchedIndices toyOps toySame 5 blk [[7]]).filter = [[0xA, 0, 0, 0, 0], [7]] := by decide
example : (GetMatchedIndices toyOps toySame 5 blk [[7]]).outOfFuel = false := by decide
example : (GetMatchedIndices toyOps toySame 5 blk [[7]]).steps = 4 ∧
    (GetMatchedIndices toyOps toySame 5 blk [[7]]).version = 1 := by decide

-- the same fact obtained from the theorem (all hypotheses discharged on a concrete instance)
example : 0 ∈ (GetMatchedIndices toyOps toySame 5 blk [[7]]).matched :=
  C10_block_complete_spenders toy_lawful.on toySame (toy_sameSound _) 5 blk [[7]] trivial (by decide)
    1 (by decide) txA rfl 0 _ rfl (Or.inl rfl) ⟨[[7]], rfl, [7], by simp, by decide⟩
    0 txB rfl ⟨_, List.mem_cons_self, rfl, rfl⟩

-- reference and repaired scan agree (here by evaluation; in general by `C10_scan_refines_ref`)
example : (GetMatchedIndicesRef toyOps 5 blk [[7]]).outOfFuel = false := by decide
example : (GetMatchedIndices toyOps toySame 5 blk [[7]]).matched = (GetMatchedIndicesRef toyOps 5 blk [[7]]).matched :=
  (C10_scan_refines_ref toy_lawful.on toySame (toy_sameSound _) blk 5 [[7]] (by decide)).2.1

-- with fuel 0 nothing is reported: `0 < fuel` in `C10_block_complete_a` is needed
example : (GetMatchedIndices toyOps toySame 0 blk [[7]]).matched = [] ∧
    (GetMatchedIndices toyOps toySame 0 blk [[7]]).outOfFuel = true := by decide

-- `C10_update`: "matching at its turn" matters — output 1 of `txSelf` pushes the serialised outpoint of
-- output 0 and matches only the filter as extended by output 0; under flag 2 only the
-- pay-to-pubkey output 0 is eligible
example : updIdxs toyOps [[7]] txSelf = [0, 1] := by decide
example : updIdxs toyP2Ops [[7]] txSelf = [0] := by decide
example : (matchTxAndUpdate toyP2Ops [[7]] txSelf).1 = [[0xE, 0, 0, 0, 0], [7]] := by decide

-- the reported set is *not* invariant under permutation (and the theorems do not claim it): `txX`
-- pushes the serialised outpoint `(txA, 0)` without spending it, so it is relevant only to a filter
-- that already contains that outpoint
example : (GetMatchedIndices toyOps toySame 5 #[txA, txX] [[7]]).matched = [1, 0] := by decide
example : (GetMatchedIndices toyOps toySame 5 #[txX, txA] [[7]]).matched = [1] := by decide

-- a child-first chain in which every transaction spends two outputs of its parent: 26 evaluations in
-- the reference scan, 10 in the repaired one (bound: 4 * (4 + 1)); same result
example : (GetMatchedIndicesRef toySetOps 9 chainBlkRev [[7]]).steps = 26 := by decide
example : (GetMatchedIndices toySetOps toySame 9 chainBlkRev [[7]]).steps = 10 ∧
    (GetMatchedIndices toySetOps toySame 9 chainBlkRev [[7]]).version = 4 := by decide
example : (GetMatchedIndices toySetOps toySame 9 chainBlkRev [[7]]).matched =
    (GetMatchedIndicesRef toySetOps 9 chainBlkRev [[7]]).matched := by decide

-- a (hash-wise impossible) two-transaction spend cycle both of whose members match: the reference
-- scan runs out of any fuel, the repaired scan terminates
example : (GetMatchedIndicesRef toyOps 50 cycBlk [[1], [2]]).outOfFuel = true := by decide
example : (GetMatchedIndices toyOps toySame 50 cycBlk [[1], [2]]).outOfFuel = false ∧
    (GetMatchedIndices toyOps toySame 50 cycBlk [[1], [2]]).matched = [1, 0] := by decide
-- a cyclic block on which the reference scan terminates is covered by `C10_scan_refines_ref`
example : (GetMatchedIndicesRef toyOps 9 cycBlk [[1]]).outOfFuel = false := by decide

-- the real bloom filter (4 bytes, 2 hash functions) on the child-before-parent block
example : bloomF0 = some { bits := [3, 0, 0, 0], nHash := 2, tweak := 5, flags := 1 } := by decide
example : bloomGood bloomF0 := ⟨rfl, by intro m hm; cases hm; decide⟩
example : (matchTxAndUpdate bloomOps bloomF0 txB).2 = false := by decide
example : (GetMatchedIndices bloomOps bloomSame 5 blk bloomF0).matched = [0, 1] ∧
    (GetMatchedIndices bloomOps bloomSame 5 blk bloomF0).outOfFuel = false := by decide
example : (GetMatchedIndices bloomOps bloomSame 5 blk bloomF0).filter =
    some { bits := [3, 1, 0, 32], nHash := 2, tweak := 5, flags := 1 } := by decide

end examples

end Bch.Props.C10
