import Bch.Model.BloomObj
import Bch.Props.C09
/-
C09 at the level of message objects (`Model/BloomObj.lean`): the filter points at a caller-owned message and inserts
into it in place.  The value-level histories of `Props/C09.lean` are exactly the view "object currently pointed at".

SCOPE of the object model (stated here because the frame theorems depend on it): ONE `bloom.Filter`, and message
objects that each own their bit array (`Msg.bits` is held by value).  In Go a message holds a *slice*: two
`wire.MsgFilterLoad` values can share one backing array (`m2 := *m1`, `NewMsgFilterLoad(m1.Filter, …)`), two Filters can
be loaded with the same message, and the caller can write `m.Filter` directly.  None of that is expressible here, so
`C09_obj_frame` ("no operation writes an object that is not loaded") is a statement about messages with pairwise
distinct bit arrays used through one Filter — which is also what the `histobj` cases of the harness exercise.
`C09_obj_no_false_negatives` does not depend on that restriction in spirit (insertions only ever SET bits, so an array
shared between objects still holds every bit any of them needs), but it is proved for this model only.
-/
namespace Bch.Props.C09
open Bch Bch.Model Bch.Model.Bloom Bch.Model.BloomObj

/-- the pointer is always in range (or nil) -/
def State.WF (s : State) : Prop := ∀ k, s.cur = some k → k < s.objs.length

theorem C09_obj_wf_step (s : State) (op : BloomObj.Op) (h : State.WF s) : State.WF (stepObj s op).1 := by
  intro k hk
  cases op with
  | base b =>
    cases b <;> simp only [stepObj] at hk ⊢ <;> first
      | (have := h k hk; split <;> simp_all [List.length_set])
      | (cases hk; simp)
      | (cases hk)
      | skip
    all_goals first | (have := h k hk; split <;> simp_all [List.length_set]) | simp_all
  | reloadObj j =>
    simp only [stepObj] at hk ⊢
    split at hk
    · cases hk; split <;> simp_all
    · split <;> simp_all [h k hk]
  | getMsg => exact h k hk

/-- **refinement**: an object-level step is the value-level step on the object pointed at (`reloadObj k` being the
    `reload` of object `k`'s *current* contents, insertions made while it was loaded earlier included), and the answers
    of insertions, queries and `IsLoaded` are the value-level ones. -/
theorem C09_obj_view_step (s : State) (op : BloomObj.Op) (bop : Bloom.Op) (h : State.WF s)
    (hb : toBase s op = some bop) :
    view (stepObj s op).1 = (Bloom.step (view s) bop).1 := by
  cases op with
  | getMsg => simp [toBase] at hb
  | reloadObj k =>
    simp only [toBase, Option.map_eq_some_iff] at hb
    obtain ⟨m, hm, rfl⟩ := hb
    have hk : k < s.objs.length := by
      rcases Nat.lt_or_ge k s.objs.length with h' | h'
      · exact h'
      · rw [List.getElem?_eq_none h'] at hm; cases hm
    have : s.objs[k] = m := by rw [List.getElem?_eq_getElem hk] at hm; exact Option.some.inj hm
    simp [stepObj, hk, view, Bloom.step, this]
  | base b =>
    simp only [toBase, Option.some.injEq] at hb
    subst hb
    cases b with
    | reload m => simp [stepObj, view, Bloom.step]
    | unload => simp [stepObj, view, Bloom.step]
    | add d =>
      simp only [stepObj, Bloom.step]
      cases hc : s.cur with
      | none => simp [view, hc, Bloom.add]
      | some k =>
        have hk := h k hc
        simp [view, hc, Bloom.add, List.getElem?_eq_getElem hk, List.getElem?_set_self hk]
    | addHash d =>
      simp only [stepObj, Bloom.step]
      cases hc : s.cur with
      | none => simp [view, hc, Bloom.add]
      | some k =>
        have hk := h k hc
        simp [view, hc, Bloom.add, List.getElem?_eq_getElem hk, List.getElem?_set_self hk]
    | addOutPoint d i =>
      simp only [stepObj, Bloom.step]
      cases hc : s.cur with
      | none => simp [view, hc, Bloom.add, Bloom.addOutPoint]
      | some k =>
        have hk := h k hc
        simp [view, hc, Bloom.add, Bloom.addOutPoint, List.getElem?_eq_getElem hk, List.getElem?_set_self hk]
    | query d =>
      simp only [stepObj, Bloom.step]
      cases hc : s.cur with
      | none => simp [view, hc]
      | some k =>
        have hk := h k hc
        simp [view, hc, List.getElem?_eq_getElem hk]
    | queryOutPoint d i =>
      simp only [stepObj, Bloom.step]
      cases hc : s.cur with
      | none => simp [view, hc]
      | some k =>
        have hk := h k hc
        simp [view, hc, List.getElem?_eq_getElem hk]
    | isLoaded =>
      simp only [stepObj, Bloom.step]
      cases hc : s.cur with
      | none => simp [view, hc]
      | some k =>
        have hk := h k hc
        simp [view, hc, List.getElem?_eq_getElem hk]

/-- the answers of the object-level insertions, queries and `IsLoaded` are the value-level answers on the object
    pointed at (the other half of `C09_obj_view_step`) -/
theorem C09_obj_answer_step (s : State) (op : Bloom.Op) (hr : ∀ m, op ≠ .reload m) (hu : op ≠ .unload) :
    (stepObj s (.base op)).2 = (Bloom.step (view s) op).2.map fun b => if b then "1" else "0" := by
  cases op <;> first | rfl | (exact absurd rfl (hr _)) | (exact absurd rfl hu)

/-- **frame**: no operation writes to a message object the filter does not point at, and no operation removes or
    reorders objects — in particular `Reload` writes to *no* object (the object loaded before keeps what was inserted
    into it; the new one is taken as it is). -/
theorem C09_obj_frame (s : State) (op : BloomObj.Op) (j : Nat) (hj : j < s.objs.length) (hne : s.cur ≠ some j) :
    (stepObj s op).1.objs[j]? = s.objs[j]? := by
  cases op with
  | getMsg => rfl
  | reloadObj k => simp only [stepObj]; split <;> rfl
  | base b =>
    cases b <;> simp only [stepObj] <;> first
      | (simp [List.getElem?_append_left hj])
      | rfl
      | skip
    all_goals
      split
      · rename_i k m' hc _
        have : k ≠ j := fun e => hne (e ▸ hc)
        simp [List.getElem?_set, this]
      · rfl

/-- `Reload` of an object and `Unload` write to no object at all -/
theorem C09_obj_reload_writes_nothing (s : State) (k : Nat) :
    (stepObj s (.reloadObj k)).1.objs = s.objs ∧ (stepObj s (.base .unload)).1.objs = s.objs := by
  constructor
  · simp only [stepObj]; split <;> rfl
  · rfl

/-- `MsgFilterLoad()` hands out the object most recently loaded -/
theorem C09_obj_getMsg_after_reload (s : State) (k : Nat) (hk : k < s.objs.length) :
    (stepObj (stepObj s (.reloadObj k)).1 .getMsg).2 = some (toString k) := by
  simp [stepObj, hk]

/-- **an object loaded again still reports what was inserted into it before**: insert `x` into object `k`, load any
    other object, do anything that is not an insertion into `k`… here the shortest form: insert, reload `j`, reload `k`,
    query. (General histories follow from `C09_obj_view_step` + `C09_obj_frame` + `C09_no_false_negatives`.) -/
theorem C09_obj_reloaded_keeps_insertions (s : State) (k j : Nat) (x : Bytes) (h : State.WF s)
    (hc : s.cur = some k) (hj : j < s.objs.length)
    (hlen : ∀ m, s.objs[k]? = some m → m.bits.length ≤ 36000) :
    let s1 := (stepObj s (.base (.add x))).1
    let s2 := (stepObj s1 (.reloadObj j)).1
    let s3 := (stepObj s2 (.reloadObj k)).1
    (stepObj s3 (.base (.query x))).2 = some "1" := by
  have hk := h k hc
  have hm := List.getElem?_eq_getElem hk
  have e1 : (stepObj s (.base (.add x))).1 = ⟨s.objs.set k (addMsg s.objs[k] x), some k⟩ := by
    simp [stepObj, Bloom.step, view, hc, hm, Bloom.add]
  have e2 : (stepObj ⟨s.objs.set k (addMsg s.objs[k] x), some k⟩ (.reloadObj j)).1 =
      ⟨s.objs.set k (addMsg s.objs[k] x), some j⟩ := by simp [stepObj, hj]
  have e3 : (stepObj ⟨s.objs.set k (addMsg s.objs[k] x), some j⟩ (.reloadObj k)).1 =
      ⟨s.objs.set k (addMsg s.objs[k] x), some k⟩ := by simp [stepObj, hk]
  simp only [e1, e2, e3]
  have := bloom_add_matches (s.objs[k]) x (hlen _ hm)
  simp only [Bloom.add, Option.map_some] at this
  simp [stepObj, Bloom.step, view, hk, this]

-- non-vacuity
example : State.WF ⟨[⟨[0, 0], 3, 5, 0⟩, ⟨[0], 1, 0, 0⟩], some 0⟩ := by intro k hk; cases hk; decide
example : (stepObj (stepObj (stepObj (stepObj ⟨[⟨[0, 0], 3, 5, 0⟩, ⟨[0], 1, 0, 0⟩], some 0⟩ (.base (.add [1, 2, 3]))).1
    (.reloadObj 1)).1 (.reloadObj 0)).1 (.base (.query [1, 2, 3]))).2 = some "1" := by decide
-- negative witness: a `Reload` that overwrote the loaded object in place (`*cur = *m`) instead of re-pointing
-- would violate `C09_obj_frame` / `C09_obj_getMsg_after_reload`: after `Reload(1)` the model hands out object 1
example : (stepObj (stepObj ⟨[⟨[0, 0], 3, 5, 0⟩, ⟨[0], 1, 0, 0⟩], some 0⟩ (.reloadObj 1)).1 .getMsg).2 = some "1" := by
  decide

/-! ### no false negatives over arbitrary object-level histories -/

/-- the items inserted so far into each object (parallel to `objs`): an insertion goes to the object pointed at -/
def insStep (s : State) (ins : List (List Bytes)) : BloomObj.Op → List (List Bytes)
  | .base (.reload _) => ins ++ [[]]
  | .base (.add d) => match s.cur with | some k => ins.modify k (d :: ·) | none => ins
  | .base (.addHash d) => match s.cur with | some k => ins.modify k (d :: ·) | none => ins
  | .base (.addOutPoint h i) => match s.cur with | some k => ins.modify k (outPointBytes h i :: ·) | none => ins
  | _ => ins

def runObj : State → List (List Bytes) → List BloomObj.Op → State × List (List Bytes)
  | s, ins, [] => (s, ins)
  | s, ins, op :: ops => runObj (stepObj s op).1 (insStep s ins op) ops

/-- every object reports everything that was ever inserted into it, and stays within the wire limit -/
def ObjInv (s : State) (ins : List (List Bytes)) : Prop :=
  State.WF s ∧ ins.length = s.objs.length ∧
  ∀ k (hk : k < s.objs.length), s.objs[k].bits.length ≤ 36000 ∧ ∀ x ∈ ins.getD k [], matchesMsg s.objs[k] x = true

private theorem matches_addMsg_self (m : Msg) (x : Bytes) (h : m.bits.length ≤ 36000) :
    matchesMsg (addMsg m x) x = true := by
  simpa [Bloom.Matches, Bloom.add] using bloom_add_matches m x h

private theorem matches_addMsg_mono (m : Msg) (x y : Bytes) (h : matchesMsg m y = true) :
    matchesMsg (addMsg m x) y = true := by
  simpa [Bloom.Matches, Bloom.add] using bloom_add_mono (some m) x y (by simpa [Bloom.Matches] using h)

private theorem stepObj_readonly (s : State) (op : Bloom.Op) (h : State.WF s)
    (hop : (∃ d, op = .query d) ∨ (∃ d i, op = .queryOutPoint d i) ∨ op = .isLoaded) :
    (stepObj s (.base op)).1 = s := by
  rcases hop with ⟨d, rfl⟩ | ⟨d, i, rfl⟩ | rfl <;>
  · simp only [stepObj, Bloom.step]
    cases hc : s.cur with
    | none => cases s; simp_all [view]
    | some k =>
      have hk := h k hc
      cases s
      simp_all [view, List.getElem?_eq_getElem hk]

private theorem getD_modify_self' (ins : List (List Bytes)) (k : Nat) (d : Bytes) (hk : k < ins.length) :
    (ins.modify k (d :: ·)).getD k [] = d :: ins.getD k [] := by
  simp [List.getD_eq_getElem?_getD, List.getElem?_modify, List.getElem?_eq_getElem hk]

private theorem getD_modify_ne' (ins : List (List Bytes)) (k j : Nat) (d : Bytes) (h : k ≠ j) :
    (ins.modify k (d :: ·)).getD j [] = ins.getD j [] := by
  simp only [List.getD_eq_getElem?_getD, List.getElem?_modify]
  cases ins[j]? <;> simp [h]

private theorem inv_insert (s : State) (ins : List (List Bytes)) (h : ObjInv s ins) (k : Nat) (hc : s.cur = some k)
    (d : Bytes) :
    ObjInv ⟨s.objs.set k (addMsg (s.objs[k]'(h.1 k hc)) d), some k⟩ (ins.modify k (d :: ·)) := by
  obtain ⟨wf, hl, hall⟩ := h
  have hk := wf k hc
  refine ⟨?_, by simp [hl], ?_⟩
  · intro j hj; cases hj; simpa using hk
  · intro j hj
    have hj' : j < s.objs.length := by simpa using hj
    by_cases e : j = k
    · subst e
      have := hall j hj'
      simp only [List.getElem_set_self, Bch.Proofs.Bloom.addMsg_length]
      refine ⟨this.1, ?_⟩
      intro x hx
      rw [getD_modify_self' _ _ _ (hl ▸ hj'), List.mem_cons] at hx
      rcases hx with rfl | hx
      · exact matches_addMsg_self _ _ this.1
      · exact matches_addMsg_mono _ _ _ (this.2 x hx)
    · have := hall j hj'
      have e' : k ≠ j := fun h => e h.symm
      simp only [List.getElem_set_ne e']
      refine ⟨this.1, ?_⟩
      intro x hx
      rw [getD_modify_ne' _ _ _ _ e'] at hx
      exact this.2 x hx

/-- **the invariant is preserved by every operation**, for every new message within the wire limit -/
theorem C09_obj_inv_step (s : State) (ins : List (List Bytes)) (op : BloomObj.Op) (h : ObjInv s ins)
    (hm : ∀ m, op = .base (.reload m) → m.bits.length ≤ 36000) :
    ObjInv (stepObj s op).1 (insStep s ins op) := by
  have wf' := C09_obj_wf_step s op h.1
  cases op with
  | getMsg => exact h
  | reloadObj j =>
    refine ⟨wf', ?_, ?_⟩ <;> simp only [stepObj, insStep] <;> split <;> first | exact h.2.1 | exact h.2.2
  | base b =>
    cases b with
    | reload m =>
      obtain ⟨wf, hl, hall⟩ := h
      refine ⟨wf', by simp [stepObj, insStep, hl], ?_⟩
      intro k hk
      simp only [stepObj, List.length_append, List.length_singleton] at hk
      by_cases e : k < s.objs.length
      · have := hall k e
        simp only [stepObj, insStep, List.getElem_append_left e]
        refine ⟨this.1, ?_⟩
        intro x hx
        apply this.2 x
        have : k < ins.length := hl ▸ e
        simpa [List.getD_eq_getElem?_getD, List.getElem?_append_left this] using hx
      · have e2 : k = s.objs.length := by omega
        subst e2
        simp only [stepObj, insStep, List.getElem_concat_length]
        refine ⟨hm m rfl, ?_⟩
        intro x hx
        simp [List.getD_eq_getElem?_getD, ← hl] at hx
    | unload => exact ⟨wf', h.2.1, h.2.2⟩
    | add d =>
      cases hc : s.cur with
      | none =>
        have : (stepObj s (.base (.add d))).1 = s := by cases s; simp_all [stepObj, Bloom.step, view, Bloom.add]
        rw [this]; simpa [insStep, hc] using h
      | some k =>
        have hk := h.1 k hc
        have := inv_insert s ins h k hc d
        simpa [stepObj, insStep, Bloom.step, view, hc, Bloom.add, List.getElem?_eq_getElem hk] using this
    | addHash d =>
      cases hc : s.cur with
      | none =>
        have : (stepObj s (.base (.addHash d))).1 = s := by cases s; simp_all [stepObj, Bloom.step, view, Bloom.add]
        rw [this]; simpa [insStep, hc] using h
      | some k =>
        have hk := h.1 k hc
        have := inv_insert s ins h k hc d
        simpa [stepObj, insStep, Bloom.step, view, hc, Bloom.add, List.getElem?_eq_getElem hk] using this
    | addOutPoint d i =>
      cases hc : s.cur with
      | none =>
        have : (stepObj s (.base (.addOutPoint d i))).1 = s := by
          cases s; simp_all [stepObj, Bloom.step, view, Bloom.add, Bloom.addOutPoint]
        rw [this]; simpa [insStep, hc] using h
      | some k =>
        have hk := h.1 k hc
        have := inv_insert s ins h k hc (outPointBytes d i)
        simpa [stepObj, insStep, Bloom.step, view, hc, Bloom.add, Bloom.addOutPoint, List.getElem?_eq_getElem hk] using this
    | query d => rw [stepObj_readonly s _ h.1 (.inl ⟨d, rfl⟩)]; exact h
    | queryOutPoint d i => rw [stepObj_readonly s _ h.1 (.inr (.inl ⟨d, i, rfl⟩))]; exact h
    | isLoaded => rw [stepObj_readonly s _ h.1 (.inr (.inr rfl))]; exact h

/-- **no false negatives over every object-level history.**  Start with any message objects within the wire limit
    and nothing recorded as inserted; after *any* sequence of insertions, queries, `Reload`s of new messages (within
    the limit) or of earlier objects, `Unload`, `IsLoaded`, `MsgFilterLoad`, every object reports every item that was
    ever inserted while it was loaded — whenever it is loaded again, `Matches` answers true (`C09_obj_view_step`:
    the answer of a query is the answer of the object pointed at). -/
theorem C09_obj_no_false_negatives (s : State) (ops : List BloomObj.Op) (h0 : State.WF s)
    (hlim : ∀ k (hk : k < s.objs.length), s.objs[k].bits.length ≤ 36000)
    (hops : ∀ m, BloomObj.Op.base (.reload m) ∈ ops → m.bits.length ≤ 36000) :
    let r := runObj s (s.objs.map fun _ => []) ops
    ∀ k (hk : k < r.1.objs.length), ∀ x ∈ r.2.getD k [], matchesMsg r.1.objs[k] x = true := by
  have key : ∀ (ops : List BloomObj.Op) (s : State) (ins : List (List Bytes)), ObjInv s ins →
      (∀ m, BloomObj.Op.base (.reload m) ∈ ops → m.bits.length ≤ 36000) → ObjInv (runObj s ins ops).1 (runObj s ins ops).2 := by
    intro ops
    induction ops with
    | nil => intro s ins h _; exact h
    | cons op rest ih =>
      intro s ins h hm
      simp only [runObj]
      exact ih _ _ (C09_obj_inv_step s ins op h (fun m e => hm m (e ▸ List.mem_cons_self ..)))
        (fun m hmem => hm m (List.mem_cons_of_mem _ hmem))
  have h1 : ObjInv s (s.objs.map fun _ => []) := by
    refine ⟨h0, by simp, fun k hk => ⟨hlim k hk, ?_⟩⟩
    intro x hx
    simp [List.getD_eq_getElem?_getD, List.getElem?_map, List.getElem?_eq_getElem hk] at hx
  intro r k hk x hx
  exact ((key ops s _ h1 hops).2.2 k hk).2 x hx

-- non-vacuity: a history with two objects; object 0 is loaded again and still holds what was inserted into it
example :
    let s0 : State := ⟨[⟨[0, 0], 3, 5, 0⟩], some 0⟩
    let ops : List BloomObj.Op := [.base (.add [1, 2, 3]), .base (.reload ⟨[0], 1, 0, 0⟩), .base (.add [9]), .reloadObj 0]
    (runObj s0 [[]] ops).2 = [[[1, 2, 3]], [[9]]] ∧ (runObj s0 [[]] ops).1.cur = some 0 ∧
    (stepObj (runObj s0 [[]] ops).1 (.base (.query [1, 2, 3]))).2 = some "1" := by decide

end Bch.Props.C09
