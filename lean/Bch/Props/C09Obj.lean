import Bch.Model.BloomObj
import Bch.Props.C09
/-
C09 at the level of message objects (`Model/BloomObj.lean`): the filter points at a caller-owned message and inserts
into it in place.  The value-level histories of `Props/C09.lean` are exactly the view "object currently pointed at".
-/
namespace Bch.Props.C09
open Bch Bch.Model Bch.Model.Bloom Bch.Model.BloomObj

/-- the pointer is always in range (or nil) -/
def State.WF (s : State) : Prop := ∀ k, s.cur = some k → k < s.objs.length

theorem C09_obj_wf_step (s : State) (op : BloomObj.Op) (h : State.WF s) : State.WF (stepObj s op).1 := by
  intro k hk
  cases op with
  | base b =>
    cases b <;> simp only [stepObj] at hk ⊢ <;> first
      | (have := h k hk; split <;> simp_all [List.length_set])
      | (cases hk; simp)
      | (cases hk)
      | skip
    all_goals first | (have := h k hk; split <;> simp_all [List.length_set]) | simp_all
  | reloadObj j =>
    simp only [stepObj] at hk ⊢
    split at hk
    · cases hk; split <;> simp_all
    · split <;> simp_all [h k hk]
  | getMsg => exact h k hk

/-- **refinement**: an object-level step is the value-level step on the object pointed at (`reloadObj k` being the
    `reload` of object `k`'s *current* contents, insertions made while it was loaded earlier included), and the answers
    of insertions, queries and `IsLoaded` are the value-level ones. -/
theorem C09_obj_view_step (s : State) (op : BloomObj.Op) (bop : Bloom.Op) (h : State.WF s)
    (hb : toBase s op = some bop) :
    view (stepObj s op).1 = (Bloom.step (view s) bop).1 := by
  cases op with
  | getMsg => simp [toBase] at hb
  | reloadObj k =>
    simp only [toBase, Option.map_eq_some_iff] at hb
    obtain ⟨m, hm, rfl⟩ := hb
    have hk : k < s.objs.length := by
      rcases Nat.lt_or_ge k s.objs.length with h' | h'
      · exact h'
      · rw [List.getElem?_eq_none h'] at hm; cases hm
    have : s.objs[k] = m := by rw [List.getElem?_eq_getElem hk] at hm; exact Option.some.inj hm
    simp [stepObj, hk, view, Bloom.step, this]
  | base b =>
    simp only [toBase, Option.some.injEq] at hb
    subst hb
    cases b with
    | reload m => simp [stepObj, view, Bloom.step]
    | unload => simp [stepObj, view, Bloom.step]
    | add d =>
      simp only [stepObj, Bloom.step]
      cases hc : s.cur with
      | none => simp [view, hc, Bloom.add]
      | some k =>
        have hk := h k hc
        simp [view, hc, Bloom.add, List.getElem?_eq_getElem hk, List.getElem?_set_self hk]
    | addHash d =>
      simp only [stepObj, Bloom.step]
      cases hc : s.cur with
      | none => simp [view, hc, Bloom.add]
      | some k =>
        have hk := h k hc
        simp [view, hc, Bloom.add, List.getElem?_eq_getElem hk, List.getElem?_set_self hk]
    | addOutPoint d i =>
      simp only [stepObj, Bloom.step]
      cases hc : s.cur with
      | none => simp [view, hc, Bloom.add, Bloom.addOutPoint]
      | some k =>
        have hk := h k hc
        simp [view, hc, Bloom.add, Bloom.addOutPoint, List.getElem?_eq_getElem hk, List.getElem?_set_self hk]
    | query d =>
      simp only [stepObj, Bloom.step]
      cases hc : s.cur with
      | none => simp [view, hc]
      | some k =>
        have hk := h k hc
        simp [view, hc, List.getElem?_eq_getElem hk]
    | queryOutPoint d i =>
      simp only [stepObj, Bloom.step]
      cases hc : s.cur with
      | none => simp [view, hc]
      | some k =>
        have hk := h k hc
        simp [view, hc, List.getElem?_eq_getElem hk]
    | isLoaded =>
      simp only [stepObj, Bloom.step]
      cases hc : s.cur with
      | none => simp [view, hc]
      | some k =>
        have hk := h k hc
        simp [view, hc, List.getElem?_eq_getElem hk]

/-- **frame**: no operation writes to a message object the filter does not point at, and no operation removes or
    reorders objects — in particular `Reload` writes to *no* object (the object loaded before keeps what was inserted
    into it; the new one is taken as it is). -/
theorem C09_obj_frame (s : State) (op : BloomObj.Op) (j : Nat) (hj : j < s.objs.length) (hne : s.cur ≠ some j) :
    (stepObj s op).1.objs[j]? = s.objs[j]? := by
  cases op with
  | getMsg => rfl
  | reloadObj k => simp only [stepObj]; split <;> rfl
  | base b =>
    cases b <;> simp only [stepObj] <;> first
      | (simp [List.getElem?_append_left hj])
      | rfl
      | skip
    all_goals
      split
      · rename_i k m' hc _
        have : k ≠ j := fun e => hne (e ▸ hc)
        simp [List.getElem?_set, this]
      · rfl

/-- `Reload` of an object and `Unload` write to no object at all -/
theorem C09_obj_reload_writes_nothing (s : State) (k : Nat) :
    (stepObj s (.reloadObj k)).1.objs = s.objs ∧ (stepObj s (.base .unload)).1.objs = s.objs := by
  constructor
  · simp only [stepObj]; split <;> rfl
  · rfl

/-- `MsgFilterLoad()` hands out the object most recently loaded -/
theorem C09_obj_getMsg_after_reload (s : State) (k : Nat) (hk : k < s.objs.length) :
    (stepObj (stepObj s (.reloadObj k)).1 .getMsg).2 = some (toString k) := by
  simp [stepObj, hk]

/-- **an object loaded again still reports what was inserted into it before**: insert `x` into object `k`, load any
    other object, do anything that is not an insertion into `k`… here the shortest form: insert, reload `j`, reload `k`,
    query. (General histories follow from `C09_obj_view_step` + `C09_obj_frame` + `C09_no_false_negatives`.) -/
theorem C09_obj_reloaded_keeps_insertions (s : State) (k j : Nat) (x : Bytes) (h : State.WF s)
    (hc : s.cur = some k) (hj : j < s.objs.length)
    (hlen : ∀ m, s.objs[k]? = some m → m.bits.length ≤ 36000) :
    let s1 := (stepObj s (.base (.add x))).1
    let s2 := (stepObj s1 (.reloadObj j)).1
    let s3 := (stepObj s2 (.reloadObj k)).1
    (stepObj s3 (.base (.query x))).2 = some "1" := by
  have hk := h k hc
  have hm := List.getElem?_eq_getElem hk
  have e1 : (stepObj s (.base (.add x))).1 = ⟨s.objs.set k (addMsg s.objs[k] x), some k⟩ := by
    simp [stepObj, Bloom.step, view, hc, hm, Bloom.add]
  have e2 : (stepObj ⟨s.objs.set k (addMsg s.objs[k] x), some k⟩ (.reloadObj j)).1 =
      ⟨s.objs.set k (addMsg s.objs[k] x), some j⟩ := by simp [stepObj, hj]
  have e3 : (stepObj ⟨s.objs.set k (addMsg s.objs[k] x), some j⟩ (.reloadObj k)).1 =
      ⟨s.objs.set k (addMsg s.objs[k] x), some k⟩ := by simp [stepObj, hk]
  simp only [e1, e2, e3]
  have := bloom_add_matches (s.objs[k]) x (hlen _ hm)
  simp only [Bloom.add, Option.map_some] at this
  simp [stepObj, Bloom.step, view, hk, this]

-- non-vacuity
example : State.WF ⟨[⟨[0, 0], 3, 5, 0⟩, ⟨[0], 1, 0, 0⟩], some 0⟩ := by intro k hk; cases hk; decide
example : (stepObj (stepObj (stepObj (stepObj ⟨[⟨[0, 0], 3, 5, 0⟩, ⟨[0], 1, 0, 0⟩], some 0⟩ (.base (.add [1, 2, 3]))).1
    (.reloadObj 1)).1 (.reloadObj 0)).1 (.base (.query [1, 2, 3]))).2 = some "1" := by decide
-- negative witness: a `Reload` that overwrote the loaded object in place (`*cur = *m`) instead of re-pointing
-- would violate `C09_obj_frame` / `C09_obj_getMsg_after_reload`: after `Reload(1)` the model hands out object 1
example : (stepObj (stepObj ⟨[⟨[0, 0], 3, 5, 0⟩, ⟨[0], 1, 0, 0⟩], some 0⟩ (.reloadObj 1)).1 .getMsg).2 = some "1" := by
  decide

end Bch.Props.C09
