namespace Bch.Props.C01
theorem placeholder : True := trivial
end Bch.Props.C01
