import Bch.Proofs.Address
import Bch.Proofs.CashAddrSpec
/-
C01 — "Every constructible address survives encode -> decode unchanged."

All theorems are about the executable models `Bch.Model.CashAddr` / `Bch.Model.Address`
(`convertBits`, `polyMod`, `encode`, `DecodeCashAddress`, `EncodeAddress`, `DecodeAddress`, …) that are
differentially tested against /repo/address.go. External code is the parameter pack `X : Ext`
(hashes, `bchec.ParsePubKey`, `Serialize*`); every hypothesis on it is explicit.
Proofs: `Bch/Proofs/CashAddrBits.lean` (regrouping), `CashAddrPoly.lean` (checksum linearity),
`CashAddr.lean` (character level), `Address.lean` (the `DecodeAddress` cascade), `Base58*.lean`, `Hex.lean`.

Not covered here (see the report): `C01_script_ctors` (the model has no script-taking constructors; the
harness driver composes `newSh (X.hash160 script)` itself, and the round trips below quantify over every
hash). The comparison with an independent transcription of the CashAddr specification
(`Bch/Spec/CashAddrSpec.lean`) is `C01_spec_strings` in section 11 (proofs: `Bch/Proofs/CashAddrSpec.lean`).
-/
namespace Bch.Props.C01
open Bch Bch.Model Bch.Model.CashAddr Bch.Model.Address
open Bch.Proofs.CashAddr Bch.Proofs.Address

/-! ### 1. the 8 ↔ 5 bit regrouping -/

/-- Packing bytes into 5-bit symbols (with padding) always succeeds, yields symbols `< 32`, and
unpacking (strict, no padding) gives the bytes back — for every byte list. -/
theorem convertBits_8_5_roundtrip : ∀ bs : Bytes, ∃ v, convertBits bs 8 5 true = some v ∧
    (∀ x ∈ v, x.toNat < 32) ∧ v.length = (8 * bs.length + 4) / 5 ∧ convertBits v 5 8 false = some bs :=
  Bch.Proofs.CashAddr.convertBits_8_5_roundtrip

/-- Whatever the strict unpacking accepts is exactly the packing of its result: unpacking is injective
on accepted inputs. -/
theorem convertBits_5_8_canonical : ∀ v bs : Bytes, convertBits v 5 8 false = some bs →
    (∀ x ∈ v, x.toNat < 32) → convertBits bs 8 5 true = some v :=
  Bch.Proofs.CashAddr.convertBits_5_8_canonical

/-- The strict unpacking rejects exactly the symbol lists with five or more padding bits or with a
non-zero padding bit (`beVal 5` is the big-endian number the symbols spell). -/
theorem convertBits_rejects_padding : ∀ v : Bytes, (∀ x ∈ v, x.toNat < 32) →
    (convertBits v 5 8 false = none ↔
      (5 ≤ 5 * v.length % 8 ∨ beVal 5 (v.map UInt8.toNat) % 2 ^ (5 * v.length % 8) ≠ 0)) :=
  Bch.Proofs.CashAddr.convertBits_rejects_padding

/-- tests -/
example : convertBits [0xff] 8 5 true = some [31, 28] := by decide
example : convertBits [31, 28] 5 8 false = some [0xff] := by decide
example : convertBits [31, 29] 5 8 false = none := by decide   -- non-zero padding bit
example : convertBits [0] 5 8 false = none := by decide        -- five padding bits
example : ∀ x ∈ ([31, 28] : Bytes), x.toNat < 32 := by decide  -- hypothesis of `_canonical` is satisfiable

/-! ### 2. the checksum -/

/-- The `polyMod` state never leaves 40 bits (so the model's `Nat` arithmetic is the Go `uint64` one). -/
theorem polyMod_lt : ∀ v : Bytes, polyMod v < 2 ^ 40 := Bch.Proofs.CashAddr.polyMod_lt

/-- One `polyMod` step is GF(2)-linear jointly in (state, symbol). -/
theorem polyModStep_linear : ∀ (a b : Nat) (x y : UInt8),
    polyModStep (a ^^^ b) (x ^^^ y) = polyModStep a x ^^^ polyModStep b y :=
  Bch.Proofs.CashAddr.polyModStep_xor

/-- `createChecksum` yields eight 5-bit symbols. -/
theorem createChecksum_spec : ∀ pre pl : Bytes,
    (createChecksum pre pl).length = 8 ∧ ∀ x ∈ createChecksum pre pl, x.toNat < 32 :=
  fun pre pl => ⟨createChecksum_length pre pl, createChecksum_lt pre pl⟩

/-- **verify_create**: the created checksum verifies — for every prefix and payload (no hypothesis). -/
theorem verify_create : ∀ pre pl : Bytes, verifyChecksum pre (pl ++ createChecksum pre pl) = true :=
  Bch.Proofs.CashAddr.verify_create

/-- … and it is the only 8-symbol checksum that verifies. -/
theorem verify_unique : ∀ pre pl ck : Bytes, ck.length = 8 → (∀ x ∈ ck, x.toNat < 32) →
    (verifyChecksum pre (pl ++ ck) = true ↔ ck = createChecksum pre pl) :=
  Bch.Proofs.CashAddr.verify_iff

/-- The SLP retry relies on this finite fact: for the five networks with an SLP prefix and both payload
lengths, the (hash-independent) difference of the cash-prefix and SLP-prefix checksums is non-zero. -/
theorem slp_cash_checksums_differ : ∀ net ∈ nets, net.slpPrefix ≠ [] →
    prefixDelta net.slpPrefix net.cashPrefix 42 ≠ 0 ∧ prefixDelta net.slpPrefix net.cashPrefix 61 ≠ 0 :=
  Bch.Proofs.Address.slp_cash_checksums_differ

/-- Consequence for EVERY payload of the two lengths: a string with a valid SLP checksum never
verifies under the cash prefix. -/
theorem slp_not_cash : ∀ net ∈ nets, net.slpPrefix ≠ [] → ∀ pl : Bytes,
    (pl.length = 34 ∨ pl.length = 53) →
    verifyChecksum net.cashPrefix (pl ++ createChecksum net.slpPrefix pl) = false :=
  Bch.Proofs.Address.slp_not_cash

/-! ### 3. `DecodeCashAddress ∘ encode` -/

/-- For a non-empty lower-case alphabetic prefix and a 5-bit payload, `encode` succeeds, produces
lower-case letters / digits only, and `prefix:string` decodes to exactly (prefix, payload) — as is and
upper-cased. -/
theorem decodeCash_encode : ∀ pre pl : Bytes, pre ≠ [] → (∀ c ∈ pre, isLow c = true) →
    (∀ x ∈ pl, x.toNat < 32) →
    ∃ s, encode pre pl = some s ∧ s.length = pl.length + 8 ∧
      (∀ c ∈ s, (isLow c || isDig c) = true) ∧
      DecodeCashAddress (pre ++ [58] ++ s) = .ok (pre, pl) ∧
      DecodeCashAddress (upperASCII (pre ++ [58] ++ s)) = .ok (pre, pl) :=
  Bch.Proofs.CashAddr.decodeCash_encode

/-- `encode` fails (Go: index-out-of-range panic) exactly when a payload symbol is ≥ 32. -/
theorem encode_isSome_iff : ∀ pre pl : Bytes, (encode pre pl).isSome ↔ ∀ x ∈ pl, x.toNat < 32 :=
  Bch.Proofs.CashAddr.encode_isSome_iff

/-- non-vacuity of the hypotheses of `decodeCash_encode` -/
example : ([98, 99, 104] : Bytes) ≠ [] ∧ (∀ c ∈ ([98, 99, 104] : Bytes), isLow c = true) ∧
    (∀ x ∈ ([0, 31, 7] : Bytes), x.toNat < 32) := by decide

/-! ### 4./5. CashAddr and SLP addresses through `DecodeAddress` -/

/-- the renderings fed back to the decoder: as is, UPPER-CASED, `prefix:`-qualified, qualified and
upper-cased -/
example (pre s : Bytes) : renderings pre s =
    [s, upperASCII s, pre ++ [58] ++ s, upperASCII (pre ++ [58] ++ s)] := rfl

/-- **C01_cash_roundtrip** (full). For every network, every address `a` the constructors
`NewAddressPubKeyHash` / `NewAddressScriptHashFromHash` / `NewAddressScriptHash32FromHash` return for the
network's cash prefix (i.e. every 20-byte resp. 32-byte hash), and each of the four renderings of
`EncodeAddress a`: `DecodeAddress` returns the very same address value. -/
theorem C01_cash_roundtrip (X : Ext) : ∀ net ∈ nets, ∀ (h : Bytes) (a : Addr),
    (newPkh h net.cashPrefix = .ok a ∨ newSh h net.cashPrefix = .ok a ∨ newSh32 h net.cashPrefix = .ok a) →
    ∀ r ∈ renderings net.cashPrefix (EncodeAddress X a), DecodeAddress X r net = .ok a := by
  intro net hnet h a ha r hr
  have hwf := nets_wf hnet
  rcases ha with ha | ha | ha
  · unfold newPkh at ha; split at ha; · cases ha
    rename_i hl; cases ha
    exact cash_roundtrip X net hwf 0 0 h (Or.inl ⟨rfl, rfl, by simpa using hl⟩) r hr
  · unfold newSh at ha; split at ha; · cases ha
    rename_i hl; cases ha
    exact cash_roundtrip X net hwf 1 8 h (Or.inr (Or.inl ⟨rfl, rfl, by simpa using hl⟩)) r hr
  · unfold newSh32 at ha; split at ha; · cases ha
    rename_i hl; cases ha
    exact cash_roundtrip X net hwf 2 11 h (Or.inr (Or.inr ⟨rfl, rfl, by simpa using hl⟩)) r hr

/-- The observable consequences listed in the property: same kind (indeed the same value), same script
payload, identical re-encoding and string, membership of the network asked for. -/
theorem C01_cash_roundtrip_observables (X : Ext) : ∀ net ∈ nets, ∀ (h : Bytes) (a : Addr),
    (newPkh h net.cashPrefix = .ok a ∨ newSh h net.cashPrefix = .ok a ∨ newSh32 h net.cashPrefix = .ok a) →
    ∀ r ∈ renderings net.cashPrefix (EncodeAddress X a), ∃ a', DecodeAddress X r net = .ok a' ∧ a' = a ∧
      ScriptAddress X a' = h ∧ EncodeAddress X a' = EncodeAddress X a ∧
      Address.String X a' = EncodeAddress X a ∧ IsForNet a' net = true := by
  intro net hnet h a ha r hr
  refine ⟨a, C01_cash_roundtrip X net hnet h a ha r hr, rfl, ?_⟩
  rcases ha with ha | ha | ha
  · unfold newPkh at ha; split at ha; · cases ha
    cases ha; simp [ScriptAddress, Address.String, IsForNet]
  · unfold newSh at ha; split at ha; · cases ha
    cases ha; simp [ScriptAddress, Address.String, IsForNet]
  · unfold newSh32 at ha; split at ha; · cases ha
    cases ha; simp [ScriptAddress, Address.String, IsForNet]

/-- **C01_slp_roundtrip** (full). The same for the three SLP forms on every network that defines an SLP
prefix. No hypothesis on the hash remains: that the cash-prefix attempt on an unqualified SLP string
ends in a checksum mismatch (so that the SLP retry happens) follows from `slp_not_cash`. -/
theorem C01_slp_roundtrip (X : Ext) : ∀ net ∈ nets, net.slpPrefix ≠ [] → ∀ (h : Bytes) (a : Addr),
    (newPkh h net.slpPrefix = .ok a ∨ newSh h net.slpPrefix = .ok a ∨ newSh32 h net.slpPrefix = .ok a) →
    ∀ r ∈ renderings net.slpPrefix (EncodeAddress X a), DecodeAddress X r net = .ok a := by
  intro net hnet hslp h a ha r hr
  rcases ha with ha | ha | ha
  · unfold newPkh at ha; split at ha; · cases ha
    rename_i hl; cases ha
    exact slp_roundtrip X net hnet hslp 0 0 h (Or.inl ⟨rfl, rfl, by simpa using hl⟩) r hr
  · unfold newSh at ha; split at ha; · cases ha
    rename_i hl; cases ha
    exact slp_roundtrip X net hnet hslp 1 8 h (Or.inr (Or.inl ⟨rfl, rfl, by simpa using hl⟩)) r hr
  · unfold newSh32 at ha; split at ha; · cases ha
    rename_i hl; cases ha
    exact slp_roundtrip X net hnet hslp 2 11 h (Or.inr (Or.inr ⟨rfl, rfl, by simpa using hl⟩)) r hr

/-- Script payload and re-encoding of a decoded SLP address (network membership is not claimed for SLP
forms: `IsForNet` compares with the cash prefix). -/
theorem C01_slp_roundtrip_observables (X : Ext) : ∀ net ∈ nets, net.slpPrefix ≠ [] →
    ∀ (h : Bytes) (a : Addr),
    (newPkh h net.slpPrefix = .ok a ∨ newSh h net.slpPrefix = .ok a ∨ newSh32 h net.slpPrefix = .ok a) →
    ∀ r ∈ renderings net.slpPrefix (EncodeAddress X a), ∃ a', DecodeAddress X r net = .ok a' ∧ a' = a ∧
      ScriptAddress X a' = h ∧ EncodeAddress X a' = EncodeAddress X a := by
  intro net hnet hslp h a ha r hr
  refine ⟨a, C01_slp_roundtrip X net hnet hslp h a ha r hr, rfl, ?_, rfl⟩
  rcases ha with ha | ha | ha
  · unfold newPkh at ha; split at ha; · cases ha
    cases ha; rfl
  · unfold newSh at ha; split at ha; · cases ha
    cases ha; rfl
  · unfold newSh32 at ha; split at ha; · cases ha
    cases ha; rfl

/-- The string form is the one the CashAddr specification prescribes: version byte
`type << 3 | sizecode` (0x00 P2PKH, 0x08 P2SH, 0x0b P2SH32) followed by the hash, regrouped into 5-bit
symbols with zero padding, followed by the 8-symbol BCH checksum over prefix‖0‖payload, every symbol
mapped through the charset. -/
theorem C01_cash_string_form (X : Ext) (pre h : Bytes) :
    (h.length = 20 → ∃ pl, convertBits (0x00 :: h) 8 5 true = some pl ∧
      EncodeAddress X (.pkh h pre) = (pl ++ createChecksum pre pl).map chOf) ∧
    (h.length = 20 → ∃ pl, convertBits (0x08 :: h) 8 5 true = some pl ∧
      EncodeAddress X (.sh h pre) = (pl ++ createChecksum pre pl).map chOf) ∧
    (h.length = 32 → ∃ pl, convertBits (0x0b :: h) 8 5 true = some pl ∧
      EncodeAddress X (.sh32 h pre) = (pl ++ createChecksum pre pl).map chOf) := by
  refine ⟨fun hl => ?_, fun hl => ?_, fun hl => ?_⟩
  · obtain ⟨pl, h1, _, _, _, _, h6⟩ := encodeAddress_cash X 0 0 h pre (Or.inl ⟨rfl, rfl, hl⟩)
    exact ⟨pl, h1, h6⟩
  · obtain ⟨pl, h1, _, _, _, _, h6⟩ := encodeAddress_cash X 1 8 h pre (Or.inr (Or.inl ⟨rfl, rfl, hl⟩))
    exact ⟨pl, h1, h6⟩
  · obtain ⟨pl, h1, _, _, _, _, h6⟩ := encodeAddress_cash X 2 11 h pre (Or.inr (Or.inr ⟨rfl, rfl, hl⟩))
    exact ⟨pl, h1, h6⟩

/-! ### 6. legacy Base58Check addresses -/

/-- **C01_legacy_roundtrip** (full). Legacy P2PKH / P2SH addresses of every network decode back to the
same value through the Base58Check stage; the earlier stages fall through because the string has 25…35
alphabet characters (no colon, not 42/61 long — so neither CashAddr attempt can succeed — and not
66/130 long). Only hypothesis on the double SHA-256: at least 4 output bytes (it has 32). -/
theorem C01_legacy_roundtrip (X : Ext) (hsha : ∀ x, 4 ≤ (X.sha256d x).length) :
    ∀ net ∈ nets, ∀ (h : Bytes) (a : Addr),
    (newLegacyPkh h net.pkhID = .ok a ∨ newLegacySh h net.shID = .ok a) →
    DecodeAddress X (EncodeAddress X a) net = .ok a ∧ Address.String X a = EncodeAddress X a ∧
      ScriptAddress X a = h ∧ IsForNet a net = true := by
  intro net hnet h a ha
  have hwf := nets_wf hnet
  have hids := nets_ids net hnet
  simp only [idsOKb, Bool.and_eq_true, Bool.not_eq_true', List.contains_iff_mem] at hids
  simp only [List.contains_eq_mem, decide_eq_false_iff_not] at hids
  obtain ⟨⟨⟨hp1, hp2⟩, hs1⟩, hs2⟩ := hids
  rcases ha with ha | ha
  · unfold newLegacyPkh at ha; split at ha; · cases ha
    rename_i hl; cases ha
    have hl : h.length = 20 := by simpa using hl
    have htake : h.take 20 = h := List.take_of_length_le (by omega)
    refine ⟨?_, rfl, rfl, by simp [IsForNet]⟩
    simp only [EncodeAddress, htake]
    rw [legacy_decode X net hwf h hl _ hsha]
    simp [hp1]
  · unfold newLegacySh at ha; split at ha; · cases ha
    rename_i hl; cases ha
    have hl : h.length = 20 := by simpa using hl
    have htake : h.take 20 = h := List.take_of_length_le (by omega)
    refine ⟨?_, rfl, rfl, by simp [IsForNet]⟩
    simp only [EncodeAddress, htake]
    rw [legacy_decode X net hwf h hl _ hsha]
    simp [hs1, hs2]

/-! ### 7. raw public keys -/

/-- **C01_pubkey_roundtrip** (full, under per-key `bchec` laws). Let `ser = X.serPub fmt pt` be the
serialisation of a point in format `fmt` (1 compressed, 0 uncompressed, 2 hybrid). If it parses back to
`pt`, is 33 or 65 bytes long and starts with a format byte of that format (02/03, 04, 06/07), then the
constructor returns `.pubKey fmt pt`, and its hex string — lower or upper case — decodes to the same
value on every network. The CashAddr attempts fall through (a 66/130-character string cannot carry a
42/61-symbol payload), whatever error they end in. -/
theorem C01_pubkey_roundtrip (X : Ext) (fmt : Nat) (pt : Bytes)
    (hparse : X.parsePub (X.serPub fmt pt) = some pt)
    (hlen : (X.serPub fmt pt).length = 33 ∨ (X.serPub fmt pt).length = 65)
    (hhead : fmtOfHead ((X.serPub fmt pt).headD 0) = some fmt) :
    ∀ net ∈ nets,
      newPubKey X (X.serPub fmt pt) net = .ok (.pubKey fmt pt net.pkhID) ∧
      (∀ r ∈ [Address.String X (.pubKey fmt pt net.pkhID),
              upperASCII (Address.String X (.pubKey fmt pt net.pkhID))],
        DecodeAddress X r net = .ok (.pubKey fmt pt net.pkhID)) ∧
      ScriptAddress X (.pubKey fmt pt net.pkhID) = X.serPub fmt pt ∧
      IsForNet (.pubKey fmt pt net.pkhID) net = true := by
  intro net hnet
  have hwf := nets_wf hnet
  have hnew : newPubKey X (X.serPub fmt pt) net = .ok (.pubKey fmt pt net.pkhID) := by
    rw [newPubKey_eq, hparse, hhead]
  obtain ⟨h1, h2⟩ := pubkey_decode X net hwf (X.serPub fmt pt) hlen
  refine ⟨hnew, ?_, rfl, by simp [IsForNet]⟩
  intro r hr
  simp only [Address.String, serialize, List.mem_cons, List.not_mem_nil, or_false] at hr
  rcases hr with rfl | rfl
  · rw [h1, hnew]
  · rw [h2, hnew]

/-- the format byte classification used above, spelled out -/
example : fmtOfHead 2 = some 1 ∧ fmtOfHead 3 = some 1 ∧ fmtOfHead 4 = some 0 ∧ fmtOfHead 6 = some 2 ∧
    fmtOfHead 7 = some 2 ∧ fmtOfHead 5 = none ∧ fmtOfHead 0 = none := by decide

/-! ### 10. non-vacuity and test vectors (tests, not the claim) -/

/-- a toy parameter pack satisfying every hypothesis used above (hash outputs of the right length, a
"compressed" key format: 0x02 ‖ 32 bytes) -/
def Xtoy : Ext where
  sha256d := fun _ => List.replicate 32 7
  hash160 := fun _ => List.replicate 20 1
  hash256 := fun _ => List.replicate 32 2
  parsePub := fun ser => if ser.headD 0 = 2 ∧ ser.length = 33 then some (ser.drop 1) else none
  serPub := fun _ pt => 2 :: pt

example : ∀ x, 4 ≤ (Xtoy.sha256d x).length := fun _ => by simp [Xtoy]
example : Xtoy.parsePub (Xtoy.serPub 1 (List.replicate 32 9)) = some (List.replicate 32 9) ∧
    ((Xtoy.serPub 1 (List.replicate 32 9)).length = 33 ∨ (Xtoy.serPub 1 (List.replicate 32 9)).length = 65) ∧
    fmtOfHead ((Xtoy.serPub 1 (List.replicate 32 9)).headD 0) = some 1 := by decide
example : mainNet ∈ nets ∧ simNet ∈ nets ∧ mainNet.slpPrefix ≠ [] ∧ simNet.slpPrefix = [] := by decide +kernel
example : newPkh (List.replicate 20 0) mainNet.cashPrefix = .ok (.pkh (List.replicate 20 0) mainNet.cashPrefix) ∧
    newSh32 (List.replicate 32 0) mainNet.slpPrefix = .ok (.sh32 (List.replicate 32 0) mainNet.slpPrefix) ∧
    newLegacySh (List.replicate 20 0) mainNet.shID = .ok (.legacySh (List.replicate 20 0) mainNet.shID) := by
  decide +kernel

/-- CashAddr specification vector: the all-zero 20-byte hash as P2PKH on mainnet -/
example : EncodeAddress Xtoy (.pkh (List.replicate 20 0) mainNet.cashPrefix)
    = Bytes.ofString "qqqqqqqqqqqqqqqqqqqqqqqqqqqqqqqqqqfnhks603" := by decide +kernel
example : DecodeAddress Xtoy (Bytes.ofString "bitcoincash:qqqqqqqqqqqqqqqqqqqqqqqqqqqqqqqqqqfnhks603") mainNet
    = .ok (.pkh (List.replicate 20 0) mainNet.cashPrefix) := by decide +kernel
example : DecodeAddress Xtoy (Bytes.ofString "QQQQQQQQQQQQQQQQQQQQQQQQQQQQQQQQQQFNHKS603") mainNet
    = .ok (.pkh (List.replicate 20 0) mainNet.cashPrefix) := by decide +kernel
/-- mixed case is rejected (falls through to Base58, which does not know '0') -/
example : DecodeAddress Xtoy (Bytes.ofString "bitcoincash:Qqqqqqqqqqqqqqqqqqqqqqqqqqqqqqqqqqfnhks603") mainNet
    = .error .unknownFormat := by decide +kernel
/-- P2SH32 (version byte 0x0b, 61 symbols) on regtest, and an SLP P2PKH string decoded via the retry -/
example : (EncodeAddress Xtoy (.sh32 (List.replicate 32 0xff) regTest.cashPrefix)).length = 61 := by
  decide +kernel
example : DecodeAddress Xtoy (EncodeAddress Xtoy (.pkh (List.replicate 20 0xab) mainNet.slpPrefix)) mainNet
    = .ok (.pkh (List.replicate 20 0xab) mainNet.slpPrefix) := by decide +kernel

/-! ### 11. the strings are the ones the specifications prescribe -/

/-- **C01_spec_strings** (full). For every prefix and every hash of 20 bytes (P2PKH, P2SH) or 32 bytes
(P2SH32), the string `EncodeAddress` returns is exactly the one the CashAddr specification prescribes, as
transcribed independently in `Bch.Spec.CashAddr` (regrouping on the big-endian number, reference `PolyMod`,
charset): type 0 / type 1 with the size code of the hash length — the 32-byte form has type 1 and size
code 3, i.e. version byte 0x0b. -/
theorem C01_spec_strings (X : Ext) (pre h : Bytes) :
    (h.length = 20 → some (EncodeAddress X (.pkh h pre)) = Spec.CashAddr.cashaddrEncode pre 0 h) ∧
    (h.length = 20 → some (EncodeAddress X (.sh h pre)) = Spec.CashAddr.cashaddrEncode pre 1 h) ∧
    (h.length = 32 → some (EncodeAddress X (.sh32 h pre)) = Spec.CashAddr.cashaddrEncode pre 1 h) := by
  obtain ⟨v0, v1, v2⟩ := Bch.Proofs.CashAddrSpec.versionByte_vals
  refine ⟨fun hl => ?_, fun hl => ?_, fun hl => ?_⟩
  · have := Bch.Proofs.CashAddrSpec.spec_string X 0 0 h pre (Or.inl ⟨rfl, rfl, hl⟩)
    rw [Spec.CashAddr.cashaddrEncode, hl, v0]; exact congrArg some this
  · have := Bch.Proofs.CashAddrSpec.spec_string X 1 8 h pre (Or.inr (Or.inl ⟨rfl, rfl, hl⟩))
    rw [Spec.CashAddr.cashaddrEncode, hl, v1]; exact congrArg some this
  · have := Bch.Proofs.CashAddrSpec.spec_string X 2 11 h pre (Or.inr (Or.inr ⟨rfl, rfl, hl⟩))
    rw [Spec.CashAddr.cashaddrEncode, hl, v2]; exact congrArg some this

/-- The pieces separately, for every input (no length restriction): the model's 8→5 regrouping is the
spec's number-level regrouping, and the model's checksum symbols are the spec's `PolyMod` groups. -/
theorem C01_spec_pieces (pre bs pl : Bytes) :
    convertBits bs 8 5 true = some ((Spec.CashAddr.regroup5 (bs.map UInt8.toNat)).map UInt8.ofNat) ∧
    (createChecksum pre pl).map UInt8.toNat = Spec.CashAddr.checksum pre (pl.map UInt8.toNat) :=
  ⟨Bch.Proofs.CashAddrSpec.convertBits_eq_regroup5 bs, Bch.Proofs.CashAddrSpec.createChecksum_eq pre pl⟩

/-- **legacy strings** (full): the legacy P2PKH / P2SH string of a 20-byte hash is
`Base58(version ‖ hash ‖ SHA256d(version ‖ hash)[0:4])`. -/
theorem C01_spec_strings_legacy (X : Ext) (h : Bytes) (id : UInt8) (hl : h.length = 20) :
    EncodeAddress X (.legacyPkh h id) = Spec.CashAddr.base58check X.sha256d id h ∧
    EncodeAddress X (.legacySh h id) = Spec.CashAddr.base58check X.sha256d id h := by
  have htake : h.take 20 = h := List.take_of_length_le (by omega)
  constructor <;>
    simp [EncodeAddress, htake, Spec.CashAddr.base58check, Base58.CheckEncode, Base58.checksum]

/-- the published test vectors of the CashAddr specification, evaluated on the SPEC transcription
(tests of the transcription, not the claim): 20-byte payload F5BF48B3…DAC9 -/
def specVec20 : Bytes :=
  [0xF5, 0xBF, 0x48, 0xB3, 0x97, 0xDA, 0xE7, 0x0B, 0xE8, 0x2B, 0x3C, 0xCA, 0x47, 0x93, 0xF8, 0xEB, 0x2B, 0x6C,
   0xDA, 0xC9]

example : Spec.CashAddr.cashaddrEncode (Bytes.ofString "bitcoincash") 0 specVec20
    = some (Bytes.ofString "qr6m7j9njldwwzlg9v7v53unlr4jkmx6eylep8ekg2") := by decide +kernel
example : Spec.CashAddr.cashaddrEncode (Bytes.ofString "bchtest") 1 specVec20
    = some (Bytes.ofString "pr6m7j9njldwwzlg9v7v53unlr4jkmx6eyvwc0uz5t") := by decide +kernel
example : Spec.CashAddr.cashaddrEncode (Bytes.ofString "pref") 1 specVec20
    = some (Bytes.ofString "pr6m7j9njldwwzlg9v7v53unlr4jkmx6ey65nvtks5") := by decide +kernel
example : Spec.CashAddr.cashaddrEncode (Bytes.ofString "prefix") 15 specVec20
    = some (Bytes.ofString "0r6m7j9njldwwzlg9v7v53unlr4jkmx6ey3qnjwsrf") := by decide +kernel
/-- 24-byte (192-bit) and 32-byte (256-bit) payloads of the specification's table -/
example : Spec.CashAddr.cashaddrEncode (Bytes.ofString "bitcoincash") 0
      [0x7A, 0xDB, 0xF6, 0xC1, 0x70, 0x84, 0xBC, 0x86, 0xC1, 0x70, 0x68, 0x27, 0xB4, 0x1A, 0x56, 0xF5, 0xCA, 0x32,
       0x86, 0x59, 0x25, 0xE9, 0x46, 0xEA]
    = some (Bytes.ofString "q9adhakpwzztepkpwp5z0dq62m6u5v5xtyj7j3h2ws4mr9g0") := by decide +kernel
example : Spec.CashAddr.cashaddrEncode (Bytes.ofString "bitcoincash") 0
      [0x31, 0x73, 0xEF, 0x66, 0x23, 0xC6, 0xB4, 0x8F, 0xFD, 0x1A, 0x3D, 0xCC, 0x0C, 0xC6, 0x48, 0x9B, 0x0A, 0x07,
       0xBB, 0x47, 0xA3, 0x7F, 0x47, 0xCF, 0xEF, 0x4F, 0xE6, 0x9D, 0xE8, 0x25, 0xC0, 0x60]
    = some (Bytes.ofString "qvch8mmxy0rtfrlarg7ucrxxfzds5pamg73h7370aa87d80gyhqxq5nlegake") := by decide +kernel
/-- sizes the version byte cannot express are refused by the spec encoder -/
example : Spec.CashAddr.cashaddrEncode (Bytes.ofString "bitcoincash") 0 [1, 2, 3] = none := by decide +kernel

/-- … and the same vectors through the MODEL (`EncodeAddress`), as `C01_spec_strings` says -/
example : EncodeAddress Xtoy (.pkh specVec20 (Bytes.ofString "bitcoincash"))
    = Bytes.ofString "qr6m7j9njldwwzlg9v7v53unlr4jkmx6eylep8ekg2" := by decide +kernel
example : EncodeAddress Xtoy (.sh specVec20 (Bytes.ofString "bchtest"))
    = Bytes.ofString "pr6m7j9njldwwzlg9v7v53unlr4jkmx6eyvwc0uz5t" := by decide +kernel
/-- non-vacuity of the length hypotheses -/
example : specVec20.length = 20 ∧ (List.replicate 32 (0 : UInt8)).length = 32 := by decide


/-! ## 12. Cash ↔ SLP conversion and the P2PKH address of a public key -/

/-- `ConvertCashToSlpAddress` then `ConvertSlpToCashAddress` gives back the cash form of the same hash, for the two
    convertible kinds; every other kind is refused by both directions. -/
theorem C01_convert_roundtrip (net : Net) (h pre : Bytes) (hl : h.length = 20) :
    (ConvertCashToSlp (.pkh h pre) net = .ok (.pkh h net.slpPrefix) ∧
     ConvertSlpToCash (.pkh h net.slpPrefix) net = .ok (.pkh h net.cashPrefix)) ∧
    (ConvertCashToSlp (.sh h pre) net = .ok (.sh h net.slpPrefix) ∧
     ConvertSlpToCash (.sh h net.slpPrefix) net = .ok (.sh h net.cashPrefix)) := by
  simp [ConvertCashToSlp, ConvertSlpToCash, newPkh, newSh, hl]

theorem C01_convert_refuses (net : Net) (a : Addr)
    (hk : ∀ h pre, a ≠ .pkh h pre ∧ a ≠ .sh h pre) :
    ConvertCashToSlp a net = .error .other ∧ ConvertSlpToCash a net = .error .other := by
  cases a <;> simp_all [ConvertCashToSlp, ConvertSlpToCash]

/-- the P2PKH address derived from a public-key address carries the Hash160 of the key's serialisation and the cash
    prefix that `paramsFromNetID` selects for the key's legacy id -/
theorem C01_pubkey_pkh (X : Ext) (fmt : Nat) (pt : Bytes) (id : UInt8)
    (hh : (X.hash160 (X.serPub fmt pt)).length = 20) :
    AddressPubKeyHash X (.pubKey fmt pt id) =
      some (.pkh (X.hash160 (X.serPub fmt pt)) (prefixFromNetID id)) := by
  simp [AddressPubKeyHash, serialize, hh]

example : prefixFromNetID 111 = Bytes.ofString "bchtest" ∧ prefixFromNetID 63 = Bytes.ofString "bchsim" ∧
    prefixFromNetID 0 = Bytes.ofString "bitcoincash" ∧ prefixFromNetID 77 = Bytes.ofString "bitcoincash" := by
  decide +kernel

end Bch.Props.C01
