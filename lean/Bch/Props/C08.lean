import Bch.Props.C08Gcs
import Bch.Props.C08Addr
import Bch.Proofs.Checked
import Bch.Proofs.CheckedBech32
/-
C08 — no parser panics, hangs or over-allocates on untrusted input.

The total models (`Bch/Model/*.lean`) cannot express a panic (`getD`, `take`, `drop`, `x % 0 = x`).
`Bch/Proofs/Checked.lean` therefore holds a *fault-tracking transcription* `fooC` of every entry point:
each Go operation that can panic (index, slice, `%`, type assertion, nil dereference, `make`) is a checked
primitive returning `Except Fault`, cited with its Go line. For each entry point this file states

* `fooC_no_fault  : ∃ r, fooC x = .ok r`          — for ALL inputs (hypotheses only where the Go API has a
                                                     documented precondition; each is justified below),
* `fooC_eq_model  : fooC x = .ok (Model.foo x)`    — the total model is exactly what the checked code computes,
* negative examples: the transcription *without* the guard faults (so the theorems are not vacuous),

plus the step bounds for the two recursive/looping decoders (merkle, GCS) and the allocation bound for
`HashMatchAny`. Collected in `C08_all`. The bech32 package (`Bch/Proofs/CheckedBech32.lean`: `Decode`,
`Encode`, `ConvertBits` with step and allocation bounds) is section 10, collected in `C08_bech32_all`.

Not covered here (stated, not hidden): time bounds for the remaining (single-pass) parsers, which have no
loop other than `for i < len`; `GetMatchedIndices` (exponential re-checking, fixed by e69b75a, see C10);
`convertBase64` on the *marshalling* side still uses the unchecked `s.(string)`, its input is produced by
the protobuf marshaller from a typed message (homogeneous arrays: `convStrs_unchecked_homogeneous`).
-/
namespace Bch.Props.C08
open Bch Bch.Model Bch.Proofs.Checked

/-! ## the checked primitives fault exactly outside the Go domain -/

/-- `l[i]` -/
theorem idx_spec {α : Type} (l : List α) (i : Nat) :
    (∀ h : i < l.length, idx? l i = .ok l[i]) ∧ (l.length ≤ i → idx? l i = .error .indexOOB) :=
  ⟨fun h => idx?_ok h, idx?_oob⟩

/-- `l[lo:hi]` with signed bounds: fine iff `0 ≤ lo ≤ hi ≤ len` -/
theorem slice_spec {α : Type} (l : List α) (lo hi : Int) :
    (0 ≤ lo → lo ≤ hi → hi ≤ l.length → slice? l lo hi = .ok ((l.take hi.toNat).drop lo.toNat)) ∧
    (lo < 0 ∨ hi < lo ∨ (l.length : Int) < hi → slice? l lo hi = .error .sliceOOB) :=
  ⟨slice?_ok, slice?_oob⟩

/-- `a % b` -/
theorem mod_spec (a b : Nat) : (b ≠ 0 → mod? a b = .ok (a % b)) ∧ mod? a 0 = .error .divZero :=
  ⟨mod?_ok, mod?_zero a⟩

example : slice? [1, 2, 3] 0 ((3 : Int) - 8) = .error .sliceOOB := by decide
example : slice? [1, 2, 3] 1 3 = .ok [2, 3] := by decide
example : idx? [1, 2, 3] 3 = .error .indexOOB := by decide

/-! ## 1. `DecodeCashAddress`, `checkDecodeCashAddress` (address.go) -/

/-- Every byte string: `str[i]` in the three loops, `CharsetRev[c]` after the `c > 127` test, `values[i] = …`,
`make([]byte, len(str)-1-prefixSize)` and `values[:len(values)-8]` are all in range. No hypothesis. -/
theorem DecodeCashAddressC_no_fault (str : Bytes) : ∃ r, DecodeCashAddressC str = .ok r :=
  Proofs.Checked.DecodeCashAddressC_no_fault str

theorem DecodeCashAddressC_eq_model (str : Bytes) :
    DecodeCashAddressC str = .ok (CashAddr.DecodeCashAddress str) :=
  Proofs.Checked.DecodeCashAddressC_eq_model str

/-- `data[0]`, `data[1:33]`, `data[1:21]` after the length switch. No hypothesis. -/
theorem checkDecodeCashAddressC_no_fault (input : Bytes) : ∃ r, checkDecodeCashAddressC input = .ok r :=
  Proofs.Checked.checkDecodeCashAddressC_no_fault input

theorem checkDecodeCashAddressC_eq_model (input : Bytes) :
    checkDecodeCashAddressC input = .ok (CashAddr.checkDecodeCashAddress input) :=
  Proofs.Checked.checkDecodeCashAddressC_eq_model input

/-- NEGATIVE (the guard of fix 662835b matters): the same transcription without the `len(values) < 8` test
faults with `sliceOOB` exactly on the inputs the fixed code rejects as "shorter than its checksum". -/
theorem DecodeCashAddress_prefix_fault_iff (str : Bytes) :
    DecodeCashAddressPreFix str = .error .sliceOOB ↔ CashAddr.DecodeCashAddress str = .error .tooShort :=
  DecodeCashAddressPreFix_fault_iff str

/-- NEGATIVE, concrete: "aaby:tsyerga" — seven payload symbols whose checksum verifies -/
theorem DecodeCashAddress_prefix_witness :
    DecodeCashAddressPreFix [97,97,98,121,58,116,115,121,101,114,103,97] = .error .sliceOOB :=
  DecodeCashAddressPreFix_witness

-- the witness is the string from the defect report, its checksum does verify, and the fixed code errors
example : Bytes.ofString "aaby:tsyerga" = [97,97,98,121,58,116,115,121,101,114,103,97] := by decide +kernel
example : CashAddr.verifyChecksum [97,97,98,121] [11,16,4,25,3,8,29] = true := by decide +kernel
example : ([116,115,121,101,114,103,97] : Bytes).mapM CashAddr.charsetRev = some [11,16,4,25,3,8,29] := by
  decide +kernel
example : DecodeCashAddressC [97,97,98,121,58,116,115,121,101,114,103,97] = .ok (.error .tooShort) := by
  decide +kernel
-- the success path of the checked code is inhabited too (a valid mainnet address)
example : (match checkDecodeCashAddressC (Bytes.ofString "bitcoincash:qpm2qsznhks23z7629mms6s4cwef74vcwvy22gdx6a") with
    | .ok (_, .ok (h, 0)) => h.length == 20 | _ => false) = true := by decide +kernel

/-! ## 2. `base58.CheckDecode`, `DecodeWIF` -/

/-- `decoded[0]`, `decoded[len-4:]`, `decoded[:len-4]`, `decoded[1:len-4]` behind `len(decoded) < 5`.
`H` (double SHA-256) is arbitrary: the hash is a `[32]byte` array sliced with constants. -/
theorem CheckDecodeC_no_fault (H : Bytes → Bytes) (s : Bytes) : ∃ r, CheckDecodeC H s = .ok r :=
  Proofs.Checked.CheckDecodeC_no_fault H s

theorem CheckDecodeC_eq_model (H : Bytes → Bytes) (s : Bytes) :
    CheckDecodeC H s = .ok (Base58.CheckDecode H s) :=
  Proofs.Checked.CheckDecodeC_eq_model H s

/-- NEGATIVE: without the length test the empty string faults on `decoded[0]` -/
theorem CheckDecode_noGuard_witness (H : Bytes → Bytes) : CheckDecodeG false H [] = .error .indexOOB :=
  CheckDecodeG_false_witness H

/-- `decoded[33]`, `decoded[:34]`/`[:33]`, `DoubleHashB(tosum)[:4]`, `decoded[decodedLen-4:]`, `decoded[0]`,
`decoded[1:33]` behind the `switch decodedLen`. Hypothesis `hH`: the contract of the external primitive
`chainhash.DoubleHashB` (it returns 32 bytes; only `≥ 4` is needed for `[:4]`). -/
theorem DecodeWIFC_no_fault (H : Bytes → Bytes) (hH : ∀ b, 4 ≤ (H b).length) (s : Bytes) :
    ∃ r, DecodeWIFC H s = .ok r :=
  Proofs.Checked.DecodeWIFC_no_fault H hH s

theorem DecodeWIFC_eq_model (H : Bytes → Bytes) (hH : ∀ b, 4 ≤ (H b).length) (s : Bytes) :
    DecodeWIFC H s = .ok (Wif.DecodeWIF H s) :=
  Proofs.Checked.DecodeWIFC_eq_model H hH s

-- non-vacuity of `hH`
example : ∀ b : Bytes, 4 ≤ ((fun _ => List.replicate 32 (0 : UInt8)) b).length := by intro b; simp

/-! ## 3. `hdkeychain.NewKeyFromString` -/

/-- `decoded[:len-4]`, `decoded[len-4:]`, `DoubleHashB(payload)[:4]`, `payload[:4]`, `payload[4:5][0]`,
`[5:9]`, `[9:13]`, `[13:45]`, `[45:78]`, `keyData[0]`, `keyData[1:]` behind `len(decoded) != 82`.
Hypothesis: as for `DecodeWIF`. -/
theorem NewKeyFromStringC_no_fault {Pt : Type} (X : HDKey.HDExt Pt) (hH : ∀ b, 4 ≤ (X.sha256d b).length)
    (s : Bytes) : ∃ r, NewKeyFromStringC X s = .ok r :=
  Proofs.Checked.NewKeyFromStringC_no_fault X hH s

theorem NewKeyFromStringC_eq_model {Pt : Type} (X : HDKey.HDExt Pt) (hH : ∀ b, 4 ≤ (X.sha256d b).length)
    (s : Bytes) : NewKeyFromStringC X s = .ok (HDKey.NewKeyFromString X s) :=
  Proofs.Checked.NewKeyFromStringC_eq_model X hH s

-- non-vacuity of the hypothesis: a parameter pack whose hash returns 32 bytes
example : ∃ X : HDKey.HDExt Unit, ∀ b, 4 ≤ (X.sha256d b).length :=
  ⟨{ hmac512 := fun _ _ => [], hash160 := fun _ => [], sha256d := fun _ => List.replicate 32 0, n := 7,
     mulG := fun _ => none, add := fun _ _ => none, parse := fun _ => none, serC := fun _ => [], serInf := [] },
   by intro b; simp⟩

/-! ## 4. bloom `hash` / `matches` / `add`

Precondition `m.bits.length ≤ 36000`: "filter-load messages within the wire limits" in the property
statement — `wire.MaxFilterLoadFilterSize`, enforced by `MsgFilterLoad.BchDecode` (and by `NewFilter`'s
clamp, C09 `sizing`). -/

/-- Exactly where the limit is needed: `uint32(len) << 3` equals `8·len` (no wrap), hence the divisor of
`mm % …` is non-zero for a non-empty array and the bit index satisfies `idx >> 3 < len`. (`len < 2^29`
suffices.) -/
theorem bloom_hash_ok (len : Nat) (tweak : UInt32) (i : Nat) (data : Bytes) (h0 : 0 < len) (h : len < 2 ^ 29) :
    hashC len tweak i data = .ok (Proofs.Bloom.idxOf tweak len i data) ∧
      Proofs.Bloom.idxOf tweak len i data >>> 3 < len :=
  hashC_ok len tweak i data h0 h

/-- NEGATIVE (limit): at `2^29` bytes the shift wraps to 0 and the hash divides by zero -/
theorem bloom_hash_wraps (tweak : UInt32) (i : Nat) (data : Bytes) :
    hashC (2 ^ 29) tweak i data = .error .divZero := hashC_wraps tweak i data

/-- NEGATIVE (fix e6b8a4b): on an empty bit array the hash divides by zero -/
theorem bloom_hash_empty (tweak : UInt32) (i : Nat) (data : Bytes) :
    hashC 0 tweak i data = .error .divZero := hashC_empty tweak i data

theorem matchesMsgC_no_fault (m : Bloom.Msg) (h : m.bits.length ≤ 36000) (data : Bytes) :
    ∃ r, matchesMsgC m data = .ok r := Proofs.Checked.matchesMsgC_no_fault m h data

theorem matchesMsgC_eq_model (m : Bloom.Msg) (h : m.bits.length ≤ 36000) (data : Bytes) :
    matchesMsgC m data = .ok (Bloom.matchesMsg m data) :=
  Proofs.Checked.matchesMsgC_eq_model m (by omega) data

theorem addMsgC_no_fault (m : Bloom.Msg) (h : m.bits.length ≤ 36000) (data : Bytes) :
    ∃ r, addMsgC m data = .ok r := Proofs.Checked.addMsgC_no_fault m h data

theorem addMsgC_eq_model (m : Bloom.Msg) (h : m.bits.length ≤ 36000) (data : Bytes) :
    addMsgC m data = .ok (Bloom.addMsg m data) :=
  Proofs.Checked.addMsgC_eq_model m (by omega) data

/-- with the nil test: loaded or not -/
theorem MatchesC_eq_model (f : Bloom.Filter) (h : ∀ m, f = some m → m.bits.length ≤ 36000) (data : Bytes) :
    MatchesC f data = .ok (Bloom.Matches f data) := Proofs.Checked.MatchesC_eq_model f h data

theorem addC_eq_model (f : Bloom.Filter) (h : ∀ m, f = some m → m.bits.length ≤ 36000) (data : Bytes) :
    addC f data = .ok (Bloom.add f data) := Proofs.Checked.addC_eq_model f h data

/-- NEGATIVE (fix e6b8a4b): `LoadFilter(filter=[], nHash≥1).Matches(x)` / `.Add(x)` divided by zero -/
theorem bloom_noGuard_fault (m : Bloom.Msg) (he : m.bits = []) (hn : 0 < m.nHash) (data : Bytes) :
    matchesG false m data = .error .divZero ∧ addG false m data = .error .divZero :=
  ⟨matchesG_false_fault m he hn data, addG_false_fault m he hn data⟩

-- non-vacuity: the empty filter (guard branch), a one-byte filter (loop branch), the largest legal size
example : (⟨[], 1, 0, 0⟩ : Bloom.Msg).bits.length ≤ 36000 ∧ (⟨[], 1, 0, 0⟩ : Bloom.Msg).bits = [] ∧
    0 < (⟨[], 1, 0, 0⟩ : Bloom.Msg).nHash := by decide
example : (⟨[0], 2, 5, 0⟩ : Bloom.Msg).bits.length ≤ 36000 := by decide
example : (⟨List.replicate 36000 0, 50, 0, 0⟩ : Bloom.Msg).bits.length ≤ 36000 := by
  show (List.replicate 36000 (0 : UInt8)).length ≤ 36000
  rw [List.length_replicate]

/-! ## 5. merkle `NewMerkleBlockFromMsg` / `ExtractMatches` / `traverseAndExtract` -/

section Merkle
variable {H : Type} [DecidableEq H]

/-- `msg.Flags[i/8]`, `bits[i] = …` for `i < 8·len(Flags)` -/
theorem unpackFlagsC_eq_model (flags : List UInt8) : unpackFlagsC flags = .ok (Merkle.unpackFlags flags) :=
  Proofs.Checked.unpackFlagsC_eq_model flags

/-- `m.bits[m.bitsUsed]`, `m.finalHashes[m.hashesUsed]` behind the two cursor tests; any tree shape,
any state, any `numTx`. No hypothesis. -/
theorem traverseC_no_fault (comb : H → H → H) (zero : H) (n : Nat) (bits : Array Bool) (hashes : Array H)
    (h pos : Nat) (st : Merkle.Ext H) : ∃ r, traverseC comb zero n bits hashes h pos st = .ok r :=
  Proofs.Checked.traverseC_no_fault comb zero n bits hashes h pos st

theorem traverseC_eq_model (comb : H → H → H) (zero : H) (n : Nat) (bits : Array Bool) (hashes : Array H)
    (h pos : Nat) (st : Merkle.Ext H) :
    traverseC comb zero n bits hashes h pos st = .ok (Merkle.traverse comb zero n bits hashes h pos st) :=
  Proofs.Checked.traverseC_eq_model comb zero n bits hashes h pos st

/-- the whole message path, for every message (counts 0, > MaxTxnCount, more hashes than bits, …) -/
theorem extractMsgC_no_fault (comb : H → H → H) (zero : H) (msg : Merkle.Msg H) :
    ∃ r, extractMsgC comb zero msg = .ok r := Proofs.Checked.extractMsgC_no_fault comb zero msg

theorem extractMsgC_eq_model (comb : H → H → H) (zero : H) (msg : Merkle.Msg H) :
    extractMsgC comb zero msg = .ok (Merkle.extractMsg comb zero msg) :=
  Proofs.Checked.extractMsgC_eq_model comb zero msg

/-- NEGATIVE: each cursor test is needed -/
theorem traverse_noGuard_faults (comb : H → H → H) (zero : H) (n : Nat) (bits : Array Bool) (hashes : Array H)
    (pos : Nat) (st : Merkle.Ext H) :
    (∀ h, bits.size ≤ st.bitsUsed → traverseG false true comb zero n bits hashes h pos st = .error .indexOOB) ∧
    (st.bitsUsed < bits.size → hashes.size ≤ st.hashesUsed →
      traverseG true false comb zero n bits hashes 0 pos st = .error .indexOOB) :=
  ⟨fun h hb => traverseG_noBitGuard_fault comb zero n bits hashes h pos st hb,
   fun hb hh => traverseG_noHashGuard_fault comb zero n bits hashes pos st hb hh⟩

example : traverseG false true (fun a _ => a) 0 1 #[] #[(1 : Nat)] 0 0 {} = .error .indexOOB := rfl
example : traverseG true false (fun a _ => a) 0 1 #[true] (#[] : Array Nat) 0 0 {} = .error .indexOOB := rfl

/-- STEP BOUND. `traverseCalls` counts the invocations of `traverseAndExtract` along the run (it keeps
recursing after `bad` is latched, but a call that finds the bit cursor exhausted has no children):
calls ≤ 2·(bits consumed by this call) + 1 ≤ 2·(bits left) + 1 — for every height, position, `numTx`. -/
theorem C08_merkle_steps (comb : H → H → H) (zero : H) (n : Nat) (bits : Array Bool) (hashes : Array H)
    (h pos : Nat) (st : Merkle.Ext H) :
    traverseCalls comb zero n bits hashes h pos st
      ≤ 2 * ((Merkle.traverse comb zero n bits hashes h pos st).2.bitsUsed - st.bitsUsed) + 1 ∧
    traverseCalls comb zero n bits hashes h pos st ≤ 2 * (bits.size - st.bitsUsed) + 1 :=
  traverse_steps comb zero n bits hashes h pos st

/-- for a message: at most `16·len(Flags) + 1` invocations whatever `numTx` claims (linear in the input);
the height loop before it runs at most 33 times by construction (`Merkle.height`). -/
theorem C08_merkle_steps_msg (comb : H → H → H) (zero : H) (msg : Merkle.Msg H) :
    traverseCalls comb zero msg.numTx (Merkle.unpackFlags msg.flags).toArray msg.hashes.toArray
        (Merkle.height msg.numTx) 0 {} ≤ 16 * msg.flags.length + 1 :=
  extractMsg_steps comb zero msg

end Merkle

-- the count is not trivially 1: a three-node tree is visited three times
example : traverseCalls (fun a b => a + b) 0 2 #[true, true, false] #[(5 : Nat), 6] 1 0 {} = 3 := by decide

/-! ## 6. GCS readers -/

/-- `values[queryIndex]` behind `queryIndex == querySize` (also: the inner `for {}` terminates — running out
of the fuel `querySize - queryIndex + 1` is reported as a fault). Every filter (any `N`, `P`, bytes),
every query list. No hypothesis. -/
theorem ZipMatchAnyC_no_fault (sip : Bytes → UInt64) (f : Gcs.Filter) (data : List Bytes) :
    ∃ r, ZipMatchAnyC sip f data = .ok r := Proofs.Checked.ZipMatchAnyC_no_fault sip f data

theorem ZipMatchAnyC_eq_model (sip : Bytes → UInt64) (f : Gcs.Filter) (data : List Bytes) :
    ZipMatchAnyC sip f data = .ok (Gcs.ZipMatchAny sip f data) :=
  Proofs.Checked.ZipMatchAnyC_eq_model sip f data

/-- `Match`, `HashMatchAny`, `readFullUint64` contain no panicking operation (their transcription is the
model); `MatchAny` dispatches -/
theorem MatchAnyC_eq_model (sip : Bytes → UInt64) (f : Gcs.Filter) (data : List Bytes) :
    MatchAnyC sip f data = .ok (Gcs.MatchAny sip f data) := Proofs.Checked.MatchAnyC_eq_model sip f data

/-- NEGATIVE: without the `queryIndex == querySize` test the cursor runs off the query list -/
theorem zip_noGuard_witness : zipAdvanceG false [1] 5 2 0 = .error .indexOOB := zipAdvanceG_noGuard_fault

/-- STEP BOUND. A successful `readFullUint64` consumes at least `p + 1 ≥ 1` bits; hence the loops of
`Match` and `ZipMatchAny` get at most `min N (8·len(data))` values from the stream, and `HashMatchAny`'s
decode-until-EOF loop at most `8·len(data)` — whatever `N` claims. (The unary loop inside one read is
bounded by the bits that read consumes, so the total bit-level work is ≤ the stream length too.) -/
theorem C08_gcs_steps (p : Nat) :
    (∀ bs r, Gcs.readFull p bs = some r → r.2.length + p + 1 ≤ bs.length) ∧
    (∀ term n bs v, matchReads p term n bs v ≤ n ∧ matchReads p term n bs v ≤ bs.length) ∧
    (∀ n bs v qs, zipReads p n bs v qs ≤ n ∧ zipReads p n bs v qs ≤ bs.length) ∧
    (∀ fuel bs last, (Gcs.decodeAll p fuel bs last).length ≤ bs.length) ∧
    (∀ data : Bytes, (Gcs.unpackBits data).length = 8 * data.length) :=
  ⟨readFull_length p, fun term n bs v => matchReads_le p term n bs v, fun n bs v qs => zipReads_le p n bs v qs,
   decodeAll_length_le p, unpackBits_length⟩

/-- the cursor of the inner loop of `ZipMatchAny` only moves forward and stays within the query list:
over a whole run it is advanced at most `len(data)` times -/
theorem C08_gcs_zip_cursor (values : List UInt64) (value : UInt64) (qi : Nat) (h : qi ≤ values.length) :
    ∃ qi', qi ≤ qi' ∧ qi' ≤ values.length ∧
      zipAdvanceG true values value (values.length - qi + 1) qi
        = .ok ((Gcs.zipAdvance value (values.drop qi)).1, qi') := by
  obtain ⟨qi', a, b, c, _⟩ := zipAdvanceC_eq values value (values.length - qi + 1) qi h (by omega)
  exact ⟨qi', a, b, c⟩

/-- ALLOCATION. The number of values `HashMatchAny` decodes into its map is at most `8·len(data)`,
independently of the declared element count `f.n` (which may be `2^32-1` for a 3-byte filter), and the
size hint of fix ccc0aee obeys the same bound. The model's fuel `bits+1` never truncates the loop. -/
theorem C08_gcs_alloc (f : Gcs.Filter) :
    (Gcs.decodeAll f.p ((Gcs.unpackBits f.data).length + 1) (Gcs.unpackBits f.data) 0).length ≤ 8 * f.data.length ∧
    sizeHint f ≤ 8 * f.data.length ∧
    (∀ fuel, (Gcs.unpackBits f.data).length < fuel →
      Gcs.decodeAll f.p (fuel + 1) (Gcs.unpackBits f.data) 0 = Gcs.decodeAll f.p fuel (Gcs.unpackBits f.data) 0) := by
  refine ⟨?_, ?_, fun fuel h => decodeAll_fuel_suffices f.p fuel _ 0 h⟩
  · exact Nat.le_trans (decodeAll_length_le f.p _ (Gcs.unpackBits f.data) 0)
      (by rw [unpackBits_length] <;> try exact Nat.le_refl _)
  · unfold sizeHint; omega

-- the degenerate filter of the defect report: N = 2^32-1 declared, one data byte
example : sizeHint ⟨2^32 - 1, 19, 0, [0]⟩ ≤ 8 := by decide

/-! ## 7. `Block.Tx(i)` -/

/-- `b.transactions[txNum]` (read twice, written once) and `b.msgBlock.Transactions[txNum]` behind the range
test. Hypothesis: the cache invariant (`len(b.transactions) ∈ {0, numTx}` is its field `len`), which holds
in every reachable state — see the two corollaries. -/
theorem getTxC_no_fault (W : BlockCache.Wire) (s : BlockCache.St) (hI : Proofs.BlockCache.Inv W s) (i : Int) :
    ∃ r, getTxC W s i = .ok r := Proofs.Checked.getTxC_no_fault W s hI i

theorem getTxC_eq_model (W : BlockCache.Wire) (s : BlockCache.St) (hI : Proofs.BlockCache.Inv W s) (i : Int) :
    getTxC W s i = .ok (BlockCache.getTx W s i) := Proofs.Checked.getTxC_eq_model W s hI.len i

/-- every state reachable by any call sequence from `NewBlock` (message) or `NewBlockFromBytes`, every
index incl. negative ones -/
theorem getTxC_no_fault_reachable (W : BlockCache.Wire) (calls : List BlockCache.Call) (i : Int) :
    (∃ r, getTxC W (Proofs.BlockCache.run W BlockCache.initMsg calls).1 i = .ok r) ∧
    (∃ r, getTxC W (Proofs.BlockCache.run W (BlockCache.initBytes W.ser) calls).1 i = .ok r) :=
  ⟨getTxC_no_fault_reachable_msg W calls i, getTxC_no_fault_reachable_bytes W calls i⟩

/-- NEGATIVE: without the range test a negative index, and an index ≥ `numTx`, fault -/
theorem getTx_noGuard_faults (W : BlockCache.Wire) (s : BlockCache.St) (i : Int) :
    (i < 0 → getTxG false W s i = .error .indexOOB) ∧
    ((BlockCache.numTx W : Int) ≤ i → getTxG false W BlockCache.initMsg i = .error .indexOOB) :=
  ⟨getTxG_false_neg W s i, getTxG_false_past W i⟩

/-- NEGATIVE: the invariant is needed — a slot slice of the wrong length faults despite the range test -/
theorem getTx_bad_state_witness :
    getTxC ⟨[], [], [[1],[2]], []⟩ { txs := some [none] } 1 = .error .indexOOB := getTxC_bad_state

/-! ## 8. JSON `convertHex` -/

/-- every JSON value (heterogeneous arrays at any depth, nulls in maps, empty arrays): `d[0]` is behind
`len(d) > 0` and the assertion is the comma-ok form. No hypothesis. -/
theorem convertHexC_no_fault (conv : Bytes → Bytes) (j : JsonHex.J) : ∃ r, convertHexC conv j = .ok r :=
  Proofs.Checked.convertHexC_no_fault conv j

theorem convertHexC_eq_model (conv : Bytes → Bytes) (j : JsonHex.J) :
    convertHexC conv j = .ok (JsonHex.convertHex conv j) := Proofs.Checked.convertHexC_eq_model conv j

/-- NEGATIVE (labelled): the loop as written before fix 5b940ce faults on `["..", 1]` — in the model's own
pre-fix function, in the checked transcription, and nested as `{"k":["..",1]}` -/
theorem convStrs_unchecked_witness (conv : Bytes → Bytes) (a k : Bytes) :
    JsonHex.convStrsUnchecked conv [.str a, .num 1] = .error .badAssert ∧
    convertHexG conv false (.arr [.str a, .num 1]) = .error .badAssert ∧
    convertHexG conv false (.obj [(k, .arr [.str a, .num 1])]) = .error .badAssert :=
  ⟨rfl, convertHexG_false_witness conv a, convertHexG_false_witness_nested conv k a⟩

/-- the unchecked loop is safe on homogeneous string arrays (what `convertBase64` sees when marshalling) -/
theorem convStrs_unchecked_homogeneous (conv : Bytes → Bytes) (l : List Bytes) :
    convStrsG conv false (l.map .str) = .ok (l.map fun s => .str (conv s)) :=
  convStrsG_false_homogeneous conv l

-- the fixed code on the former crasher: the number is skipped
example : convertHexC (fun s => s ++ [0]) (.arr [.str [1], .num 1]) = .ok (.arr [.str [1, 0], .num 1]) := rfl

/-! ## 9. all entry points -/

/-- No entry point of C08 panics: every checked transcription returns a value for every input
(under the stated API preconditions only). -/
theorem C08_all :
    (∀ str, ∃ r, DecodeCashAddressC str = .ok r) ∧
    (∀ input, ∃ r, checkDecodeCashAddressC input = .ok r) ∧
    (∀ H s, ∃ r, CheckDecodeC H s = .ok r) ∧
    (∀ H, (∀ b, 4 ≤ (H b).length) → ∀ s, ∃ r, DecodeWIFC H s = .ok r) ∧
    (∀ (Pt : Type) (X : HDKey.HDExt Pt), (∀ b, 4 ≤ (X.sha256d b).length) → ∀ s, ∃ r, NewKeyFromStringC X s = .ok r) ∧
    (∀ f : Bloom.Filter, (∀ m, f = some m → m.bits.length ≤ 36000) →
      ∀ data, (∃ r, MatchesC f data = .ok r) ∧ (∃ r, addC f data = .ok r)) ∧
    (∀ (H : Type) [DecidableEq H] (comb : H → H → H) zero (msg : Merkle.Msg H), ∃ r, extractMsgC comb zero msg = .ok r) ∧
    (∀ sip f data, ∃ r, MatchAnyC sip f data = .ok r) ∧
    (∀ sip f data, ∃ r, ZipMatchAnyC sip f data = .ok r) ∧
    (∀ W calls i, ∃ r, getTxC W (Proofs.BlockCache.run W BlockCache.initMsg calls).1 i = .ok r) ∧
    (∀ conv j, ∃ r, convertHexC conv j = .ok r) :=
  ⟨DecodeCashAddressC_no_fault, checkDecodeCashAddressC_no_fault, CheckDecodeC_no_fault, DecodeWIFC_no_fault,
   fun _ X hH s => NewKeyFromStringC_no_fault X hH s,
   fun f h data => ⟨⟨_, MatchesC_eq_model f h data⟩, ⟨_, addC_eq_model f h data⟩⟩,
   fun _ _ comb zero msg => extractMsgC_no_fault comb zero msg,
   fun sip f data => ⟨_, MatchAnyC_eq_model sip f data⟩, ZipMatchAnyC_no_fault,
   fun W calls i => (getTxC_no_fault_reachable W calls i).1, convertHexC_no_fault⟩

/-! ## 10. bech32 `Decode` / `Encode` / `ConvertBits` (/repo/bech32/bech32.go)

Transcriptions in `Bch/Proofs/CheckedBech32.lean`. `Decode`/`Encode` and their helpers (`toBytes`,
`toChars`, `bech32Checksum`, `bech32VerifyChecksum`, `bech32Polymod`, `bech32HrpExpand`) index and slice;
`ConvertBits` does neither, what untrusted widths can do to it is make its inner loop spin forever while
appending to the result. -/

/-- Every byte string: `bech[i]` in the character loop, `bech[:one]` and `bech[one+1:]` with
`one = strings.LastIndexByte(bech, '1')` (an `int`, `-1` if absent), `chars[i]` in `toBytes`, `hrp[i]`,
`integers[i] = …` and `gen[i]` in the checksum, `bech[len(bech)-6:]`, `decoded[:len(decoded)-6]` (twice) and
`charset[b]` on the checksum-failure path are all in range. No hypothesis. -/
theorem bech32_DecodeC_no_fault (bech : Bytes) : ∃ r, Proofs.CheckedBech32.DecodeC bech = .ok r :=
  Proofs.CheckedBech32.DecodeC_no_fault bech

/-- … and the checked code computes the model's `Decode`; where the model returns an error the checked
code returns `.ok (.error …)`, not a fault -/
theorem bech32_DecodeC_eq_model (bech : Bytes) :
    Proofs.CheckedBech32.DecodeC bech = .ok (Bech32.Decode bech) :=
  Proofs.CheckedBech32.DecodeC_eq_model bech

/-- NEGATIVE, general (the separator test matters): a string of legal length, printable, lower-case and
without `'1'` makes `bech[:one]` fault (`one = -1`) once the `one < 1 || one+7 > len(bech)` test is dropped,
with or without the length test. -/
theorem bech32_Decode_noSepGuard_fault (gLen : Bool) (bech : Bytes) (hlen : 8 ≤ bech.length ∧ bech.length ≤ 90)
    (hch : bech.any (fun c => c < 33 ∨ c > 126) = false) (hlow : bech = bech.map Bech32.toLower)
    (h1 : (49 : UInt8) ∉ bech) : Proofs.CheckedBech32.DecodeG gLen false bech = .error .sliceOOB :=
  Proofs.CheckedBech32.DecodeG_noSep_fault gLen bech hlen hch hlow h1

-- non-vacuity of the hypotheses: "abcdefgh"
example : (8 ≤ ([97, 98, 99, 100, 101, 102, 103, 104] : Bytes).length ∧
      ([97, 98, 99, 100, 101, 102, 103, 104] : Bytes).length ≤ 90) ∧
    ([97, 98, 99, 100, 101, 102, 103, 104] : Bytes).any (fun c => c < 33 ∨ c > 126) = false ∧
    ([97, 98, 99, 100, 101, 102, 103, 104] : Bytes) = ([97, 98, 99, 100, 101, 102, 103, 104] : Bytes).map Bech32.toLower ∧
    (49 : UInt8) ∉ ([97, 98, 99, 100, 101, 102, 103, 104] : Bytes) := by decide +kernel

/-- NEGATIVE, concrete: without the separator test "abcdefgh" faults on `bech[:one]` and "abcdefg1"
(separator among the last six characters) on `decoded[:len(decoded)-6]`; without both tests the empty
string and "a1" fault. (The lower length bound alone is implied by the separator test.) -/
theorem bech32_Decode_noGuard_witnesses :
    Proofs.CheckedBech32.DecodeG true false [97, 98, 99, 100, 101, 102, 103, 104] = .error .sliceOOB ∧
    Proofs.CheckedBech32.DecodeG true false [97, 98, 99, 100, 101, 102, 103, 49] = .error .sliceOOB ∧
    Proofs.CheckedBech32.DecodeG false false [] = .error .sliceOOB ∧
    Proofs.CheckedBech32.DecodeG false false [97, 49] = .error .sliceOOB :=
  ⟨Proofs.CheckedBech32.DecodeG_noSep_witness, Proofs.CheckedBech32.DecodeG_lateSep_witness,
   Proofs.CheckedBech32.DecodeG_noGuards_witness.1, Proofs.CheckedBech32.DecodeG_noGuards_witness.2⟩

example : Bytes.ofString "abcdefgh" = [97, 98, 99, 100, 101, 102, 103, 104] ∧
    Bytes.ofString "abcdefg1" = [97, 98, 99, 100, 101, 102, 103, 49] ∧ Bytes.ofString "a1" = [97, 49] := by
  decide +kernel
-- the code as it is rejects the same inputs with an error value
example : Proofs.CheckedBech32.DecodeC [97, 98, 99, 100, 101, 102, 103, 104] = .ok (.error .sep) ∧
    Proofs.CheckedBech32.DecodeC [97, 98, 99, 100, 101, 102, 103, 49] = .ok (.error .sep) ∧
    Proofs.CheckedBech32.DecodeC [] = .ok (.error .length) := by decide +kernel
-- non-vacuity: valid strings (BIP 173 test vectors) decode without fault to the expected hrp / data, a
-- wrong checksum goes through the message-building branch without fault
example : Proofs.CheckedBech32.DecodeC (Bytes.ofString "abcdef1qpzry9x8gf2tvdw0s3jn54khce6mua7lmqqqxw")
    = .ok (.ok (Bytes.ofString "abcdef", (List.range 32).map UInt8.ofNat)) := by decide +kernel
example : Proofs.CheckedBech32.DecodeC (Bytes.ofString "A12UEL5L") = .ok (.ok (Bytes.ofString "a", [])) := by
  decide +kernel
example : Proofs.CheckedBech32.DecodeC (Bytes.ofString "A12UEL5M") = .ok (.error .checksum) := by
  decide +kernel

/-- `Encode`: `hrp[i]`, `integers[i] = …`, `gen[i]` in the checksum and `charset[b]` behind
`int(b) >= len(charset)`. Every hrp, every data (incl. bytes ≥ 32, which give the error value). -/
theorem bech32_EncodeC_no_fault (hrp data : Bytes) : ∃ r, Proofs.CheckedBech32.EncodeC hrp data = .ok r :=
  Proofs.CheckedBech32.EncodeC_no_fault hrp data

theorem bech32_EncodeC_eq_model (hrp data : Bytes) :
    Proofs.CheckedBech32.EncodeC hrp data = .ok (Bech32.Encode hrp data) :=
  Proofs.CheckedBech32.EncodeC_eq_model hrp data

/-- NEGATIVE: without the range test of `toChars` the data byte 32 makes `charset[b]` fault -/
theorem bech32_Encode_noGuard_witness :
    Proofs.CheckedBech32.EncodeG false [97] [32] = .error .indexOOB ∧
    Proofs.CheckedBech32.toCharsG false [32] = .error .indexOOB :=
  ⟨Proofs.CheckedBech32.EncodeG_false_witness, Proofs.CheckedBech32.toCharsG_false_witness⟩

example : Proofs.CheckedBech32.EncodeC [97] [32] = .ok none := by decide +kernel
example : Proofs.CheckedBech32.EncodeC (Bytes.ofString "a") [] = .ok (some (Bytes.ofString "a12uel5l")) := by
  decide +kernel

/-- `ConvertBits`, all inputs, all widths (0, > 8 and ≥ 256 included: the guard rejects them with the error
value), `pad` either way: the inner loop `for remFromBits > 0`, run on a budget of 8 iterations per input
byte, never exhausts the budget (exhaustion is the only fault this transcription can report). -/
theorem bech32_ConvertBitsC_no_fault (data : Bytes) (fromBits toBits : Nat) (pad : Bool) :
    ∃ r, Proofs.CheckedBech32.ConvertBitsC data fromBits toBits pad = .ok r :=
  Proofs.CheckedBech32.ConvertBitsC_no_fault data fromBits toBits pad

/-- … and the `uint8` arithmetic with Go shift semantics computes the model's `ConvertBits` -/
theorem bech32_ConvertBitsC_eq_model (data : Bytes) (fromBits toBits : Nat) (pad : Bool) :
    Proofs.CheckedBech32.ConvertBitsC data fromBits toBits pad
      = .ok (Bech32.ConvertBits data fromBits toBits pad) :=
  Proofs.CheckedBech32.ConvertBitsC_eq_model data fromBits toBits pad

/-- STEP BOUND (no hang). The run executes `n` inner-loop iterations in total with
`n ≤ len(data)·fromBits` and `n ≤ len(data) + len(data)·fromBits/toBits` (`n = 0` for rejected widths). -/
theorem bech32_ConvertBitsC_steps (data : Bytes) (fromBits toBits : Nat) (pad : Bool) :
    ∃ n, Proofs.CheckedBech32.ConvertBitsStepsC data fromBits toBits pad = .ok n ∧
      n ≤ data.length * fromBits ∧ n ≤ data.length + data.length * fromBits / toBits :=
  Proofs.CheckedBech32.ConvertBitsC_steps data fromBits toBits pad

/-- the budget is not what stops the loop: every budget ≥ 8 gives the same result and iteration count -/
theorem bech32_ConvertBits_fuel_irrelevant (data : Bytes) (fromBits toBits : Nat) (pad : Bool) (fuel : Nat)
    (h : 8 ≤ fuel) : Proofs.CheckedBech32.ConvertBitsG true fuel data fromBits toBits pad
      = Proofs.CheckedBech32.ConvertBitsG true 8 data fromBits toBits pad :=
  Proofs.CheckedBech32.ConvertBitsG_fuel_irrelevant data fromBits toBits pad fuel h

/-- ALLOCATION. A successful conversion returns at most `len(data)·fromBits/toBits + 1` bytes. -/
theorem bech32_ConvertBitsC_alloc (data : Bytes) (fromBits toBits : Nat) (pad : Bool) (out : Bytes)
    (h : Proofs.CheckedBech32.ConvertBitsC data fromBits toBits pad = .ok (.ok out)) :
    out.length ≤ data.length * fromBits / toBits + 1 :=
  Proofs.CheckedBech32.ConvertBitsC_alloc data fromBits toBits pad out h

/-- NEGATIVE (hang): without the width test, `toBits = 0` and any non-empty input use up *every* budget:
the Go loop would not terminate (its proof shows that each iteration takes the `append` branch, so it
would also allocate without bound). -/
theorem bech32_ConvertBits_noGuard_hang (fuel : Nat) (b : UInt8) (data : Bytes) (fromBits : Nat)
    (h1 : 1 ≤ fromBits) (h8 : fromBits ≤ 8) (pad : Bool) :
    Proofs.CheckedBech32.ConvertBitsG false fuel (b :: data) fromBits 0 pad
      = .error Proofs.CheckedBech32.outOfFuel :=
  Proofs.CheckedBech32.ConvertBitsG_false_hang fuel b data fromBits h1 h8 pad

-- concrete runs: 8→5 with padding (5 iterations), the same without padding (incomplete group), 5→8 back,
-- rejected widths, and the guard-less hang on a budget of 1000
example : Proofs.CheckedBech32.ConvertBitsG true 8 [0xff, 0x01] 8 5 true = .ok (.ok [31, 28, 0, 16], 5) := by
  decide +kernel
example : Proofs.CheckedBech32.ConvertBitsG true 8 [0xff, 0x01] 8 5 false = .ok (.error .incomplete, 5) := by
  decide +kernel
example : Proofs.CheckedBech32.ConvertBitsG true 8 [31, 28, 0, 16] 5 8 false = .ok (.ok [0xff, 0x01], 6) := by
  decide +kernel
example : Proofs.CheckedBech32.ConvertBitsC [1] 8 0 true = .ok (.error .groups) ∧
    Proofs.CheckedBech32.ConvertBitsC [1] 0 5 true = .ok (.error .groups) ∧
    Proofs.CheckedBech32.ConvertBitsC [1] 8 9 true = .ok (.error .groups) ∧
    Proofs.CheckedBech32.ConvertBitsC [1] 300 5 true = .ok (.error .groups) := by decide +kernel
example : Proofs.CheckedBech32.ConvertBitsG false 1000 [1] 8 0 true = .error .indexOOB := by decide +kernel
-- the hypothesis of the allocation bound is satisfiable and the bound is attained: 2 bytes of 8 bits give
-- 16/5 + 1 = 4 groups of 5
example : Proofs.CheckedBech32.ConvertBitsC [0xff, 0x01] 8 5 true = .ok (.ok [31, 28, 0, 16]) ∧
    ([31, 28, 0, 16] : Bytes).length = ([0xff, 0x01] : Bytes).length * 8 / 5 + 1 := by decide +kernel
-- the second step bound is attained, and `len·fromBits/toBits + 1` alone would NOT be a bound on the
-- iterations: eight 1-bit inputs regrouped to one byte take 8 iterations (8·1/8 + 1 = 2)
example : Proofs.CheckedBech32.ConvertBitsG true 8 [1, 0, 1, 0, 1, 0, 1, 0] 1 8 false = .ok (.ok [0xaa], 8) := by
  decide +kernel

/-- No bech32 entry point panics or hangs: every checked transcription returns a value for every input. -/
theorem C08_bech32_all :
    (∀ bech, ∃ r, Proofs.CheckedBech32.DecodeC bech = .ok r) ∧
    (∀ hrp data, ∃ r, Proofs.CheckedBech32.EncodeC hrp data = .ok r) ∧
    (∀ data fromBits toBits pad, ∃ r, Proofs.CheckedBech32.ConvertBitsC data fromBits toBits pad = .ok r) :=
  ⟨bech32_DecodeC_no_fault, bech32_EncodeC_no_fault, bech32_ConvertBitsC_no_fault⟩

end Bch.Props.C08
