namespace Bch.Props.C08
theorem placeholder : True := trivial
end Bch.Props.C08
