import Bch.Proofs.CoinSetAnySort
/-
C19, the sorted selectors for an ARBITRARY correct `sort.Sort`.

`/repo/coinset/coins.go` sorts with `sort.Sort(sort.Reverse(byAmount(…)))`, `sort.Sort(sort.Reverse(byValueAge(…)))` and
`sort.Sort(byValueAge(…))`. Go's `sort.Sort` is NOT stable: it only promises a permutation of the input that is
sorted w.r.t. `Less`; coins with equal keys may come out in any order. The model (`Bch.Model.CoinSet`) fixes the
stable insertion sort `sortBy` (which is what `sort.Sort` runs for at most 12 elements), and `C19_minNumber` /
`C19_maxValueAge` in `Bch/Props/C19.lean` are statements about that one sort. Here the sort is a parameter.

Vocabulary (`Bch.Proofs.CoinSetAnySort`):

* `SortsDescBy key srt` = `∀ l, (srt l).Perm l ∧ (srt l).Pairwise (fun a b => key b ≤ key a)`
  `SortsAscBy  key srt` = `∀ l, (srt l).Perm l ∧ (srt l).Pairwise (fun a b => key a ≤ key b)`
  — the contract of `sort.Sort` for the three comparators; `C19_sort_contract` identifies them with the C18 contract
  `SortContract less srt` (`Bch.Proofs.TxSort`) for `less` = the Go `Less` function.
  (`sort.Sort` is deterministic, so "a function of the input list" is the right shape.)
* `minNumberWith srt mi mc t coins`  = `minIndex mi mc t (srt coins)`   (key: `Coin.value`)
  `maxValueAgeWith srt mi mc t coins` = `minIndex mi mc t (srt coins)`  (key: `Coin.valueAge`)
  `minPriorityWith srtVA srtV fuel`   = `minPriority fuel` with `sort.Sort(byValueAge(·))` replaced by `srtVA` and the
  inner min-number selector's sort by `srtV`.
* `revSort less l = sortBy less l.reverse` — a second sort meeting the contract; it reverses ties.
* `sumV`, `sumVA`, `Inv` as in `Bch/Props/C19.lean`.
-/
namespace Bch.Props.C19
open Bch Bch.Model.TxSort Bch.Model.CoinSet Bch.Proofs.TxSort Bch.Proofs.CoinSet Bch.Proofs.CoinSetAnySort

/-! ### the contract -/

/-- The three contracts are the C18 contract of `sort.Sort` (`SortContract`: permutation, no `Less`-inversion) for
    the three Go comparators `lessValueDesc a b = (b.value < a.value)`, `lessValueAgeDesc a b = (b.valueAge <
    a.valueAge)`, `lessValueAgeAsc a b = (a.valueAge < b.valueAge)`. -/
theorem C19_sort_contract (srt : List Coin → List Coin) :
    (SortsDescBy Coin.value srt ↔ SortContract lessValueDesc srt) ∧
    (SortsDescBy Coin.valueAge srt ↔ SortContract lessValueAgeDesc srt) ∧
    (SortsAscBy Coin.valueAge srt ↔ SortContract lessValueAgeAsc srt) :=
  ⟨sortsDescBy_value_iff srt, sortsDescBy_valueAge_iff srt, sortsAscBy_valueAge_iff srt⟩

/-- **C19_minNumber_of_any.** The model is an instance: its three insertion sorts meet the contracts and the
    parameterised selectors instantiated with them are the model's selectors. So is `revSort` (ties reversed):
    the contract has at least two different inhabitants. -/
theorem C19_minNumber_of_any :
    (SortsDescBy Coin.value sortByValueDesc ∧ minNumberWith sortByValueDesc = minNumber) ∧
    (SortsDescBy Coin.valueAge sortByValueAgeDesc ∧ maxValueAgeWith sortByValueAgeDesc = maxValueAge) ∧
    (SortsAscBy Coin.valueAge sortByValueAgeAsc ∧
      ∀ fuel, minPriorityWith sortByValueAgeAsc sortByValueDesc fuel = minPriority fuel) ∧
    (SortsDescBy Coin.value (revSort lessValueDesc) ∧ SortsDescBy Coin.valueAge (revSort lessValueAgeDesc) ∧
      SortsAscBy Coin.valueAge (revSort lessValueAgeAsc)) :=
  ⟨⟨sortByValueDesc_contract, rfl⟩, ⟨sortByValueAgeDesc_contract, rfl⟩,
   ⟨sortByValueAgeAsc_contract, minPriorityWith_model⟩,
   ⟨revSort_valueDesc_contract, revSort_valueAgeDesc_contract, revSort_valueAgeAsc_contract⟩⟩

-- the two inhabitants differ (on ties only)
example : sortByValueDesc [⟨0, 5, 1⟩, ⟨1, 5, 2⟩, ⟨2, 7, 1⟩] = [⟨2, 7, 1⟩, ⟨0, 5, 1⟩, ⟨1, 5, 2⟩] ∧
    revSort lessValueDesc [⟨0, 5, 1⟩, ⟨1, 5, 2⟩, ⟨2, 7, 1⟩] = [⟨2, 7, 1⟩, ⟨1, 5, 2⟩, ⟨0, 5, 1⟩] := by decide

/-! ### min-number and max-value-age for every correct sort -/

/-- **C19_minNumber_any.** For EVERY `srt` meeting the contract of `sort.Sort(sort.Reverse(byAmount(·)))`:
    `srt coins` is a permutation of the offer, non-increasing in value; the selector returns `cs` iff `cs` is the
    SHORTEST non-empty prefix of `srt coins`, of at most `maxInputs` coins, whose total equals the target or exceeds
    it by at least `minChange` (with exact totals); and it succeeds iff some such prefix exists. -/
theorem C19_minNumber_any (srt : List Coin → List Coin) (hs : SortsDescBy Coin.value srt)
    (maxInputs minChange target : Int) (coins : List Coin) (cs : CS) :
    ((srt coins).Perm coins ∧ (srt coins).Pairwise (fun a b => b.value ≤ a.value)) ∧
    (minNumberWith srt maxInputs minChange target coins = some cs ↔
      ∃ k, 1 ≤ k ∧ k ≤ coins.length ∧ (k : Int) ≤ maxInputs ∧
        satisfiesTargetValue target minChange (sumV ((srt coins).take k)) = true ∧
        (∀ j, 1 ≤ j → j < k → satisfiesTargetValue target minChange (sumV ((srt coins).take j)) = false) ∧
        cs.coins = (srt coins).take k ∧ cs.totalValue = sumV ((srt coins).take k) ∧
        cs.totalValueAge = sumVA ((srt coins).take k)) ∧
    ((minNumberWith srt maxInputs minChange target coins).isSome = true ↔
      ∃ k, 1 ≤ k ∧ k ≤ coins.length ∧ (k : Int) ≤ maxInputs ∧
        satisfiesTargetValue target minChange (sumV ((srt coins).take k)) = true) := by
  refine ⟨hs coins, ?_, ?_⟩
  · unfold minNumberWith
    rw [minIndex_some_iff_take, (hs coins).1.length_eq]
  · unfold minNumberWith
    rw [minIndex_isSome_iff, (hs coins).1.length_eq]

/-- **C19_maxValueAge_any.** The same for every `srt` meeting the contract of
    `sort.Sort(sort.Reverse(byValueAge(·)))`. -/
theorem C19_maxValueAge_any (srt : List Coin → List Coin) (hs : SortsDescBy Coin.valueAge srt)
    (maxInputs minChange target : Int) (coins : List Coin) (cs : CS) :
    ((srt coins).Perm coins ∧ (srt coins).Pairwise (fun a b => b.valueAge ≤ a.valueAge)) ∧
    (maxValueAgeWith srt maxInputs minChange target coins = some cs ↔
      ∃ k, 1 ≤ k ∧ k ≤ coins.length ∧ (k : Int) ≤ maxInputs ∧
        satisfiesTargetValue target minChange (sumV ((srt coins).take k)) = true ∧
        (∀ j, 1 ≤ j → j < k → satisfiesTargetValue target minChange (sumV ((srt coins).take j)) = false) ∧
        cs.coins = (srt coins).take k ∧ cs.totalValue = sumV ((srt coins).take k) ∧
        cs.totalValueAge = sumVA ((srt coins).take k)) ∧
    ((maxValueAgeWith srt maxInputs minChange target coins).isSome = true ↔
      ∃ k, 1 ≤ k ∧ k ≤ coins.length ∧ (k : Int) ≤ maxInputs ∧
        satisfiesTargetValue target minChange (sumV ((srt coins).take k)) = true) := by
  refine ⟨hs coins, ?_, ?_⟩
  · unfold maxValueAgeWith
    rw [minIndex_some_iff_take, (hs coins).1.length_eq]
  · unfold maxValueAgeWith
    rw [minIndex_isSome_iff, (hs coins).1.length_eq]

-- non-vacuity: the hypotheses hold for the model's sorts and for `revSort`; a success and a failure
example : SortsDescBy Coin.value sortByValueDesc ∧ SortsDescBy Coin.value (revSort lessValueDesc) ∧
    SortsDescBy Coin.valueAge sortByValueAgeDesc ∧ SortsDescBy Coin.valueAge (revSort lessValueAgeDesc) :=
  ⟨sortByValueDesc_contract, revSort_valueDesc_contract, sortByValueAgeDesc_contract,
   revSort_valueAgeDesc_contract⟩
example : minNumberWith (revSort lessValueDesc) 2 0 10 [⟨0, 4, 1⟩, ⟨1, 7, 1⟩, ⟨2, 1, 9⟩, ⟨3, 5, 2⟩] =
      some ⟨[⟨1, 7, 1⟩, ⟨3, 5, 2⟩], 12, 17⟩ ∧
    maxValueAgeWith (revSort lessValueAgeDesc) 3 0 10 [⟨0, 4, 1⟩, ⟨1, 7, 1⟩, ⟨2, 1, 9⟩, ⟨3, 5, 2⟩] =
      some ⟨[⟨3, 5, 2⟩, ⟨2, 1, 9⟩, ⟨1, 7, 1⟩], 13, 26⟩ ∧
    minNumberWith (revSort lessValueDesc) 1 0 10 [⟨0, 4, 1⟩, ⟨1, 7, 1⟩] = none := by decide

/-- The existing model theorems are the instances `srt = sortByValueDesc` / `sortByValueAgeDesc`: this is the
    statement of `C19_minNumber` and `C19_maxValueAge`, obtained from the `_any` theorems. -/
theorem C19_minNumber_maxValueAge_instances (maxInputs minChange target : Int) (coins : List Coin) (cs : CS) :
    (((sortByValueDesc coins).Perm coins ∧ (sortByValueDesc coins).Pairwise (fun a b => b.value ≤ a.value)) ∧
     (minNumber maxInputs minChange target coins = some cs ↔
      ∃ k, 1 ≤ k ∧ k ≤ coins.length ∧ (k : Int) ≤ maxInputs ∧
        satisfiesTargetValue target minChange (sumV ((sortByValueDesc coins).take k)) = true ∧
        (∀ j, 1 ≤ j → j < k →
          satisfiesTargetValue target minChange (sumV ((sortByValueDesc coins).take j)) = false) ∧
        cs.coins = (sortByValueDesc coins).take k ∧ cs.totalValue = sumV ((sortByValueDesc coins).take k) ∧
        cs.totalValueAge = sumVA ((sortByValueDesc coins).take k))) ∧
    (((sortByValueAgeDesc coins).Perm coins ∧
      (sortByValueAgeDesc coins).Pairwise (fun a b => b.valueAge ≤ a.valueAge)) ∧
     (maxValueAge maxInputs minChange target coins = some cs ↔
      ∃ k, 1 ≤ k ∧ k ≤ coins.length ∧ (k : Int) ≤ maxInputs ∧
        satisfiesTargetValue target minChange (sumV ((sortByValueAgeDesc coins).take k)) = true ∧
        (∀ j, 1 ≤ j → j < k →
          satisfiesTargetValue target minChange (sumV ((sortByValueAgeDesc coins).take j)) = false) ∧
        cs.coins = (sortByValueAgeDesc coins).take k ∧
        cs.totalValue = sumV ((sortByValueAgeDesc coins).take k) ∧
        cs.totalValueAge = sumVA ((sortByValueAgeDesc coins).take k))) := by
  have h1 := C19_minNumber_any sortByValueDesc sortByValueDesc_contract maxInputs minChange target coins cs
  have h2 := C19_maxValueAge_any sortByValueAgeDesc sortByValueAgeDesc_contract maxInputs minChange target coins cs
  exact ⟨⟨h1.1, h1.2.1⟩, ⟨h2.1, h2.2.1⟩⟩

/-- **Validity for every sort that returns a permutation** (sortedness is not needed here): whatever the two
    sorted selectors return is a sub-multiset of the offer (a sublist of a permutation of it: each offered coin used
    at most once; duplicate-free if the offer is; contained in the offer), is non-empty, has at most `maxInputs`
    coins, exact totals, and meets the target rule. The clauses are those of `C19_sorted_valid`. -/
theorem C19_sorted_any_valid (srt : List Coin → List Coin) (hs : ∀ l, (srt l).Perm l)
    (maxInputs minChange target : Int) (coins : List Coin) (cs : CS)
    (h : minNumberWith srt maxInputs minChange target coins = some cs ∨
         maxValueAgeWith srt maxInputs minChange target coins = some cs) :
    (∃ p, p.Perm coins ∧ cs.coins.Sublist p) ∧ (coins.Nodup → cs.coins.Nodup) ∧ (∀ c ∈ cs.coins, c ∈ coins) ∧
    cs.coins ≠ [] ∧ (cs.coins.length : Int) ≤ maxInputs ∧ Inv cs ∧
    (cs.totalValue = target ∨ cs.totalValue ≥ target + minChange) := by
  have hm : minIndex maxInputs minChange target (srt coins) = some cs := by
    rcases h with h | h <;> exact h
  obtain ⟨hsm, hne, hlen, hinv, hsat⟩ := minIndex_perm_valid _ _ _ _ coins (hs coins) cs hm
  exact ⟨hsm, hsm.nodup, hsm.subset, hne, hlen, hinv, hsat⟩

-- the hypothesis follows from either contract
example (srt : List Coin → List Coin) (h : SortsDescBy Coin.value srt ∨ SortsDescBy Coin.valueAge srt) :
    ∀ l, (srt l).Perm l := fun l => h.elim (fun h => (h l).1) (fun h => (h l).1)
example : ∀ l, (revSort lessValueDesc l).Perm l := fun l => (revSort_valueDesc_contract l).1

/-! ### min-number: everything except the identity of tied coins is independent of the sort -/

/-- **C19_minNumber_total_order_independent.** Two sorts meeting the min-number contract produce the same VALUE
    sequence (equal keys are equal values), hence the same value prefix sums for every `k`; therefore the two
    selectors fail on the same inputs, and when one returns `cs1` the other returns some `cs2` with the same number
    of coins, the same total value and the same sequence of values. (The coins themselves may differ inside groups of
    equal value, and with them the total value-age: `C19_minNumber_tie_coins_differ`.) -/
theorem C19_minNumber_total_order_independent (srt1 srt2 : List Coin → List Coin)
    (h1 : SortsDescBy Coin.value srt1) (h2 : SortsDescBy Coin.value srt2)
    (maxInputs minChange target : Int) (coins : List Coin) :
    (srt1 coins).map Coin.value = (srt2 coins).map Coin.value ∧
    (∀ k, sumV ((srt1 coins).take k) = sumV ((srt2 coins).take k)) ∧
    (minNumberWith srt1 maxInputs minChange target coins = none ↔
      minNumberWith srt2 maxInputs minChange target coins = none) ∧
    (∀ cs1, minNumberWith srt1 maxInputs minChange target coins = some cs1 →
      ∃ cs2, minNumberWith srt2 maxInputs minChange target coins = some cs2 ∧
        cs1.coins.length = cs2.coins.length ∧ cs1.totalValue = cs2.totalValue ∧
        cs1.coins.map Coin.value = cs2.coins.map Coin.value) := by
  have hv := sortsDescBy_keys_eq h1 h2 coins
  exact ⟨hv, sumV_take_of_map_eq hv, minIndex_none_of_map_eq hv, fun cs1 h => minIndex_of_map_eq hv h⟩

/-- In particular every correct sort agrees with the MODEL's min-number selector in outcome, number of coins, total
    value and value sequence — which is what the differential harness can compare when values tie. -/
theorem C19_minNumber_any_agrees_model (srt : List Coin → List Coin) (hs : SortsDescBy Coin.value srt)
    (maxInputs minChange target : Int) (coins : List Coin) :
    (minNumberWith srt maxInputs minChange target coins = none ↔
      minNumber maxInputs minChange target coins = none) ∧
    (∀ cs, minNumberWith srt maxInputs minChange target coins = some cs →
      ∃ cs', minNumber maxInputs minChange target coins = some cs' ∧
        cs.coins.length = cs'.coins.length ∧ cs.totalValue = cs'.totalValue ∧
        cs.coins.map Coin.value = cs'.coins.map Coin.value) ∧
    ((∀ a ∈ coins, ∀ b ∈ coins, a.value = b.value → a = b) →
      minNumberWith srt maxInputs minChange target coins = minNumber maxInputs minChange target coins) := by
  have h := C19_minNumber_total_order_independent srt sortByValueDesc hs sortByValueDesc_contract
    maxInputs minChange target coins
  refine ⟨h.2.2.1, h.2.2.2, fun hinj => ?_⟩
  unfold minNumberWith minNumber
  rw [sortsDescBy_eq_of_inj hs sortByValueDesc_contract coins hinj]

/-- What does depend on the order of ties for min-number: WHICH of several equally valuable coins are taken, and
    hence the total value-age of the selection. Two coins of value 5 with 1 and 2 confirmations, target 5, one
    input: the stable sort selects the first, the tie-reversing sort the second. -/
theorem C19_minNumber_tie_coins_differ :
    ∃ srt1 srt2 : List Coin → List Coin, SortsDescBy Coin.value srt1 ∧ SortsDescBy Coin.value srt2 ∧
      minNumberWith srt1 1 0 5 [⟨0, 5, 1⟩, ⟨1, 5, 2⟩] = some ⟨[⟨0, 5, 1⟩], 5, 5⟩ ∧
      minNumberWith srt2 1 0 5 [⟨0, 5, 1⟩, ⟨1, 5, 2⟩] = some ⟨[⟨1, 5, 2⟩], 5, 10⟩ :=
  ⟨sortByValueDesc, revSort lessValueDesc, sortByValueDesc_contract, revSort_valueDesc_contract, by decide⟩

/-! ### max-value-age: the result depends on the order of ties -/

/-- **C19_maxValueAge_tie_dependence.** For the value-age key, coins with equal value-age can have different
    values, so the VALUE prefix sums — and with them the outcome — depend on how the sort orders ties. Witness: the
    coins `a = (value 10, 1 conf)` and `b = (value 5, 2 confs)` both have value-age 10; both `[a, b]` (stable sort)
    and `[b, a]` (tie-reversing sort) are "the list ordered by descending value-age". With target 10:
    (a) `maxInputs = 1`: the first order succeeds with `[a]`, the second fails;
    (b) `maxInputs = 2`, `minChange = 0`: the first returns `[a]` (total 10), the second `[b, a]` (total 15);
    (c) `maxInputs = 2 ≥` number of coins, `minChange = 100`: the first still succeeds (exact match), the second
        fails (5, then 15 which is neither 10 nor ≥ 110) — so not even success with unbounded `maxInputs` is
        order-independent in general (see `C19_maxValueAge_order_independent` (iv) for when it is).
    So "the shortest qualifying prefix of the list ordered by descending value-age" is determined only up to the
    order of ties; `C19_maxValueAge_any` pins it down relative to the order the sort actually produced. -/
theorem C19_maxValueAge_tie_dependence :
    ∃ srt1 srt2 : List Coin → List Coin,
      SortsDescBy Coin.valueAge srt1 ∧ SortsDescBy Coin.valueAge srt2 ∧
      ∃ coins : List Coin, (∀ a ∈ coins, ∀ b ∈ coins, a.valueAge = b.valueAge) ∧
        (maxValueAgeWith srt1 1 0 10 coins = some ⟨[⟨0, 10, 1⟩], 10, 10⟩ ∧
         maxValueAgeWith srt2 1 0 10 coins = none) ∧
        (maxValueAgeWith srt1 2 0 10 coins = some ⟨[⟨0, 10, 1⟩], 10, 10⟩ ∧
         maxValueAgeWith srt2 2 0 10 coins = some ⟨[⟨1, 5, 2⟩, ⟨0, 10, 1⟩], 15, 20⟩) ∧
        (maxValueAgeWith srt1 2 100 10 coins = some ⟨[⟨0, 10, 1⟩], 10, 10⟩ ∧
         maxValueAgeWith srt2 2 100 10 coins = none) :=
  ⟨sortByValueAgeDesc, revSort lessValueAgeDesc, sortByValueAgeDesc_contract, revSort_valueAgeDesc_contract,
   [⟨0, 10, 1⟩, ⟨1, 5, 2⟩], by decide, by decide, by decide, by decide⟩

/-- **What IS independent of the sort for max-value-age.** For two sorts meeting the value-age contract:
    (i)   the VALUE-AGE sequences of the two sorted lists coincide, so the value-age prefix sums coincide for all `k`
          (a selection of `k` coins has the same total value-age under either order);
    (ii)  if coins of the offer with equal value-age also have equal value (ties are harmless), the value prefix
          sums coincide too, the two selectors fail on the same inputs, and successful selections have the same
          number of coins, total value, total value-age and value sequence;
    (iii) if no two different offered coins have equal value-age, the two selectors return the same result;
    (iv)  in the monotone regime — all values non-negative, `minChange ≤ 0` (the rule is then `total ≥ target +
          minChange`), `maxInputs` at least the number of coins — each succeeds iff the offer is non-empty and its
          total value reaches `target + minChange`: success is order-independent. (For `minChange > 0` it is not:
          `C19_maxValueAge_tie_dependence` (c).)
    Validity of whatever is returned is `C19_sorted_any_valid`. -/
theorem C19_maxValueAge_order_independent (srt1 srt2 : List Coin → List Coin)
    (h1 : SortsDescBy Coin.valueAge srt1) (h2 : SortsDescBy Coin.valueAge srt2)
    (maxInputs minChange target : Int) (coins : List Coin) :
    ((srt1 coins).map Coin.valueAge = (srt2 coins).map Coin.valueAge ∧
      ∀ k, sumVA ((srt1 coins).take k) = sumVA ((srt2 coins).take k)) ∧
    ((∀ a ∈ coins, ∀ b ∈ coins, a.valueAge = b.valueAge → a.value = b.value) →
      (∀ k, sumV ((srt1 coins).take k) = sumV ((srt2 coins).take k)) ∧
      (maxValueAgeWith srt1 maxInputs minChange target coins = none ↔
        maxValueAgeWith srt2 maxInputs minChange target coins = none) ∧
      (∀ cs1, maxValueAgeWith srt1 maxInputs minChange target coins = some cs1 →
        ∃ cs2, maxValueAgeWith srt2 maxInputs minChange target coins = some cs2 ∧
          cs1.coins.length = cs2.coins.length ∧ cs1.totalValue = cs2.totalValue ∧
          cs1.totalValueAge = cs2.totalValueAge ∧ cs1.coins.map Coin.value = cs2.coins.map Coin.value)) ∧
    ((∀ a ∈ coins, ∀ b ∈ coins, a.valueAge = b.valueAge → a = b) →
      maxValueAgeWith srt1 maxInputs minChange target coins =
        maxValueAgeWith srt2 maxInputs minChange target coins) ∧
    ((∀ c ∈ coins, 0 ≤ c.value) → minChange ≤ 0 → (coins.length : Int) ≤ maxInputs →
      ((maxValueAgeWith srt1 maxInputs minChange target coins).isSome = true ↔
        coins ≠ [] ∧ target + minChange ≤ sumV coins) ∧
      ((maxValueAgeWith srt2 maxInputs minChange target coins).isSome = true ↔
        coins ≠ [] ∧ target + minChange ≤ sumV coins)) := by
  have hva := sortsDescBy_keys_eq h1 h2 coins
  refine ⟨⟨hva, sumVA_take_of_map_eq hva⟩, ?_, ?_, ?_⟩
  · intro hties
    have hv := sortsDescBy_map_eq Coin.value h1 h2 coins hties
    exact ⟨sumV_take_of_map_eq hv, minIndex_none_of_map_eq hv, fun cs1 h => minIndex_of_map_eq_va hv hva h⟩
  · intro hinj
    unfold maxValueAgeWith
    rw [sortsDescBy_eq_of_inj h1 h2 coins hinj]
  · intro hnn hmc hmi
    have key : ∀ srt : List Coin → List Coin, (srt coins).Perm coins →
        ((maxValueAgeWith srt maxInputs minChange target coins).isSome = true ↔
          coins ≠ [] ∧ target + minChange ≤ sumV coins) := by
      intro srt hp
      unfold maxValueAgeWith
      have hnil : srt coins = [] ↔ coins = [] := by
        rw [← List.length_eq_zero_iff, ← List.length_eq_zero_iff, hp.length_eq]
      rw [minIndex_isSome_iff_of_monotone _ _ _ _ (fun c hc => hnn c (hp.mem_iff.1 hc)) hmc
        (by rw [hp.length_eq]; exact hmi), sumV_perm hp, Ne, hnil]
    exact ⟨key srt1 (h1 coins).1, key srt2 (h2 coins).1⟩

-- non-vacuity of the side conditions of (ii), (iii), (iv): an offer with tied value-ages but equal values in the tie
-- (coins 0 and 2), one without ties, and one in the monotone regime with maxInputs = number of coins
example : (∀ a ∈ ([⟨0, 6, 2⟩, ⟨1, 5, 1⟩, ⟨2, 6, 2⟩] : List Coin), ∀ b ∈ ([⟨0, 6, 2⟩, ⟨1, 5, 1⟩, ⟨2, 6, 2⟩] : List Coin),
      a.valueAge = b.valueAge → a.value = b.value) ∧
    (∀ a ∈ ([⟨0, 6, 2⟩, ⟨1, 5, 1⟩] : List Coin), ∀ b ∈ ([⟨0, 6, 2⟩, ⟨1, 5, 1⟩] : List Coin),
      a.valueAge = b.valueAge → a = b) ∧
    (∀ c ∈ ([⟨0, 10, 1⟩, ⟨1, 5, 2⟩] : List Coin), 0 ≤ c.value) ∧
    ((([⟨0, 10, 1⟩, ⟨1, 5, 2⟩] : List Coin).length : Int) ≤ 2) ∧
    (maxValueAgeWith (revSort lessValueAgeDesc) 2 0 12 [⟨0, 10, 1⟩, ⟨1, 5, 2⟩]).isSome = true := by decide

/-! ### min-priority -/

/-- **C19_minPriority_any.** The four validity clauses of `C19_minPriority` do not depend on stability: they hold
    for whatever `minPriorityWith srtVA srtV` returns, for EVERY `srtVA` meeting the contract of
    `sort.Sort(byValueAge(·))` (permutation, non-decreasing value-age — the sortedness is what makes every coin from
    the cut-off on a high-priority coin, used in clause (4)) and EVERY inner sort `srtV` that returns a permutation
    of its input (in particular every `srtV` with `SortsDescBy Coin.value srtV`; its sortedness is not needed):
    (1) the selection is a sub-multiset of the offer; (2) at most `maxInputs` coins; (3) exact totals and target
    rule; (4) if no offered coin has a negative value-age, the total value-age is at least `minAvg` per coin.
    This is the full strength of `C19_minPriority`, for arbitrary sorts. (WHICH selection is returned, and whether
    one is found, does depend on the order of ties: `C19_minPriority_tie_dependence`.) -/
theorem C19_minPriority_any (srtVA srtV : List Coin → List Coin) (hVA : SortsAscBy Coin.valueAge srtVA)
    (hV : ∀ l, (srtV l).Perm l) (fuel : Nat) (maxInputs minChange minAvg target : Int) (coins : List Coin)
    (cs : CS) (h : minPriorityWith srtVA srtV fuel maxInputs minChange minAvg target coins = some cs) :
    ((∃ p, p.Perm coins ∧ cs.coins.Sublist p) ∧ (coins.Nodup → cs.coins.Nodup) ∧ (∀ c ∈ cs.coins, c ∈ coins)) ∧
    (cs.coins.length : Int) ≤ maxInputs ∧
    (Inv cs ∧ (cs.totalValue = target ∨ cs.totalValue ≥ target + minChange)) ∧
    ((∀ c ∈ coins, 0 ≤ c.valueAge) → minAvg * (cs.coins.length : Int) ≤ cs.totalValueAge) := by
  have hg := minPriorityWith_ok srtVA srtV hVA hV fuel _ _ _ _ _ _ h
  refine ⟨⟨hg.sub, hg.sub.nodup, hg.sub.subset⟩, hg.len, ⟨hg.inv, ?_⟩, hg.avg⟩
  have := hg.sat
  unfold satisfiesTargetValue at this
  simp only [Bool.or_eq_true, beq_iff_eq, decide_eq_true_eq] at this
  exact this

-- non-vacuity: the hypotheses hold for the tie-reversing sorts, with a successful selection through the top-up
-- branch (the same offer, and here the same result, as in `Bch/Props/C19.lean`)
example : SortsAscBy Coin.valueAge (revSort lessValueAgeAsc) ∧ (∀ l, (revSort lessValueDesc l).Perm l) ∧
    minPriorityWith (revSort lessValueAgeAsc) (revSort lessValueDesc) 6 4 2 4 14
        [⟨0, 3, 2⟩, ⟨1, 4, 0⟩, ⟨2, 4, 3⟩, ⟨3, 4, 0⟩, ⟨4, 3, 3⟩] =
      some ⟨[⟨0, 3, 2⟩, ⟨4, 3, 3⟩, ⟨2, 4, 3⟩, ⟨1, 4, 0⟩], 14, 27⟩ :=
  ⟨revSort_valueAgeAsc_contract, fun l => (revSort_valueDesc_contract l).1, by decide⟩

/-- The outcome of the min-priority selector depends on the order of ties: two coins of value-age 2 (values 1 and
    2), target 1, minimum change 2, one input, minimum average 1. The stable sort puts the coin of value 1 first in
    the high-priority range and finds the exact match; the tie-reversing sort meets the coin of value 2 first
    (2 is neither 1 nor ≥ 3) and, being limited to one input, fails. -/
theorem C19_minPriority_tie_dependence :
    ∃ srtVA1 srtVA2 srtV : List Coin → List Coin,
      SortsAscBy Coin.valueAge srtVA1 ∧ SortsAscBy Coin.valueAge srtVA2 ∧ SortsDescBy Coin.value srtV ∧
      minPriorityWith srtVA1 srtV 3 1 2 1 1 [⟨0, 1, 2⟩, ⟨1, 2, 1⟩] = some ⟨[⟨0, 1, 2⟩], 1, 2⟩ ∧
      minPriorityWith srtVA2 srtV 3 1 2 1 1 [⟨0, 1, 2⟩, ⟨1, 2, 1⟩] = none :=
  ⟨sortByValueAgeAsc, revSort lessValueAgeAsc, sortByValueDesc, sortByValueAgeAsc_contract,
   revSort_valueAgeAsc_contract, sortByValueDesc_contract, by decide, by decide⟩

end Bch.Props.C19
