import Bch.Props.C15
import Bch.Proofs.HDHeapNew
/-
C15, extended to the raw exported constructor

    NewExtendedKey(version, key, chainCode, parentFP []byte, depth uint8, childNum uint32, isPrivate bool)

which stores the caller's slices as they are (hdkeychain/extendedkey.go:124-138).

Model: `Bch/Model/HDHeapNew.lean` (state `NState` = the `HDHeap` heap + the buffers the caller allocated
+ the handles of raw-constructed keys + which keys' VERSION field is a caller slice), histories
`runN` over `NOp` (`Bch/Proofs/HDHeapNew.lean`): every library operation of `HDHeap` (`.lib op`), and the
caller's actions `callerAlloc`, `newKey` (= `NewExtendedKey`), `callerWrite` (`copy` into one of its slices).

Three layers of statements:
1. what `NewExtendedKey` shares (any heap, any slices): `C15_new_aliases_caller`, `C15_new_version_shared`;
2. ANY caller that only uses memory it allocated itself (`legitRun`; all a Go caller can do without
   pointer tricks, since no accessor of `ExtendedKey` hands out an internal slice), sharing its buffers between
   raw keys as it likes: every key NOT made by `NewExtendedKey` keeps fresh, pairwise disjoint memory
   (`C15_new_inv`, `C15_new_inv_meaning`) and is independent of everything (`C15_new_derived_independent`,
   `…_modver`, `C15_new_zero_lib_key`) — except for its VERSION field if it is a `Child`-descendant of a
   raw key (`C15_new_version_alias`, `C15_new_child_inherits_version`: `Child` passes `k.version` on by
   reference);
3. the caller obligation under which raw keys themselves are independent values: `C15_new_distinct_buffers_ok`
   (iff, one step), `C15_new_transfer_inv`, `C15_new_transfer_independent`, `C15_new_transfer_memo_sound`
   (histories), and the witnesses that the obligation is needed.
-/
namespace Bch.Props.C15
open Bch Bch.Model Bch.Model.HDKey Bch.Model.HDHeap Bch.Model.HDHeapNew Bch.Proofs.HDHeap
  Bch.Proofs.HDHeapNew

/-! ## 1. what `NewExtendedKey` shares -/

/-- **C15_new_aliases_caller.** For every heap `h` and all slices `v k c f` (version, key, chain code,
fingerprint): `NewExtendedKey`
1. allocates and copies nothing — the buffers are unchanged, the only change is one new key object
   whose `key`/`chainCode`/`parentFP` slice headers ARE `k`/`c`/`f` and whose `pubKey` is nil;
2. the new key's view reads the caller's slices;
3. `Zero` on it writes exactly through `k`, `c`, `f` (the buffers afterwards are those of three
   `zero` calls on the original heap): the caller's three slices read as zeros of unchanged length, and
   every slice that overlaps none of them reads as before;
4. conversely the key's view after any caller write is read from the written heap; in particular
   writing `data` through `k`, `c` or `f` (in bounds, `data` of the slice's length) makes the key's
   key / chain code / fingerprint equal to `data`.
(The version field: `HKey` holds versions by value, so at this level the view keeps `h.read v`; the
sharing of the version slice is tracked one level up — `C15_new_version_shared`.) -/
theorem C15_new_aliases_caller (h : Heap) (v k c f : Ref) (d n : Nat) (p : Bool) :
    let h' := (newExtendedKeyH h v k c f d n p).1
    let j := (newExtendedKeyH h v k c f d n p).2
    (j = h.keys.length ∧ h'.bufs = h.bufs ∧
      h'.keys = h.keys ++ [⟨k, Ref.nil, c, f, h.read v, d, n, p⟩]) ∧
    viewAt h' j = some ⟨h.read k, h.read c, d, h.read f, n, h.read v, p⟩ ∧
    ((zeroH h' j).bufs = (((h.zero k).zero c).zero f).bufs ∧
      (∀ r ∈ [k, c, f], (∀ b ∈ (zeroH h' j).read r, b = 0) ∧
        ((zeroH h' j).read r).length = (h.read r).length) ∧
      (∀ s : Ref, DisjR k s → DisjR c s → DisjR f s → (zeroH h' j).read s = h.read s)) ∧
    (∀ (w : Ref) (data : Bytes), viewAt (writeH h' w data) j =
      some ⟨(writeH h w data).read k, (writeH h w data).read c, d, (writeH h w data).read f, n,
        h.read v, p⟩) ∧
    (∀ r ∈ [k, c, f], ∀ data : Bytes, InB h r → data.length = r.len → (writeH h' r data).read r = data) := by
  intro h' j
  have hk : h'.keys[j]? = some ⟨k, Ref.nil, c, f, h.read v, d, n, p⟩ := by
    show (h.addKey _).1.keys[h.keys.length]? = _
    rw [addKey_keys]; simp
  have hz : ∀ r, (zeroH h' j).read r = (zero4 h ⟨k, Ref.nil, c, f, h.read v, d, n, p⟩).read r :=
    fun r => zeroH_read hk r
  refine ⟨⟨rfl, rfl, rfl⟩, viewAt_addKey_new h _, ⟨?_, ?_, ?_⟩, ?_, ?_⟩
  · rw [zeroH_eq]; simp only [hk]
    show ((((h.zero k).zero Ref.nil).zero c).zero f).bufs = _
    rw [zero_nil]
  · intro r hr
    rw [hz]
    refine ⟨zero4_zeros h _ r ?_, zero4_read_length h _ r⟩
    simp only [List.mem_cons, List.not_mem_nil, or_false] at hr ⊢
    rcases hr with rfl | rfl | rfl
    · exact Or.inl rfl
    · exact Or.inr (Or.inr (Or.inl rfl))
    · exact Or.inr (Or.inr (Or.inr rfl))
  · intro s hk' hc' hf'
    rw [hz]
    apply read_zero4_of_not_overlap
    intro x hx
    simp only [List.mem_cons, List.not_mem_nil, or_false] at hx
    rcases hx with rfl | rfl | rfl | rfl
    · exact hk'
    · intro hl; simp [Ref.nil] at hl
    · exact hc'
    · exact hf'
  · intro w data
    show viewAt ((writeH h w data).addKey _).1 (writeH h w data).keys.length = _
    exact viewAt_addKey_new (writeH h w data) _
  · intro r _ data hb hd
    exact read_writeH_self (h := h') data hb hd

/-- **C15_new_version_shared.** The version slice is shared as well: right after `NewExtendedKey`
the key's version is the content of the caller's slice `v` and the alias `(j, v)` is recorded; after
the caller overwrites `v` (in bounds, `data` of the slice's length) the key's version is `data`. -/
theorem C15_new_version_shared (s : NState) (v k c f : Ref) (d n : Nat) (p : Bool) (data : Bytes)
    (hb : InB s.heap v) (hd : data.length = v.len) :
    aliasOf (newExtendedKeyN s v k c f d n p).vers s.heap.keys.length = some v ∧
    viewAt (newExtendedKeyN s v k c f d n p).heap s.heap.keys.length =
      some ⟨s.heap.read k, s.heap.read c, d, s.heap.read f, n, s.heap.read v, p⟩ ∧
    (viewAt (callerWriteN (newExtendedKeyN s v k c f d n p) v data).heap s.heap.keys.length).map
      (·.version) = some data := by
  refine ⟨?_, viewAt_newExtendedKeyN s v k c f d n p, version_after_write s v k c f d n p data hb hd⟩
  show aliasOf ((s.heap.keys.length, v) :: s.vers) s.heap.keys.length = some v
  rw [aliasOf_cons, if_pos rfl]

section
variable {Pt : Type} (X : HDExt Pt)

/-! ## 2. any caller that only uses its own memory -/

/-- **C15_new_inv.** The extended invariant holds in every reachable state of every history — raw
constructions with shared or overlapping caller buffers and caller writes included — in which the
caller only uses slices of buffers it allocated itself (`legitRun`). -/
theorem C15_new_inv (hX : ExtOK X) (ops : List NOp) (hl : legitRun X {} ops = true) :
    NInv (runN X {} ops) :=
  ninv_runN X hX ninv_empty ops hl

/-- the same from any state satisfying the invariant -/
theorem C15_new_inv_run (hX : ExtOK X) (s : NState) (hi : NInv s) (ops : List NOp)
    (hl : legitRun X s ops = true) : NInv (runN X s ops) :=
  ninv_runN X hX hi ops hl

/-- one step -/
theorem C15_new_inv_step (hX : ExtOK X) (s : NState) (hi : NInv s) (op : NOp)
    (hl : legit s op = true) : NInv (stepN X s op) :=
  ninv_stepN X hX hi op hl

end

/-- **C15_new_inv_meaning.** What the extended invariant says. Call a (key, field) position
*library-owned* if the key was not made by `NewExtendedKey`, or the field is the `pubKey` memo
(field 1; fields: 0 key, 1 pubKey, 2 chainCode, 3 parentFP). Then
(a) every slice of every key lies within its buffer;
(b) a non-empty library-owned range overlaps no other non-empty range of any key — library-owned or
    belonging to a raw-constructed key;
(c) a non-empty library-owned range overlaps no slice the caller can form (`ownedRef`);
(d) the key / chain code / fingerprint slices of raw-constructed keys lie in caller buffers;
(e) a version alias `(j, r)` means what it says: key `j`'s version is the content of the caller's
    slice `r`, which is in bounds and lies in a caller buffer. -/
theorem C15_new_inv_meaning (s : NState) (hi : NInv s) :
    (∀ k ∈ s.heap.keys, ∀ r ∈ [k.key, k.pubKey, k.chainCode, k.parentFP],
      r.off + r.len ≤ (s.heap.bufs.getD r.buf []).length) ∧
    (∀ (i j : Nat) (ki kj : HKey) (f g : Nat), s.heap.keys[i]? = some ki → s.heap.keys[j]? = some kj →
      f < 4 → g < 4 → (i, f) ≠ (j, g) → (j ∉ s.raw ∨ g = 1) → 0 < (fld ki f).len → 0 < (fld kj g).len →
      overlap (fld ki f) (fld kj g) = false) ∧
    (∀ (j : Nat) (kj : HKey) (g : Nat) (r : Ref), s.heap.keys[j]? = some kj → g < 4 →
      (j ∉ s.raw ∨ g = 1) → 0 < (fld kj g).len → ownedRef s r = true → 0 < r.len →
      overlap (fld kj g) r = false) ∧
    (∀ (j : Nat) (kj : HKey) (g : Nat), j ∈ s.raw → s.heap.keys[j]? = some kj → g < 4 → g ≠ 1 →
      0 < (fld kj g).len → (fld kj g).buf ∈ s.cbufs) ∧
    (∀ (j : Nat) (r : Ref) (k : HKey), aliasOf s.vers j = some r → s.heap.keys[j]? = some k →
      k.version = s.heap.read r ∧ InB s.heap r ∧ (0 < r.len → r.buf ∈ s.cbufs)) := by
  refine ⟨?_, ?_, ?_, ?_, ?_⟩
  · intro k hk r hr
    obtain ⟨i, hi'⟩ := List.mem_iff_getElem?.mp hk
    have hb := hi.bnd i k hi'
    rw [forall_fld] at hb
    simp only [List.mem_cons, List.not_mem_nil, or_false] at hr
    rcases hr with rfl | rfl | rfl | rfl
    · exact hb.1
    · exact hb.2.1
    · exact hb.2.2.1
    · exact hb.2.2.2
  · intro i j ki kj f g hki hkj hf hg hne pj hlf hlg
    exact hi.toNCore.sep hki hkj hf hg hne pj hlf hlg
  · intro j kj g r hkj hg pj hl hr hlr
    rw [ownedRef_iff] at hr
    apply overlap_of_buf_ne
    intro e
    exact hi.libOut j kj g hkj hg pj hl (e ▸ hr.1 hlr)
  · intro j kj g hj hkj hg hg1 hl
    exact hi.rawIn j kj g hj hkj hg hg1 hl
  · intro j r k hr hk
    exact ⟨hi.sync j r k hr hk, hi.alias j r hr⟩

section
variable {Pt : Type} (X : HDExt Pt)

/-- **C15_new_derived_not_raw.** Keys made by library operations — `Child`, `Neuter`, re-parsing,
`NewMaster`, from ANY key, raw-constructed ones included — are never raw: a library step leaves the
set of raw handles unchanged, and the next handle is not in it. So `C15_new_inv_meaning` (b), (c)
apply to all four fields of every derived key: fresh memory, disjoint from every other key and from
everything the caller holds. -/
theorem C15_new_derived_not_raw (s : NState) (hi : NInv s) (op : HOp) :
    (stepN X s (.lib op)).raw = s.raw ∧ s.heap.keys.length ∉ s.raw := by
  refine ⟨?_, fun h => Nat.lt_irrefl _ (hi.rawLt _ h)⟩
  rw [stepN_lib, libN_eq]; rfl

/-- **C15_new_derived_independent (one step).** In a state satisfying the extended invariant, for a
key `j` NOT made by `NewExtendedKey`, every legit step — any library operation on any key, e.g.
`Zero` of a raw key sharing buffers with other raw keys; a caller write; another raw construction —
changes the view of `j` exactly by the library `SetNet j`/`Zero j` addressed to `j` itself
(`applyOwnN`), after which the version is re-read through the alias if `j`'s version slice is a
caller slice (`reVer`; the identity if `j` has its own version: `C15_new_reVer_none`). -/
theorem C15_new_derived_independent_step (s : NState) (hi : NInv s) (op : NOp) (hl : legit s op = true)
    (j : Nat) (hj : j < s.heap.keys.length) (hr : j ∉ s.raw) :
    viewAt (stepN X s op).heap j =
      (viewAt s.heap j).map fun v => reVer (stepN X s op) j (applyOwnN j v op) :=
  viewAt_stepN X hi op hl hj hr

/-- `reVer` is the identity for a key that has no version alias, and only ever changes the version -/
theorem C15_new_reVer_none (s : NState) (j : Nat) (v : XKey) :
    (aliasOf s.vers j = none → reVer s j v = v) ∧ eraseVer (reVer s j v) = eraseVer v :=
  ⟨fun h => reVer_of_none h v, eraseVer_reVer s j v⟩

/-- **C15_new_derived_independent (histories).** Split any legit history as `pre ++ post` where key
`j` exists after `pre`, was not made by `NewExtendedKey` and has its own version slice (every key
made by `NewMaster`, `Neuter`, parsing, and every `Child`-descendant of such a key — also every key
after `SetNet`). Its view at the end is its view after `pre` transformed by exactly the library
`SetNet j`/`Zero j` operations of `post`: no operation on any other key — raw-constructed, sharing
buffers or not — and no caller action *of the model* has any influence. This is `C15_independent` for histories
containing raw constructions and caller writes. (One alias is outside the model, as in `HDHeap`: the version slice
stored by `NewMaster` / `SetNet` points into the array inside the caller's `*chaincfg.Params`; a caller that mutates
its `Params` afterwards changes the version bytes of such keys and of their `Child` descendants. The library never
writes there and `Zero` only drops the slice, so C15 is unaffected.) -/
theorem C15_new_derived_independent (hX : ExtOK X) (pre post : List NOp)
    (hl : legitRun X {} (pre ++ post) = true) (j : Nat)
    (hj : j < (runN X {} pre).heap.keys.length) (hr : j ∉ (runN X {} pre).raw)
    (ha : aliasOf (runN X {} pre).vers j = none) :
    viewAt (runN X {} (pre ++ post)).heap j =
      (viewAt (runN X {} pre).heap j).map fun v => post.foldl (applyOwnN j) v := by
  rw [legitRun_append, Bool.and_eq_true] at hl
  rw [runN_append]
  exact viewAt_runN X hX (ninv_runN X hX ninv_empty pre hl.1) post hl.2 hj hr ha

/-- **C15_new_derived_independent_modver.** The same for EVERY key not made by `NewExtendedKey`,
for everything but the version field (key bytes, chain code, fingerprint, depth, child number,
privacy flag): also the `Child`-descendants of raw keys are independent in all of these. -/
theorem C15_new_derived_independent_modver (hX : ExtOK X) (pre post : List NOp)
    (hl : legitRun X {} (pre ++ post) = true) (j : Nat)
    (hj : j < (runN X {} pre).heap.keys.length) (hr : j ∉ (runN X {} pre).raw) :
    (viewAt (runN X {} (pre ++ post)).heap j).map eraseVer =
      (viewAt (runN X {} pre).heap j).map fun v => eraseVer (post.foldl (applyOwnN j) v) := by
  rw [legitRun_append, Bool.and_eq_true] at hl
  rw [runN_append]
  exact viewAt_runN_modver X hX (ninv_runN X hX ninv_empty pre hl.1) post hl.2 hj hr

/-- **C15_new_version_alias.** The one field in which derived keys are NOT independent. In every
reachable state a key with a version alias `(j, r)` has as version the current content of the
caller's slice `r` — whatever the caller wrote there. -/
theorem C15_new_version_alias (hX : ExtOK X) (ops : List NOp) (hl : legitRun X {} ops = true)
    (j : Nat) (r : Ref) (k : HKey) (hr : aliasOf (runN X {} ops).vers j = some r)
    (hk : (runN X {} ops).heap.keys[j]? = some k) :
    k.version = (runN X {} ops).heap.read r ∧ InB (runN X {} ops).heap r :=
  ⟨(ninv_runN X hX ninv_empty ops hl).sync j r k hr hk,
    ((ninv_runN X hX ninv_empty ops hl).alias j r hr).1⟩

/-- **C15_new_child_inherits_version.** `Child` passes `k.version` on by reference
(extendedkey.go:334): a successful `Child` of a key whose version is the caller's slice `r` yields a
key whose version is the same slice `r`. (`Neuter`, parsing, `NewMaster` give the new key its own
version; `SetNet`/`Zero` replace the version slice of their key.) -/
theorem C15_new_child_inherits_version (s : NState) (i idx j : Nat) (r : Ref)
    (hr : aliasOf s.vers i = some r) (hres : (childH X s.heap i idx).2 = .key j) :
    aliasOf (childN X s i idx).vers j = some r ∧ j = s.heap.keys.length := by
  refine ⟨?_, step_key_handle X s.heap i idx j hres⟩
  unfold childN
  rw [libN_eq, resync_vers]
  show aliasOf (versAfter s.vers (.inherit i) (childH X s.heap i idx).2) j = some r
  rw [hres]
  simp only [versAfter, hr]
  rw [aliasOf_cons, if_pos rfl]

/-- **C15_new_derived_memo_sound.** `C15_memo_sound` composes with raw constructions for every key
NOT made by `NewExtendedKey`, whatever a legit caller does: in every reachable state what a memoising
accessor (`pubKeyBytes`, hence `ECPubKey`, `Address`, non-hardened `Child`) returns for such a key is
the public key of its current view. (For raw keys themselves this needs the caller obligation —
`C15_new_transfer_memo_sound` — and fails without it: see `staleHist` below.) -/
theorem C15_new_derived_memo_sound (hX : ExtOK X) (ops : List NOp) (hl : legitRun X {} ops = true)
    (i : Nat) (k : HKey) (hk : (runN X {} ops).heap.keys[i]? = some k)
    (hr : i ∉ (runN X {} ops).raw) :
    (pubKeyBytesH X (runN X {} ops).heap i).2 = pubKeyBytes X (view (runN X {} ops).heap k) := by
  have hm0 : MemoOn X (· ∉ ({} : NState).raw) ({} : NState).heap := by
    intro i k _ hk; simp at hk
  exact pubKeyBytesH_snd_on X (memoN_runN X hX ninv_empty hm0 ops hl) hr hk

/-- which aliases exist: an existing key never acquires one (only `NewExtendedKey` and `Child` of an
aliased key create them, for the new handle) -/
theorem C15_new_alias_only_new (s : NState) (op : NOp) (j : Nat) (hj : j < s.heap.keys.length)
    (h0 : aliasOf s.vers j = none) : aliasOf (stepN X s op).vers j = none :=
  alias_none_stepN X s op hj h0

end

/-- **C15_new_zero_lib_key.** `Zero` of a key NOT made by `NewExtendedKey` (e.g. a child or the
neutered copy of a raw key) changes no other key at all — raw-constructed or not, version included —
and writes to no slice the caller can form. -/
theorem C15_new_zero_lib_key (s : NState) (hi : NInv s) (i : Nat) (hir : i ∉ s.raw) :
    (∀ j, i ≠ j → viewAt (zeroN s i).heap j = viewAt s.heap j) ∧
    (∀ r, ownedRef s r = true → (zeroN s i).heap.read r = s.heap.read r) := by
  refine ⟨fun j hne => viewAt_zeroN_lib hi hir hne, ?_⟩
  intro r hr
  rw [ownedRef_iff] at hr
  unfold zeroN
  rw [libN_eq, resync_read]
  exact read_zeroH_lib hi.toNCore hir hr.1

section
variable {Pt : Type} (X : HDExt Pt)

/-- **C15_new_independent_step_sep.** The finest one-step statement, for ANY in-bounds heap whatever
sharing it contains (e.g. two raw keys sharing a chain code buffer and a third raw key with buffers
of its own): a key `j` none of whose ranges is overlapped by a range of another key (`Sep h j`) is
changed by a library operation only if that operation is `SetNet j`/`Zero j` itself.
(`C15_independent_step` is the case where every key is separated.) -/
theorem C15_new_independent_step_sep (h : Heap)
    (hb : ∀ (i : Nat) (k : HKey), h.keys[i]? = some k → ∀ f : Nat, InB h (fld k f))
    (op : HOp) (j : Nat)
    (hs : ∀ (i : Nat) (ki kj : HKey) (f g : Nat), h.keys[i]? = some ki → h.keys[j]? = some kj → i ≠ j →
      f < 4 → g < 4 → 0 < (fld ki f).len → 0 < (fld kj g).len → overlap (fld ki f) (fld kj g) = false)
    (hj : j < h.keys.length) :
    viewAt (step X h op).1 j = (viewAt h j).map fun v => applyOwn j v op :=
  viewAt_step_sep X hb op hs hj

/-- **C15_new_lib_writes_only_by_zero.** The only library operation that writes to existing memory
is `Zero i`, through the four slices of key `i`: every in-bounds slice `r` (e.g. a caller buffer)
reads the same after any library step that is not a `Zero` of a key with a slice overlapping `r`. -/
theorem C15_new_lib_writes_only_by_zero (h : Heap) (r : Ref) (hb : InB h r) (op : HOp)
    (hz : ∀ i k, op = .zero i → h.keys[i]? = some k →
      ∀ x ∈ [k.key, k.pubKey, k.chainCode, k.parentFP], DisjR x r) :
    (step X h op).1.read r = h.read r :=
  read_step_frame X hb op hz

/-! ## 3. the caller obligation -/

/-- **C15_new_distinct_buffers_ok.** From a heap with the ordinary invariant `Inv` (`heap_inv`: in
bounds, all writable ranges pairwise disjoint), the heap after `NewExtendedKey` satisfies `Inv` IF AND
ONLY IF the key / chain code / fingerprint slices passed are in bounds, pairwise non-overlapping,
and overlap no writable range of any existing key. (Sufficiency is the claim; necessity shows the
obligation cannot be weakened.) -/
theorem C15_new_distinct_buffers_ok (h : Heap) (hi : Inv h) (v k c f : Ref) (d n : Nat) (p : Bool) :
    Inv (newExtendedKeyH h v k c f d n p).1 ↔
      (InB h k ∧ InB h c ∧ InB h f) ∧ (DisjR k c ∧ DisjR k f ∧ DisjR c f) ∧
        (FreeOf h k ∧ FreeOf h c ∧ FreeOf h f) :=
  inv_newExtendedKeyH_iff hi v k c f d n p

/-- what `FreeOf` and `DisjR` say -/
theorem C15_new_obligation_meaning (h : Heap) (a b : Ref) :
    (DisjR a b ↔ (0 < a.len → 0 < b.len → overlap a b = false)) ∧
    (FreeOf h b ↔ ∀ (i : Nat) (ki : HKey) (f : Nat), h.keys[i]? = some ki → f < 4 →
      0 < (fld ki f).len → 0 < b.len → overlap (fld ki f) b = false) :=
  ⟨Iff.rfl, freeOf_iff h b⟩

/-- **C15_new_distinct_buffers_history (heap level).** Under that obligation, if the caller never
touches the slices again (the continuation consists of library operations only), everything of C15
holds for the raw-constructed key as for any other: the invariant in every later state, and for
every key `j` — the raw one is `j = h.keys.length` — independence from all operations on other keys. -/
theorem C15_new_distinct_buffers_history (hX : ExtOK X) (h : Heap) (hi : Inv h) (v k c f : Ref)
    (d n : Nat) (p : Bool)
    (hob : (InB h k ∧ InB h c ∧ InB h f) ∧ (DisjR k c ∧ DisjR k f ∧ DisjR c f) ∧
      (FreeOf h k ∧ FreeOf h c ∧ FreeOf h f)) (ops : List HOp) :
    Inv (run X (newExtendedKeyH h v k c f d n p).1 ops) ∧
    ∀ j, j ≤ h.keys.length →
      viewAt (run X (newExtendedKeyH h v k c f d n p).1 ops) j =
        (viewAt (newExtendedKeyH h v k c f d n p).1 j).map fun w => ops.foldl (applyOwn j) w := by
  have hi' := (inv_newExtendedKeyH_iff hi v k c f d n p).mpr hob
  refine ⟨inv_run X hX hi' ops, fun j hj => viewAt_run X hX hi' ops ?_⟩
  show j < (h.addKey _).1.keys.length
  rw [addKey_keys, List.length_append]; simp; omega

/-- **C15_new_transfer_inv.** Histories with the caller as an actor, under the caller obligation
`transfer` checked at every step (`transferRun`): every `NewExtendedKey` gets in-bounds slices, the
three writable ones pairwise disjoint, disjoint from the version slice, from every range of every
existing key and from every version slice in use, the version slice overlapping no range of an
existing key; and the caller never writes to memory that a key uses (ownership transfer). Then the
ORDINARY invariant `heap_inv` — all keys, raw ones included — holds in every reachable state. -/
theorem C15_new_transfer_inv (hX : ExtOK X) (ops : List NOp) (hl : transferRun X {} ops = true) :
    Inv (runN X {} ops).heap ∧ overlaps (runN X {} ops).heap = [] :=
  ⟨(tinv_runN X hX tinv_empty ops hl).inv, (tinv_runN X hX tinv_empty ops hl).inv.disj⟩

/-- **C15_new_transfer_independent.** Under the caller obligation `C15_independent` holds verbatim
for EVERY key, raw-constructed ones and the version field included: the view of key `j` at the end
of `pre ++ post` is its view after `pre` transformed by exactly the library `SetNet j`/`Zero j`
operations of `post`. So the property holds for raw-constructed keys under exactly this obligation. -/
theorem C15_new_transfer_independent (hX : ExtOK X) (pre post : List NOp)
    (hl : transferRun X {} (pre ++ post) = true) (j : Nat)
    (hj : j < (runN X {} pre).heap.keys.length) :
    viewAt (runN X {} (pre ++ post)).heap j =
      (viewAt (runN X {} pre).heap j).map fun v => post.foldl (applyOwnN j) v := by
  rw [transferRun_append, Bool.and_eq_true] at hl
  rw [runN_append]
  exact viewAt_runN_transfer X hX (tinv_runN X hX tinv_empty pre hl.1) post hl.2 hj

/-- one step, from any state with the ordinary invariant (and the version bookkeeping `TInv`) -/
theorem C15_new_transfer_step (hX : ExtOK X) (s : NState) (ht : TInv s) (op : NOp)
    (hop : transfer s op) (j : Nat) (hj : j < s.heap.keys.length) :
    TInv (stepN X s op) ∧
    viewAt (stepN X s op).heap j = (viewAt s.heap j).map fun v => applyOwnN j v op :=
  ⟨tinv_stepN X hX ht op hop, viewAt_stepN_transfer X ht op hop hj⟩

/-- **C15_new_transfer_memo_sound.** `C15_memo_sound` composes: under the caller obligation the
memoised public key of every key (raw private keys memoise into a fresh library buffer like all
others) is the public key of its current view — what `pubKeyBytes`, `ECPubKey`, `Address`,
non-hardened `Child` use is never stale. -/
theorem C15_new_transfer_memo_sound (hX : ExtOK X) (ops : List NOp)
    (hl : transferRun X {} ops = true) (i : Nat) (k : HKey)
    (hk : (runN X {} ops).heap.keys[i]? = some k) :
    (pubKeyBytesH X (runN X {} ops).heap i).2 = pubKeyBytes X (view (runN X {} ops).heap k) :=
  pubKeyBytesH_snd X (memo_runN_transfer X hX tinv_empty (memo_empty X) ops hl) hk

end

/-! ## non-vacuity and negative witnesses (toy instance of the external primitives) -/

def cb32 (x : UInt8) : Bytes := List.replicate 32 x

/-- the caller allocates seven buffers: 0 a key, 1 a chain code, 2 a fingerprint, 3 a version,
4 a second key, 5 a second fingerprint, 6 a second chain code -/
def callerBufs : List NOp :=
  [.callerAlloc (cb32 1), .callerAlloc (cb32 2), .callerAlloc [9, 9, 9, 9], .callerAlloc xprv,
   .callerAlloc (cb32 3), .callerAlloc [8, 8, 8, 8], .callerAlloc (cb32 4)]

/-- raw key A from buffers 3 (version), 0, 1, 2 -/
def newA : NOp := .newKey ⟨3, 0, 4⟩ ⟨0, 0, 32⟩ ⟨1, 0, 32⟩ ⟨2, 0, 4⟩ 0 0 true
/-- raw key B: its own key and fingerprint buffers, but THE SAME chain code buffer as A -/
def newB : NOp := .newKey ⟨3, 0, 4⟩ ⟨4, 0, 32⟩ ⟨1, 0, 32⟩ ⟨5, 0, 4⟩ 0 0 true
/-- raw key C: distinct buffers 4, 6, 5 (the version buffer 3 is shared with A, which is allowed as
long as nobody writes to it) -/
def newC : NOp := .newKey ⟨3, 0, 4⟩ ⟨4, 0, 32⟩ ⟨6, 0, 32⟩ ⟨5, 0, 4⟩ 1 2 true

/-! ### (a) the same chain code buffer passed to two constructions -/

def shareAB : List NOp := callerBufs ++ [newA, newB]
def stAB : NState := runN toy {} shareAB

-- the caller is within its rights (`legitRun`), but does not meet the obligation (`transferRun`)
example : legitRun toy {} shareAB = true := by decide +kernel
example : transferRun toy {} shareAB = false := by decide +kernel
example : transferRun toy {} (callerBufs ++ [newA]) = true := by decide +kernel
/-- NEGATIVE: the chain codes of the two raw keys are the same memory — the ordinary invariant fails -/
example : overlaps stAB.heap = [((0, 2), (1, 2))] := by decide +kernel
/-- NEGATIVE: `Zero` of raw key 0 changes what raw key 1 serialises to -/
example : stringH toy (zeroN stAB 0).heap 1 ≠ stringH toy stAB.heap 1 := by decide +kernel
-- … while the EXTENDED invariant holds (instance of `C15_new_inv`)
example : NInv stAB := C15_new_inv toy toy_ok shareAB (by decide +kernel)

/-! ### (b) a field slice taken from an existing key's memory -/

def hMaster : Heap := (newMasterH toy {} seed xprv).1
/-- key and chain code slices pointing into the master key's HMAC buffer (not expressible by a Go
caller outside the package: no accessor returns these slices — `legit` is false — but it is what an
in-package caller, or a raw key built from another raw key's buffers, does) -/
def hStolen : Heap := (newExtendedKeyH hMaster Ref.nil ⟨0, 0, 32⟩ ⟨0, 32, 32⟩ ⟨1, 0, 4⟩ 0 0 true).1

example : overlaps hStolen = [((0, 0), (1, 0)), ((0, 2), (1, 2)), ((0, 3), (1, 3))] := by decide +kernel
/-- NEGATIVE: zeroing the raw key wipes the master key -/
example : stringH toy (zeroH hStolen 1) 0 ≠ stringH toy hStolen 0 := by decide +kernel
example : (viewAt (zeroH hStolen 1) 0).map (·.key) = some (List.replicate 32 0) := by decide +kernel
example : legit { heap := hMaster } (.newKey Ref.nil ⟨0, 0, 32⟩ ⟨0, 32, 32⟩ ⟨1, 0, 4⟩ 0 0 true) = false := by
  decide +kernel
-- `C15_new_distinct_buffers_ok`, direction "only if": the obligation fails, hence so does `Inv`
example : ¬ FreeOf hMaster ⟨0, 32, 32⟩ := by decide +kernel
example : ¬ Inv hStolen := fun hi =>
  absurd ((C15_new_distinct_buffers_ok hMaster
    (heap_inv_run toy toy_ok {} heap_inv_init [.newMaster seed xprv]) Ref.nil ⟨0, 0, 32⟩ ⟨0, 32, 32⟩
    ⟨1, 0, 4⟩ 0 0 true).mp hi).2.2.2.1 (by decide +kernel)

/-! ### the obligation is satisfiable; instances of the positive theorems -/

/-- two raw keys from distinct buffers, a child, a neutered copy and a parsed copy of the first,
memoisation, zeroing of the first raw key, a hardened child of the second, zeroing of a child -/
def okHist : List NOp :=
  callerBufs ++ [newA, .lib (.child 0 5), .lib (.neuter 0), .lib (.parse 0), newC,
    .lib (.pubKeyBytes 0), .lib (.zero 0), .lib (.child 4 0x80000001), .lib (.zero 1)]

example : transferRun toy {} okHist = true := by decide +kernel
example : legitRun toy {} okHist = true := by decide +kernel
-- all six keys were really created; two are raw; key 5 (child of raw key 4) shares its version slice
example : (runN toy {} okHist).heap.keys.length = 6 := by decide +kernel
example : (runN toy {} okHist).raw = [4, 0] := by decide +kernel
example : (runN toy {} okHist).vers = [(5, ⟨3, 0, 4⟩), (4, ⟨3, 0, 4⟩)] := by decide +kernel
-- instance of `C15_new_transfer_inv`
example : overlaps (runN toy {} okHist).heap = [] := by decide +kernel
example : overlaps (runN toy {} okHist).heap = [] :=
  (C15_new_transfer_inv toy toy_ok okHist (by decide +kernel)).2
-- instance of `C15_new_transfer_independent`: the neutered copy (2) and the parsed copy (3) of raw key 0
-- keep their views although raw key 0 was zeroed, and they are not trivial
example : viewAt (runN toy {} okHist).heap 2 = viewAt (runN toy {} (okHist.take 10)).heap 2 := by
  decide +kernel
example : viewAt (runN toy {} okHist).heap 3 = viewAt (runN toy {} (okHist.take 11)).heap 3 := by
  decide +kernel
example : (viewAt (runN toy {} okHist).heap 3).map (·.key) = some (cb32 1) := by decide +kernel
-- the raw key 4 is untouched by the zeroing of raw key 0 and of key 1
example : viewAt (runN toy {} okHist).heap 4 = viewAt (runN toy {} (okHist.take 12)).heap 4 := by
  decide +kernel
-- `Zero` of raw key 0 wiped the caller's three buffers (instance of `C15_new_aliases_caller` (3))
example : ((runN toy {} okHist).heap.bufs.take 3).all (·.all (· == 0)) = true := by decide +kernel
-- … and nothing else of the caller's
example : (runN toy {} okHist).heap.bufs[3]? = some xprv := by decide +kernel
-- the hypotheses of `C15_new_derived_independent` hold for key 2 after the first 10 steps
example : 2 < (runN toy {} (okHist.take 10)).heap.keys.length ∧ 2 ∉ (runN toy {} (okHist.take 10)).raw ∧
    aliasOf (runN toy {} (okHist.take 10)).vers 2 = none := by decide +kernel

/-! ### the version slice: `Child` shares it -/

/-- raw key 0, its child 1, grandchild 2; `SetNet` on the grandchild; then the caller overwrites the
version buffer it passed -/
def verHist : List NOp :=
  callerBufs ++ [newA, .lib (.child 0 5), .lib (.child 1 7), .lib (.setNet 2 [1, 1, 1, 1] [2, 2, 2, 2]),
    .callerWrite ⟨3, 0, 4⟩ [4, 3, 2, 1]]

example : legitRun toy {} verHist = true := by decide +kernel
example : (runN toy {} verHist).vers = [(1, ⟨3, 0, 4⟩), (0, ⟨3, 0, 4⟩)] := by decide +kernel
/-- NEGATIVE (a surprise of the Go code, not of the model): the caller's write changes the version,
hence the serialisation, of the DERIVED key 1 — `Child` passed the parent's version slice on -/
example : (viewAt (runN toy {} verHist).heap 1).map (·.version) = some [4, 3, 2, 1] := by decide +kernel
example : (viewAt (runN toy {} (verHist.take 11)).heap 1).map (·.version) = some xprv := by decide +kernel
example : stringH toy (runN toy {} verHist).heap 1 ≠ stringH toy (runN toy {} (verHist.take 11)).heap 1 := by
  decide +kernel
-- everything else of key 1 is unchanged (instance of `C15_new_derived_independent_modver`) …
example : (viewAt (runN toy {} verHist).heap 1).map eraseVer =
    (viewAt (runN toy {} (verHist.take 11)).heap 1).map eraseVer := by decide +kernel
-- … and key 2, which got its own version from `SetNet`, is unchanged altogether
example : viewAt (runN toy {} verHist).heap 2 = viewAt (runN toy {} (verHist.take 11)).heap 2 := by
  decide +kernel
example : (viewAt (runN toy {} verHist).heap 2).map (·.version) = some [1, 1, 1, 1] := by decide +kernel
-- the write is legit but violates the obligation
example : transferRun toy {} verHist = false := by decide +kernel
example : transferRun toy {} (verHist.take 11) = true := by decide +kernel

-- the hypotheses of `C15_new_child_inherits_version` are satisfiable: raw key 0 has the alias, and its
-- child gets handle 1
example : aliasOf (runN toy {} (callerBufs ++ [newA])).vers 0 = some ⟨3, 0, 4⟩ ∧
    (match (childH toy (runN toy {} (callerBufs ++ [newA])).heap 0 5).2 with
      | .key j => some j | _ => none) = some 1 := by decide +kernel

/-! ### three raw keys, two of them sharing: the third is still independent (`Sep`) -/

def shareABC : List NOp := callerBufs ++ [.callerAlloc (cb32 7), .callerAlloc (cb32 8), .callerAlloc [7, 7, 7, 7],
  newA, newB, .newKey ⟨3, 0, 4⟩ ⟨7, 0, 32⟩ ⟨8, 0, 32⟩ ⟨9, 0, 4⟩ 0 0 true]

example : legitRun toy {} shareABC = true := by decide +kernel
example : overlaps (runN toy {} shareABC).heap = [((0, 2), (1, 2))] := by decide +kernel
-- `Zero` of the sharing raw key 0 changes raw key 1 but not raw key 2
example : viewAt (zeroN (runN toy {} shareABC) 0).heap 2 = viewAt (runN toy {} shareABC).heap 2 := by
  decide +kernel
example : viewAt (zeroN (runN toy {} shareABC) 0).heap 1 ≠ viewAt (runN toy {} shareABC).heap 1 := by
  decide +kernel

/-! ### `Zero` of a derived key touches nothing of the caller's or of any other key -/

-- instance of `C15_new_zero_lib_key`: in the sharing state `stAB` extended by a child of raw key 0,
-- zeroing that child (handle 2) leaves both raw keys alone
def shareABchild : List NOp := shareAB ++ [.lib (.child 0 5)]
def stABchild : NState := runN toy {} shareABchild
example : 2 ∉ stABchild.raw ∧ stABchild.heap.keys.length = 3 := by decide +kernel
example : viewAt (zeroN stABchild 2).heap 0 = viewAt stABchild.heap 0 :=
  (C15_new_zero_lib_key stABchild
    (C15_new_inv toy toy_ok shareABchild (by decide +kernel)) 2
    (by decide +kernel)).1 0 (by decide)

/-! ### the memoised public key of a raw key goes stale when the caller rewrites the key buffer -/

def staleHist : List NOp := callerBufs ++ [newA, .lib (.pubKeyBytes 0), .callerWrite ⟨0, 0, 32⟩ (cb32 5)]

example : legitRun toy {} staleHist = true := by decide +kernel
example : transferRun toy {} staleHist = false := by decide +kernel
/-- NEGATIVE: `C15_memo_sound` fails for a raw key whose caller keeps writing: `pubKeyBytes()` returns
the public key of the OLD private key (the memo lives in library memory; the key bytes do not) -/
example : ((runN toy {} staleHist).heap.keys[0]?.map fun k =>
    decide ((pubKeyBytesH toy (runN toy {} staleHist).heap 0).2 =
      pubKeyBytes toy (view (runN toy {} staleHist).heap k))) = some false := by decide +kernel
-- the memo of the DERIVED keys is sound even in this history (instance of `C15_new_derived_memo_sound`):
-- key 0 is the only raw one
example : (runN toy {} staleHist).raw = [0] := by decide +kernel
-- whereas without the write it is sound (instance of `C15_new_transfer_memo_sound`)
example : ((runN toy {} (staleHist.take 9)).heap.keys[0]?.map fun k =>
    decide ((pubKeyBytesH toy (runN toy {} (staleHist.take 9)).heap 0).2 =
      pubKeyBytes toy (view (runN toy {} (staleHist.take 9)).heap k))) = some true := by decide +kernel

/-- a derived private key with a memo, then the caller rewrites the raw parent's key buffer: the
derived key's memo is still sound (instance of `C15_new_derived_memo_sound`) -/
def staleHist2 : List NOp :=
  callerBufs ++ [newA, .lib (.child 0 5), .lib (.pubKeyBytes 1), .lib (.pubKeyBytes 0),
    .callerWrite ⟨0, 0, 32⟩ (cb32 5), .lib (.zero 0)]

example : legitRun toy {} staleHist2 = true ∧ 1 ∉ (runN toy {} staleHist2).raw := by decide +kernel
example : ((runN toy {} staleHist2).heap.keys[1]?.map fun k =>
    decide (k.isPrivate = true ∧ k.pubKey.len ≠ 0 ∧
      (pubKeyBytesH toy (runN toy {} staleHist2).heap 1).2 =
        pubKeyBytes toy (view (runN toy {} staleHist2).heap k))) = some true := by decide +kernel

/-! ### instances of the heap-level theorems -/

-- `C15_new_aliases_caller` on the master heap with a fresh caller buffer: slice headers are shared
def hCaller : Heap := (hMaster.alloc (cb32 6)).1
example : (newExtendedKeyH hCaller Ref.nil ⟨2, 0, 16⟩ ⟨2, 16, 12⟩ ⟨2, 28, 4⟩ 3 4 false).1.bufs = hCaller.bufs := rfl
-- the obligation of `C15_new_distinct_buffers_ok` holds for three disjoint slices of the new buffer …
example : (InB hCaller ⟨2, 0, 16⟩ ∧ InB hCaller ⟨2, 16, 12⟩ ∧ InB hCaller ⟨2, 28, 4⟩) ∧
    (DisjR ⟨2, 0, 16⟩ ⟨2, 16, 12⟩ ∧ DisjR ⟨2, 0, 16⟩ ⟨2, 28, 4⟩ ∧ DisjR ⟨2, 16, 12⟩ ⟨2, 28, 4⟩) ∧
    (FreeOf hCaller ⟨2, 0, 16⟩ ∧ FreeOf hCaller ⟨2, 16, 12⟩ ∧ FreeOf hCaller ⟨2, 28, 4⟩) := by
  decide +kernel
example : Inv (newExtendedKeyH hCaller Ref.nil ⟨2, 0, 16⟩ ⟨2, 16, 12⟩ ⟨2, 28, 4⟩ 3 4 false).1 :=
  (C15_new_distinct_buffers_ok hCaller
    (inv_alloc _ (heap_inv_run toy toy_ok {} heap_inv_init [.newMaster seed xprv])) Ref.nil
    ⟨2, 0, 16⟩ ⟨2, 16, 12⟩ ⟨2, 28, 4⟩ 3 4 false).mpr (by decide +kernel)
-- … and fails for overlapping slices of it
example : ¬ DisjR ⟨2, 0, 17⟩ ⟨2, 16, 12⟩ := by decide
-- the caller write of `C15_new_version_shared`
example : InB (runN toy {} callerBufs).heap ⟨3, 0, 4⟩ ∧ ([4, 3, 2, 1] : Bytes).length = 4 := by
  decide +kernel

end Bch.Props.C15
