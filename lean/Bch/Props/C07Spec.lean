import Bch.Proofs.Bech32Spec
import Bch.Props.C07b
/-!
C07 (bech32 against BIP173): the model `Bch.Model.Bech32` of `/repo/bech32/bech32.go` — GEN table, 30-bit
register, shifts and masks — computes what the independent transcription of BIP173
`Bch.Spec.Bech32` (`Bch/Spec/Bech32Spec.lean`) defines with a field, a generator polynomial, a polynomial
remainder, a character table and a list of validity rules.  Proofs: `Bch/Proofs/Bech32Spec.lean`.

* sections 1–2 are about the transcription alone (sanity: GF(32) is a field, `polyRem` is a remainder);
* sections 3–5 tie the model to it for ALL inputs (`polymod`, checksum, `Encode`, `Decode`);
* section 6 evaluates the BIP173 test vectors on the transcription (tests, not the claim).
-/
namespace Bch.Props.C07
open Bch Bch.Model.Bech32
open Bch.Spec.Bech32 (Poly pack polyRem remStep scale gfMul gfAdd generator coeff mulCoeff)

/-! ## 1. the transcription's GF(32) is a field -/

/-- `gfMul` (product of GF(2)-polynomials reduced modulo `a^5 + a^3 + 1`) and `gfAdd` (XOR) on `0…31`:
closed, commutative, associative, distributive, unit `1`, every non-zero element invertible. -/
theorem C07_bech32_spec_field :
    (∀ a b, a < 32 → b < 32 → gfMul a b < 32 ∧ gfMul a b = gfMul b a) ∧
    (∀ a b c, a < 32 → b < 32 → c < 32 → gfMul (gfMul a b) c = gfMul a (gfMul b c) ∧
      gfMul a (gfAdd b c) = gfAdd (gfMul a b) (gfMul a c)) ∧
    (∀ a, a < 32 → gfMul a 1 = a ∧ gfMul a 0 = 0) ∧
    (∀ a, 0 < a → a < 32 → ∃ b, b < 32 ∧ gfMul a b = 1) :=
  Bch.Proofs.Bech32Spec.gf32_field

/-- test: the worked example of the reference implementation, `{5} * {26} = {9}`; `a^5 = a^3 + 1` -/
example : gfMul 5 26 = 9 ∧ gfMul 16 2 = 9 ∧ gfMul 2 2 = 4 := by decide +kernel

/-! ## 2. `polyRem` is the remainder modulo the generator polynomial -/

/-- For every polynomial `p` over GF(32): `polyRem p` has six coefficients (degree `< 6`), they are field
elements, and there is a quotient `q` with `p(x) = q(x)·g(x) + (polyRem p)(x)` — stated coefficient by
coefficient (`coeff · k` = coefficient of `x^k`, `mulCoeff q g k = Σ_{i ≤ k} q_i·g_{k-i}`). -/
theorem C07_bech32_spec_remainder (p : Poly) (hp : ∀ c ∈ p, c < 32) :
    (polyRem p).length = 6 ∧ (∀ c ∈ polyRem p, c < 32) ∧
    ∃ q : Poly, (∀ c ∈ q, c < 32) ∧
      ∀ k, coeff p k = gfAdd (mulCoeff q generator k) (coeff (polyRem p) k) :=
  Bch.Proofs.Bech32Spec.polyRem_is_remainder p hp

/-- … and it is the only one: a list `r` of six coefficients satisfies `p = q·g + r` for some quotient `q`
iff `r = polyRem p`.  So `polyRem` (defined by long division) IS "the remainder of `p(x)` modulo `g(x)`" of
the standard's text. -/
theorem C07_bech32_spec_remainder_unique (p r : Poly) (hp : ∀ c ∈ p, c < 32) (hl : r.length = 6) :
    (∃ q : Poly, (∀ c ∈ q, c < 32) ∧
      ∀ k, coeff p k = gfAdd (mulCoeff q generator k) (coeff r k)) ↔ r = polyRem p :=
  Bch.Proofs.Bech32Spec.polyRem_iff p r hp hl

/-- test (non-vacuity, and the shape of `g`): `x^6 mod g = {29}x^5 + {22}x^4 + {20}x^3 + {21}x^2 + {29}x + {18}`,
`g mod g = 0`, a polynomial of degree `< 6` is its own remainder -/
example : (∀ c ∈ ([1, 0, 0, 0, 0, 0, 0] : Poly), c < 32) ∧
    polyRem [1, 0, 0, 0, 0, 0, 0] = [29, 22, 20, 21, 29, 18] ∧
    polyRem generator = [0, 0, 0, 0, 0, 0] ∧ polyRem [7, 0, 31] = [0, 0, 0, 7, 0, 31] := by
  decide +kernel

/-! ## 3. the checksum register of the model is the packed remainder -/

/-- **C07_bech32_gen_table.** The five constants of the Go/BIP173 `GEN` table are exactly the packed
remainders of `a^i · x^6` modulo `g(x)` (`a^i` is the field element `2^i`), `i = 0…4`. -/
theorem C07_bech32_gen_table :
    gen = (List.range 5).map fun i => pack (polyRem [2 ^ i, 0, 0, 0, 0, 0, 0]) :=
  Bch.Proofs.Bech32Spec.gen_table

/-- the same, constant by constant -/
example : pack (polyRem [1, 0, 0, 0, 0, 0, 0]) = 0x3b6a57b2 ∧ pack (polyRem [2, 0, 0, 0, 0, 0, 0]) = 0x26508e6d ∧
    pack (polyRem [4, 0, 0, 0, 0, 0, 0]) = 0x1ea119fa ∧ pack (polyRem [8, 0, 0, 0, 0, 0, 0]) = 0x3d4233dd ∧
    pack (polyRem [16, 0, 0, 0, 0, 0, 0]) = 0x2a1462b3 := by decide +kernel

/-- One step of the table-driven loop (`b = chk >> 25; chk = (chk & 0x1ffffff) << 5 ^ v;` xor the table
entries selected by the bits of `b`) on a register that holds the packed remainder `r` is one step of the
long division: multiply by `x`, add the next coefficient, reduce modulo `g`. -/
theorem C07_bech32_polymod_step_spec (r : Poly) (v : Nat) (hl : r.length = 6)
    (hr : ∀ c ∈ r, c < 32) (hv : v < 32) :
    polymodStep (pack r) v = pack (remStep r v) ∧ (remStep r v).length = 6 ∧
      ∀ c ∈ remStep r v, c < 32 :=
  Bch.Proofs.Bech32Spec.step_spec r v hl hr hv

/-- **C07_bech32_polymod_spec.** For every list of 5-bit values the model's `polymod` (table-driven,
bitwise) is the polynomial-remainder specification: the packed coefficients of
`(x^n + v_0 x^{n-1} + … + v_{n-1}) mod g(x)` over GF(32). -/
theorem C07_bech32_polymod_spec (values : List Nat) (h : ∀ v ∈ values, v < 32) :
    polymod values = Spec.Bech32.polymod values ∧
    Spec.Bech32.polymod values = pack (polyRem (1 :: values)) :=
  ⟨Bch.Proofs.Bech32Spec.polymod_spec values h, rfl⟩

/-- test (non-vacuity) -/
example : (∀ v ∈ [3, 3, 0, 2, 3], v < 32) ∧ polymod [3, 3, 0, 2, 3] = pack (polyRem [1, 3, 3, 0, 2, 3]) := by
  decide +kernel

/-- The checksum bytes the model creates are the spec's six checksum values (the coefficients of
`v(x)·x^6 mod g(x)` plus the constant 1), and the model's verification is the spec's (remainder of the
whole = the constant polynomial 1) — for every human-readable part and all 5-bit data. -/
theorem C07_bech32_checksum_spec (hrp data : Bytes) (hd : ∀ d ∈ data, d.toNat < 32) :
    (checksum hrp data).map UInt8.toNat = Spec.Bech32.checksum hrp (data.map UInt8.toNat) ∧
    verifyChecksum hrp data = Spec.Bech32.verify hrp (data.map UInt8.toNat) ∧
    hrpExpand hrp = Spec.Bech32.hrpExpand hrp :=
  ⟨Bch.Proofs.Bech32Spec.checksum_spec hrp data hd, Bch.Proofs.Bech32Spec.verify_spec hrp data hd,
    Bch.Proofs.Bech32Spec.hrpExpand_eq hrp⟩

/-! ## 4. `Encode` -/

/-- **C07_bech32_encode_spec.** For all inputs `Encode` returns what the specification prescribes —
`hrp`, `'1'`, the charset characters of the data values and of the six checksum values — and fails in
exactly the same case (a data byte that is not a 5-bit value). -/
theorem C07_bech32_encode_spec (hrp data : Bytes) :
    Encode hrp data = Spec.Bech32.encode hrp data :=
  Bch.Proofs.Bech32Spec.encode_spec hrp data

/-! ## 5. `Decode` -/

/-- `Decode` and the rule-by-rule validity check of the specification agree on every string: same
acceptance, same `(hrp, data)` (the Go error kinds are not part of BIP173). -/
theorem C07_bech32_decode_spec_fun (s : Bytes) : (Decode s).toOption = Spec.Bech32.decode s :=
  Bch.Proofs.Bech32Spec.decode_spec s

/-- **C07_bech32_decode_spec.** `Decode s` returns `(hrp, data)` iff the specification calls `s` valid
with that human-readable part and data: at most 90 characters, all in [33-126], not mixed-case, the LAST
`'1'` of the lower-cased string separates a non-empty `hrp` from a data part of at least six charset
characters, the remainder of the value polynomial is the constant 1, and `data` are the values without the
last six. -/
theorem C07_bech32_decode_spec (s hrp data : Bytes) :
    Decode s = .ok (hrp, data) ↔ Spec.Bech32.decode s = some (hrp, data) :=
  Bch.Proofs.Bech32Spec.decode_spec_iff s hrp data

/-- The spec's splitting rule, declaratively: "the last `'1'` in the string is the separator". -/
theorem C07_bech32_spec_separator (s : Bytes) :
    ((49 : UInt8) ∉ s ∧ Spec.Bech32.splitLastSep s = none) ∨
    ∃ pre post, s = pre ++ 49 :: post ∧ (49 : UInt8) ∉ post ∧
      Spec.Bech32.splitLastSep s = some (pre, post) :=
  Bch.Proofs.Bech32Spec.splitLastSep_spec s

/-- Consistency of the transcription with itself (via `C07_bech32_decode_iff`): the spec decoder accepts
`s` with result `(hrp, data)` iff `s` has 8…90 characters in [33-126], is not mixed-case, `hrp` is
non-empty and the lower-cased `s` IS the spec encoding of `(hrp, data)` — in particular its last six data
characters are the spec checksum. -/
theorem C07_bech32_spec_decode_iff (s hrp data : Bytes) :
    Spec.Bech32.decode s = some (hrp, data) ↔
      (8 ≤ s.length ∧ s.length ≤ 90) ∧ (∀ c ∈ s, 33 ≤ c ∧ c ≤ 126) ∧
      ((∀ c ∈ s, ¬(65 ≤ c ∧ c ≤ 90)) ∨ (∀ c ∈ s, ¬(97 ≤ c ∧ c ≤ 122))) ∧ 1 ≤ hrp.length ∧
      Spec.Bech32.encode hrp data = some (s.map Spec.Bech32.lower) := by
  rw [← C07_bech32_decode_spec, C07_bech32_decode_iff, C07_bech32_encode_spec,
    Bch.Proofs.Bech32Spec.map_lower]

/-- Under the conditions BIP173 puts on an encoder's input (non-empty lower-case `hrp` over [33-126],
5-bit data, at most 90 characters in total) the spec encoding is a valid string that decodes to the
input. -/
theorem C07_bech32_spec_roundtrip (hrp data : Bytes) (hne : 1 ≤ hrp.length)
    (hhrp : ∀ c ∈ hrp, (33 ≤ c ∧ c ≤ 126) ∧ ¬(65 ≤ c ∧ c ≤ 90))
    (hd : ∀ d ∈ data, d.toNat < 32)
    (hlen : hrp.length + 1 + data.length + 6 ≤ 90) :
    ∃ s, Spec.Bech32.encode hrp data = some s ∧ Spec.Bech32.decode s = some (hrp, data) := by
  obtain ⟨s, h1, h2, _⟩ := C07_bech32_roundtrip hrp data hne hhrp hd hlen
  exact ⟨s, by rw [← C07_bech32_encode_spec]; exact h1, (C07_bech32_decode_spec s hrp data).mp h2⟩

/-- test (non-vacuity of the hypotheses above): hrp "a1b", data [0, 31, 7] -/
example : 1 ≤ (Bytes.ofString "a1b").length ∧
    (∀ c ∈ Bytes.ofString "a1b", (33 ≤ c ∧ c ≤ 126) ∧ ¬(65 ≤ c ∧ c ≤ 90)) ∧
    (∀ d ∈ ([0, 31, 7] : Bytes), d.toNat < 32) ∧
    (Bytes.ofString "a1b").length + 1 + ([0, 31, 7] : Bytes).length + 6 ≤ 90 ∧
    (∀ d ∈ ([0, 31, 7] : Bytes).map UInt8.toNat, d < 32) := by decide +kernel

/-! ## 6. the BIP173 test vectors, evaluated on the TRANSCRIPTION (tests of the spec, not the claim) -/

/-- a valid vector: the spec decoder accepts it and the spec encoder gives back its lower-case form -/
def specValid (str : String) : Bool :=
  match Spec.Bech32.decode (Bytes.ofString str) with
  | some (hrp, data) => Spec.Bech32.encode hrp data == some ((Bytes.ofString str).map Spec.Bech32.lower)
  | none => false

/-- "valid Bech32" strings of BIP173 -/
example : Spec.Bech32.decode (Bytes.ofString "A12UEL5L") = some (Bytes.ofString "a", []) := by decide +kernel
example : Spec.Bech32.decode (Bytes.ofString "a12uel5l") = some (Bytes.ofString "a", []) := by decide +kernel
example : Spec.Bech32.encode (Bytes.ofString "a") [] = some (Bytes.ofString "a12uel5l") := by decide +kernel
example : Spec.Bech32.decode (Bytes.ofString "abcdef1qpzry9x8gf2tvdw0s3jn54khce6mua7lmqqqxw") =
    some (Bytes.ofString "abcdef", (List.range 32).map UInt8.ofNat) := by decide +kernel
example : Spec.Bech32.encode (Bytes.ofString "abcdef") ((List.range 32).map UInt8.ofNat) =
    some (Bytes.ofString "abcdef1qpzry9x8gf2tvdw0s3jn54khce6mua7lmqqqxw") := by decide +kernel
example : Spec.Bech32.decode (Bytes.ofString
    "11qqqqqqqqqqqqqqqqqqqqqqqqqqqqqqqqqqqqqqqqqqqqqqqqqqqqqqqqqqqqqqqqqqqqqqqqqqqqqqqqqqc8247j")
      = some (Bytes.ofString "1", List.replicate 82 0) := by decide +kernel
example : Spec.Bech32.decode (Bytes.ofString "?1ezyfcl") = some (Bytes.ofString "?", []) := by decide +kernel
example : specValid
    "an83characterlonghumanreadablepartthatcontainsthenumber1andtheexcludedcharactersbio1tt5tgs" = true := by
  decide +kernel
example : specValid "split1checkupstagehandshakeupstreamerranterredcaperred2y9e3w" = true := by
  decide +kernel
example : (Spec.Bech32.decode (Bytes.ofString
    "split1checkupstagehandshakeupstreamerranterredcaperred2y9e3w")).map Prod.fst
      = some (Bytes.ofString "split") := by decide +kernel
example : specValid "A12UEL5L" = true ∧ specValid "?1ezyfcl" = true := by decide +kernel

/-- "invalid Bech32" strings of BIP173, with BIP173's reasons -/
-- HRP character out of range (0x20, 0x7F, 0x80)
example : Spec.Bech32.decode (0x20 :: Bytes.ofString "1nwldj5") = none := by decide +kernel
example : Spec.Bech32.decode (0x7f :: Bytes.ofString "1axkwrx") = none := by decide +kernel
example : Spec.Bech32.decode (0x80 :: Bytes.ofString "1eym55h") = none := by decide +kernel
-- overall max length exceeded
example : Spec.Bech32.decode (Bytes.ofString
    "an84characterslonghumanreadablepartthatcontainsthenumber1andtheexcludedcharactersbio1569pvx")
      = none := by decide +kernel
-- no separator character
example : Spec.Bech32.decode (Bytes.ofString "pzry9x0s0muk") = none := by decide +kernel
-- empty HRP
example : Spec.Bech32.decode (Bytes.ofString "1pzry9x0s0muk") = none := by decide +kernel
example : Spec.Bech32.decode (Bytes.ofString "10a06t8") = none := by decide +kernel
example : Spec.Bech32.decode (Bytes.ofString "1qzzfhee") = none := by decide +kernel
-- invalid data character
example : Spec.Bech32.decode (Bytes.ofString "x1b4n0q5v") = none := by decide +kernel
-- too short checksum
example : Spec.Bech32.decode (Bytes.ofString "li1dgmt3") = none := by decide +kernel
-- invalid character in checksum
example : Spec.Bech32.decode (Bytes.ofString "de1lg7wt" ++ [0xff]) = none := by decide +kernel
-- checksum calculated with uppercase form of HRP
example : Spec.Bech32.decode (Bytes.ofString "A1G7SGD8") = none := by decide +kernel
-- mixed case
example : Spec.Bech32.decode (Bytes.ofString "A12UEl5L") = none := by decide +kernel

/-- … and the model on the same strings, as `C07_bech32_decode_spec_fun` says (more in `C07b.lean`) -/
example : (Decode (Bytes.ofString "split1checkupstagehandshakeupstreamerranterredcaperred2y9e3w")).toOption
    = Spec.Bech32.decode (Bytes.ofString "split1checkupstagehandshakeupstreamerranterredcaperred2y9e3w") := by
  decide +kernel
example : Decode (Bytes.ofString "1qzzfhee") = .error .sep ∧
    Decode (0x80 :: Bytes.ofString "1eym55h") = .error .char := by decide +kernel

end Bch.Props.C07
