import Bch.Proofs.BloomTxFuel
/-
C10, continued — the fuel of the scan model discharged for the real bloom filter, and the index list
of the merkle-block builders.  (Companion of `Bch/Props/C10.lean`; same namespace, no name in common,
does not import it.)

Background.  The Go function `checkFilterTx` (bloom/merkleblock.go) is recursive; its model
`checkFilterTx` (`Bch/Model/BloomTx.lean`) carries a `fuel` argument bounding the *recursion depth*
and the flag `Scan.outOfFuel` says that the bound was hit (the Go code has no such bound: it would
recurse deeper).  `C10_block_complete_b` / `C10_block_complete_spenders` assume `outOfFuel = false`.
Here:

* `C10_scan_oof_steps` (any filter type, no law): a scan that ran out of fuel performed at least
  `fuel` evaluations — each level of a recursion of depth `fuel` evaluated one transaction.
* `C10_bloom_scan_version`: for the real filter in *every* state the version counter is at most the
  number of outputs of the block.  (`C10_scan_version` needed a loaded filter of at most 36000
  bytes because it argued with `Matches`; here the argument uses "inserting `x` changes nothing",
  `bloomCov`, which is monotone for every bit array since `setBit`s commute and are idempotent.)
* with `C10_scan_steps` (steps ≤ block.size · (version + 1), no hypothesis):
  **`C10_bloom_scan_total`** — fuel above `block.size · (outputs + 1)` never runs out, for every
  block (any size, any spend graph, hash-reference cycles and duplicate ids included) and every
  filter state.
* `C10_bloom_complete` — soundness, completeness (a), (b) and spenders-in-any-order for the real
  filter without any `outOfFuel` hypothesis.
* `C10_scan_fuel_mono` / `C10_scan_fuel_independent` — the result does not depend on the fuel.
* `C10_merkle_indices` … — the index list returned next to the merkle block.
-/
namespace Bch.Props.C10
open Bch Bch.Model.BloomTx Bch.Proofs.BloomTx

variable {F : Type} {O : FilterOps F} {G : F → Prop}

/-! ### Fuel, for every filter type -/

/-- **C10_scan_oof_steps** (full; any filter type, any `same`, no law): if the scan ran out of fuel,
    it evaluated at least `fuel` transactions. -/
theorem C10_scan_oof_steps (same : F → F → Bool) (fuel : Nat) (block : Array Tx) (f : F)
    (h : (GetMatchedIndices O same fuel block f).outOfFuel = true) :
    fuel ≤ (GetMatchedIndices O same fuel block f).steps :=
  scan_oof_steps O same block fuel f h

/-- **C10_scan_fuel_mono** (full; any filter type, no law): a scan that did not run out of fuel
    returns the very same state — filter, matched list, step count, version, memo — with any
    larger fuel. -/
theorem C10_scan_fuel_mono (same : F → F → Bool) (block : Array Tx) (fuel fuel' : Nat)
    (hle : fuel ≤ fuel') (f : F) (h : (GetMatchedIndices O same fuel block f).outOfFuel = false) :
    GetMatchedIndices O same fuel' block f = GetMatchedIndices O same fuel block f :=
  scan_fuel_mono O same block fuel fuel' hle f h

/-- Termination from laws (abstract form of `C10_bloom_scan_total`): if `cov f x` implies that
    inserting `x` into `f` changes nothing, holds of `x` after inserting `x`, and is preserved by
    insertions (`CovLaws O cov`), and `same` recognises an unchanged filter, then fuel above
    `block.size * (outputs + 1)` does not run out. -/
theorem C10_scan_total (cov : F → Bytes → Bool) (C : CovLaws O cov) (same : F → F → Bool)
    (hrefl : ∀ f, same f f = true) (fuel : Nat) (block : Array Tx) (f : F)
    (hfuel : block.size * ((block.toList.map (fun t => t.outs.length)).sum + 1) < fuel) :
    (GetMatchedIndices O same fuel block f).outOfFuel = false :=
  scan_total_cov C same hrefl fuel block f hfuel

/-! ### The real bloom filter -/

/-- the real filter satisfies the covered-laws in every state: insertions commute and inserting
    twice is inserting once — no bound on the size of the bit array, loaded or not -/
theorem C10_bloom_add_comm_idem (f : Bch.Model.Bloom.Filter) (x y : Bytes) :
    Bch.Model.Bloom.add (Bch.Model.Bloom.add f x) y = Bch.Model.Bloom.add (Bch.Model.Bloom.add f y) x ∧
    Bch.Model.Bloom.add (Bch.Model.Bloom.add f x) x = Bch.Model.Bloom.add f x :=
  ⟨bloom_add_comm f x y, bloom_add_add f x⟩

/-- **C10_bloom_scan_version** (full): for the real filter in every state (no wire limit, loaded or
    not) and every fuel, the version counter (number of times the bit array changed) is at most the
    number of outputs of the block. -/
theorem C10_bloom_scan_version (fuel : Nat) (block : Array Tx) (f : Bch.Model.Bloom.Filter) :
    (GetMatchedIndices bloomOps bloomSame fuel block f).version ≤
      (block.toList.map (fun t => t.outs.length)).sum :=
  bloom_scan_version fuel block f

/-- polynomial step bound for the real filter in every state (drops the size hypothesis of
    `C10_bloom_scan_steps_poly`) -/
theorem C10_bloom_scan_steps_total (fuel : Nat) (block : Array Tx) (f : Bch.Model.Bloom.Filter) :
    (GetMatchedIndices bloomOps bloomSame fuel block f).steps ≤
      block.size * ((block.toList.map (fun t => t.outs.length)).sum + 1) :=
  Nat.le_trans (scan_steps bloomSame fuel block f)
    (Nat.mul_le_mul_left _ (Nat.succ_le_succ (bloom_scan_version fuel block f)))

/-- **C10_bloom_scan_total** (full): for the real bloom filter (`bloomOps`, change detector
    `bloomSame` = `bytes.Equal` on the bit arrays), **every** block — any number of transactions,
    any spend graph, including cycles of hash references and repeated ids, which cannot occur for
    real transaction hashes but are allowed by the model — every filter state `f` (loaded or not,
    any size) and every fuel above `block.size * (number of outputs + 1)`, the scan does not run
    out of fuel. -/
theorem C10_bloom_scan_total (fuel : Nat) (block : Array Tx) (f : Bch.Model.Bloom.Filter)
    (hfuel : block.size * ((block.toList.map (fun t => t.outs.length)).sum + 1) < fuel) :
    (GetMatchedIndices bloomOps bloomSame fuel block f).outOfFuel = false :=
  bloom_scan_total fuel block f hfuel

/-- the same with the bound `(n+1)·(outputs+2)` that the harness checks the step count against -/
theorem C10_bloom_scan_total_poly (fuel : Nat) (block : Array Tx) (f : Bch.Model.Bloom.Filter)
    (hfuel : (block.size + 1) * ((block.toList.map (fun t => t.outs.length)).sum + 2) ≤ fuel) :
    (GetMatchedIndices bloomOps bloomSame fuel block f).outOfFuel = false := by
  apply bloom_scan_total fuel block f
  show block.size * ((block.toList.map (fun t => t.outs.length)).sum + 1) < fuel
  generalize (block.toList.map (fun t => t.outs.length)).sum = o at hfuel ⊢
  have h1 : block.size * (o + 1) ≤ block.size * (o + 2) := Nat.mul_le_mul_left _ (by omega)
  have h2 : (block.size + 1) * (o + 2) = block.size * (o + 2) + (o + 2) := by
    rw [Nat.add_mul, Nat.one_mul]
  omega

/-- the harness (`Bch/Drive/C10.lean`) runs the model with fuel 3000000: it answers `FUEL` on no
    block with `(n+1)·(outputs+2) ≤ 3000000` -/
theorem C10_bloom_scan_total_driver (block : Array Tx) (f : Bch.Model.Bloom.Filter)
    (h : (block.size + 1) * ((block.toList.map (fun t => t.outs.length)).sum + 2) ≤ 3000000) :
    (GetMatchedIndices bloomOps bloomSame 3000000 block f).outOfFuel = false :=
  C10_bloom_scan_total_poly 3000000 block f h

/-- **C10_scan_fuel_independent** (full): for the real filter, two fuels above the bound give the same
    state; in particular the same matched list, final filter and step count. -/
theorem C10_scan_fuel_independent (block : Array Tx) (f : Bch.Model.Bloom.Filter) (fuel fuel' : Nat)
    (h : block.size * ((block.toList.map (fun t => t.outs.length)).sum + 1) < fuel)
    (h' : block.size * ((block.toList.map (fun t => t.outs.length)).sum + 1) < fuel') :
    GetMatchedIndices bloomOps bloomSame fuel block f = GetMatchedIndices bloomOps bloomSame fuel' block f ∧
    (GetMatchedIndices bloomOps bloomSame fuel block f).matched =
      (GetMatchedIndices bloomOps bloomSame fuel' block f).matched ∧
    (GetMatchedIndices bloomOps bloomSame fuel block f).filter =
      (GetMatchedIndices bloomOps bloomSame fuel' block f).filter := by
  have key : GetMatchedIndices bloomOps bloomSame fuel block f =
      GetMatchedIndices bloomOps bloomSame fuel' block f := by
    rcases Nat.le_total fuel fuel' with hle | hle
    · exact (scan_fuel_mono bloomOps bloomSame block fuel fuel' hle f (bloom_scan_total fuel block f h)).symm
    · exact scan_fuel_mono bloomOps bloomSame block fuel' fuel hle f (bloom_scan_total fuel' block f h')
  exact ⟨key, by rw [key], by rw [key]⟩

/-- **C10_bloom_complete** (full): for the real filter, loaded and within the wire limit (36000 bytes;
    needed by (b) only: an unloaded filter matches nothing even after an insertion), every block
    and every fuel above `block.size * (outputs + 1)` — *no `outOfFuel` hypothesis*:
    the scan does not run out of fuel, and
    * (sound) every reported index is a transaction of the block relevant to the final filter;
    * (a) every transaction relevant to the filter as loaded is reported;
    * (b) the final filter is the loaded filter plus a list `ins` of outpoints, each belonging to an
      eligible output (with a push matching the final filter) of a reported transaction, **every
      transaction of the block spending an inserted outpoint is reported**, and `ins` contains
      the outpoint of every eligible output, with a push matching the loaded filter, of every
      reported transaction;
    * (spenders, any order) if a reported transaction `t` has an eligible output `i` with a push
      matching the loaded filter, every transaction of the block spending `(t.id, i)` is reported,
      whether it stands before or after `t`. -/
theorem C10_bloom_complete (m : Bch.Model.Bloom.Msg) (hm : m.bits.length ≤ 36000)
    (fuel : Nat) (block : Array Tx)
    (hfuel : block.size * ((block.toList.map (fun t => t.outs.length)).sum + 1) < fuel) :
    (GetMatchedIndices bloomOps bloomSame fuel block (some m)).outOfFuel = false ∧
    (∀ i ∈ (GetMatchedIndices bloomOps bloomSame fuel block (some m)).matched, i < block.size ∧
      ∃ tx, block[i]? = some tx ∧
        Relevant bloomOps (GetMatchedIndices bloomOps bloomSame fuel block (some m)).filter tx) ∧
    (∀ i tx, block[i]? = some tx → Relevant bloomOps (some m) tx →
      i ∈ (GetMatchedIndices bloomOps bloomSame fuel block (some m)).matched) ∧
    (∃ ins : List (Bytes × Nat),
      (GetMatchedIndices bloomOps bloomSame fuel block (some m)).filter
        = (ins.map (fun e => outPointBytes e.1 e.2)).foldl Bch.Model.Bloom.add (some m) ∧
      (∀ e ∈ ins,
        (∃ j t, j ∈ (GetMatchedIndices bloomOps bloomSame fuel block (some m)).matched ∧
          block[j]? = some t ∧ t.id = e.1 ∧
          ∃ o, t.outs[e.2]? = some o ∧
            (m.flags = 1 ∨ (m.flags = 2 ∧ o.isPubKeyOrMultisig = true)) ∧
            ∃ ps, o.pushes = some ps ∧ ∃ d ∈ ps, Bch.Model.Bloom.Matches
              (GetMatchedIndices bloomOps bloomSame fuel block (some m)).filter d = true) ∧
        (∀ k u, block[k]? = some u → (∃ inp ∈ u.ins, inp.prevHash = e.1 ∧ inp.prevIdx = e.2) →
          k ∈ (GetMatchedIndices bloomOps bloomSame fuel block (some m)).matched)) ∧
      (∀ j ∈ (GetMatchedIndices bloomOps bloomSame fuel block (some m)).matched, ∀ t i o,
        block[j]? = some t → t.outs[i]? = some o →
        (m.flags = 1 ∨ (m.flags = 2 ∧ o.isPubKeyOrMultisig = true)) →
        (∃ ps, o.pushes = some ps ∧ ∃ d ∈ ps, Bch.Model.Bloom.Matches (some m) d = true) →
        (t.id, i) ∈ ins)) ∧
    (∀ j ∈ (GetMatchedIndices bloomOps bloomSame fuel block (some m)).matched, ∀ t, block[j]? = some t →
      ∀ i o, t.outs[i]? = some o → (m.flags = 1 ∨ (m.flags = 2 ∧ o.isPubKeyOrMultisig = true)) →
      (∃ ps, o.pushes = some ps ∧ ∃ d ∈ ps, Bch.Model.Bloom.Matches (some m) d = true) →
      ∀ k u, block[k]? = some u → (∃ inp ∈ u.ins, inp.prevHash = t.id ∧ inp.prevIdx = i) →
      k ∈ (GetMatchedIndices bloomOps bloomSame fuel block (some m)).matched) := by
  have hf := bloom_scan_total fuel block (some m) hfuel
  have hpos : 0 < fuel := by omega
  obtain ⟨fuel0, rfl⟩ : ∃ k, fuel = k + 1 := ⟨fuel - 1, by omega⟩
  have hb := scan_complete_b_prop bloom_lawful bloomSame bloom_sameSound (fuel0 + 1) block (some m)
    (bloomGood_some m hm) hf
  refine ⟨hf, ?_, ?_, hb, ?_⟩
  · intro i hi
    obtain ⟨tx, hbi, hr⟩ := scan_sound bloom_lawful bloomSame (fuel0 + 1) block (some m) i hi
    exact ⟨scan_matched_lt bloomOps bloomSame (fuel0 + 1) block (some m) i hi, tx, hbi, hr⟩
  · intro i tx hbi hr
    exact scan_complete_a bloom_lawful bloomSame fuel0 block (some m) i tx hbi hr
  · intro j hj t hbj i o ho he hp k u hu hsp
    obtain ⟨ins, _, p, c⟩ := hb
    exact (p _ (c j hj t i o hbj ho he hp)).2 k u hu hsp

/-- completeness (a) and soundness need neither the wire limit nor a loaded filter -/
theorem C10_bloom_complete_a_total (fuel : Nat) (block : Array Tx) (f : Bch.Model.Bloom.Filter)
    (hfuel : block.size * ((block.toList.map (fun t => t.outs.length)).sum + 1) < fuel) :
    (GetMatchedIndices bloomOps bloomSame fuel block f).outOfFuel = false ∧
    (∀ i ∈ (GetMatchedIndices bloomOps bloomSame fuel block f).matched, i < block.size ∧
      ∃ tx, block[i]? = some tx ∧
        Relevant bloomOps (GetMatchedIndices bloomOps bloomSame fuel block f).filter tx) ∧
    (∀ i tx, block[i]? = some tx → Relevant bloomOps f tx →
      i ∈ (GetMatchedIndices bloomOps bloomSame fuel block f).matched) := by
  refine ⟨bloom_scan_total fuel block f hfuel, ?_, ?_⟩
  · intro i hi
    obtain ⟨tx, hbi, hr⟩ := scan_sound bloom_lawful bloomSame fuel block f i hi
    exact ⟨scan_matched_lt bloomOps bloomSame fuel block f i hi, tx, hbi, hr⟩
  · intro i tx hbi hr
    obtain ⟨fuel0, rfl⟩ : ∃ k, fuel = k + 1 := ⟨fuel - 1, by omega⟩
    exact scan_complete_a bloom_lawful bloomSame fuel0 block f i tx hbi hr

/-! ### The index list of the merkle-block builders
`NewMerkleBlock` (bloom/merkleblock.go) calls `GetMatchedIndices`, then walks the block in order and
appends `uint32(txIndex)` to its second result exactly when `matchedMap[txIndex]` is set.
`newMerkleBlockIndices O same fuel block f` is that list. -/

/-- the definition: positions `0 … block.size-1` in order, keeping those in the scan's matched set -/
theorem C10_merkle_indices_def (same : F → F → Bool) (fuel : Nat) (block : Array Tx) (f : F) :
    newMerkleBlockIndices O same fuel block f =
      (List.range block.size).filter
        (fun i => (GetMatchedIndices O same fuel block f).matched.contains i) := rfl

/-- **C10_merkle_indices** (full; any filter type, any fuel, no law): the list returned by the builder
    is exactly the matched set of the scan, in strictly ascending order — hence without duplicates
    — every entry is a position of the block, and it is what sorting the matched set gives
    (`mergeSort` is what the harness prints for both sides). -/
theorem C10_merkle_indices (same : F → F → Bool) (fuel : Nat) (block : Array Tx) (f : F) :
    (∀ i, i ∈ newMerkleBlockIndices O same fuel block f ↔
      i ∈ (GetMatchedIndices O same fuel block f).matched) ∧
    (newMerkleBlockIndices O same fuel block f).Pairwise (· < ·) ∧
    (newMerkleBlockIndices O same fuel block f).Nodup ∧
    (∀ i ∈ newMerkleBlockIndices O same fuel block f, i < block.size) ∧
    (GetMatchedIndices O same fuel block f).matched.Nodup ∧
    (GetMatchedIndices O same fuel block f).matched.mergeSort = newMerkleBlockIndices O same fuel block f :=
  ⟨mem_newMerkleBlockIndices O same fuel block f,
   newMerkleBlockIndices_sorted O same fuel block f,
   newMerkleBlockIndices_nodup O same fuel block f,
   fun i hi => scan_matched_lt O same fuel block f i ((mem_newMerkleBlockIndices O same fuel block f i).1 hi),
   scan_matched_nodup O same fuel block f,
   mergeSort_matched O same fuel block f⟩

/-- the model's merkle-block builder (`Merkle.buildMsg`, property C11) driven as the harness drives it
    — leaves = one hash per transaction, match predicate = membership in any list `idx` with the
    members of the matched set (the harness passes the sorted one) — returns that list as its
    second component -/
theorem C10_merkle_builder_indices (same : F → F → Bool) (fuel : Nat) (block : Array Tx) (f : F)
    {H : Type} (comb : H → H → H) (leaves : List H) (dflt : H) (hl : leaves.length = block.size)
    (idx : List Nat) (hidx : ∀ i, i ∈ idx ↔ i ∈ (GetMatchedIndices O same fuel block f).matched) :
    (Bch.Model.Merkle.buildMsg comb leaves (fun i => idx.contains i) dflt).2 =
      newMerkleBlockIndices O same fuel block f :=
  buildMsg_indices O same fuel block f comb leaves dflt hl idx hidx

/-- the builder's index list for the real filter: sound and complete, no fuel hypothesis -/
theorem C10_bloom_merkle_indices (fuel : Nat) (block : Array Tx) (f : Bch.Model.Bloom.Filter)
    (hfuel : block.size * ((block.toList.map (fun t => t.outs.length)).sum + 1) < fuel) :
    (∀ i ∈ newMerkleBlockIndices bloomOps bloomSame fuel block f, ∃ tx, block[i]? = some tx ∧
      Relevant bloomOps (GetMatchedIndices bloomOps bloomSame fuel block f).filter tx) ∧
    (∀ i tx, block[i]? = some tx → Relevant bloomOps f tx →
      i ∈ newMerkleBlockIndices bloomOps bloomSame fuel block f) := by
  obtain ⟨_, hs, hc⟩ := C10_bloom_complete_a_total fuel block f hfuel
  constructor
  · intro i hi
    exact (hs i ((mem_newMerkleBlockIndices bloomOps bloomSame fuel block f i).1 hi)).2
  · intro i tx hb hr
    exact (mem_newMerkleBlockIndices bloomOps bloomSame fuel block f i).2 (hc i tx hb hr)

/-! ### Non-vacuity
`blk = #[txB, txA, txC]` (the child `txB` spends output 0 of `txA` and is listed *before* it), on the
4-byte real bloom filter `bloomF0` (2 hash functions, tweak 5, `BloomUpdateAll`, watching `[7]`).
The bound is `3 * (2 + 1) = 9`. -/
section examples
open Bch.Proofs.BloomTx.Toy

example : blk.size * ((blk.toList.map (fun t => t.outs.length)).sum + 1) = 9 := by decide
example : bloomF0 = some { bits := [3, 0, 0, 0], nHash := 2, tweak := 5, flags := 1 } := by decide

-- the hypothesis of `C10_bloom_scan_total` is satisfiable, and the conclusion agrees with evaluation
example : (GetMatchedIndices bloomOps bloomSame 10 blk bloomF0).outOfFuel = false :=
  C10_bloom_scan_total 10 blk bloomF0 (by decide)
example : (GetMatchedIndices bloomOps bloomSame 10 blk bloomF0).outOfFuel = false := by decide

-- the child (position 0) does not match the loaded filter, yet it is reported, before its parent
example : (matchTxAndUpdate bloomOps bloomF0 txB).2 = false := by decide
example : (GetMatchedIndices bloomOps bloomSame 10 blk bloomF0).matched = [0, 1] := by decide
example : newMerkleBlockIndices bloomOps bloomSame 10 blk bloomF0 = [0, 1] := by decide

-- the same from `C10_bloom_complete`, no evaluation of the scan: parent `txA` (position 1) is relevant
-- to the loaded filter, hence reported (a); its output 0 is eligible and pushes the watched `[7]`,
-- so the spender `txB` at position 0 is reported (spenders, any order)
example : 0 ∈ (GetMatchedIndices bloomOps bloomSame 10 blk
    (some { bits := [3, 0, 0, 0], nHash := 2, tweak := 5, flags := 1 })).matched := by
  obtain ⟨_, _, ha, _, hsp⟩ := C10_bloom_complete
    { bits := [3, 0, 0, 0], nHash := 2, tweak := 5, flags := 1 } (by decide) 10 blk (by decide)
  have h1 : 1 ∈ (GetMatchedIndices bloomOps bloomSame 10 blk
      (some { bits := [3, 0, 0, 0], nHash := 2, tweak := 5, flags := 1 })).matched :=
    ha 1 txA rfl (Or.inr (Or.inl ⟨_, List.mem_cons_self, [[7]], rfl, [7], by simp, by decide⟩))
  exact hsp 1 h1 txA rfl 0 _ rfl (Or.inl rfl) ⟨[[7]], rfl, [7], by simp, by decide⟩
    0 txB rfl ⟨_, List.mem_cons_self, rfl, rfl⟩

-- the bound is about recursion depth: fuel 1 is not enough for this block (parent → child is depth 2) …
example : (GetMatchedIndices bloomOps bloomSame 1 blk bloomF0).outOfFuel = true := by decide
-- … and then the child is missed, so some fuel hypothesis is indispensable in (b)
example : (GetMatchedIndices bloomOps bloomSame 1 blk bloomF0).matched = [1] := by decide

-- fuel independence, by the theorem and by evaluation
example : (GetMatchedIndices bloomOps bloomSame 10 blk bloomF0).matched =
    (GetMatchedIndices bloomOps bloomSame 3000000 blk bloomF0).matched :=
  (C10_scan_fuel_independent blk bloomF0 10 3000000 (by decide) (by decide)).2.1
example : (GetMatchedIndices bloomOps bloomSame 16 blk bloomF0).matched = [0, 1] := by decide

-- a spend cycle (impossible with real hashes): no fuel problem, whatever the filter
example (f : Bch.Model.Bloom.Filter) : (GetMatchedIndices bloomOps bloomSame 3 cycBlk f).outOfFuel = false :=
  C10_bloom_scan_total 3 cycBlk f (by decide)

-- an unloaded filter: covered by `C10_bloom_scan_total` (and reports nothing)
example : (GetMatchedIndices bloomOps bloomSame 10 blk none).outOfFuel = false :=
  C10_bloom_scan_total 10 blk none (by decide)
example : (GetMatchedIndices bloomOps bloomSame 10 blk none).matched = [] := by decide

-- the builder of C11 on this block returns `newMerkleBlockIndices`
example : (Bch.Model.Merkle.buildMsg (fun a b : Bytes => a ++ b) (blk.toList.map (·.id))
    (fun i => ([0, 1] : List Nat).contains i) []).2 = [0, 1] := by decide
example : (Bch.Model.Merkle.buildMsg (fun a b : Bytes => a ++ b) (blk.toList.map (·.id))
    (fun i => ((GetMatchedIndices bloomOps bloomSame 10 blk bloomF0).matched.mergeSort).contains i) []).2 =
    newMerkleBlockIndices bloomOps bloomSame 10 blk bloomF0 :=
  C10_merkle_builder_indices bloomSame 10 blk bloomF0 _ _ _ (by decide) _ (fun i => List.mem_mergeSort)

-- the covered-laws are satisfiable by a toy filter too
example : CovLaws toySetOps (fun f x => f.contains x) := by
  constructor
  · intro f x h; exact toySet_idem f x h
  · intro f x; simp only [toySetOps]; split <;> simp_all
  · intro f x y h; simp only [toySetOps]; split <;> simp_all

end examples

end Bch.Props.C10
