import Bch.Proofs.HDHeap
import Bch.Proofs.HDHeapZero
/-
C15 — extended keys are independent values; zeroing really erases them.

Heap-level model `Bch/Model/HDHeap.lean` (which buffers every function of hdkeychain/extendedkey.go
allocates, shares and writes) on top of the value-level model `Bch/Model/HDKey.lean`.
Histories are lists of `HOp` executed by `step`/`run` (defined in `Bch/Proofs/HDHeap.lean`):
`newMaster`, `parse i` (= `NewKeyFromString (String key_i)`), `child i idx`, `neuter i`, `setNet i`,
`zero i`, `pubKeyBytes i` (every memoising accessor: `Address`, `ECPubKey`, ...).
The `C15_zeroed_*` theorems say what every operation does when applied to a key that was zeroed.
All theorems hold for every parameter pack `X : HDExt Pt` of external primitives with `ExtOK X`
(HMAC-SHA512 returns 64 bytes, Hash160 20 bytes, compressed points 33 bytes, checksum ≥ 4 bytes);
most need no hypothesis on `X` at all.
-/
namespace Bch.Props.C15
open Bch Bch.Model Bch.Model.HDKey Bch.Model.HDHeap Bch.Proofs.HDHeap

/-! ## frame lemmas -/

/-- **C15_frame.** Writing zeros through slice `r` does not change what any slice `s` that does not
overlap `r` reads (for in-bounds `s`, and in fact for every `s`); allocating a buffer does not
change what any existing slice (`s.buf` an existing buffer, or `s` in bounds) reads. -/
theorem C15_frame (h : Heap) (r s : Ref) (b : Bytes) :
    (overlap r s = false → (h.zero r).read s = h.read s) ∧
    (s.buf < h.bufs.length → (h.alloc b).1.read s = h.read s) ∧
    (s.off + s.len ≤ (h.bufs.getD s.buf []).length → (h.alloc b).1.read s = h.read s) :=
  ⟨read_zero_of_not_overlap h r s, read_alloc_of_lt h b s, fun hb => read_alloc_of_InB b hb⟩

/-- zeroing never changes the length of any buffer (hence of any read) and only ever writes zeros -/
theorem C15_frame_zero_shape (h : Heap) (r s : Ref) :
    ((h.zero r).read s).length = (h.read s).length ∧
    ((∀ x ∈ h.read s, x = 0) → ∀ x ∈ (h.zero r).read s, x = 0) :=
  ⟨read_zero_length h r s, read_zero_zeros h r s⟩

/-! ## the heap invariant -/

section
variable {Pt : Type} (X : HDExt Pt)

/-- The awkward list `overlaps h` is empty iff all non-empty (key, field) ranges are pairwise
non-overlapping — between different keys and between two fields of one key. -/
theorem heap_inv_overlaps_meaning (h : Heap) :
    overlaps h = [] ↔
      ∀ (i j : Nat) (ki kj : HKey) (f g : Nat), h.keys[i]? = some ki → h.keys[j]? = some kj →
        f < 4 → g < 4 → (i, f) ≠ (j, g) → 0 < (fld ki f).len → 0 < (fld kj g).len →
        overlap (fld ki f) (fld kj g) = false :=
  overlaps_eq_nil_iff h

/-- the invariant holds initially -/
theorem heap_inv_init : Inv {} := inv_empty

/-- every operation preserves the invariant -/
theorem heap_inv_step (hX : ExtOK X) (h : Heap) (op : HOp) (hi : Inv h) : Inv (step X h op).1 :=
  inv_step X hX hi op

/-- **heap_inv.** In every reachable state (after every history from the empty heap) every slice of
every key lies within its buffer and the writable ranges (key, pubKey, chainCode, parentFP) of all
keys are pairwise disjoint. -/
theorem heap_inv (hX : ExtOK X) (ops : List HOp) :
    (∀ k ∈ (run X {} ops).keys, ∀ r ∈ [k.key, k.pubKey, k.chainCode, k.parentFP],
        r.off + r.len ≤ ((run X {} ops).bufs.getD r.buf []).length) ∧
    overlaps (run X {} ops) = [] :=
  ⟨(inv_run X hX inv_empty ops).bounds, (inv_run X hX inv_empty ops).disj⟩

/-- same, as the `Inv` structure, from any state satisfying the invariant -/
theorem heap_inv_run (hX : ExtOK X) (h : Heap) (hi : Inv h) (ops : List HOp) : Inv (run X h ops) :=
  inv_run X hX hi ops

/-- the `getD` in the bounds clause is harmless: a non-empty in-bounds slice has a real buffer -/
theorem heap_inv_bounds_real (h : Heap) (r : Ref) (hb : r.off + r.len ≤ (h.bufs.getD r.buf []).length)
    (hl : 0 < r.len) : ∃ b, h.bufs[r.buf]? = some b ∧ r.off + r.len ≤ b.length :=
  InB.exists_buf (h := h) hb hl

/-! ## independence -/

/-- **C15_independent (one step).** An operation that is not `SetNet j`/`Zero j` itself leaves the
view (key bytes, chain code, fingerprint, depth, child number, version, privacy flag) of every
existing key `j` unchanged — in particular `Zero i` for `i ≠ j`, and `pubKeyBytes j`, which only
sets the memo reference. Both sides are `some _` because `j < h.keys.length` (`viewAt_isSome`). -/
theorem C15_independent_step (h : Heap) (op : HOp) (j : Nat) (hi : Inv h) (hj : j < h.keys.length)
    (hn : ¬ targetsDestructively op j) :
    viewAt (step X h op).1 j = viewAt h j := by
  rw [viewAt_step X hi op hj]
  simp [applyOwn_of_not_targets hn]

/-- the same with list indexing instead of `viewAt`: handle `j` still exists and its view is equal -/
theorem C15_independent_step_getElem (h : Heap) (op : HOp) (j : Nat) (hi : Inv h)
    (hj : j < h.keys.length) (hn : ¬ targetsDestructively op j) :
    ∃ hj' : j < (step X h op).1.keys.length,
      view (step X h op).1 ((step X h op).1.keys[j]'hj') = view h h.keys[j] := by
  have hj' := Nat.lt_of_lt_of_le hj (keys_length_step X h op)
  refine ⟨hj', ?_⟩
  have e := C15_independent_step X h op j hi hj hn
  rw [viewAt_isSome _ j hj', viewAt_isSome h j hj] at e
  exact Option.some.inj e

/-- one step, all cases: the view changes exactly by the operation's effect on the key itself
(`applyOwn`: `setNetV` for `setNet j`, `zeroV` for `zero j`, identity otherwise) -/
theorem C15_step_exact (h : Heap) (op : HOp) (j : Nat) (hi : Inv h) (hj : j < h.keys.length) :
    viewAt (step X h op).1 j = (viewAt h j).map fun v => applyOwn j v op :=
  viewAt_step X hi op hj

/-- handles are never removed -/
theorem C15_keys_grow (h : Heap) (ops : List HOp) : h.keys.length ≤ (run X h ops).keys.length :=
  keys_length_run X h ops

/-- **C15_independent (histories).** Split any history as `pre ++ post` where key `j` exists after
`pre` (e.g. `pre` ends with the operation that created `j`). The view of `j` at the end is its view
after `pre` transformed by exactly the `setNet j`/`zero j` operations of `post`, in order: no
operation on any other key has any influence. -/
theorem C15_independent (hX : ExtOK X) (pre post : List HOp) (j : Nat)
    (hj : j < (run X {} pre).keys.length) :
    viewAt (run X {} (pre ++ post)) j =
      (viewAt (run X {} pre) j).map fun v => post.foldl (applyOwn j) v := by
  rw [run_append]
  exact viewAt_run X hX (inv_run X hX inv_empty pre) post hj

/-- corollary: a key that is not itself the target of `SetNet`/`Zero` in `post` keeps its view -/
theorem C15_independent_untouched (hX : ExtOK X) (pre post : List HOp) (j : Nat)
    (hj : j < (run X {} pre).keys.length) (hn : ∀ op ∈ post, ¬ targetsDestructively op j) :
    viewAt (run X {} (pre ++ post)) j = viewAt (run X {} pre) j := by
  rw [C15_independent X hX pre post j hj]
  simp [foldl_applyOwn_of_not_targets j post hn]

/-- observations are functions of the view: `String` -/
theorem C15_string_of_view (h : Heap) (i : Nat) :
    stringH X h i = match viewAt h i with
      | none => []
      | some v => HDKey.String X v :=
  stringH_eq_viewAt X h i

/-- hence the serialisation of an untouched key never changes -/
theorem C15_independent_string (hX : ExtOK X) (pre post : List HOp) (j : Nat)
    (hj : j < (run X {} pre).keys.length) (hn : ∀ op ∈ post, ¬ targetsDestructively op j) :
    stringH X (run X {} (pre ++ post)) j = stringH X (run X {} pre) j := by
  rw [stringH_eq_viewAt, stringH_eq_viewAt, C15_independent_untouched X hX pre post j hj hn]

/-- The memo is sound in every reachable state: what a memoising accessor (`pubKeyBytes`, hence
`ECPubKey`, `Address`, non-hardened `Child`) returns is the public key computed from the view —
zeroing other keys can never corrupt a cached public key. -/
theorem C15_memo_sound (hX : ExtOK X) (ops : List HOp) (i : Nat) (k : HKey)
    (hk : (run X {} ops).keys[i]? = some k) :
    (pubKeyBytesH X (run X {} ops) i).2 = pubKeyBytes X (view (run X {} ops) k) :=
  pubKeyBytesH_snd X (memo_run X hX inv_empty (memo_empty X) ops) hk

/-- "Determined by how it was obtained": the view of a freshly created key is the value-level
result (`NewMaster`, `NewKeyFromString`, `Child`, `Neuter` of `Model/HDKey.lean`) computed from the
parent's view alone; the new handle is `h.keys.length`. -/
theorem C15_created (hX : ExtOK X) (ops : List HOp) :
    let h := run X {} ops
    (∀ seed hdPriv xk, NewMaster X seed hdPriv = .ok xk →
        viewAt (step X h (.newMaster seed hdPriv)).1 h.keys.length = some xk) ∧
    (∀ i xk, NewKeyFromString X (stringH X h i) = .ok xk →
        viewAt (step X h (.parse i)).1 h.keys.length = some xk) ∧
    (∀ i idx k c, h.keys[i]? = some k → Child X (view h k) idx = .ok c →
        viewAt (step X h (.child i idx)).1 h.keys.length = some c) ∧
    (∀ i k p, h.keys[i]? = some k → k.isPrivate = true → Neuter X (view h k) = .ok p →
        viewAt (step X h (.neuter i)).1 h.keys.length = some p) := by
  intro h
  refine ⟨?_, ?_, ?_, ?_⟩
  · intro seed hdPriv xk e; exact created_newMaster X hX h e
  · intro i xk e; exact created_parse X h e
  · intro i idx k c hk e; exact created_child X hX hk e
  · intro i k p hk hp e
    exact created_neuter X (memo_run X hX inv_empty (memo_empty X) ops) hk hp e

/-- **C15_neuter_same_key.** Neutering a public key returns the same handle and changes nothing
(documented behaviour). -/
theorem C15_neuter_same_key (h : Heap) (i : Nat) (k : HKey) (hk : h.keys[i]? = some k)
    (hp : k.isPrivate = false) : neuterH X h i = (h, .key i) :=
  neuterH_public X hk hp

/-! ## zeroing -/

/-- **C15_zero.** After `Zero` on an existing key `i` (any heap, no invariant needed): the key
serialises as "zeroed extended key", reports `isPrivate = false` (so `ECPrivKey` yields
`ErrNotPrivExtKey`), holds the nil key slice, and every byte of the four ranges the key held
*before* the call reads as 0 (the reads keep their lengths). -/
theorem C15_zero (h : Heap) (i : Nat) (k : HKey) (hk : h.keys[i]? = some k) :
    stringH X (zeroH h i) i = zeroedString ∧
    (∃ k', (zeroH h i).keys[i]? = some k' ∧ k'.isPrivate = false ∧ k'.key = Ref.nil ∧ k'.version = []) ∧
    (∀ r ∈ [k.key, k.pubKey, k.chainCode, k.parentFP],
      (∀ b ∈ (zeroH h i).read r, b = 0) ∧ ((zeroH h i).read r).length = (h.read r).length) := by
  refine ⟨stringH_zeroH X hk, ⟨_, zeroH_key hk, rfl, rfl, rfl⟩, ?_⟩
  intro r hr
  rw [zeroH_read hk]
  exact ⟨zero4_zeros h k r hr, zero4_read_length h k r⟩

/-- with the invariant the four ranges are in bounds, so each reads as exactly `len` zero bytes -/
theorem C15_zero_replicate (h : Heap) (i : Nat) (k : HKey) (hi : Inv h) (hk : h.keys[i]? = some k) :
    ∀ r ∈ [k.key, k.pubKey, k.chainCode, k.parentFP], (zeroH h i).read r = List.replicate r.len 0 := by
  intro r hr
  have hz := zero4_zeros h k r hr
  have hl := zero4_read_length h k r
  rw [← zeroH_read hk] at hz hl
  have hb : InB h r := hi.bounds k (List.mem_iff_getElem?.mpr ⟨i, hk⟩) r hr
  rw [eq_replicate_of_zeros hz, hl, read_length hb]

/-! ## every operation applied to a zeroed key

For ANY heap `h` and existing key `i`, in the heap `zeroH h i`. The only assumption on the external
primitives is `X.parse [] = none`: `bchec.ParsePubKey` rejects the empty byte string ("pubkey string
is empty"); it holds for the pack `realHD` of the driver, whose `parse` rejects every length ≠ 33,
and for `toy` below. It is needed (see the NEGATIVE example with `toyBad` below): non-hardened public
derivation parses the key's own — now empty — public key. -/

/-- **C15_zeroed_child.** Deriving a child of a zeroed key fails for every child index `idx` (any
natural number, hardened or not): the result is an error, no key is created, and the heap — key
list and buffers — is left exactly as it was (nothing is memoised or allocated). The error is
exactly `zeroedChildErr`: `ErrDeriveHardFromPublic` for `idx ≥ 2^31` (the zeroed key reports itself
as public), and for `idx < 2^31` either `ErrInvalidChild` (HMAC of 33 zero bytes ++ index under the
zero-filled chain code gives an unusable `IL`) or the parser's error for the empty public key
(`.other`); which of the two depends only on HMAC-SHA512 and the curve. -/
theorem C15_zeroed_child (hparse : X.parse [] = none) (h : Heap) (i : Nat) (k : HKey)
    (hk : h.keys[i]? = some k) (idx : Nat) :
    childH X (zeroH h i) i idx = (zeroH h i, .err (zeroedChildErr X (h.read k.chainCode).length idx)) ∧
    (step X (zeroH h i) (.child i idx)).1.keys = (zeroH h i).keys ∧
    (hardenedKeyStart ≤ idx →
      zeroedChildErr X (h.read k.chainCode).length idx = .deriveHardFromPublic) ∧
    (idx < hardenedKeyStart →
      zeroedChildErr X (h.read k.chainCode).length idx = .invalidChild ∨
      zeroedChildErr X (h.read k.chainCode).length idx = .other) := by
  have e := childH_zeroH X hparse hk idx
  refine ⟨e, ?_, (zeroedChildErr_cases X _ idx).1, (zeroedChildErr_cases X _ idx).2⟩
  simp only [step]; rw [e]

/-- without any assumption on the parser: a hardened child of a zeroed key is always refused, and
`Child` on a zeroed key can succeed only if the parser accepts the empty string as a public key -/
theorem C15_zeroed_child_any_parser (h : Heap) (i : Nat) (k : HKey) (hk : h.keys[i]? = some k)
    (idx : Nat) (c : XKey) :
    viewAt (zeroH h i) i = some (zeroV (view h k)) ∧
    (Child X (zeroV (view h k)) idx = .ok c → idx < hardenedKeyStart ∧ (X.parse []).isSome) :=
  ⟨viewAt_zeroH_same hk, Child_zeroV_ok X⟩

/-- **C15_zeroed_neuter.** `Neuter` of a zeroed key is NOT an error: the zeroed key reports itself
as public, so `Neuter` takes the documented "already an extended public key" path and returns the
same key (handle `i`), creating nothing and leaving the heap exactly as it was (this mirrors the Go
code: `if !k.isPrivate { return k, nil }`). No key material is produced: the returned key is the
zeroed key itself, whose view is `zeroV _` — empty key, empty version, depth and child number 0,
and only zero bytes in chain code and fingerprint. -/
theorem C15_zeroed_neuter (h : Heap) (i : Nat) (k : HKey) (hk : h.keys[i]? = some k) :
    neuterH X (zeroH h i) i = (zeroH h i, .key i) ∧
    Neuter X (zeroV (view h k)) = .ok (zeroV (view h k)) ∧
    viewAt (zeroH h i) i = some (zeroV (view h k)) ∧
    ((zeroV (view h k)).key = [] ∧ (zeroV (view h k)).version = [] ∧
      (zeroV (view h k)).isPrivate = false ∧ (zeroV (view h k)).depth = 0 ∧
      (zeroV (view h k)).childNum = 0 ∧
      (∀ b ∈ (zeroV (view h k)).chainCode, b = 0) ∧ (∀ b ∈ (zeroV (view h k)).parentFP, b = 0)) :=
  ⟨neuterH_zeroH X hk, Neuter_zeroV X _, viewAt_zeroH_same hk, zeroV_bytes _⟩

/-- **C15_zeroed_accessors.** The accessors on a zeroed key (the model has one heap-level accessor,
`pubKeyBytesH`; the Go accessors and the driver's `A`/`E`/`V` operations are compositions of it
with an external primitive, spelled out here):
* `pubKeyBytes()` returns the EMPTY byte string, memoises nothing, leaves the heap as it was
  (it has no error result in Go);
* `ECPubKey` = `ParsePubKey(pubKeyBytes())` fails: the parser is applied to `[]`;
* `ECPrivKey`: the key reports `isPrivate = false`, so the result is `ErrNotPrivExtKey`, and the
  key slice it would have used reads as `[]`;
* `Address` = `Hash160(pubKeyBytes())`: NOT an error — model and Go code return the address of
  `Hash160("")`, a constant that does not depend on the heap or on the key (no key material). -/
theorem C15_zeroed_accessors (hparse : X.parse [] = none) (h : Heap) (i : Nat) (k : HKey)
    (hk : h.keys[i]? = some k) :
    pubKeyBytesH X (zeroH h i) i = (zeroH h i, []) ∧
    X.parse (pubKeyBytesH X (zeroH h i) i).2 = none ∧
    (∃ k', (zeroH h i).keys[i]? = some k' ∧ k'.isPrivate = false ∧ (zeroH h i).read k'.key = []) ∧
    X.hash160 (pubKeyBytesH X (zeroH h i) i).2 = X.hash160 [] := by
  have e := pubKeyBytesH_zeroH X hk
  refine ⟨e, by rw [e]; exact hparse, ⟨_, zeroH_key' hk, rfl, read_nil _⟩, by rw [e]⟩

/-- **C15_zeroed_string_unparsable** (full: for every pack of external primitives, using the concrete
Base58 model). The string of a zeroed key, "zeroed extended key", is rejected by `NewKeyFromString`
with `ErrInvalidKeyLen` (the blank is not a Base58 digit, so it decodes to the empty byte string);
hence re-parsing the zeroed key's own serialisation yields an error and leaves the heap as it was. -/
theorem C15_zeroed_string_unparsable (h : Heap) (i : Nat) (k : HKey) (hk : h.keys[i]? = some k) :
    NewKeyFromString X zeroedString = .error .invalidKeyLen ∧
    NewKeyFromString X (stringH X (zeroH h i) i) = .error .invalidKeyLen ∧
    step X (zeroH h i) (.parse i) = (zeroH h i, .err .invalidKeyLen) := by
  refine ⟨NewKeyFromString_zeroedString X, ?_, parseH_zeroH X hk⟩
  rw [stringH_zeroH X hk]; exact NewKeyFromString_zeroedString X

end

/-! ## non-vacuity: a toy instance of the external primitives -/

def toy : HDExt Nat where
  hmac512 k d := (k ++ d ++ List.replicate 64 7).take 64
  hash160 d := (d ++ List.replicate 20 9).take 20
  sha256d d := (d ++ List.replicate 32 5).take 32
  n := 2 ^ 256
  mulG k := some k
  add a b := some (a + b)
  parse b := if b.length = 33 ∧ b.head? = some 2 then some (Bytes.toNatBE (b.drop 1)) else none
  serC p := 2 :: Bytes.ofNatBE 32 p
  serInf := List.replicate 33 0

/-- the hypotheses `ExtOK` are satisfiable -/
theorem toy_ok : ExtOK toy where
  hmac512_len k d := by simp [toy] <;> omega
  hash160_len d := by simp [toy] <;> omega
  serC_len p := by simp [toy, ofNatBE_length]
  serInf_len := by simp [toy]
  sha256d_len d := by simp [toy] <;> omega

def seed : Bytes := List.replicate 16 1
def xprv : Bytes := [0x04, 0x88, 0xad, 0xe4]

/-- the history of the observed defect, plus accessors: master, neuter it, zero the master,
memoising accessor on the neutered key, derive a child from the neutered key -/
def hist : List HOp := [.newMaster seed xprv, .neuter 0, .zero 0, .pubKeyBytes 1, .child 1 0]

/-- a longer history through parsing, hardened private derivation, zeroing, network change and a
failing `Neuter` (unregistered version) -/
def hist2 : List HOp :=
  [.newMaster seed xprv, .parse 0, .child 0 0x80000000, .child 1 5, .zero 1,
   .setNet 2 [1, 2, 3, 4] [5, 6, 7, 8], .neuter 2]

-- the histories really create keys (the theorems above are not about empty pools)
example : (run toy {} hist).keys.length = 3 := by decide +kernel
example : (run toy {} hist2).keys.length = 4 := by decide +kernel
-- instances of `heap_inv`
example : overlaps (run toy {} hist) = [] := by decide +kernel
example : overlaps (run toy {} hist) = [] := (heap_inv toy toy_ok hist).2
example : overlaps (run toy {} hist2) = [] := by decide +kernel
-- instance of `C15_independent`: key 1 (the neutered key) after the whole history has the view it
-- had right after it was created, although its parent was zeroed in between ...
example : viewAt (run toy {} hist) 1 = viewAt (run toy {} (hist.take 2)) 1 := by decide +kernel
-- ... and that view is not trivial
example : (viewAt (run toy {} hist) 1).map (·.key) =
    some (2 :: (Bytes.ofString "Bitcoin seed" ++ List.replicate 16 1 ++ [7, 7, 7, 7])) := by
  decide +kernel
-- instance of `C15_zero`: key 0 is zeroed, and the buffers it used hold only zeros
example : stringH toy (run toy {} hist) 0 = zeroedString := by decide +kernel
example : ((run toy {} hist).bufs.take 3).all (·.all (· == 0)) = true := by decide +kernel
example : ((run toy {} (hist.take 2)).bufs.take 3).all (·.all (· == 0)) = false := by decide +kernel
-- `C15_neuter_same_key` instance: neutering public key 1 returns handle 1
example : (∃ k, (run toy {} hist).keys[1]? = some k ∧ k.isPrivate = false) := by decide +kernel
-- the hypotheses of `C15_independent_step` are satisfiable in a non-trivial state: zeroing the
-- master (handle 0) right after neutering it leaves the neutered key (handle 1) alone
example : viewAt (step toy (run toy {} (hist.take 2)) (.zero 0)).1 1 = viewAt (run toy {} (hist.take 2)) 1 :=
  C15_independent_step toy _ (.zero 0) 1 (heap_inv_run toy toy_ok {} heap_inv_init _)
    (by decide +kernel) (by simp [targetsDestructively])
-- the hypotheses of `C15_created` are satisfiable: all four constructors succeed on the toy instance
example : (match NewMaster toy seed xprv with | .ok _ => true | .error _ => false) = true := by
  decide +kernel
example : (match NewKeyFromString toy (stringH toy (run toy {} hist2) 0) with
    | .ok _ => true | .error _ => false) = true := by decide +kernel
example : ((run toy {} hist2).keys[0]?.map fun k =>
    match Child toy (view (run toy {} hist2) k) 0x80000000, Child toy (view (run toy {} hist2) k) 7,
      Neuter toy (view (run toy {} hist2) k) with
    | .ok _, .ok _, .ok _ => k.isPrivate
    | _, _, _ => false) = some true := by decide +kernel
-- targetsDestructively is non-trivial in `hist`: only `zero 0` targets key 0, nothing targets key 1
example : ∀ op ∈ hist.drop 2, ¬ targetsDestructively op 1 := by
  simp [hist, targetsDestructively]

/-! ### instances of the `C15_zeroed_*` theorems

`h2` is the heap after "master, neuter it" (key 0 private, key 1 public); the theorems are applied
to `zeroH h2 0` and `zeroH h2 1`. -/

def h2 : Heap := run toy {} (hist.take 2)

-- the hypotheses are satisfiable: the toy parser rejects the empty string; keys 0 and 1 exist in `h2`
example : toy.parse [] = none := by decide
example : (h2.keys[0]?.map (·.isPrivate), h2.keys[1]?.map (·.isPrivate)) = (some true, some false) := by
  decide +kernel
-- before zeroing, key 0 of `h2` does derive children and has a non-trivial string
example : (h2.keys[0]?.map fun k => match Child toy (view h2 k) 5, Child toy (view h2 k) 0x80000000 with
    | .ok _, .ok _ => true | _, _ => false) = some true := by decide +kernel
example : stringH toy h2 0 ≠ zeroedString := by decide +kernel
-- `C15_zeroed_child` applied: every derivation from the zeroed key 0 is an error and adds no key
example (idx : Nat) : ∃ e : Err, childH toy (zeroH h2 0) 0 idx = (zeroH h2 0, .err e) :=
  match hk : h2.keys[0]? with
  | some k => ⟨_, (C15_zeroed_child toy (by decide) h2 0 k hk idx).1⟩
  | none => absurd hk (by decide +kernel)
example : ((childH toy (zeroH h2 0) 0 5).1.keys.length, (childH toy (zeroH h2 0) 0 0x80000000).1.keys.length,
    match (childH toy (zeroH h2 0) 0 5).2, (childH toy (zeroH h2 0) 0 0x80000000).2 with
    | .err e, .err e' => some (e, e') | _, _ => none) =
    (2, 2, some (.invalidChild, .deriveHardFromPublic)) := by decide +kernel
-- the same for the zeroed public key 1
example : (match (childH toy (zeroH h2 1) 1 5).2 with | .err e => some e | _ => none) =
    some .invalidChild := by decide +kernel
-- `C15_zeroed_neuter`: the same handle comes back, no key is added
example : ((neuterH toy (zeroH h2 0) 0).1.keys.length,
    match (neuterH toy (zeroH h2 0) 0).2 with | .key j => some j | _ => none) = (2, some 0) := by
  decide +kernel
-- `C15_zeroed_accessors`: empty public key bytes
example : (pubKeyBytesH toy (zeroH h2 0) 0).2 = [] := by decide +kernel
example : (pubKeyBytesH toy h2 0).2 ≠ [] := by decide +kernel
-- `C15_zeroed_string_unparsable`
example : (match NewKeyFromString toy (stringH toy (zeroH h2 0) 0) with
    | .error e => some e | .ok _ => none) = some .invalidKeyLen := by decide +kernel

/-- a pack whose HMAC gives a usable `IL` on the zeroed key's data: then the error of a non-hardened
derivation from a zeroed key is the parser's (`.other`) — both alternatives of `C15_zeroed_child` occur -/
def toy2 : HDExt Nat := { toy with hmac512 := fun _ d => (d.reverse ++ List.replicate 64 7).take 64 }

example : toy2.parse [] = none := by decide
example : zeroedChildErr toy2 32 5 = .other := by decide +kernel
example : zeroedChildErr toy 32 5 = .invalidChild := by decide +kernel

/-- NEGATIVE: the hypothesis `X.parse [] = none` of `C15_zeroed_child` is needed. With a parser that
accepts the empty byte string, a non-hardened `Child` of a zeroed key succeeds. -/
def toyBad : HDExt Nat := { toy2 with parse := fun _ => some 1 }

example : (match Child toyBad (zeroV (⟨[], [], 0, [], 0, [], false⟩ : XKey)) 5 with
    | .ok _ => true | .error _ => false) = true := by decide +kernel

/-! ## negative example: the pre-fix `Neuter` violates the invariant

Before fix ce84569 `Neuter` passed the private key's own `pubKey`, `chainCode` and `parentFP` slices
to the new key. With that variant the invariant fails right after `Neuter`, and zeroing the parent
changes the neutered key — so `heap_inv`/`C15_independent` are not vacuous statements. -/

def neuterShared {Pt : Type} (X : HDExt Pt) (h : Heap) (i : Nat) : Heap × OpRes :=
  match h.keys[i]? with
  | none => (h, .unit)
  | some k =>
    if !k.isPrivate then (h, .key i)
    else match Neuter X (view h k) with
      | .error e => (h, .err e)
      | .ok p =>
        let (h, _) := pubKeyBytesH X h i
        match h.keys[i]? with
        | none => (h, .unit)
        | some k' =>
          -- the parent's own slices, by reference
          let (h, j) := h.addKey ⟨k'.pubKey, Ref.nil, k'.chainCode, k'.parentFP, p.version, p.depth, p.childNum, false⟩
          (h, .key j)

def sharedHeap : Heap := (neuterShared toy (newMasterH toy {} seed xprv).1 0).1

/-- NEGATIVE: with the sharing `Neuter` three ranges of key 0 overlap three ranges of key 1 -/
example : overlaps sharedHeap = [((0, 1), (1, 0)), ((0, 2), (1, 2)), ((0, 3), (1, 3))] := by
  decide +kernel

/-- NEGATIVE: and zeroing key 0 then changes what key 1 serialises to (the observed defect) -/
example : stringH toy (zeroH sharedHeap 0) 1 ≠ stringH toy sharedHeap 1 := by decide +kernel

/-- whereas with the fixed `neuterH` the same history leaves key 1 alone -/
example : stringH toy (run toy {} (hist.take 3)) 1 = stringH toy (run toy {} (hist.take 2)) 1 := by
  decide +kernel

end Bch.Props.C15
