namespace Bch.Props.C15
theorem placeholder : True := trivial
end Bch.Props.C15
