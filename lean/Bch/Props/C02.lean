namespace Bch.Props.C02
theorem placeholder : True := trivial
end Bch.Props.C02
