import Bch.Proofs.Address
/-
C02 — "Address decoding is strict, canonical and network-separating."

Theorems about the executable model `Bch.Model.Address.DecodeAddress` (the exact cascade of the Go
function: length pre-check, prefix detection by `EqualFold`, cash attempt, SLP retry, 66/130-character
hex path, Base58Check path) and `Bch.Model.CashAddr.checkDecodeCashAddress`.
External code is the parameter pack `X : Ext`; every hypothesis on it is explicit and only the
public-key statements need one (`SerLaw`: serialising what was parsed, in the format its first byte
announces, gives the bytes back — true for bchec's three formats).
Proofs: `Bch/Proofs/Address.lean` (+ `CashAddr*.lean`, `Base58.lean`, `Hex.lean`).
-/
namespace Bch.Props.C02
open Bch Bch.Model Bch.Model.CashAddr Bch.Model.Address
open Bch.Proofs.CashAddr Bch.Proofs.Address

/-- `Serialize*(ParsePubKey(ser)) = ser` in the format announced by the first byte
(02/03 ↦ compressed, 04 ↦ uncompressed, 06/07 ↦ hybrid) -/
def SerLaw (X : Ext) : Prop :=
  ∀ ser pt f, X.parsePub ser = some pt → fmtOfHead (ser.headD 0) = some f → X.serPub f pt = ser

/-! ### canonical form -/

/-- **C02_canonical** (full). If `DecodeAddress` accepts `s` on one of the six networks, then
* CashAddr kinds: the address carries the network's cash or SLP prefix (never an empty one), and the
  case-folded input is exactly its `EncodeAddress`, or that preceded by the address's own `prefix:`;
* legacy kinds: the input is exactly `EncodeAddress` (no normalisation at all);
* public keys: the input is, up to ASCII case, the hex string of a 33/65-byte serialisation that parses
  to the returned point and whose first byte announces the returned format.
No hypothesis on `X`. -/
theorem C02_canonical (X : Ext) : ∀ net ∈ nets, ∀ (s : Bytes) (a : Addr),
    DecodeAddress X s net = .ok a →
    match a with
    | .pkh _ pre | .sh _ pre | .sh32 _ pre =>
      (pre = net.cashPrefix ∨ pre = net.slpPrefix) ∧ pre ≠ [] ∧
      (lowerASCII s = EncodeAddress X a ∨ lowerASCII s = pre ++ 58 :: EncodeAddress X a)
    | .legacyPkh _ _ | .legacySh _ _ => s = EncodeAddress X a
    | .pubKey f pt _ => ∃ ser, X.parsePub ser = some pt ∧ fmtOfHead (ser.headD 0) = some f ∧
        (ser.length = 33 ∨ ser.length = 65) ∧ lowerASCII s = hexEnc ser :=
  fun net hnet s a h => canonical X net (nets_wf hnet) s a h

/-- Public keys under `SerLaw`: the case-folded input is the address's `String`. -/
theorem C02_canonical_pubkey (X : Ext) (hser : SerLaw X) : ∀ net ∈ nets, ∀ (s : Bytes) f pt id,
    DecodeAddress X s net = .ok (.pubKey f pt id) →
    lowerASCII s = Address.String X (.pubKey f pt id) ∧ id = net.pkhID := by
  intro net hnet s f pt id h
  obtain ⟨ser, hp, hf, _, hl⟩ := canonical X net (nets_wf hnet) s _ h
  refine ⟨?_, ?_⟩
  · simp only [Address.String, serialize]
    rw [hser ser pt f hp hf, hl]
  · rcases decode_ok_cases X net (nets_wf hnet) s _ h with ⟨t, d, ver, pre, ha, _⟩ | ⟨flag, ht⟩
    · unfold mkCash at ha; split at ha <;> cases ha
    · rcases tail_ok_inv X s net flag _ ht with ⟨_, ser', _, hn⟩ | ⟨_, d, id', _, _, hk⟩
      · obtain ⟨_, _, _, _, he⟩ := newPubKey_ok_inv X ser' net _ hn
        cases he; rfl
      · rcases hk with ⟨_, _, he⟩ | ⟨_, _, he⟩ <;> cases he

/-- the normalisation the harness applies (`strip`: drop one leading `pre:` for a non-empty `pre`) -/
def strip (pre x : Bytes) : Bytes :=
  if !pre.isEmpty && (pre ++ [58]).isPrefixOf x then x.drop (pre.length + 1) else x

/-- **C02_canonical**, in the form of the harness predicate: for an accepted CashAddr-kind address the
re-encoding equals the lower-cased input with one optional leading `cashPrefix:` or `slpPrefix:`
removed. -/
theorem C02_canonical_strip (X : Ext) : ∀ net ∈ nets, ∀ (s : Bytes) (a : Addr),
    DecodeAddress X s net = .ok a →
    (∃ h pre, a = .pkh h pre ∨ a = .sh h pre ∨ a = .sh32 h pre) →
    EncodeAddress X a = strip net.cashPrefix (lowerASCII s) ∨
    EncodeAddress X a = strip net.slpPrefix (lowerASCII s) := by
  intro net hnet s a h hk
  have hwf := nets_wf hnet
  rcases decode_ok_cases X net hwf s a h with ⟨t, d, ver, pre, ha, hpre, hne, hv, hlow⟩ | ⟨flag, ht⟩
  · have hnc := lowdig_no_colon (encoded_facts X t ver d pre hv).1
    rw [← ha] at hnc
    have hstrip_none : ∀ q : Bytes, strip q (EncodeAddress X a) = EncodeAddress X a := by
      intro q
      unfold strip
      split
      · rename_i hq
        simp only [Bool.and_eq_true] at hq
        have hpf := List.isPrefixOf_iff_prefix.mp hq.2
        exact absurd (hpf.subset (by simp)) hnc
      · rfl
    have hstrip_pre : strip pre (pre ++ 58 :: EncodeAddress X a) = EncodeAddress X a := by
      unfold strip
      have h1 : (!pre.isEmpty) = true := by cases pre with | nil => exact absurd rfl hne | cons _ _ => rfl
      have h2 : (pre ++ [58]).isPrefixOf (pre ++ 58 :: EncodeAddress X a) = true := by
        rw [List.isPrefixOf_iff_prefix]
        exact ⟨EncodeAddress X a, by simp⟩
      rw [h1, h2]
      simp only [Bool.and_self, if_true]
      rw [show pre ++ 58 :: EncodeAddress X a = (pre ++ [58]) ++ EncodeAddress X a by simp]
      exact List.drop_left' (by simp)
    rcases hlow with hl | hl
    · left; rw [hl, hstrip_none]
    · rcases hpre with rfl | rfl
      · left; rw [hl, hstrip_pre]
      · right; rw [hl, hstrip_pre]
  · exfalso
    obtain ⟨hh, pre, hk⟩ := hk
    rcases tail_ok_inv X s net flag a ht with ⟨_, ser, _, hn⟩ | ⟨_, d, id, _, _, hl⟩
    · obtain ⟨_, _, _, _, he⟩ := newPubKey_ok_inv X ser net a hn
      rcases hk with rfl | rfl | rfl <;> cases he
    · rcases hl with ⟨_, _, he⟩ | ⟨_, _, he⟩ <;> rcases hk with rfl | rfl | rfl <;> cases he

/-- the documented normalisation per family (`afterColon x`: what follows the first colon of `x`, or
`x` itself when there is none) and the canonical string of an address -/
example (h pre s : Bytes) : normalForm (.pkh h pre) s = afterColon (lowerASCII s) := rfl
example (h : Bytes) (id : UInt8) (s : Bytes) : normalForm (.legacySh h id) s = s := rfl
example (f : Nat) (pt : Bytes) (id : UInt8) (s : Bytes) : normalForm (.pubKey f pt id) s = lowerASCII s := rfl
example (X : Ext) (h pre : Bytes) : canonicalString X (.sh h pre) = EncodeAddress X (.sh h pre) := rfl
example (X : Ext) (f : Nat) (pt : Bytes) (id : UInt8) :
    canonicalString X (.pubKey f pt id) = Address.String X (.pubKey f pt id) := rfl
example : afterColon [98, 58, 113, 58] = [113, 58] ∧ afterColon [113, 112] = [113, 112] := by decide

/-- **C02_normal_form**: accepted ⇒ the normal form of the input is the canonical string of the
result. The law on `X` is only consulted when the result is a public key. -/
theorem C02_normal_form (X : Ext) : ∀ net ∈ nets, ∀ (s : Bytes) (a : Addr),
    (∀ f pt id, a = .pubKey f pt id → ∀ ser, X.parsePub ser = some pt →
      fmtOfHead (ser.headD 0) = some f → X.serPub f pt = ser) →
    DecodeAddress X s net = .ok a → normalForm a s = canonicalString X a :=
  fun net hnet s a hser h => normalForm_eq X net (nets_wf hnet) s a hser h

/-- **C02_injective**: two accepted strings with different normal forms decode to different
addresses (stated contrapositively: the same result forces equal normal forms) — even across two
networks. -/
theorem C02_injective (X : Ext) (hser : SerLaw X) : ∀ net₁ ∈ nets, ∀ net₂ ∈ nets,
    ∀ (s₁ s₂ : Bytes) (a : Addr),
    DecodeAddress X s₁ net₁ = .ok a → DecodeAddress X s₂ net₂ = .ok a →
    normalForm a s₁ = normalForm a s₂ := by
  intro n1 h1 n2 h2 s1 s2 a hd1 hd2
  have hs : ∀ f pt id, a = .pubKey f pt id → ∀ ser, X.parsePub ser = some pt →
      fmtOfHead (ser.headD 0) = some f → X.serPub f pt = ser :=
    fun f pt _ _ ser hp hf => hser ser pt f hp hf
  rw [normalForm_eq X n1 (nets_wf h1) s1 a hs hd1, normalForm_eq X n2 (nets_wf h2) s2 a hs hd2]

/-! ### rejections -/

/-- A CashAddr-kind result can only come from a successful `checkDecodeCashAddress` on one of the
attempt strings (`attemptStr s net b`: `s` itself when it carries one of the two prefixes, else
`cashPrefix:lower(s)` for `b = false` / `slpPrefix:lower(s)` for `b = true`), dispatched by `fromCash`.
So every rejection of `checkDecodeCashAddress` below is a rejection of `DecodeAddress` as a CashAddr
address. -/
theorem C02_cash_accept_only_via_checkDecode (X : Ext) (s : Bytes) (net : Net) (a : Addr)
    (hk : ∃ h pre, a = .pkh h pre ∨ a = .sh h pre ∨ a = .sh32 h pre)
    (hd : DecodeAddress X s net = .ok a) :
    ∃ b p d t, checkDecodeCashAddress (attemptStr s net b) = (p, .ok (d, t)) ∧
      fromCash net b d t = .ok a := by
  obtain ⟨h, pre, hk⟩ := hk
  rcases hk with rfl | rfl | rfl
  · exact cash_accept_via_attempt X s net 0 h pre hd
  · exact cash_accept_via_attempt X s net 1 h pre hd
  · exact cash_accept_via_attempt X s net 2 h pre hd

example (s : Bytes) (net : Net) (b : Bool) : attemptStr s net b =
    if hasPrefixFold s net.cashPrefix || hasPrefixFold s net.slpPrefix then s
    else (if b then net.slpPrefix else net.cashPrefix) ++ [58] ++ lowerASCII s := rfl

/-- A string containing a colon is accepted only if `checkDecodeCashAddress` accepts the string
itself (the hex and Base58 stages never accept a colon), with one of the network's two prefixes. -/
theorem C02_qualified_accept (X : Ext) : ∀ net ∈ nets, ∀ (s : Bytes) (a : Addr), 58 ∈ s →
    DecodeAddress X s net = .ok a →
    ∃ p d t, checkDecodeCashAddress s = (p, .ok (d, t)) ∧ (p = net.cashPrefix ∨ p = net.slpPrefix) ∧
      ∃ pre, a = mkCash t d pre :=
  fun net hnet s a h58 h => qualified_accept X net (nets_wf hnet) s a h58 h

/-- what `checkDecodeCashAddress` does once the character/checksum stage has succeeded -/
example (w pre pl : Bytes) (h : DecodeCashAddress w = .ok (pre, pl)) :
    checkDecodeCashAddress w = (pre, payloadResult pl) := cdc_of_decode w pre pl h

/-- **C02_reject_unknown_version**: a string with a VALID checksum whose payload unpacks to 21 bytes with
a version byte other than 0x00/0x08, or to 33 bytes with a version byte other than 0x0b, is rejected
with `unknownType` (the unfixed Go code accepted the former as P2PKH). -/
theorem C02_reject_unknown_version (w pre pl data : Bytes)
    (hd : DecodeCashAddress w = .ok (pre, pl)) (hc : convertBits pl 5 8 false = some data)
    (hv : (data.length = 21 ∧ data.headD 0 ≠ 0x00 ∧ data.headD 0 ≠ 0x08) ∨
      (data.length = 33 ∧ data.headD 0 ≠ 0x0b)) :
    checkDecodeCashAddress w = (pre, .error .unknownType) := by
  rw [cdc_of_decode w pre pl hd, payload_unknown_version pl data hc hv]

/-- **C02_reject_length**: a valid checksum over a payload of any byte length other than 21 / 33. -/
theorem C02_reject_length (w pre pl data : Bytes)
    (hd : DecodeCashAddress w = .ok (pre, pl)) (hc : convertBits pl 5 8 false = some data)
    (hl : data.length ≠ 21 ∧ data.length ≠ 33) :
    checkDecodeCashAddress w = (pre, .error .length) := by
  rw [cdc_of_decode w pre pl hd, payload_bad_length pl data hc hl]

/-- **C02_reject_padding**: a valid checksum over a payload with five or more padding bits or a non-zero
padding bit (`beVal 5` = the number spelled by the 5-bit symbols). -/
theorem C02_reject_padding (w pre pl : Bytes) (hd : DecodeCashAddress w = .ok (pre, pl))
    (hp : 5 ≤ 5 * pl.length % 8 ∨ beVal 5 (pl.map UInt8.toNat) % 2 ^ (5 * pl.length % 8) ≠ 0) :
    checkDecodeCashAddress w = (pre, .error .padding) := by
  obtain ⟨_, _, _, _, _, _, _, hpl, _⟩ := decode_canonical w pre pl hd
  rw [cdc_of_decode w pre pl hd, payload_padding pl ((convertBits_rejects_padding pl hpl).mpr hp)]

/-- The accepted payloads are exactly the three (type, version byte, hash length) combinations. -/
theorem C02_accept_payload_iff (pl d : Bytes) (t : Nat) :
    payloadResult pl = .ok (d, t) ↔ ∃ ver, convertBits pl 5 8 false = some (ver :: d) ∧
      ((t = 0 ∧ ver = 0x00 ∧ d.length = 20) ∨ (t = 1 ∧ ver = 0x08 ∧ d.length = 20) ∨
       (t = 2 ∧ ver = 0x0b ∧ d.length = 32)) :=
  payloadResult_ok_iff pl d t

/-- **C02_reject_checksum**: `P:B` (first colon after `P`) whose body maps to symbols `values` that do
not verify under the case-folded prefix is never decoded … -/
theorem C02_reject_checksum (P B values : Bytes) (hP : 58 ∉ P)
    (hmap : B.mapM charsetRev = some values)
    (hver : verifyChecksum (lowerASCII P) values = false) :
    ∀ r, DecodeCashAddress (P ++ 58 :: B) ≠ .ok r :=
  decode_reject_checksum P B values hP hmap hver

/-- … and when it is otherwise well-formed the error is precisely `checksumMismatch` (the class that
triggers the SLP retry). -/
theorem C02_reject_checksum_class (P B values : Bytes) (hne : P ≠ [])
    (hP : ∀ c ∈ P, isLetter c = true) (hB : ∀ c ∈ B, isAlnum c = true)
    (hcase : ¬ ((P ++ B).any isUp = true ∧ (P ++ B).any isLow = true))
    (hmap : B.mapM charsetRev = some values)
    (hver : verifyChecksum (P.map (· ||| 0x20)) values = false) :
    DecodeCashAddress (P ++ 58 :: B) = .error .checksumMismatch :=
  decode_mismatch P B values hne hP hB hcase hmap hver

/-- A checksum is accepted only if it is THE checksum: the last eight symbols of an accepted body are
`createChecksum prefix payload`. -/
theorem C02_accepted_checksum (str pre pl : Bytes) (h : DecodeCashAddress str = .ok (pre, pl)) :
    ∃ enc, encode pre pl = some enc ∧ lowerASCII str = pre ++ 58 :: enc :=
  let ⟨enc, h1, h2, _⟩ := decode_canonical str pre pl h
  ⟨enc, h1, h2⟩

/-- **C02_reject_foreign_prefix**: a string `P:B` whose case-folded prefix part `P` is neither the cash
nor the SLP prefix of the network asked for (another network's prefix, an unregistered one, …) is never
accepted — whatever follows the colon. -/
theorem C02_reject_foreign_prefix (X : Ext) : ∀ net ∈ nets, ∀ (P B : Bytes), 58 ∉ P →
    lowerASCII P ≠ net.cashPrefix → lowerASCII P ≠ net.slpPrefix →
    ∀ a, DecodeAddress X (P ++ 58 :: B) net ≠ .ok a := by
  intro net hnet P B hP hc hs a h
  obtain ⟨p, d, t, hcd, hp, _⟩ := qualified_accept X net (nets_wf hnet) _ a (by simp) h
  obtain ⟨_, _, hlow, _, hplow⟩ := cdc_ok_inv X _ p d t hcd
  rw [lower_append] at hlow
  have h1 : lowerASCII (58 :: B) = 58 :: lowerASCII B := rfl
  rw [h1] at hlow
  have := (split_colon (fun hm => hP (mem_lower_58.mp hm)) (low_no_colon hplow) hlow).1
  rcases hp with rfl | rfl
  · exact hc this
  · exact hs this

/-- non-vacuity: the regtest prefix on mainnet -/
example : (58 : UInt8) ∉ regTest.cashPrefix ∧ lowerASCII regTest.cashPrefix ≠ mainNet.cashPrefix ∧
    lowerASCII regTest.cashPrefix ≠ mainNet.slpPrefix ∧ mainNet ∈ nets := by decide +kernel

/-! ### network separation -/

/-- **C02_net_cash**: an accepted CashAddr-kind address carries the cash or the SLP prefix of the network
asked for; if it is the cash prefix (the non-SLP case) it belongs to that network, and to another
network exactly when that one has the same cash prefix; if it is the SLP prefix it belongs to none
of the asked network's … (`IsForNet` compares with the cash prefix). -/
theorem C02_net_cash (X : Ext) : ∀ net ∈ nets, ∀ (s : Bytes) (a : Addr) (h pre : Bytes),
    (a = .pkh h pre ∨ a = .sh h pre ∨ a = .sh32 h pre) → DecodeAddress X s net = .ok a →
    (pre = net.cashPrefix ∨ pre = net.slpPrefix) ∧
    (pre = net.cashPrefix → IsForNet a net = true ∧
      ∀ net', IsForNet a net' = true ↔ net'.cashPrefix = net.cashPrefix) ∧
    (pre = net.slpPrefix → IsForNet a net = false) := by
  intro net hnet s a h pre hk hd
  have hwf := nets_wf hnet
  have hc := canonical X net hwf s a hd
  have hisfor : ∀ net', IsForNet a net' = decide (pre = net'.cashPrefix) := by
    intro net'; rcases hk with rfl | rfl | rfl <;> rfl
  have hpre : pre = net.cashPrefix ∨ pre = net.slpPrefix := by
    rcases hk with rfl | rfl | rfl <;> exact hc.1
  refine ⟨hpre, ?_, ?_⟩
  · intro he
    refine ⟨by rw [hisfor, he]; simp, fun net' => ?_⟩
    rw [hisfor, he]; simp [eq_comm]
  · intro he
    rw [hisfor, he]
    simp only [decide_eq_false_iff_not]
    exact fun e => hwf.cash_ne_slp e.symm

/-- the networks really are separated by their cash prefixes, except the three test networks that
share `bchtest` -/
example : ∀ n ∈ nets, ∀ m ∈ nets, n.cashPrefix = m.cashPrefix →
    (n = m ∨ (n ∈ [testNet3, testNet4, chipNet] ∧ m ∈ [testNet3, testNet4, chipNet])) := by
  decide +kernel

/-- **C02_net_legacy**: an accepted legacy address carries a registered version byte of its kind only
(P2PKH: 0x00/0x3f/0x6f, P2SH: 0x05/0x7b/0xc4), and it is for network `m` iff that byte is `m`'s id of
that kind. -/
theorem C02_net_legacy (X : Ext) : ∀ net ∈ nets, ∀ (s d : Bytes) (id : UInt8),
    (DecodeAddress X s net = .ok (.legacyPkh d id) →
      id ∈ pkhIDs ∧ id ∉ shIDs ∧ d.length = 20 ∧ ∀ m, IsForNet (.legacyPkh d id) m = true ↔ m.pkhID = id) ∧
    (DecodeAddress X s net = .ok (.legacySh d id) →
      id ∈ shIDs ∧ id ∉ pkhIDs ∧ d.length = 20 ∧ ∀ m, IsForNet (.legacySh d id) m = true ↔ m.shID = id) := by
  intro net hnet s d id
  have hwf := nets_wf hnet
  constructor
  · intro h
    rcases decode_ok_cases X net hwf s _ h with ⟨t, d', ver, pre, ha, _⟩ | ⟨flag, ht⟩
    · unfold mkCash at ha; split at ha <;> cases ha
    · rcases tail_ok_inv X s net flag _ ht with ⟨_, ser, _, hn⟩ | ⟨_, d', id', _, h20, hk⟩
      · obtain ⟨_, _, _, _, he⟩ := newPubKey_ok_inv X ser net _ hn
        cases he
      · rcases hk with ⟨h1, h2, he⟩ | ⟨_, _, he⟩
        · cases he
          exact ⟨h1, h2, h20, fun m => by simp [IsForNet, eq_comm]⟩
        · cases he
  · intro h
    rcases decode_ok_cases X net hwf s _ h with ⟨t, d', ver, pre, ha, _⟩ | ⟨flag, ht⟩
    · unfold mkCash at ha; split at ha <;> cases ha
    · rcases tail_ok_inv X s net flag _ ht with ⟨_, ser, _, hn⟩ | ⟨_, d', id', _, h20, hk⟩
      · obtain ⟨_, _, _, _, he⟩ := newPubKey_ok_inv X ser net _ hn
        cases he
      · rcases hk with ⟨_, _, he⟩ | ⟨h1, h2, he⟩
        · cases he
        · cases he
          exact ⟨h1, h2, h20, fun m => by simp [IsForNet, eq_comm]⟩

/-- Note that the decoder does not compare the version byte with the network asked for: on every network
it accepts the legacy addresses of all registered networks (as the Go code does). What it does on a
Base58Check string of a 20-byte payload, for every version byte: -/
theorem C02_legacy_any_version (X : Ext) (hsha : ∀ x, 4 ≤ (X.sha256d x).length) :
    ∀ net ∈ nets, ∀ (h : Bytes) (id : UInt8), h.length = 20 →
    DecodeAddress X (Base58.CheckEncode X.sha256d h id) net =
      if pkhIDs.contains id then .ok (.legacyPkh h id)
      else if shIDs.contains id then .ok (.legacySh h id)
      else .error .unknownAddressType :=
  fun net hnet h id hl => legacy_decode X net (nets_wf hnet) h hl id hsha

/-- `ErrAddressCollision` would need a version byte registered both as P2PKH and P2SH id; with the
registered tables there is none, so the error is unreachable — for every input and every `Net` value. -/
theorem C02_no_collision (X : Ext) (s : Bytes) (net : Net) :
    (∀ id : UInt8, ¬ (pkhIDs.contains id = true ∧ shIDs.contains id = true)) ∧
    DecodeAddress X s net ≠ .error .addressCollision :=
  ⟨ids_disjoint, no_collision X s net⟩

/-! ### non-vacuity (tests) -/

/-- a toy parameter pack (same as in C01) satisfying `SerLaw` -/
def Xtoy : Ext where
  sha256d := fun _ => List.replicate 32 7
  hash160 := fun _ => List.replicate 20 1
  hash256 := fun _ => List.replicate 32 2
  parsePub := fun ser => if ser.headD 0 = 2 ∧ ser.length = 33 then some (ser.drop 1) else none
  serPub := fun _ pt => 2 :: pt

example : SerLaw Xtoy := by
  intro ser pt f hp _
  simp only [Xtoy] at hp ⊢
  split at hp
  · rename_i hc
    cases ser with
    | nil => simp at hc
    | cons x xs =>
      simp only [List.headD_cons] at hc
      simp only [List.drop_succ_cons, List.drop_zero, Option.some.injEq] at hp
      rw [← hp, hc.1]
  · cases hp

/-- accepted inputs of each family exist (hypotheses of the theorems above are satisfiable) -/
example : DecodeAddress Xtoy (Bytes.ofString "BITCOINCASH:QQQQQQQQQQQQQQQQQQQQQQQQQQQQQQQQQQFNHKS603") mainNet
    = .ok (.pkh (List.replicate 20 0) mainNet.cashPrefix) := by decide +kernel
example : DecodeAddress Xtoy (EncodeAddress Xtoy (.legacySh (List.replicate 20 3) 5)) simNet
    = .ok (.legacySh (List.replicate 20 3) 5) := by decide +kernel   -- mainnet P2SH id accepted on simnet
example : DecodeAddress Xtoy (hexEnc (2 :: List.replicate 32 9)) testNet3
    = .ok (.pubKey 1 (List.replicate 32 9) testNet3.pkhID) := by decide +kernel

/-- an unknown version byte (0x10: "type 2, size 0") under a valid checksum is rejected; the unfixed code
returned a P2PKH address here -/
example : (convertBits (0x10 :: List.replicate 20 0) 8 5 true).bind (encode mainNet.cashPrefix)
      = some (Bytes.ofString "zqqqqqqqqqqqqqqqqqqqqqqqqqqqqqqqqqweyg7usz") ∧
    checkDecodeCashAddress (Bytes.ofString "bitcoincash:zqqqqqqqqqqqqqqqqqqqqqqqqqqqqqqqqqweyg7usz")
      = (mainNet.cashPrefix, .error .unknownType) ∧
    DecodeAddress Xtoy (Bytes.ofString "bitcoincash:zqqqqqqqqqqqqqqqqqqqqqqqqqqqqqqqqqweyg7usz") mainNet
      = .error .unknownFormat := by decide +kernel

/-- a 20-byte payload (version byte + 19 hash bytes) under a valid checksum: `length` error -/
example : ((convertBits (0 :: List.replicate 19 0) 8 5 true).bind (encode mainNet.cashPrefix)).map
      (fun s => checkDecodeCashAddress (mainNet.cashPrefix ++ [58] ++ s))
    = some (mainNet.cashPrefix, .error .length) := by decide +kernel
/-- 34 symbols whose last symbol sets a padding bit, under a valid checksum: `padding` error -/
example : (encode mainNet.cashPrefix (List.replicate 33 0 ++ [1])).map
      (fun s => checkDecodeCashAddress (mainNet.cashPrefix ++ [58] ++ s))
    = some (mainNet.cashPrefix, .error .padding) := by decide +kernel
/-- a valid SLP string is a checksum mismatch under the cash prefix -/
example : (checkDecodeCashAddress (mainNet.cashPrefix ++ [58] ++
      EncodeAddress Xtoy (.pkh (List.replicate 20 0) mainNet.slpPrefix))).2
    = .error (.decode .checksumMismatch) := by decide +kernel

end Bch.Props.C02
