import Bch.Proofs.HDKeyReach
import Bch.Props.C05
/-!
# C05 — every key reachable by derivation parses back from its string

`Bch/Props/C05.lean` states the round trip for a key satisfying `WF`/`Reduced`/…, and separately for
master keys and for one `Child` step. Here the quantification is over **all keys the API can reach**.

Vocabulary (`Bch/Proofs/HDKeyReach.lean`):
* `Reachable X k` — the derivations of `k`: a `NewMaster` result (4-byte version) or a key accepted by
  `NewKeyFromString`, followed by any number of successful `Child` (index `< 2^32`) and `Neuter` steps.
  (The model has no `SetNet`.) It is a `Type` — the derivation is data — so that a hypothesis can speak
  about its steps; "`k` is reachable" is `Nonempty (Reachable X k)`.
* `NoZeroStep X k i` — the step `Child k i` is not the degenerate case BIP32 declares invalid and the Go
  code does not test: `(IL + k) mod n ≠ 0` for a private parent, `IL·G + K ≠ ∞` for a public parent.
  `C05_noZeroStep_nonDegenerate`: this is `NonDegenerate` of C04 (`C04_refines_priv/pub`, `NonDegPath`).
* `NoZeroChild X r` — no `Child` step of the derivation `r` is degenerate.
* `Usable X k` — private scalar `≠ 0` / the 33 public bytes parse.

Hypotheses on the external pack: `GroupLaws X` and `ParseCanonical X` (`ParsePubKey` accepts only the
canonical compressed encoding of its result; needed for keys that enter through `NewKeyFromString` and
for the sharp criterion `C05_reachable_roundtrip_iff`). `Toy.X` satisfies both.
-/
namespace Bch.Props.C05
open Bch Bch.Model Bch.Model.HDKey Bch.Spec.BIP32 Bch.Proofs.HDKey Bytes

variable {Pt : Type} {X : HDExt Pt}

/-- **Every reachable key is well-formed**, provided no `Child` step on the way was degenerate
(`NoZeroChild`): 4-byte version and fingerprint, 32-byte chain code, depth ≤ 255, child number a `uint32`;
a private key has a 32-byte scalar in `[1, n-1]`; a public key has 33 bytes which parse and are the
canonical compressed encoding of the parsed point. These are exactly the hypotheses of `C05_parse_string`
(`WF`, `Reduced`, non-zero, child number). -/
theorem C05_reachable_wf (L : GroupLaws X) (hc : ParseCanonical X) {k : XKey} (r : Reachable X k)
    (hnd : NoZeroChild X r) :
    k.version.length = 4 ∧ k.parentFP.length = 4 ∧ k.chainCode.length = 32 ∧ k.depth ≤ 255 ∧
    k.childNum < 2 ^ 32 ∧
    (k.isPrivate = true → k.key.length = 32 ∧ 0 < toNatBE k.key ∧ toNatBE k.key < X.n) ∧
    (k.isPrivate = false → k.key.length = 33 ∧ ∃ P, X.parse k.key = some P ∧ k.key = X.serC P) ∧
    WF X k ∧ Reduced X k := by
  have g := reachable_good L hc r hnd
  exact ⟨g.wf.ver_len, g.wf.fp_len, g.wf.cc_len, g.wf.depth_le, g.cn,
    fun hp => ⟨g.wf.priv_len hp, Nat.pos_of_ne_zero (g.nz hp), g.red hp⟩, g.wf.pub_key, g.wf, g.red⟩

/-- **Every reachable key round-trips** (under `NoZeroChild`): `NewKeyFromString (String k)` succeeds with
a key `k'` that *is* `k` — hence has the identical string, private/public flag, depth, parent fingerprint,
child number, chain code and version, and the identical derivation behaviour: `Child k' i = Child k i`
(result or error) for every index, and `Neuter k' = Neuter k`. -/
theorem C05_reachable_roundtrip (L : GroupLaws X) (hc : ParseCanonical X) {k : XKey} (r : Reachable X k)
    (hnd : NoZeroChild X r) :
    ∃ k', NewKeyFromString X (HDKey.String X k) = .ok k' ∧ k' = k ∧
      HDKey.String X k' = HDKey.String X k ∧ k'.isPrivate = k.isPrivate ∧ k'.depth = k.depth ∧
      k'.parentFP = k.parentFP ∧ k'.childNum = k.childNum ∧ k'.chainCode = k.chainCode ∧
      k'.version = k.version ∧ (∀ i, Child X k' i = Child X k i) ∧ Neuter X k' = Neuter X k := by
  have g := reachable_good L hc r hnd
  exact ⟨k, C05_parse_string L g.wf g.red g.nz g.cn, rfl, rfl, rfl, rfl, rfl, rfl, rfl, rfl, fun _ => rfl, rfl⟩

/-- The same hypothesis in C04's vocabulary: at a well-formed parent denoting the BIP32-level key `s`,
`NoZeroStep` is `NonDegenerate X s i` (the hypothesis of `C04_refines_priv/pub`, `NonDegPath`). -/
theorem C05_noZeroStep_nonDegenerate (L : GroupLaws X) {k : XKey} (hwf : WF X k) {s : SKey Pt}
    (habs : abs X k = some s) (i : Nat) (hi : k.isPrivate = true ∨ i < 2 ^ 31) :
    NoZeroStep X k i ↔ NonDegenerate X s i :=
  noZeroStep_iff_nonDegenerate L hwf habs i hi

/-- `NoZeroChild`, spelled out constructor by constructor. -/
theorem C05_noZeroChild_unfold :
    (∀ {seed v : Bytes} {k : XKey} (hv : v.length = 4) (h : NewMaster X seed v = .ok k),
      NoZeroChild X (.master hv h) ↔ True) ∧
    (∀ {s : Bytes} {k : XKey} (h : NewKeyFromString X s = .ok k), NoZeroChild X (.parsed h) ↔ True) ∧
    (∀ {k c : XKey} {i : Nat} (r : Reachable X k) (hi : i < 2 ^ 32) (h : Child X k i = .ok c),
      NoZeroChild X (.child r hi h) ↔
        (NoZeroChild X r ∧
          if k.isPrivate then (childIL X k i + toNatBE k.key) % X.n ≠ 0
          else addO X (X.mulG (childIL X k i)) (X.parse k.key) ≠ none)) ∧
    (∀ {k nk : XKey} (r : Reachable X k) (h : Neuter X k = .ok nk),
      NoZeroChild X (.neuter r h) ↔ NoZeroChild X r) :=
  ⟨fun _ _ => Iff.rfl, fun _ => Iff.rfl, fun _ _ _ => Iff.rfl, fun _ _ => Iff.rfl⟩

/-! ### without the hypothesis: what holds of every reachable key, and exactly which ones round-trip -/

/-- Whatever happened on the way (degenerate steps included), a reachable key has the field shapes:
4-byte version and fingerprint, 32-byte chain code, depth ≤ 255, `uint32` child number, a 32-byte private
scalar `< n` resp. 33 public bytes; its string is never the "zeroed extended key" marker. Only "scalar
`≠ 0`" / "the 33 bytes parse" can fail. -/
theorem C05_reachable_shape (L : GroupLaws X) (hc : ParseCanonical X) {k : XKey} (r : Reachable X k) :
    k.version.length = 4 ∧ k.parentFP.length = 4 ∧ k.chainCode.length = 32 ∧ k.depth ≤ 255 ∧
    k.childNum < 2 ^ 32 ∧
    (k.isPrivate = true → k.key.length = 32 ∧ toNatBE k.key < X.n) ∧
    (k.isPrivate = false → k.key.length = 33) ∧
    HDKey.String X k = Base58.Encode (payload k ++ (X.sha256d (payload k)).take 4) := by
  have s := reachable_shape L hc r
  exact ⟨s.ver_len, s.fp_len, s.cc_len, s.depth_le, s.cn, fun hp => ⟨s.priv_len hp, s.priv_red hp⟩,
    s.pub_len, String_eq_of_shape s⟩

/-- **Sharp criterion.** A reachable key parses back from its string to itself **iff** its key material
is usable: the private scalar is not 0, resp. the 33 public bytes parse. No hypothesis on the derivation.
(So a degenerate `Child` step hurts only the key it produces and that key's `Neuter`: the children of a
zero-scalar private key are ordinary keys again, and a public key whose bytes do not parse has no
children.) -/
theorem C05_reachable_roundtrip_iff (L : GroupLaws X) (hc : ParseCanonical X) {k : XKey}
    (r : Reachable X k) :
    NewKeyFromString X (HDKey.String X k) = .ok k ↔
      ((k.isPrivate = true → toNatBE k.key ≠ 0) ∧ (k.isPrivate = false → X.parse k.key ≠ none)) := by
  constructor
  · intro h
    exact (good_parsed hc h).usable
  · intro hu
    have g := (reachable_good_iff L hc r).2 hu
    exact C05_parse_string L g.wf g.red g.nz g.cn

/-- `NoZeroChild` is sufficient for the criterion. -/
theorem C05_reachable_usable (L : GroupLaws X) (hc : ParseCanonical X) {k : XKey} (r : Reachable X k)
    (hnd : NoZeroChild X r) :
    (k.isPrivate = true → toNatBE k.key ≠ 0) ∧ (k.isPrivate = false → X.parse k.key ≠ none) :=
  (reachable_good L hc r hnd).usable

/-- In any case, whatever `NewKeyFromString` makes of the string of a reachable key re-serialises to that
string (instance of `C05_string_parse`; no law needed). -/
theorem C05_reachable_string_stable {k k' : XKey} (_r : Reachable X k)
    (h : NewKeyFromString X (HDKey.String X k) = .ok k') : HDKey.String X k' = HDKey.String X k :=
  C05_string_parse h

/-! ### non-vacuity: a concrete derivation of the toy instance (ℤ/7) -/

-- the laws hold
example : GroupLaws Toy.X ∧ ParseCanonical Toy.X := ⟨Toy.laws, Toy.parseCanonical⟩

-- `NewMaster(seed).Child(2^31).Child(4).Neuter().Child(1)`: a hardened private step, a normal private step,
-- neutering and a public step; every step succeeds and none is degenerate
example : NewMaster Toy.X Toy.seed Toy.xprv = .ok Toy.m0 ∧ Child Toy.X Toy.m0 (2 ^ 31) = .ok Toy.c1 ∧
    Child Toy.X Toy.c1 4 = .ok Toy.c2 ∧ Neuter Toy.X Toy.c2 = .ok Toy.n2 ∧ Child Toy.X Toy.n2 1 = .ok Toy.c3 :=
  ⟨Toy.master_m0, Toy.child_m0_hard, Toy.child_c1_4, Toy.neuter_c2, Toy.child_n2_1⟩
example : ∃ r : Reachable Toy.X Toy.c3, NoZeroChild Toy.X r := ⟨Toy.reach_c3, Toy.noZero_c3⟩

-- … so the final public key (depth 3, child number 1) parses back to itself
example : NewKeyFromString Toy.X (HDKey.String Toy.X Toy.c3) = .ok Toy.c3 ∧ Toy.c3.depth = 3 ∧
    Toy.c3.isPrivate = false := by
  obtain ⟨k', h, rfl, _⟩ := C05_reachable_roundtrip Toy.laws Toy.parseCanonical Toy.reach_c3 Toy.noZero_c3
  exact ⟨h, rfl, rfl⟩

-- a key that entered through `NewKeyFromString` and was derived further
example : ∃ (c : XKey) (r : Reachable Toy.X c), NoZeroChild Toy.X r ∧ c.depth = 1 := by
  have hp : NewKeyFromString Toy.X (HDKey.String Toy.X Toy.kPriv) = .ok Toy.kPriv :=
    C05_parse_string Toy.laws Toy.wf_kPriv Toy.reduced_kPriv (fun _ => by rw [Toy.key_kPriv]; decide) (by decide)
  obtain ⟨c, hc⟩ := Toy.child_kPriv_0
  have hi : (0 : Nat) < 2 ^ 32 := by decide
  refine ⟨c, .child (.parsed hp) hi hc, And.intro trivial ?_, ?_⟩
  · rw [noZeroStep_priv rfl, Toy.IL_kPriv_0, Toy.key_kPriv]; decide +kernel
  · rw [(child_lens Toy.laws Toy.wf_kPriv hc).2.2.2.1]; rfl

-- the hypothesis cannot be dropped: `NewMaster(seed).Child(8)` is reachable, its only `Child` step is
-- degenerate (scalar (4 + 3) mod 7 = 0), and its string does not parse back to it
example : ∃ r : Reachable Toy.X Toy.cZero', ¬ NoZeroChild Toy.X r ∧
    NewKeyFromString Toy.X (HDKey.String Toy.X Toy.cZero') ≠ .ok Toy.cZero' := by
  refine ⟨Toy.reach_cZero, Toy.zero_cZero, fun h => ?_⟩
  exact ((C05_reachable_roundtrip_iff Toy.laws Toy.parseCanonical Toy.reach_cZero).1 h).1 rfl
    (by decide +kernel)

-- … while its children are ordinary keys again (the criterion is about the key, not the derivation):
-- `cZero'.Child(5)` exists, is reached through a degenerate step, and round-trips
example : ∃ (c : XKey) (r : Reachable Toy.X c), ¬ NoZeroChild Toy.X r ∧
    NewKeyFromString Toy.X (HDKey.String Toy.X c) = .ok c := by
  have hIL : childIL Toy.X Toy.cZero' 5 = 5 := by decide +kernel
  have hi : (5 : Nat) < 2 ^ 32 := by decide
  have hch : Child Toy.X Toy.cZero' 5 =
      .ok ⟨ofNatBE 32 5, List.replicate 32 7, 2, [0,0,0,0], 5, Toy.xprv, true⟩ := by
    rw [Child_priv Toy.laws rfl, if_neg (by decide), if_neg (by rw [hIL]; decide)]
    exact congrArg Except.ok (by decide +kernel)
  refine ⟨_, .child Toy.reach_cZero hi hch, fun h => Toy.zero_cZero (And.left h), ?_⟩
  exact (C05_reachable_roundtrip_iff Toy.laws Toy.parseCanonical
    (.child Toy.reach_cZero hi hch)).2 ⟨fun _ => by decide +kernel, fun hf => by cases hf⟩

end Bch.Props.C05
