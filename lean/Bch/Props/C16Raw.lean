import Bch.Props.C16Tx
/-
C16, `NewBlockFromBytes` on input the wire package does not write back identically.

`C16_cache_coherent` is stated for blocks whose cached bytes are the serialisation of the wrapped message
(`s₀ = initBytes W.ser`); for `NewBlockFromBytes(x)` that is the law "parsing `x` and writing the result gives the bytes
that were consumed".  The law is an *assumption about the external package `bchd/wire`* — and it is false there for one
input class (found in wave 7 by running the real code at this hypothesis): an output whose script field starts with the
CashToken prefix byte 0xef followed by an all-zero category is parsed into token data that `wire` treats as "no token"
when writing (an observation about the external package: it is recorded as a known finding and evaluated on the real
package by the harness — it cannot be a theorem here, where `wire` is the parameter `deser` / `W`).  The theorems below
are short corollaries of `Props/C16Tx.lean` that say exactly what the wrapper does then: it keeps the consumed bytes (model =
implementation, compared on every run by the `blk raw` cases), so the cache invariant fails exactly for such input.
-/
namespace Bch.Props.C16
open Bch Bch.Model Bch.Model.BlockCache Bch.Proofs.BlockCache

/-- what `NewBlockFromBytes` caches is the consumed prefix of its input, whatever the parser made of it -/
theorem C16_fromBytes_caches_consumed (deser : Bytes → Option (Wire × Bytes)) (input : Bytes) (W : Wire) (rest : Bytes)
    (h : deser input = some (W, rest)) :
    newBlockFromBytes deser input = some (W, initBytes (input.take (input.length - rest.length))) := by
  simp [newBlockFromBytes, h]

/-- **the cache invariant after `NewBlockFromBytes` holds iff the wire package round-trips the consumed bytes**
    (or nothing was consumed) -/
theorem C16_fromBytes_coherent_iff (W : Wire) (consumed : Bytes) :
    Inv W (initBytes consumed) ↔ (consumed = W.ser ∨ consumed = []) :=
  C16_blockAndBytes W consumed

/-- when it does not, every `Bytes()` call keeps returning the consumed input bytes — never the serialisation of the
    wrapped message (the behaviour the harness observes on the real code for the token-prefix input) -/
theorem C16_fromBytes_noncanonical_returned (W : Wire) (consumed : Bytes) (hne : consumed ≠ []) (calls : List Call)
    (p : Nat) (hp : calls[p]? = some .bytes) :
    (run W (initBytes consumed) calls).2[p]? = some (.bytes consumed 0) :=
  (C16_blockAndBytes_vouched W consumed hne calls).2 p hp

-- the example block of `Props/C16.lean` with two foreign bytes standing for "what was consumed": not coherent
example : ¬ Inv exW (initBytes [0xDE, 0xAD]) := C16_blockAndBytes_witness.1

end Bch.Props.C16
