import Bch.Proofs.MerkleHeap
import Bch.Props.C11Select
/-
C11, the memory clause: WHICH MEMORY the merkle-block builders `merkleblock.NewMerkleBlockWithTxnSet`,
`merkleblock.NewMerkleBlockWithFilter` (/repo/merkleblock/encode.go) and `bloom.NewMerkleBlock`
(/repo/bloom/merkleblock.go) read and write.

Heap-level model: `Bch.Model.MerkleHeap` (hash objects by pointer; `[]*chainhash.Hash`, `[]byte`, `[]uint32` backing
arrays with slice headers; the `bchutil.Tx` wrappers with their hash memo; `append` with an arbitrary growth policy
`G`).  `HKeeps h h'` = nothing that existed in `h` has been written, except that EMPTY hash memos of `Tx` wrappers may
have been filled (`C11_kept_means`).

What the Go code does with caller memory AFTER the filter scan (all of it is stated below; the two filter builders first
run `GetMatchedIndices`, which inserts outpoints into the caller's bloom filter message in place — that write is the
subject of C10 / `Model/BloomObj.lean` and is NOT part of this frame: `newWithFilterH` starts from the scan's result.
Blocks are meant to hold at least one transaction: for the empty block Go panics, see `Model/MerkleHeap.lean`):
* the caller's `txnSet` array and its hash objects are only read (`TxInSet` compares `*tx == *next`);
* the block is written in exactly one way: `tx.Hash()` fills the wrapper's empty memo `txHash` with a pointer to a
  NEW hash object (tx.go:39-49) — the builder calls it (twice) for every transaction;
* the LEAF hashes of the returned message are the pointers `tx.Hash()` returned, i.e. the hash objects cached in —
  and from then on shared with — the block's `Tx` wrappers; they are not copied.  Inner nodes are new objects;
* the message's `Hashes` and `Flags` arrays and the `matchedIndices` array are new on every call (no pooling).
-/
namespace Bch.Props.C11
open Bch Bch.Model.Merkle Bch.Model.MerkleSelect Bch.Model.MerkleHeap Bch.Proofs.MerkleHeap

variable {H : Type} [DecidableEq H]

omit [DecidableEq H] in
/-- what "kept" means: every old hash object and every old array (as a whole, spare capacity included) is unchanged,
hence so is every read through an old slice and every dereference of an old pointer; the `Tx` wrappers are the same
objects with the same ids; a memo that was filled is unchanged; a memo that was empty is still empty or points at a
hash object allocated later that holds the transaction's id -/
theorem C11_kept_means {h h' : Heap H} (k : HKeeps h h') :
    (∀ p, p < h.hashes.length → h'.hashes[p]? = h.hashes[p]?) ∧
    (∀ b, b < h.ptrs.length → h'.ptrs[b]? = h.ptrs[b]?) ∧
    (∀ b, b < h.bytes.length → h'.bytes[b]? = h.bytes[b]?) ∧
    (∀ b, b < h.u32s.length → h'.u32s[b]? = h.u32s[b]?) ∧
    (∀ (s : Slice), s.arr < h.ptrs.length → readPtrs h' s = readPtrs h s) ∧
    (∀ (zero : H) p, p < h.hashes.length → deref zero h' p = deref zero h p) ∧
    h'.txs.length = h.txs.length ∧
    (∀ (t : Nat) (tx : TxObj H), h.txs[t]? = some tx → ∃ tx' : TxObj H, h'.txs[t]? = some tx' ∧ tx'.id = tx.id ∧
      (∀ p, tx.memo = some p → tx'.memo = some p) ∧
      (∀ p, tx'.memo = some p → tx.memo = some p ∨ (h.hashes.length ≤ p ∧ h'.hashes[p]? = some tx.id))) :=
  ⟨k.meaning.1, k.meaning.2.1, k.meaning.2.2.1, k.meaning.2.2.2.1, k.meaning.2.2.2.2.1,
   k.meaning.2.2.2.2.2.2.2, k.txs.1, k.txs.2⟩

omit [DecidableEq H] in
/-- **Frame of all three builders (for the two filter builders: of the part after the bloom scan), unconditionally.**
For EVERY heap, block (slice of wrapper pointers), condition
and growth policy — `sel` is any function of the heap, the transaction's hash pointer and its index, so the theorem
covers `TxInSet(tx.Hash(), txnSet)` and `matchedMap[txIndex]` alike: nothing that existed is written except empty hash
memos; the returned message's `Hashes` and `Flags` live in arrays allocated by the call; `matchedIndices` is nil
(nothing matched) or a new array. -/
theorem C11_builder_frame (G : Growth) (comb : H → H → H) (zero : H) (callsHash : Bool)
    (sel : Heap H → Nat → Nat → Bool) (h : Heap H) (block : List Nat) :
    let R := buildH G comb zero callsHash sel h block
    HKeeps h R.1 ∧
    h.ptrs.length ≤ R.2.1.hashes.arr ∧ R.2.1.hashes.arr < R.1.ptrs.length ∧
    h.bytes.length ≤ R.2.1.flags.arr ∧ R.2.1.flags.arr < R.1.bytes.length ∧
    (R.2.2.cap = 0 ∨ h.u32s.length ≤ R.2.2.arr) ∧ (R.2.2.cap = 0 ∨ R.2.2.arr < R.1.u32s.length) ∧
    R.2.2.len ≤ R.2.2.cap ∧ R.2.1.transactions = block.length :=
  buildH_frame G comb zero callsHash sel h block

/-- every filled hash memo of the heap points at a hash object holding the transaction's id -/
abbrev TxWF := @Bch.Proofs.MerkleHeap.TxWF
/-- the caller's `txnSet` slice lies inside its array and none of its pointers dangles -/
abbrev SetWF := @Bch.Proofs.MerkleHeap.SetWF

/-- **`NewMerkleBlockWithTxnSet(block, txnSet)` reads only its arguments.**  For every heap with well-formed hash
memos, every block, every well-formed `txnSet` slice, every growth policy:
1. nothing that existed is written except empty hash memos of `Tx` wrappers: in particular the caller's `txnSet`
   array reads the same, its hash objects hold the same values, every transaction has the same id;
2. the message owns new arrays `Hashes` and `Flags`; `matchedIndices` is nil or new;
3. every hash pointer of the message exists and is either an object allocated by this call (an inner node, or a memo
   this call filled) or the memo some wrapper of the block already had: leaf hashes are SHARED with the block's cached
   transaction hashes;
4. reading the message and the index list back gives the value-level `buildWithTxnSet` on the block's transaction
   ids and the set's hash values (so `C11_set_roundtrip`, `C11_canonical`, … hold of the heap run). -/
theorem C11_builder_reads_only_its_arguments (G : Growth) (comb : H → H → H) (zero : H) (h : Heap H)
    (block : List Nat) (txnSet : Slice) (wf : TxWF h) (S : SetWF h txnSet) :
    let R := newWithTxnSetH G comb zero h block txnSet
    -- 1
    HKeeps h R.1 ∧ readPtrs R.1 txnSet = readPtrs h txnSet ∧ readHashes zero R.1 txnSet = readHashes zero h txnSet ∧
    (∀ t, txId zero R.1 t = txId zero h t) ∧
    -- 2
    h.ptrs.length ≤ R.2.1.hashes.arr ∧ h.bytes.length ≤ R.2.1.flags.arr ∧
    (R.2.2.cap = 0 ∨ h.u32s.length ≤ R.2.2.arr) ∧
    -- 3
    (∀ p ∈ readPtrs R.1 R.2.1.hashes, p < R.1.hashes.length ∧
      (h.hashes.length ≤ p ∨ ∃ t ∈ block, ∃ tx : TxObj H, h.txs[t]? = some tx ∧ tx.memo = some p)) ∧
    -- 4
    absMsg zero R.1 R.2.1 = (buildWithTxnSet comb (block.map (txId zero h)) (readHashes zero h txnSet) zero).1 ∧
    readU32 R.1 R.2.2 = (buildWithTxnSet comb (block.map (txId zero h)) (readHashes zero h txnSet) zero).2 := by
  obtain ⟨k, a1, -, f1, -, m1, -, -, -⟩ := buildH_frame G comb zero true
    (fun h p _ => txInSetH zero h p (readPtrs h txnSet)) h block
  obtain ⟨e1, e2, cl, -⟩ := newWithTxnSetH_spec G comb zero h block txnSet wf S
  have hr : readPtrs (newWithTxnSetH G comb zero h block txnSet).1 txnSet = readPtrs h txnSet :=
    k.ptrs.readA_of_valid S.valid
  refine ⟨k, hr, ?_, fun t => txId_keeps zero k t, a1, f1, m1, cl, e1, e2⟩
  unfold readHashes
  rw [hr]
  exact List.map_congr_left (fun p hp' => deref_keeps zero k.hashes (S.ok p hp'))

/-- **No pooling: two messages built one after the other share no array**, whatever the two blocks and sets are
(`Hashes` ≠ `Hashes`, `Flags` ≠ `Flags`, and the two `matchedIndices` are different arrays unless one of them is nil);
and building the second message leaves the first one (its arrays, its hash objects — hence its value) as it was. -/
theorem C11_builders_share_no_array (G : Growth) (comb : H → H → H) (zero : H) (h : Heap H)
    (block1 block2 : List Nat) (set1 set2 : Slice) (wf : TxWF h) (S : SetWF h set1) :
    let R1 := newWithTxnSetH G comb zero h block1 set1
    let R2 := newWithTxnSetH G comb zero R1.1 block2 set2
    R2.2.1.hashes.arr ≠ R1.2.1.hashes.arr ∧ R2.2.1.flags.arr ≠ R1.2.1.flags.arr ∧
    (R1.2.2.cap = 0 ∨ R2.2.2.cap = 0 ∨ R2.2.2.arr ≠ R1.2.2.arr) ∧
    HKeeps R1.1 R2.1 ∧ absMsg zero R2.1 R1.2.1 = absMsg zero R1.1 R1.2.1 ∧
    readU32 R2.1 R1.2.2 = readU32 R1.1 R1.2.2 := by
  obtain ⟨-, -, a1, -, f1, -, x1, l1, -⟩ := buildH_frame G comb zero true
    (fun h p _ => txInSetH zero h p (readPtrs h set1)) h block1
  obtain ⟨-, -, cl, -⟩ := newWithTxnSetH_spec G comb zero h block1 set1 wf S
  obtain ⟨k2, a2, -, f2, -, m2, -, -, -⟩ := buildH_frame G comb zero true
    (fun h p _ => txInSetH zero h p (readPtrs h set2)) (newWithTxnSetH G comb zero h block1 set1).1 block2
  refine ⟨?_, ?_, ?_, k2, absMsg_keeps' zero k2 a1 f1 (fun p hp' => (cl p hp').1), ?_⟩
  · exact Nat.ne_of_gt (Nat.lt_of_lt_of_le a1 a2)
  · exact Nat.ne_of_gt (Nat.lt_of_lt_of_le f1 f2)
  · rcases x1 with c1 | c1
    · exact Or.inl c1
    · rcases m2 with m2 | m2
      · exact Or.inr (Or.inl m2)
      · exact Or.inr (Or.inr (Nat.ne_of_gt (Nat.lt_of_lt_of_le c1 m2)))
  · rcases x1 with c1 | c1
    · -- a nil / zero-capacity slice reads `[]` in every heap
      have : ∀ (hh : Heap H), readU32 hh (newWithTxnSetH G comb zero h block1 set1).2.2 = [] := by
        intro hh
        have hl : (newWithTxnSetH G comb zero h block1 set1).2.2.len = 0 := by
          have : (newWithTxnSetH G comb zero h block1 set1).2.2.len ≤
              (newWithTxnSetH G comb zero h block1 set1).2.2.cap := l1
          have c1' : (newWithTxnSetH G comb zero h block1 set1).2.2.cap = 0 := c1
          omega
        simp [readU32, readA, window, hl]
      rw [this, this]
    · exact k2.u32s.readA c1

/-- **The filter builders** (`NewMerkleBlockWithFilter`, `bloom.NewMerkleBlock`, after the scan produced
`matched = matchedMap`) refine the value-level `buildMsg` the same way (they do not look at any hash for the condition);
their frame is `C11_builder_frame`. -/
theorem C11_filter_builder_refines (G : Growth) (comb : H → H → H) (zero : H) (h : Heap H) (block : List Nat)
    (matched : Nat → Bool) (wf : TxWF h) :
    let R := newWithFilterH G comb zero h block matched
    let sel := fun j => decide (j < block.length) && matched j
    absMsg zero R.1 R.2.1 = (buildMsg comb (block.map (txId zero h)) sel zero).1 ∧
    readU32 R.1 R.2.2 = (buildMsg comb (block.map (txId zero h)) sel zero).2 ∧
    (∀ p ∈ readPtrs R.1 R.2.1.hashes, p < R.1.hashes.length ∧
      (h.hashes.length ≤ p ∨ ∃ t ∈ block, ∃ tx : TxObj H, h.txs[t]? = some tx ∧ tx.memo = some p)) := by
  have := buildH_spec G comb zero false (fun _ _ i => matched i) (fun _ i => matched i) h block wf
    (fun _ _ _ _ _ _ => rfl)
  have hs : selIdx block (fun _ i => matched i) = fun j => decide (j < block.length) && matched j := by
    funext j
    unfold selIdx
    by_cases hj : j < block.length
    · simp [hj]
    · simp [hj]
  rw [hs] at this
  exact ⟨this.1, this.2.1, this.2.2.1⟩

/-! ### non-vacuity and negative witnesses (kernel evaluation on concrete heaps; `H := Nat`, `exComb a b = 1000a+b`) -/

section Examples
open Bch.Proofs.Merkle

/-- growth policy "double" -/
def exGB : Growth := ⟨fun _ n => n, fun _ n => n, fun _ n => n⟩

/-- hash objects 11, 12, 10; one pointer array `[2, 1, 0]` of which the caller's `txnSet` is the first two slots (the
third is spare capacity): the set {10, 12}; three `Tx` wrappers with ids 10, 11, 12, the last with a filled memo
(pointer 1, the object holding 12) -/
def exHeapB : Heap Nat := ⟨[11, 12, 10], [[2, 1, 0]], [], [], [⟨10, none⟩, ⟨11, none⟩, ⟨12, some 1⟩]⟩
def exSet : Slice := ⟨0, 0, 2, 3⟩
def exBlock : List Nat := [0, 1, 2]

/-- the hypotheses `TxWF`, `SetWF` are satisfiable -/
example : TxWF exHeapB := by
  intro t tx e p hp
  match t, e with
  | 0, e => cases e; cases hp
  | 1, e => cases e; cases hp
  | 2, e => cases e; cases hp; rfl
  | t+3, e => cases e

example : SetWF exHeapB exSet := ⟨by unfold ValidA; decide, by decide⟩

/-- the real builder on the example -/
def exB : Heap Nat × MsgObj × Slice := newWithTxnSetH exGB exComb 0 exHeapB exBlock exSet

/-- the caller's set array (spare slot included) and all old hash objects are as before; the block's two empty memos
were filled with new objects (pointers 3, 4) holding the ids, the filled one is unchanged; the message's hash
pointers are `[3, 4, 1]`: the two just-cached transaction hashes, and the ALREADY cached one (pointer 1) — shared with
the block, not copied; values and index list are `buildWithTxnSet`'s -/
example :
    exB.1.ptrs[0]? = some [2, 1, 0] ∧ exB.1.hashes.take 3 = [11, 12, 10] ∧ readHashes 0 exB.1 exSet = [10, 12] ∧
    exB.1.txs = [⟨10, some 3⟩, ⟨11, some 4⟩, ⟨12, some 1⟩] ∧
    readPtrs exB.1 exB.2.1.hashes = [3, 4, 1] ∧
    (absMsg 0 exB.1 exB.2.1).hashes = (buildWithTxnSet exComb [10, 11, 12] [10, 12] 0).1.hashes ∧
    (absMsg 0 exB.1 exB.2.1).flags = (buildWithTxnSet exComb [10, 11, 12] [10, 12] 0).1.flags ∧
    readU32 exB.1 exB.2.2 = [0, 2] ∧ 1 ≤ exB.2.1.hashes.arr ∧ exB.2.2.cap ≠ 0 := by decide +kernel

/-- the swap-remove variant on the same heap -/
def exBad : Heap Nat × MsgObj × Slice := newWithTxnSetSwapRemove exGB exComb 0 exHeapB exBlock exSet

/-- **negative witness (b)**: the variant of `NewMerkleBlockWithTxnSet` that removes a found hash from `remaining`
by `remaining[i] = remaining[last]` writes the CALLER's array: the set {10, 12} reads {12, 12} afterwards (the
message it returns is the same).  `C11_builder_frame` / `C11_builder_reads_only_its_arguments` fail for it. -/
example :
    exBad.1.ptrs[0]? = some [1, 1, 0] ∧ readHashes 0 exBad.1 exSet = [12, 12] ∧
    readHashes 0 exHeapB exSet = [10, 12] ∧
    (absMsg 0 exBad.1 exBad.2.1).hashes = (absMsg 0 exB.1 exB.2.1).hashes := by decide +kernel

/-- two messages one after the other (second: other set, the slot `[1:2]` of the same caller array = {12}) share no
array, and the first message still denotes the same -/
def exB2 : Heap Nat × MsgObj × Slice := newWithTxnSetH exGB exComb 0 exB.1 exBlock ⟨0, 1, 1, 1⟩

example :
    exB2.2.1.hashes.arr ≠ exB.2.1.hashes.arr ∧ exB2.2.1.flags.arr ≠ exB.2.1.flags.arr ∧ exB2.2.2.arr ≠ exB.2.2.arr ∧
    (absMsg 0 exB2.1 exB.2.1).hashes = (absMsg 0 exB.1 exB.2.1).hashes ∧
    -- the second call found all memos filled: it allocated only the inner node
    readPtrs exB2.1 exB2.2.1.hashes = [5, 1] ∧ exB2.1.hashes.length = exB.1.hashes.length + 1 := by decide +kernel

end Examples

end Bch.Props.C11
