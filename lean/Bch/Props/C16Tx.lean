import Bch.Proofs.TxCache
/-
C16, second half — the STANDALONE transaction wrapper of /repo/tx.go, and the parts of /repo/block.go that
`Bch/Props/C16.lean` does not cover (`Height/SetHeight`, `NewBlockFromBlockAndBytes` with caller-supplied
bytes).

Models: `Bch/Model/TxCache.lean` (`Bch.Model.TxCache`: `NewTx`, `NewTxFromBytes`, `NewTxFromReader`, `MsgTx`,
`Hash` + memo, `Index`, `SetIndex`, `TxIndexUnknown`; `Bch.Model.BlockHeight`: the block cache of
`Bch.Model.BlockCache` × `blockHeight`, with `Height`, `SetHeight`, `BlockHeightUnknown` and the three
constructors).  Helper definitions (all in `Bch/Proofs/TxCache.lean`):
* `TxCache.run W s calls : St × List Res`   — fold of `step` over an accessor script;
* `TxCache.Inv W s`                          — well-formedness of a wrapper state: a memoised hash is the wire
                                               hash, its object is not the message, handles below `next`;
* `TxCache.IsCtor W s`                       — `s` was produced by `NewTx m`, `NewTxFromBytes` or
                                               `NewTxFromReader` (the latter two: decoding succeeded with `W`);
* `TxCache.lastIndex i₀ calls`, `NoSet calls` — the last `SetIndex` argument of a script (or `i₀`);
* `TxCache.value`                            — a result with its handle erased;
* `BlockHeight.run`, `cacheCalls`, `cacheResults`, `lastHeight` — the same for the block wrapper with height.

Everything is for arbitrary wire results `W`, arbitrary decoders, arbitrary scripts and arbitrary `Int`
arguments of `SetIndex` / `SetHeight` (Go: `int` resp. `int32`, both subsets of `Int`).
-/
namespace Bch.Props.C16
open Bch Bch.Model Bch.Proofs

/-! ## standalone transaction wrapper: invariant -/

theorem C16_tx_inv_ctor (W : TxCache.Wire) (s₀ : TxCache.St) (h₀ : TxCache.IsCtor W s₀) : TxCache.Inv W s₀ :=
  h₀.inv

theorem C16_tx_inv_run (W : TxCache.Wire) (s : TxCache.St) (calls : List TxCache.Call) (h : TxCache.Inv W s) :
    TxCache.Inv W (TxCache.run W s calls).1 := TxCache.run_inv calls h

/-! ## `Hash()` -/

/-- **C16_tx_hash_coherent**, for every well-formed start state (in particular every state reachable from a
constructor): there is ONE hash object `h` such that every `Hash()` call anywhere in the script returns the
wire hash of the wrapped message in that object, whatever `SetIndex`, `Index`, `MsgTx` calls lie in
between; the hash object is not the message object, and if the memo was empty at the start it is an object
the wrapper allocated itself. -/
theorem C16_tx_hash_coherent_of_inv (W : TxCache.Wire) (s₀ : TxCache.St) (h₀ : TxCache.Inv W s₀)
    (calls : List TxCache.Call) :
    (TxCache.run W s₀ calls).2.length = calls.length ∧
    ∃ h : Nat, h ≠ s₀.msg ∧ (s₀.txHash = none → s₀.next ≤ h) ∧
      ∀ p : Nat, calls[p]? = some .hash → (TxCache.run W s₀ calls).2[p]? = some (.hash W.hash h) := by
  refine ⟨TxCache.run_length W calls s₀, ?_⟩
  cases hm : (TxCache.run W s₀ calls).1.txHash with
  | none =>
    refine ⟨s₀.next, Nat.ne_of_gt h₀.msg_lt, fun _ => Nat.le_refl _, ?_⟩
    intro p hp
    obtain ⟨r, hr⟩ := TxCache.run_res_exists W calls s₀ p _ hp
    obtain ⟨v, h, _, e⟩ := TxCache.run_at W calls s₀ p .hash r hp hr
    rw [hm] at e; cases e
  | some x =>
    obtain ⟨v, h⟩ := x
    obtain ⟨a, b, c⟩ := TxCache.run_final_memo h₀ calls v h hm
    refine ⟨h, b, c, ?_⟩
    intro p hp
    obtain ⟨r, hr⟩ := TxCache.run_res_exists W calls s₀ p _ hp
    obtain ⟨v', h', e₁, e₂⟩ := TxCache.run_at W calls s₀ p .hash r hp hr
    rw [hm] at e₂
    cases e₂
    rw [hr, e₁, a]

/-- **C16_tx_hash_coherent** (headline, full, histories): for all three constructors and every
interleaving of `Hash / Index / SetIndex i / MsgTx`. -/
theorem C16_tx_hash_coherent (W : TxCache.Wire) (s₀ : TxCache.St) (h₀ : TxCache.IsCtor W s₀)
    (calls : List TxCache.Call) :
    (TxCache.run W s₀ calls).2.length = calls.length ∧
    ∃ h : Nat, h ≠ s₀.msg ∧ s₀.next ≤ h ∧
      ∀ p : Nat, calls[p]? = some .hash → (TxCache.run W s₀ calls).2[p]? = some (.hash W.hash h) := by
  obtain ⟨a, h, b, c, d⟩ := C16_tx_hash_coherent_of_inv W s₀ h₀.inv calls
  exact ⟨a, h, b, c h₀.fields.1, d⟩

/-- the memo on its own, for an ARBITRARY start state (no invariant): any two `Hash()` calls of a script
return the identical result, value and object -/
theorem C16_tx_hash_same (W : TxCache.Wire) (s₀ : TxCache.St) (calls : List TxCache.Call) (p q : Nat)
    (hp : calls[p]? = some .hash) (hq : calls[q]? = some .hash) :
    (TxCache.run W s₀ calls).2[p]? = (TxCache.run W s₀ calls).2[q]? := by
  obtain ⟨r, hr⟩ := TxCache.run_res_exists W calls s₀ p _ hp
  obtain ⟨r', hr'⟩ := TxCache.run_res_exists W calls s₀ q _ hq
  obtain ⟨v, h, e₁, e₂⟩ := TxCache.run_at W calls s₀ p .hash r hp hr
  obtain ⟨v', h', e₁', e₂'⟩ := TxCache.run_at W calls s₀ q .hash r' hq hr'
  rw [e₂] at e₂'
  cases e₂'
  rw [hr, hr', e₁, e₁']

/-- the first `Hash()` on a fresh wrapper computes the wire hash into a new object and stores it -/
theorem C16_tx_hash_first (W : TxCache.Wire) (s₀ : TxCache.St) (h₀ : TxCache.IsCtor W s₀) :
    TxCache.step W s₀ .hash =
      ({ s₀ with txHash := some (W.hash, s₀.next), next := s₀.next + 1 }, .hash W.hash s₀.next) := by
  simp [TxCache.step, h₀.fields.1]

/-! ## `Index()` / `SetIndex()` -/

/-- **C16_tx_index**: on a wrapper from any constructor, `Index()` returns `TxIndexUnknown = -1` as long as
no `SetIndex` was called, and otherwise the argument of the last `SetIndex` before it — whatever other
calls lie in between. -/
theorem C16_tx_index (W : TxCache.Wire) (s₀ : TxCache.St) (h₀ : TxCache.IsCtor W s₀) :
    (∀ pre post : List TxCache.Call, TxCache.NoSet pre →
      (TxCache.run W s₀ (pre ++ .index :: post)).2[pre.length]? = some (.index (-1))) ∧
    (∀ (pre mid post : List TxCache.Call) (i : Int), TxCache.NoSet mid →
      (TxCache.run W s₀ (pre ++ .setIndex i :: (mid ++ .index :: post))).2[pre.length + 1 + mid.length]? =
        some (.index i)) := by
  constructor
  · intro pre post hn
    rw [TxCache.run_index_split, TxCache.lastIndex_noSet _ _ hn, h₀.fields.2.1]
    rfl
  · intro pre mid post i hn
    have e : pre ++ TxCache.Call.setIndex i :: (mid ++ .index :: post)
        = (pre ++ .setIndex i :: mid) ++ .index :: post := by simp
    have l : pre.length + 1 + mid.length = (pre ++ TxCache.Call.setIndex i :: mid).length := by simp; omega
    rw [e, l, TxCache.run_index_split, TxCache.lastIndex_last _ _ _ _ hn]

/-- the same for an arbitrary start state (e.g. a wrapper handed out by `Block.Tx(i)`, whose index is `i`):
without a `SetIndex` the initial index is returned -/
theorem C16_tx_index_of_any (W : TxCache.Wire) (s₀ : TxCache.St) :
    (∀ pre post : List TxCache.Call, TxCache.NoSet pre →
      (TxCache.run W s₀ (pre ++ .index :: post)).2[pre.length]? = some (.index s₀.index)) ∧
    (∀ (pre mid post : List TxCache.Call) (i : Int), TxCache.NoSet mid →
      (TxCache.run W s₀ (pre ++ .setIndex i :: (mid ++ .index :: post))).2[pre.length + 1 + mid.length]? =
        some (.index i)) := by
  constructor
  · intro pre post hn
    rw [TxCache.run_index_split, TxCache.lastIndex_noSet _ _ hn]
  · intro pre mid post i hn
    have e : pre ++ TxCache.Call.setIndex i :: (mid ++ .index :: post)
        = (pre ++ .setIndex i :: mid) ++ .index :: post := by simp
    have l : pre.length + 1 + mid.length = (pre ++ TxCache.Call.setIndex i :: mid).length := by simp; omega
    rw [e, l, TxCache.run_index_split, TxCache.lastIndex_last _ _ _ _ hn]

/-- positional form: the `Index()` call at position `p` returns the fold of the `SetIndex` history of the
first `p` calls, and the index field of the final state is that of the whole script -/
theorem C16_tx_index_fold (W : TxCache.Wire) (s₀ : TxCache.St) (calls : List TxCache.Call) :
    (TxCache.run W s₀ calls).1.index = TxCache.lastIndex s₀.index calls ∧
    ∀ p : Nat, calls[p]? = some .index →
      (TxCache.run W s₀ calls).2[p]? = some (.index (TxCache.lastIndex s₀.index (calls.take p))) := by
  refine ⟨TxCache.run_index W calls s₀, ?_⟩
  intro p hp
  obtain ⟨r, hr⟩ := TxCache.run_res_exists W calls s₀ p _ hp
  rw [hr, TxCache.run_at W calls s₀ p .index r hp hr]

/-- `SetIndex` changes nothing else: message handle, hash memo and the fresh-handle counter are untouched
(so it cannot invalidate or duplicate the memoised hash), and it returns nothing -/
theorem C16_tx_setIndex_only_index (W : TxCache.Wire) (s : TxCache.St) (i : Int) :
    TxCache.step W s (.setIndex i) = ({ s with index := i }, .unit) ∧
    (TxCache.step W s (.setIndex i)).1.msg = s.msg ∧
    (TxCache.step W s (.setIndex i)).1.txHash = s.txHash ∧
    (TxCache.step W s (.setIndex i)).1.next = s.next ∧
    (TxCache.step W s (.setIndex i)).1.index = i := ⟨rfl, rfl, rfl, rfl, rfl⟩

/-- conversely no other call changes the index -/
theorem C16_tx_index_only_setIndex (W : TxCache.Wire) (s : TxCache.St) (c : TxCache.Call)
    (hc : ∀ i, c ≠ .setIndex i) : (TxCache.step W s c).1.index = s.index := by
  rw [TxCache.step_index]
  cases c <;> first | rfl | exact absurd rfl (hc _)

/-! ## `MsgTx()` -/

/-- **C16_tx_msg_identity**: `MsgTx()` anywhere in any script returns the very object the wrapper was built
from: the caller's `m` for `NewTx m`; for `NewTxFromBytes` / `NewTxFromReader` the message object the
constructor decoded (handle 0, the first object of the wrapper).  It is never a copy: the handle lies
below everything the wrapper allocates later (`< s₀.next`), in particular it is not the hash object. -/
theorem C16_tx_msg_identity (W : TxCache.Wire) (calls : List TxCache.Call) (p : Nat)
    (hp : calls[p]? = some .msgTx) :
    (∀ m : Nat, (TxCache.run W (TxCache.newTx m) calls).2[p]? = some (.msg m)) ∧
    (∀ deser input s₀, TxCache.newTxFromBytes deser input = some (W, s₀) →
      s₀.msg = 0 ∧ (TxCache.run W s₀ calls).2[p]? = some (.msg 0)) ∧
    (∀ deser input s₀ rest, TxCache.newTxFromReader deser input = some (W, s₀, rest) →
      s₀.msg = 0 ∧ (TxCache.run W s₀ calls).2[p]? = some (.msg 0)) := by
  have key : ∀ s₀ : TxCache.St, (TxCache.run W s₀ calls).2[p]? = some (.msg s₀.msg) := by
    intro s₀
    obtain ⟨r, hr⟩ := TxCache.run_res_exists W calls s₀ p _ hp
    rw [hr, TxCache.run_at W calls s₀ p .msgTx r hp hr]
  refine ⟨fun m => key _, ?_, ?_⟩
  · intro deser input s₀ h
    obtain ⟨n, _, rfl⟩ := TxCache.newTxFromBytes_some h
    exact ⟨rfl, key _⟩
  · intro deser input s₀ rest h
    obtain ⟨n, _, rfl, _⟩ := TxCache.newTxFromReader_some h
    exact ⟨rfl, key _⟩

/-- for an arbitrary start state: `MsgTx()` returns the stored message handle and never changes it -/
theorem C16_tx_msg_identity_of_any (W : TxCache.Wire) (s₀ : TxCache.St) (calls : List TxCache.Call) :
    (TxCache.run W s₀ calls).1.msg = s₀.msg ∧
    ∀ p : Nat, calls[p]? = some .msgTx → (TxCache.run W s₀ calls).2[p]? = some (.msg s₀.msg) := by
  refine ⟨TxCache.run_msg W calls s₀, ?_⟩
  intro p hp
  obtain ⟨r, hr⟩ := TxCache.run_res_exists W calls s₀ p _ hp
  rw [hr, TxCache.run_at W calls s₀ p .msgTx r hp hr]

/-- the message and the memoised hash are different objects -/
theorem C16_tx_kinds_disjoint (W : TxCache.Wire) (s₀ : TxCache.St) (h₀ : TxCache.IsCtor W s₀)
    (calls : List TxCache.Call) (p q : Nat) (v : Bytes) (h₁ h₂ : Nat)
    (c₁ : calls[p]? = some .hash) (r₁ : (TxCache.run W s₀ calls).2[p]? = some (.hash v h₁))
    (c₂ : calls[q]? = some .msgTx) (r₂ : (TxCache.run W s₀ calls).2[q]? = some (.msg h₂)) : h₁ ≠ h₂ := by
  obtain ⟨_, h, a, _, b⟩ := C16_tx_hash_coherent W s₀ h₀ calls
  have e₁ := b p c₁
  rw [r₁] at e₁
  have e₂ := (C16_tx_msg_identity_of_any W s₀ calls).2 q c₂
  rw [r₂] at e₂
  cases e₁; cases e₂
  exact a

/-! ## constructors -/

/-- the constructors from bytes / from a reader: an error of the wire decoder is an error of the constructor
(no wrapper); on success the wrapper holds the decoded message, an empty memo and `TxIndexUnknown`, keeps
no bytes, and the reader is left exactly behind the `n` consumed bytes.  In particular the wrapper does
not depend on what follows the transaction in the input. -/
theorem C16_tx_from_bytes (deser : TxCache.Decoder) (input : Bytes) :
    (deser input = none → TxCache.newTxFromBytes deser input = none ∧
        TxCache.newTxFromReader deser input = none) ∧
    (∀ W n, deser input = some (W, n) →
      TxCache.newTxFromBytes deser input = some (W, { msg := 0, txHash := none, index := -1, next := 1 }) ∧
      TxCache.newTxFromReader deser input =
        some (W, { msg := 0, txHash := none, index := -1, next := 1 }, input.drop n)) :=
  ⟨TxCache.newTxFromBytes_none, fun _ _ h => TxCache.newTxFromBytes_ok h⟩

/-- `NewTx m`: index `TxIndexUnknown`, no memo, wraps `m` -/
theorem C16_tx_newTx (m : Nat) :
    (TxCache.newTx m).msg = m ∧ (TxCache.newTx m).txHash = none ∧
    (TxCache.newTx m).index = TxCache.txIndexUnknown ∧ TxCache.txIndexUnknown = -1 := ⟨rfl, rfl, rfl, rfl⟩

/-- **constructor independence**: two wrappers of the same message, however constructed, give the same
values (hashes, indices) in every script; only the object identities differ (and those are pinned down by
`C16_tx_hash_coherent` and `C16_tx_msg_identity`) -/
theorem C16_tx_ctor_independent (W : TxCache.Wire) (s₁ s₂ : TxCache.St)
    (h₁ : TxCache.IsCtor W s₁) (h₂ : TxCache.IsCtor W s₂) (calls : List TxCache.Call) :
    (TxCache.run W s₁ calls).2.map TxCache.value = (TxCache.run W s₂ calls).2.map TxCache.value := by
  apply TxCache.sim_run
  obtain ⟨a, b, _⟩ := h₁.fields
  obtain ⟨a', b', _⟩ := h₂.fields
  exact ⟨by rw [b, b'], by rw [a, a']⟩

/-! ## `Block.Height()` / `Block.SetHeight()` -/

/-- all block constructors start at `BlockHeightUnknown = int32(-1)` -/
theorem C16_block_height_ctor (bytes : Bytes) :
    BlockHeight.newBlock.height = -1 ∧ (BlockHeight.newBlockFromBytes bytes).height = -1 ∧
    (BlockHeight.newBlockFromBlockAndBytes bytes).height = -1 ∧ BlockHeight.blockHeightUnknown = -1 :=
  ⟨rfl, rfl, rfl, rfl⟩

/-- **C16_block_height** (product-state theorem): the block wrapper is the product of the memoising cache
of `Bch.Model.BlockCache` and the height field, and the two never interact.  For every mixed script of
cache accessors (`Tx i / Transactions / TxHash i / Hash / Bytes / TxLoc`) and `Height / SetHeight h` calls,
from every start state:
* the cache component and the cache results are exactly those of the pure cache script
  (`BlockCache.run` on the cache calls in order) — so every theorem of `Bch/Props/C16.lean` holds verbatim
  with `Height / SetHeight` calls interleaved anywhere;
* the height component is the fold of the `SetHeight` history, and each `Height()` returns the fold of the
  history before it, independently of all cache calls. -/
theorem C16_block_height (W : BlockCache.Wire) (s : BlockHeight.St) (calls : List BlockHeight.Call) :
    (BlockHeight.run W s calls).2.length = calls.length ∧
    (BlockHeight.run W s calls).1.cache = (BlockCache.run W s.cache (BlockHeight.cacheCalls calls)).1 ∧
    BlockHeight.cacheResults (BlockHeight.run W s calls).2 =
      (BlockCache.run W s.cache (BlockHeight.cacheCalls calls)).2 ∧
    (BlockHeight.run W s calls).1.height = BlockHeight.lastHeight s.height calls ∧
    ∀ p : Nat, calls[p]? = some .height →
      (BlockHeight.run W s calls).2[p]? =
        some (.height (BlockHeight.lastHeight s.height (calls.take p))) := by
  obtain ⟨a, b, c⟩ := BlockHeight.run_proj W calls s
  refine ⟨BlockHeight.run_length W calls s, a, b, c, ?_⟩
  intro p hp
  have hlt : p < calls.length := (List.getElem?_eq_some_iff.mp hp).1
  have hr : (BlockHeight.run W s calls).2[p]? = some ((BlockHeight.run W s calls).2[p]'(by
      rw [BlockHeight.run_length]; exact hlt)) := List.getElem?_eq_getElem _
  rw [hr, BlockHeight.run_height_at W calls s p _ hp hr]

/-- the single-step form: every cache call commutes with `SetHeight` (same final state, same results) and
is invisible to `Height`; a cache call leaves the height alone and height calls leave the cache alone -/
theorem C16_block_height_commute (W : BlockCache.Wire) (s : BlockHeight.St) (c : BlockCache.Call) (h : Int) :
    BlockHeight.run W s [.cache c, .setHeight h] =
      ((BlockHeight.run W s [.setHeight h, .cache c]).1, [.cache (BlockCache.step W s.cache c).2, .unit]) ∧
    (BlockHeight.run W s [.setHeight h, .cache c]).2 = [.unit, .cache (BlockCache.step W s.cache c).2] ∧
    (BlockHeight.run W s [.cache c, .height]).2 = [.cache (BlockCache.step W s.cache c).2, .height s.height] ∧
    (BlockHeight.step W s (.cache c)).1.height = s.height ∧
    (BlockHeight.step W s (.cache c)).1.cache = (BlockCache.step W s.cache c).1 ∧
    (BlockHeight.step W s (.setHeight h)).1.cache = s.cache ∧
    (BlockHeight.step W s .height).1 = s := ⟨rfl, rfl, rfl, rfl, rfl, rfl, rfl⟩

/-- `Height()` returns `BlockHeightUnknown = -1` on a block from any constructor until `SetHeight` is
called, and then the argument of the last `SetHeight`, whatever cache calls lie in between -/
theorem C16_block_height_last (W : BlockCache.Wire) (s₀ : BlockHeight.St) (h₀ : s₀.height = -1) :
    (∀ pre post : List BlockHeight.Call, BlockHeight.NoSet pre →
      (BlockHeight.run W s₀ (pre ++ .height :: post)).2[pre.length]? = some (.height (-1))) ∧
    (∀ (pre mid post : List BlockHeight.Call) (h : Int), BlockHeight.NoSet mid →
      (BlockHeight.run W s₀ (pre ++ .setHeight h :: (mid ++ .height :: post))).2[pre.length + 1 + mid.length]? =
        some (.height h)) := by
  constructor
  · intro pre post hn
    rw [(C16_block_height W s₀ _).2.2.2.2 pre.length (by simp)]
    simp only [List.take_left', BlockHeight.lastHeight_noSet _ _ hn, h₀]
  · intro pre mid post h hn
    have e : pre ++ BlockHeight.Call.setHeight h :: (mid ++ .height :: post)
        = (pre ++ .setHeight h :: mid) ++ .height :: post := by simp
    have l : pre.length + 1 + mid.length = (pre ++ BlockHeight.Call.setHeight h :: mid).length := by
      simp; omega
    rw [e, l, (C16_block_height W s₀ _).2.2.2.2 _ (by simp)]
    simp only [List.take_left', BlockHeight.lastHeight_last _ _ _ _ hn]

/-! ## `NewBlockFromBlockAndBytes(msg, bytes)` -/

/-- **C16_blockAndBytes**: the block built from a message and caller-supplied bytes is a well-formed cache
state of that message (so that all of `Bch/Props/C16.lean` applies to it) **iff** the bytes are the wire
serialisation of the message, or empty (`len(b.serializedBlock) != 0` fails, `Bytes()` recomputes). -/
theorem C16_blockAndBytes (W : BlockCache.Wire) (bytes : Bytes) :
    BlockCache.Inv W (BlockHeight.newBlockFromBlockAndBytes bytes).cache ↔ (bytes = W.ser ∨ bytes = []) :=
  BlockHeight.inv_initBytes_iff W bytes

/-- with good (or empty) bytes the block is observationally the same as `NewBlock(msg)`: every script
gives the same results up to renaming of object identities, hence the fresh computations of
`C16_cache_coherent` -/
theorem C16_blockAndBytes_equiv (W : BlockCache.Wire) (hser : W.ser ≠ []) (bytes : Bytes)
    (hb : bytes = W.ser ∨ bytes = []) (calls : List BlockCache.Call) :
    BlockCache.canon (BlockCache.run W (BlockHeight.newBlockFromBlockAndBytes bytes).cache calls).2 =
      BlockCache.canon (BlockCache.run W BlockHeight.newBlock.cache calls).2 :=
  BlockCache.run_canon_eq hser ((C16_blockAndBytes W bytes).mpr hb) (BlockCache.inv_initMsg W) calls

/-- with empty bytes the first `Bytes()` recomputes the wire serialisation into a new object and caches it -/
theorem C16_blockAndBytes_empty (W : BlockCache.Wire) :
    BlockCache.step W (BlockHeight.newBlockFromBlockAndBytes []).cache .bytes =
      ({ (BlockHeight.newBlockFromBlockAndBytes []).cache with serialized := some (W.ser, 1), next := 2 },
       .bytes W.ser 1) := rfl

/-- the documented behaviour for any other bytes — *the caller vouches for them*: in every script every
`Bytes()` call returns the caller's bytes unchanged, in the caller's object (handle 0), for ANY wire
message `W`; they are never checked against nor replaced by the wire serialisation -/
theorem C16_blockAndBytes_vouched (W : BlockCache.Wire) (bytes : Bytes) (hb : bytes ≠ [])
    (calls : List BlockCache.Call) :
    (BlockCache.run W (BlockHeight.newBlockFromBlockAndBytes bytes).cache calls).1.serialized = some (bytes, 0) ∧
    ∀ p : Nat, calls[p]? = some .bytes →
      (BlockCache.run W (BlockHeight.newBlockFromBlockAndBytes bytes).cache calls).2[p]? =
        some (.bytes bytes 0) := by
  refine ⟨BlockHeight.run_keeps_bytes W calls _ bytes 0 rfl hb, ?_⟩
  intro p hp
  have hlt : p < calls.length := (List.getElem?_eq_some_iff.mp hp).1
  have hr : (BlockCache.run W (BlockHeight.newBlockFromBlockAndBytes bytes).cache calls).2[p]? =
      some ((BlockCache.run W (BlockHeight.newBlockFromBlockAndBytes bytes).cache calls).2[p]'(by
        rw [BlockCache.run_length]; exact hlt)) := List.getElem?_eq_getElem _
  rw [hr, BlockHeight.run_bytes_at W calls _ bytes 0 rfl hb p _ hp hr]

/-- concrete negative witness: for the example block of `Bch/Props/C16.lean` and the foreign bytes `DE AD`
the invariant fails, `Bytes()` returns `DE AD` (not the wire serialisation), and so coherence with the wire
message is violated — exactly the case the documentation leaves to the caller -/
theorem C16_blockAndBytes_witness :
    ¬ BlockCache.Inv BlockCache.exW (BlockHeight.newBlockFromBlockAndBytes [0xDE, 0xAD]).cache ∧
    (BlockCache.step BlockCache.exW (BlockHeight.newBlockFromBlockAndBytes [0xDE, 0xAD]).cache .bytes).2 =
      .bytes [0xDE, 0xAD] 0 ∧
    [0xDE, 0xAD] ≠ BlockCache.exW.ser := by
  refine ⟨?_, rfl, by decide⟩
  rw [C16_blockAndBytes]
  decide

/-! ## non-vacuity -/

/-- all three constructors are instances of `IsCtor` -/
example : TxCache.IsCtor TxCache.exW (TxCache.newTx 5) := Or.inl ⟨5, rfl⟩
example : TxCache.IsCtor TxCache.exW { msg := 0, next := 1 } :=
  Or.inr (Or.inl ⟨TxCache.exDeser, [1, 2, 3, 0xFF], rfl⟩)
example : TxCache.IsCtor TxCache.exW { msg := 0, next := 1 } :=
  Or.inr (Or.inr ⟨TxCache.exDeser, [1, 2, 3, 0xFF], [0xFF], rfl⟩)

/-- the toy decoder: success with trailing bytes (left in the reader, ignored by the wrapper), error -/
example : TxCache.newTxFromReader TxCache.exDeser [1, 2, 3, 0xFF, 0xEE] =
    some (TxCache.exW, { msg := 0, next := 1 }, [0xFF, 0xEE]) := rfl
example : TxCache.newTxFromBytes TxCache.exDeser [1, 2, 3, 0xFF, 0xEE] =
    TxCache.newTxFromBytes TxCache.exDeser [1, 2, 3] := rfl
example : TxCache.newTxFromBytes TxCache.exDeser [9, 9] = none := rfl

/-- a run from `NewTx 5`, literally: index −1, message 5, hash computed into the fresh object 6 and
memoised across `SetIndex`; index follows the last `SetIndex` -/
example : (TxCache.run TxCache.exW (TxCache.newTx 5) TxCache.exScript).2 =
    [.index (-1), .msg 5, .hash [0xA1, 0xA2] 6, .unit, .hash [0xA1, 0xA2] 6, .index 7, .unit, .msg 5,
     .hash [0xA1, 0xA2] 6, .index (-3)] := rfl

/-- the same script on a wrapper from bytes: message 0, hash object 1, same values -/
example : (TxCache.run TxCache.exW { msg := 0, next := 1 } TxCache.exScript).2 =
    [.index (-1), .msg 0, .hash [0xA1, 0xA2] 1, .unit, .hash [0xA1, 0xA2] 1, .index 7, .unit, .msg 0,
     .hash [0xA1, 0xA2] 1, .index (-3)] := rfl

/-- the hypotheses `NoSet` of `C16_tx_index` / `C16_block_height_last` are satisfiable by non-trivial lists -/
example : TxCache.NoSet [.hash, .msgTx, .index] := by
  intro c hc j; simp at hc; rcases hc with rfl | rfl | rfl <;> simp
example : BlockHeight.NoSet [.cache (.tx 1), .height, .cache .bytes] := by
  intro c hc j; simp at hc; rcases hc with rfl | rfl | rfl <;> simp

/-- the invariant is not trivially true: a stale memo (wrong value) or a memo aliasing the message object
is rejected -/
example : ¬ TxCache.Inv TxCache.exW { msg := 0, txHash := some ([0xFF], 1), next := 2 } := by
  intro h; have := (h.memo _ _ rfl).1; revert this; decide
example : ¬ TxCache.Inv TxCache.exW { msg := 0, txHash := some ([0xA1, 0xA2], 0), next := 2 } := by
  intro h; exact (h.memo _ _ rfl).2.2 rfl

/-- a mixed block script: the heights are −1, 100000, −5 regardless of the cache calls, and the cache
results are those of the pure cache script -/
example : (BlockHeight.run BlockCache.exW BlockHeight.newBlock BlockHeight.exScript).2 =
    [.height (-1), .cache (.tx [0xA1] 1 0), .unit, .cache (.hash [0xB0] 1), .height 100000,
     .cache (.bytes BlockCache.exW.ser 2), .unit, .cache (.tx [0xA1] 1 0), .height (-5)] := rfl
example : BlockHeight.cacheCalls BlockHeight.exScript = [.tx 1, .hash, .bytes, .tx 1] := rfl

/-- `C16_blockAndBytes`: both good cases occur, and the hypothesis of `C16_blockAndBytes_equiv` holds -/
example : BlockCache.Inv BlockCache.exW (BlockHeight.newBlockFromBlockAndBytes BlockCache.exW.ser).cache :=
  (C16_blockAndBytes _ _).mpr (Or.inl rfl)
example : BlockCache.Inv BlockCache.exW (BlockHeight.newBlockFromBlockAndBytes []).cache :=
  (C16_blockAndBytes _ _).mpr (Or.inr rfl)
example : (BlockCache.run BlockCache.exW (BlockHeight.newBlockFromBlockAndBytes []).cache [.bytes, .bytes]).2 =
    [.bytes BlockCache.exW.ser 1, .bytes BlockCache.exW.ser 1] := rfl
/-- foreign bytes survive any script (instance of `C16_blockAndBytes_vouched`) -/
example : (BlockCache.run BlockCache.exW (BlockHeight.newBlockFromBlockAndBytes [0xDE, 0xAD]).cache
    [.txLoc, .transactions, .bytes, .hash, .bytes]).2.getLast? = some (.bytes [0xDE, 0xAD] 0) := rfl

end Bch.Props.C16
