namespace Bch.Props.C09
theorem placeholder : True := trivial
end Bch.Props.C09
