import Bch.Proofs.Bloom
/-
Property C09 — BIP37 bloom filters: no false negatives, bit-exact BIP37, sizing within the wire
limits, unloaded filter matches nothing.  All theorems are about the executable model
`Bch.Model.Bloom` (which is tied to the Go code by differential testing).
-/
namespace Bch.Props.C09
open Bch Bch.Model.Bloom Bch.Proofs.Bloom

/-! ## Spec side: MurmurHash3_x86_32 as in the reference implementation, and the BIP37 bit index -/

namespace Spec

def c1 : UInt32 := 0xcc9e2d51
def c2 : UInt32 := 0x1b873593

/-- `ROTL32(x, r) = (x << r) | (x >> (32 - r))` -/
def rotl (x : UInt32) (r : UInt32) : UInt32 := (x <<< r) ||| (x >>> (32 - r))

/-- `getblock32(blocks, i)`: the `i`-th 32-bit little-endian word of the data -/
def getblock (data : Bytes) (i : Nat) : UInt32 :=
  UInt32.ofNat ((data.getD (4 * i) 0).toNat + 2 ^ 8 * (data.getD (4 * i + 1) 0).toNat
    + 2 ^ 16 * (data.getD (4 * i + 2) 0).toNat + 2 ^ 24 * (data.getD (4 * i + 3) 0).toNat)

/-- one round of the body loop -/
def round (h1 k1 : UInt32) : UInt32 :=
  let k1 := k1 * c1
  let k1 := rotl k1 15
  let k1 := k1 * c2
  let h1 := h1 ^^^ k1
  let h1 := rotl h1 13
  h1 * 5 + 0xe6546b64

/-- body: `for i in 0 .. nblocks-1` with `nblocks = len / 4` -/
def body (seed : UInt32) (data : Bytes) : UInt32 :=
  (List.range (data.length / 4)).foldl (fun h1 i => round h1 (getblock data i)) seed

/-- tail: the `switch (len & 3)` with fall-through of the reference implementation -/
def tail (h1 : UInt32) (data : Bytes) : UInt32 :=
  let t := data.drop (4 * (data.length / 4))
  let k1 : UInt32 := 0
  let k1 := if data.length % 4 ≥ 3 then k1 ^^^ ((t.getD 2 0).toUInt32 <<< 16) else k1
  let k1 := if data.length % 4 ≥ 2 then k1 ^^^ ((t.getD 1 0).toUInt32 <<< 8) else k1
  if data.length % 4 ≥ 1 then
    let k1 := k1 ^^^ (t.getD 0 0).toUInt32
    let k1 := k1 * c1
    let k1 := rotl k1 15
    let k1 := k1 * c2
    h1 ^^^ k1
  else h1

/-- `fmix32` -/
def fmix32 (h : UInt32) : UInt32 :=
  let h := h ^^^ (h >>> 16)
  let h := h * 0x85ebca6b
  let h := h ^^^ (h >>> 13)
  let h := h * 0xc2b2ae35
  h ^^^ (h >>> 16)

def murmur3 (seed : UInt32) (data : Bytes) : UInt32 :=
  fmix32 (tail (body seed data) data ^^^ UInt32.ofNat data.length)

end Spec

/-- BIP37: bit number of hash function `i` for `item` in a filter of `nbytes` bytes:
`MurmurHash3(i * 0xFBA4C795 + nTweak, item) % (nbytes * 8)`, the seed taken modulo 2^32. -/
def BIP37idx (tweak : UInt32) (i : Nat) (item : Bytes) (nbytes : Nat) : Nat :=
  (Spec.murmur3 (UInt32.ofNat ((i * 0xFBA4C795 + tweak.toNat) % 2 ^ 32)) item).toNat % (8 * nbytes)

/-! ## MurmurHash3: model = reference -/

/-- the block loop + tail of the model equal the reference formulation (index-based block loop,
then the fall-through `switch` over the 1–3 tail bytes), for every seed and every input -/
theorem C09_murmur_tail (h : UInt32) (data : Bytes) :
    murmurBody h data = Spec.tail (Spec.body h data) data := by
  symm
  refine murmurBody_unique (fun h data => Spec.tail (Spec.body h data) data) ?_ ?_ ?_ ?_ ?_ h data
  · intro h a b c d rest
    have hlen : (a :: b :: c :: d :: rest).length / 4 = rest.length / 4 + 1 := by
      simp only [List.length_cons]; omega
    have hmod : (a :: b :: c :: d :: rest).length % 4 = rest.length % 4 := by
      simp only [List.length_cons]; omega
    have hbody : Spec.body h (a :: b :: c :: d :: rest)
        = Spec.body (rotl32 (h ^^^ mixK (le32 a b c d)) 13 * 5 + 0xe6546b64) rest := by
      have e0 : Spec.round h (Spec.getblock (a :: b :: c :: d :: rest) 0)
          = rotl32 (h ^^^ mixK (le32 a b c d)) 13 * 5 + 0xe6546b64 := by
        rw [le32_eq_ofNat]
        simp only [Spec.round, Spec.getblock, Spec.rotl, Spec.c1, Spec.c2, mixK, rotl32,
          Nat.mul_zero, Nat.zero_add, List.getD_cons_zero, List.getD_cons_succ]
      have ef : (fun h1 i => Spec.round h1 (Spec.getblock (a :: b :: c :: d :: rest) (i + 1)))
          = fun h1 i => Spec.round h1 (Spec.getblock rest i) := by
        funext h1 i
        have e : 4 * (i + 1) = 4 * i + 1 + 1 + 1 + 1 := by omega
        simp only [Spec.getblock, e, List.getD_cons_succ]
      unfold Spec.body
      rw [hlen, List.range_succ_eq_map, List.foldl_cons, List.foldl_map, e0]
      simp only [Nat.succ_eq_add_one, ef]
    have htail : ∀ h', Spec.tail h' (a :: b :: c :: d :: rest) = Spec.tail h' rest := by
      intro h'
      have e : 4 * (rest.length / 4 + 1) = 4 * (rest.length / 4) + 1 + 1 + 1 + 1 := by omega
      simp only [Spec.tail, hlen, hmod, e, List.drop_succ_cons]
    simp only [hbody, htail]
  · intro h a b c; simp [Spec.tail, Spec.body, Spec.rotl, Spec.c1, Spec.c2, mixK, rotl32]
  · intro h a b; simp [Spec.tail, Spec.body, Spec.rotl, Spec.c1, Spec.c2, mixK, rotl32]
  · intro h a; simp [Spec.tail, Spec.body, Spec.rotl, Spec.c1, Spec.c2, mixK, rotl32]
  · intro h; simp [Spec.tail, Spec.body]

/-- the model's `MurmurHash3` is the reference MurmurHash3_x86_32 -/
theorem C09_murmur_eq_spec (seed : UInt32) (data : Bytes) :
    MurmurHash3 seed data = Spec.murmur3 seed data := by
  unfold MurmurHash3 Spec.murmur3
  rw [C09_murmur_tail]; rfl

/-! ## bit lemmas (`idx >>> 3`, `1 <<< (idx &&& 7)` on `UInt8`) -/

/-- bit `k` of the array is bit `k % 8` (LSB first) of byte `k / 8`; indices outside the array read 0 -/
theorem C09_testBit_spec (bits : Bytes) (k : Nat) :
    testBit bits k = (bits.getD (k / 8) 0).toNat.testBit (k % 8) := testBit_eq bits k

theorem C09_setBit_length (bits : Bytes) (i : Nat) : (setBit bits i).length = bits.length :=
  setBit_length bits i

theorem C09_testBit_setBit_self (bits : Bytes) (i : Nat) (hi : i / 8 < bits.length) :
    testBit (setBit bits i) i = true := testBit_setBit_self bits i hi

theorem C09_testBit_setBit_mono (bits : Bytes) (i j : Nat) (h : testBit bits j = true) :
    testBit (setBit bits i) j = true := testBit_setBit_mono bits i j h

/-- exact characterisation for an in-range index -/
theorem C09_testBit_setBit (bits : Bytes) (i j : Nat) (hi : i / 8 < bits.length) :
    testBit (setBit bits i) j = (testBit bits j || decide (i = j)) := testBit_setBit bits i j hi

/-- … and for every index (an out-of-range `setBit` is a no-op) -/
theorem C09_testBit_setBit_gen (bits : Bytes) (i j : Nat) :
    testBit (setBit bits i) j
      = (testBit bits j || (decide (i = j) && decide (i / 8 < bits.length))) :=
  testBit_setBit_gen bits i j

example : (11 : Nat) / 8 < ([0x00, 0x00] : Bytes).length := by decide
example : setBit [0x00, 0x00] 11 = [0x00, 0x08] := by decide
example : testBit [0x00, 0x08] 11 = true ∧ testBit [0x00, 0x08] 3 = false := by decide

/-! ## bit index -/

/-- `uint32(len) << 3` does not wrap within the wire limit, so the index is in range -/
theorem hashIdx_lt (m : Msg) (i : Nat) (d : Bytes) (h0 : m.bits ≠ [])
    (h : m.bits.length ≤ 36000) : hashIdx m i d < 8 * m.bits.length :=
  Bch.Proofs.Bloom.hashIdx_lt m i d h0 h

/-- the model's index is the BIP37 index (reference MurmurHash3, seed mod 2^32, modulo the
number of bits) as long as the byte length is within the wire limit -/
theorem C09_hashIdx_eq_BIP37 (m : Msg) (i : Nat) (d : Bytes) (h : m.bits.length ≤ 36000) :
    hashIdx m i d = BIP37idx m.tweak i d m.bits.length := by
  rw [hashIdx_eq_idxOf, idxOf_eq _ _ _ _ (by omega), seed_eq, C09_murmur_eq_spec]
  rfl

example : ([0x00, 0x00] : Bytes) ≠ [] ∧ ([0x00, 0x00] : Bytes).length ≤ 36000 := by decide

/-! ## one insertion -/

/-- an inserted item is matched — any loaded filter whose bit array has 0..36000 bytes, any
`nHash`, `tweak`, `flags` (the empty bit array matches everything) -/
theorem bloom_add_matches (m : Msg) (x : Bytes) (h : m.bits.length ≤ 36000) :
    Matches (add (some m) x) x = true :=
  add_matches (some m) x rfl (Lim_some.mpr h)

/-- insertions never destroy a positive answer (no bound needed) -/
theorem bloom_add_mono (f : Filter) (x y : Bytes) (h : Matches f y = true) :
    Matches (add f x) y = true := add_mono f x y h

/-- the empty bit array: matches everything, ignores insertions (behaviour after fix e6b8a4b) -/
theorem C09_empty_bits (n : Nat) (t : UInt32) (fl : Nat) (x : Bytes) :
    Matches (some ⟨[], n, t, fl⟩) x = true ∧ add (some ⟨[], n, t, fl⟩) x = some ⟨[], n, t, fl⟩ := by
  constructor <;> rfl

/-! ## unloaded filter -/

theorem C09_unloaded (x : Bytes) : Matches none x = false ∧ add none x = none := ⟨rfl, rfl⟩

/-- lifted to `step`: every operation except `reload` leaves an unloaded filter unloaded,
insertions answer nothing, all queries (and `isLoaded`) answer `false` -/
theorem C09_unloaded_step (op : Op) (h : ∀ m, op ≠ .reload m) :
    (step none op).1 = none ∧
      (step none op).2 = (match op with
        | .query _ => some false
        | .queryOutPoint _ _ => some false
        | .isLoaded => some false
        | _ => none) := by
  cases op with
  | reload m => exact absurd rfl (h m)
  | _ => exact ⟨rfl, rfl⟩

/-- a history without `reload` on an unloaded filter stays unloaded -/
theorem C09_unloaded_run (ops : List Op) (h : ∀ op ∈ ops, ∀ m, op ≠ .reload m) :
    run none ops = none := by
  induction ops with
  | nil => rfl
  | cons op ops ih =>
    rw [run_cons, (C09_unloaded_step op (h op (by simp))).1]
    exact ih (fun o ho => h o (by simp [ho]))

/-! ## histories: no false negatives -/

/-- **Headline (invariant form).** Start from any filter state within the wire limit (in
particular `some m0` with `m0.bits.length ≤ 36000`, or unloaded), run any history whose reloaded
messages are within the limit: every item inserted (by `add`, `addHash`, `addOutPoint`) while
loaded since the last `reload`/`unload` is matched by the resulting state.  As `ops` is
arbitrary this holds for every prefix of every history. -/
theorem C09_no_false_negatives (m0 : Msg) (ops : List Op) (h0 : m0.bits.length ≤ 36000)
    (hops : WithinLimits ops = true) :
    ∀ x ∈ inserted (some m0) ops, Matches (run (some m0) ops) x = true :=
  inserted_matched (some m0) ops (Lim_some.mpr h0) hops

/-- the same from an arbitrary (possibly unloaded) start state -/
theorem C09_no_false_negatives_any_start (f0 : Filter) (ops : List Op)
    (h0 : ∀ m, f0 = some m → m.bits.length ≤ 36000) (hops : WithinLimits ops = true) :
    ∀ x ∈ inserted f0 ops, Matches (run f0 ops) x = true :=
  inserted_matched f0 ops h0 hops

/-- **Headline (positional form).** In the history `pre ++ [ins] ++ mid ++ [q]`: if the filter
is loaded when `ins` inserts `x`, `mid` contains no `reload`/`unload`, and `q` queries `x`
(`query x`, or `queryOutPoint h i` with `x = outPointBytes h i`), then `q` answers `some true`. -/
theorem C09_no_false_negatives_positional (m0 : Msg) (pre mid : List Op) (ins q : Op)
    (x : Bytes) (h0 : m0.bits.length ≤ 36000) (hops : WithinLimits pre = true)
    (hloaded : (run (some m0) pre).isSome = true)
    (hins : inserts ins = some x) (hmid : ∀ op ∈ mid, resets op = false)
    (hq : queries q = some x) :
    (step (run (some m0) (pre ++ ins :: mid)) q).2 = some true :=
  query_after_insert (some m0) pre mid ins q x (Lim_some.mpr h0) hops hloaded hins hmid hq

/-- `inserted` really records the insertions: a loaded insertion followed by operations that are
neither `reload` nor `unload` is in the tracked list (so the invariant form is not vacuous) -/
theorem C09_inserted_complete (f0 : Filter) (pre mid : List Op) (ins : Op) (x : Bytes)
    (hloaded : (run f0 pre).isSome = true) (hins : inserts ins = some x)
    (hmid : ∀ op ∈ mid, resets op = false) :
    x ∈ inserted f0 (pre ++ ins :: mid) := by
  unfold inserted
  rw [List.foldl_append, List.foldl_cons]
  have hst : x ∈ (track (List.foldl track (f0, []) pre) ins).2 := by
    have hr : resets ins = false := by cases ins <;> simp [inserts] at hins <;> rfl
    simp only [track, hr, hins, foldl_track_fst, hloaded]
    simp
  generalize track (List.foldl track (f0, []) pre) ins = s at hst
  induction mid generalizing s with
  | nil => exact hst
  | cons op mid ih =>
    rw [List.foldl_cons]
    apply ih (fun o ho => hmid o (by simp [ho]))
    have hr : resets op = false := hmid op (by simp)
    simp only [track, hr]
    cases inserts op with
    | none => simpa using hst
    | some z => by_cases hs : s.1.isSome = true <;> simp [hs, hst]

/-! ## bit-exactness -/

/-- **Bit-exact BIP37.** Insert `xs` into a loaded filter `⟨bits0, n, t, fl⟩` with a non-empty
bit array within the wire limit. The result keeps `n`, `t`, `fl` and the length, bit `k` is set
iff it was set before or is the BIP37 index of some inserted item under some hash function
`i < n`, and the membership answer for `y` is exactly "all `n` BIP37 bits of `y` are set". -/
theorem C09_bit_exact (bits0 : Bytes) (n : Nat) (t : UInt32) (fl : Nat) (xs : List Bytes)
    (hne : bits0 ≠ []) (hlim : bits0.length ≤ 36000) :
    ∃ bits, xs.foldl add (some ⟨bits0, n, t, fl⟩) = some ⟨bits, n, t, fl⟩ ∧
      bits.length = bits0.length ∧
      (∀ k, testBit bits k = true ↔
        (testBit bits0 k = true ∨ ∃ x, x ∈ xs ∧ ∃ i, i < n ∧ BIP37idx t i x bits0.length = k)) ∧
      (∀ y, Matches (some ⟨bits, n, t, fl⟩) y = true ↔
        ∀ i, i < n → testBit bits (BIP37idx t i y bits0.length) = true) := by
  let m : Msg := ⟨bits0, n, t, fl⟩
  have hlen : (xs.foldl addMsg m).bits.length = bits0.length := foldl_addMsg_length m xs
  have hn := foldl_addMsg_nHash m xs
  have ht := foldl_addMsg_tweak m xs
  have hf := foldl_addMsg_flags m xs
  have hbits := testBit_foldl_addMsg m xs hne (by show bits0.length < 2 ^ 29; omega)
  refine ⟨(xs.foldl addMsg m).bits, ?_, hlen, ?_, ?_⟩
  · rw [foldl_add_some]
    generalize xs.foldl addMsg m = r at hn ht hf
    cases r; simp only [m] at hn ht hf; subst hn ht hf; rfl
  · intro k
    rw [hbits k]
    have : ∀ i x, hashIdx m i x = BIP37idx t i x bits0.length :=
      fun i x => C09_hashIdx_eq_BIP37 m i x hlim
    simp only [this]; rfl
  · intro y
    have hne' : (xs.foldl addMsg m).bits ≠ [] := by
      intro e; rw [e] at hlen; exact hne (List.eq_nil_of_length_eq_zero hlen.symm)
    have hm : matchesMsg ⟨(xs.foldl addMsg m).bits, n, t, fl⟩ y = true ↔
        ∀ i, i < n → testBit (xs.foldl addMsg m).bits
          (hashIdx ⟨(xs.foldl addMsg m).bits, n, t, fl⟩ i y) = true :=
      matchesMsg_iff ⟨(xs.foldl addMsg m).bits, n, t, fl⟩ y hne'
    simp only [Matches]
    rw [hm]
    have : ∀ i, hashIdx ⟨(xs.foldl addMsg m).bits, n, t, fl⟩ i y = BIP37idx t i y bits0.length := by
      intro i
      rw [C09_hashIdx_eq_BIP37 _ _ _ (by show (xs.foldl addMsg m).bits.length ≤ 36000; omega)]
      show BIP37idx t i y (xs.foldl addMsg m).bits.length = _
      rw [hlen]
    simp only [this]

/-! ## outpoints -/

/-- outpoints are serialised as txid followed by the 4-byte little-endian index, and the
outpoint operations are the byte-string operations on that serialisation -/
theorem C09_outpoint_encoding (h : Bytes) (idx : Nat) :
    ∃ e : Bytes, outPointBytes h idx = h ++ e ∧ e.length = 4 ∧ Bytes.toNatLE e = idx % 2 ^ 32 ∧
      e = [UInt8.ofNat (idx % 256), UInt8.ofNat (idx / 256 % 256),
           UInt8.ofNat (idx / 256 / 256 % 256), UInt8.ofNat (idx / 256 / 256 / 256 % 256)] ∧
      (∀ f, matchesOutPoint f h idx = Matches f (h ++ e)) ∧
      (∀ f, addOutPoint f h idx = add f (h ++ e)) :=
  ⟨Bytes.ofNatLE 4 idx, rfl, ofNatLE_length 4 idx, toNatLE_ofNatLE 4 idx, rfl,
    fun _ => rfl, fun _ => rfl⟩

example : outPointBytes [0xaa, 0xbb] 0x01020304 = [0xaa, 0xbb, 0x04, 0x03, 0x02, 0x01] := by decide

/-! ## sizing -/

/-- whatever the float computations of `NewFilter` produce, the two clamps keep the filter
within the wire limits -/
theorem C09_sizing_within_limits (a b : Nat) : (sizing a b).1 ≤ 36000 ∧ (sizing a b).2 ≤ 50 :=
  sizing_within_limits a b

example : sizing 1000000 1000 = (36000, 50) := by decide
example : sizing 17 3 = (2, 3) := by decide

/-! ## non-vacuity: published MurmurHash3 vectors and a concrete history -/

-- test vectors of Bitcoin Core (`hash_tests.cpp`) for the reference formulation, incl. every
-- tail length and a wrapped seed
example : Spec.murmur3 0x00000000 [] = 0x00000000 := by decide
example : Spec.murmur3 0xFBA4C795 [] = 0x6a396f08 := by decide
example : Spec.murmur3 0xffffffff [] = 0x81f16f39 := by decide
example : Spec.murmur3 0x00000000 [0x00] = 0x514e28b7 := by decide
example : Spec.murmur3 0xFBA4C795 [0x00] = 0xea3f0b17 := by decide
example : Spec.murmur3 0x00000000 [0xff] = 0xfd6cf10d := by decide
example : Spec.murmur3 0x00000000 [0x00, 0x11] = 0x16c6b7ab := by decide
example : Spec.murmur3 0x00000000 [0x00, 0x11, 0x22] = 0x8eb51c3d := by decide
example : Spec.murmur3 0x00000000 [0x00, 0x11, 0x22, 0x33] = 0xb4471bf8 := by decide
example : Spec.murmur3 0x00000000 [0x00, 0x11, 0x22, 0x33, 0x44] = 0xe2301fa8 := by decide
example : Spec.murmur3 0x00000000 [0x00, 0x11, 0x22, 0x33, 0x44, 0x55] = 0xfc2e4a15 := by decide
example : Spec.murmur3 0x00000000 [0x00, 0x11, 0x22, 0x33, 0x44, 0x55, 0x66] = 0xb074502c := by
  decide
example : Spec.murmur3 0x00000000 [0x00, 0x11, 0x22, 0x33, 0x44, 0x55, 0x66, 0x77] = 0x8034d2a0 := by
  decide
example : Spec.murmur3 0x00000000 [0x00, 0x11, 0x22, 0x33, 0x44, 0x55, 0x66, 0x77, 0x88]
    = 0xb4698def := by decide
example : MurmurHash3 0xFBA4C795 [0x00] = 0xea3f0b17 := by decide

/-- a 2-byte filter with 3 hash functions and tweak 5 -/
def exMsg : Msg := ⟨[0, 0], 3, 5, 0⟩

/-- a history with queries before/after insertion, a reload, outpoints, an unload -/
def exOps : List Op :=
  [.query [1, 2, 3], .add [1, 2, 3], .query [1, 2, 3], .query [9],
   .reload ⟨[0, 0, 0], 2, 7, 1⟩, .query [1, 2, 3], .addOutPoint [1] 7, .queryOutPoint [1] 7,
   .unload, .query [1], .add [1], .query [1], .isLoaded]

example : exMsg.bits.length ≤ 36000 ∧ WithinLimits exOps = true := by decide
example : run (some exMsg) [.add [1, 2, 3]] = some ⟨[24, 32], 3, 5, 0⟩ := by decide
example : [BIP37idx 5 0 [1, 2, 3] 2, BIP37idx 5 1 [1, 2, 3] 2, BIP37idx 5 2 [1, 2, 3] 2]
    = [3, 13, 4] := by decide
example : answers (some exMsg) exOps =
    [some false, none, some true, some false, none, some false, none, some true, none,
     some false, none, some false, some false] := by decide
example : inserted (some exMsg) (exOps.take 3) = [[1, 2, 3]] := by decide
example : inserted (some exMsg) (exOps.take 8) = [[1, 7, 0, 0, 0]] := by decide
example : inserted (some exMsg) exOps = [] := by decide
-- hypotheses of the positional form are satisfiable: `pre = [query]`, `ins = add`, `mid = []`
example : (run (some exMsg) [.query [1, 2, 3]]).isSome = true ∧
    inserts (.add [1, 2, 3]) = some [1, 2, 3] ∧ queries (.query [1, 2, 3]) = some [1, 2, 3] ∧
    inserts (.addOutPoint [1] 7) = some [1, 7, 0, 0, 0] ∧
    queries (.queryOutPoint [1] 7) = some [1, 7, 0, 0, 0] ∧
    resets (.isLoaded) = false ∧ resets (.reload exMsg) = true := by decide

end Bch.Props.C09
