import Bch.Props.C20
import Bch.Props.C10
import Bch.Proofs.BloomAll
/-
Property C20, instantiated for ALL TEN exported methods of `bloom.Filter`.

`Bch/Props/C20.lean` proves the interleaving theorems (`C20_mutual_exclusion`, `C20_drf`,
`C20_linearizable`, `C20_linearizable_lock_list`, `C20_real_methods`) for an arbitrary sequential
step, but instantiates "no insertion is lost" / "a test after an insertion reports it present" only
with the eight-operation step of the C09 model, which has no `MatchTxAndUpdate` and no
`MsgFilterLoad`.  Here the step is `Bch.Model.BloomAll.step` (`Bch/Model/BloomAll.lean`): the ten
operations IsLoaded, Reload, Unload, Add, AddHash, AddOutPoint, Matches, MatchesOutPoint,
MatchTxAndUpdate, MsgFilterLoad, built from the functions of the C09 and C10 models.

Vocabulary (`Bch/Proofs/BloomAll.lean`): `run f ops` state after a history; `resets op` —
`Reload`/`Unload`; `WithinLimits ops` — every reloaded message has at most 36000 bytes;
`queries op = some x` — `Matches x`, or `MatchesOutPoint` of the outpoint serialised as `x`;
`isQuery op` — IsLoaded, Matches, MatchesOutPoint, MsgFilterLoad;
`insertsAt f op` — the items `op` inserts when it runs in state `f` (for `MatchTxAndUpdate tx` the
outpoints selected by the update flag, see `C20_all_matchTx_inserts`); `inserted f ops` — the items
inserted while loaded since the last `Reload`/`Unload` of a history; `BitsLe m m'` — same
parameters and length, every bit set in `m` is set in `m'`; `call op` — the invocation of the
method `methodName op` with its EXTRACTED lock skeleton; `prog T` — thread `t` issues the calls
`T[t]`.  For the interleaving vocabulary (`Reach`, `effInvs`, `lockInvs`, `Gov`, `pendingLock`,
`seqRun`, `WB`, `OS`) see the header of `Bch/Props/C20.lean`.
-/
namespace Bch.Props.C20
open Bch Bch.Model.Locking Bch.Proofs.Locking
open Bch.Model.BloomAll (Op Result methodName ofBloom ofAnswer)
open Bch.Model.Bloom (Msg Filter Matches outPointBytes)
open Bch.Model.BloomTx (Tx TxOut bloomOps matchTxAndUpdate)
open Bch.Proofs.BloomAll

/-! ## the ten operations and the ten extracted skeletons -/

/-- every program whose threads issue any sequences of the ten operations — each as a call of the
method it stands for, with the lock skeleton EXTRACTED from /repo/bloom/filter.go — is a program
over the real methods, hence well bracketed and one-section: all theorems below (and
`C20_real_methods`) apply to it.  The ten operations stand for the ten analysed methods. -/
theorem C20_all_calls_real (T : List (List Op)) :
    RealProgram (prog T) ∧ WB (prog T) ∧ OS (prog T) ∧
    (∀ op : Op, (methodName op, (call op).sk) ∈ Bch.Generated.bloomSkeletons) ∧
    [Op.isLoaded, .reload ⟨[], 0, 0, 0⟩, .unload, .add [], .addHash [], .addOutPoint [] 0,
      .query [], .queryOutPoint [] 0, .matchTx ⟨[], [], []⟩, .msgFilterLoad].map methodName
      = ["IsLoaded", "Reload", "Unload", "Add", "AddHash", "AddOutPoint", "Matches",
         "MatchesOutPoint", "MatchTxAndUpdate", "MsgFilterLoad"] := by
  have hreal : RealProgram (prog T) := by
    intro th hth i hi
    simp only [prog, List.mem_map] at hth
    obtain ⟨ops, _, rfl⟩ := hth
    obtain ⟨op, _, rfl⟩ := List.mem_map.mp hi
    exact ⟨methodName op, call_mem_skeletons op⟩
  obtain ⟨hwb, hos⟩ := real_program_wb_os (prog T) hreal
  exact ⟨hreal, hwb, hos, call_mem_skeletons, methodNames_all⟩

/-- the ten-operation step restricted to the eight operations of the C09 model IS the C09 step
(`ofBloom` embeds the operations, `ofAnswer` the answers), so the theorems of
`Bch/Props/C20.lean` about `Model.Bloom.step` are special cases -/
theorem C20_all_extends_C09 (f : Filter) (op : Model.Bloom.Op) (ops : List Model.Bloom.Op) :
    Model.BloomAll.step f (ofBloom op)
      = ((Model.Bloom.step f op).1, ofAnswer (Model.Bloom.step f op).2) ∧
    run f (ops.map ofBloom) = Bch.Proofs.Bloom.run f ops :=
  ⟨step_ofBloom f op, run_ofBloom f ops⟩

/-! ## linearizability -/

/-- **Linearizability of all ten methods.** Any number of threads, each issuing any sequence of
the ten operations with well-bracketed skeletons (in particular the extracted ones,
`C20_all_calls_real`), any start state `f0`, any reachable configuration (= any prefix of any
interleaving):
1. the shared filter and the recorded per-call results are those of the sequential run of
   `Model.BloomAll.step` over the calls in the order of their effects; the call at any place of
   that order got the result the sequential run gives it there;
2. the effects are effects of calls of the program; in a complete execution every thread has
   performed exactly its effectful calls, once each, in program order;
3. that order is the order of lock acquisition: every effect is governed by the last `lock` event
   before it, which belongs to the same call, and of two effects `p < p'` the governing `lock` of
   the later lies after the earlier effect;
4. for one-section programs (all real methods) the list of `lock` events IS the effect order,
   followed by the call that holds the mutex without having performed its effect yet (if any);
   in a complete execution state and results are those of the sequential run in the order of
   the `lock` events, in which every call of every thread occurs exactly once. -/
theorem C20_all_linearizable (P : List (List (Invoc Op))) (f0 : Filter)
    (c : Config Filter Op Result) (hP : WB P) (h : Reach Model.BloomAll.step (init P f0) c) :
    ((c.st, c.res) = seqRun Model.BloomAll.step f0 (effInvs c.tr) ∧
     c.st = run f0 ((effInvs c.tr).map (·.2.2)) ∧
     ∀ pre x post, effInvs c.tr = pre ++ x :: post →
       (x.1, x.2.1, (Model.BloomAll.step (run f0 (pre.map (·.2.2))) x.2.2).2) ∈ c.res) ∧
    ((∀ t i op, (t, i, op) ∈ effInvs c.tr →
        ∃ inv, (P.getD t [])[i]? = some inv ∧ inv.op = op ∧ effectful inv.sk = true) ∧
     (Complete c → ∀ t, effOf t c.tr = expected 0 (P.getD t []))) ∧
    ((∀ (p : Nat) (a : Event Op), c.tr[p]? = some a → a.eff = true → ∃ l, Gov c.tr l p) ∧
     (∀ (p p' l l' : Nat) (a a' : Event Op), p < p' → c.tr[p]? = some a → c.tr[p']? = some a' →
        a.eff = true → a'.eff = true → Gov c.tr l p → Gov c.tr l' p' →
        l < p ∧ p < l' ∧ l' < p')) ∧
    (OS P →
      lockInvs c.tr = effInvs c.tr ++ pendingLock c ∧
      (Complete c →
        lockInvs c.tr = effInvs c.tr ∧
        (c.st, c.res) = seqRun Model.BloomAll.step f0 (lockInvs c.tr) ∧
        c.st = run f0 ((lockInvs c.tr).map (·.2.2)) ∧
        ∀ t, effOf t c.tr = ((P.getD t []).zipIdx).map fun x => (x.2, x.1.op))) := by
  obtain ⟨h1, h2, h3⟩ := C20_linearizable Model.BloomAll.step P f0 c hP h
  refine ⟨h1, h2, h3, ?_⟩
  intro hos
  refine ⟨lock_list hos h, ?_⟩
  intro hc
  exact C20_linearizable_lock_list Model.BloomAll.step P f0 c hos h hc

/-! ## what `MatchTxAndUpdate` inserts; bits are only ever set -/

/-- **which outpoints `MatchTxAndUpdate tx` inserts in state `f`** (C10 for the real filter):
exactly the serialised outpoints `(tx.id, i)` of the outputs `i` that are eligible under the update
flag of `f` (1 = BloomUpdateAll; 2 = BloomUpdateP2PubkeyOnly and the script is pay-to-pubkey or
multisig; anything else, and the unloaded filter, nothing) and have a data push matching the filter
at their turn (`filterAt`: `f` plus the outpoints inserted for earlier outputs of `tx`); in
particular every eligible output with a push matching `f` itself.  The new state is `f` with
these items added by `Bloom.add`, in output order. -/
theorem C20_all_matchTx_inserts (f : Filter) (tx : Tx) :
    (∀ x, x ∈ insertsAt f (.matchTx tx) ↔
      ∃ i o, x = outPointBytes tx.id i ∧ tx.outs[i]? = some o ∧
        (bloomOps.flags f = 1 ∨ (bloomOps.flags f = 2 ∧ o.isPubKeyOrMultisig = true)) ∧
        ∃ ps, o.pushes = some ps ∧
          ∃ d ∈ ps, Matches (Bch.Proofs.BloomTx.filterAt bloomOps f tx i) d = true) ∧
    (∀ i o ps d, tx.outs[i]? = some o →
        (bloomOps.flags f = 1 ∨ (bloomOps.flags f = 2 ∧ o.isPubKeyOrMultisig = true)) →
        o.pushes = some ps → d ∈ ps → Matches f d = true →
        outPointBytes tx.id i ∈ insertsAt f (.matchTx tx)) ∧
    (Model.BloomAll.step f (.matchTx tx)).1
      = (insertsAt f (.matchTx tx)).foldl Model.Bloom.add f := by
  have hmem := Bch.Props.C10.C10_update_mem Bch.Proofs.BloomTx.bloom_lawful f tx
  have h1 : ∀ x, x ∈ insertsAt f (.matchTx tx) ↔
      ∃ i o, x = outPointBytes tx.id i ∧ tx.outs[i]? = some o ∧
        (bloomOps.flags f = 1 ∨ (bloomOps.flags f = 2 ∧ o.isPubKeyOrMultisig = true)) ∧
        ∃ ps, o.pushes = some ps ∧
          ∃ d ∈ ps, Matches (Bch.Proofs.BloomTx.filterAt bloomOps f tx i) d = true := by
    intro x
    simp only [insertsAt, List.mem_map]
    constructor
    · rintro ⟨i, hi, rfl⟩
      obtain ⟨o, g1, g2, g3⟩ := (hmem i).1 hi
      exact ⟨i, o, rfl, g1, g2, g3⟩
    · rintro ⟨i, o, rfl, g1, g2, g3⟩
      exact ⟨i, (hmem i).2 ⟨o, g1, g2, g3⟩, rfl⟩
  refine ⟨h1, ?_, step_fst_eq f (.matchTx tx) rfl⟩
  intro i o ps d g1 g2 g3 g4 g5
  exact (h1 _).2 ⟨i, o, rfl, g1, g2, ps, g3, d, g4,
    Bch.Proofs.BloomTx.le_filterAt Bch.Proofs.BloomTx.bloom_lawful f tx i d g5⟩

/-- **The bit array is monotone under every operation except `Reload`/`Unload`** — `Add`,
`AddHash`, `AddOutPoint` and `MatchTxAndUpdate` only set bits (`matchTxAndUpdate_bits_mono`), the
other four change nothing: the state is `(insertsAt f op).foldl add f`; a loaded filter stays
loaded with the same hash-function count, tweak, flag and length and every set bit stays set; an
unloaded filter stays unloaded.  Lifted to interleavings: if the effect order (= lock order) of a
reachable configuration is `pre ++ post`, `post` contains no `Reload`/`Unload` and the filter is
`some m` after `pre`, then the current filter is `some m'` with `BitsLe m m'`. -/
theorem C20_all_bits_monotone :
    (∀ (f : Filter) (op : Op), resets op = false →
      (Model.BloomAll.step f op).1 = (insertsAt f op).foldl Model.Bloom.add f) ∧
    (∀ (m : Msg) (tx : Tx), ∃ m', (matchTxAndUpdate bloomOps (some m) tx).1 = some m' ∧
      m'.nHash = m.nHash ∧ m'.tweak = m.tweak ∧ m'.flags = m.flags ∧
      m'.bits.length = m.bits.length ∧
      ∀ k, Model.Bloom.testBit m.bits k = true → Model.Bloom.testBit m'.bits k = true) ∧
    (∀ (m : Msg) (op : Op), resets op = false →
      ∃ m', (Model.BloomAll.step (some m) op).1 = some m' ∧ BitsLe m m') ∧
    (∀ op : Op, (∀ m, op ≠ .reload m) → (Model.BloomAll.step none op).1 = none) ∧
    (∀ (P : List (List (Invoc Op))) (f0 : Filter) (c : Config Filter Op Result),
      Reach Model.BloomAll.step (init P f0) c →
      ∀ (pre post : List (Nat × Nat × Op)) (m : Msg), effInvs c.tr = pre ++ post →
        (∀ y ∈ post, resets y.2.2 = false) → run f0 (pre.map (·.2.2)) = some m →
        ∃ m', c.st = some m' ∧ BitsLe m m') := by
  refine ⟨step_fst_eq, matchTxAndUpdate_bits_mono, step_bits_mono, step_none, ?_⟩
  intro P f0 c h pre post m hsplit hpost hm
  have hs : (c.st, c.res) = seqRun Model.BloomAll.step f0 (effInvs c.tr) := (reach_all h).seq
  have h1 : c.st = run f0 ((effInvs c.tr).map (·.2.2)) := by
    have : c.st = (seqRun Model.BloomAll.step f0 (effInvs c.tr)).1 := by rw [← hs]
    rw [this, seqRun_fst]; rfl
  rw [h1, hsplit, List.map_append, run_append, hm]
  apply run_bits_mono
  intro op hop
  obtain ⟨y, hy, rfl⟩ := List.mem_map.mp hop
  exact hpost y hy

/-! ## no insertion is lost -/

/-- **linearisation form** (any program, any reachable configuration): if in the effect order
(= order of lock acquisition, `C20_all_linearizable`) a call `ins` — `Add`, `AddHash`,
`AddOutPoint` or `MatchTxAndUpdate` — that inserts `x` into a loaded filter (`x ∈ insertsAt s ins`
for the state `s` in which `ins` runs) precedes a membership test `q` of `x` with no
`Reload`/`Unload` in between, the result recorded for `q` is `true`.  Start state and the
messages reloaded before `ins` within the wire limit. -/
theorem C20_all_query_after_insert (P : List (List (Invoc Op))) (f0 : Filter)
    (c : Config Filter Op Result) (h : Reach Model.BloomAll.step (init P f0) c)
    (pre mid post : List (Nat × Nat × Op)) (t i t' i' : Nat) (ins q : Op) (x : Bytes)
    (hsplit : effInvs c.tr = pre ++ (t, i, ins) :: mid ++ (t', i', q) :: post)
    (h0 : ∀ m, f0 = some m → m.bits.length ≤ 36000)
    (hlim : WithinLimits (pre.map (·.2.2)) = true)
    (hloaded : (run f0 (pre.map (·.2.2))).isSome = true)
    (hins : x ∈ insertsAt (run f0 (pre.map (·.2.2))) ins)
    (hmid : ∀ y ∈ mid, resets y.2.2 = false)
    (hq : queries q = some x) :
    (t', i', Result.bool true) ∈ c.res := by
  have hs : (c.st, c.res) = seqRun Model.BloomAll.step f0 (effInvs c.tr) := (reach_all h).seq
  have h2 : c.res = (seqRun Model.BloomAll.step f0 (effInvs c.tr)).2 := by rw [← hs]
  have hsplit' : effInvs c.tr = (pre ++ (t, i, ins) :: mid) ++ (t', i', q) :: post := hsplit
  have hm := seqRun_mem (step := Model.BloomAll.step) f0 (pre ++ (t, i, ins) :: mid) post (t', i', q)
  rw [← hsplit', ← h2, seqRun_fst] at hm
  have hrun : (List.map (·.2.2) (pre ++ (t, i, ins) :: mid)).foldl
      (fun s op => (Model.BloomAll.step s op).1) f0
      = run f0 (pre.map (·.2.2) ++ ins :: mid.map (·.2.2)) := by
    simp [run]
  rw [hrun] at hm
  have := query_after_insert f0 (pre.map (·.2.2)) (mid.map (·.2.2)) ins q x h0 hlim hloaded hins
    (by intro op hop
        obtain ⟨y, hy, rfl⟩ := List.mem_map.mp hop
        exact hmid y hy) hq
  simp only at hm
  rw [this] at hm
  exact hm

/-- **No insertion is lost** (one-section programs — all real methods; any reachable
configuration, start state within the wire limit).

(1) *Membership tests, in lock-acquisition order.*  Let the list of `lock` events of the trace be
`pre ++ ins :: mid ++ q :: post`: the call `ins` took the mutex before the test `q`.  If the
messages reloaded in `pre` are within the wire limit, the filter is loaded when `ins` runs, `x` is
one of the items `ins` inserts in that state — the argument of `Add`/`AddHash`, the outpoint of
`AddOutPoint`, or an outpoint inserted by `MatchTxAndUpdate` according to the update flag
(`C20_all_matchTx_inserts`) —, no call in `mid` is a `Reload`/`Unload`, and `q` is `Matches x` or
`MatchesOutPoint` of that outpoint, then `q`'s recorded result is `true` — unless `q` is the very
last `lock` event and has not evaluated yet (it holds the mutex, `pendingLock`; no result exists).

(2) *Final state.*  In a complete execution no call is pending, the final filter is the
sequential `run` of ALL calls of all threads (each exactly once, per thread in program order) in
the order of their `lock` events; hence — reloaded messages within the wire limit — every item
inserted while loaded since the last `Reload`/`Unload` of that order (`inserted`, which counts
the outpoints of `MatchTxAndUpdate`) is matched by the final filter. -/
theorem C20_all_no_insertion_lost (P : List (List (Invoc Op))) (f0 : Filter)
    (c : Config Filter Op Result) (hP : OS P) (h : Reach Model.BloomAll.step (init P f0) c)
    (h0 : ∀ m, f0 = some m → m.bits.length ≤ 36000) :
    (∀ (pre mid post : List (Nat × Nat × Op)) (t i t' i' : Nat) (ins q : Op) (x : Bytes),
      lockInvs c.tr = pre ++ (t, i, ins) :: mid ++ (t', i', q) :: post →
      WithinLimits (pre.map (·.2.2)) = true →
      (run f0 (pre.map (·.2.2))).isSome = true →
      x ∈ insertsAt (run f0 (pre.map (·.2.2))) ins →
      (∀ y ∈ mid, resets y.2.2 = false) →
      queries q = some x →
      (t', i', Result.bool true) ∈ c.res ∨ (post = [] ∧ pendingLock c = [(t', i', q)])) ∧
    (Complete c →
      pendingLock c = [] ∧
      lockInvs c.tr = effInvs c.tr ∧
      c.st = run f0 ((lockInvs c.tr).map (·.2.2)) ∧
      (∀ t, effOf t c.tr = ((P.getD t []).zipIdx).map fun x => (x.2, x.1.op)) ∧
      (WithinLimits ((lockInvs c.tr).map (·.2.2)) = true →
        ∀ x ∈ inserted f0 ((lockInvs c.tr).map (·.2.2)), Matches c.st x = true)) := by
  constructor
  · intro pre mid post t i t' i' ins q x hsplit hlim hloaded hins hmid hq
    have hsplit' : lockInvs c.tr = (pre ++ (t, i, ins) :: mid) ++ (t', i', q) :: post := hsplit
    rcases effInvs_of_lockInvs (lock_list hP h) _ _ _ hsplit' with ⟨e1, e2, _⟩ | ⟨post', he⟩
    · exact Or.inr ⟨e1, e2⟩
    · left
      exact C20_all_query_after_insert P f0 c h pre mid post' t i t' i' ins q x
        he h0 hlim hloaded hins hmid hq
  · intro hc
    obtain ⟨h1, _, h3, h4⟩ := C20_linearizable_lock_list Model.BloomAll.step P f0 c hP h hc
    have hst : c.st = run f0 ((lockInvs c.tr).map (·.2.2)) := h3
    refine ⟨pendingLock_complete hc, h1, hst, h4, ?_⟩
    intro hlim x hx
    rw [hst]
    exact inserted_matched f0 _ h0 hlim x hx

/-- **trace form** (one-section programs — all real methods): a membership test for `x` whose
`lock` event (position `l`, governing its effect at `p'`) follows the `unlock` event (position `u`)
of a call — `Add`, `AddHash`, `AddOutPoint` or `MatchTxAndUpdate` — that inserted `x` into a loaded
filter (`hins`: at the effect event of that call the filter is loaded and `x ∈ insertsAt`), with
no `Reload`/`Unload` taking effect between the insertion's effect and the test's effect, records
`true`: "a membership test that starts after an insertion of the same item has returned reports
it present". -/
theorem C20_all_query_after_unlock (P : List (List (Invoc Op))) (f0 : Filter)
    (c : Config Filter Op Result) (hP : OS P) (h : Reach Model.BloomAll.step (init P f0) c)
    (u l p' : Nat) (b a' : Event Op) (x : Bytes)
    (hu : c.tr[u]? = some b) (hb : b.act = .unlock)
    (hp' : c.tr[p']? = some a') (ha' : a'.eff = true) (hq : queries a'.op = some x)
    (hgov : Gov c.tr l p') (hul : u < l)
    (h0 : ∀ m, f0 = some m → m.bits.length ≤ 36000)
    (hlim : WithinLimits ((effInvs c.tr).map (·.2.2)) = true)
    (hins : ∀ (p : Nat) (a : Event Op), c.tr[p]? = some a → a.eff = true → a.tid = b.tid →
      a.inv = b.inv →
        (run f0 ((effInvs (c.tr.take p)).map (·.2.2))).isSome = true ∧
        x ∈ insertsAt (run f0 ((effInvs (c.tr.take p)).map (·.2.2))) b.op)
    (hmid : ∀ (p : Nat) (a : Event Op), c.tr[p]? = some a → a.eff = true → a.tid = b.tid →
      a.inv = b.inv → ∀ y ∈ effInvs ((c.tr.drop (p + 1)).take (p' - (p + 1))), resets y.2.2 = false) :
    (a'.tid, a'.inv, Result.bool true) ∈ c.res := by
  obtain ⟨p, a, hpu, hp, he, ht, hi, hop⟩ := unlock_after_effect hP h u b hu hb
  obtain ⟨_, _, hlp', _⟩ := hgov
  have hlt : p < p' := by omega
  have hsplit := effInvs_split hlt hp hp' he ha'
  have hlim' : WithinLimits ((effInvs (c.tr.take p)).map (·.2.2)) = true := by
    rw [hsplit, List.map_append, WithinLimits_append, List.map_append, WithinLimits_append] at hlim
    simp only [Bool.and_eq_true] at hlim
    exact hlim.1.1
  obtain ⟨hl1, hl2⟩ := hins p a hp he ht hi
  exact C20_all_query_after_insert P f0 c h _ _ _ a.tid a.inv a'.tid a'.inv a.op a'.op x hsplit h0
    hlim' hl1 (by rw [hop]; exact hl2) (hmid p a hp he ht hi) hq

/-! ## the read-only methods -/

/-- **`IsLoaded`, `Matches`, `MatchesOutPoint`, `MsgFilterLoad` are pure.**  (`isQuery` is
exactly these four.)  They leave the state unchanged; so swapping two adjacent such calls in the
sequential order (= lock order) changes neither the final state, nor the results of the two calls,
nor the result of any other call (the logs are `L ++ rx :: ry :: L'` and `L ++ ry :: rx :: L'`
with the same `L`, `rx`, `ry`, `L'`) — any reordering of a block of consecutive query calls,
being a product of adjacent swaps, gives every call the same result. -/
theorem C20_all_queries_pure :
    (∀ op : Op, isQuery op = true ↔
      (op = .isLoaded ∨ (∃ d, op = .query d) ∨ (∃ hh i, op = .queryOutPoint hh i) ∨
        op = .msgFilterLoad)) ∧
    (∀ (f : Filter) (op : Op), isQuery op = true → (Model.BloomAll.step f op).1 = f) ∧
    (∀ (f0 : Filter) (pre post : List (Nat × Nat × Op)) (x y : Nat × Nat × Op),
      isQuery x.2.2 = true → isQuery y.2.2 = true →
      (seqRun Model.BloomAll.step f0 (pre ++ x :: y :: post)).1
        = (seqRun Model.BloomAll.step f0 (pre ++ y :: x :: post)).1 ∧
      (seqRun Model.BloomAll.step f0 (pre ++ x :: y :: post)).1
        = (seqRun Model.BloomAll.step f0 (pre ++ post)).1 ∧
      (seqRun Model.BloomAll.step f0 (pre ++ x :: y :: post)).2 =
        (seqRun Model.BloomAll.step f0 pre).2 ++
          (x.1, x.2.1, (Model.BloomAll.step (run f0 (pre.map (·.2.2))) x.2.2).2) ::
          (y.1, y.2.1, (Model.BloomAll.step (run f0 (pre.map (·.2.2))) y.2.2).2) ::
          (seqRun Model.BloomAll.step (run f0 (pre.map (·.2.2))) post).2 ∧
      (seqRun Model.BloomAll.step f0 (pre ++ y :: x :: post)).2 =
        (seqRun Model.BloomAll.step f0 pre).2 ++
          (y.1, y.2.1, (Model.BloomAll.step (run f0 (pre.map (·.2.2))) y.2.2).2) ::
          (x.1, x.2.1, (Model.BloomAll.step (run f0 (pre.map (·.2.2))) x.2.2).2) ::
          (seqRun Model.BloomAll.step (run f0 (pre.map (·.2.2))) post).2) := by
  refine ⟨?_, step_query_fst, ?_⟩
  · intro op
    cases op <;> simp [isQuery]
  · intro f0 pre post x y hx hy
    have hrun : (seqRun Model.BloomAll.step f0 pre).1 = run f0 (pre.map (·.2.2)) := by
      rw [seqRun_fst]; rfl
    obtain ⟨s1, s2, s3⟩ := seqRun_swap (step' := Model.BloomAll.step) f0 pre post x y
      (step_query_fst _ _ hx) (step_query_fst _ _ hy)
    rw [hrun] at s2 s3
    refine ⟨s1, ?_, s2, s3⟩
    rw [seqRun_append, seqRun_append, seqRun_cons, seqRun_cons]
    simp only [step_query_fst _ _ hx, step_query_fst _ _ hy]

/-- **Threads that only query never interfere** — any number of threads, ANY skeletons (the
mutex is not even needed), only `IsLoaded`/`Matches`/`MatchesOutPoint`/`MsgFilterLoad`: the filter
never changes and every call returns what it returns alone on the start state. -/
theorem C20_all_queries_no_interference (P : List (List (Invoc Op))) (f0 : Filter)
    (c : Config Filter Op Result) (hP : ∀ th ∈ P, ∀ i ∈ th, isQuery i.op = true)
    (h : Reach Model.BloomAll.step (init P f0) c) :
    c.st = f0 ∧
    c.res = (effInvs c.tr).map (fun x => (x.1, x.2.1, (Model.BloomAll.step f0 x.2.2).2)) := by
  have hro : ∀ x ∈ effInvs c.tr, (Model.BloomAll.step f0 x.2.2).1 = f0 := by
    intro x hx
    obtain ⟨inv, g1, g2, _⟩ := effInvs_faithful (t := x.1) (i := x.2.1) (op := x.2.2) h hx
    have hmem : inv ∈ P.getD x.1 [] := List.mem_of_getElem? g1
    rw [List.getD_eq_getElem?_getD] at hmem
    cases hg : P[x.1]? with
    | none => rw [hg] at hmem; simp at hmem
    | some th =>
      rw [hg] at hmem
      have := hP th (List.mem_of_getElem? hg) inv hmem
      rw [g2] at this
      exact step_query_fst f0 _ this
  have hs : (c.st, c.res) = seqRun Model.BloomAll.step f0 (effInvs c.tr) := (reach_all h).seq
  rw [seqRun_readonly f0 _ hro] at hs
  exact ⟨congrArg Prod.fst hs, congrArg Prod.snd hs⟩

/-! ## non-vacuity: one `Add` against `MatchTxAndUpdate` + two membership tests -/

section ExamplesAll
open Bch.Proofs.BloomAll.Ex

-- the toy program: 2-byte filter with flag BloomUpdateAll; thread 0 `Add item`; thread 1
-- `MatchTxAndUpdate tx` (tx's output pushes `item`), `Matches item`, `MatchesOutPoint (tx, 0)`
example : prog T = [[⟨[.lock, .access, .unlock, .ret], .add item⟩],
    [⟨[.lock, .access, .unlock, .ret], .matchTx tx⟩, ⟨[.lock, .access, .unlock, .ret], .query item⟩,
     ⟨[.lock, .access, .unlock, .ret], .queryOutPoint [9] 0⟩]] := rfl
example : RealProgram (prog T) ∧ WB (prog T) ∧ OS (prog T) :=
  ⟨(C20_all_calls_real T).1, (C20_all_calls_real T).2.1, (C20_all_calls_real T).2.2.1⟩
example : msg.bits.length ≤ 36000 ∧ outp = [9, 0, 0, 0, 0] := by decide

-- interleaving A: `Add` takes the mutex first.  `MatchTxAndUpdate` then matches (its output
-- pushes the added item) and inserts the outpoint; both tests answer `true`
-- = the sequential run [Add, MatchTx, Matches, MatchesOutPoint]
example : obs schedA =
    some ([(0, 0, .unit), (1, 0, .bool true), (1, 1, .bool true), (1, 2, .bool true)],
          [(0, 0), (1, 0), (1, 1), (1, 2)]) := by decide
example : obsSt schedA =
    some (run (some msg) [.add item, .matchTx tx, .query item, .queryOutPoint [9] 0], true) := by
  decide
example : answers (some msg) [.add item, .matchTx tx, .query item, .queryOutPoint [9] 0]
    = [.unit, .bool true, .bool true, .bool true] := by decide
-- interleaving B: `MatchTxAndUpdate` takes the mutex first — no match, nothing inserted; `Add`
-- comes before `Matches`, which answers `true`; the outpoint is not in the filter
-- = the sequential run [MatchTx, Add, Matches, MatchesOutPoint]
example : obs schedB =
    some ([(1, 0, .bool false), (0, 0, .unit), (1, 1, .bool true), (1, 2, .bool false)],
          [(1, 0), (0, 0), (1, 1), (1, 2)]) := by decide
example : answers (some msg) [.matchTx tx, .add item, .query item, .queryOutPoint [9] 0]
    = [.bool false, .unit, .bool true, .bool false] := by decide
-- interleaving C: the same lock order as B with overlapping returns — same results
example : obs schedC =
    some ([(1, 0, .bool false), (0, 0, .unit), (1, 1, .bool true), (1, 2, .bool false)],
          [(1, 0), (0, 0), (1, 1), (1, 2)]) := by decide
-- the insertions are never lost: `Add`'s bits ([24, 32]) are in the final filter of A and B,
-- and in A so are the three bits of the outpoint inserted by `MatchTxAndUpdate`
example : obsSt schedA = some (some ⟨[24, 180], 3, 5, 1⟩, true) ∧
    obsSt schedB = some (some ⟨[24, 32], 3, 5, 1⟩, true) ∧
    run (some msg) [.add item] = some ⟨[24, 32], 3, 5, 1⟩ := by decide
-- what `MatchTxAndUpdate tx` inserts depends on the state it runs in and on the update flag
example : insertsAt (some msg) (.matchTx tx) = [] ∧
    insertsAt (run (some msg) [.add item]) (.matchTx tx) = [outp] ∧
    insertsAt (run (some { msg with flags := 0 }) [.add item]) (.matchTx tx) = [] ∧
    insertsAt (run (some { msg with flags := 2 }) [.add item]) (.matchTx tx) = [] ∧
    inserted (some msg) [.add item, .matchTx tx, .query item] = [outp, item] := by decide
-- the mutex rule: thread 1 cannot take the lock while thread 0 is between `lock` and `unlock`
example : obs [0, 1] = none ∧ obs [0, 0, 1] = none ∧ (obs [0, 0, 0, 1]).isSome = true := by
  decide

-- trace of interleaving A
example : cfgA.tr.map (fun e => (e.tid, e.inv, e.act, e.eff)) =
    [(0, 0, .lock, false), (0, 0, .access, true), (0, 0, .unlock, false), (0, 0, .ret, false),
     (1, 0, .lock, false), (1, 0, .access, true), (1, 0, .unlock, false), (1, 0, .ret, false),
     (1, 1, .lock, false), (1, 1, .access, true), (1, 1, .unlock, false), (1, 1, .ret, false),
     (1, 2, .lock, false), (1, 2, .access, true), (1, 2, .unlock, false), (1, 2, .ret, false)] := by
  decide

-- the hypotheses of `C20_all_linearizable` are satisfiable, and its conclusion gives the state
example : cfgA.st = run (some msg) ((lockInvs cfgA.tr).map (·.2.2)) :=
  ((C20_all_linearizable (prog T) (some msg) cfgA (C20_all_calls_real T).2.1 cfgA_reach).2.2.2
    (C20_all_calls_real T).2.2.1).2 cfgA_complete |>.2.2.1

-- `C20_all_no_insertion_lost` (1) explains interleaving A: the outpoint inserted by
-- `MatchTxAndUpdate` (second `lock` event) is reported by `MatchesOutPoint` (fourth `lock` event,
-- a `Matches` call in between) …
example : (1, 2, Result.bool true) ∈ cfgA.res := by
  have h := (C20_all_no_insertion_lost (prog T) (some msg) cfgA (C20_all_calls_real T).2.2.1
    cfgA_reach (by intro m hm; cases hm; decide)).1
    [(0, 0, .add item)] [(1, 1, .query item)] [] 1 0 1 2 (.matchTx tx) (.queryOutPoint [9] 0) outp
    (by decide) (by decide) (by decide) (by decide) (by decide) rfl
  rcases h with h | ⟨_, h⟩
  · exact h
  · rw [((C20_all_no_insertion_lost (prog T) (some msg) cfgA (C20_all_calls_real T).2.2.1
      cfgA_reach (by intro m hm; cases hm; decide)).2 cfgA_complete).1] at h
    cases h
-- … and the item inserted by `Add` (first `lock` event) is reported by `Matches` (third), with
-- the `MatchTxAndUpdate` call in between (not a `Reload`/`Unload`)
example : (1, 1, Result.bool true) ∈ cfgA.res ∨
    ([(1, 2, Op.queryOutPoint [9] 0)] = [] ∧ pendingLock cfgA = [(1, 1, .query item)]) :=
  (C20_all_no_insertion_lost (prog T) (some msg) cfgA (C20_all_calls_real T).2.2.1
    cfgA_reach (by intro m hm; cases hm; decide)).1
    [] [(1, 0, .matchTx tx)] [(1, 2, .queryOutPoint [9] 0)] 0 0 1 1 (.add item) (.query item) item
    (by decide) (by decide) (by decide) (by decide) (by decide) rfl
-- (2): the final filter matches everything inserted, including the outpoint
example : ∀ x ∈ [outp, item], Matches cfgA.st x = true := by
  have h := ((C20_all_no_insertion_lost (prog T) (some msg) cfgA (C20_all_calls_real T).2.2.1
    cfgA_reach (by intro m hm; cases hm; decide)).2 cfgA_complete).2.2.2.2 (by decide)
  have e : inserted (some msg) ((lockInvs cfgA.tr).map (·.2.2)) = [outp, item] := by decide
  rwa [e] at h

-- the hypotheses of `C20_all_query_after_insert` are satisfiable (effect order of A)
example : (1, 2, Result.bool true) ∈ cfgA.res :=
  C20_all_query_after_insert (prog T) (some msg) cfgA cfgA_reach
    [(0, 0, .add item)] [(1, 1, .query item)] [] 1 0 1 2 (.matchTx tx) (.queryOutPoint [9] 0) outp
    (by decide) (by intro m hm; cases hm; decide) (by decide) (by decide) (by decide) (by decide) rfl

-- … and those of `C20_all_query_after_unlock`: `MatchTxAndUpdate`'s unlock is event 6,
-- `MatchesOutPoint`'s lock is event 12 and governs its effect, event 13
example : (1, 2, Result.bool true) ∈ cfgA.res := by
  have hlen : cfgA.tr.length = 16 := by decide
  have hchk : effCheck (some msg) cfgA.tr 1 0 13 outp (.matchTx tx) = true := by decide
  have h6 : 6 < cfgA.tr.length := by rw [hlen]; decide
  have h12 : 12 < cfgA.tr.length := by rw [hlen]; decide
  have h13 : 13 < cfgA.tr.length := by rw [hlen]; decide
  have hall : ∀ (p : Nat) (a : Event Op), cfgA.tr[p]? = some a → a.eff = true → a.tid = 1 →
      a.inv = 0 →
      ((run (some msg) ((effInvs (cfgA.tr.take p)).map (·.2.2))).isSome = true ∧
        outp ∈ insertsAt (run (some msg) ((effInvs (cfgA.tr.take p)).map (·.2.2))) (.matchTx tx)) ∧
      ∀ y ∈ effInvs ((cfgA.tr.drop (p + 1)).take (13 - (p + 1))), resets y.2.2 = false := by
    intro p a hp he ht hi
    have hp' := get_lt hp
    have := List.all_eq_true.mp hchk p (List.mem_range.mpr hp')
    rw [hp] at this
    simp only [he, ht, hi, beq_self_eq_true, Bool.and_self, Bool.not_true, Bool.false_or,
      Bool.and_eq_true, decide_eq_true_eq, List.all_eq_true, Bool.not_eq_eq_eq_not, Bool.not_true] at this
    exact ⟨⟨this.1.1, this.1.2⟩, this.2⟩
  refine C20_all_query_after_unlock (prog T) (some msg) cfgA (C20_all_calls_real T).2.2.1 cfgA_reach
    6 12 13 (cfgA.tr[6]'h6) (cfgA.tr[13]'h13) outp (List.getElem?_eq_getElem h6) rfl
    (List.getElem?_eq_getElem h13) rfl rfl ?_ (by decide) (by intro m hm; cases hm; decide)
    (by decide) ?_ ?_
  · exact ⟨cfgA.tr[12]'h12, cfgA.tr[13]'h13, by decide, List.getElem?_eq_getElem h12,
      List.getElem?_eq_getElem h13, rfl, rfl, rfl, fun q x h1 h2 => by omega⟩
  · intro p a hp he ht hi
    exact (hall p a hp he ht hi).1
  · intro p a hp he ht hi
    exact (hall p a hp he ht hi).2

-- bits only get set: between `Add`'s effect and the end of A (no `Reload`/`Unload`)
example : ∃ m', cfgA.st = some m' ∧ BitsLe ⟨[24, 32], 3, 5, 1⟩ m' :=
  C20_all_bits_monotone.2.2.2.2 (prog T) (some msg) cfgA cfgA_reach
    [(0, 0, .add item)] [(1, 0, .matchTx tx), (1, 1, .query item), (1, 2, .queryOutPoint [9] 0)]
    ⟨[24, 32], 3, 5, 1⟩ (by decide) (by decide) (by decide)

-- swapping the two adjacent query calls of A: both still answer `true`
example : (seqRun Model.BloomAll.step (some msg)
      [(0, 0, .add item), (1, 0, .matchTx tx), (1, 2, .queryOutPoint [9] 0), (1, 1, .query item)]).2
    = [(0, 0, .unit), (1, 0, .bool true), (1, 2, .bool true), (1, 1, .bool true)] := by decide
example : isQuery (.query item) = true ∧ isQuery (.queryOutPoint [9] 0) = true ∧
    isQuery (.matchTx tx) = false ∧ isQuery (.add item) = false ∧
    isQuery .msgFilterLoad = true ∧ isQuery .isLoaded = true := by decide
-- `MsgFilterLoad` returns the message as it is at its place of the lock order
example : answers (some msg) [.msgFilterLoad, .add item, .msgFilterLoad, .unload, .msgFilterLoad,
      .isLoaded, .matchTx tx, .reload msg, .isLoaded]
    = [.msg (some msg), .unit, .msg (some ⟨[24, 32], 3, 5, 1⟩), .unit, .msg none, .bool false,
       .bool false, .unit, .bool true] := by decide

-- two threads that only query (`C20_all_queries_no_interference`), no lock at all
example : ∀ th ∈ [[(⟨[.access, .ret], Op.query item⟩ : Invoc Op)], [⟨[.access, .ret], Op.msgFilterLoad⟩]],
    ∀ i ∈ th, isQuery i.op = true := by decide
example : ((runSched Model.BloomAll.step
      (init [[⟨[.access, .ret], Op.query item⟩], [⟨[.access, .ret], Op.msgFilterLoad⟩]] (some msg))
      [1, 0, 0, 1]).map fun c => (c.st, c.res)) =
    some (some msg, [(1, 0, .msg (some msg)), (0, 0, .bool false)]) := by decide

end ExamplesAll

end Bch.Props.C20
