import Bch.Proofs.Bech32
import Bch.Proofs.Bech32ConvertBits
/-!
C07 (part b): bech32 — checksum, `Encode`/`Decode`, and the `ConvertBits` regrouping routine of
`Bch.Model.Bech32`. Byte strings and Go strings are both `Bytes = List UInt8`; `49` is `'1'`.

All proofs live in `Bch/Proofs/Bech32.lean` and `Bch/Proofs/Bech32ConvertBits.lean`.
Concrete `example`s are *tests* (BIP173 vectors evaluated on the model) and non-vacuity witnesses
for the hypotheses of the theorems.
-/
namespace Bch.Props.C07
open Bch Bch.Model.Bech32

/-! ## checksum -/

/-- GF(2)-linearity of one checksum step (with zero input symbol), for all naturals. -/
theorem C07_bech32_polymod_step_linear (a b : Nat) :
    polymodStep (a ^^^ b) 0 = polymodStep a 0 ^^^ polymodStep b 0 :=
  Bch.Proofs.Bech32.polymodStep_xor a b

/-- The classic argument: append six zero symbols, take the remainder xor 1, and write its six
5-bit digits (most significant first) instead of the zeros: the remainder becomes 1. -/
theorem C07_bech32_polymod_append_checksum (values : List Nat) :
    polymod (values ++ (List.range 6).map
      (fun i => ((polymod (values ++ [0, 0, 0, 0, 0, 0]) ^^^ 1) >>> (5 * (5 - i))) &&& 31)) = 1 :=
  Bch.Proofs.Bech32.polymod_append_checksum values

/-- `verifyChecksum` accepts what `checksum` creates — for every hrp and every data (the 5-bit
restriction on `data` asked for in the design is not even needed). -/
theorem C07_bech32_verify_create (hrp data : Bytes) :
    verifyChecksum hrp (data ++ checksum hrp data) = true :=
  Bch.Proofs.Bech32.verify_create hrp data

/-- The checksum is unique: six 5-bit symbols that make `hrp, data ++ cs` verify are exactly
`checksum hrp data`. -/
theorem C07_bech32_checksum_unique (hrp data cs : Bytes) (hlen : cs.length = 6)
    (h5 : ∀ c ∈ cs, c.toNat < 32) (h : verifyChecksum hrp (data ++ cs) = true) :
    cs = checksum hrp data :=
  Bch.Proofs.Bech32.verify_unique hrp data cs hlen h5 h

/-- test (non-vacuity of `C07_bech32_checksum_unique`): the BIP173 checksum "2uel5l" of hrp "a" -/
example : ([10, 28, 25, 31, 20, 31] : Bytes).length = 6 ∧
    (∀ c ∈ ([10, 28, 25, 31, 20, 31] : Bytes), c.toNat < 32) ∧
    verifyChecksum (Bytes.ofString "a") ([] ++ [10, 28, 25, 31, 20, 31]) = true ∧
    checksum (Bytes.ofString "a") [] = [10, 28, 25, 31, 20, 31] := by decide +kernel

/-- the checksum consists of six 5-bit symbols -/
theorem C07_bech32_checksum_shape (hrp data : Bytes) :
    (checksum hrp data).length = 6 ∧ ∀ c ∈ checksum hrp data, c.toNat < 32 :=
  ⟨Bch.Proofs.Bech32.checksum_length hrp data, Bch.Proofs.Bech32.checksum_lt hrp data⟩

/-! ## charset -/

/-- The charset has 32 distinct printable symbols, none upper-case and none equal to the
separator `'1'`; `toBytes` inverts `toChars` on 5-bit data. -/
theorem C07_bech32_charset :
    charset.length = 32 ∧
    (∀ c ∈ charset, c ≠ 49 ∧ (33 ≤ c ∧ c ≤ 126) ∧ ¬(65 ≤ c ∧ c ≤ 90)) ∧
    (∀ i, i < 32 → charset.idxOf (charset.getD i 0) = i) ∧
    (∀ d : Bytes, (∀ b ∈ d, b.toNat < 32) → ∃ cs, toChars d = some cs ∧ toBytes cs = some d) :=
  ⟨Bch.Proofs.Bech32.charset_length, Bch.Proofs.Bech32.charset_props,
    Bch.Proofs.Bech32.charset_idxOf_getD,
    fun d h => ⟨_, Bch.Proofs.Bech32.toChars_eq d h, Bch.Proofs.Bech32.toBytes_map_charAt d h⟩⟩

/-! ## Encode / Decode -/

/-- `Encode` fails exactly when some data symbol is not a 5-bit value. -/
theorem C07_bech32_encode_some_iff (hrp data : Bytes) :
    (∃ s, Encode hrp data = some s) ↔ ∀ d ∈ data, d.toNat < 32 :=
  Bch.Proofs.Bech32.Encode_some_iff hrp data

/-- **Round trip.** For a non-empty lower-case hrp of printable characters (33..126, no
`'A'..'Z'`), 5-bit data, and total length within the 90-character limit: `Encode` succeeds,
`Decode` of the result returns exactly `(hrp, data)`, and so does `Decode` of the upper-cased
string. The hrp may contain `'1'` characters. -/
theorem C07_bech32_roundtrip (hrp data : Bytes) (hne : 1 ≤ hrp.length)
    (hhrp : ∀ c ∈ hrp, (33 ≤ c ∧ c ≤ 126) ∧ ¬(65 ≤ c ∧ c ≤ 90))
    (hd : ∀ d ∈ data, d.toNat < 32)
    (hlen : hrp.length + 1 + data.length + 6 ≤ 90) :
    ∃ s, Encode hrp data = some s ∧ Decode s = .ok (hrp, data) ∧
      Decode (s.map toUpper) = .ok (hrp, data) :=
  Bch.Proofs.Bech32.roundtrip hrp data hne hhrp hd hlen

/-- test (non-vacuity of `C07_bech32_roundtrip`): hrp "a1b" (contains the separator character),
data [0, 31, 7] -/
example : 1 ≤ (Bytes.ofString "a1b").length ∧
    (∀ c ∈ Bytes.ofString "a1b", (33 ≤ c ∧ c ≤ 126) ∧ ¬(65 ≤ c ∧ c ≤ 90)) ∧
    (∀ d ∈ ([0, 31, 7] : Bytes), d.toNat < 32) ∧
    (Bytes.ofString "a1b").length + 1 + ([0, 31, 7] : Bytes).length + 6 ≤ 90 := by decide +kernel

/-- **Canonical form.** Whatever `Decode` accepts re-encodes to the lower-cased input: two
different lower-case strings never decode to the same `(hrp, data)`. -/
theorem C07_bech32_canonical (s hrp data : Bytes) (h : Decode s = .ok (hrp, data)) :
    Encode hrp data = some (s.map toLower) :=
  Bch.Proofs.Bech32.canonical s hrp data h

/-- test (non-vacuity of `C07_bech32_canonical`) -/
example : Decode (Bytes.ofString "A12UEL5L") = .ok (Bytes.ofString "a", []) ∧
    Encode (Bytes.ofString "a") [] = some (Bytes.ofString "a12uel5l") := by decide +kernel

/-- **Exact acceptance condition.** `Decode s` returns `(hrp, data)` iff the length is 8..90, all
characters are in 33..126, the string is not mixed-case, the hrp is non-empty and `s` lower-cased
is the encoding of `(hrp, data)`. -/
theorem C07_bech32_decode_iff (s hrp data : Bytes) :
    Decode s = .ok (hrp, data) ↔
      (8 ≤ s.length ∧ s.length ≤ 90) ∧ (∀ c ∈ s, 33 ≤ c ∧ c ≤ 126) ∧
      ((∀ c ∈ s, ¬(65 ≤ c ∧ c ≤ 90)) ∨ (∀ c ∈ s, ¬(97 ≤ c ∧ c ≤ 122))) ∧ 1 ≤ hrp.length ∧
      Encode hrp data = some (s.map toLower) :=
  Bch.Proofs.Bech32.decode_iff s hrp data

/-! ### rejections — each theorem assumes that all *earlier* checks of `Decode` pass -/

/-- 1st check: length < 8 or > 90 ⇒ `length` error, whatever the content. -/
theorem C07_bech32_rejects_length (s : Bytes) (h : s.length < 8 ∨ s.length > 90) :
    Decode s = .error .length :=
  Bch.Proofs.Bech32.rejects_length s h

/-- 2nd check: some character outside 33..126 ⇒ `char` error. -/
theorem C07_bech32_rejects_char (s : Bytes) (hlen : 8 ≤ s.length ∧ s.length ≤ 90)
    (h : ∃ c ∈ s, c < 33 ∨ c > 126) : Decode s = .error .char :=
  Bch.Proofs.Bech32.rejects_char s hlen h

/-- 3rd check: both an upper-case and a lower-case letter ⇒ `mixedCase` error. -/
theorem C07_bech32_rejects_mixed_case (s : Bytes) (hlen : 8 ≤ s.length ∧ s.length ≤ 90)
    (hrange : ∀ c ∈ s, 33 ≤ c ∧ c ≤ 126)
    (hu : ∃ c ∈ s, 65 ≤ c ∧ c ≤ 90) (hl : ∃ c ∈ s, 97 ≤ c ∧ c ≤ 122) :
    Decode s = .error .mixedCase :=
  Bch.Proofs.Bech32.rejects_mixed s hlen hrange hu hl

/-- 4th check (a): no `'1'` at all ⇒ `sep` error. -/
theorem C07_bech32_rejects_no_separator (s : Bytes) (hlen : 8 ≤ s.length ∧ s.length ≤ 90)
    (hrange : ∀ c ∈ s, 33 ≤ c ∧ c ≤ 126)
    (hcase : (∀ c ∈ s, ¬(65 ≤ c ∧ c ≤ 90)) ∨ (∀ c ∈ s, ¬(97 ≤ c ∧ c ≤ 122)))
    (h : (49 : UInt8) ∉ s) : Decode s = .error .sep :=
  Bch.Proofs.Bech32.rejects_sep_missing s hlen hrange hcase h

/-- 4th check (b): the last `'1'` is at index 0 (empty hrp) or fewer than 6 characters follow
it ⇒ `sep` error. -/
theorem C07_bech32_rejects_separator_position (pre post : Bytes)
    (hlen : 8 ≤ (pre ++ 49 :: post).length ∧ (pre ++ 49 :: post).length ≤ 90)
    (hrange : ∀ c ∈ pre ++ 49 :: post, 33 ≤ c ∧ c ≤ 126)
    (hcase : (∀ c ∈ pre ++ 49 :: post, ¬(65 ≤ c ∧ c ≤ 90)) ∨
      (∀ c ∈ pre ++ 49 :: post, ¬(97 ≤ c ∧ c ≤ 122)))
    (hpost : (49 : UInt8) ∉ post) (h : pre = [] ∨ post.length < 6) :
    Decode (pre ++ 49 :: post) = .error .sep :=
  Bch.Proofs.Bech32.rejects_sep_position pre post hlen hrange hcase hpost h

/-- 5th check: a character after the last `'1'` whose lower-case form is not in the charset ⇒
`charset` error. -/
theorem C07_bech32_rejects_charset (pre post : Bytes)
    (hlen : 8 ≤ (pre ++ 49 :: post).length ∧ (pre ++ 49 :: post).length ≤ 90)
    (hrange : ∀ c ∈ pre ++ 49 :: post, 33 ≤ c ∧ c ≤ 126)
    (hcase : (∀ c ∈ pre ++ 49 :: post, ¬(65 ≤ c ∧ c ≤ 90)) ∨
      (∀ c ∈ pre ++ 49 :: post, ¬(97 ≤ c ∧ c ≤ 122)))
    (hpost : (49 : UInt8) ∉ post) (hpre : pre ≠ []) (hplen : 6 ≤ post.length)
    (h : ∃ c ∈ post, toLower c ∉ charset) :
    Decode (pre ++ 49 :: post) = .error .charset :=
  Bch.Proofs.Bech32.rejects_charset pre post hlen hrange hcase hpost hpre hplen h

/-- 6th check: the data part is over the charset but the checksum does not verify ⇒ `checksum`
error. -/
theorem C07_bech32_rejects_checksum (pre post decoded : Bytes)
    (hlen : 8 ≤ (pre ++ 49 :: post).length ∧ (pre ++ 49 :: post).length ≤ 90)
    (hrange : ∀ c ∈ pre ++ 49 :: post, 33 ≤ c ∧ c ≤ 126)
    (hcase : (∀ c ∈ pre ++ 49 :: post, ¬(65 ≤ c ∧ c ≤ 90)) ∨
      (∀ c ∈ pre ++ 49 :: post, ¬(97 ≤ c ∧ c ≤ 122)))
    (hpost : (49 : UInt8) ∉ post) (hpre : pre ≠ []) (hplen : 6 ≤ post.length)
    (hb : toBytes (post.map toLower) = some decoded)
    (h : verifyChecksum (pre.map toLower) decoded = false) :
    Decode (pre ++ 49 :: post) = .error .checksum :=
  Bch.Proofs.Bech32.rejects_checksum pre post decoded hlen hrange hcase hpost hpre hplen hb h

/-- All rejections together (the conjunction of the seven theorems above). -/
theorem C07_bech32_rejects :
    (∀ s : Bytes, (s.length < 8 ∨ s.length > 90) → Decode s = .error .length) ∧
    (∀ s : Bytes, (8 ≤ s.length ∧ s.length ≤ 90) → (∃ c ∈ s, c < 33 ∨ c > 126) →
      Decode s = .error .char) ∧
    (∀ s : Bytes, (8 ≤ s.length ∧ s.length ≤ 90) → (∀ c ∈ s, 33 ≤ c ∧ c ≤ 126) →
      (∃ c ∈ s, 65 ≤ c ∧ c ≤ 90) → (∃ c ∈ s, 97 ≤ c ∧ c ≤ 122) →
      Decode s = .error .mixedCase) ∧
    (∀ s : Bytes, (8 ≤ s.length ∧ s.length ≤ 90) → (∀ c ∈ s, 33 ≤ c ∧ c ≤ 126) →
      ((∀ c ∈ s, ¬(65 ≤ c ∧ c ≤ 90)) ∨ (∀ c ∈ s, ¬(97 ≤ c ∧ c ≤ 122))) →
      ((49 : UInt8) ∉ s ∨
        ∃ pre post, s = pre ++ 49 :: post ∧ (49 : UInt8) ∉ post ∧
          (pre = [] ∨ post.length < 6)) →
      Decode s = .error .sep) ∧
    (∀ pre post : Bytes,
      (8 ≤ (pre ++ 49 :: post).length ∧ (pre ++ 49 :: post).length ≤ 90) →
      (∀ c ∈ pre ++ 49 :: post, 33 ≤ c ∧ c ≤ 126) →
      ((∀ c ∈ pre ++ 49 :: post, ¬(65 ≤ c ∧ c ≤ 90)) ∨
        (∀ c ∈ pre ++ 49 :: post, ¬(97 ≤ c ∧ c ≤ 122))) →
      (49 : UInt8) ∉ post → pre ≠ [] → 6 ≤ post.length →
      ((∃ c ∈ post, toLower c ∉ charset) → Decode (pre ++ 49 :: post) = .error .charset) ∧
      (∀ decoded, toBytes (post.map toLower) = some decoded →
        verifyChecksum (pre.map toLower) decoded = false →
        Decode (pre ++ 49 :: post) = .error .checksum)) := by
  refine ⟨C07_bech32_rejects_length, C07_bech32_rejects_char, C07_bech32_rejects_mixed_case,
    ?_, ?_⟩
  · intro s hlen hrange hcase h
    rcases h with h | ⟨pre, post, rfl, hpost, h⟩
    · exact C07_bech32_rejects_no_separator s hlen hrange hcase h
    · exact C07_bech32_rejects_separator_position pre post hlen hrange hcase hpost h
  · intro pre post hlen hrange hcase hpost hpre hplen
    exact ⟨C07_bech32_rejects_charset pre post hlen hrange hcase hpost hpre hplen,
      fun decoded hb h =>
        C07_bech32_rejects_checksum pre post decoded hlen hrange hcase hpost hpre hplen hb h⟩

/-! ### tests: BIP173 vectors evaluated on the model; hypotheses of the rejection theorems -/

/-- test: BIP173 valid vectors -/
example : Decode (Bytes.ofString "A12UEL5L") = .ok (Bytes.ofString "a", []) := by decide +kernel
example : Decode (Bytes.ofString "a12uel5l") = .ok (Bytes.ofString "a", []) := by decide +kernel
example : Decode (Bytes.ofString "abcdef1qpzry9x8gf2tvdw0s3jn54khce6mua7lmqqqxw") =
    .ok (Bytes.ofString "abcdef", (List.range 32).map UInt8.ofNat) := by decide +kernel
example : Decode (Bytes.ofString "?1ezyfcl") = .ok (Bytes.ofString "?", []) := by decide +kernel
example : Encode (Bytes.ofString "abcdef") ((List.range 32).map UInt8.ofNat) =
    some (Bytes.ofString "abcdef1qpzry9x8gf2tvdw0s3jn54khce6mua7lmqqqxw") := by decide +kernel
/-- test: BIP173 valid vector of length 90 whose hrp is "1" (82 data symbols, all zero) -/
example : (Decode (Bytes.ofString
    "11qqqqqqqqqqqqqqqqqqqqqqqqqqqqqqqqqqqqqqqqqqqqqqqqqqqqqqqqqqqqqqqqqqqqqqqqqqqqqqqqqqc8247j")).toOption
      = some (Bytes.ofString "1", List.replicate 82 0) := by decide +kernel
/-- test: BIP173 invalid vectors, in the order of the checks -/
example : Decode (Bytes.ofString "10a06t8") = .error .length := by decide +kernel
example : Decode (Bytes.ofString
    "an84characterslonghumanreadablepartthatcontainsthenumber1andtheexcludedcharactersbio1569pvx")
      = .error .length := by decide +kernel
example : Decode (0x20 :: Bytes.ofString "1nwldj5") = .error .char := by decide +kernel
example : Decode (0x7f :: Bytes.ofString "1axkwrx") = .error .char := by decide +kernel
example : Decode (Bytes.ofString "de1lg7wt" ++ [0xff]) = .error .char := by decide +kernel
example : Decode (Bytes.ofString "A12UEl5L") = .error .mixedCase := by decide +kernel
example : Decode (Bytes.ofString "pzry9x0s0muk") = .error .sep := by decide +kernel
example : Decode (Bytes.ofString "1pzry9x0s0muk") = .error .sep := by decide +kernel
example : Decode (Bytes.ofString "li1dgmt3") = .error .sep := by decide +kernel
example : Decode (Bytes.ofString "x1b4n0q5v") = .error .charset := by decide +kernel
example : Decode (Bytes.ofString "A1G7SGD8") = .error .checksum := by decide +kernel

/-- test (non-vacuity of `C07_bech32_rejects_char`, `_mixed_case`) -/
example : (8 ≤ (0x20 :: Bytes.ofString "1nwldj5").length ∧
      (0x20 :: Bytes.ofString "1nwldj5").length ≤ 90) ∧
    (∃ c ∈ 0x20 :: Bytes.ofString "1nwldj5", c < 33 ∨ c > 126) := by decide +kernel
example : (∀ c ∈ Bytes.ofString "A12UEl5L", 33 ≤ c ∧ c ≤ 126) ∧
    (∃ c ∈ Bytes.ofString "A12UEl5L", 65 ≤ c ∧ c ≤ 90) ∧
    (∃ c ∈ Bytes.ofString "A12UEl5L", 97 ≤ c ∧ c ≤ 122) := by decide +kernel
/-- test (non-vacuity of `C07_bech32_rejects_no_separator`) -/
example : (∀ c ∈ Bytes.ofString "pzry9x0s0muk", 33 ≤ c ∧ c ≤ 126) ∧
    (∀ c ∈ Bytes.ofString "pzry9x0s0muk", ¬(65 ≤ c ∧ c ≤ 90)) ∧
    (49 : UInt8) ∉ Bytes.ofString "pzry9x0s0muk" := by decide +kernel
/-- test (non-vacuity of `C07_bech32_rejects_separator_position`): "1pzry9x0s0muk" (empty hrp)
and "li1dgmt3" (5 characters after the separator) -/
example : Bytes.ofString "1pzry9x0s0muk" = [] ++ 49 :: Bytes.ofString "pzry9x0s0muk" ∧
    Bytes.ofString "li1dgmt3" = Bytes.ofString "li" ++ 49 :: Bytes.ofString "dgmt3" ∧
    (49 : UInt8) ∉ Bytes.ofString "dgmt3" ∧ (Bytes.ofString "dgmt3").length < 6 ∧
    (∀ c ∈ Bytes.ofString "li1dgmt3", (33 ≤ c ∧ c ≤ 126) ∧ ¬(65 ≤ c ∧ c ≤ 90)) := by
  decide +kernel
/-- test (non-vacuity of `C07_bech32_rejects_charset`): "x1b4n0q5v", 'b' is not in the charset -/
example : Bytes.ofString "x1b4n0q5v" = Bytes.ofString "x" ++ 49 :: Bytes.ofString "b4n0q5v" ∧
    (∀ c ∈ Bytes.ofString "x1b4n0q5v", (33 ≤ c ∧ c ≤ 126) ∧ ¬(65 ≤ c ∧ c ≤ 90)) ∧
    (49 : UInt8) ∉ Bytes.ofString "b4n0q5v" ∧ Bytes.ofString "x" ≠ [] ∧
    6 ≤ (Bytes.ofString "b4n0q5v").length ∧
    (∃ c ∈ Bytes.ofString "b4n0q5v", toLower c ∉ charset) := by decide +kernel
/-- test (non-vacuity of `C07_bech32_rejects_checksum`): "A1G7SGD8" (upper-case, so the second
disjunct of the case hypothesis is the one that holds) -/
example : Bytes.ofString "A1G7SGD8" = Bytes.ofString "A" ++ 49 :: Bytes.ofString "G7SGD8" ∧
    (∀ c ∈ Bytes.ofString "A1G7SGD8", (33 ≤ c ∧ c ≤ 126) ∧ ¬(97 ≤ c ∧ c ≤ 122)) ∧
    (49 : UInt8) ∉ Bytes.ofString "G7SGD8" ∧ Bytes.ofString "A" ≠ [] ∧
    6 ≤ (Bytes.ofString "G7SGD8").length ∧
    toBytes ((Bytes.ofString "G7SGD8").map toLower) = some [8, 30, 16, 8, 13, 7] ∧
    verifyChecksum ((Bytes.ofString "A").map toLower) [8, 30, 16, 8, 13, 7] = false := by
  decide +kernel

/-! ## ConvertBits

`Bch.Proofs.Bech32CB.bits n x` is the MSB-first list of the low `n` bits of `x`, and
`Bch.Proofs.Bech32CB.flatB n l` is the concatenation of the `n`-bit views of the bytes of `l`. -/

/-- Invalid group widths (outside 1..8 on either side) are rejected with the `groups` error,
whatever the data and padding flag. -/
theorem C07_convertbits_widths : ∀ (data : Bytes) (fromBits toBits : Nat) (pad : Bool),
    (fromBits < 1 ∨ fromBits > 8 ∨ toBits < 1 ∨ toBits > 8) →
    ConvertBits data fromBits toBits pad = .error .groups :=
  Bch.Proofs.Bech32CB.convertbits_widths

/-- test: the width guard fires (0 and 9 are invalid widths) -/
example : ConvertBits [1, 2] 0 5 true = .error .groups := by decide
/-- test: the width guard fires (0 and 9 are invalid widths) -/
example : ConvertBits [1, 2] 8 9 false = .error .groups := by decide

/-- General specification for valid widths.  The state `st` reached by the outer loop of
`ConvertBits` holds exactly the input bit string (each input byte contributes its low `fromBits`
bits, higher bits are shifted out), split into complete `toBits`-bit groups `st.out` plus
`st.filled < toBits` pending bits in `st.nextByte`; and the result of `ConvertBits` is computed
from that state by the padding step and the final "incomplete group" check. -/
theorem C07_convertbits_spec : ∀ (data : Bytes) (fromBits toBits : Nat) (pad : Bool),
    1 ≤ fromBits → fromBits ≤ 8 → 1 ≤ toBits → toBits ≤ 8 →
    ∃ st : CB,
      Bch.Proofs.Bech32CB.flatB toBits st.out
          ++ Bch.Proofs.Bech32CB.bits st.filled st.nextByte.toNat
        = data.flatMap (fun b => Bch.Proofs.Bech32CB.bits fromBits (b.toNat % 2^fromBits)) ∧
      st.filled < toBits ∧ st.nextByte.toNat < 2^st.filled ∧ (∀ x ∈ st.out, x.toNat < 2^toBits) ∧
      toBits * st.out.length + st.filled = fromBits * data.length ∧
      ConvertBits data fromBits toBits pad =
        (let st' : CB := if pad = true ∧ st.filled > 0 then
            ⟨st.out ++ [st.nextByte <<< UInt8.ofNat (toBits - st.filled)], 0, 0⟩ else st
         if st'.filled > 0 ∧ (st'.filled > 4 ∨ st'.nextByte ≠ 0) then .error .incomplete
         else .ok st'.out) :=
  Bch.Proofs.Bech32CB.convertbits_spec

/-- test: the hypotheses of `C07_convertbits_spec` are satisfiable (5 → 8, 8 → 5) -/
example : 1 ≤ 5 ∧ 5 ≤ 8 ∧ 1 ≤ 8 ∧ 8 ≤ 8 := by decide

/-- With padding, conversion between any two valid widths never fails; every output group is a
`toBits`-bit value and the output bit string is the input bit string followed by fewer than
`toBits` zero bits. -/
theorem C07_convertbits_pad_spec : ∀ (fromBits toBits : Nat),
    1 ≤ fromBits → fromBits ≤ 8 → 1 ≤ toBits → toBits ≤ 8 → ∀ data : Bytes,
    ∃ v, ConvertBits data fromBits toBits true = .ok v ∧ (∀ x ∈ v, x.toNat < 2^toBits) ∧
      ∃ p, p < toBits ∧ Bch.Proofs.Bech32CB.flatB toBits v
        = data.flatMap (fun b => Bch.Proofs.Bech32CB.bits fromBits (b.toNat % 2^fromBits))
          ++ List.replicate p false :=
  Bch.Proofs.Bech32CB.convert_pad_spec

/-- test: padded 8 → 5 conversion of one byte: 11111111 → 11111 111(00) -/
example : ConvertBits [0xff] 8 5 true = .ok [31, 28] := by decide
/-- test: padded 3 → 7 conversion; the high bits of the inputs (9 = 0b1001 → 001) are dropped -/
example : ConvertBits [9, 7] 3 7 true = .ok [0b0011110] := by decide

/-- 8 → 5 with padding always succeeds, yields 5-bit groups, and converting those back 5 → 8
without padding returns the original bytes. -/
theorem C07_convertbits_8_5_roundtrip : ∀ bs : Bytes,
    ∃ v, ConvertBits bs 8 5 true = .ok v ∧ (∀ x ∈ v, x.toNat < 32) ∧
      ConvertBits v 5 8 false = .ok bs :=
  Bch.Proofs.Bech32CB.convertbits_8_5_roundtrip

/-- test: round trip of a concrete value -/
example : ConvertBits [0xff] 8 5 true = .ok [31, 28] ∧ ConvertBits [31, 28] 5 8 false = .ok [0xff] := by
  decide
/-- test: round trip of a longer concrete value (5 bytes = 40 bits → 8 groups, no padding bits) -/
example : ConvertBits [0xde, 0xad, 0xbe, 0xef, 0x01] 8 5 true = .ok [27, 26, 22, 27, 29, 27, 24, 1] ∧
    ConvertBits [27, 26, 22, 27, 29, 27, 24, 1] 5 8 false = .ok [0xde, 0xad, 0xbe, 0xef, 0x01] := by
  decide

/-- Canonicity: if a list of 5-bit groups is accepted by the strict 5 → 8 conversion, then
re-encoding the resulting bytes 8 → 5 with padding gives back exactly the same groups (so two
different 5-bit strings never decode to the same bytes). -/
theorem C07_convertbits_5_8_canonical : ∀ v bs : Bytes, (∀ x ∈ v, x.toNat < 32) →
    ConvertBits v 5 8 false = .ok bs → ConvertBits bs 8 5 true = .ok v :=
  Bch.Proofs.Bech32CB.convertbits_5_8_canonical

/-- test: the hypotheses of `C07_convertbits_5_8_canonical` hold for `v = [31, 28]`, `bs = [0xff]` -/
example : (∀ x ∈ ([31, 28] : Bytes), x.toNat < 32) ∧ ConvertBits [31, 28] 5 8 false = .ok [0xff] := by
  decide
/-- test: the 5-bit hypothesis matters: `[63, 28]` (63 has a bit above the low five) decodes to
the same byte but is not what re-encoding produces -/
example : ConvertBits [63, 28] 5 8 false = .ok [0xff] ∧ ConvertBits [0xff] 8 5 true ≠ .ok [63, 28] := by
  decide

/-- Strict 5 → 8 conversion rejects inputs that leave more than 4 padding bits (i.e. a whole
superfluous 5-bit group).  No assumption on the input bytes is needed. -/
theorem C07_convertbits_rejects_padding_overlong : ∀ v : Bytes, (5 * v.length) % 8 > 4 →
    ConvertBits v 5 8 false = .error .incomplete :=
  Bch.Proofs.Bech32CB.convertbits_rejects_padding_overlong

/-- test: 3 groups = 15 bits = 1 byte + 7 leftover bits: rejected although the padding is zero -/
example : (5 * ([0, 0, 0] : Bytes).length) % 8 > 4 ∧
    ConvertBits [0, 0, 0] 5 8 false = .error .incomplete := by decide
/-- test: 1 group = 5 leftover bits: rejected -/
example : ConvertBits [0] 5 8 false = .error .incomplete := by decide

/-- Strict 5 → 8 conversion rejects inputs whose `r` padding bits (`1 ≤ r ≤ 4`, the low `r` bits
of the last group) are not all zero.  No assumption on the input bytes is needed (bits above the
low five of each input byte are ignored by the routine). -/
theorem C07_convertbits_rejects_padding_nonzero : ∀ (init : Bytes) (last : UInt8) (r : Nat),
    r = (5 * (init.length + 1)) % 8 → 0 < r → r ≤ 4 → last.toNat % 2^r ≠ 0 →
    ConvertBits (init ++ [last]) 5 8 false = .error .incomplete :=
  Bch.Proofs.Bech32CB.convertbits_rejects_padding_nonzero

/-- test: `[31, 29]`: r = 2 padding bits, 29 % 4 = 1 ≠ 0: rejected -/
example : (2 = (5 * (([31] : Bytes).length + 1)) % 8) ∧ (29 : UInt8).toNat % 2^2 ≠ 0 ∧
    ConvertBits ([31] ++ [29]) 5 8 false = .error .incomplete := by decide
/-- test: the same input with zero padding bits is accepted -/
example : ConvertBits [31, 28] 5 8 false = .ok [0xff] := by decide

/-- Exact acceptance condition of the strict 5 → 8 conversion: the number `r` of leftover bits is
at most 4 and (if there are any) the low `r` bits of the last group are zero.  Holds for arbitrary
input bytes, not only 5-bit ones. -/
theorem C07_convertbits_5_8_accepts_iff : ∀ v : Bytes,
    (∃ bs, ConvertBits v 5 8 false = .ok bs) ↔
      (let r := (5 * v.length) % 8
       r ≤ 4 ∧ (r = 0 ∨ ∃ init last, v = init ++ [last] ∧ last.toNat % 2^r = 0)) :=
  Bch.Proofs.Bech32CB.convertbits_5_8_accepts_iff

/-- test: both sides true (r = 0), both sides true (r = 2), both false (r = 7), both false (r = 2) -/
example : ConvertBits [1, 2, 3, 4, 5, 6, 7, 8] 5 8 false = .ok [0x08, 0x86, 0x42, 0x98, 0xe8] ∧
    ConvertBits [31, 28] 5 8 false = .ok [0xff] ∧
    ConvertBits [0, 0, 0] 5 8 false = .error .incomplete ∧
    ConvertBits [31, 29] 5 8 false = .error .incomplete := by decide

/-- Non-zero padding and over-long padding are both rejected by the strict 5 → 8 conversion
(conjunction of the two theorems above). -/
theorem C07_convertbits_rejects_padding :
    (∀ v : Bytes, (5 * v.length) % 8 > 4 → ConvertBits v 5 8 false = .error .incomplete) ∧
    (∀ (init : Bytes) (last : UInt8) (r : Nat), r = (5 * (init.length + 1)) % 8 → 0 < r → r ≤ 4 →
      last.toNat % 2^r ≠ 0 → ConvertBits (init ++ [last]) 5 8 false = .error .incomplete) :=
  ⟨C07_convertbits_rejects_padding_overlong, C07_convertbits_rejects_padding_nonzero⟩

end Bch.Props.C07
