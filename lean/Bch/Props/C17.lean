import Bch.Proofs.F64
import Bch.Proofs.Amount
/-
  Property C17 — amounts convert between BCH floats, satoshi integers and text without loss.

  Objects: `Bch.Prim.F64` (binary64 on bit patterns: `mul`, `div`, `ofInt`, `roundHalfAway` = Go `math.Round`,
  `truncToInt`, `pow10`, `formatF`) and `Bch.Model.Amount` (`NewAmount`, `ToUnit`, `ToBCH`, `Format`,
  `unitString`).  Specification vocabulary (defined in `Bch/Proofs/F64*.lean`):

  * `val : UInt64 → Option ℚ`   exact value `m·2^e` of a finite float (from `decode`), `none` for NaN/±Inf,
                                 `-0 ↦ 0`;
  * `IsRN q x`                   `x` is finite, no finite float is strictly closer to `q` than `val x`, if
                                 another float value is equally close the significand of `x` is even, and a
                                 non-zero `q` gives its sign to `x` (IEEE round-to-nearest-even);
  * `roundAway v : ℤ`            the integer nearest to `v`, ties away from zero
                                 (`roundAway_is_nearest_ties_away` below pins that down).

  All theorems are unconditional about the *model*; hypotheses are the stated ranges only.
-/
namespace Bch.Props.C17
open Bch.Prim.F64 Bch.Model.Amount Bch.Proofs.F64 Bch.Proofs.Amount

/-! ## 0. The specification vocabulary means what it says -/

/-- `val` is `decode` read as the rational `m·2^e`. -/
theorem val_decode (x : UInt64) :
    val x = (decode x).map (fun p => (p.1 : ℚ) * (2:ℚ) ^ p.2) := rfl

/-- `roundAway v` is an integer within `1/2` of `v`, and in a tie it is the one farther from zero. -/
theorem roundAway_is_nearest_ties_away (v : ℚ) :
    |v - roundAway v| ≤ 1/2 ∧ (|v - roundAway v| = 1/2 → |v| < |(roundAway v : ℚ)|) :=
  ⟨roundAway_near v, roundAway_tie v⟩

/-! ## 1. `float64(int64)` -/

/-- Integers of magnitude below `2^53` convert exactly. -/
theorem ofInt_exact (i : Int) (h : |i| < 2^53) : val (ofInt i) = some (i : ℚ) :=
  ofInt_exact_val i (by rw [Int.abs_eq_natAbs] at h; exact_mod_cast h)

example : |(-2100000000000000 : Int)| < 2^53 := by decide

/-- `float64(int64)` is correctly rounded for every integer that does not overflow. -/
theorem ofInt_isRN (i : Int) (hfin : isFinite (ofInt i) = true) : IsRN (i : ℚ) (ofInt i) :=
  Bch.Proofs.F64.ofInt_isRN i hfin

example : isFinite (ofInt 9007199254740993) = true := by decide +kernel

/-- The conversion is odd. -/
theorem ofInt_odd (i : Int) (h : i ≠ 0) : ofInt (-i) = neg (ofInt i) := ofInt_neg i h

/-! ## 5. The rounding routine and the arithmetic are correctly rounded (all ranges, incl. subnormals) -/

/-- **Core lemma.** `roundScaled sg M e sticky` with a finite result is the correctly rounded value of
`± qa`, where `qa` is the exact magnitude: `qa = M·2^e` if `sticky = false`, `M·2^e < qa < (M+1)·2^e`
if `sticky = true` (the documented precondition on `sticky` is `hstk`). -/
theorem roundScaled_isRN (sg : Bool) (M : Nat) (e : Int) (sticky : Bool) (hM : M ≠ 0) (qa : ℚ)
    (hq1 : (M:ℚ) * 2^e ≤ qa) (hq2 : qa < ((M:ℚ) + 1) * 2^e) (hst : sticky = true ↔ qa ≠ (M:ℚ) * 2^e)
    (hstk : sticky = true → (2^54 ≤ M ∨ e < -1074))
    (hfin : isFinite (roundScaled sg M e sticky) = true) :
    IsRN (if sg then -qa else qa) (roundScaled sg M e sticky) :=
  Bch.Proofs.F64.roundScaled_isRN sg M e sticky hM qa hq1 hq2 hst hstk hfin

example : isFinite (roundScaled false 3 (-1076) false) = true := by decide +kernel

/-- IEEE multiplication: a finite product of finite operands is the correctly rounded exact product. -/
theorem mul_isRN (a b : UInt64) (va vb : ℚ) (ha : val a = some va) (hb : val b = some vb)
    (hfin : isFinite (mul a b) = true) : IsRN (va * vb) (mul a b) :=
  mul_isRN_val a b va vb ha hb hfin

/-- … and the product is finite whenever the exact product is below `2^1023` in magnitude. -/
theorem mul_finite (a b : UInt64) (va vb : ℚ) (ha : val a = some va) (hb : val b = some vb)
    (hlt : |va * vb| < 2^1023) : isFinite (mul a b) = true :=
  mul_finite_val a b va vb ha hb hlt

/-- IEEE division by a non-zero finite divisor. -/
theorem div_isRN (a b : UInt64) (va vb : ℚ) (ha : val a = some va) (hb : val b = some vb)
    (hvb : vb ≠ 0) (hfin : isFinite (div a b) = true) : IsRN (va / vb) (div a b) :=
  div_isRN_val a b va vb ha hb hvb hfin

theorem div_finite (a b : UInt64) (va vb : ℚ) (ha : val a = some va) (hb : val b = some vb)
    (hvb : vb ≠ 0) (hlt : |va / vb| < 2^1023) : isFinite (div a b) = true :=
  div_finite_val a b va vb ha hb hvb hlt

-- non-vacuity: 0.1 * 3 and 0.1 / 3 are finite products/quotients of finite floats
example : isFinite 0x3fb999999999999a = true ∧ isFinite 0x4008000000000000 = true ∧
    isFinite (mul 0x3fb999999999999a 0x4008000000000000) = true ∧
    isFinite (div 0x3fb999999999999a 0x4008000000000000) = true := by decide +kernel

/-- Relative error `2^-53` of a multiplication in the normal range. -/
theorem mul_relerr (a b : UInt64) (va vb v : ℚ) (ha : val a = some va) (hb : val b = some vb)
    (hp : val (mul a b) = some v) (hnorm : (2:ℚ)^(-1022 : Int) ≤ |va * vb|) :
    |v - va * vb| ≤ |va * vb| / 2^53 := by
  obtain ⟨ha1, ha2⟩ := (val_eq_some_iff a va).mp ha
  obtain ⟨hb1, hb2⟩ := (val_eq_some_iff b vb).mp hb
  obtain ⟨hp1, hp2⟩ := (val_eq_some_iff _ v).mp hp
  rw [← ha2, ← hb2] at hnorm ⊢
  rw [← hp2]
  exact Bch.Proofs.F64.mul_relerr a b ha1 hb1 hp1 hnorm

/-! ## 4. `math.Round` and `NewAmount` is "nearest integer, ties away from zero" -/

/-- Go's `math.Round` on a finite float returns the float whose value is the nearest integer, ties away
from zero; truncating it to an integer is then exact; floats of magnitude `≥ 2^52` are returned
unchanged. -/
theorem roundHalfAway_spec (a : UInt64) (v : ℚ) (ha : val a = some v) :
    val (roundHalfAway a) = some (roundAway v : ℚ) ∧
    truncToInt (roundHalfAway a) = some (roundAway v) ∧
    ((2:ℚ)^52 ≤ |v| → roundHalfAway a = a) :=
  roundHalfAway_val a v ha

/-- `1e8` is exact. -/
theorem satoshiPerBitcoin_exact : val satoshiPerBitcoin = some (100000000 : ℚ) := val_sat

/-- **C17 nearest.** For finite `f` with value `vf`, let `p = f * 1e8` (one IEEE multiplication, i.e. the
correctly rounded value of `vf·10^8`).  If `p` is finite with `|p| < 2^62`, `NewAmount f` is the integer
nearest to `p`, ties away from zero. -/
theorem C17_newAmount_nearest (f : UInt64) (vf v : ℚ) (hf : val f = some vf)
    (hp : val (mul f satoshiPerBitcoin) = some v) (hr : |v| < 2^62) :
    IsRN (vf * 100000000) (mul f satoshiPerBitcoin) ∧ NewAmount f = some (roundAway v) := by
  obtain ⟨hf1, _⟩ := (val_eq_some_iff f vf).mp hf
  obtain ⟨hp1, hp2⟩ := (val_eq_some_iff _ v).mp hp
  refine ⟨mul_isRN_val f _ vf _ hf val_sat hp1, ?_⟩
  rw [← hp2] at hr ⊢
  exact newAmount_nearest f hf1 hp1 hr

-- non-vacuity: f = 1.0
example : ∃ vf v, val 0x3FF0000000000000 = some vf ∧
    val (mul 0x3FF0000000000000 satoshiPerBitcoin) = some v ∧ |v| < 2^62 := by
  refine ⟨1, 100000000, ?_, by rw [one_times_sat]; exact val_sat, by norm_num⟩
  have := val_of_checkNat 0x3FF0000000000000 1 (by decide +kernel)
  simpa using this

/-- **C17 nearest, all finite inputs** (covers the guard branches): with `p = f * 1e8`, the result is the
nearest integer to `p` (ties away) when `p` is finite and that integer fits an `int64`; in every other case
(overflow of the product to ±Inf, or an integer outside `int64`) it is `math.MinInt64`, the amd64 result of
an out-of-range float→int conversion. -/
theorem C17_newAmount_total (f : UInt64) (vf : ℚ) (hf : val f = some vf) :
    NewAmount f = some
      (match val (mul f satoshiPerBitcoin) with
       | some v => if -(2^63 : Int) ≤ roundAway v ∧ roundAway v < 2^63 then roundAway v else -(2^63 : Int)
       | none => -(2^63 : Int)) := by
  rw [newAmount_total f ((val_eq_some_iff f vf).mp hf).1, val_eq]
  by_cases h : isFinite (mul f satoshiPerBitcoin) = true
  · simp only [h, true_and, if_true]
  · simp [h]

-- the saturating branch is inhabited (a finite float of about 1e300 BCH)
example : isFinite 0x7E37E43C8800759C = true ∧ NewAmount 0x7E37E43C8800759C = some (-(2^63)) := by
  decide +kernel

/-- `MulF64 a f = round(float64(a) * f)`: nearest integer (ties away) to the single-rounded product. -/
theorem C17_mulF64_nearest (a : Int) (f : UInt64) (vf v : ℚ) (ha : |a| < 2^53) (hf : val f = some vf)
    (hp : val (mul (ofInt a) f) = some v) (hr : |v| < 2^62) :
    IsRN ((a:ℚ) * vf) (mul (ofInt a) f) ∧ MulF64 a f = roundAway v := by
  obtain ⟨hp1, hp2⟩ := (val_eq_some_iff _ v).mp hp
  have hx := ofInt_exact_val a (by rw [Int.abs_eq_natAbs] at ha; exact_mod_cast ha)
  refine ⟨mul_isRN_val _ f _ vf hx hf hp1, ?_⟩
  rw [← hp2] at hr ⊢
  exact mulF64_nearest a f hp1 hr

example : MulF64 100000000 0x3FB999999999999A = 10000000 := by decide +kernel  -- 1 BCH * 0.1

/-! ## 2. Rejection of NaN / ±Inf -/

theorem C17_newAmount_rejects (f : UInt64) (h : isNaN f = true ∨ isInf f = true) :
    NewAmount f = none := newAmount_rejects f h

theorem C17_newAmount_accepts (f : UInt64) (h1 : isNaN f = false) (h2 : isInf f = false) :
    NewAmount f ≠ none := by
  rw [newAmount_accepts f ⟨h1, h2⟩]; simp

example : isNaN nan = true ∧ isInf posInf = true ∧ isInf negInf = true ∧
    isNaN 0x3FF0000000000000 = false ∧ isInf 0x3FF0000000000000 = false := by decide

/-! ## 3. Odd symmetry -/

/-- **C17 odd.** Negating a finite input negates the amount, as long as `|f·1e8| < 2^62`
(beyond `2^63` both signs saturate to `math.MinInt64`, so the bound is needed). `-0` and `+0` both give 0. -/
theorem C17_newAmount_odd (f : UInt64) (vf v : ℚ) (hf : val f = some vf)
    (hp : val (mul f satoshiPerBitcoin) = some v) (hr : |v| < 2^62) :
    NewAmount (neg f) = (NewAmount f).map (fun x => -x) := by
  obtain ⟨hf1, _⟩ := (val_eq_some_iff f vf).mp hf
  obtain ⟨hp1, hp2⟩ := (val_eq_some_iff _ v).mp hp
  rw [← hp2] at hr
  exact newAmount_odd f hf1 hp1 hr

example : NewAmount (neg 0x3FF0000000000000) = some (-100000000) ∧
    NewAmount 0x8000000000000000 = some 0 := by decide +kernel

/-! ## 6. Monotonicity -/

/-- **C17 monotone.** `f < g` (IEEE comparison) implies `NewAmount f ≤ NewAmount g` for finite inputs in
range. -/
theorem C17_newAmount_mono (f g : UInt64) (vf vg v w : ℚ) (hf : val f = some vf) (hg : val g = some vg)
    (hlt : lt f g = true)
    (hpf : val (mul f satoshiPerBitcoin) = some v) (hrf : |v| < 2^62)
    (hpg : val (mul g satoshiPerBitcoin) = some w) (hrg : |w| < 2^62) :
    ∃ x y, NewAmount f = some x ∧ NewAmount g = some y ∧ x ≤ y := by
  obtain ⟨hf1, _⟩ := (val_eq_some_iff f vf).mp hf
  obtain ⟨hg1, _⟩ := (val_eq_some_iff g vg).mp hg
  obtain ⟨hp1, hp2⟩ := (val_eq_some_iff _ v).mp hpf
  obtain ⟨hq1, hq2⟩ := (val_eq_some_iff _ w).mp hpg
  rw [← hp2] at hrf
  rw [← hq2] at hrg
  exact newAmount_mono f g hf1 hg1 hlt hp1 hrf hq1 hrg

/-- the IEEE order on finite floats is the order of the values -/
theorem lt_val (a b : UInt64) (va vb : ℚ) (ha : val a = some va) (hb : val b = some vb)
    (h : lt a b = true) : va < vb := by
  rw [← ((val_eq_some_iff a va).mp ha).2, ← ((val_eq_some_iff b vb).mp hb).2]
  exact fval_lt_of_lt a b h

/-- correct rounding is monotone (the reason behind `C17_newAmount_mono`) -/
theorem IsRN_mono (q1 q2 : ℚ) (x1 x2 : UInt64) (v1 v2 : ℚ) (hq : q1 < q2)
    (h1 : IsRN q1 x1) (h2 : IsRN q2 x2) (hv1 : val x1 = some v1) (hv2 : val x2 = some v2) : v1 ≤ v2 := by
  rw [← ((val_eq_some_iff x1 v1).mp hv1).2, ← ((val_eq_some_iff x2 v2).mp hv2).2]
  exact isRN_mono hq h1 h2

-- non-vacuity: 4.999999999999999e-09 < 1.0, and the hypotheses of `C17_newAmount_mono` for 1.0 < 2.0
example : lt 0x3E35798EE2308C39 0x3FF0000000000000 = true := by decide +kernel
example : val 0x3FF0000000000000 = some ((1:ℕ):ℚ) ∧ val 0x4000000000000000 = some ((2:ℕ):ℚ) ∧
    lt 0x3FF0000000000000 0x4000000000000000 = true ∧
    val (mul 0x3FF0000000000000 satoshiPerBitcoin) = some ((100000000:ℕ):ℚ) ∧
    |(((100000000:ℕ):ℚ))| < 2^62 ∧
    val (mul 0x4000000000000000 satoshiPerBitcoin) = some ((200000000:ℕ):ℚ) ∧
    |(((200000000:ℕ):ℚ))| < 2^62 :=
  ⟨val_of_checkNat _ _ (by decide +kernel), val_of_checkNat _ _ (by decide +kernel), by decide +kernel,
   val_of_checkNat _ _ (by decide +kernel), by norm_num,
   val_of_checkNat _ _ (by decide +kernel), by norm_num⟩

/-! ## 7. Round trip -/

/-- **C17 round trip.** Every amount up to the 21-million-coin cap survives `ToBCH` followed by
`NewAmount` (two roundings: `a / 1e8`, then `· * 1e8`; total error `≤ |a|·(2^-52 + 2^-106) < 0.47`). -/
theorem C17_roundtrip (a : Int) (ha : |a| ≤ 2100000000000000) : NewAmount (ToBCH a) = some a :=
  roundtrip a (by rw [Int.abs_eq_natAbs] at ha; exact_mod_cast ha)

example : NewAmount (ToBCH 2100000000000000) = some 2100000000000000 ∧
    NewAmount (ToBCH (-1234567890123457)) = some (-1234567890123457) := by decide +kernel

/-! ## 8. Unit conversion -/

/-- `math.Pow10(k)` is exactly `10^k` for `0 ≤ k ≤ 22`. -/
theorem pow10_exact (k : Nat) (hk : k ≤ 22) : val (pow10 (k : Int)) = some ((10:ℚ)^k) :=
  Bch.Proofs.Amount.pow10_exact k hk

/-- **C17 toUnit.** For `|a| ≤ 2.1·10^15` and `-12 ≤ u ≤ 12`, `ToUnit a u` is the correctly rounded value of
`a / 10^(u+8)`: one rounding only (also for units below the satoshi, where the fixed code multiplies by the
exact `10^-(u+8)`). -/
theorem C17_toUnit (a u : Int) (ha : |a| ≤ 2100000000000000) (hu1 : -12 ≤ u) (hu2 : u ≤ 12) :
    IsRN ((a:ℚ) / (10:ℚ)^(u + 8)) (ToUnit a u) :=
  toUnit_isRN a u (by rw [Int.abs_eq_natAbs] at ha; omega) (by omega) (by omega)

/-- The same for the whole range in which both `float64(a)` and the power of ten are exact. -/
theorem C17_toUnit_wide (a u : Int) (ha : |a| < 2^53) (hu1 : -30 ≤ u) (hu2 : u ≤ 14) :
    IsRN ((a:ℚ) / (10:ℚ)^(u + 8)) (ToUnit a u) :=
  toUnit_isRN a u (by rw [Int.abs_eq_natAbs] at ha; exact_mod_cast ha) hu1 hu2

-- the historical witness: 1068211668854925 in unit 1e-11 BCH is now 1.068211668854925e18
example : ToUnit 1068211668854925 (-11) = 0x43ada619b4d60cce := by decide +kernel

/-! ## 9. Labels -/

theorem C17_unit_labels :
    unitString 6 = "MBCH" ∧ unitString 3 = "kBCH" ∧ unitString 0 = "BCH" ∧
    unitString (-3) = "mBCH" ∧ unitString (-6) = "μBCH" ∧ unitString (-8) = "Satoshi" ∧
    ∀ u : Int, u ≠ 6 → u ≠ 3 → u ≠ 0 → u ≠ -3 → u ≠ -6 → u ≠ -8 →
      unitString u = "1e" ++ toString u ++ " BCH" := by
  obtain ⟨h1, h2, h3, h4, h5, h6⟩ := unitString_named
  exact ⟨h1, h2, h3, h4, h5, h6, fun u a b c d e f => unitString_other u ⟨a, b, c, d, e, f⟩⟩

example : unitString 7 = "1e7 BCH" ∧ unitString (-11) = "1e-11 BCH" := by decide

/-- `Format` is the `FormatFloat` text of `ToUnit a u` with precision `-(u+8)`, a space, and the label. -/
theorem C17_format_suffix (a u : Int) :
    Format a u = formatF (ToUnit a u) (-(u + 8)) ++ " " ++ unitString u := format_eq a u

/-! ## 10. Text: proved fragment

  Intended full theorem (NOT proved here; `formatF` with negative precision is the shortest-round-trip
  digit search, whose correctness proof is out of reach in this round):

    for `|a| ≤ 2.1·10^15` and `-8 ≤ u ≤ 12`, `Format a u` is the exact decimal expansion of
    `a·10^-(u+8)` (no more than `u+8` fractional digits, trailing zeros trimmed) followed by
    `" " ++ unitString u`;
    for `u < -8` the text (fixed precision 0 … of `a·10^-(u+8)`) is exact only while
    `|a|·10^-(u+8) < 2^53` — beyond that the float nearest to the product is printed, which is a documented
    known finding, not a defect of the model.

  Proved: the precision-0 printer is exact on integer-valued floats, hence the base unit (`u = -8`,
  "Satoshi") prints exactly the integer for every `|a| < 2^53`.
-/

/-- `FormatFloat(x, 'f', 0, 64)` of a finite integer-valued float prints that integer. -/
theorem formatF_integer (x : UInt64) (z : ℤ) (hx : val x = some (z : ℚ)) :
    formatF x 0 = (if isNeg x then "-" else "") ++ toString z.natAbs := by
  obtain ⟨h1, h2⟩ := (val_eq_some_iff x z).mp hx
  exact formatF_int x h1 z h2

/-- Partial form of the text theorem: unit `Satoshi` only (`u = -8`); missing: all other units, see the
comment above. -/
theorem C17_format_partial (a : Int) (ha : |a| < 2^53) :
    Format a (-8) = toString a ++ " Satoshi" :=
  format_satoshi a (by rw [Int.abs_eq_natAbs] at ha; exact_mod_cast ha)

example : Format (-2100000000000000) (-8) = "-2100000000000000 Satoshi" := by decide +kernel

/-! ## 11. The two historical witnesses now behave -/

-- 4.999999999999999e-09 BCH is 0 satoshi (the old `+0.5`-and-truncate code returned 1)
example : NewAmount 0x3E35798EE2308C39 = some 0 := by decide +kernel
-- 45035996.27370497 BCH is 4503599627370497 satoshi (the old code returned …498)
example : NewAmount 0x4185798EE2308C3B = some 4503599627370497 := by decide +kernel
-- the products are the near-tie values the old code mishandled
example : mul 0x3E35798EE2308C39 satoshiPerBitcoin = 0x3FDFFFFFFFFFFFFF ∧
    mul 0x4185798EE2308C3B satoshiPerBitcoin = 0x4330000000000001 := by decide +kernel

end Bch.Props.C17
