namespace Bch.Props.C17
theorem placeholder : True := trivial
end Bch.Props.C17
