import Bch.Proofs.F64
import Bch.Proofs.Amount
import Bch.Proofs.F64Format
/-
  Property C17 — amounts convert between BCH floats, satoshi integers and text without loss.

  Objects: `Bch.Prim.F64` (binary64 on bit patterns: `mul`, `div`, `ofInt`, `roundHalfAway` = Go `math.Round`,
  `truncToInt`, `pow10`, `formatF`) and `Bch.Model.Amount` (`NewAmount`, `ToUnit`, `ToBCH`, `Format`,
  `unitString`).  Specification vocabulary (defined in `Bch/Proofs/F64*.lean`):

  * `val : UInt64 → Option ℚ`   exact value `m·2^e` of a finite float (from `decode`), `none` for NaN/±Inf,
                                 `-0 ↦ 0`;
  * `IsRN q x`                   `x` is finite, no finite float is strictly closer to `q` than `val x`, if
                                 another float value is equally close the significand of `x` is even, and a
                                 non-zero `q` gives its sign to `x` (IEEE round-to-nearest-even);
  * `roundAway v : ℤ`            the integer nearest to `v`, ties away from zero
                                 (`roundAway_is_nearest_ties_away` below pins that down);
  * `parseDecimal : String → Option ℚ`   the rational denoted by a string of the exact form
                                 `-?digits(.digits)?` (both digit groups non-empty), `none` for every other
                                 string (`parseDecimal_examples` below);
  * `InIv incl lo hi r`          `lo < r < hi`, or `incl` and `r` is one of the end points — the rounding
                                 interval of a float, used in the specification of the digit search.

  All theorems are unconditional about the *model*; hypotheses are the stated ranges only.
-/
namespace Bch.Props.C17
open Bch.Prim.F64 Bch.Model.Amount Bch.Proofs.F64 Bch.Proofs.Amount

/-! ## 0. The specification vocabulary means what it says -/

/-- `val` is `decode` read as the rational `m·2^e`. -/
theorem val_decode (x : UInt64) :
    val x = (decode x).map (fun p => (p.1 : ℚ) * (2:ℚ) ^ p.2) := rfl

/-- `roundAway v` is an integer within `1/2` of `v`, and in a tie it is the one farther from zero. -/
theorem roundAway_is_nearest_ties_away (v : ℚ) :
    |v - roundAway v| ≤ 1/2 ∧ (|v - roundAway v| = 1/2 → |v| < |(roundAway v : ℚ)|) :=
  ⟨roundAway_near v, roundAway_tie v⟩

/-! ## 1. `float64(int64)` -/

/-- Integers of magnitude below `2^53` convert exactly. -/
theorem ofInt_exact (i : Int) (h : |i| < 2^53) : val (ofInt i) = some (i : ℚ) :=
  ofInt_exact_val i (by rw [Int.abs_eq_natAbs] at h; exact_mod_cast h)

example : |(-2100000000000000 : Int)| < 2^53 := by decide

/-- `float64(int64)` is correctly rounded for every integer that does not overflow. -/
theorem ofInt_isRN (i : Int) (hfin : isFinite (ofInt i) = true) : IsRN (i : ℚ) (ofInt i) :=
  Bch.Proofs.F64.ofInt_isRN i hfin

example : isFinite (ofInt 9007199254740993) = true := by decide +kernel

/-- The conversion is odd. -/
theorem ofInt_odd (i : Int) (h : i ≠ 0) : ofInt (-i) = neg (ofInt i) := ofInt_neg i h

/-! ## 5. The rounding routine and the arithmetic are correctly rounded (all ranges, incl. subnormals) -/

/-- **Core lemma.** `roundScaled sg M e sticky` with a finite result is the correctly rounded value of
`± qa`, where `qa` is the exact magnitude: `qa = M·2^e` if `sticky = false`, `M·2^e < qa < (M+1)·2^e`
if `sticky = true` (the documented precondition on `sticky` is `hstk`). -/
theorem roundScaled_isRN (sg : Bool) (M : Nat) (e : Int) (sticky : Bool) (hM : M ≠ 0) (qa : ℚ)
    (hq1 : (M:ℚ) * 2^e ≤ qa) (hq2 : qa < ((M:ℚ) + 1) * 2^e) (hst : sticky = true ↔ qa ≠ (M:ℚ) * 2^e)
    (hstk : sticky = true → (2^54 ≤ M ∨ e < -1074))
    (hfin : isFinite (roundScaled sg M e sticky) = true) :
    IsRN (if sg then -qa else qa) (roundScaled sg M e sticky) :=
  Bch.Proofs.F64.roundScaled_isRN sg M e sticky hM qa hq1 hq2 hst hstk hfin

example : isFinite (roundScaled false 3 (-1076) false) = true := by decide +kernel

/-- IEEE multiplication: a finite product of finite operands is the correctly rounded exact product. -/
theorem mul_isRN (a b : UInt64) (va vb : ℚ) (ha : val a = some va) (hb : val b = some vb)
    (hfin : isFinite (mul a b) = true) : IsRN (va * vb) (mul a b) :=
  mul_isRN_val a b va vb ha hb hfin

/-- … and the product is finite whenever the exact product is below `2^1023` in magnitude. -/
theorem mul_finite (a b : UInt64) (va vb : ℚ) (ha : val a = some va) (hb : val b = some vb)
    (hlt : |va * vb| < 2^1023) : isFinite (mul a b) = true :=
  mul_finite_val a b va vb ha hb hlt

/-- IEEE division by a non-zero finite divisor. -/
theorem div_isRN (a b : UInt64) (va vb : ℚ) (ha : val a = some va) (hb : val b = some vb)
    (hvb : vb ≠ 0) (hfin : isFinite (div a b) = true) : IsRN (va / vb) (div a b) :=
  div_isRN_val a b va vb ha hb hvb hfin

theorem div_finite (a b : UInt64) (va vb : ℚ) (ha : val a = some va) (hb : val b = some vb)
    (hvb : vb ≠ 0) (hlt : |va / vb| < 2^1023) : isFinite (div a b) = true :=
  div_finite_val a b va vb ha hb hvb hlt

-- non-vacuity: 0.1 * 3 and 0.1 / 3 are finite products/quotients of finite floats
example : isFinite 0x3fb999999999999a = true ∧ isFinite 0x4008000000000000 = true ∧
    isFinite (mul 0x3fb999999999999a 0x4008000000000000) = true ∧
    isFinite (div 0x3fb999999999999a 0x4008000000000000) = true := by decide +kernel

/-- Relative error `2^-53` of a multiplication in the normal range. -/
theorem mul_relerr (a b : UInt64) (va vb v : ℚ) (ha : val a = some va) (hb : val b = some vb)
    (hp : val (mul a b) = some v) (hnorm : (2:ℚ)^(-1022 : Int) ≤ |va * vb|) :
    |v - va * vb| ≤ |va * vb| / 2^53 := by
  obtain ⟨ha1, ha2⟩ := (val_eq_some_iff a va).mp ha
  obtain ⟨hb1, hb2⟩ := (val_eq_some_iff b vb).mp hb
  obtain ⟨hp1, hp2⟩ := (val_eq_some_iff _ v).mp hp
  rw [← ha2, ← hb2] at hnorm ⊢
  rw [← hp2]
  exact Bch.Proofs.F64.mul_relerr a b ha1 hb1 hp1 hnorm

/-! ## 4. `math.Round` and `NewAmount` is "nearest integer, ties away from zero" -/

/-- Go's `math.Round` on a finite float returns the float whose value is the nearest integer, ties away
from zero; truncating it to an integer is then exact; floats of magnitude `≥ 2^52` are returned
unchanged. -/
theorem roundHalfAway_spec (a : UInt64) (v : ℚ) (ha : val a = some v) :
    val (roundHalfAway a) = some (roundAway v : ℚ) ∧
    truncToInt (roundHalfAway a) = some (roundAway v) ∧
    ((2:ℚ)^52 ≤ |v| → roundHalfAway a = a) :=
  roundHalfAway_val a v ha

/-- `1e8` is exact. -/
theorem satoshiPerBitcoin_exact : val satoshiPerBitcoin = some (100000000 : ℚ) := val_sat

/-- **C17 nearest.** For finite `f` with value `vf`, let `p = f * 1e8` (one IEEE multiplication, i.e. the
correctly rounded value of `vf·10^8`).  If `p` is finite with `|p| < 2^62`, `NewAmount f` is the integer
nearest to `p`, ties away from zero. -/
theorem C17_newAmount_nearest (f : UInt64) (vf v : ℚ) (hf : val f = some vf)
    (hp : val (mul f satoshiPerBitcoin) = some v) (hr : |v| < 2^62) :
    IsRN (vf * 100000000) (mul f satoshiPerBitcoin) ∧ NewAmount f = some (roundAway v) := by
  obtain ⟨hf1, _⟩ := (val_eq_some_iff f vf).mp hf
  obtain ⟨hp1, hp2⟩ := (val_eq_some_iff _ v).mp hp
  refine ⟨mul_isRN_val f _ vf _ hf val_sat hp1, ?_⟩
  rw [← hp2] at hr ⊢
  exact newAmount_nearest f hf1 hp1 hr

-- non-vacuity: f = 1.0
example : ∃ vf v, val 0x3FF0000000000000 = some vf ∧
    val (mul 0x3FF0000000000000 satoshiPerBitcoin) = some v ∧ |v| < 2^62 := by
  refine ⟨1, 100000000, ?_, by rw [one_times_sat]; exact val_sat, by norm_num⟩
  have := val_of_checkNat 0x3FF0000000000000 1 (by decide +kernel)
  simpa using this

/-- **C17 nearest, all finite inputs** (covers the guard branches): with `p = f * 1e8`, the result is the
nearest integer to `p` (ties away) when `p` is finite and that integer fits an `int64`; in every other case
(overflow of the product to ±Inf, or an integer outside `int64`) it is `math.MinInt64`, the amd64 result of
an out-of-range float→int conversion. -/
theorem C17_newAmount_total (f : UInt64) (vf : ℚ) (hf : val f = some vf) :
    NewAmount f = some
      (match val (mul f satoshiPerBitcoin) with
       | some v => if -(2^63 : Int) ≤ roundAway v ∧ roundAway v < 2^63 then roundAway v else -(2^63 : Int)
       | none => -(2^63 : Int)) := by
  rw [newAmount_total f ((val_eq_some_iff f vf).mp hf).1, val_eq]
  by_cases h : isFinite (mul f satoshiPerBitcoin) = true
  · simp only [h, true_and, if_true]
  · simp [h]

-- the saturating branch is inhabited (a finite float of about 1e300 BCH)
example : isFinite 0x7E37E43C8800759C = true ∧ NewAmount 0x7E37E43C8800759C = some (-(2^63)) := by
  decide +kernel

/-- `MulF64 a f = round(float64(a) * f)`: nearest integer (ties away) to the single-rounded product. -/
theorem C17_mulF64_nearest (a : Int) (f : UInt64) (vf v : ℚ) (ha : |a| < 2^53) (hf : val f = some vf)
    (hp : val (mul (ofInt a) f) = some v) (hr : |v| < 2^62) :
    IsRN ((a:ℚ) * vf) (mul (ofInt a) f) ∧ MulF64 a f = roundAway v := by
  obtain ⟨hp1, hp2⟩ := (val_eq_some_iff _ v).mp hp
  have hx := ofInt_exact_val a (by rw [Int.abs_eq_natAbs] at ha; exact_mod_cast ha)
  refine ⟨mul_isRN_val _ f _ vf hx hf hp1, ?_⟩
  rw [← hp2] at hr ⊢
  exact mulF64_nearest a f hp1 hr

example : MulF64 100000000 0x3FB999999999999A = 10000000 := by decide +kernel  -- 1 BCH * 0.1

/-! ## 2. Rejection of NaN / ±Inf -/

theorem C17_newAmount_rejects (f : UInt64) (h : isNaN f = true ∨ isInf f = true) :
    NewAmount f = none := newAmount_rejects f h

theorem C17_newAmount_accepts (f : UInt64) (h1 : isNaN f = false) (h2 : isInf f = false) :
    NewAmount f ≠ none := by
  rw [newAmount_accepts f ⟨h1, h2⟩]; simp

example : isNaN nan = true ∧ isInf posInf = true ∧ isInf negInf = true ∧
    isNaN 0x3FF0000000000000 = false ∧ isInf 0x3FF0000000000000 = false := by decide

/-! ## 3. Odd symmetry -/

/-- **C17 odd.** Negating a finite input negates the amount, as long as `|f·1e8| < 2^62`
(beyond `2^63` both signs saturate to `math.MinInt64`, so the bound is needed). `-0` and `+0` both give 0. -/
theorem C17_newAmount_odd (f : UInt64) (vf v : ℚ) (hf : val f = some vf)
    (hp : val (mul f satoshiPerBitcoin) = some v) (hr : |v| < 2^62) :
    NewAmount (neg f) = (NewAmount f).map (fun x => -x) := by
  obtain ⟨hf1, _⟩ := (val_eq_some_iff f vf).mp hf
  obtain ⟨hp1, hp2⟩ := (val_eq_some_iff _ v).mp hp
  rw [← hp2] at hr
  exact newAmount_odd f hf1 hp1 hr

example : NewAmount (neg 0x3FF0000000000000) = some (-100000000) ∧
    NewAmount 0x8000000000000000 = some 0 := by decide +kernel

/-! ## 6. Monotonicity -/

/-- **C17 monotone.** `f < g` (IEEE comparison) implies `NewAmount f ≤ NewAmount g` for finite inputs in
range. -/
theorem C17_newAmount_mono (f g : UInt64) (vf vg v w : ℚ) (hf : val f = some vf) (hg : val g = some vg)
    (hlt : lt f g = true)
    (hpf : val (mul f satoshiPerBitcoin) = some v) (hrf : |v| < 2^62)
    (hpg : val (mul g satoshiPerBitcoin) = some w) (hrg : |w| < 2^62) :
    ∃ x y, NewAmount f = some x ∧ NewAmount g = some y ∧ x ≤ y := by
  obtain ⟨hf1, _⟩ := (val_eq_some_iff f vf).mp hf
  obtain ⟨hg1, _⟩ := (val_eq_some_iff g vg).mp hg
  obtain ⟨hp1, hp2⟩ := (val_eq_some_iff _ v).mp hpf
  obtain ⟨hq1, hq2⟩ := (val_eq_some_iff _ w).mp hpg
  rw [← hp2] at hrf
  rw [← hq2] at hrg
  exact newAmount_mono f g hf1 hg1 hlt hp1 hrf hq1 hrg

/-- the IEEE order on finite floats is the order of the values -/
theorem lt_val (a b : UInt64) (va vb : ℚ) (ha : val a = some va) (hb : val b = some vb)
    (h : lt a b = true) : va < vb := by
  rw [← ((val_eq_some_iff a va).mp ha).2, ← ((val_eq_some_iff b vb).mp hb).2]
  exact fval_lt_of_lt a b h

/-- correct rounding is monotone (the reason behind `C17_newAmount_mono`) -/
theorem IsRN_mono (q1 q2 : ℚ) (x1 x2 : UInt64) (v1 v2 : ℚ) (hq : q1 < q2)
    (h1 : IsRN q1 x1) (h2 : IsRN q2 x2) (hv1 : val x1 = some v1) (hv2 : val x2 = some v2) : v1 ≤ v2 := by
  rw [← ((val_eq_some_iff x1 v1).mp hv1).2, ← ((val_eq_some_iff x2 v2).mp hv2).2]
  exact isRN_mono hq h1 h2

-- non-vacuity: 4.999999999999999e-09 < 1.0, and the hypotheses of `C17_newAmount_mono` for 1.0 < 2.0
example : lt 0x3E35798EE2308C39 0x3FF0000000000000 = true := by decide +kernel
example : val 0x3FF0000000000000 = some ((1:ℕ):ℚ) ∧ val 0x4000000000000000 = some ((2:ℕ):ℚ) ∧
    lt 0x3FF0000000000000 0x4000000000000000 = true ∧
    val (mul 0x3FF0000000000000 satoshiPerBitcoin) = some ((100000000:ℕ):ℚ) ∧
    |(((100000000:ℕ):ℚ))| < 2^62 ∧
    val (mul 0x4000000000000000 satoshiPerBitcoin) = some ((200000000:ℕ):ℚ) ∧
    |(((200000000:ℕ):ℚ))| < 2^62 :=
  ⟨val_of_checkNat _ _ (by decide +kernel), val_of_checkNat _ _ (by decide +kernel), by decide +kernel,
   val_of_checkNat _ _ (by decide +kernel), by norm_num,
   val_of_checkNat _ _ (by decide +kernel), by norm_num⟩

/-! ## 7. Round trip -/

/-- **C17 round trip.** Every amount up to the 21-million-coin cap survives `ToBCH` followed by
`NewAmount` (two roundings: `a / 1e8`, then `· * 1e8`; total error `≤ |a|·(2^-52 + 2^-106) < 0.47`). -/
theorem C17_roundtrip (a : Int) (ha : |a| ≤ 2100000000000000) : NewAmount (ToBCH a) = some a :=
  roundtrip a (by rw [Int.abs_eq_natAbs] at ha; exact_mod_cast ha)

example : NewAmount (ToBCH 2100000000000000) = some 2100000000000000 ∧
    NewAmount (ToBCH (-1234567890123457)) = some (-1234567890123457) := by decide +kernel

/-! ## 8. Unit conversion -/

/-- `math.Pow10(k)` is exactly `10^k` for `0 ≤ k ≤ 22`. -/
theorem pow10_exact (k : Nat) (hk : k ≤ 22) : val (pow10 (k : Int)) = some ((10:ℚ)^k) :=
  Bch.Proofs.Amount.pow10_exact k hk

/-- **C17 toUnit.** For `|a| ≤ 2.1·10^15` and `-12 ≤ u ≤ 12`, `ToUnit a u` is the correctly rounded value of
`a / 10^(u+8)`: one rounding only (also for units below the satoshi, where the fixed code multiplies by the
exact `10^-(u+8)`). -/
theorem C17_toUnit (a u : Int) (ha : |a| ≤ 2100000000000000) (hu1 : -12 ≤ u) (hu2 : u ≤ 12) :
    IsRN ((a:ℚ) / (10:ℚ)^(u + 8)) (ToUnit a u) :=
  toUnit_isRN a u (by rw [Int.abs_eq_natAbs] at ha; omega) (by omega) (by omega)

/-- The same for the whole range in which both `float64(a)` and the power of ten are exact. -/
theorem C17_toUnit_wide (a u : Int) (ha : |a| < 2^53) (hu1 : -30 ≤ u) (hu2 : u ≤ 14) :
    IsRN ((a:ℚ) / (10:ℚ)^(u + 8)) (ToUnit a u) :=
  toUnit_isRN a u (by rw [Int.abs_eq_natAbs] at ha; exact_mod_cast ha) hu1 hu2

-- the historical witness: 1068211668854925 in unit 1e-11 BCH is now 1.068211668854925e18
example : ToUnit 1068211668854925 (-11) = 0x43ada619b4d60cce := by decide +kernel

/-! ## 9. Labels -/

theorem C17_unit_labels :
    unitString 6 = "MBCH" ∧ unitString 3 = "kBCH" ∧ unitString 0 = "BCH" ∧
    unitString (-3) = "mBCH" ∧ unitString (-6) = "μBCH" ∧ unitString (-8) = "Satoshi" ∧
    ∀ u : Int, u ≠ 6 → u ≠ 3 → u ≠ 0 → u ≠ -3 → u ≠ -6 → u ≠ -8 →
      unitString u = "1e" ++ toString u ++ " BCH" := by
  obtain ⟨h1, h2, h3, h4, h5, h6⟩ := unitString_named
  exact ⟨h1, h2, h3, h4, h5, h6, fun u a b c d e f => unitString_other u ⟨a, b, c, d, e, f⟩⟩

example : unitString 7 = "1e7 BCH" ∧ unitString (-11) = "1e-11 BCH" := by decide

/-- `Format` is the `FormatFloat` text of `ToUnit a u` with precision `-(u+8)`, a space, and the label. -/
theorem C17_format_suffix (a u : Int) :
    Format a u = formatF (ToUnit a u) (-(u + 8)) ++ " " ++ unitString u := format_eq a u

/-! ## 10. Text

  `Format a u = FormatFloat(ToUnit a u, 'f', -(u+8)) ++ " " ++ label`.  For `u ≥ -8` the precision is `≤ 0`:
  precision 0 for the satoshi, negative precision (= shortest digits that round-trip, Go `roundShortest`,
  printed in `%f` layout) above it.  For `u < -8` the precision is positive (fixed number of decimals).

  Proved below:
  * `C17_format` — the full statement of the property: for `|a| ≤ 2.1·10^15` and `-8 ≤ u ≤ 12` the number
    printed denotes exactly `a / 10^(u+8)`;  `C17_format_wide` — the same for `|a| < 2^52`, `-8 ≤ u ≤ 14`;
  * `C17_format_subsatoshi` — for `-30 ≤ u < -8` the text denotes exactly `a·10^-(u+8)` as long as that
    integer is below `2^53`; `C17_format_subsatoshi_float` — in general it denotes exactly the double nearest
    to that integer; `C17_format_subsatoshi_known_finding` — which beyond `2^53` need not be the integer
    (documented known finding, not a defect of the model);
  * the specification of the digit search itself (`shortest_in_interval`, `shortest_minimal`,
    `shortest_closest`) for every finite positive significand/exponent pair, the identification of its
    interval with the rounding interval (`rounding_interval`, `rounding_interval_converse`), the layout
    (`formatF_shortest_layout`) and the round trip for every finite float (`formatF_shortest_roundtrip`).
-/

/-- what `parseDecimal` accepts and what it returns -/
theorem parseDecimal_examples :
    parseDecimal "12.50" = some (25/2) ∧ parseDecimal "-0.001" = some (-1/1000) ∧
    parseDecimal "21000000" = some 21000000 ∧ parseDecimal "-0" = some 0 ∧
    parseDecimal "" = none ∧ parseDecimal "." = none ∧ parseDecimal "1." = none ∧ parseDecimal ".5" = none ∧
    parseDecimal "1e5" = none ∧ parseDecimal "--1" = none ∧ parseDecimal "1.2.3" = none ∧
    parseDecimal "+1" = none ∧ parseDecimal " 1" = none ∧ parseDecimal "1 " = none ∧ parseDecimal "-" = none := by
  decide +kernel

/-- `parseDecimal` is by definition: optional `-`, then `digits` or `digits.digits`. -/
theorem parseDecimal_def (s : String) :
    parseDecimal s = (match s.toList with
      | '-' :: cs => (parseUnsigned cs).map (fun v => -v)
      | cs => parseUnsigned cs) := rfl

/-- **What "denotes" means.**  `parseDecimal s = some v` holds exactly when the characters of `s` are an
optional `-`, a non-empty group `ip` of the digits `0`–`9` and optionally a `.` followed by a non-empty
group `fp` of digits (nothing else), and `v = ±(ip + fp / 10^|fp|)` with `ip`, `fp` read in base ten
(`Nat.ofDigitChars 10`). -/
theorem parseDecimal_spec (s : String) (v : ℚ) :
    parseDecimal s = some v ↔
      ∃ (neg : Bool) (ip : List Char) (fp : Option (List Char)),
        (∀ c ∈ ip, c.isDigit = true) ∧ ip ≠ [] ∧ (∀ f, fp = some f → (∀ c ∈ f, c.isDigit = true) ∧ f ≠ []) ∧
        s.toList = (if neg then ['-'] else []) ++
          (ip ++ (match fp with | none => [] | some f => '.' :: f)) ∧
        v = (if neg then -1 else 1) *
          (((Nat.ofDigitChars 10 ip 0 : Nat) : ℚ) +
            (match fp with | none => 0 | some f => ((Nat.ofDigitChars 10 f 0 : Nat) : ℚ) / 10 ^ f.length)) :=
  parseDecimal_eq_some_iff s v

/-- Soundness of the digit search: the decimal `N·10^p` returned by `shortest m e` lies in the rounding
interval of the float `m·2^e` — strictly between the halfway points to the two neighbouring floats
(`(4m±2)·2^(e-2)`, the lower one `(4m-1)·2^(e-2)` at a binade boundary), the halfway points themselves
being allowed iff `m` is even.  Every rational in that interval rounds to `m·2^e`
(`rounding_interval_converse`), so the text round-trips (`formatF_shortest_roundtrip`). -/
theorem shortest_in_interval (m : Nat) (e : Int) (hm : 0 < m) (hm53 : m < 2^53) (he : -1074 ≤ e) (he2 : e ≤ 971) :
    InIv (m % 2 == 0) ((shL m e : ℚ) * 2^(e-2)) (((4 * m + 2 : Nat) : ℚ) * 2^(e-2))
      (((shortest m e).1 : ℚ) * 10 ^ (shortest m e).2) := by
  obtain ⟨N, p, h, h1, _⟩ := shortest_spec m e hm hm53 he he2
  rw [h]; exact h1

/-- Minimality: no decimal `n·10^j` with `j` above the returned position (i.e. with fewer significant
digits) lies in the rounding interval. -/
theorem shortest_minimal (m : Nat) (e : Int) (hm : 0 < m) (hm53 : m < 2^53) (he : -1074 ≤ e) (he2 : e ≤ 971)
    (n : Nat) (j : Int)
    (hn : InIv (m % 2 == 0) ((shL m e : ℚ) * 2^(e-2)) (((4 * m + 2 : Nat) : ℚ) * 2^(e-2)) ((n:ℚ) * 10^j)) :
    j ≤ (shortest m e).2 := by
  obtain ⟨N, p, h, _, h2, _⟩ := shortest_spec m e hm hm53 he he2
  rw [h]; exact h2 n j hn

/-- Selection: among the decimals of the returned position that lie in the interval, the result is closest
to the float's value, and its last digit is even whenever another one is equally close. -/
theorem shortest_closest (m : Nat) (e : Int) (hm : 0 < m) (hm53 : m < 2^53) (he : -1074 ≤ e) (he2 : e ≤ 971)
    (n : Nat)
    (hn : InIv (m % 2 == 0) ((shL m e : ℚ) * 2^(e-2)) (((4 * m + 2 : Nat) : ℚ) * 2^(e-2))
      ((n:ℚ) * 10 ^ (shortest m e).2)) :
    |(m:ℚ) * 2^e - ((shortest m e).1 : ℚ) * 10 ^ (shortest m e).2| ≤ |(m:ℚ) * 2^e - (n:ℚ) * 10 ^ (shortest m e).2| ∧
    (n ≠ (shortest m e).1 →
      |(m:ℚ) * 2^e - (n:ℚ) * 10 ^ (shortest m e).2| = |(m:ℚ) * 2^e - ((shortest m e).1 : ℚ) * 10 ^ (shortest m e).2| →
      (shortest m e).1 % 2 = 0) := by
  obtain ⟨N, p, h, _, _, h3, h4⟩ := shortest_spec m e hm hm53 he he2
  rw [h] at hn ⊢
  exact ⟨h3 n hn, fun hne heq => h4 n hne hn heq⟩

-- non-vacuity: 0.3 = 5404319552844595·2^-54; the search returns 3·10^-1, which lies in the interval
example : (0:Nat) < 5404319552844595 ∧ 5404319552844595 < 2^53 ∧ (-1074:Int) ≤ -54 ∧ (-54:Int) ≤ 971 ∧
    shortest 5404319552844595 (-54) = (3, -1) := by decide +kernel
example : InIv (5404319552844595 % 2 == 0) ((shL 5404319552844595 (-54) : ℚ) * 2^((-54:Int)-2))
    (((4 * 5404319552844595 + 2 : Nat) : ℚ) * 2^((-54:Int)-2)) ((3:Nat) * 10^(-1:Int)) := by
  have := shortest_in_interval 5404319552844595 (-54) (by norm_num) (by norm_num) (by norm_num) (by norm_num)
  rwa [show shortest 5404319552844595 (-54) = (3, -1) by decide +kernel] at this

/-- The interval used by `shortest` is the rounding interval: a rational `q` that rounds to the non-zero
float `x = ±m·2^e` (not in the top binade) has `|q|` in it, and `x` has the sign of `q`. -/
theorem rounding_interval (q : ℚ) (x : UInt64) (h : IsRN q x) (hm : (decodeAbs x).1 ≠ 0)
    (he : (decodeAbs x).2 ≤ 970) :
    InIv ((decodeAbs x).1 % 2 == 0)
      ((shL (decodeAbs x).1 (decodeAbs x).2 : ℚ) * 2^((decodeAbs x).2 - 2))
      (((4 * (decodeAbs x).1 + 2 : Nat) : ℚ) * 2^((decodeAbs x).2 - 2)) |q| ∧
    q ≠ 0 ∧ isNeg x = decide (q < 0) :=
  isRN_in_interval q x h hm he

example : (decodeAbs (ToUnit 123456789 0)).1 ≠ 0 ∧ (decodeAbs (ToUnit 123456789 0)).2 ≤ 970 := by
  decide +kernel

/-- … and conversely every rational in that interval, given the sign of `x`, rounds to `x`. -/
theorem rounding_interval_converse (x : UInt64) (hx : isFinite x = true) (hm : (decodeAbs x).1 ≠ 0) (r : ℚ)
    (hr : InIv ((decodeAbs x).1 % 2 == 0)
      ((shL (decodeAbs x).1 (decodeAbs x).2 : ℚ) * 2^((decodeAbs x).2 - 2))
      (((4 * (decodeAbs x).1 + 2 : Nat) : ℚ) * 2^((decodeAbs x).2 - 2)) r) :
    IsRN ((if isNeg x then (-1:ℚ) else 1) * r) x :=
  in_interval_isRN x hx hm r hr

/-- Layout of the shortest-digits path: for a finite float with non-zero significand and negative
precision, the text denotes `± N·10^p` with `(N, p) = shortest m e`. -/
theorem formatF_shortest_layout (x : UInt64) (prec : Int) (hx : isFinite x = true)
    (hm : (decodeAbs x).1 ≠ 0) (hp : prec < 0) :
    parseDecimal (formatF x prec) =
      some ((if isNeg x then (-1:ℚ) else 1) *
        (((shortest (decodeAbs x).1 (decodeAbs x).2).1 : ℚ) * 10 ^ (shortest (decodeAbs x).1 (decodeAbs x).2).2)) :=
  formatF_shortest_parse x prec hx hm hp

example : isFinite 0x3fd3333333333333 = true ∧ (decodeAbs 0x3fd3333333333333).1 ≠ 0 ∧
    formatF 0x3fd3333333333333 (-1) = "0.3" := by decide +kernel

/-- **Round trip of `FormatFloat(x, 'f', -1, 64)`** for every finite float (zeros, subnormals and the top
binade included): the text is a decimal string whose exact value rounds back to `x`. -/
theorem formatF_shortest_roundtrip (x : UInt64) (prec : Int) (hx : isFinite x = true) (hp : prec < 0) :
    ∃ r : ℚ, parseDecimal (formatF x prec) = some r ∧ IsRN r x :=
  Bch.Proofs.F64.formatF_shortest_roundtrip x prec hx hp

example : isFinite 0x0000000000000001 = true ∧ isFinite 0x7fefffffffffffff = true := by decide

/-- **C17 text.**  For every amount up to the 21-million-coin cap and every unit exponent from the satoshi
(`-8`) up to `12`, `Format a u` is a decimal string `D`, a space and the unit label, and `D` denotes
exactly the rational `a / 10^(u+8)`. -/
theorem C17_format (a u : Int) (ha : |a| ≤ 2100000000000000) (hu1 : -8 ≤ u) (hu2 : u ≤ 12) :
    ∃ D : String, Format a u = D ++ " " ++ unitString u ∧
      parseDecimal D = some ((a:ℚ) / (10:ℚ) ^ (u + 8)) :=
  ⟨formatF (ToUnit a u) (-(u + 8)), format_eq a u,
    format_number_exact a u (by rw [Int.abs_eq_natAbs] at ha; omega) hu1 (by omega)⟩

example : Format 123456789 0 = "1.23456789" ++ " " ++ unitString 0 ∧
    parseDecimal "1.23456789" = some ((123456789:ℚ) / (10:ℚ) ^ ((0:Int) + 8)) := by
  refine ⟨by decide +kernel, ?_⟩
  rw [show ((123456789:ℚ) / (10:ℚ) ^ ((0:Int) + 8)) = 123456789 / 100000000 by norm_num]
  decide +kernel
example : Format (-2100000000000000) 12 = "-0.000021 1e12 BCH" ∧
    Format 2099999999999999 12 = "0.00002099999999999999 1e12 BCH" ∧
    Format 2099999999999999 3 = "20999.99999999999 kBCH" ∧ Format 1 6 = "0.00000000000001 MBCH" ∧
    Format 0 3 = "0 kBCH" := by decide +kernel

/-- The same for every amount below `2^52` and every exponent up to `14` (the range in which the power of
ten is exact and the decimal `a·10^-(u+8)` is the only multiple of `10^-(u+8)` in the rounding interval). -/
theorem C17_format_wide (a u : Int) (ha : |a| < 2^52) (hu1 : -8 ≤ u) (hu2 : u ≤ 14) :
    ∃ D : String, Format a u = D ++ " " ++ unitString u ∧
      parseDecimal D = some ((a:ℚ) / (10:ℚ) ^ (u + 8)) :=
  ⟨formatF (ToUnit a u) (-(u + 8)), format_eq a u,
    format_number_exact a u (by rw [Int.abs_eq_natAbs] at ha; exact_mod_cast ha) hu1 hu2⟩

example : |(4503599627370495 : Int)| < 2^52 := by decide

/-- Units below the satoshi (`-30 ≤ u < -8`): the value `a·10^-(u+8)` is an integer; while it is below
`2^53` the text (that integer followed by `-(u+8)` zero decimals) denotes it exactly. -/
theorem C17_format_subsatoshi (a u : Int) (hu1 : -30 ≤ u) (hu2 : u < -8)
    (hz : |a| * 10 ^ (-(u + 8)).toNat < 2^53) :
    ∃ D : String, Format a u = D ++ " " ++ unitString u ∧
      parseDecimal D = some ((a:ℚ) / (10:ℚ) ^ (u + 8)) :=
  ⟨formatF (ToUnit a u) (-(u + 8)), format_eq a u,
    format_number_exact_sub a u hu1 hu2 (by rw [Int.abs_eq_natAbs] at hz; exact_mod_cast hz)⟩

example : |(9007199254740 : Int)| * 10 ^ (-((-11 : Int) + 8)).toNat < 2^53 ∧
    Format 9007199254740 (-11) = "9007199254740000.000 1e-11 BCH" := by decide +kernel

/-- Units below the satoshi, every amount below `2^53`: the printed number is the exact decimal expansion of
the double `ToUnit a u`, which is the correctly rounded value of `a·10^-(u+8)` (`C17_toUnit_wide`). -/
theorem C17_format_subsatoshi_float (a u : Int) (ha : |a| < 2^53) (hu1 : -30 ≤ u) (hu2 : u < -8) :
    ∃ (D : String) (v : ℚ), Format a u = D ++ " " ++ unitString u ∧
      val (ToUnit a u) = some v ∧ parseDecimal D = some v ∧
      IsRN ((a:ℚ) / (10:ℚ) ^ (u + 8)) (ToUnit a u) := by
  have ha' : a.natAbs < 2^53 := by rw [Int.abs_eq_natAbs] at ha; exact_mod_cast ha
  obtain ⟨v, hv, hp⟩ := format_number_sub_float a u ha' hu1 hu2
  exact ⟨formatF (ToUnit a u) (-(u + 8)), v, format_eq a u, hv, hp, toUnit_isRN a u ha' hu1 (by omega)⟩

example : |(643088377665511 : Int)| < 2^53 ∧ val (ToUnit 643088377665511 (-11)) ≠ none := by decide +kernel

/-- **Known finding** (not a defect of the model): below the satoshi the bound in `C17_format_subsatoshi`
is needed.  `643088377665511 · 10^3 ≥ 2^53` is not a double; the nearest double is printed and the text
does not denote `a·10^3`. -/
theorem C17_format_subsatoshi_known_finding :
    Format 643088377665511 (-11) = "643088377665511040.000" ++ " " ++ unitString (-11) ∧
    parseDecimal "643088377665511040.000" = some 643088377665511040 ∧
    (643088377665511040 : ℚ) ≠ (643088377665511 : ℚ) / (10:ℚ) ^ ((-11 : Int) + 8) := by
  refine ⟨by decide +kernel, by decide +kernel, ?_⟩
  norm_num

/-- `FormatFloat(x, 'f', 0, 64)` of a finite integer-valued float prints that integer. -/
theorem formatF_integer (x : UInt64) (z : ℤ) (hx : val x = some (z : ℚ)) :
    formatF x 0 = (if isNeg x then "-" else "") ++ toString z.natAbs := by
  obtain ⟨h1, h2⟩ := (val_eq_some_iff x z).mp hx
  exact formatF_int x h1 z h2

/-- The satoshi unit in closed form (kept from the earlier round; now a special case of `C17_format`, here
for the larger range `|a| < 2^53` and with the text given literally). -/
theorem C17_format_partial (a : Int) (ha : |a| < 2^53) :
    Format a (-8) = toString a ++ " Satoshi" :=
  format_satoshi a (by rw [Int.abs_eq_natAbs] at ha; exact_mod_cast ha)

example : Format (-2100000000000000) (-8) = "-2100000000000000 Satoshi" := by decide +kernel

/-! ## 11. The two historical witnesses now behave -/

-- 4.999999999999999e-09 BCH is 0 satoshi (the old `+0.5`-and-truncate code returned 1)
example : NewAmount 0x3E35798EE2308C39 = some 0 := by decide +kernel
-- 45035996.27370497 BCH is 4503599627370497 satoshi (the old code returned …498)
example : NewAmount 0x4185798EE2308C3B = some 4503599627370497 := by decide +kernel
-- the products are the near-tie values the old code mishandled
example : mul 0x3E35798EE2308C39 satoshiPerBitcoin = 0x3FDFFFFFFFFFFFFF ∧
    mul 0x4185798EE2308C3B satoshiPerBitcoin = 0x4330000000000001 := by decide +kernel

end Bch.Props.C17
