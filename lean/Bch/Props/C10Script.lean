import Bch.Props.C10
import Bch.Proofs.Script
/-
C10, the script layer.  Property C10 speaks of "a data push of one of its output scripts / input scripts" and of
"pay-to-pubkey and multisig outputs".  In `Bch/Model/BloomTx.lean` these are fields of the transaction record
(`pushes`, `isPubKeyOrMultisig`), filled by the Go harness with the answers of `txscript.PushedData` and
`txscript.GetScriptClass`.  `Bch/Spec/Script.lean` specifies the two library functions from the raw script bytes
(`pushedData`, `updatable`; transcribed from bchd v0.20.0 `txscript`, compared with the library on 2166 random and
structured scripts: no difference) and `agrees` is the cross-check of the driver.  This file states

 1. what the tokenizer is (defining equations, exact characterisation, failure = a truncated push),
 2. what `pushedData` gives on pushes, concatenations and the standard scripts,
 3. what `updatable` requires (exactly), and where it is false,
 4. `agrees`, and the concrete corner cases with the answers read off the Go code,
 5. `C10_match_iff` / `C10_update_mem` read on raw scripts.

Corner cases of txscript recorded here: OP_0 pushes an empty datum (`PushedData` appends `nil`), OP_1NEGATE and
OP_1..OP_16 push nothing, `4c 00` pushes an empty datum (non-nil empty slice), a truncated push makes the whole
script an error (no partial list; `GetScriptClass` then says NonStandardTy), no opcode byte is an error in
itself (0xff, 0xef, … are one-byte instructions), pay-to-pubkey looks only at the number of bytes carried by
the first instruction (33 or 65, any push form, any prefix byte), multisig does not compare its two numbers
(`OP_0 <key> OP_1 OP_CHECKMULTISIG` and `OP_16 <key> OP_1 OP_CHECKMULTISIG` are MultiSigTy; with OP_0 in front,
`PushedData` also reports an empty datum).
-/

namespace Bch.Props.C10
open Bch Bch.Spec.Script Bch.Proofs.Script Bch.Model.BloomTx Bch.Proofs.BloomTx

/-! ### 1. the tokenizer -/

/-- The tokenizer is a total function (it is defined by recursion on a fuel equal to the script length);
these are its defining equations without the fuel: the empty script has no instructions; otherwise the first
byte is an opcode, `next` cuts its data off (or fails), and the rest is tokenized. -/
theorem C10_script_tokenize_eqns :
    tokenize [] = some [] ∧
    ∀ (op : UInt8) (rest : Bytes), tokenize (op :: rest) =
      match next op rest with
      | none => none
      | some (d, r) => (tokenize r).map (⟨op, d⟩ :: ·) :=
  ⟨tokenize_nil, tokenize_cons⟩

/-- `next` fails exactly on a truncated instruction: OP_DATA_n with fewer than `n` bytes left, OP_PUSHDATAk with
fewer than `k` length bytes left or fewer data bytes left than these announce. -/
theorem C10_script_next_none_iff (op : UInt8) (rest : Bytes) :
    next op rest = none ↔
      (isDirect op = true ∧ rest.length < op.toNat) ∨
      (isPushData op = true ∧ (rest.length < lenWidth op ∨
        (rest.drop (lenWidth op)).length < Bytes.toNatLE (rest.take (lenWidth op)))) :=
  next_none_iff op rest

/-- **exact characterisation**: `tokenize s = some ts` iff every token is well-formed (`Token.wf`: OP_DATA_n
carries `n` bytes, OP_PUSHDATAk carries fewer than `256^k` bytes, other opcodes carry none) and the
concatenation of the encodings of the tokens is the whole script. -/
theorem C10_script_tokenize_iff (s : Bytes) (ts : List Token) :
    tokenize s = some ts ↔ (∀ t ∈ ts, t.wf = true) ∧ encode ts = s :=
  tokenize_iff s ts

/-- success consumes the whole script -/
theorem C10_script_tokenize_consumes {s : Bytes} {ts : List Token} (h : tokenize s = some ts) : encode ts = s :=
  (tokenize_sound h).2

/-- round trip; the canonicity condition is `Token.wf` of every token -/
theorem C10_script_tokenize_roundtrip (ts : List Token) (h : ∀ t ∈ ts, t.wf = true) :
    tokenize (encode ts) = some ts :=
  tokenize_encode ts h

example : ∀ t ∈ [Token.mk 0x76 [], Token.mk 0x02 [1, 2], Token.mk 0x4c [], Token.mk 0x4d [7]], t.wf = true := by
  decide
/-- the condition is needed: `OP_DATA_2` with one byte, or data on `OP_DUP`, do not come back -/
example : tokenize (encode [Token.mk 0x02 [1]]) = none ∧
    tokenize (encode [Token.mk 0x76 [1]]) = some [Token.mk 0x76 []] := by decide

/-- the parse is unique -/
theorem C10_script_tokenize_unique (ts ts' : List Token) (h : ∀ t ∈ ts, t.wf = true) (h' : ∀ t ∈ ts', t.wf = true)
    (e : encode ts = encode ts') : ts = ts' := by
  have a := tokenize_encode ts h
  rw [e, tokenize_encode ts' h'] at a
  exact (Option.some.inj a).symm

/-- every datum is a contiguous piece of the script -/
theorem C10_script_data_infix {s : Bytes} {ts : List Token} (h : tokenize s = some ts) :
    ∀ t ∈ ts, t.data <:+: s := by
  obtain ⟨w, e⟩ := tokenize_sound h
  intro t ht
  rw [← e]; exact data_infix_encode w ht

/-- number of instructions + total number of data bytes ≤ script length -/
theorem C10_script_size {s : Bytes} {ts : List Token} (h : tokenize s = some ts) :
    ts.length + (ts.map fun t => t.data.length).sum ≤ s.length := by
  obtain ⟨w, e⟩ := tokenize_sound h
  rw [← e]; exact encode_length_ge ts w

/-- a parsable prefix followed by a truncated instruction does not parse -/
theorem C10_script_truncated {a : Bytes} {ta : List Token} (h : tokenize a = some ta) {op : UInt8} {rest : Bytes}
    (ht : next op rest = none) : tokenize (a ++ op :: rest) = none :=
  tokenize_truncated h ((next_none_iff op rest).mp ht)

example : tokenize [0x76, 0xa9] = some [⟨0x76, []⟩, ⟨0xa9, []⟩] ∧ next 0x05 [0xaa, 0xbb] = none ∧
    next 0x4c [] = none ∧ next 0x4d [0x01] = none ∧ next 0x4e [2, 0, 0, 0, 0xaa] = none := by decide

/-- … and this is the only way to fail: no opcode byte is an error in itself -/
theorem C10_script_tokenize_none_iff (s : Bytes) : tokenize s = none ↔
    ∃ a ta op rest, s = a ++ op :: rest ∧ tokenize a = some ta ∧ next op rest = none := by
  rw [tokenize_none_iff]
  constructor
  · rintro ⟨a, ta, op, rest, e, h, t⟩; exact ⟨a, ta, op, rest, e, h, (next_none_iff op rest).mpr t⟩
  · rintro ⟨a, ta, op, rest, e, h, t⟩; exact ⟨a, ta, op, rest, e, h, (next_none_iff op rest).mp t⟩

/-- a script without push opcodes (every byte is 0x00 or ≥ 0x4f, "invalid" opcodes included) always parses,
one instruction per byte -/
theorem C10_script_tokenize_nodata (s : Bytes) (h : ∀ b ∈ s, carriesData b = false) :
    tokenize s = some (s.map fun b => ⟨b, []⟩) :=
  tokenize_nodata s h

example : ∀ b ∈ [(0xff : UInt8), 0xef, 0x00, 0x4f, 0x50, 0xba], carriesData b = false := by decide

/-- concatenation: after a parsable script the tokenizer starts afresh -/
theorem C10_script_tokenize_append {a : Bytes} {ta : List Token} (h : tokenize a = some ta) (b : Bytes) :
    tokenize (a ++ b) = (tokenize b).map (ta ++ ·) :=
  tokenize_append h b

/-- (an unparsable first part may be repaired by what follows, hence the hypothesis) -/
example : tokenize [0x02, 0x01] = none ∧ tokenize ([0x02, 0x01] ++ [0x03]) = some [⟨0x02, [0x01, 0x03]⟩] := by decide

/-! ### 2. `pushedData` -/

/-- `PushedData` fails exactly when the script does not parse -/
theorem C10_script_pushed_none_iff (s : Bytes) : pushedData s = none ↔ tokenize s = none := by
  unfold pushedData; simp

/-- what is reported: the data of the instructions 0x01..0x4e, and an empty datum for OP_0 -/
theorem C10_script_pushed_def (s : Bytes) (ts : List Token) (h : tokenize s = some ts) :
    pushedData s = some (ts.filterMap fun t =>
      if carriesData t.op then some t.data else if t.op.toNat = 0 then some [] else none) := by
  unfold pushedData; rw [h]; rfl

/-- every reported datum is a contiguous piece of the script; their number plus their total size is at most the
script length -/
theorem C10_script_pushed_infix {s : Bytes} {ps : List Bytes} (h : pushedData s = some ps) :
    (∀ d ∈ ps, d <:+: s) ∧ ps.length + (ps.map List.length).sum ≤ s.length := by
  unfold pushedData at h
  cases ht : tokenize s with
  | none => simp [ht] at h
  | some ts =>
    simp only [ht, Option.map_some, Option.some.injEq] at h
    subst h
    obtain ⟨w, e⟩ := tokenize_sound ht
    constructor
    · intro d hd
      obtain ⟨t, htm, rfl⟩ := mem_pushesOf w hd
      exact C10_script_data_infix ht t htm
    · have := pushesOf_size ts w
      have := C10_script_size ht
      omega

/-- OP_0 pushes an empty datum; OP_1NEGATE, OP_1 … OP_16 push nothing -/
theorem C10_script_pushed_small :
    pushedData [0x00] = some [[]] ∧ pushedData [0x4f] = some [] ∧
    ∀ n, 1 ≤ n → n ≤ 16 → pushedData [smallIntOp n] = some [] := by
  refine ⟨by decide, by decide, ?_⟩
  intro n h1 h2
  have c := smallInt_not_carries (smallIntOp_isSmallInt h2)
  have := pushedData_encode [opTok (smallIntOp n)] (by simpa using opTok_wf c)
  rw [encode_cons, encode_nil, opTok_encode c] at this
  rw [List.append_nil] at this
  rw [this]
  simp only [pushesOf, List.filterMap_cons, List.filterMap_nil, smallIntOp_push h2]
  rw [if_neg (by omega)]

/-- `OP_DATA_n d`, `1 ≤ n = |d| ≤ 75` -/
theorem C10_script_pushed_direct (d : Bytes) (h1 : 1 ≤ d.length) (h2 : d.length ≤ 75) :
    pushedData (directPush d) = some [d] := by
  have := pushedData_encode [directTok d] (by simpa using directTok_wf h1 h2)
  rw [encode_cons, encode_nil, directTok_encode h1 h2, List.append_nil] at this
  rw [this]; simp [pushesOf, directTok_push h1 h2]

/-- `OP_PUSHDATA1 |d| d` for `|d| < 256`, the empty datum included (`4c 00` ↦ one empty datum) -/
theorem C10_script_pushed_pushdata1 (d : Bytes) (h : d.length < 256) : pushedData (pushData1 d) = some [d] := by
  have := pushedData_encode [⟨0x4c, d⟩] (by simpa using pd1_wf h)
  rw [encode_cons, encode_nil, pd1_encode, List.append_nil] at this
  rw [this]; simp [pushesOf, pushOf, carriesData, isDirect, isPushData]

theorem C10_script_pushed_pushdata2 (d : Bytes) (h : d.length < 65536) : pushedData (pushData2 d) = some [d] := by
  have := pushedData_encode [⟨0x4d, d⟩] (by simpa using pd2_wf h)
  rw [encode_cons, encode_nil, pd2_encode, List.append_nil] at this
  rw [this]; simp [pushesOf, pushOf, carriesData, isDirect, isPushData]

theorem C10_script_pushed_pushdata4 (d : Bytes) (h : d.length < 4294967296) : pushedData (pushData4 d) = some [d] := by
  have := pushedData_encode [⟨0x4e, d⟩] (by simpa using pd4_wf h)
  rw [encode_cons, encode_nil, pd4_encode, List.append_nil] at this
  rw [this]; simp [pushesOf, pushOf, carriesData, isDirect, isPushData]

example : (1 ≤ ([0xaa, 0xbb] : Bytes).length ∧ ([0xaa, 0xbb] : Bytes).length ≤ 75) ∧
    pushedData (directPush [0xaa, 0xbb]) = some [[0xaa, 0xbb]] ∧ pushedData (pushData1 []) = some [[]] ∧
    pushedData (pushData2 [0xaa]) = some [[0xaa]] ∧ pushedData (pushData4 [0xaa]) = some [[0xaa]] := by decide
/-- outside the range `directPush` is another instruction -/
example : pushedData (directPush []) = some [[]] ∧ pushedData (directPush (List.replicate 76 0xff)) = none := by decide

/-- concatenation (the task's form: both parse) -/
theorem C10_script_pushed_append {a b : Bytes} {pa pb : List Bytes} (ha : pushedData a = some pa)
    (hb : pushedData b = some pb) : pushedData (a ++ b) = some (pa ++ pb) := by
  rw [pushedData_append ha, hb]; rfl

/-- concatenation, in general: only the first part has to parse -/
theorem C10_script_pushed_append' {a : Bytes} {pa : List Bytes} (ha : pushedData a = some pa) (b : Bytes) :
    pushedData (a ++ b) = (pushedData b).map (pa ++ ·) :=
  pushedData_append ha b

example : pushedData [0x01, 0xaa] = some [[0xaa]] ∧ pushedData [0x00, 0x51] = some [[]] ∧
    pushedData ([0x01, 0xaa] ++ [0x00, 0x51]) = some [[0xaa], []] := by decide

/-- P2PKH `OP_DUP OP_HASH160 <20> OP_EQUALVERIFY OP_CHECKSIG`: exactly the hash; class PubKeyHashTy -/
theorem C10_script_p2pkh (h : Bytes) (hl : h.length = 20) :
    pushedData (p2pkh h) = some [h] ∧ scriptClass (p2pkh h) = .pubKeyHash ∧ updatable (p2pkh h) = false := by
  obtain ⟨_, a, b⟩ := p2pkh_facts hl
  exact ⟨a, b, by unfold updatable; rw [b]⟩

/-- P2SH `OP_HASH160 <20> OP_EQUAL` -/
theorem C10_script_p2sh (h : Bytes) (hl : h.length = 20) :
    pushedData (p2sh h) = some [h] ∧ scriptClass (p2sh h) = .scriptHash ∧ updatable (p2sh h) = false := by
  obtain ⟨_, a, b⟩ := p2sh_facts hl
  exact ⟨a, b, by unfold updatable; rw [b]⟩

/-- P2SH32 `OP_HASH256 <32> OP_EQUAL` -/
theorem C10_script_p2sh32 (h : Bytes) (hl : h.length = 32) :
    pushedData (p2sh32 h) = some [h] ∧ scriptClass (p2sh32 h) = .scriptHash32 ∧ updatable (p2sh32 h) = false := by
  obtain ⟨_, a, b⟩ := p2sh32_facts hl
  exact ⟨a, b, by unfold updatable; rw [b]⟩

/-- P2PK `<key> OP_CHECKSIG`, key of 33 or 65 bytes (txscript does not look at the prefix byte) -/
theorem C10_script_p2pk (key : Bytes) (hl : key.length = 33 ∨ key.length = 65) :
    pushedData (p2pk key) = some [key] ∧ scriptClass (p2pk key) = .pubKey ∧ updatable (p2pk key) = true := by
  obtain ⟨_, a, b⟩ := p2pk_facts hl
  exact ⟨a, b, by unfold updatable; rw [b]⟩

/-- … also when the key is pushed with OP_PUSHDATA1/2/4: any well-formed instruction carrying 33 or 65 bytes -/
theorem C10_script_p2pk_any_push (k : Token) (hw : k.wf = true) (hk : k.data.length = 33 ∨ k.data.length = 65) :
    pushedData (encodeTok k ++ [0xac]) = some [k.data] ∧ updatable (encodeTok k ++ [0xac]) = true := by
  obtain ⟨_, a, b⟩ := p2pk_general k hw (by unfold keyLen; simpa using hk)
  exact ⟨a, by unfold updatable; rw [b]⟩

example : (Token.mk 0x4c (List.replicate 33 7)).wf = true ∧ (Token.mk 0x4d (List.replicate 65 7)).wf = true := by decide

/-- bare multisig `OP_m <key>… OP_n OP_CHECKMULTISIG` with `0 ≤ m ≤ 16`, `1 ≤ n ≤ 16` keys of 33 or 65 bytes
(`m ≤ n` is *not* required by txscript): the keys are reported, OP_1..OP_16 contribute nothing, but `m = 0`
(OP_0) contributes an empty datum in front. -/
theorem C10_script_multisig (m : Nat) (keys : List Bytes) (hm : m ≤ 16) (hn1 : 1 ≤ keys.length) (hn2 : keys.length ≤ 16)
    (hk : ∀ k ∈ keys, k.length = 33 ∨ k.length = 65) :
    pushedData (multisig m keys) = some ((if m = 0 then [[]] else []) ++ keys) ∧
    scriptClass (multisig m keys) = .multiSig ∧ updatable (multisig m keys) = true := by
  obtain ⟨_, a, b⟩ := multisig_facts hm hn1 hn2 hk
  exact ⟨a, b, by unfold updatable; rw [b]⟩

example : (∀ k ∈ [List.replicate 33 (2 : UInt8), List.replicate 65 4], k.length = 33 ∨ k.length = 65) ∧
    updatable (multisig 1 [List.replicate 33 2, List.replicate 65 4]) = true ∧
    updatable (multisig 16 [List.replicate 33 2]) = true ∧
    pushedData (multisig 0 [List.replicate 33 2]) = some [[], List.replicate 33 2] := by decide
/-- the bounds are needed: no keys, a 34-byte key, m = 17, 17 keys -/
example : updatable (multisig 1 []) = false ∧
    updatable (multisig 1 [List.replicate 34 2]) = false ∧ updatable (multisig 17 [List.replicate 33 2]) = false := by
  decide
set_option maxRecDepth 8192 in
example : updatable (multisig 1 (List.replicate 17 (List.replicate 33 2))) = false := by decide

/-- `OP_RETURN <data>`, `1 ≤ |data| ≤ 75`: the data; class NullDataTy -/
theorem C10_script_nulldata (d : Bytes) (h1 : 1 ≤ d.length) (h2 : d.length ≤ 75) :
    pushedData (nullData d) = some [d] ∧ scriptClass (nullData d) = .nullData ∧ updatable (nullData d) = false := by
  obtain ⟨_, a, b⟩ := nullData_facts h1 h2
  exact ⟨a, b, by unfold updatable; rw [b]⟩

example : pushedData (nullData [1, 2, 3]) = some [[1, 2, 3]] ∧ pushedData [0x6a] = some [] := by decide

/-! ### 3. `updatable` -/

/-- the order of the tests in `typeOfScript` does not matter for this question: a script is pay-to-pubkey or
multisig iff it parses and `isPubKey` or `isMultiSig` holds of its tokens (a multisig token list is never
P2PKH, P2SH or P2SH32, which are tested before it) -/
theorem C10_script_updatable_iff (s : Bytes) :
    updatable s = true ↔ ∃ ts, tokenize s = some ts ∧ (isPubKey ts = true ∨ isMultiSig ts = true) := by
  rw [updatable_eq]
  cases tokenize s with
  | none => simp
  | some ts => simp

/-- `isMultiSig`, exactly: at least four instructions — a small integer (OP_0, OP_1..OP_16), then `n ≥ 1`
instructions carrying 33 or 65 bytes each, then the small integer `n`, then OP_CHECKMULTISIG. -/
theorem C10_script_isMultiSig_iff (ts : List Token) : isMultiSig ts = true ↔
    ∃ mt keys nt ct, ts = mt :: (keys ++ [nt, ct]) ∧ 1 ≤ keys.length ∧ isSmallInt mt.op = true ∧
      isSmallInt nt.op = true ∧ ct.op.toNat = 0xae ∧ keys.length = asSmallInt nt.op ∧
      ∀ k ∈ keys, k.data.length = 33 ∨ k.data.length = 65 := by
  rw [isMultiSig_iff]
  simp [keyLen]

/-- `isPubkey`, exactly: two instructions, the first carries 33 or 65 bytes, the second is OP_CHECKSIG -/
theorem C10_script_isPubKey_iff (ts : List Token) : isPubKey ts = true ↔
    ∃ k c, ts = [k, c] ∧ (k.data.length = 33 ∨ k.data.length = 65) ∧ c.op.toNat = 0xac := by
  rw [isPubKey_iff]
  simp [keyLen]

/-- **what txscript requires, on the raw bytes**: `updatable s` iff `s` is one push instruction of 33 or 65 bytes
followed by 0xac, or a small-integer opcode, `n` (1..16) push instructions of 33 or 65 bytes each, the opcode of
`n` and 0xae. -/
theorem C10_script_updatable_raw_iff (s : Bytes) : updatable s = true ↔
    (∃ k : Token, k.wf = true ∧ (k.data.length = 33 ∨ k.data.length = 65) ∧ s = encodeTok k ++ [0xac]) ∨
    (∃ (mop nop : UInt8) (keys : List Token), isSmallInt mop = true ∧ isSmallInt nop = true ∧ 1 ≤ keys.length ∧
      keys.length = asSmallInt nop ∧ (∀ k ∈ keys, k.wf = true ∧ (k.data.length = 33 ∨ k.data.length = 65)) ∧
      s = mop :: (encode keys ++ [nop, 0xae])) := by
  rw [updatable_raw_iff]
  simp [keyLen]

/-- a script that does not tokenize is not updatable (`GetScriptClass` answers NonStandardTy) -/
theorem C10_script_updatable_unparsable (s : Bytes) (h : tokenize s = none) :
    scriptClass s = .nonStandard ∧ updatable s = false := by
  have : scriptClass s = .nonStandard := by unfold scriptClass; rw [h]
  exact ⟨this, by unfold updatable; rw [this]⟩

example : tokenize [0x05, 0xaa, 0xbb] = none := by decide

/-- the empty script -/
theorem C10_script_updatable_empty : pushedData [] = some [] ∧ scriptClass [] = .nonStandard ∧ updatable [] = false := by
  decide

/-- an updatable script begins with a push opcode (0x01..0x4e) or a small integer (0x00, 0x51..0x60) … -/
theorem C10_script_updatable_first (b : UInt8) (rest : Bytes) (h : updatable (b :: rest) = true) :
    (1 ≤ b.toNat ∧ b.toNat ≤ 0x4e) ∨ b.toNat = 0 ∨ (0x51 ≤ b.toNat ∧ b.toNat ≤ 0x60) := by
  rcases updatable_first h with h | h
  · left
    unfold carriesData isDirect isPushData at h
    simp only [Bool.or_eq_true, Bool.and_eq_true, decide_eq_true_eq] at h
    omega
  · right
    unfold isSmallInt at h
    simpa using h

example : updatable (0x21 :: (List.replicate 33 2 ++ [0xac])) = true := by decide

/-- … hence nothing that begins with OP_RETURN, OP_DUP, OP_HASH160 or OP_HASH256 is: every OP_RETURN script,
every script of P2PKH / P2SH / P2SH32 shape with a hash of whatever length -/
theorem C10_script_not_updatable (rest : Bytes) :
    updatable (0x6a :: rest) = false ∧ updatable (0x76 :: rest) = false ∧
    updatable (0xa9 :: rest) = false ∧ updatable (0xaa :: rest) = false := by
  refine ⟨?_, ?_, ?_, ?_⟩ <;>
  · cases h : updatable (_ :: rest) with
    | false => rfl
    | true =>
      have := C10_script_updatable_first _ rest h
      revert this; decide

/-! ### 4. the cross-check of the driver -/

/-- `agrees` holds exactly of the spec's answers -/
theorem C10_script_agrees_iff (s : Bytes) (p : Option (List Bytes)) (u : Bool) :
    agrees s p u = true ↔ p = pushedData s ∧ u = updatable s :=
  agrees_iff s p u

/-- … i.e. exactly when the record the harness printed is the record of the raw script -/
theorem C10_script_agrees_out (s : Bytes) (o : TxOut) :
    agrees s o.pushes o.isPubKeyOrMultisig = true ↔ o = outOf s := by
  rw [agrees_iff]
  cases o with
  | mk p u => simp [outOf]

/-! the answers below are what txscript (bchd v0.20.0) gives (read off the Go code, and confirmed by running it) -/
section
/-- empty script: no pushes, NonStandardTy -/
example : agrees [] (some []) false = true := by decide
/-- `51` OP_1: no push -/
example : agrees [0x51] (some []) false = true := by decide
/-- `00` OP_0: one empty push -/
example : agrees [0x00] (some [[]]) false = true := by decide
/-- `4f` OP_1NEGATE: no push -/
example : agrees [0x4f] (some []) false = true := by decide
/-- `4c 00`: one empty push (a non-nil empty slice) -/
example : agrees [0x4c, 0x00] (some [[]]) false = true := by decide
example : agrees [0x4c, 0x01, 0xaa] (some [[0xaa]]) false = true := by decide
example : agrees [0x4d, 0x01, 0x00, 0xaa] (some [[0xaa]]) false = true := by decide
example : agrees [0x4e, 0x01, 0x00, 0x00, 0x00, 0xaa] (some [[0xaa]]) false = true := by decide
/-- `05 aa bb`: truncated, the harness prints `E` -/
example : agrees [0x05, 0xaa, 0xbb] none false = true := by decide
/-- a good push followed by a truncated one: error, nothing partial -/
example : agrees [0x01, 0xaa, 0x4c] none false = true := by decide
/-- `ff` (OP_INVALIDOPCODE) and `ef` are one-byte instructions without data: no error -/
example : agrees [0xff] (some []) false = true := by decide
example : agrees [0x01, 0xaa, 0xff, 0xef] (some [[0xaa]]) false = true := by decide
/-- P2PKH, P2SH, P2SH32 -/
example : agrees (p2pkh (List.replicate 20 0x11)) (some [List.replicate 20 0x11]) false = true := by decide
example : agrees (p2sh (List.replicate 20 0x11)) (some [List.replicate 20 0x11]) false = true := by decide
example : agrees (p2sh32 (List.replicate 32 0x11)) (some [List.replicate 32 0x11]) false = true := by decide
/-- P2PK with a 33-byte key (and with a 65-byte key, and pushed with OP_PUSHDATA1) -/
example : agrees (p2pk (0x02 :: List.replicate 32 0x11)) (some [0x02 :: List.replicate 32 0x11]) true = true := by decide
example : agrees (p2pk (0x04 :: List.replicate 64 0x11)) (some [0x04 :: List.replicate 64 0x11]) true = true := by decide
example : agrees (pushData1 (List.replicate 33 0) ++ [0xac]) (some [List.replicate 33 0]) true = true := by decide
/-- a 32-byte "key": pushes reported, not pay-to-pubkey -/
example : agrees (p2pk (List.replicate 32 0x11)) (some [List.replicate 32 0x11]) false = true := by decide
/-- 1-of-2 multisig -/
example : agrees (multisig 1 [0x02 :: List.replicate 32 0x11, 0x04 :: List.replicate 64 0x22])
    (some [0x02 :: List.replicate 32 0x11, 0x04 :: List.replicate 64 0x22]) true = true := by decide
/-- `OP_0 <key> OP_1 OP_CHECKMULTISIG`: MultiSigTy, and the OP_0 is reported as an empty push -/
example : agrees (multisig 0 [List.replicate 33 2]) (some [[], List.replicate 33 2]) true = true := by decide
/-- OP_RETURN with data -/
example : agrees (nullData [1, 2, 3]) (some [[1, 2, 3]]) false = true := by decide
/-- the check does reject wrong answers -/
example : agrees [0x00] (some []) false = false ∧ agrees [0x51] (some [[1]]) false = false ∧
    agrees [0x05, 0xaa, 0xbb] (some [[0xaa, 0xbb]]) false = false ∧
    agrees (p2pk (List.replicate 33 2)) (some [List.replicate 33 2]) false = false := by decide
end

/-! ### 5. C10 on raw scripts -/

variable {F : Type} {O : FilterOps F} {G : F → Prop}

/-- `C10_match_iff` for a transaction given by its raw scripts (`txOf`: every script replaced by the record
`pushedData` / `updatable` compute): the verdict is true iff the loaded filter contains the id, a datum pushed by a
parsable output script, a spent outpoint, or a datum pushed by a parsable input script. -/
theorem C10_script_match_iff (L : LawfulOn O G) (f : F) (r : RawTx) :
    (matchTxAndUpdate O f (txOf r)).2 = true ↔
      (O.test f r.id = true ∨
       (∃ script ∈ r.outs, ∃ ps, pushedData script = some ps ∧ ∃ d ∈ ps, O.test f d = true) ∨
       (∃ inp ∈ r.ins, O.test f (outPointBytes inp.prevHash inp.prevIdx) = true ∨
          ∃ ps, pushedData inp.script = some ps ∧ ∃ d ∈ ps, O.test f d = true)) := by
  rw [C10_match_iff L]
  refine or_congr Iff.rfl (or_congr ?_ ?_)
  · constructor
    · rintro ⟨out, ho, hp⟩
      simp only [txOf, List.mem_map] at ho
      obtain ⟨script, hs, rfl⟩ := ho
      exact ⟨script, hs, hp⟩
    · rintro ⟨script, hs, hp⟩
      exact ⟨outOf script, by simp only [txOf, List.mem_map]; exact ⟨script, hs, rfl⟩, hp⟩
  · constructor
    · rintro ⟨inp, hi, hp⟩
      simp only [txOf, List.mem_map] at hi
      obtain ⟨ri, hs, rfl⟩ := hi
      exact ⟨ri, hs, hp⟩
    · rintro ⟨ri, hs, hp⟩
      exact ⟨inOf ri, by simp only [txOf, List.mem_map]; exact ⟨ri, hs, rfl⟩, hp⟩

/-- `C10_update_mem` for raw scripts: the outpoint of output `i` is inserted iff the output exists, the flag is
"all" or the flag is "pay-to-pubkey only" and the script is pay-to-pubkey or multisig *as specified from its
bytes*, and one of its pushed data matches the filter at its turn. -/
theorem C10_script_update_mem (L : LawfulOn O G) (f : F) (r : RawTx) (i : Nat) :
    i ∈ updIdxs O f (txOf r) ↔
      ∃ script, r.outs[i]? = some script ∧
        (O.flags f = 1 ∨ (O.flags f = 2 ∧ updatable script = true)) ∧
        ∃ ps, pushedData script = some ps ∧ ∃ d ∈ ps, O.test (filterAt O f (txOf r) i) d = true := by
  rw [C10_update_mem L]
  constructor
  · rintro ⟨o, ho, he, hp⟩
    simp only [txOf, List.getElem?_map, Option.map_eq_some_iff] at ho
    obtain ⟨script, hs, rfl⟩ := ho
    exact ⟨script, hs, he, hp⟩
  · rintro ⟨script, hs, he, hp⟩
    refine ⟨outOf script, ?_, he, hp⟩
    simp [txOf, hs]

end Bch.Props.C10
