namespace Bch.Props.C04
theorem placeholder : True := trivial
end Bch.Props.C04
