import Bch.Proofs.HDKey
/-!
# C04 — HD key derivation conforms to BIP32 on every seed and path

`Bch.Model.HDKey` is the byte-level model of `hdkeychain/extendedkey.go`, `Bch.Spec.BIP32` an
independent transcription of the BIP32 text over numbers and points. Both are parameterised by the
same pack `X : HDExt Pt` of external primitives. Everything assumed about `X` is the structure
`GroupLaws X` (plus, only for `hd_wf_parse`, `ParseCanonical X`); `Toy.X` (ℤ/7) satisfies both.

Vocabulary (all defined in `Bch/Proofs/HDKey.lean`):
* `WF X k` — 32-byte private / 33-byte canonical public key, 32-byte chain code, 4-byte fingerprint
  and version, depth ≤ 255;  `Reduced X k` — private scalar `< n`.
* `abs X k : Option (SKey Pt)` — the BIP32-level key a byte-level key denotes.
* `specI X s i`, `specIL X s i` — the `I` and `parse256(I_L)` of CKDpriv/CKDpub for parent `s`;
  `childI X k i`, `childIL X k i` — the same quantities computed the way the Go code does.
* `NonDegenerate X s i` — the child scalar is not 0 (private) / the child point is not ∞ (public).
-/
namespace Bch.Props.C04
open Bch Bch.Model Bch.Model.HDKey Bch.Spec.BIP32 Bch.Proofs.HDKey Bytes

variable {Pt : Type} {X : HDExt Pt}

/-! ### the external laws are satisfiable -/
example : GroupLaws Toy.X := Toy.laws
example : ParseCanonical Toy.X := Toy.parseCanonical

/-! ### left padding of `big.Int.Bytes()` (the historic short-scalar bug class) -/

/-- The padding `Child` applies to `ilNum.Bytes()` yields the 32-byte big-endian encoding, for every
scalar below 2^256 — whatever the number (0..32) of leading zero bytes. -/
theorem pad32_natToBytes (k : Nat) (h : k < 2 ^ 256) :
    List.replicate (32 - (ofNatMin k).length) 0 ++ ofNatMin k = ofNatBE 32 k :=
  pad_ofNatMin 32 k (by rw [pow256_32]; exact h)

/-- … and it is exactly 32 bytes long. -/
theorem pad32_length (k : Nat) (h : k < 2 ^ 256) :
    (List.replicate (32 - (ofNatMin k).length) 0 ++ ofNatMin k).length = 32 := by
  rw [pad32_natToBytes k h]; exact length_ofNatBE 32 k

/-- `ser256` then `parse256` is the identity below 2^256. -/
theorem pad32_toNatBE_ofNatBE (k : Nat) (h : k < 2 ^ 256) : toNatBE (ofNatBE 32 k) = k :=
  toNatBE_ofNatBE 32 k (by rw [pow256_32]; exact h)

/-- `parse256` then `ser256` is the identity on 32-byte strings. -/
theorem pad32_ofNatBE_toNatBE (b : Bytes) (h : b.length = 32) : ofNatBE 32 (toNatBE b) = b :=
  ofNatBE_toNatBE' 32 b h

/-- 32 bytes denote a number below 2^256. -/
theorem pad32_toNatBE_lt (b : Bytes) (h : b.length = 32) : toNatBE b < 2 ^ 256 := by
  have := toNatBE_lt b; rw [h, pow256_32] at this; exact this

/-- Every number `j = 0..32` of leading zero bytes really occurs below 2^256: a scalar in
`[256^m, 256^(m+1))` has an `(m+1)`-byte minimal encoding, i.e. `31 - m` bytes of padding … -/
theorem pad32_leading_zero_bytes (m k : Nat) (h1 : 256 ^ m ≤ k) (h2 : k < 256 ^ (m + 1)) :
    (ofNatMin k).length = m + 1 :=
  length_ofNatMin_eq m k h1 h2

/-- … and 0 needs all 32. -/
theorem pad32_zero : List.replicate (32 - (ofNatMin 0).length) 0 ++ ofNatMin 0 = List.replicate 32 0 := by
  rw [pad32_natToBytes 0 (by decide), ofNatBE_zero]

-- non-vacuity: for each m < 32 there is a scalar < 2^256 with exactly 31 - m leading zero bytes
example (m : Nat) (hm : m < 32) : ∃ k, k < 2 ^ 256 ∧ (ofNatMin k).length = m + 1 := by
  refine ⟨256 ^ m, ?_, pad32_leading_zero_bytes m _ (Nat.le_refl _) (Nat.pow_lt_pow_right (by decide) (by omega))⟩
  rw [← pow256_32]; exact Nat.pow_lt_pow_right (by decide) hm
example : List.replicate (32 - (ofNatMin 1).length) 0 ++ ofNatMin 1 = List.replicate 31 0 ++ [1] := by
  rw [pad32_natToBytes 1 (by decide)]; decide +kernel

/-! ### `hd_wf`: the invariant -/

/-- `NewMaster` produces well-formed private keys with scalar in `[1, n-1]` and depth 0. -/
theorem hd_wf_master (L : GroupLaws X) {seed hdPriv : Bytes} (hv : hdPriv.length = 4) {k : XKey}
    (h : NewMaster X seed hdPriv = .ok k) :
    WF X k ∧ Reduced X k ∧ toNatBE k.key ≠ 0 ∧ k.isPrivate = true ∧ k.depth = 0 :=
  wf_newMaster L hv h

example : ∃ k, Toy.xprv.length = 4 ∧ NewMaster Toy.X Toy.seed Toy.xprv = .ok k :=
  Toy.master_seed.elim fun k h => ⟨k, rfl, h⟩

/-- Whatever a successful `Child` returns has a 32-byte chain code, 4-byte fingerprint, the parent's
version and flag, depth + 1 ≤ 255 and child number `i`. -/
theorem hd_wf_child_fields (L : GroupLaws X) {k : XKey} (hwf : WF X k) {i : Nat} {k' : XKey}
    (h : Child X k i = .ok k') :
    k'.chainCode.length = 32 ∧ k'.parentFP.length = 4 ∧ k'.version = k.version ∧
      k'.depth = k.depth + 1 ∧ k'.depth ≤ 255 ∧ k'.childNum = i ∧ k'.isPrivate = k.isPrivate ∧
      k'.chainCode = (childI X k i).drop 32 ∧ k'.parentFP = (X.hash160 (pubKeyBytes X k)).take 4 :=
  child_lens L hwf h

/-- Private `Child` preserves `WF`; the child key is the 32-byte encoding of `(IL + k) mod n`
(so it is reduced). This is where `pad32_natToBytes` is used. -/
theorem hd_wf_child_priv (L : GroupLaws X) {k : XKey} (hwf : WF X k) (hp : k.isPrivate = true) {i : Nat}
    {k' : XKey} (h : Child X k i = .ok k') :
    WF X k' ∧ Reduced X k' ∧ k'.isPrivate = true ∧
      k'.key = ofNatBE 32 ((childIL X k i + toNatBE k.key) % X.n) :=
  wf_child_priv L hwf hp h

example : ∃ k', WF Toy.X Toy.kPriv ∧ Toy.kPriv.isPrivate = true ∧ Child Toy.X Toy.kPriv (2 ^ 31) = .ok k' :=
  Toy.child_kPriv_hard.elim fun c h => ⟨c, Toy.wf_kPriv, rfl, h⟩

/-- Public `Child` preserves `WF` provided the child point `IL·G + K` is not the point at infinity
(the Go code does not test this; if it is ∞ the child key is `serInf`, which need not parse). -/
theorem hd_wf_child_pub (L : GroupLaws X) {k : XKey} (hwf : WF X k) (hp : k.isPrivate = false) {i : Nat}
    {k' : XKey} (h : Child X k i = .ok k') {Q : Pt}
    (hnd : addO X (X.mulG (childIL X k i)) (X.parse k.key) = some Q) :
    WF X k' ∧ k'.isPrivate = false ∧ k'.key = X.serC Q :=
  wf_child_pub L hwf hp h hnd

example : ∃ k' Q, WF Toy.X Toy.kPub ∧ Toy.kPub.isPrivate = false ∧ Child Toy.X Toy.kPub 0 = .ok k' ∧
    addO Toy.X (Toy.X.mulG (childIL Toy.X Toy.kPub 0)) (Toy.X.parse Toy.kPub.key) = some Q :=
  Toy.child_kPub_0.elim fun c h => ⟨c, 1, Toy.wf_kPub, rfl, h, by rw [Toy.IL_kPub_0]; decide +kernel⟩

/-- `Neuter` preserves `WF` provided the private scalar is not ≡ 0 mod n (otherwise the public key is
the stand-in for ∞). It copies chain code, depth, fingerprint, child number. -/
theorem hd_wf_neuter (L : GroupLaws X) {k : XKey} (hwf : WF X k)
    (hnz : k.isPrivate = true → toNatBE k.key % X.n ≠ 0) {k' : XKey} (h : Neuter X k = .ok k') :
    WF X k' ∧ k'.isPrivate = false ∧ k'.key = pubKeyBytes X k ∧ k'.chainCode = k.chainCode ∧
      k'.depth = k.depth ∧ k'.parentFP = k.parentFP ∧ k'.childNum = k.childNum :=
  wf_neuter L hwf hnz h

example : ∃ nk, WF Toy.X Toy.kPriv ∧ (Toy.kPriv.isPrivate = true → toNatBE Toy.kPriv.key % Toy.X.n ≠ 0) ∧
    Neuter Toy.X Toy.kPriv = .ok nk :=
  Toy.neuter_kPriv.elim fun nk h => ⟨nk, Toy.wf_kPriv, fun _ => by rw [Toy.key_kPriv]; decide, h⟩

/-- (Non-vacuity: accepted strings of the toy instance are exhibited in `Bch/Props/C05.lean`.)
Keys accepted by `NewKeyFromString` are well-formed, reduced and non-zero. The public case needs
`ParseCanonical` (`ParsePubKey` accepts only the canonical compressed encoding of its result);
no other theorem of C04/C05 uses that extra law. -/
theorem hd_wf_parse (hc : ParseCanonical X) {s : Bytes} {k : XKey} (h : NewKeyFromString X s = .ok k) :
    WF X k ∧ Reduced X k ∧ (k.isPrivate = true → toNatBE k.key ≠ 0) ∧ k.childNum < 2 ^ 32 :=
  wf_newKeyFromString hc h

/-! ### master key -/

/-- `NewMaster` computes BIP32's master key. -/
theorem C04_master (L : GroupLaws X) {seed v : Bytes} {k : XKey} (h : NewMaster X seed v = .ok k) :
    ∃ s, master X seed = some s ∧ abs X k = some s :=
  master_refines L h

/-- … and fails exactly when BIP32 declares the seed invalid. -/
theorem C04_master_none (L : GroupLaws X) (seed v : Bytes) :
    master X seed = none ↔ ∃ e, NewMaster X seed v = .error e :=
  master_none_iff L seed v

example : NewMaster Toy.X Toy.badSeed Toy.xprv = .error .unusableSeed := Toy.master_badSeed

/-! ### refinement of `Child` -/

/-- **Private derivation refines CKDpriv.** For a well-formed private key `k` denoting `s`: if
`Child` succeeds, so does the specification, the child denotes the specified child, and scalar,
depth, child number, fingerprint and chain code are the specified ones.

Hypothesis `hnd`: BIP32 declares the child invalid when `(IL + k) mod n = 0`; the Go code does not
test that, so the theorem carries `(IL + k) mod n ≠ 0`. -/
theorem C04_refines_priv (L : GroupLaws X) {k : XKey} (hwf : WF X k) (hp : k.isPrivate = true)
    {s : SKey Pt} (habs : abs X k = some s) {i : Nat} {k' : XKey} (hc : Child X k i = .ok k')
    (hnd : (specIL X s i + toNatBE k.key) % X.n ≠ 0) :
    ∃ s', child X s i = some s' ∧ abs X k' = some s' ∧ WF X k' ∧
      s'.priv = some ((specIL X s i + toNatBE k.key) % X.n) ∧ s'.depth = s.depth + 1 ∧ s'.idx = i ∧
      s'.fp = fingerprint X s.pub ∧ s'.c = (specI X s i).drop 32 := by
  obtain ⟨K, _, hs⟩ := abs_priv hp habs
  exact refines_priv L hwf hp habs hc ((nondeg_priv (by rw [hs]) i).2 hnd)

example : ∃ k', WF Toy.X Toy.kPriv ∧ abs Toy.X Toy.kPriv = some Toy.sPriv ∧
    Child Toy.X Toy.kPriv (2 ^ 31) = .ok k' ∧
    (specIL Toy.X Toy.sPriv (2 ^ 31) + toNatBE Toy.kPriv.key) % Toy.X.n ≠ 0 :=
  Toy.child_kPriv_hard.elim fun c h =>
    ⟨c, Toy.wf_kPriv, Toy.abs_kPriv, h, by rw [Toy.specIL_sPriv_hard, Toy.key_kPriv]; decide⟩

/-- **Public derivation refines CKDpub.** Hypothesis `hnd`: the child point `IL·G + K` is not ∞
(declared invalid by BIP32, not tested by the Go code). -/
theorem C04_refines_pub (L : GroupLaws X) {k : XKey} (hwf : WF X k) (hp : k.isPrivate = false)
    {s : SKey Pt} (habs : abs X k = some s) {i : Nat} {k' : XKey} (hc : Child X k i = .ok k')
    (hnd : addO X (X.mulG (specIL X s i)) (some s.pub) ≠ none) :
    ∃ s', child X s i = some s' ∧ abs X k' = some s' ∧ WF X k' ∧
      s'.priv = none ∧ addO X (X.mulG (specIL X s i)) (some s.pub) = some s'.pub ∧
      s'.depth = s.depth + 1 ∧ s'.idx = i ∧
      s'.fp = fingerprint X s.pub ∧ s'.c = (specI X s i).drop 32 := by
  obtain ⟨K, _, hs⟩ := abs_pub hp habs
  exact refines_pub L hwf hp habs hc ((nondeg_pub (by rw [hs]) i).2 hnd)

example : ∃ k', WF Toy.X Toy.kPub ∧ abs Toy.X Toy.kPub = some Toy.sPub ∧ Child Toy.X Toy.kPub 0 = .ok k' ∧
    addO Toy.X (Toy.X.mulG (specIL Toy.X Toy.sPub 0)) (some Toy.sPub.pub) ≠ none :=
  Toy.child_kPub_0.elim fun c h =>
    ⟨c, Toy.wf_kPub, Toy.abs_kPub, h, (nondeg_pub rfl 0).1 Toy.nondeg_sPub_0⟩

/-- **Converse (private).** Whenever CKDpriv yields a child and `IL ≠ 0`, `Child` succeeds (unless the
depth guard fires) and returns the key denoting that child. `IL = 0` is excluded because the Go code
refuses it (see `C04_spec_none_priv`). -/
theorem C04_refines_priv_complete (L : GroupLaws X) {k : XKey} (hwf : WF X k) (hp : k.isPrivate = true)
    {s : SKey Pt} (habs : abs X k = some s) {i : Nat} (hd : k.depth ≠ 255) {s' : SKey Pt}
    (hs' : child X s i = some s') (h0 : specIL X s i ≠ 0) :
    ∃ k', Child X k i = .ok k' ∧ abs X k' = some s' ∧ WF X k' :=
  refines_priv_complete L hwf hp habs hd hs' h0

/-- **Converse (public).** Whenever CKDpub (as transcribed) yields a child, so does `Child`. -/
theorem C04_refines_pub_complete (L : GroupLaws X) {k : XKey} (hwf : WF X k) (hp : k.isPrivate = false)
    {s : SKey Pt} (habs : abs X k = some s) {i : Nat} (hd : k.depth ≠ 255) {s' : SKey Pt}
    (hs' : child X s i = some s') :
    ∃ k', Child X k i = .ok k' ∧ abs X k' = some s' ∧ WF X k' :=
  refines_pub_complete L hwf hp habs hd hs'

example : ∃ s', WF Toy.X Toy.kPriv ∧ abs Toy.X Toy.kPriv = some Toy.sPriv ∧ Toy.kPriv.depth ≠ 255 ∧
    child Toy.X Toy.sPriv 0 = some s' ∧ specIL Toy.X Toy.sPriv 0 ≠ 0 :=
  Toy.child_kPriv_0.elim fun _ h =>
    (refines_priv Toy.laws Toy.wf_kPriv rfl Toy.abs_kPriv h Toy.nondeg_sPriv_0).elim fun s' hs' =>
      ⟨s', Toy.wf_kPriv, Toy.abs_kPriv, by decide, hs'.1, by rw [Toy.specIL_sPriv_0]; decide⟩
example : ∃ s', WF Toy.X Toy.kPub ∧ abs Toy.X Toy.kPub = some Toy.sPub ∧ Toy.kPub.depth ≠ 255 ∧
    child Toy.X Toy.sPub 0 = some s' :=
  Toy.child_kPub_0.elim fun _ h =>
    (refines_pub Toy.laws Toy.wf_kPub rfl Toy.abs_kPub h Toy.nondeg_sPub_0).elim fun s' hs' =>
      ⟨s', Toy.wf_kPub, Toy.abs_kPub, by decide, hs'.1⟩

/-- The byte strings fed to / returned by HMAC in the Go code (`copy(data[1:], key)` resp.
`pubKeyBytes`, then `PutUint32`) are the `I` of the specification. -/
theorem C04_hmac_data (L : GroupLaws X) {k : XKey} (hwf : WF X k) {s : SKey Pt} (habs : abs X k = some s)
    (i : Nat) (hi : k.isPrivate = true ∨ i < 2 ^ 31) :
    childI X k i = specI X s i ∧ childIL X k i = specIL X s i :=
  ⟨childI_eq_specI L hwf habs i hi, childIL_eq_specIL L hwf habs i hi⟩

/-- The fields `abs` transports unchanged. -/
theorem C04_abs_fields {k : XKey} {s : SKey Pt} (h : abs X k = some s) :
    s.c = k.chainCode ∧ s.depth = k.depth ∧ s.fp = k.parentFP ∧ s.idx = k.childNum ∧
      s.priv.isSome = k.isPrivate :=
  abs_fields h

/-- **All errors of private `Child`.** `ErrInvalidChild` exactly when `parse256(IL) ≥ n ∨ = 0`
(after the depth guard). -/
theorem C04_child_error_priv (L : GroupLaws X) {k : XKey} (hp : k.isPrivate = true) (i : Nat) (e : Err) :
    Child X k i = .error e ↔
      (k.depth = 255 ∧ e = .deriveBeyondMaxDepth) ∨
      (k.depth ≠ 255 ∧ (childIL X k i ≥ X.n ∨ childIL X k i = 0) ∧ e = .invalidChild) :=
  child_error_priv L hp i e

/-- **All errors of public `Child`** (for a key that parses). Given the laws, `IL·G = ∞` happens
only for `IL = 0`, so the Go test `ilx == 0 || ily == 0` never fires after the range check. -/
theorem C04_child_error_pub (L : GroupLaws X) {k : XKey} (hp : k.isPrivate = false) {P : Pt}
    (hP : X.parse k.key = some P) (i : Nat) (e : Err) :
    Child X k i = .error e ↔
      (k.depth = 255 ∧ e = .deriveBeyondMaxDepth) ∨
      (k.depth ≠ 255 ∧ i ≥ 2 ^ 31 ∧ e = .deriveHardFromPublic) ∨
      (k.depth ≠ 255 ∧ i < 2 ^ 31 ∧ (childIL X k i ≥ X.n ∨ childIL X k i = 0) ∧ e = .invalidChild) :=
  child_error_pub L hp hP i e

/-- When CKDpriv is invalid: `IL ≥ n` or child scalar 0. **Deviation, stated precisely**: the Go
code (`C04_child_error_priv`) rejects `IL ≥ n ∨ IL = 0`; the specification rejects
`IL ≥ n ∨ (IL + k) mod n = 0`. So Go additionally refuses `IL = 0` (where the spec's child has the
parent's scalar), and Go accepts `(IL + k) mod n = 0` (child scalar 0) which the spec refuses. Both
events need an HMAC preimage. -/
theorem C04_spec_none_priv (L : GroupLaws X) (s : SKey Pt) {kk : Nat} (hs : s.priv = some kk) (i : Nat) :
    child X s i = none ↔ specIL X s i ≥ X.n ∨ (specIL X s i + kk) % X.n = 0 :=
  spec_child_none_priv L s hs i

-- the three disagreement/agreement cases exhibited in the toy instance (private parent, scalar 3, n = 7):
-- index 2 has IL = 7 = n: refused by both
example : Child Toy.X Toy.kPriv 2 = .error .invalidChild := Toy.child_kPriv_2
-- index 4 has IL = 0: refused by the Go code, a valid child for the specification
example : Child Toy.X Toy.kPriv 4 = .error .invalidChild ∧ child Toy.X Toy.sPriv 4 ≠ none :=
  ⟨Toy.child_kPriv_4, Toy.spec_child_sPriv_4⟩
-- index 8 has IL = 4, (4 + 3) mod 7 = 0: the Go code returns a key with scalar 0, the specification
-- declares the child invalid (so the hypothesis `hnd` of `C04_refines_priv` cannot be dropped)
example : Child Toy.X Toy.kPriv 8 = .ok Toy.cZero ∧ toNatBE Toy.cZero.key = 0 ∧
    child Toy.X Toy.sPriv 8 = none :=
  ⟨Toy.child_kPriv_8, by decide +kernel, Toy.spec_child_sPriv_8⟩

/-- When CKDpub (as transcribed in `Spec/BIP32.lean`) is invalid: hardened index, `IL ≥ n`,
`IL·G = ∞` (i.e. `IL = 0`), or child point ∞. The Go code rejects the first three cases
(`C04_child_error_pub`) but not the last. -/
theorem C04_spec_none_pub (L : GroupLaws X) (s : SKey Pt) (hs : s.priv = none) (i : Nat) :
    child X s i = none ↔
      i ≥ 2 ^ 31 ∨ specIL X s i ≥ X.n ∨ specIL X s i = 0 ∨
        addO X (X.mulG (specIL X s i)) (some s.pub) = none :=
  spec_child_none_pub L s hs i

/-- **Paths.** `derivePath` is iterated `Child` with Go's error propagation, `specPath` iterated
CKD. If the Go derivation along `p` succeeds and no step is degenerate (`NonDegPath`: at every step
the spec-level parent and index satisfy `NonDegenerate`), the spec derivation succeeds and the
results correspond; the result is again well-formed. -/
theorem C04_path (L : GroupLaws X) (p : List Nat) {k : XKey} (hwf : WF X k)
    {s : SKey Pt} (habs : abs X k = some s) {k' : XKey} (hc : derivePath X k p = .ok k')
    (hnd : NonDegPath X s p) :
    ∃ s', specPath X s p = some s' ∧ abs X k' = some s' ∧ WF X k' :=
  refines_path L p hwf habs hc hnd

/-- From a seed: master key then path. -/
theorem C04_seed_path (L : GroupLaws X) {seed v : Bytes} (hv : v.length = 4) (p : List Nat) {m k' : XKey}
    (hm : NewMaster X seed v = .ok m) (hc : derivePath X m p = .ok k')
    (hnd : ∀ s, master X seed = some s → NonDegPath X s p) :
    ∃ s s', master X seed = some s ∧ specPath X s p = some s' ∧ abs X k' = some s' ∧ WF X k' := by
  obtain ⟨s, hs, ha⟩ := master_refines L hm
  obtain ⟨s', h1, h2, h3⟩ := refines_path L p (wf_newMaster L hv hm).1 ha hc (hnd s hs)
  exact ⟨s, s', hs, h1, h2, h3⟩

example : ∃ m, Toy.xprv.length = 4 ∧ NewMaster Toy.X Toy.seed Toy.xprv = .ok m ∧
    derivePath Toy.X m [] = .ok m ∧ ∀ s, master Toy.X Toy.seed = some s → NonDegPath Toy.X s [] :=
  Toy.master_seed.elim fun m h => ⟨m, rfl, h, rfl, fun _ _ => trivial⟩

example : ∃ k', WF Toy.X Toy.kPriv ∧ abs Toy.X Toy.kPriv = some Toy.sPriv ∧
    derivePath Toy.X Toy.kPriv [0] = .ok k' ∧ NonDegPath Toy.X Toy.sPriv [0] :=
  Toy.child_kPriv_0.elim fun c h =>
    ⟨c, Toy.wf_kPriv, Toy.abs_kPriv, by simp only [derivePath, h], Toy.nondeg_sPriv_0, fun _ _ => trivial⟩

/-! ### serialisation -/

/-- **`String` is BIP32's serialisation** of `abs k` (4 version ‖ 1 depth ‖ 4 fingerprint ‖
4 child number ‖ 32 chain code ‖ 33 key, then 4 checksum bytes, Base58), the private key being
`0x00 ‖ ser256(k)` thanks to `paddedAppend`. -/
theorem C04_serialise {k : XKey} (hwf : WF X k) {s : SKey Pt} (habs : abs X k = some s)
    (verPriv verPub : Bytes) (hv : k.version = if k.isPrivate then verPriv else verPub) :
    HDKey.String X k = serialize X verPriv verPub s :=
  serialise hwf habs verPriv verPub hv

example : WF Toy.X Toy.kPriv ∧ abs Toy.X Toy.kPriv = some Toy.sPriv ∧
    Toy.kPriv.version = if Toy.kPriv.isPrivate then Toy.xprv else Toy.xpub :=
  ⟨Toy.wf_kPriv, Toy.abs_kPriv, rfl⟩

/-- The encoded payload is 78 bytes (+ 4 checksum bytes) for every well-formed key. -/
theorem C04_serialise_layout {k : XKey} (hwf : WF X k) :
    HDKey.String X k = Base58.Encode (payload k ++ (X.sha256d (payload k)).take 4) ∧
      (payload k).length = 78 :=
  ⟨String_eq hwf, payload_len hwf⟩

/-! ### neutering commutes with non-hardened derivation -/

/-- **`Neuter (Child k i) = Child (Neuter k) i` for `i < 2^31`**: both succeed and return the same
key (key bytes, chain code, depth, fingerprint, child number, version, flag). From the group laws:
`((IL + k) mod n)·G = IL·G + k·G`. No non-degeneracy hypothesis is needed: if the child scalar is 0
both sides carry `serInf`. Hypotheses: the parent scalar is not ≡ 0 mod n (its public key exists),
and `Neuter k` succeeds (i.e. the version is a registered private HD version). -/
theorem C04_neuter_commutes (L : GroupLaws X) {k : XKey} (hp : k.isPrivate = true)
    (hnz : toNatBE k.key % X.n ≠ 0) {i : Nat} (hi : i < 2 ^ 31) {c : XKey} (hc : Child X k i = .ok c)
    {nk : XKey} (hn : Neuter X k = .ok nk) :
    ∃ nc, Neuter X c = .ok nc ∧ Child X nk i = .ok nc :=
  neuter_commutes L hp hnz hi hc hn

/-- … and the error cases commute as well: if private `Child` fails, public `Child` on the neutered
parent fails with the same error. -/
theorem C04_neuter_commutes_err (L : GroupLaws X) {k : XKey} (hp : k.isPrivate = true)
    (hnz : toNatBE k.key % X.n ≠ 0) {i : Nat} (hi : i < 2 ^ 31) {e : Err} (hc : Child X k i = .error e)
    {nk : XKey} (hn : Neuter X k = .ok nk) : Child X nk i = .error e :=
  neuter_commutes_err L hp hnz hi hc hn

example : ∃ nk, Toy.kPriv.isPrivate = true ∧ toNatBE Toy.kPriv.key % Toy.X.n ≠ 0 ∧ 2 < 2 ^ 31 ∧
    Child Toy.X Toy.kPriv 2 = .error .invalidChild ∧ Neuter Toy.X Toy.kPriv = .ok nk :=
  Toy.neuter_kPriv.elim fun nk h' =>
    ⟨nk, rfl, by rw [Toy.key_kPriv]; decide, by decide, Toy.child_kPriv_2, h'⟩

example : ∃ c nk, Toy.kPriv.isPrivate = true ∧ toNatBE Toy.kPriv.key % Toy.X.n ≠ 0 ∧ 0 < 2 ^ 31 ∧
    Child Toy.X Toy.kPriv 0 = .ok c ∧ Neuter Toy.X Toy.kPriv = .ok nk :=
  Toy.child_kPriv_0.elim fun c h => Toy.neuter_kPriv.elim fun nk h' =>
    ⟨c, nk, rfl, by rw [Toy.key_kPriv]; decide, by decide, h, h'⟩

/-! ### guards -/

/-- Depth 255 ⇒ `ErrDeriveBeyondMaxDepth` (checked first, for every key and index); hardened from
public ⇒ `ErrDeriveHardFromPublic`; seed length outside 16..64 ⇒ `ErrInvalidSeedLen`. -/
theorem C04_guards :
    (∀ (k : XKey) (i : Nat), k.depth = 255 → Child X k i = .error .deriveBeyondMaxDepth) ∧
    (∀ (k : XKey) (i : Nat), k.depth ≠ 255 → k.isPrivate = false → i ≥ 2 ^ 31 →
        Child X k i = .error .deriveHardFromPublic) ∧
    (∀ (seed v : Bytes), seed.length < 16 ∨ seed.length > 64 →
        NewMaster X seed v = .error .invalidSeedLen) :=
  ⟨guard_depth, guard_hard, guard_seed⟩

end Bch.Props.C04
