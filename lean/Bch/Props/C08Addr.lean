import Bch.Proofs.CheckedAddr
/-
C08 (part 4) — no parser panics, hangs or over-allocates on untrusted input: raw Base58
(/repo/base58/base58.go `Decode`, `Encode`) and the outermost address parser `DecodeAddress`
(/repo/address.go:82-194).

`Bch/Proofs/CheckedAddr.lean` holds the fault-tracking transcriptions (same conventions as
`Bch/Proofs/Checked.lean`: every Go index expression, slice expression and `make` is a checked primitive
returning `Except Fault`, cited with its Go line). `DecodeAddressC` composes the pieces already transcribed
in `Checked.lean`: `checkDecodeCashAddressC` (→ `DecodeCashAddressC`) for the two CashAddr attempts, and the
body of `CheckDecodeC` behind the new `Base58DecodeC` for the Base58Check fallback. For each entry point:

* `…C_no_fault : ∃ r, fooC x = .ok r`         — for ALL byte strings (and every network record),
* `…C_eq_model : fooC x = .ok (Model.foo x)`   — the total model is exactly what the checked code computes,
* negative witnesses: the transcription without the guard (or with a 128-entry table) faults,
* the allocation bound of `base58.Decode` and the step budget of `base58.Encode`.

Names are prefixed `base58_` / `addr_` (the namespace `Bch.Props.C08` is shared with `C08.lean` and
`C08Gcs.lean`). External total functions taken from the model, as there: `math/big` (`Nat`),
`strings.EqualFold`, `hex.DecodeString`, `bchec.ParsePubKey`, `chaincfg.Is…AddrID`, the hash functions.
No hypothesis on the hash functions is needed here: `base58.CheckDecode` slices `[32]byte` arrays with
constants (compile-time checked), unlike `DecodeWIF` / `NewKeyFromString`.
-/
namespace Bch.Props.C08
open Bch Bch.Model Bch.Proofs.Checked Bch.Proofs.CheckedAddr

/-! ## 11. `base58.Decode` (base58.go:17-46) -/

/-- Every byte string: `b[i]` in the downward loop, `b58[b[i]]` (a 256-entry table indexed by a byte),
`b[numZeros]` behind `numZeros < len(b)`, `make([]byte, numZeros+len(tmpval))` and `val[numZeros:]` are all
in range. No hypothesis. -/
theorem base58_DecodeC_no_fault (b : Bytes) : ∃ r, Base58DecodeC b = .ok r :=
  Proofs.CheckedAddr.Base58DecodeC_no_fault b

/-- … and the right-to-left accumulation `answer += j·b58[b[i]]; j *= 58` with its early return, the
leading-'1' count and the `copy` compute the model's `Decode`. -/
theorem base58_DecodeC_eq_model (b : Bytes) : Base58DecodeC b = .ok (Base58.Decode b) :=
  Proofs.CheckedAddr.Base58DecodeC_eq_model b

/-- ALLOCATION. The one `make` of `Decode` asks for at most `len(b)` bytes: the result is never longer than
the input (a base-58 digit carries less than a byte, a leading '1' exactly one zero byte). -/
theorem base58_DecodeC_alloc (b r : Bytes) (h : Base58DecodeC b = .ok r) : r.length ≤ b.length :=
  Proofs.CheckedAddr.Base58DecodeC_alloc b r h

/-- NEGATIVE (the size of the table matters): the same transcription run with a 128-entry table — the size
of `CharsetRev` in address.go, which does need a `c > 127` test — faults on the byte 0x80, and on every
string whose last byte is ≥ 0x80. -/
theorem base58_Decode_short_table_witness :
    Base58DecodeG (b58Tbl.take 128) [0x80] = .error .indexOOB ∧
    (∀ (s : Bytes) (c : UInt8), 128 ≤ c.toNat →
      Base58DecodeG (b58Tbl.take 128) (s ++ [c]) = .error .indexOOB) :=
  ⟨Base58DecodeG_short_table_witness, Base58DecodeG_short_table_fault⟩

-- the code as it is returns the empty slice for the same input; the table has 256 entries; test vectors
example : Base58DecodeC [0x80] = .ok [] ∧ b58Tbl.length = 256 := by decide +kernel
example : Base58DecodeC (Bytes.ofString "StV1DL6CwTryKyV") = .ok (Bytes.ofString "hello world") := by
  decide +kernel
example : Base58DecodeC (Bytes.ofString "11233QC4") = .ok [0, 0, 40, 127, 180, 205] := by decide +kernel
example : Base58DecodeC (Bytes.ofString "0OIl") = .ok [] ∧ Base58DecodeC [] = .ok [] := by decide +kernel
-- the allocation bound is attained (all-'1' strings) and its hypothesis is satisfiable
example : Base58DecodeC [49, 49, 49] = .ok [0, 0, 0] := by decide +kernel

/-! ## 12. `base58.Encode` (base58.go:49-75) -/

/-- Every byte string: `alphabet[mod.Int64()]` (`mod < 58 = len(alphabet)`) and the four index expressions
of the reversal swap `answer[i], answer[alen-1-i] = answer[alen-1-i], answer[i]` for `i < alen/2` are in
range; the loop `for x > 0`, run on a budget of `2·len(b)` iterations, never exhausts the budget
(exhaustion is reported as a fault). No hypothesis. -/
theorem base58_EncodeC_no_fault (b : Bytes) : ∃ r, Base58EncodeC b = .ok r :=
  Proofs.CheckedAddr.Base58EncodeC_no_fault b

/-- … and the in-place reversal by swaps computes the model's `Encode` (which uses `List.reverse`). -/
theorem base58_EncodeC_eq_model (b : Bytes) : Base58EncodeC b = .ok (Base58.Encode b) :=
  Proofs.CheckedAddr.Base58EncodeC_eq_model b

/-- the budget is not what stops the digit loop: every budget ≥ `2·len(b)` gives the same result -/
theorem base58_Encode_fuel_irrelevant (fuel : Nat) (b : Bytes) (h : 2 * b.length ≤ fuel) :
    Base58EncodeG fuel b = Base58EncodeC b :=
  Proofs.CheckedAddr.Base58EncodeG_fuel_irrelevant fuel b h

/-- NEGATIVE (the budget is really checked): one iteration is not enough for the two-digit number 58 -/
theorem base58_Encode_budget_witness :
    encLoopC 1 58 [] = .error Proofs.CheckedAddr.outOfFuel ∧ Base58EncodeG 1 [58] = .error .indexOOB := by
  decide +kernel

example : Base58EncodeC (Bytes.ofString "Hello World") = .ok (Bytes.ofString "JxF12TrwUP45BMd") := by
  decide +kernel
example : Base58EncodeC [0, 0, 40, 127, 180, 205] = .ok (Bytes.ofString "11233QC4") := by decide +kernel
example : Base58EncodeC [] = .ok [] ∧ Base58EncodeC [0] = .ok [49] := by decide +kernel

/-! ## 13. `DecodeAddress` (address.go:82-194) -/

/-- `toLowerASCII` (address.go:938): `b[i] = …` inside `for i, c := range b` -/
theorem addr_toLowerASCIIC_eq_model (s : Bytes) : toLowerASCIIC s = .ok (Address.lowerASCII s) :=
  Proofs.CheckedAddr.toLowerASCIIC_eq_model s

/-- `base58.CheckDecode` including its call of `base58.Decode`: the checked `Decode` feeding the body of
`CheckDecodeC` (C08.lean section 2). Every `H`, every string. -/
theorem base58_CheckDecodeFullC_eq_model (H : Bytes → Bytes) (s : Bytes) :
    CheckDecodeFullC H s = .ok (Base58.CheckDecode H s) :=
  Proofs.CheckedAddr.CheckDecodeFullC_eq_model H s

theorem base58_CheckDecodeFullC_no_fault (H : Bytes → Bytes) (s : Bytes) :
    ∃ r, CheckDecodeFullC H s = .ok r := ⟨_, Proofs.CheckedAddr.CheckDecodeFullC_eq_model H s⟩

/-- `NewAddressPubKey`: `serializedPubKey[0]` is in range for a non-empty key. (In Go `ParsePubKey`
rejects the empty key first; inside `DecodeAddress` the key has 33 or 65 bytes.) -/
theorem addr_newPubKeyC_eq_model (X : Address.Ext) (ser : Bytes) (net : Address.Net) (h : 0 < ser.length) :
    newPubKeyC X ser net = .ok (Address.newPubKey X ser net) :=
  Proofs.CheckedAddr.newPubKeyC_eq_model X ser net h

/-- NEGATIVE: the hypothesis is needed — a parser that accepted the empty key would make the index fault -/
theorem addr_newPubKey_empty_fault (X : Address.Ext) (net : Address.Net) (pt : Bytes)
    (h : X.parsePub [] = some pt) : newPubKeyC X [] net = .error .indexOOB :=
  Proofs.CheckedAddr.newPubKeyC_empty_fault X net pt h

/-- Every byte string, EVERY network record (arbitrary prefixes, in particular the six of
`Address.nets`), every parameter pack `X`: behind the test
`len(addr) < len(bchPrefix)+2 || len(addr) < len(slpPrefix)+2` the string slices `addr[:len(bchPrefix)+1]`
and `addr[:len(slpPrefix)+1]` (both evaluated twice, address.go:91 and :123) are in range; so are all
operations of `toLowerASCII`, of the two `checkDecodeCashAddress` attempts, of `base58.Decode` /
`CheckDecode`, and `serializedPubKey[0]` behind `len(addr) == 130 || len(addr) == 66` and a successful
`hex.DecodeString`. No hypothesis. -/
theorem addr_DecodeAddressC_no_fault (X : Address.Ext) (addr : Bytes) (net : Address.Net) :
    ∃ r, DecodeAddressC X addr net = .ok r :=
  Proofs.CheckedAddr.DecodeAddressC_no_fault X addr net

theorem addr_DecodeAddressC_eq_model (X : Address.Ext) (addr : Bytes) (net : Address.Net) :
    DecodeAddressC X addr net = .ok (Address.DecodeAddress X addr net) :=
  Proofs.CheckedAddr.DecodeAddressC_eq_model X addr net

/-- NEGATIVE (the length test of address.go:85 matters), first disjunct: without it every string shorter
than the cash prefix plus its colon makes `addr[:len(bchPrefix)+1]` fault. -/
theorem addr_DecodeAddress_noGuard_fault (X : Address.Ext) (addr : Bytes) (net : Address.Net)
    (h : addr.length < net.cashPrefix.length + 1) :
    DecodeAddressG X false addr net = .error .sliceOOB :=
  DecodeAddressG_false_fault X addr net h

/-- NEGATIVE, second disjunct: a string long enough for the cash prefix that does not start with it and is
shorter than the SLP prefix plus its colon makes `addr[:len(slpPrefix)+1]` fault. -/
theorem addr_DecodeAddress_noGuard_fault_slp (X : Address.Ext) (addr : Bytes) (net : Address.Net)
    (h1 : net.cashPrefix.length + 1 ≤ addr.length) (h2 : addr.length < net.slpPrefix.length + 1)
    (h3 : Address.hasPrefixFold addr net.cashPrefix = false) :
    DecodeAddressG X false addr net = .error .sliceOOB :=
  DecodeAddressG_false_fault_slp X addr net h1 h2 h3

/-- NEGATIVE, concrete (mainnet, any `X`): "" and "q" fault in the first slice, "qqqqqqqqqqqq" (12 bytes:
enough for "bitcoincash:", not for "simpleledger:") in the second. -/
theorem addr_DecodeAddress_noGuard_witness (X : Address.Ext) :
    DecodeAddressG X false [] Address.mainNet = .error .sliceOOB ∧
    DecodeAddressG X false [113] Address.mainNet = .error .sliceOOB ∧
    DecodeAddressG X false (List.replicate 12 113) Address.mainNet = .error .sliceOOB :=
  ⟨(DecodeAddressG_false_witness X).1, (DecodeAddressG_false_witness X).2, DecodeAddressG_false_witness_slp X⟩

/-! ### non-vacuity and test vectors (tests, not the claim) -/

/-- a toy parameter pack (the one of C01/C02): hash outputs of the right length, a "compressed" key format
0x02 ‖ 32 bytes -/
def addr_Xtoy : Address.Ext where
  sha256d := fun _ => List.replicate 32 7
  hash160 := fun _ => List.replicate 20 1
  hash256 := fun _ => List.replicate 32 2
  parsePub := fun ser => if ser.headD 0 = 2 ∧ ser.length = 33 then some (ser.drop 1) else none
  serPub := fun _ pt => 2 :: pt

-- hypotheses of `addr_newPubKeyC_eq_model` / `addr_newPubKey_empty_fault` / `base58_Encode_fuel_irrelevant`:
-- a non-empty key that parses; a (wrong) parser accepting the empty key; a larger budget
example : 0 < (2 :: List.replicate 32 (9 : UInt8)).length ∧
    newPubKeyC addr_Xtoy (2 :: List.replicate 32 9) Address.testNet3
      = .ok (.ok (.pubKey 1 (List.replicate 32 9) Address.testNet3.pkhID)) := by decide +kernel
example : ({ addr_Xtoy with parsePub := fun _ => some [] } : Address.Ext).parsePub [] = some [] := rfl
example : 2 * ([0, 1, 2] : Bytes).length ≤ 100 ∧ Base58EncodeG 100 [0, 1, 2] = .ok [49, 53, 84] := by
  decide +kernel
-- the hypotheses of the two general negative theorems are satisfiable (the witnesses above use them)
example : ([] : Bytes).length < Address.mainNet.cashPrefix.length + 1 := by decide +kernel
example : Address.mainNet.cashPrefix.length + 1 ≤ (List.replicate 12 (113 : UInt8)).length ∧
    (List.replicate 12 (113 : UInt8)).length < Address.mainNet.slpPrefix.length + 1 ∧
    Address.hasPrefixFold (List.replicate 12 113) Address.mainNet.cashPrefix = false := by decide +kernel
-- the code as it is rejects the same three strings with an error value
example : DecodeAddressC addr_Xtoy [] Address.mainNet = .ok (.error .other) ∧
    DecodeAddressC addr_Xtoy [113] Address.mainNet = .ok (.error .other) ∧
    DecodeAddressC addr_Xtoy (List.replicate 12 113) Address.mainNet = .ok (.error .other) := by
  decide +kernel
-- a valid CashAddr string (specification vector: all-zero hash, P2PKH, mainnet) with and without prefix,
-- and in upper case: no fault, the expected address
example : DecodeAddressC addr_Xtoy
      (Bytes.ofString "bitcoincash:qqqqqqqqqqqqqqqqqqqqqqqqqqqqqqqqqqfnhks603") Address.mainNet
    = .ok (.ok (.pkh (List.replicate 20 0) Address.mainNet.cashPrefix)) := by decide +kernel
example : DecodeAddressC addr_Xtoy (Bytes.ofString "qqqqqqqqqqqqqqqqqqqqqqqqqqqqqqqqqqfnhks603") Address.mainNet
    = .ok (.ok (.pkh (List.replicate 20 0) Address.mainNet.cashPrefix)) := by decide +kernel
example : DecodeAddressC addr_Xtoy (Bytes.ofString "QQQQQQQQQQQQQQQQQQQQQQQQQQQQQQQQQQFNHKS603") Address.mainNet
    = .ok (.ok (.pkh (List.replicate 20 0) Address.mainNet.cashPrefix)) := by decide +kernel
-- an SLP string goes through the retry of address.go:120-153 (both slices evaluated twice)
example : DecodeAddressC addr_Xtoy (Bytes.ofString "qz46h2at4w46h2at4w46h2at4w46h2at4v4s0tcy27") Address.mainNet
    = .ok (.ok (.pkh (List.replicate 20 0xab) Address.mainNet.slpPrefix)) := by decide +kernel
-- legacy Base58Check addresses (checksum of the toy hash): P2PKH on mainnet, mainnet P2SH on simnet
-- (whose SLP prefix is empty)
example : DecodeAddressC addr_Xtoy (Bytes.ofString "1GvdqXEAMbSARrubpNP44Vqz4kr6N8FWv") Address.mainNet
    = .ok (.ok (.legacyPkh (List.replicate 20 3) 0)) := by decide +kernel
example : DecodeAddressC addr_Xtoy (Bytes.ofString "31xwZP1fiFupFbZLiv2yUgrn8b3ZeY3R6e") Address.simNet
    = .ok (.ok (.legacySh (List.replicate 20 3) 5)) := by decide +kernel
-- a wrong Base58Check checksum, a mixed-case CashAddr string, a hex public key (66 characters) and a
-- 66-character string that is not hex: no fault, the expected error / address
example : DecodeAddressC addr_Xtoy (Bytes.ofString "1GvdqXEAMbSARrubpNP44Vqz4kr6N8FWw") Address.mainNet
    = .ok (.error .checksumMismatch) := by decide +kernel
example : DecodeAddressC addr_Xtoy
      (Bytes.ofString "bitcoincash:Qqqqqqqqqqqqqqqqqqqqqqqqqqqqqqqqqqfnhks603") Address.mainNet
    = .ok (.error .unknownFormat) := by decide +kernel
example : DecodeAddressC addr_Xtoy (Address.hexEnc (2 :: List.replicate 32 9)) Address.testNet3
    = .ok (.ok (.pubKey 1 (List.replicate 32 9) Address.testNet3.pkhID)) := by decide +kernel
example : DecodeAddressC addr_Xtoy (List.replicate 66 113) Address.testNet3 = .ok (.error .other) := by
  decide +kernel

/-- Raw Base58 and the outermost address parser never panic (and `Encode`'s loop stays within its budget):
every checked transcription returns a value for every input. -/
theorem C08_addr_all :
    (∀ b, ∃ r, Base58DecodeC b = .ok r) ∧
    (∀ b r, Base58DecodeC b = .ok r → r.length ≤ b.length) ∧
    (∀ b, ∃ r, Base58EncodeC b = .ok r) ∧
    (∀ H s, ∃ r, CheckDecodeFullC H s = .ok r) ∧
    (∀ X addr net, ∃ r, DecodeAddressC X addr net = .ok r) :=
  ⟨base58_DecodeC_no_fault, base58_DecodeC_alloc, base58_EncodeC_no_fault, base58_CheckDecodeFullC_no_fault,
   addr_DecodeAddressC_no_fault⟩

end Bch.Props.C08
