import Bch.Proofs.HDKey
import Bch.Props.C07a
/-!
# C05 — extended-key strings round-trip and are strictly validated

Model: `Bch.Model.HDKey.NewKeyFromString` / `String`. Vocabulary (`WF`, `Reduced`, `GroupLaws`,
`sliceKey`, `payload`, the toy instance `Toy.X`) is defined in `Bch/Proofs/HDKey.lean`.
The two Base58 facts needed (`Decode (Encode b) = b` for all `b`, `Encode (Decode s) = s` for `s` over
the alphabet) are the theorems `C07_b58_dec_enc` / `C07_b58_enc_dec` of `Bch/Props/C07a.lean`; the
lemmas in `Bch/Proofs/HDKey.lean` take them as explicit hypotheses `hB58` / `hB58'`, they are
discharged here.
-/
namespace Bch.Props.C05
open Bch Bch.Model Bch.Model.HDKey Bch.Spec.BIP32 Bch.Proofs.HDKey Bytes

variable {Pt : Type} {X : HDExt Pt}

/-! ### produced keys parse back -/

/-- **`NewKeyFromString (String k) = k`** — the very same record, hence identical serialisation,
flag, depth, fingerprint, child number, chain code, key bytes and derivation behaviour.

Hypotheses besides `WF`: the private scalar is in `[1, n-1]`. `NewMaster`, `Child` and
`NewKeyFromString` guarantee `< n` (`Reduced`, see `C04.hd_wf_*`); `NewMaster`/`NewKeyFromString`
guarantee `≠ 0`, but **`Child` does not exclude a zero child scalar**, and such a key would *not* parse
back (`ErrUnusableSeed`) — hence the explicit `hnz`. `hcn`: the child number fits `uint32`. -/
theorem C05_parse_string (L : GroupLaws X) {k : XKey} (hwf : WF X k) (hred : Reduced X k)
    (hnz : k.isPrivate = true → toNatBE k.key ≠ 0) (hcn : k.childNum < 2 ^ 32) :
    NewKeyFromString X (HDKey.String X k) = .ok k :=
  parse_string L Bch.Props.C07.C07_b58_dec_enc hwf hred hnz hcn

example : WF Toy.X Toy.kPriv ∧ Reduced Toy.X Toy.kPriv ∧
    (Toy.kPriv.isPrivate = true → toNatBE Toy.kPriv.key ≠ 0) ∧ Toy.kPriv.childNum < 2 ^ 32 :=
  ⟨Toy.wf_kPriv, Toy.reduced_kPriv, fun _ => by rw [Toy.key_kPriv]; decide, by decide⟩
example : WF Toy.X Toy.kPub ∧ Reduced Toy.X Toy.kPub ∧
    (Toy.kPub.isPrivate = true → toNatBE Toy.kPub.key ≠ 0) ∧ Toy.kPub.childNum < 2 ^ 32 :=
  ⟨Toy.wf_kPub, (fun h => by cases h), (fun h => by cases h), by decide⟩

/-- What parses back from `String k` is `k` and nothing else; in particular it derives the same
children (`Child` is a function of the record). -/
theorem C05_parse_string_child (L : GroupLaws X) {k k' : XKey} (hwf : WF X k) (hred : Reduced X k)
    (hnz : k.isPrivate = true → toNatBE k.key ≠ 0) (hcn : k.childNum < 2 ^ 32)
    (h : NewKeyFromString X (HDKey.String X k) = .ok k') :
    k' = k ∧ ∀ i, Child X k' i = Child X k i := by
  rw [C05_parse_string L hwf hred hnz hcn] at h
  cases h; exact ⟨rfl, fun _ => rfl⟩

/-- Master keys parse back. -/
theorem C05_parse_string_master (L : GroupLaws X) {seed v : Bytes} (hv : v.length = 4) {k : XKey}
    (h : NewMaster X seed v = .ok k) : NewKeyFromString X (HDKey.String X k) = .ok k := by
  obtain ⟨hwf, hred, hnz, _, _⟩ := wf_newMaster L hv h
  refine C05_parse_string L hwf hred (fun _ => hnz) ?_
  unfold NewMaster at h
  split at h
  · cases h
  · simp only [] at h
    split at h
    · cases h
    · cases h; exact (by decide : (0 : Nat) < 2 ^ 32)

example : ∃ k, Toy.xprv.length = 4 ∧ NewMaster Toy.X Toy.seed Toy.xprv = .ok k :=
  Toy.master_seed.elim fun k h => ⟨k, rfl, h⟩

/-- Private children parse back, unless the child scalar is 0 (the case the Go code does not test). -/
theorem C05_parse_string_child_priv (L : GroupLaws X) {k : XKey} (hwf : WF X k) (hp : k.isPrivate = true)
    {i : Nat} (hi : i < 2 ^ 32) {c : XKey} (hc : Child X k i = .ok c) (hnz : toNatBE c.key ≠ 0) :
    NewKeyFromString X (HDKey.String X c) = .ok c := by
  obtain ⟨hwf', hred', _, _⟩ := wf_child_priv L hwf hp hc
  have := (child_lens L hwf hc).2.2.2.2.2.1
  exact C05_parse_string L hwf' hred' (fun _ => hnz) (by rw [this]; exact hi)

-- the hypothesis `hnz` cannot be dropped: in the toy instance `Child kPriv 8` succeeds with child scalar 0,
-- and the string of that key is refused
example : Child Toy.X Toy.kPriv 8 = .ok Toy.cZero ∧
    NewKeyFromString Toy.X (HDKey.String Toy.X Toy.cZero) = .error .unusableSeed := by
  refine ⟨Toy.child_kPriv_8, ?_⟩
  rw [String_eq_of_len (by decide +kernel), error_iff, Bch.Props.C07.C07_b58_dec_enc]
  exact Or.inr (Or.inr (Or.inl ⟨by decide +kernel, by decide +kernel, by decide +kernel,
    Or.inr (by decide +kernel), rfl⟩))
-- … whereas a child with non-zero scalar satisfies all hypotheses
example : ∃ c, WF Toy.X Toy.kPriv ∧ Toy.kPriv.isPrivate = true ∧ 0 < 2 ^ 32 ∧
    Child Toy.X Toy.kPriv 0 = .ok c ∧ toNatBE c.key ≠ 0 :=
  Toy.child_kPriv_0.elim fun c h => ⟨c, Toy.wf_kPriv, rfl, by decide, h, by
    rw [(wf_child_priv Toy.laws Toy.wf_kPriv rfl h).2.2.2, Toy.IL_kPriv_0, Toy.key_kPriv]; decide +kernel⟩

/-- Public children parse back, unless the child point is ∞ (not tested by the Go code). -/
theorem C05_parse_string_child_pub (L : GroupLaws X) {k : XKey} (hwf : WF X k) (hp : k.isPrivate = false)
    {i : Nat} {c : XKey} (hc : Child X k i = .ok c) {Q : Pt}
    (hnd : addO X (X.mulG (childIL X k i)) (X.parse k.key) = some Q) :
    NewKeyFromString X (HDKey.String X c) = .ok c := by
  obtain ⟨hwf', hp', _⟩ := wf_child_pub L hwf hp hc hnd
  obtain ⟨_, P, hP, _⟩ := hwf.pub_key hp
  have hcn := (child_lens L hwf hc).2.2.2.2.2.1
  have hi : i < 2 ^ 31 := by
    apply Nat.lt_of_not_ge; intro hge
    have hd : k.depth ≠ 255 := by
      intro h255; rw [guard_depth k i h255] at hc; cases hc
    rw [guard_hard k i hd hp hge] at hc; cases hc
  exact C05_parse_string L hwf' (fun h => by rw [hp'] at h; cases h) (fun h => by rw [hp'] at h; cases h)
    (by rw [hcn]; omega)

example : ∃ c Q, WF Toy.X Toy.kPub ∧ Toy.kPub.isPrivate = false ∧ Child Toy.X Toy.kPub 0 = .ok c ∧
    addO Toy.X (Toy.X.mulG (childIL Toy.X Toy.kPub 0)) (Toy.X.parse Toy.kPub.key) = some Q :=
  Toy.child_kPub_0.elim fun c h => ⟨c, 1, Toy.wf_kPub, rfl, h, by rw [Toy.IL_kPub_0]; decide +kernel⟩

/-! ### exactly which strings are accepted -/

/-- **Acceptance criterion.** `NewKeyFromString s = ok k` iff the Base58 decoding `b` of `s` has
exactly 82 bytes, its last 4 bytes are the first 4 bytes of `sha256d` of the first 78 (all four bytes
compared), and either `b[45] = 0` and `0 < parse256 b[46:78] < n` (private), or `b[45] ≠ 0` and
`ParsePubKey b[45:78]` succeeds (public); and `k` is exactly the field-wise slicing of `b`
(`sliceKey`: version `b[0:4]`, depth `b[4]`, fingerprint `b[5:9]`, child number `b[9:13]` big-endian,
chain code `b[13:45]`, key `b[46:78]` resp. `b[45:78]`). No hypothesis on `X`. -/
theorem C05_accept_iff (s : Bytes) (k : XKey) :
    NewKeyFromString X s = .ok k ↔
      (Base58.Decode s).length = 82 ∧
      (Base58.Decode s).drop 78 = (X.sha256d ((Base58.Decode s).take 78)).take 4 ∧
      (((Base58.Decode s).getD 45 0 = 0 ∧ 0 < toNatBE (((Base58.Decode s).drop 46).take 32) ∧
          toNatBE (((Base58.Decode s).drop 46).take 32) < X.n ∧ k = sliceKey (Base58.Decode s) true) ∨
       ((Base58.Decode s).getD 45 0 ≠ 0 ∧ X.parse (((Base58.Decode s).drop 45).take 33) ≠ none ∧
          k = sliceKey (Base58.Decode s) false)) :=
  accept_iff s k

/-- The same with the string given as the Base58 encoding of a byte string `b`. -/
theorem C05_accept_encoded_iff (b : Bytes) (k : XKey) :
    NewKeyFromString X (Base58.Encode b) = .ok k ↔
      b.length = 82 ∧ b.drop 78 = (X.sha256d (b.take 78)).take 4 ∧
      ((b.getD 45 0 = 0 ∧ 0 < toNatBE ((b.drop 46).take 32) ∧ toNatBE ((b.drop 46).take 32) < X.n ∧
          k = sliceKey b true) ∨
       (b.getD 45 0 ≠ 0 ∧ X.parse ((b.drop 45).take 33) ≠ none ∧ k = sliceKey b false)) := by
  rw [accept_iff, Bch.Props.C07.C07_b58_dec_enc]

/-- **Every error, in the order the code checks**: wrong length ⇒ `ErrInvalidKeyLen`; then checksum
mismatch ⇒ `ErrBadChecksum`; then, private, scalar `≥ n` or `= 0` ⇒ `ErrUnusableSeed`; public,
`ParsePubKey` fails ⇒ its error (`other`). Together with `C05_accept_iff` this is exhaustive. -/
theorem C05_errors (s : Bytes) (e : Err) :
    NewKeyFromString X s = .error e ↔
      ((Base58.Decode s).length ≠ 82 ∧ e = .invalidKeyLen) ∨
      ((Base58.Decode s).length = 82 ∧
        (Base58.Decode s).drop 78 ≠ (X.sha256d ((Base58.Decode s).take 78)).take 4 ∧ e = .badChecksum) ∨
      ((Base58.Decode s).length = 82 ∧
        (Base58.Decode s).drop 78 = (X.sha256d ((Base58.Decode s).take 78)).take 4 ∧
        (Base58.Decode s).getD 45 0 = 0 ∧
        (toNatBE (((Base58.Decode s).drop 46).take 32) ≥ X.n ∨ toNatBE (((Base58.Decode s).drop 46).take 32) = 0) ∧
        e = .unusableSeed) ∨
      ((Base58.Decode s).length = 82 ∧
        (Base58.Decode s).drop 78 = (X.sha256d ((Base58.Decode s).take 78)).take 4 ∧
        (Base58.Decode s).getD 45 0 ≠ 0 ∧ X.parse (((Base58.Decode s).drop 45).take 33) = none ∧
        e = .other) :=
  error_iff s e

/-- A byte outside the Base58 alphabet anywhere ⇒ `ErrInvalidKeyLen` (the decoder yields `[]`). -/
theorem C05_foreign (s : Bytes) (h : ∃ c ∈ s, Base58.b58 c = none) :
    NewKeyFromString X s = .error .invalidKeyLen := by
  rw [error_iff, Bch.Props.C07.C07_b58_foreign s h]
  exact Or.inl ⟨by decide, rfl⟩

/-- **Accepted strings are canonical**: an accepted `s` re-serialises to exactly `s`. (Accepted
strings are over the alphabet, otherwise the decoding is empty; no law about `X` is needed — for
public keys `String` re-emits the stored 33 bytes.) -/
theorem C05_string_parse {s : Bytes} {k : XKey} (h : NewKeyFromString X s = .ok k) :
    HDKey.String X k = s :=
  string_parse Bch.Props.C07.C07_b58_enc_dec h

/-- Hence `NewKeyFromString` is injective on accepted strings … -/
theorem C05_parse_injective {s t : Bytes} {k : XKey} (hs : NewKeyFromString X s = .ok k)
    (ht : NewKeyFromString X t = .ok k) : s = t := by
  rw [← C05_string_parse hs, ← C05_string_parse ht]

/-- … and what it accepts has usable key material: a private scalar in `[1, n-1]` or (given that
`ParsePubKey` only accepts canonical encodings) the compressed encoding of a point; and is `WF`. -/
theorem C05_accept_wf (hc : ParseCanonical X) {s : Bytes} {k : XKey} (h : NewKeyFromString X s = .ok k) :
    WF X k ∧ (k.isPrivate = true → 0 < toNatBE k.key ∧ toNatBE k.key < X.n) ∧ k.childNum < 2 ^ 32 := by
  obtain ⟨h1, h2, h3, h4⟩ := wf_newKeyFromString hc h
  exact ⟨h1, fun hp => ⟨Nat.pos_of_ne_zero (h3 hp), h2 hp⟩, h4⟩

/-! ### non-vacuity: accepted and rejected strings of the toy instance -/

-- an accepted private and an accepted public string
example : NewKeyFromString Toy.X (HDKey.String Toy.X Toy.kPriv) = .ok Toy.kPriv :=
  C05_parse_string Toy.laws Toy.wf_kPriv Toy.reduced_kPriv (fun _ => by rw [Toy.key_kPriv]; decide) (by decide)
example : NewKeyFromString Toy.X (HDKey.String Toy.X Toy.kPub) = .ok Toy.kPub :=
  C05_parse_string Toy.laws Toy.wf_kPub (fun h => by cases h) (fun h => by cases h) (by decide)
example : ParseCanonical Toy.X := Toy.parseCanonical
-- wrong length
example : NewKeyFromString Toy.X (Base58.Encode [1, 2, 3]) = .error .invalidKeyLen := by
  rw [C05_errors, Bch.Props.C07.C07_b58_dec_enc]; exact Or.inl ⟨by decide, rfl⟩
-- foreign byte ('0' is not in the alphabet)
example : NewKeyFromString Toy.X [48] = .error .invalidKeyLen :=
  C05_foreign _ ⟨48, by simp, by decide +kernel⟩
-- right length, one checksum byte wrong
example : NewKeyFromString Toy.X (Base58.Encode (payload Toy.kPriv ++ [4, 0x88, 0xad, 0xe5])) =
    .error .badChecksum := by
  rw [C05_errors, Bch.Props.C07.C07_b58_dec_enc]
  exact Or.inr (Or.inl ⟨by decide +kernel, by decide +kernel, rfl⟩)
-- valid checksum, scalar = n
example : NewKeyFromString Toy.X (HDKey.String Toy.X { Toy.kPriv with key := ofNatBE 32 7 }) =
    .error .unusableSeed := by
  rw [String_eq_of_len (by decide +kernel), C05_errors, Bch.Props.C07.C07_b58_dec_enc]
  exact Or.inr (Or.inr (Or.inl ⟨by decide +kernel, by decide +kernel, by decide +kernel,
    Or.inl (by decide +kernel), rfl⟩))
-- valid checksum, scalar = 0
example : NewKeyFromString Toy.X (HDKey.String Toy.X { Toy.kPriv with key := ofNatBE 32 0 }) =
    .error .unusableSeed := by
  rw [String_eq_of_len (by decide +kernel), C05_errors, Bch.Props.C07.C07_b58_dec_enc]
  exact Or.inr (Or.inr (Or.inl ⟨by decide +kernel, by decide +kernel, by decide +kernel,
    Or.inr (by decide +kernel), rfl⟩))
-- valid checksum, 33 key bytes that are not a point
example : NewKeyFromString Toy.X (HDKey.String Toy.X { Toy.kPub with key := 2 :: ofNatBE 32 9 }) =
    .error .other := by
  rw [String_eq_of_len (by decide +kernel), C05_errors, Bch.Props.C07.C07_b58_dec_enc]
  exact Or.inr (Or.inr (Or.inr ⟨by decide +kernel, by decide +kernel, by decide +kernel,
    by decide +kernel, rfl⟩))

end Bch.Props.C05
