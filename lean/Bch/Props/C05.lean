namespace Bch.Props.C05
theorem placeholder : True := trivial
end Bch.Props.C05
