namespace Bch.Props.C14
theorem placeholder : True := trivial
end Bch.Props.C14
