import Bch.Proofs.GcsSpec
import Bch.Proofs.GcsBuilder
/-
C14 — GCS filters are bit-exact Golomb-Rice encodings and serialise losslessly.
Models: `Bch/Model/Gcs.lean`, `Bch/Model/GcsBuilder.lean`; SipHash-2-4 is the parameter `sip`,
SHA-256 the parameter `sha256`. Lemmas: `Bch/Proofs/Gcs*.lean`.
-/
namespace Bch.Props.C14
open Bch Bch.Model Bch.Model.Gcs

/-! ## the specification side, written from BIP158 on natural numbers -/
namespace Spec

/-- the `P` low bits of `δ`, most significant first -/
def lowBitsMSB (P δ : Nat) : List Bool := (List.range P).map fun i => δ.testBit (P - 1 - i)

/-- one delta: `⌊δ/2^P⌋` one-bits, a zero bit, then the `P` low bits of `δ` -/
def rice (P δ : Nat) : List Bool := List.replicate (δ / 2^P) true ++ [false] ++ lowBitsMSB P δ

/-- differences between successive elements (the first against 0) -/
def deltas (vs : List Nat) : List Nat := List.zipWith (· - ·) vs (0 :: vs)

/-- Golomb-Rice coding of an ascending list -/
def golombRice (P : Nat) (vs : List Nat) : List Bool := (deltas vs).flatMap (rice P)

/-- ascending sort -/
def sort (l : List Nat) : List Nat := l.mergeSort (fun a b => decide (a ≤ b))

/-- the set element `d` mapped to `[0, N·M)`: `⌊SipHash(d) · (N·M mod 2^64) / 2^64⌋` -/
def hashed (sip : Bytes → UInt64) (N M : Nat) (d : Bytes) : Nat :=
  (sip d).toNat * ((N * M) % 2^64) / 2^64

end Spec

/-- `Spec.sort` returns the ascending rearrangement of its input -/
theorem spec_sort_sorted_perm (l : List Nat) :
    (Spec.sort l).Pairwise (· ≤ ·) ∧ (Spec.sort l).Perm l := by
  refine ⟨?_, List.mergeSort_perm l _⟩
  have h := List.pairwise_mergeSort (le := fun a b : Nat => decide (a ≤ b))
    (by intro a b c; simp only [decide_eq_true_eq]; exact Nat.le_trans)
    (by intro a b; simp only [Bool.or_eq_true, decide_eq_true_eq]; exact Nat.le_total a b) l
  exact h.imp (by intro a b; simp)

theorem spec_rice_eq (P δ : Nat) : Spec.rice P δ = Proofs.Gcs.riceNat P δ := by
  simp [Spec.rice, Spec.lowBitsMSB, Proofs.Gcs.riceNat, Proofs.Gcs.bitsOf_eq_range]

theorem spec_deltas_eq (vs : List Nat) : Spec.deltas vs = Proofs.Gcs.deltasNat 0 vs := by
  have h : ∀ (vs : List Nat) (last : Nat),
      List.zipWith (· - ·) vs (last :: vs) = Proofs.Gcs.deltasNat last vs := by
    intro vs
    induction vs with
    | nil => intro _; rfl
    | cons v vs ih => intro last; simp only [List.zipWith_cons_cons, Proofs.Gcs.deltasNat, ih v]
  exact h vs 0

/-- the model's `UInt64` encoder (`v - last` in `uint64`, mask/shift quotient and remainder,
`WriteBits`) coincides with the specification on every ascending list, for every `P ≤ 32` -/
theorem encodeSorted_eq_spec (P : Nat) (hP : P ≤ 32) (vs : List UInt64)
    (hs : vs.Pairwise (· ≤ ·)) :
    encodeSorted P 0 vs = Spec.golombRice P (vs.map UInt64.toNat) := by
  rw [Proofs.Gcs.encodeSorted_eq_nat P hP vs 0 (Proofs.Gcs.sorted_zero_cons hs)]
  unfold Spec.golombRice
  rw [spec_deltas_eq]
  have : Spec.rice P = Proofs.Gcs.riceNat P := funext (spec_rice_eq P)
  rw [this]; rfl

/-! ## headline: bit-exactness -/

/-- **C14_bit_exact**: whenever the build does not fail (`N < 2^32`, `P ≤ 32`; the complementary
cases are `C14_build_errors`), the filter is N, P, `N·M mod 2^64` and the zero-padded
Golomb-Rice code of the sorted hashed set. -/
theorem C14_bit_exact (sip : Bytes → UInt64) (P : Nat) (M : UInt64) (data : List Bytes)
    (hN : data.length < 2^32) (hP : P ≤ 32) :
    BuildGCSFilter sip P M data = .ok ⟨data.length, P, UInt64.ofNat data.length * M,
      packBits (Spec.golombRice P
        (Spec.sort (data.map (Spec.hashed sip data.length M.toNat))))⟩ := by
  rw [Proofs.Gcs.build_nat sip P M data hN hP]
  unfold Spec.golombRice
  rw [spec_deltas_eq]
  have : Spec.rice P = Proofs.Gcs.riceNat P := funext (spec_rice_eq P)
  rw [this]; rfl

/-- the modulus field as a number -/
theorem C14_modulus (n : Nat) (hn : n < 2^32) (M : UInt64) :
    (UInt64.ofNat n * M).toNat = (n * M.toNat) % 2^64 := Proofs.Gcs.modNP_toNat n hn M

/-- the error branches of `BuildGCSFilter` -/
theorem C14_build_errors (sip : Bytes → UInt64) (P : Nat) (M : UInt64) (data : List Bytes) :
    (BuildGCSFilter sip P M data = .error .nTooBig ↔ data.length ≥ 2^32) ∧
    (BuildGCSFilter sip P M data = .error .pTooBig ↔ data.length < 2^32 ∧ P > 32) :=
  Proofs.Gcs.build_error_iff sip P M data

/-- "zero padded to a byte": `packBits` is inverted by reading each byte MSB first, up to fewer
than 8 trailing zero bits, and produces `⌈len/8⌉` bytes -/
theorem C14_padding (bs : List Bool) :
    (packBits bs).length = (bs.length + 7) / 8 ∧
    ∃ k, k < 8 ∧ (bs.length + k) % 8 = 0 ∧
      unpackBits (packBits bs) = bs ++ List.replicate k false :=
  ⟨Proofs.Gcs.packBits_length bs, Proofs.Gcs.unpack_pack bs⟩

/-- **C14_perm_invariant**: the result depends only on the multiset of the data (the builder
iterates a Go map in random order), including the error cases -/
theorem C14_perm_invariant (sip : Bytes → UInt64) (P : Nat) (M : UInt64) (d₁ d₂ : List Bytes)
    (h : d₁.Perm d₂) : BuildGCSFilter sip P M d₁ = BuildGCSFilter sip P M d₂ :=
  Proofs.Gcs.build_perm sip P M h

example : ([[1], [2, 3], [1]] : List Bytes).Perm [[2, 3], [1], [1]] := by decide

/-! ## serialisation -/

/-- the three prefixed serialisations are the stated concatenations -/
theorem C14_serialise_defs (f : Filter) :
    NBytes f = writeVarInt f.n ++ f.data ∧
    PBytes f = UInt8.ofNat f.p :: f.data ∧
    NPBytes f = writeVarInt f.n ++ UInt8.ofNat f.p :: f.data := ⟨rfl, rfl, rfl⟩

/-- CompactSize layout -/
theorem compactSize_format (v : Nat) :
    (v < 0xfd → writeVarInt v = [UInt8.ofNat v]) ∧
    (0xfd ≤ v → v ≤ 0xffff → writeVarInt v = 0xfd :: Bytes.ofNatLE 2 v) ∧
    (0xffff < v → v ≤ 0xffffffff → writeVarInt v = 0xfe :: Bytes.ofNatLE 4 v) ∧
    (0xffffffff < v → writeVarInt v = 0xff :: Bytes.ofNatLE 8 v) := by
  unfold writeVarInt
  refine ⟨fun h => by rw [if_pos h], fun h1 h2 => ?_, fun h1 h2 => ?_, fun h => ?_⟩
  · rw [if_neg (by omega), if_pos h2]
  · rw [if_neg (by omega), if_neg (by omega), if_pos h2]
  · rw [if_neg (by omega), if_neg (by omega), if_neg (by omega)]

/-- little-endian fixed-width bytes carry the value -/
theorem ofNatLE_value (k v : Nat) :
    (Bytes.ofNatLE k v).length = k ∧ Bytes.toNatLE (Bytes.ofNatLE k v) = v % 256^k :=
  ⟨Proofs.Gcs.ofNatLE_length k v, Proofs.Gcs.toNatLE_ofNatLE k v⟩

/-- **varint_roundtrip**: every 64-bit count is read back, leaving the rest of the input -/
theorem varint_roundtrip (n : Nat) (hn : n < 2^64) (rest : Bytes) :
    readVarInt (writeVarInt n ++ rest) = some (n, rest) :=
  Proofs.Gcs.varint_roundtrip n hn rest

example : readVarInt (writeVarInt 70000 ++ [9]) = some (70000, [9]) := by decide

/-- the reader accepts *only* canonical encodings: whatever it accepts is `writeVarInt` of the
value it returns, followed by the returned rest -/
theorem readVarInt_canonical (bs : Bytes) (n : Nat) (rest : Bytes)
    (h : readVarInt bs = some (n, rest)) : n < 2^64 ∧ bs = writeVarInt n ++ rest :=
  Proofs.Gcs.readVarInt_canonical bs n rest h

example : readVarInt [0xfd, 0x00, 0x01, 7] = some (256, [7]) := by decide

/-- non-canonical (value too small for its prefix) and truncated encodings are rejected -/
theorem readVarInt_rejects :
    (∀ v rest, v < 0xfd → readVarInt (0xfd :: (Bytes.ofNatLE 2 v ++ rest)) = none) ∧
    (∀ v rest, v < 0x10000 → readVarInt (0xfe :: (Bytes.ofNatLE 4 v ++ rest)) = none) ∧
    (∀ v rest, v < 0x100000000 → readVarInt (0xff :: (Bytes.ofNatLE 8 v ++ rest)) = none) ∧
    (∀ l : Bytes, l.length < 2 → readVarInt (0xfd :: l) = none) ∧
    (∀ l : Bytes, l.length < 4 → readVarInt (0xfe :: l) = none) ∧
    (∀ l : Bytes, l.length < 8 → readVarInt (0xff :: l) = none) ∧
    readVarInt [] = none :=
  Proofs.Gcs.readVarInt_rejects

example : readVarInt [0xfd, 0x10, 0x00] = none := by decide

/-- `FromBytes` and `FromNBytes` on an arbitrary filter value: same N, P (the caller's), bytes and
`modulusNP = N*M`; plus every error branch of the two functions -/
theorem C14_deserialise (f : Filter) (P : Nat) (M : UInt64) :
    (P ≤ 32 → FromBytes f.n P M f.data = .ok ⟨f.n, P, UInt64.ofNat f.n * M, f.data⟩) ∧
    (P > 32 → FromBytes f.n P M f.data = .error .pTooBig) ∧
    (f.n < 2^32 → P ≤ 32 →
      FromNBytes P M (NBytes f) = .ok ⟨f.n, P, UInt64.ofNat f.n * M, f.data⟩) ∧
    (f.n < 2^32 → P > 32 → FromNBytes P M (NBytes f) = .error .pTooBig) ∧
    (2^32 ≤ f.n → f.n < 2^64 → FromNBytes P M (NBytes f) = .error .nTooBig) ∧
    (∀ bs, readVarInt bs = none → FromNBytes P M bs = .error .varint) := by
  refine ⟨Proofs.Gcs.FromBytes_ok _ _ _ _, Proofs.Gcs.FromBytes_err _ _ _ _,
    Proofs.Gcs.FromNBytes_NBytes f P M, fun hn hP => ?_, fun hn hn' => ?_, fun bs h => ?_⟩
  · unfold FromNBytes NBytes
    rw [Proofs.Gcs.varint_roundtrip f.n (by omega)]
    simp only
    rw [if_neg (by omega), Proofs.Gcs.FromBytes_err _ _ _ _ hP]
  · unfold FromNBytes NBytes
    rw [Proofs.Gcs.varint_roundtrip f.n hn']
    simp only
    rw [if_pos hn]
  · unfold FromNBytes; rw [h]

/-- **C14_serialise**: a built filter is recovered *exactly* (N, P, modulus, bytes) from its
N-prefixed serialisation, from its raw bytes + N, and from its NP-prefixed serialisation (read the
CompactSize, then the P byte), with the same `P`, `M`. -/
theorem C14_serialise (sip : Bytes → UInt64) (P : Nat) (M : UInt64) (data : List Bytes)
    (f : Filter) (hb : BuildGCSFilter sip P M data = .ok f) :
    FromNBytes P M (NBytes f) = .ok f ∧
    FromBytes f.n P M f.data = .ok f ∧
    (∃ pb, PBytes f = pb :: f.data ∧ pb.toNat = f.p ∧
      readVarInt (NPBytes f) = some (f.n, pb :: f.data) ∧
      FromBytes f.n pb.toNat M f.data = .ok f) := by
  have h := Proofs.Gcs.FromNBytes_built hb
  obtain ⟨_, h1, h2, h3, _⟩ := Proofs.Gcs.built_fields hb
  refine ⟨h.1, h.2, UInt8.ofNat f.p, rfl, ?_, ?_, ?_⟩
  · rw [UInt8.toNat_ofNat']; omega
  · exact Proofs.Gcs.varint_roundtrip f.n (by omega) _
  · have : (UInt8.ofNat f.p).toNat = P := by rw [UInt8.toNat_ofNat']; omega
    rw [this]; exact h.2

/-- hence every query answers identically on the rebuilt filter -/
theorem C14_roundtrip_queries (sip : Bytes → UInt64) (P : Nat) (M : UInt64) (data : List Bytes)
    (f f' : Filter) (hb : BuildGCSFilter sip P M data = .ok f)
    (hr : FromNBytes P M (NBytes f) = .ok f' ∨ FromBytes f.n P M f.data = .ok f') :
    f' = f ∧ ∀ (d : Bytes) (q : List Bytes),
      Match sip f' d = Match sip f d ∧ MatchAny sip f' q = MatchAny sip f q ∧
      ZipMatchAny sip f' q = ZipMatchAny sip f q ∧ HashMatchAny sip f' q = HashMatchAny sip f q := by
  have h := Proofs.Gcs.FromNBytes_built hb
  have e : f' = f := by
    rcases hr with hr | hr
    · rw [h.1] at hr; injection hr with hr; exact hr.symm
    · rw [h.2] at hr; injection hr with hr; exact hr.symm
  subst e
  exact ⟨rfl, fun _ _ => ⟨rfl, rfl, rfl, rfl⟩⟩

/-! ## the builder -/
open Bch.Model.GcsBuilder

/-- **C14_builder_latch**: after an error every setter/adder is the identity, so is any chain of
them, and `Build` returns that error -/
theorem C14_builder_latch (sip : Bytes → Bytes → UInt64) (b : Builder) (e : Err)
    (h : b.err = some e) :
    (∀ op, step b op = b) ∧ (∀ ops : List Op, ops.foldl step b = b) ∧ Build sip b = .error e :=
  ⟨fun op => Proofs.GcsBuilder.step_latched b op (by rw [h]; rfl),
   fun ops => Proofs.GcsBuilder.foldl_step_latched b ops (by rw [h]; rfl),
   Proofs.GcsBuilder.Build_latched sip b e h⟩

example : ({ err := some Err.pTooBig } : Builder).err = some Err.pTooBig := rfl

/-- how the latch gets set, and what `Build` does on an un-latched builder -/
theorem C14_builder_errors (sip : Bytes → Bytes → UInt64) (b : Builder) (h : b.err = none) :
    (∀ p, p > 32 → (step b (.setP p)).err = some .pTooBig) ∧
    (∀ p, p ≤ 32 → step b (.setP p) = { b with p := p }) ∧
    (∀ m, m > 0xffffffff → (step b (.setM m)).err = some .pTooBig) ∧
    (∀ m, m ≤ 0xffffffff → step b (.setM m) = { b with m := m }) ∧
    (∀ k, step b (.setKey k) = { b with key := (k ++ List.replicate 16 0).take 16 }) ∧
    (b.p = 0 → Build sip b = .error .pUnset) ∧
    (b.p ≠ 0 → b.m = 0 → Build sip b = .error .mUnset) ∧
    (b.p ≠ 0 → b.m ≠ 0 → Build sip b =
      (BuildGCSFilter (sip b.key) b.p (UInt64.ofNat b.m) b.data).mapError Err.gcs) := by
  refine ⟨fun p hp => ?_, fun p hp => ?_, fun m hm => ?_, fun m hm => ?_, fun k => ?_,
    fun hp => ?_, fun hp hm => ?_, fun hp hm => ?_⟩
  · unfold step; rw [h]; simp only [Option.isSome_none, Bool.false_eq_true, if_false, if_pos hp]
  · unfold step; rw [h]
    simp only [Option.isSome_none, Bool.false_eq_true, if_false, if_neg (Nat.not_lt.mpr hp)]
  · unfold step; rw [h]; simp only [Option.isSome_none, Bool.false_eq_true, if_false, if_pos hm]
  · unfold step; rw [h]
    simp only [Option.isSome_none, Bool.false_eq_true, if_false, if_neg (Nat.not_lt.mpr hm)]
  · unfold step; rw [h]; simp only [Option.isSome_none, Bool.false_eq_true, if_false]
  · unfold Build; rw [h]; simp only [if_pos hp]
  · unfold Build; rw [h]; simp only [if_neg hp, if_pos hm]
  · unfold Build; rw [h]; simp only [if_neg hp, if_neg hm]
    cases BuildGCSFilter (sip b.key) b.p (UInt64.ofNat b.m) b.data <;> rfl

/-- **C14_basic_filter**: the basic block filter is `Build` of a builder with P = 19,
M = 784931, key = first 16 bytes of the block hash (zero-extended if shorter), whose entry list
has no duplicates and contains exactly: `hash ++ le32 index` (36 bytes for a 32-byte hash) of the
outpoints spent by inputs of the transactions at index ≥ 1, and the non-empty output scripts of
all transactions. -/
theorem C14_basic_filter (sip : Bytes → Bytes → UInt64) (block : List Tx) (keyHash : Bytes) :
    ∃ b : Builder, buildBasicFilterWithKey sip block keyHash = Build sip b ∧
      b.p = 19 ∧ b.m = 784931 ∧ b.err = none ∧
      b.key = (keyHash.take 16 ++ List.replicate 16 0).take 16 ∧
      (16 ≤ keyHash.length → b.key = keyHash.take 16) ∧
      b.data.Nodup ∧
      ∀ e : Bytes, e ∈ b.data ↔
        ∃ (i : Nat) (tx : Tx), block[i]? = some tx ∧
          ((i ≥ 1 ∧ ∃ h ix, (h, ix) ∈ tx.ins ∧ e = h ++ Bytes.ofNatLE 4 ix) ∨
           (e ∈ tx.outs ∧ e ≠ [])) := by
  have h0 := Proofs.GcsBuilder.withKeyPM_eq (keyHash.take 16)
  obtain ⟨h1, h2, h3, h4, h5, h6⟩ := Proofs.GcsBuilder.addEntries (basicEntries block)
    (withKeyPM (keyHash.take 16) 19 784931) (by rw [h0])
  refine ⟨_, rfl, ?_, ?_, h1, ?_, ?_, ?_, ?_⟩
  · rw [h2, h0]
  · rw [h3, h0]
  · rw [h4, h0]
  · intro hl
    rw [h4, h0]
    show ((keyHash.take 16 ++ List.replicate 16 0).take 16) = keyHash.take 16
    exact List.take_left' (by rw [List.length_take]; omega)
  · apply h5; rw [h0]; exact List.nodup_nil
  · intro e
    rw [h6 e, h0, ← Proofs.GcsBuilder.mem_basicEntries]
    simp

/-- the outpoint entry of a 32-byte hash has 36 bytes -/
theorem outpoint_length (h : Bytes) (ix : Nat) :
    (h ++ Bytes.ofNatLE 4 ix).length = h.length + 4 := by
  rw [List.length_append, Proofs.Gcs.ofNatLE_length]

/-- … and since the result depends only on the *set* of entries (`C14_perm_invariant`), the basic
filter is the GCS filter of any duplicate-free enumeration of that set -/
theorem C14_basic_filter_set (sip : Bytes → Bytes → UInt64) (block : List Tx) (keyHash : Bytes)
    (entries : List Bytes) (hnd : entries.Nodup)
    (hmem : ∀ e, e ∈ entries ↔
        ∃ (i : Nat) (tx : Tx), block[i]? = some tx ∧
          ((i ≥ 1 ∧ ∃ h ix, (h, ix) ∈ tx.ins ∧ e = h ++ Bytes.ofNatLE 4 ix) ∨
           (e ∈ tx.outs ∧ e ≠ []))) :
    buildBasicFilterWithKey sip block keyHash =
      (BuildGCSFilter (sip ((keyHash.take 16 ++ List.replicate 16 0).take 16)) 19 784931
          entries).mapError Err.gcs := by
  obtain ⟨b, hb, hp, hm, he, hk, _, hnd', hmem'⟩ := C14_basic_filter sip block keyHash
  have hperm : b.data.Perm entries :=
    (List.perm_ext_iff_of_nodup hnd' hnd).mpr (fun e => by rw [hmem' e, hmem e])
  rw [hb, (C14_builder_errors sip b he).2.2.2.2.2.2.2 (by omega) (by omega), hp, hm, hk,
    C14_perm_invariant _ _ _ _ _ hperm]
  rfl

/-- the mempool filter is the basic filter with a dummy coinbase and the zero key -/
theorem C14_mempool_filter (sip : Bytes → Bytes → UInt64) (txs : List Tx) :
    BuildMempoolFilter sip txs
      = buildBasicFilterWithKey sip (⟨[], []⟩ :: txs) (List.replicate 32 0) := rfl

/-- **C14_header**: filter hash = double-SHA256 of the N-prefixed bytes; header = double-SHA256
of `hash ++ previous header` (previous header taken as 32 bytes) -/
theorem C14_header (sha256 : Bytes → Bytes) (f : Filter) (prev : Bytes) :
    GetFilterHash (fun b => sha256 (sha256 b)) f = sha256 (sha256 (writeVarInt f.n ++ f.data)) ∧
    MakeHeaderForFilter (fun b => sha256 (sha256 b)) f prev
      = sha256 (sha256 (sha256 (sha256 (writeVarInt f.n ++ f.data))
          ++ (prev ++ List.replicate 32 0).take 32)) ∧
    (prev.length = 32 →
      MakeHeaderForFilter (fun b => sha256 (sha256 b)) f prev
        = sha256 (sha256 (GetFilterHash (fun b => sha256 (sha256 b)) f ++ prev))) := by
  refine ⟨rfl, rfl, fun h => ?_⟩
  unfold MakeHeaderForFilter
  rw [List.take_left' h]

/-! ## non-vacuity: a toy hash on three items, a toy block -/

def toySip (d : Bytes) : UInt64 := UInt64.ofNat (Bytes.toNatBE d) * 0x9E3779B97F4A7C15
def toyData : List Bytes := [[1, 2, 3], [0xff], [7, 7]]

-- the right-hand side of `C14_bit_exact` evaluated piecewise for P = 3, M = 5
example : toyData.map (Spec.hashed toySip 3 5) = [11, 8, 12] := by decide
example : Spec.sort [11, 8, 12] = [8, 11, 12] :=
  List.Perm.eq_of_pairwise (le := (· ≤ ·)) (fun _ _ _ _ h1 h2 => Nat.le_antisymm h1 h2)
    (spec_sort_sorted_perm _).1 (by decide) ((spec_sort_sorted_perm _).2.trans (by decide))
example : Spec.golombRice 3 [8, 11, 12]
    = [true, false, false, false,  false, false, false, true,  true, false, false, false, true] := by
  decide
example : packBits
    [true, false, false, false,  false, false, false, true,  true, false, false, false, true]
    = [129, 136] := by simp [packBits, byteOfBits]
example : NBytes ⟨3, 3, 15, [129, 136]⟩ = [3, 129, 136]
    ∧ PBytes ⟨3, 3, 15, [129, 136]⟩ = [3, 129, 136]
    ∧ NPBytes ⟨3, 3, 15, [129, 136]⟩ = [3, 3, 129, 136] := by decide
example : FromNBytes 3 5 [3, 129, 136] = .ok ⟨3, 3, 15, [129, 136]⟩ := by
  simp [FromNBytes, readVarInt, FromBytes]

-- the hypothesis of `C14_serialise` / `C14_roundtrip_queries` is satisfiable
example : ∃ f, BuildGCSFilter toySip 19 784931 toyData = .ok f ∧ f.n = 3 ∧
    FromNBytes 19 784931 (NBytes f) = .ok f := by
  have h := C14_bit_exact toySip 19 784931 toyData (by decide) (by decide)
  exact ⟨_, h, rfl, (C14_serialise _ _ _ _ _ h).1⟩

-- a block whose coinbase input is skipped, with a duplicated outpoint, a duplicated script and an
-- empty script: the entry set has three elements
def toyBlock : List GcsBuilder.Tx :=
  [⟨[([0xaa], 0)], [[0x51], []]⟩, ⟨[([0xbb], 1), ([0xbb], 1)], [[0x51], [0x52]]⟩]

example : ((GcsBuilder.basicEntries toyBlock).foldl (fun b d => step b (.addEntry d))
    (withKeyPM [] 19 784931)).data = [[0x51], [0xbb, 1, 0, 0, 0], [0x52]] := by decide

end Bch.Props.C14
