import Bch.Proofs.GcsSpec
import Bch.Proofs.GcsBuilder
import Bch.Proofs.GcsHeap
/-
C14 — GCS filters are bit-exact Golomb-Rice encodings and serialise losslessly.
Models: `Bch/Model/Gcs.lean`, `Bch/Model/GcsBuilder.lean`; SipHash-2-4 is the parameter `sip`,
SHA-256 the parameter `sha256`. Lemmas: `Bch/Proofs/Gcs*.lean`.
Last section: which memory a filter object holds and hands out (`Bch/Model/GcsHeap.lean` on the
slice/heap semantics of `Bch/Model/SliceHeap.lean`), immutability (also the GCS clause of C20).
-/
namespace Bch.Props.C14
open Bch Bch.Model Bch.Model.Gcs

/-! ## the specification side, written from BIP158 on natural numbers -/
namespace Spec

/-- the `P` low bits of `δ`, most significant first -/
def lowBitsMSB (P δ : Nat) : List Bool := (List.range P).map fun i => δ.testBit (P - 1 - i)

/-- one delta: `⌊δ/2^P⌋` one-bits, a zero bit, then the `P` low bits of `δ` -/
def rice (P δ : Nat) : List Bool := List.replicate (δ / 2^P) true ++ [false] ++ lowBitsMSB P δ

/-- differences between successive elements (the first against 0) -/
def deltas (vs : List Nat) : List Nat := List.zipWith (· - ·) vs (0 :: vs)

/-- Golomb-Rice coding of an ascending list -/
def golombRice (P : Nat) (vs : List Nat) : List Bool := (deltas vs).flatMap (rice P)

/-- ascending sort -/
def sort (l : List Nat) : List Nat := l.mergeSort (fun a b => decide (a ≤ b))

/-- the set element `d` mapped to `[0, N·M)`: `⌊SipHash(d) · (N·M mod 2^64) / 2^64⌋` -/
def hashed (sip : Bytes → UInt64) (N M : Nat) (d : Bytes) : Nat :=
  (sip d).toNat * ((N * M) % 2^64) / 2^64

end Spec

/-- `Spec.sort` returns the ascending rearrangement of its input -/
theorem spec_sort_sorted_perm (l : List Nat) :
    (Spec.sort l).Pairwise (· ≤ ·) ∧ (Spec.sort l).Perm l := by
  refine ⟨?_, List.mergeSort_perm l _⟩
  have h := List.pairwise_mergeSort (le := fun a b : Nat => decide (a ≤ b))
    (by intro a b c; simp only [decide_eq_true_eq]; exact Nat.le_trans)
    (by intro a b; simp only [Bool.or_eq_true, decide_eq_true_eq]; exact Nat.le_total a b) l
  exact h.imp (by intro a b; simp)

theorem spec_rice_eq (P δ : Nat) : Spec.rice P δ = Proofs.Gcs.riceNat P δ := by
  simp [Spec.rice, Spec.lowBitsMSB, Proofs.Gcs.riceNat, Proofs.Gcs.bitsOf_eq_range]

theorem spec_deltas_eq (vs : List Nat) : Spec.deltas vs = Proofs.Gcs.deltasNat 0 vs := by
  have h : ∀ (vs : List Nat) (last : Nat),
      List.zipWith (· - ·) vs (last :: vs) = Proofs.Gcs.deltasNat last vs := by
    intro vs
    induction vs with
    | nil => intro _; rfl
    | cons v vs ih => intro last; simp only [List.zipWith_cons_cons, Proofs.Gcs.deltasNat, ih v]
  exact h vs 0

/-- the model's `UInt64` encoder (`v - last` in `uint64`, mask/shift quotient and remainder,
`WriteBits`) coincides with the specification on every ascending list, for every `P ≤ 32` -/
theorem encodeSorted_eq_spec (P : Nat) (hP : P ≤ 32) (vs : List UInt64)
    (hs : vs.Pairwise (· ≤ ·)) :
    encodeSorted P 0 vs = Spec.golombRice P (vs.map UInt64.toNat) := by
  rw [Proofs.Gcs.encodeSorted_eq_nat P hP vs 0 (Proofs.Gcs.sorted_zero_cons hs)]
  unfold Spec.golombRice
  rw [spec_deltas_eq]
  have : Spec.rice P = Proofs.Gcs.riceNat P := funext (spec_rice_eq P)
  rw [this]; rfl

/-! ## headline: bit-exactness -/

/-- **C14_bit_exact**: whenever the build does not fail (`N < 2^32`, `P ≤ 32`; the complementary
cases are `C14_build_errors`), the filter is N, P, `N·M mod 2^64` and the zero-padded
Golomb-Rice code of the sorted hashed set. -/
theorem C14_bit_exact (sip : Bytes → UInt64) (P : Nat) (M : UInt64) (data : List Bytes)
    (hN : data.length < 2^32) (hP : P ≤ 32) :
    BuildGCSFilter sip P M data = .ok ⟨data.length, P, UInt64.ofNat data.length * M,
      packBits (Spec.golombRice P
        (Spec.sort (data.map (Spec.hashed sip data.length M.toNat))))⟩ := by
  rw [Proofs.Gcs.build_nat sip P M data hN hP]
  unfold Spec.golombRice
  rw [spec_deltas_eq]
  have : Spec.rice P = Proofs.Gcs.riceNat P := funext (spec_rice_eq P)
  rw [this]; rfl

/-- the modulus field as a number -/
theorem C14_modulus (n : Nat) (hn : n < 2^32) (M : UInt64) :
    (UInt64.ofNat n * M).toNat = (n * M.toNat) % 2^64 := Proofs.Gcs.modNP_toNat n hn M

/-- the error branches of `BuildGCSFilter` -/
theorem C14_build_errors (sip : Bytes → UInt64) (P : Nat) (M : UInt64) (data : List Bytes) :
    (BuildGCSFilter sip P M data = .error .nTooBig ↔ data.length ≥ 2^32) ∧
    (BuildGCSFilter sip P M data = .error .pTooBig ↔ data.length < 2^32 ∧ P > 32) :=
  Proofs.Gcs.build_error_iff sip P M data

/-- "zero padded to a byte": `packBits` is inverted by reading each byte MSB first, up to fewer
than 8 trailing zero bits, and produces `⌈len/8⌉` bytes -/
theorem C14_padding (bs : List Bool) :
    (packBits bs).length = (bs.length + 7) / 8 ∧
    ∃ k, k < 8 ∧ (bs.length + k) % 8 = 0 ∧
      unpackBits (packBits bs) = bs ++ List.replicate k false :=
  ⟨Proofs.Gcs.packBits_length bs, Proofs.Gcs.unpack_pack bs⟩

/-- **C14_perm_invariant**: the result depends only on the multiset of the data (the builder
iterates a Go map in random order), including the error cases -/
theorem C14_perm_invariant (sip : Bytes → UInt64) (P : Nat) (M : UInt64) (d₁ d₂ : List Bytes)
    (h : d₁.Perm d₂) : BuildGCSFilter sip P M d₁ = BuildGCSFilter sip P M d₂ :=
  Proofs.Gcs.build_perm sip P M h

example : ([[1], [2, 3], [1]] : List Bytes).Perm [[2, 3], [1], [1]] := by decide

/-! ## serialisation -/

/-- the three prefixed serialisations are the stated concatenations -/
theorem C14_serialise_defs (f : Filter) :
    NBytes f = writeVarInt f.n ++ f.data ∧
    PBytes f = UInt8.ofNat f.p :: f.data ∧
    NPBytes f = writeVarInt f.n ++ UInt8.ofNat f.p :: f.data := ⟨rfl, rfl, rfl⟩

/-- CompactSize layout -/
theorem compactSize_format (v : Nat) :
    (v < 0xfd → writeVarInt v = [UInt8.ofNat v]) ∧
    (0xfd ≤ v → v ≤ 0xffff → writeVarInt v = 0xfd :: Bytes.ofNatLE 2 v) ∧
    (0xffff < v → v ≤ 0xffffffff → writeVarInt v = 0xfe :: Bytes.ofNatLE 4 v) ∧
    (0xffffffff < v → writeVarInt v = 0xff :: Bytes.ofNatLE 8 v) := by
  unfold writeVarInt
  refine ⟨fun h => by rw [if_pos h], fun h1 h2 => ?_, fun h1 h2 => ?_, fun h => ?_⟩
  · rw [if_neg (by omega), if_pos h2]
  · rw [if_neg (by omega), if_neg (by omega), if_pos h2]
  · rw [if_neg (by omega), if_neg (by omega), if_neg (by omega)]

/-- little-endian fixed-width bytes carry the value -/
theorem ofNatLE_value (k v : Nat) :
    (Bytes.ofNatLE k v).length = k ∧ Bytes.toNatLE (Bytes.ofNatLE k v) = v % 256^k :=
  ⟨Proofs.Gcs.ofNatLE_length k v, Proofs.Gcs.toNatLE_ofNatLE k v⟩

/-- **varint_roundtrip**: every 64-bit count is read back, leaving the rest of the input -/
theorem varint_roundtrip (n : Nat) (hn : n < 2^64) (rest : Bytes) :
    readVarInt (writeVarInt n ++ rest) = some (n, rest) :=
  Proofs.Gcs.varint_roundtrip n hn rest

example : readVarInt (writeVarInt 70000 ++ [9]) = some (70000, [9]) := by decide

/-- the reader accepts *only* canonical encodings: whatever it accepts is `writeVarInt` of the
value it returns, followed by the returned rest -/
theorem readVarInt_canonical (bs : Bytes) (n : Nat) (rest : Bytes)
    (h : readVarInt bs = some (n, rest)) : n < 2^64 ∧ bs = writeVarInt n ++ rest :=
  Proofs.Gcs.readVarInt_canonical bs n rest h

example : readVarInt [0xfd, 0x00, 0x01, 7] = some (256, [7]) := by decide

/-- non-canonical (value too small for its prefix) and truncated encodings are rejected -/
theorem readVarInt_rejects :
    (∀ v rest, v < 0xfd → readVarInt (0xfd :: (Bytes.ofNatLE 2 v ++ rest)) = none) ∧
    (∀ v rest, v < 0x10000 → readVarInt (0xfe :: (Bytes.ofNatLE 4 v ++ rest)) = none) ∧
    (∀ v rest, v < 0x100000000 → readVarInt (0xff :: (Bytes.ofNatLE 8 v ++ rest)) = none) ∧
    (∀ l : Bytes, l.length < 2 → readVarInt (0xfd :: l) = none) ∧
    (∀ l : Bytes, l.length < 4 → readVarInt (0xfe :: l) = none) ∧
    (∀ l : Bytes, l.length < 8 → readVarInt (0xff :: l) = none) ∧
    readVarInt [] = none :=
  Proofs.Gcs.readVarInt_rejects

example : readVarInt [0xfd, 0x10, 0x00] = none := by decide

/-- `FromBytes` and `FromNBytes` on an arbitrary filter value: same N, P (the caller's), bytes and
`modulusNP = N*M`; plus every error branch of the two functions -/
theorem C14_deserialise (f : Filter) (P : Nat) (M : UInt64) :
    (P ≤ 32 → FromBytes f.n P M f.data = .ok ⟨f.n, P, UInt64.ofNat f.n * M, f.data⟩) ∧
    (P > 32 → FromBytes f.n P M f.data = .error .pTooBig) ∧
    (f.n < 2^32 → P ≤ 32 →
      FromNBytes P M (NBytes f) = .ok ⟨f.n, P, UInt64.ofNat f.n * M, f.data⟩) ∧
    (f.n < 2^32 → P > 32 → FromNBytes P M (NBytes f) = .error .pTooBig) ∧
    (2^32 ≤ f.n → f.n < 2^64 → FromNBytes P M (NBytes f) = .error .nTooBig) ∧
    (∀ bs, readVarInt bs = none → FromNBytes P M bs = .error .varint) := by
  refine ⟨Proofs.Gcs.FromBytes_ok _ _ _ _, Proofs.Gcs.FromBytes_err _ _ _ _,
    Proofs.Gcs.FromNBytes_NBytes f P M, fun hn hP => ?_, fun hn hn' => ?_, fun bs h => ?_⟩
  · unfold FromNBytes NBytes
    rw [Proofs.Gcs.varint_roundtrip f.n (by omega)]
    simp only
    rw [if_neg (by omega), Proofs.Gcs.FromBytes_err _ _ _ _ hP]
  · unfold FromNBytes NBytes
    rw [Proofs.Gcs.varint_roundtrip f.n hn']
    simp only
    rw [if_pos hn]
  · unfold FromNBytes; rw [h]

/-- **C14_serialise**: a built filter is recovered *exactly* (N, P, modulus, bytes) from its
N-prefixed serialisation, from its raw bytes + N, and from its NP-prefixed serialisation (read the
CompactSize, then the P byte), with the same `P`, `M`. -/
theorem C14_serialise (sip : Bytes → UInt64) (P : Nat) (M : UInt64) (data : List Bytes)
    (f : Filter) (hb : BuildGCSFilter sip P M data = .ok f) :
    FromNBytes P M (NBytes f) = .ok f ∧
    FromBytes f.n P M f.data = .ok f ∧
    (∃ pb, PBytes f = pb :: f.data ∧ pb.toNat = f.p ∧
      readVarInt (NPBytes f) = some (f.n, pb :: f.data) ∧
      FromBytes f.n pb.toNat M f.data = .ok f) := by
  have h := Proofs.Gcs.FromNBytes_built hb
  obtain ⟨_, h1, h2, h3, _⟩ := Proofs.Gcs.built_fields hb
  refine ⟨h.1, h.2, UInt8.ofNat f.p, rfl, ?_, ?_, ?_⟩
  · rw [UInt8.toNat_ofNat']; omega
  · exact Proofs.Gcs.varint_roundtrip f.n (by omega) _
  · have : (UInt8.ofNat f.p).toNat = P := by rw [UInt8.toNat_ofNat']; omega
    rw [this]; exact h.2

/-- hence every query answers identically on the rebuilt filter -/
theorem C14_roundtrip_queries (sip : Bytes → UInt64) (P : Nat) (M : UInt64) (data : List Bytes)
    (f f' : Filter) (hb : BuildGCSFilter sip P M data = .ok f)
    (hr : FromNBytes P M (NBytes f) = .ok f' ∨ FromBytes f.n P M f.data = .ok f') :
    f' = f ∧ ∀ (d : Bytes) (q : List Bytes),
      Match sip f' d = Match sip f d ∧ MatchAny sip f' q = MatchAny sip f q ∧
      ZipMatchAny sip f' q = ZipMatchAny sip f q ∧ HashMatchAny sip f' q = HashMatchAny sip f q := by
  have h := Proofs.Gcs.FromNBytes_built hb
  have e : f' = f := by
    rcases hr with hr | hr
    · rw [h.1] at hr; injection hr with hr; exact hr.symm
    · rw [h.2] at hr; injection hr with hr; exact hr.symm
  subst e
  exact ⟨rfl, fun _ _ => ⟨rfl, rfl, rfl, rfl⟩⟩

/-! ## the builder -/
open Bch.Model.GcsBuilder

/-- **C14_builder_latch**: after an error every setter/adder is the identity, so is any chain of
them, and `Build` returns that error -/
theorem C14_builder_latch (sip : Bytes → Bytes → UInt64) (b : Builder) (e : Err)
    (h : b.err = some e) :
    (∀ op, step b op = b) ∧ (∀ ops : List Op, ops.foldl step b = b) ∧ Build sip b = .error e :=
  ⟨fun op => Proofs.GcsBuilder.step_latched b op (by rw [h]; rfl),
   fun ops => Proofs.GcsBuilder.foldl_step_latched b ops (by rw [h]; rfl),
   Proofs.GcsBuilder.Build_latched sip b e h⟩

example : ({ err := some Err.pTooBig } : Builder).err = some Err.pTooBig := rfl

/-- how the latch gets set, and what `Build` does on an un-latched builder -/
theorem C14_builder_errors (sip : Bytes → Bytes → UInt64) (b : Builder) (h : b.err = none) :
    (∀ p, p > 32 → (step b (.setP p)).err = some .pTooBig) ∧
    (∀ p, p ≤ 32 → step b (.setP p) = { b with p := p }) ∧
    (∀ m, m > 0xffffffff → (step b (.setM m)).err = some .pTooBig) ∧
    (∀ m, m ≤ 0xffffffff → step b (.setM m) = { b with m := m }) ∧
    (∀ k, step b (.setKey k) = { b with key := (k ++ List.replicate 16 0).take 16 }) ∧
    (b.p = 0 → Build sip b = .error .pUnset) ∧
    (b.p ≠ 0 → b.m = 0 → Build sip b = .error .mUnset) ∧
    (b.p ≠ 0 → b.m ≠ 0 → Build sip b =
      (BuildGCSFilter (sip b.key) b.p (UInt64.ofNat b.m) b.data).mapError Err.gcs) := by
  refine ⟨fun p hp => ?_, fun p hp => ?_, fun m hm => ?_, fun m hm => ?_, fun k => ?_,
    fun hp => ?_, fun hp hm => ?_, fun hp hm => ?_⟩
  · unfold step; rw [h]; simp only [Option.isSome_none, Bool.false_eq_true, if_false, if_pos hp]
  · unfold step; rw [h]
    simp only [Option.isSome_none, Bool.false_eq_true, if_false, if_neg (Nat.not_lt.mpr hp)]
  · unfold step; rw [h]; simp only [Option.isSome_none, Bool.false_eq_true, if_false, if_pos hm]
  · unfold step; rw [h]
    simp only [Option.isSome_none, Bool.false_eq_true, if_false, if_neg (Nat.not_lt.mpr hm)]
  · unfold step; rw [h]; simp only [Option.isSome_none, Bool.false_eq_true, if_false]
  · unfold Build; rw [h]; simp only [if_pos hp]
  · unfold Build; rw [h]; simp only [if_neg hp, if_pos hm]
  · unfold Build; rw [h]; simp only [if_neg hp, if_neg hm]
    cases BuildGCSFilter (sip b.key) b.p (UInt64.ofNat b.m) b.data <;> rfl

/-- **C14_basic_filter**: the basic block filter is `Build` of a builder with P = 19,
M = 784931, key = first 16 bytes of the block hash (zero-extended if shorter), whose entry list
has no duplicates and contains exactly: `hash ++ le32 index` (36 bytes for a 32-byte hash) of the
outpoints spent by inputs of the transactions at index ≥ 1, and the non-empty output scripts of
all transactions. -/
theorem C14_basic_filter (sip : Bytes → Bytes → UInt64) (block : List Tx) (keyHash : Bytes) :
    ∃ b : Builder, buildBasicFilterWithKey sip block keyHash = Build sip b ∧
      b.p = 19 ∧ b.m = 784931 ∧ b.err = none ∧
      b.key = (keyHash.take 16 ++ List.replicate 16 0).take 16 ∧
      (16 ≤ keyHash.length → b.key = keyHash.take 16) ∧
      b.data.Nodup ∧
      ∀ e : Bytes, e ∈ b.data ↔
        ∃ (i : Nat) (tx : Tx), block[i]? = some tx ∧
          ((i ≥ 1 ∧ ∃ h ix, (h, ix) ∈ tx.ins ∧ e = h ++ Bytes.ofNatLE 4 ix) ∨
           (e ∈ tx.outs ∧ e ≠ [])) := by
  have h0 := Proofs.GcsBuilder.withKeyPM_eq (keyHash.take 16)
  obtain ⟨h1, h2, h3, h4, h5, h6⟩ := Proofs.GcsBuilder.addEntries (basicEntries block)
    (withKeyPM (keyHash.take 16) 19 784931) (by rw [h0])
  refine ⟨_, rfl, ?_, ?_, h1, ?_, ?_, ?_, ?_⟩
  · rw [h2, h0]
  · rw [h3, h0]
  · rw [h4, h0]
  · intro hl
    rw [h4, h0]
    show ((keyHash.take 16 ++ List.replicate 16 0).take 16) = keyHash.take 16
    exact List.take_left' (by rw [List.length_take]; omega)
  · apply h5; rw [h0]; exact List.nodup_nil
  · intro e
    rw [h6 e, h0, ← Proofs.GcsBuilder.mem_basicEntries]
    simp

/-- the outpoint entry of a 32-byte hash has 36 bytes -/
theorem outpoint_length (h : Bytes) (ix : Nat) :
    (h ++ Bytes.ofNatLE 4 ix).length = h.length + 4 := by
  rw [List.length_append, Proofs.Gcs.ofNatLE_length]

/-- … and since the result depends only on the *set* of entries (`C14_perm_invariant`), the basic
filter is the GCS filter of any duplicate-free enumeration of that set -/
theorem C14_basic_filter_set (sip : Bytes → Bytes → UInt64) (block : List Tx) (keyHash : Bytes)
    (entries : List Bytes) (hnd : entries.Nodup)
    (hmem : ∀ e, e ∈ entries ↔
        ∃ (i : Nat) (tx : Tx), block[i]? = some tx ∧
          ((i ≥ 1 ∧ ∃ h ix, (h, ix) ∈ tx.ins ∧ e = h ++ Bytes.ofNatLE 4 ix) ∨
           (e ∈ tx.outs ∧ e ≠ []))) :
    buildBasicFilterWithKey sip block keyHash =
      (BuildGCSFilter (sip ((keyHash.take 16 ++ List.replicate 16 0).take 16)) 19 784931
          entries).mapError Err.gcs := by
  obtain ⟨b, hb, hp, hm, he, hk, _, hnd', hmem'⟩ := C14_basic_filter sip block keyHash
  have hperm : b.data.Perm entries :=
    (List.perm_ext_iff_of_nodup hnd' hnd).mpr (fun e => by rw [hmem' e, hmem e])
  rw [hb, (C14_builder_errors sip b he).2.2.2.2.2.2.2 (by omega) (by omega), hp, hm, hk,
    C14_perm_invariant _ _ _ _ _ hperm]
  rfl

/-- the mempool filter is the basic filter with a dummy coinbase and the zero key -/
theorem C14_mempool_filter (sip : Bytes → Bytes → UInt64) (txs : List Tx) :
    BuildMempoolFilter sip txs
      = buildBasicFilterWithKey sip (⟨[], []⟩ :: txs) (List.replicate 32 0) := rfl

/-- **C14_header**: filter hash = double-SHA256 of the N-prefixed bytes; header = double-SHA256
of `hash ++ previous header` (previous header taken as 32 bytes) -/
theorem C14_header (sha256 : Bytes → Bytes) (f : Filter) (prev : Bytes) :
    GetFilterHash (fun b => sha256 (sha256 b)) f = sha256 (sha256 (writeVarInt f.n ++ f.data)) ∧
    MakeHeaderForFilter (fun b => sha256 (sha256 b)) f prev
      = sha256 (sha256 (sha256 (sha256 (writeVarInt f.n ++ f.data))
          ++ (prev ++ List.replicate 32 0).take 32)) ∧
    (prev.length = 32 →
      MakeHeaderForFilter (fun b => sha256 (sha256 b)) f prev
        = sha256 (sha256 (GetFilterHash (fun b => sha256 (sha256 b)) f ++ prev))) := by
  refine ⟨rfl, rfl, fun h => ?_⟩
  unfold MakeHeaderForFilter
  rw [List.take_left' h]

/-! ## non-vacuity: a toy hash on three items, a toy block -/

def toySip (d : Bytes) : UInt64 := UInt64.ofNat (Bytes.toNatBE d) * 0x9E3779B97F4A7C15
def toyData : List Bytes := [[1, 2, 3], [0xff], [7, 7]]

-- the right-hand side of `C14_bit_exact` evaluated piecewise for P = 3, M = 5
example : toyData.map (Spec.hashed toySip 3 5) = [11, 8, 12] := by decide
example : Spec.sort [11, 8, 12] = [8, 11, 12] :=
  List.Perm.eq_of_pairwise (le := (· ≤ ·)) (fun _ _ _ _ h1 h2 => Nat.le_antisymm h1 h2)
    (spec_sort_sorted_perm _).1 (by decide) ((spec_sort_sorted_perm _).2.trans (by decide))
example : Spec.golombRice 3 [8, 11, 12]
    = [true, false, false, false,  false, false, false, true,  true, false, false, false, true] := by
  decide
example : packBits
    [true, false, false, false,  false, false, false, true,  true, false, false, false, true]
    = [129, 136] := by simp [packBits, byteOfBits]
example : NBytes ⟨3, 3, 15, [129, 136]⟩ = [3, 129, 136]
    ∧ PBytes ⟨3, 3, 15, [129, 136]⟩ = [3, 129, 136]
    ∧ NPBytes ⟨3, 3, 15, [129, 136]⟩ = [3, 3, 129, 136] := by decide
example : FromNBytes 3 5 [3, 129, 136] = .ok ⟨3, 3, 15, [129, 136]⟩ := by
  simp [FromNBytes, readVarInt, FromBytes]

-- the hypothesis of `C14_serialise` / `C14_roundtrip_queries` is satisfiable
example : ∃ f, BuildGCSFilter toySip 19 784931 toyData = .ok f ∧ f.n = 3 ∧
    FromNBytes 19 784931 (NBytes f) = .ok f := by
  have h := C14_bit_exact toySip 19 784931 toyData (by decide) (by decide)
  exact ⟨_, h, rfl, (C14_serialise _ _ _ _ _ h).1⟩

-- a block whose coinbase input is skipped, with a duplicated outpoint, a duplicated script and an
-- empty script: the entry set has three elements
def toyBlock : List GcsBuilder.Tx :=
  [⟨[([0xaa], 0)], [[0x51], []]⟩, ⟨[([0xbb], 1), ([0xbb], 1)], [[0x51], [0x52]]⟩]

example : ((GcsBuilder.basicEntries toyBlock).foldl (fun b d => step b (.addEntry d))
    (withKeyPM [] 19 784931)).data = [[0x51], [0xbb, 1, 0, 0, 0], [0x52]] := by decide

/-! ## memory: a filter owns its bytes, hands out only fresh copies, and is never written

`Bch/Model/GcsHeap.lean` places `gcs.Filter` on the Go slice/heap semantics of
`Bch/Model/SliceHeap.lean`: a heap is the list of all `[]byte` backing arrays, a filter object
`FilterObj` holds `n`, `p`, `modulusNP` by value and `filterData` as a slice header
`(buf, off, len, cap)`; `GcsHeap.abs h f` is the value-level `Gcs.Filter` the object stands for in
heap `h`.  "A filter rebuilt from any of its serialisations equals the original" (C14) and "being
immutable, may be queried from any number of goroutines" (C20) need, besides the value-level
theorems above, that nobody else can change the bytes the object reads — proved here.  Lemmas:
`Bch/Proofs/GcsHeap.lean`. -/
section Memory
open Bch.Model.SliceHeap Bch.Model.GcsHeap

/-- The call that took the heap from `h` to `h'` and returned the object `f`
 (i) left every array of `h` in place with the same bytes (it wrote nothing reachable by anybody),
 (ii) `f.filterData` has no capacity at all (the nil slice of an empty built filter) or lies in an
      array that did not exist in `h`,
 (iii) `f.filterData` lies inside its array,
 (iv) **frame**: after any sequence of later stores — each `(b, fn)` replaces the array `b` by `fn`
      of it, e.g. `fn = (writeAt · pos xs)` for any `pos`, `xs` — into arrays that existed in `h`
      (everything the caller or anybody else could reach before the call, in particular the
      argument slice), the object still stands for the same filter. -/
def OwnsFresh (h h' : Heap) (f : FilterObj) : Prop :=
  (∀ (b : Nat) (a : List UInt8), h[b]? = some a → h'[b]? = some a) ∧
  (f.filterData.cap = 0 ∨ (h.length ≤ f.filterData.buf ∧ f.filterData.buf < h'.length)) ∧
  (f.filterData.len ≤ f.filterData.cap ∧
    f.filterData.off + f.filterData.cap ≤ (arr h' f.filterData.buf).length) ∧
  (∀ ws : List (Nat × (List UInt8 → List UInt8)), (∀ w ∈ ws, w.1 < h.length) →
    GcsHeap.abs (stores h' ws) f = GcsHeap.abs h' f)

/-- `GcsHeap.abs` reads exactly one array: two heaps that agree on the array `f.filterData.buf`
give the same filter (so `OwnsFresh` (ii) says *which* stores can matter at all). -/
theorem C14_abs_footprint (h1 h2 : Heap) (f : FilterObj)
    (e : arr h2 f.filterData.buf = arr h1 f.filterData.buf) :
    GcsHeap.abs h2 f = GcsHeap.abs h1 f :=
  Proofs.GcsHeap.abs_footprint h1 h2 f e

/-- the allocation primitive `fresh` (`make` + `copy`) yields an owned slice, for any scalars -/
theorem C14_fresh_owns (h : Heap) (n p : Nat) (M : UInt64) (xs : List UInt8) :
    OwnsFresh h (fresh h xs 0).1 ⟨n, p, M, (fresh h xs 0).2⟩ :=
  ⟨Proofs.GcsHeap.fresh_pres h xs 0,
   Or.inr (by rw [Proofs.GcsHeap.fresh_slice, Proofs.GcsHeap.fresh_length]; exact ⟨Nat.le_refl _, Nat.lt_succ_self _⟩),
   Proofs.GcsHeap.fresh_wf h xs 0,
   fun ws hw => Proofs.GcsHeap.abs_new_stores (h0 := h) _ (Proofs.GcsHeap.fresh_wf h xs 0)
     (Proofs.GcsHeap.fresh_owned h xs 0) ws hw⟩

/-- **C14_rebuilt_owns_its_bytes.**  For every heap, all `N`, `P`, `M` and every argument slice `d`
(no assumption on it; for a slice inside its array `len(f.filterData) = len(d)`):

`FromBytes` fails exactly when the value-level model fails, without touching the heap; otherwise it
returns an object that stands for the value-level result on the bytes of `d`, whose `filterData` is
the whole of a new array (index `h.length`, no spare capacity), and `OwnsFresh` holds: nothing that
existed was written, and no later store into any array that existed before the call — in particular
`h'.modify d.buf (writeAt · pos xs)` for arbitrary `pos`, `xs`, a store through the caller's slice
— changes the filter the object stands for.  The same for `FromNBytes` (CompactSize read from the
caller's slice, all three error branches). -/
theorem C14_rebuilt_owns_its_bytes (h : Heap) (n p : Nat) (m : UInt64) (d : Slice) :
    (match Gcs.FromBytes n p m (read h d) with
      | .error e => fromBytes h n p m d = (h, .error e)
      | .ok v => ∃ h' f, fromBytes h n p m d = (h', .ok f) ∧ GcsHeap.abs h' f = v ∧
          f.filterData = ⟨h.length, 0, (read h d).length, (read h d).length⟩ ∧
          (d.len ≤ d.cap ∧ d.off + d.cap ≤ (arr h d.buf).length → f.filterData.len = d.len) ∧
          OwnsFresh h h' f ∧
          (d.buf < h.length → ∀ (pos : Nat) (xs : List UInt8),
            GcsHeap.abs (h'.modify d.buf (writeAt · pos xs)) f = v)) ∧
    (match Gcs.FromNBytes p m (read h d) with
      | .error e => fromNBytes h p m d = (h, .error e)
      | .ok v => ∃ h' f, fromNBytes h p m d = (h', .ok f) ∧ GcsHeap.abs h' f = v ∧
          f.filterData = ⟨h.length, 0, v.data.length, v.data.length⟩ ∧
          OwnsFresh h h' f ∧
          (d.buf < h.length → ∀ (pos : Nat) (xs : List UInt8),
            GcsHeap.abs (h'.modify d.buf (writeAt · pos xs)) f = v)) := by
  have key : ∀ (N : Nat) (s : Slice), ¬ p > 32 →
      ∃ h' f, fromBytes h N p m s = (h', .ok f) ∧
        GcsHeap.abs h' f = ⟨N, p, UInt64.ofNat N * m, read h s⟩ ∧
        f.filterData = ⟨h.length, 0, (read h s).length, (read h s).length⟩ ∧
        OwnsFresh h h' f ∧
        (d.buf < h.length → ∀ (pos : Nat) (xs : List UInt8),
          GcsHeap.abs (h'.modify d.buf (writeAt · pos xs)) f
            = ⟨N, p, UInt64.ofNat N * m, read h s⟩) := by
    intro N s hp
    have ho := C14_fresh_owns h N p (UInt64.ofNat N * m) (read h s)
    have ha := Proofs.GcsHeap.abs_fresh h N p (UInt64.ofNat N * m) (read h s) 0
    refine ⟨_, _, Proofs.GcsHeap.fromBytes_ok h N p m s hp, ha,
      Proofs.GcsHeap.fresh_slice h _ 0, ho, fun hd pos xs => ?_⟩
    rw [← Proofs.GcsHeap.stores_single, ho.2.2.2 _ (by simpa using hd), ha]
  refine ⟨?_, ?_⟩
  · unfold Gcs.FromBytes
    by_cases hp : p > 32
    · rw [if_pos hp]; exact Proofs.GcsHeap.fromBytes_err h n p m d hp
    · rw [if_neg hp]
      obtain ⟨h', f, e, ha, hs, ho, hf⟩ := key n d hp
      exact ⟨h', f, e, ha, hs, fun w => by rw [hs]; exact Proofs.SliceHeap.length_read w, ho, hf⟩
  · unfold Gcs.FromNBytes fromNBytes
    cases hr : Gcs.readVarInt (read h d) with
    | none => rfl
    | some r =>
      obtain ⟨N, rest⟩ := r
      simp only []
      by_cases hN : N ≥ 2^32
      · rw [if_pos hN, if_pos hN]
      · rw [if_neg hN, if_neg hN]
        unfold Gcs.FromBytes
        by_cases hp : p > 32
        · rw [if_pos hp, Proofs.GcsHeap.fromBytes_err h N p m _ hp]
        · rw [if_neg hp]
          obtain ⟨h', f, e, ha, hs, ho, hf⟩ :=
            key N (sliceFrom d ((read h d).length - rest.length)) hp
          rw [Proofs.GcsHeap.read_sliceFrom, Proofs.GcsHeap.readVarInt_rest hr] at ha hs hf
          rw [e]
          exact ⟨h', f, rfl, ha, hs, ho, hf⟩

/-- `BuildGCSFilter` on the heap (elements of `data` read through arbitrary slices, bit stream
grown by `append` with an arbitrary growth policy `g`): errors as the value-level model, heap
untouched; otherwise the object stands for the value-level filter and `OwnsFresh` holds — the
stream buffer is the filter's alone. -/
theorem C14_built_owns_its_bytes (sip : Bytes → UInt64) (g : Nat → Nat) (h : Heap) (P : Nat)
    (M : UInt64) (data : List Slice) :
    match Gcs.BuildGCSFilter sip P M (data.map (read h)) with
      | .error e => build sip g h P M data = (h, .error e)
      | .ok v => ∃ h' f, build sip g h P M data = (h', .ok f) ∧ GcsHeap.abs h' f = v ∧
          OwnsFresh h h' f := by
  cases hb : Gcs.BuildGCSFilter sip P M (data.map (read h)) with
  | error e => exact Proofs.GcsHeap.build_err sip g h P M data e hb
  | ok v =>
    obtain ⟨st, hr⟩ := Proofs.GcsHeap.stream_spec g h v.data
    refine ⟨_, _, Proofs.GcsHeap.build_ok sip g h P M data v hb, ?_, st.pres, ?_, st.wf,
      fun ws hw => Proofs.GcsHeap.abs_new_stores (h0 := h) _ st.wf st.owned ws hw⟩
    · simp only [GcsHeap.abs, hr]
    · rcases Nat.eq_zero_or_pos (appendEach g h Slice.nil v.data).2.cap with hc | hc
      · exact Or.inl hc
      · refine Or.inr ⟨?_, Proofs.SliceHeap.buf_lt_of_wf st.wf hc⟩
        rcases st.owned with o | o
        · exact absurd o (by omega)
        · exact o

/-- What an accessor call that took the heap from `h` to `h'` and returned the slice `s` did:
 (i) every array of `h` is unchanged — it wrote nothing of the receiver (nor of anything else),
 (ii) exactly one array was allocated and `s` starts at its first byte: `s` lives in an array that
      did not exist before the call,
 (iii) `s` lies inside that array and (iv) holds `content`,
 (v) every filter object `f'` built earlier (its slice lies inside its array in `h`; the receiver
      is one of them) stands for the same filter after the call, and still does after any
      sequence of stores into arrays that did not exist in `h` — through the returned slice, its
      spare capacity, or anything allocated later. -/
def FreshResult (h h' : Heap) (s : Slice) (content : Bytes) : Prop :=
  (∀ (b : Nat) (a : List UInt8), h[b]? = some a → h'[b]? = some a) ∧
  (h'.length = h.length + 1 ∧ s.buf = h.length ∧ s.off = 0) ∧
  (s.len ≤ s.cap ∧ s.off + s.cap ≤ (arr h' s.buf).length) ∧
  read h' s = content ∧
  (∀ f' : FilterObj,
    (f'.filterData.len ≤ f'.filterData.cap ∧
      f'.filterData.off + f'.filterData.cap ≤ (arr h f'.filterData.buf).length) →
    GcsHeap.abs h' f' = GcsHeap.abs h f' ∧
    ∀ ws : List (Nat × (List UInt8 → List UInt8)), (∀ w ∈ ws, h.length ≤ w.1) →
      GcsHeap.abs (stores h' ws) f' = GcsHeap.abs h f')

/-- the allocation primitive `fresh` (`make` + `copy`, any spare capacity) yields a fresh result -/
theorem C14_fresh_result (h : Heap) (xs : List UInt8) (sp : Nat) :
    FreshResult h (fresh h xs sp).1 (fresh h xs sp).2 xs :=
  ⟨Proofs.GcsHeap.fresh_pres h xs sp,
   ⟨Proofs.GcsHeap.fresh_length h xs sp, by rw [Proofs.GcsHeap.fresh_slice],
    by rw [Proofs.GcsHeap.fresh_slice]⟩,
   Proofs.GcsHeap.fresh_wf h xs sp,
   Proofs.GcsHeap.fresh_read h xs sp,
   fun f' w =>
     ⟨Proofs.GcsHeap.abs_old_stores (Proofs.GcsHeap.fresh_pres h xs sp) f' w [] (by simp),
      fun ws hw => Proofs.GcsHeap.abs_old_stores (Proofs.GcsHeap.fresh_pres h xs sp) f' w ws hw⟩⟩

/-- **C14_accessors_fresh.**  For every heap, every object and every buffer growth policy `g`:
`Bytes()`, `PBytes()`, `NBytes()`, `NPBytes()` each return a slice of a newly allocated array
holding the value-level serialisation of the filter the receiver stands for, write nothing that
existed before (so `abs h' f = abs h f` for the receiver and every other earlier object), and no
store through the returned slice can change any earlier object. -/
theorem C14_accessors_fresh (g : Nat → Nat) (h : Heap) (f : FilterObj) :
    FreshResult h (bytes h f).1 (bytes h f).2 (GcsHeap.abs h f).data ∧
    FreshResult h (pBytes h f).1 (pBytes h f).2 (Gcs.PBytes (GcsHeap.abs h f)) ∧
    FreshResult h (nBytes g h f).1 (nBytes g h f).2 (Gcs.NBytes (GcsHeap.abs h f)) ∧
    FreshResult h (nPBytes g h f).1 (nPBytes g h f).2 (Gcs.NPBytes (GcsHeap.abs h f)) :=
  ⟨C14_fresh_result h _ _, C14_fresh_result h _ _, C14_fresh_result h _ _,
   C14_fresh_result h _ _⟩

/-- **Queries write nothing** (the GCS clause of C20).  `Match`, `ZipMatchAny`, `HashMatchAny`,
`MatchAny` decode a fresh copy of `filterData`: every array that existed is unchanged (hence every
filter object, the receiver included, stands for the same filter afterwards — `FreshResult` (v) /
`C14_abs_footprint`), and for arguments inside their arrays the answer is the value-level answer on
the filter the receiver stands for. -/
theorem C14_queries_write_nothing (sip : Bytes → UInt64) (h : Heap) (f : FilterObj) (d : Slice)
    (data : List Slice) :
    ((∀ (b : Nat) (a : List UInt8), h[b]? = some a → (matchH sip h f d).1[b]? = some a) ∧
     (∀ (b : Nat) (a : List UInt8), h[b]? = some a → (zipMatchAnyH sip h f data).1[b]? = some a) ∧
     (∀ (b : Nat) (a : List UInt8), h[b]? = some a → (hashMatchAnyH sip h f data).1[b]? = some a) ∧
     (∀ (b : Nat) (a : List UInt8), h[b]? = some a → (matchAnyH sip h f data).1[b]? = some a)) ∧
    ((d.len ≤ d.cap ∧ d.off + d.cap ≤ (arr h d.buf).length) →
      (matchH sip h f d).2 = Gcs.Match sip (GcsHeap.abs h f) (read h d)) ∧
    ((∀ s ∈ data, s.len ≤ s.cap ∧ s.off + s.cap ≤ (arr h s.buf).length) →
      (zipMatchAnyH sip h f data).2 = Gcs.ZipMatchAny sip (GcsHeap.abs h f) (data.map (read h)) ∧
      (hashMatchAnyH sip h f data).2 = Gcs.HashMatchAny sip (GcsHeap.abs h f) (data.map (read h)) ∧
      (matchAnyH sip h f data).2 = Gcs.MatchAny sip (GcsHeap.abs h f) (data.map (read h))) := by
  have pb : Proofs.SliceHeap.Pres h (bytes h f).1 := Proofs.GcsHeap.fresh_pres h _ 0
  have pz : Proofs.SliceHeap.Pres h (zipMatchAnyH sip h f data).1 := by
    unfold zipMatchAnyH; split
    · exact Proofs.SliceHeap.Pres.refl h
    · exact pb
  have ph : Proofs.SliceHeap.Pres h (hashMatchAnyH sip h f data).1 := by
    unfold hashMatchAnyH; split
    · exact Proofs.SliceHeap.Pres.refl h
    · exact pb
  have vz : (∀ s ∈ data, Proofs.SliceHeap.WF h s) →
      (zipMatchAnyH sip h f data).2 = Gcs.ZipMatchAny sip (GcsHeap.abs h f) (data.map (read h)) := by
    intro w
    unfold zipMatchAnyH Gcs.ZipMatchAny
    by_cases he : data.isEmpty = true
    · have : (data.map (read h)).isEmpty = true := by simpa using he
      rw [if_pos he, if_pos this]
    · have : ¬ (data.map (read h)).isEmpty = true := by simpa using he
      rw [if_neg he, if_neg this]
      simp only [Proofs.GcsHeap.viaCopy_bytes, Proofs.GcsHeap.map_read_pres pb data w, if_neg this]
  have vh : (∀ s ∈ data, Proofs.SliceHeap.WF h s) →
      (hashMatchAnyH sip h f data).2 = Gcs.HashMatchAny sip (GcsHeap.abs h f) (data.map (read h)) := by
    intro w
    unfold hashMatchAnyH Gcs.HashMatchAny
    by_cases he : data.isEmpty = true
    · have : (data.map (read h)).isEmpty = true := by simpa using he
      rw [if_pos he, if_pos this]
    · have : ¬ (data.map (read h)).isEmpty = true := by simpa using he
      rw [if_neg he, if_neg this]
      simp only [Proofs.GcsHeap.viaCopy_bytes, Proofs.GcsHeap.map_read_pres pb data w, if_neg this]
  refine ⟨⟨pb, pz, ph, ?_⟩, fun w => ?_, fun w => ⟨vz w, vh w, ?_⟩⟩
  · unfold matchAnyH; split
    · exact ph
    · exact pz
  · show Gcs.Match sip (viaCopy (bytes h f).1 f (bytes h f).2) (read (bytes h f).1 d) = _
    rw [Proofs.GcsHeap.viaCopy_bytes, pb.read_wf w]
  · unfold matchAnyH Gcs.MatchAny
    have hn : (GcsHeap.abs h f).n = f.n := rfl
    rw [hn, List.length_map]
    split
    · exact vh w
    · exact vz w

/-- **Round trip on the heap** (the theorems above compose): serialise an object (inside its
array, `N < 2^32`, `P ≤ 32`, modulus `N·M`) with `NBytes()` and rebuild it with `FromNBytes` from the
returned slice.  The new object stands for the same filter as the original, the original still
stands for what it stood for, the two objects and the serialisation occupy three different arrays,
and whatever is later stored into the serialisation or into any array that existed before changes
the rebuilt object not at all. -/
theorem C14_heap_roundtrip (g : Nat → Nat) (h : Heap) (f : FilterObj) (M : UInt64)
    (hw : f.filterData.len ≤ f.filterData.cap ∧
      f.filterData.off + f.filterData.cap ≤ (arr h f.filterData.buf).length)
    (hn : f.n < 2^32) (hp : f.p ≤ 32) (hM : f.modulusNP = UInt64.ofNat f.n * M) :
    ∃ h2 f2, fromNBytes (nBytes g h f).1 f.p M (nBytes g h f).2 = (h2, .ok f2) ∧
      GcsHeap.abs h2 f2 = GcsHeap.abs h f ∧ GcsHeap.abs h2 f = GcsHeap.abs h f ∧
      (nBytes g h f).2.buf = h.length ∧ f2.filterData.buf = h.length + 1 ∧
      (f.filterData.len = 0 ∨ f.filterData.buf < h.length) ∧
      ∀ ws : List (Nat × (List UInt8 → List UInt8)), (∀ w ∈ ws, w.1 ≤ h.length) →
        GcsHeap.abs (stores h2 ws) f2 = GcsHeap.abs h f := by
  obtain ⟨p1, ⟨l1, b1, _⟩, _, r1, o1⟩ := (C14_accessors_fresh g h f).2.2.1
  have t := (C14_rebuilt_owns_its_bytes (nBytes g h f).1 0 f.p M (nBytes g h f).2).2
  rw [r1, Proofs.Gcs.FromNBytes_NBytes _ f.p M hn hp] at t
  obtain ⟨h2, f2, e, ha, hs, ho, _⟩ := t
  have hv : (⟨(GcsHeap.abs h f).n, f.p, UInt64.ofNat (GcsHeap.abs h f).n * M, (GcsHeap.abs h f).data⟩ : Filter)
      = GcsHeap.abs h f := by
    show (⟨f.n, f.p, UInt64.ofNat f.n * M, _⟩ : Filter) = ⟨f.n, f.p, f.modulusNP, _⟩
    rw [hM]; rfl
  rw [hv] at ha
  refine ⟨h2, f2, e, ha, ?_, b1, by rw [hs, l1], Proofs.GcsHeap.wf_old_cases hw, fun ws hws => ?_⟩
  · have := Proofs.GcsHeap.abs_old_stores (Proofs.SliceHeap.Pres.trans p1 ho.1) f hw [] (by simp)
    exact this
  · rw [ho.2.2.2 ws (fun w hw' => by rw [l1]; have := hws w hw'; omega), ha]

/-! ### non-vacuity and the negative witness, on a concrete heap

Array 0 holds the N-prefixed serialisation `[3, 129, 136]` of the toy filter of the section above
(N = 3, P = 3, M = 5) plus one spare byte; the caller's slices `wD = a[1:3]` (the raw filter bytes,
capacity 3) and `wND = a[0:3]`. -/
def wHeap : Heap := [[3, 129, 136, 7], [42]]
def wD : Slice := ⟨0, 1, 2, 3⟩
def wND : Slice := ⟨0, 0, 3, 4⟩

-- the slices are in bounds, lie in an array of the heap, and read what they should
example : (wD.len ≤ wD.cap ∧ wD.off + wD.cap ≤ (arr wHeap wD.buf).length) ∧ wD.buf < wHeap.length ∧
    read wHeap wD = [129, 136] ∧ read wHeap wND = [3, 129, 136] := by decide

-- `FromBytes` / `FromNBytes` on it: both `.ok` branches of `C14_rebuilt_owns_its_bytes` are taken,
-- a new array 2 holds the copy, and the object stands for the toy filter
example : Gcs.FromBytes 3 3 5 (read wHeap wD) = .ok ⟨3, 3, 15, [129, 136]⟩ ∧
    Gcs.FromNBytes 3 5 (read wHeap wND) = .ok ⟨3, 3, 15, [129, 136]⟩ := by
  simp [Gcs.FromNBytes, Gcs.readVarInt, Gcs.FromBytes, wHeap, wD, wND, SliceHeap.read, SliceHeap.arr]

example : fromBytes wHeap 3 3 5 wD
    = ([[3, 129, 136, 7], [42], [129, 136]], .ok ⟨3, 3, 15, ⟨2, 0, 2, 2⟩⟩) := by decide +kernel

example : fromNBytes wHeap 3 5 wND
    = ([[3, 129, 136, 7], [42], [129, 136]], .ok ⟨3, 3, 15, ⟨2, 0, 2, 2⟩⟩) := by decide +kernel

-- … and the error branches
example : fromBytes wHeap 3 33 5 wD = (wHeap, .error .pTooBig) ∧
    fromNBytes wHeap 33 5 wND = (wHeap, .error .pTooBig) ∧
    fromNBytes wHeap 3 5 ⟨1, 0, 0, 1⟩ = (wHeap, .error .varint) := by decide +kernel

-- the frame clause on the witness: overwriting the caller's whole array afterwards is not seen
example : GcsHeap.abs ([[3, 129, 136, 7], [42], [129, 136]].modify wD.buf (writeAt · 0 [0, 0, 0, 0]))
      ⟨3, 3, 15, ⟨2, 0, 2, 2⟩⟩ = ⟨3, 3, 15, [129, 136]⟩ := by decide +kernel

-- the accessors on the rebuilt object (heap with three arrays): each result is in the new array 3
example :
    let h' : Heap := [[3, 129, 136, 7], [42], [129, 136]]
    let f : FilterObj := ⟨3, 3, 15, ⟨2, 0, 2, 2⟩⟩
    (f.filterData.len ≤ f.filterData.cap ∧
      f.filterData.off + f.filterData.cap ≤ (arr h' f.filterData.buf).length) ∧
    bytes h' f = (h' ++ [[129, 136]], ⟨3, 0, 2, 2⟩) ∧
    pBytes h' f = (h' ++ [[3, 129, 136]], ⟨3, 0, 3, 3⟩) ∧
    nBytes (fun n => n) h' f = (h' ++ [[3, 129, 136, 0, 0, 0]], ⟨3, 0, 3, 6⟩) ∧
    nPBytes (fun _ => 0) h' f = (h' ++ [[3, 3, 129, 136]], ⟨3, 0, 4, 4⟩) := by decide +kernel

/-- **C14_aliasing_is_observable** (negative witness).  The seeded defect `f.filterData = d`
(`fromBytesAliasing`) returns, on the same arguments, an object that stands for the *same* filter
as the correct `fromBytes` — no value-level test distinguishes them — but one store through the
caller's slice (`d[1] = 0`, i.e. position 2 of array 0) changes the filter the object stands for,
while the object of the correct `fromBytes` is unaffected by the same store.  So
`C14_rebuilt_owns_its_bytes` is not true of every implementation with the right values. -/
theorem C14_aliasing_is_observable :
    ∃ fa f h', fromBytesAliasing wHeap 3 3 5 wD = (wHeap, .ok fa) ∧
      fromBytes wHeap 3 3 5 wD = (h', .ok f) ∧
      GcsHeap.abs wHeap fa = ⟨3, 3, 15, [129, 136]⟩ ∧ GcsHeap.abs h' f = ⟨3, 3, 15, [129, 136]⟩ ∧
      GcsHeap.abs (wHeap.modify wD.buf (writeAt · 2 [0])) fa = ⟨3, 3, 15, [129, 0]⟩ ∧
      GcsHeap.abs (wHeap.modify wD.buf (writeAt · 2 [0])) fa ≠ GcsHeap.abs wHeap fa ∧
      GcsHeap.abs (h'.modify wD.buf (writeAt · 2 [0])) f = GcsHeap.abs h' f :=
  ⟨⟨3, 3, 15, wD⟩, ⟨3, 3, 15, ⟨2, 0, 2, 2⟩⟩, [[3, 129, 136, 7], [42], [129, 136]],
    by decide +kernel, by decide +kernel, by decide +kernel, by decide +kernel, by decide +kernel,
    by decide +kernel, by decide +kernel⟩

/-- the aliasing object violates clause (ii)/(iv) of `OwnsFresh` -/
example : ¬ OwnsFresh wHeap wHeap ⟨3, 3, 15, wD⟩ := by
  intro ⟨_, _, _, hf⟩
  have := hf [(0, (writeAt · 2 [0]))] (by decide)
  revert this
  decide +kernel

-- a query on the witness (argument slice `⟨1, 0, 1, 1⟩` = `[42]`, inside its array): the heap grows
-- by the private copy only, the answer is the model's
example :
    let h' : Heap := [[3, 129, 136, 7], [42], [129, 136]]
    let q : Slice := ⟨1, 0, 1, 1⟩
    (q.len ≤ q.cap ∧ q.off + q.cap ≤ (arr h' q.buf).length) ∧
    matchH toySip h' ⟨3, 3, 15, ⟨2, 0, 2, 2⟩⟩ q
      = (h' ++ [[129, 136]], Gcs.Match toySip ⟨3, 3, 15, [129, 136]⟩ [42]) ∧
    (∀ s ∈ [q, wD], s.len ≤ s.cap ∧ s.off + s.cap ≤ (arr h' s.buf).length) ∧
    (matchAnyH toySip h' ⟨3, 3, 15, ⟨2, 0, 2, 2⟩⟩ [q, wD]).1 = h' ++ [[129, 136]] := by
  decide +kernel

-- the hypotheses of `C14_heap_roundtrip` on the witness object
example : (3 : Nat) < 2^32 ∧ (3 : Nat) ≤ 32 ∧ (15 : UInt64) = UInt64.ofNat 3 * 5 := by decide

end Memory

end Bch.Props.C14
