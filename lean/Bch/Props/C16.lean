namespace Bch.Props.C16
theorem placeholder : True := trivial
end Bch.Props.C16
